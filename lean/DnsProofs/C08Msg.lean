/-
  C08 (whole messages) — `Msg.Len()` against `Msg.Pack()` on the whole-message models: for every decoded message the
  length the model of `Len` predicts (DnsModel/MsgLen.lean: the translated `len()` bodies, Len's simulated compression
  threaded through questions and sections) is at least the number of octets the compressing packer model
  (DnsModel/MsgPackC.lean) writes.  The name simulation of C08Sim (`Inv`, `inv_name`) carries the names; everything
  else is a run of octets for which the `len()` step counts at least what the `pack()` step writes.
-/
import DnsProofs.C08Compose
import DnsProofs.C08Len
import DnsProofs.C04Msg
import DnsProofs.C02Msg
import DnsProofs.C11
import DnsProofs.C05
import DnsModel.MsgLen
import DnsModel.MsgPackC
namespace Dns.C08M
open Dns Dns.C03 Dns.C04 Dns.C08 Dns.MU Dns.Len Dns.C02M

/-! ### names -/

/-- the packer on the library's spelling of a non-empty valid label list is the recursion `specTail` -/
theorem packNameC_spec (pos : Nat) (m : CMap) (cp : Bool) (ls : List Bytes) (hne : ls ≠ []) (hv : Valid ls) :
    ∃ ptr, packNameC (presentLabels ls) pos m cp
      = .ok ⟨(specTail pos m cp ls 0).1, m ++ (specTail pos m cp ls 0).2, ptr⟩ := by
  have hnn := presentLabels_ne_nil ls hne
  have hroot := C19.presentLabels_ne_root ls (valid_nonempty_labels ls hv)
  have hfq : isFqdn (presentLabels ls) = true := by
    rcases List.eq_nil_or_concat ls with h | ⟨i, x, h⟩
    · exact absurd h hne
    · rw [h, List.concat_eq_append]; exact isFqdn_presentLabels i x
  obtain ⟨ptr, hp⟩ := packLoopC_labels ls true ((presentLabels ls).length > 1) false pos [] m [] cp
    hv.1 (by have := hv.2; simp; omega) (by simp)
  have hemp : (presentLabels ls).isEmpty = false := by
    cases hpl : presentLabels ls with
    | nil => exact absurd hpl hnn
    | cons _ _ => rfl
  refine ⟨ptr, ?_⟩
  unfold packNameC
  simp only [hemp, hfq, hroot, Bool.false_eq_true, ↓reduceIte, Bool.not_true]
  simp only [List.append_nil, List.length_nil, List.nil_append] at hp
  exact hp

theorem inv_est (pos off : Nat) (m : CMap) (c : List Bytes) (g est : Nat) (hge : g ≤ est) (h : Inv pos off m c) :
    Inv (pos + g) (off + est) m c := inv_gap_est pos off m c g est hge h

/-- **one name**: a name the decoder can have produced (or the empty text of a zero value), packed with the map and
    measured by Len with its set, keeps the two sides related -/
theorem name_step (text : Bytes) (h : text = [] ∨ NameOK text) (pos off : Nat) (m : CMap) (c : List Bytes) (cp : Bool)
    (hinv : Inv pos off m c) (w : Bytes) (m' : CMap) (hp : nameC text pos m cp = some (w, m')) :
    Inv (pos + w.length) (off + (domainNameLen text off (some c) cp).1) m'
      ((domainNameLen text off (some c) cp).2.getD c) := by
  rcases h with rfl | ⟨ls, hok, rfl⟩
  · simp only [nameC, packNameC, List.isEmpty_nil, ↓reduceIte, Option.some.injEq, Prod.mk.injEq] at hp
    obtain ⟨rfl, rfl⟩ := hp
    simp only [domainNameLen, List.isEmpty_nil, Bool.true_or, ↓reduceIte, Option.getD_some, List.length_nil]
    exact inv_est pos off m c 0 1 (by omega) hinv
  · cases ls with
    | nil =>
      have : nameC (presentOf []) pos m cp = some ([0], m) := by
        simp [nameC, presentOf, packNameC, isFqdn, trailingBackslashes]
      rw [this] at hp
      simp only [Option.some.injEq, Prod.mk.injEq] at hp
      obtain ⟨rfl, rfl⟩ := hp
      have hd : domainNameLen (presentOf []) off (some c) cp = (1, some c) := by
        simp [domainNameLen, presentOf]
      rw [hd]
      exact inv_est pos off m c 1 1 (by omega) hinv
    | cons l rest =>
      rw [presentOf_eq] at hp ⊢
      have hv := C04M.wireNameOK_valid (l :: rest) hok
      obtain ⟨ptr, hspec⟩ := packNameC_spec pos m cp (l :: rest) (by simp) hv
      simp only [nameC, hspec, Option.some.injEq, Prod.mk.injEq] at hp
      obtain ⟨rfl, rfl⟩ := hp
      have hinv' : Inv (List.replicate pos (0 : UInt8)).length off m c := by simpa using hinv
      have := inv_name (List.replicate pos 0) off m c cp (l :: rest) (by simp) hv hinv'
      simpa [List.length_append] using this

/-- and Len counts at least the octets written for this one name -/
theorem name_le (text : Bytes) (h : text = [] ∨ NameOK text) (pos off : Nat) (m : CMap) (c : List Bytes) (cp : Bool)
    (hinv : Inv pos off m c) (w : Bytes) (m' : CMap) (hp : nameC text pos m cp = some (w, m')) :
    w.length ≤ (domainNameLen text off (some c) cp).1 := by
  rcases h with rfl | ⟨ls, hok, rfl⟩
  · simp only [nameC, packNameC, List.isEmpty_nil, ↓reduceIte, Option.some.injEq, Prod.mk.injEq] at hp
    obtain ⟨rfl, rfl⟩ := hp
    simp
  · cases ls with
    | nil =>
      have : nameC (presentOf []) pos m cp = some ([0], m) := by
        simp [nameC, presentOf, packNameC, isFqdn, trailingBackslashes]
      rw [this] at hp
      simp only [Option.some.injEq, Prod.mk.injEq] at hp
      obtain ⟨rfl, rfl⟩ := hp
      have hd : domainNameLen (presentOf []) off (some c) cp = (1, some c) := by
        simp [domainNameLen, presentOf]
      rw [hd]; simp
    | cons l rest =>
      rw [presentOf_eq] at hp ⊢
      have hv := C04M.wireNameOK_valid (l :: rest) hok
      obtain ⟨ptr, hspec⟩ := packNameC_spec pos m cp (l :: rest) (by simp) hv
      simp only [nameC, hspec, Option.some.injEq, Prod.mk.injEq] at hp
      obtain ⟨rfl, rfl⟩ := hp
      rw [domainNameLen_labels (l :: rest) (by simp) hv off c cp]
      by_cases hs : (cp || decide (off < Gen.maxCompressionOffset)) = true
      · simp only [hs, ↓reduceIte]
        exact (lenTail_ge pos m hinv.back hinv.closed off cp (l :: rest) hv 0 0 c
          (by have := hinv.pos; omega) (fun k hk => Or.inl (hinv.keys k hk))).1
      · simp only [hs, Bool.false_eq_true, ↓reduceIte]
        exact specTail_length_le pos m cp (l :: rest) 0

theorem wireLabels_le_present (ls : List Bytes) : (wireLabels ls).length ≤ (presentLabels ls).length := by
  induction ls with
  | nil => simp [wireLabels, presentLabels]
  | cons l ls ih =>
    have h1 := wireLabels_length_cons l ls
    have h2 := presentLabel_length_ge l
    have h3 : (presentLabels (l :: ls)).length = (presentLabel l).length + 1 + (presentLabels ls).length := by
      simp [presentLabels]; omega
    omega

/-- a name that the packer enters in its map while Len only counts `len(text) + 1` for it (the gateway host of
    IPSECKEY / AMTRELAY): the two sides stay related, Len's set unchanged -/
theorem name_uncounted (text : Bytes) (h : text = [] ∨ NameOK text) (pos off : Nat) (m : CMap) (c : List Bytes)
    (hinv : Inv pos off m c) (w : Bytes) (m' : CMap) (hp : nameC text pos m false = some (w, m')) :
    Inv (pos + w.length) (off + (text.length + 1)) m' c ∧ w.length ≤ text.length + 1 := by
  rcases h with rfl | ⟨ls, hok, rfl⟩
  · simp only [nameC, packNameC, List.isEmpty_nil, ↓reduceIte, Option.some.injEq, Prod.mk.injEq] at hp
    obtain ⟨rfl, rfl⟩ := hp
    exact ⟨inv_est pos off m c 0 _ (by simp) hinv, by simp⟩
  · cases ls with
    | nil =>
      have : nameC (presentOf []) pos m false = some ([0], m) := by
        simp [nameC, presentOf, packNameC, isFqdn, trailingBackslashes]
      rw [this] at hp
      simp only [Option.some.injEq, Prod.mk.injEq] at hp
      obtain ⟨rfl, rfl⟩ := hp
      exact ⟨inv_est pos off m c 1 _ (by simp [presentOf]) hinv, by simp [presentOf]⟩
    | cons l rest =>
      rw [presentOf_eq] at hp ⊢
      have hv := C04M.wireNameOK_valid (l :: rest) hok
      obtain ⟨ptr, hspec⟩ := packNameC_spec pos m false (l :: rest) (by simp) hv
      simp only [nameC, hspec, Option.some.injEq, Prod.mk.injEq] at hp
      obtain ⟨rfl, rfl⟩ := hp
      have hlen : (specTail pos m false (l :: rest) 0).1.length ≤ (presentLabels (l :: rest)).length + 1 := by
        have := specTail_length_le pos m false (l :: rest) 0
        have := wireLabels_le_present (l :: rest)
        omega
      refine ⟨⟨by have := hinv.pos; omega, ?_, ?_, closed_step pos m false (l :: rest) hv hinv.closed⟩, hlen⟩
      · intro k hk
        exact (hasKey_append _ _ _).mpr (Or.inl (hinv.keys k hk))
      · intro e he
        rcases List.mem_append.mp he with h | h
        · have := hinv.back e h; omega
        · have := specTail_entries_lt pos m false (l :: rest) 0 e h; omega

/-! ### a type's `len()` body lined up with its `pack()` body -/

/-- the pack-side view of one field: the unpack step that filled it (codec and field name), the codec step the packer
    runs for it, the compress flag the generated pack body passes -/
abbrev PPS := PStep × CStep × Bool

def pplOf (kind : String) : Option (List PPS) :=
  match Gen.unpackPlans.lookup kind, Gen.unpackCodecs.lookup kind with
  | some pu, some cu =>
    let pu' := pu.filter (fun s => s.1 != "earlyexit")
    let cu' := stripPlan cu
    let fl := flagsOf kind
    if pu'.length = cu'.length ∧ cu'.length = fl.length then some (pu'.zip (cu'.zip fl)) else none
  | _, _ => none

/-- the `len()` steps as `lenRRC` runs them -/
def planOfC (kind : String) : Option (List LStep) :=
  if kind = "OPT" then some [LStep.svcb "Option"] else planOf kind

def uintW : CStep → Option Nat | .uint w => some w | _ => none
def constK : LStep → Option Nat | .const k => some k | _ => none

/-- a variable-length `len()` step against the field it measures -/
def accountsC (kind : String) (all : List PPS) (idx : Nat) (l : LStep) (p : PPS) : Bool :=
  let codec := p.1.1
  let field := p.1.2.1
  let cs := p.2.1
  let flag := p.2.2
  match l with
  | .name f c => codec = "UnpackDomainName" ∧ cs = .name ∧ field = f ∧ flag = c
  | .str1 f => field = f ∧ ((codec = "unpackString" ∧ cs = .str) ∨
      ((codec = "unpackStringOctet" ∨ codec = "unpackStringAny") ∧ cs = .blobRest))
  | .strLen f => field = f ∧ (codec = "unpackStringOctet" ∨ codec = "unpackStringAny" ∨ codec = "unpackStringBase32") ∧
      cs = .blobRest
  | .hexHalf f => field = f ∧ codec = "unpackStringHex" ∧ cs = .blobRest
  | .b64 f => field = f ∧ codec = "unpackStringBase64" ∧ cs = .blobRest
  | .b32 f => field = f ∧ codec = "unpackStringBase32" ∧ cs = .blobRest
  | .txt f => field = f ∧ codec = "unpackStringTxt" ∧ cs = .txt
  | .names f c => field = f ∧ codec = "unpackDataDomainNames" ∧ cs = .names ∧ c = false
  | .ipIf f n => field = f ∧ ((codec = "unpackDataA" ∧ cs = .a ∧ n = 4) ∨ (codec = "unpackDataAAAA" ∧ cs = .aaaa ∧ n = 16))
  | .apl f => field = f ∧ codec = "unpackDataApl" ∧ cs = .apl
  | .svcb f => field = f ∧ ((kind = "OPT" ∧ codec = "unpackDataOpt" ∧ cs = .tlvs false) ∨
      ((kind = "SVCB" ∨ kind = "HTTPS") ∧ codec = "unpackDataSVCB" ∧ cs = .tlvs true))
  | .bitmap f => field = f ∧ codec = "unpackDataNsec" ∧ cs = .nsec
  | .gateway tf m hf =>
    -- the gateway of IPSECKEY / AMTRELAY: its shape is chosen by an earlier fixed-width field, which both bodies name
    decide (codec = "unpackIPSECGateway") && decide (hf = "GatewayHost") &&
      (match cs with
       | .gateway i mk => decide (mk = m) && decide (i < idx) &&
           (match all[i]? with
            | some q => decide (q.1.2.1 = tf) && (uintW q.2.1).isSome && decide (q.1.1 ≠ "unpackIPSECGateway")
            | none => false)
       | _ => false)
  | .const _ | .other _ => false

/-- walk both bodies: `len()` may count fixed-width octets before `pack()` writes them (the credit `cr`), never after a
    later variable-length field; the variable-length fields pair up in order -/
def alignedF (kind : String) (all : List PPS) : Nat → Nat → Nat → List LStep → List PPS → Bool
  | 0, _, _, _, _ => false
  | f + 1, cr, idx, ls, ps =>
    match ls.head?.bind constK with
    | some k => alignedF kind all f (cr + k) idx ls.tail ps
    | none =>
      match ps.head?.bind (fun p => uintW p.2.1) with
      | some w => decide (w ≤ cr) && alignedF kind all f (cr - w) (idx + 1) ls ps.tail
      | none =>
        match ls, ps with
        | [], [] => true
        | l :: ls', p :: ps' => accountsC kind all idx l p && alignedF kind all f cr (idx + 1) ls' ps'
        | _, _ => false

/-- the struct fields an unpack step fills -/
def stepKeys (p : PStep) : List String :=
  if p.1 = "unpackIPSECGateway" then ["GatewayAddr", "GatewayHost"] else [p.2.1]

/-- every step fills struct fields of its own -/
def keysDistinct (ps : List PPS) : Bool := decide ((ps.flatMap (fun p => stepKeys p.1)).Nodup)

def alignedKind (kind : String) : Bool :=
  match planOfC kind, pplOf kind with
  | some ls, some ps => alignedF kind ps (ls.length + ps.length + 1) 0 0 ls ps && keysDistinct ps
  | _, _ => false

/-! ### what a `len()` step adds against what the `pack()` step writes -/

theorem escape_ge (bs : Bytes) : bs.length ≤ (txtEscape bs).length := by
  have h := C08L.unescape_le (txtEscape bs)
  rw [C05.charstring_roundtrip] at h
  exact h

theorem dbl_ge (bs : Bytes) : bs.length ≤ (doubleBackslash bs).length := by
  induction bs with
  | nil => simp [doubleBackslash]
  | cons b bs ih =>
    have : doubleBackslash (b :: bs) = (if b = 92 then [92, 92] else [b]) ++ doubleBackslash bs := by
      simp [doubleBackslash]
    rw [this]
    split <;> simp <;> omega

theorem filler_length (n : Nat) : (filler n).length = n := by simp [filler]

theorem b64_ge (n : Nat) : n ≤ b64DecodedLen ((n + 2) / 3 * 4) := by unfold b64DecodedLen; omega
theorem b32_ge (n : Nat) : n ≤ b32DecodedLen ((8 * n + 4) / 5) := by unfold b32DecodedLen; omega

theorem foldl_txt (strs : List Bytes) (a : Nat) :
    strs.foldl (fun a x => a + x.length + 1) a = a + (strs.map (fun x => x.length + 1)).sum := by
  induction strs generalizing a with
  | nil => simp
  | cons x xs ih => simp only [List.foldl_cons, ih, List.map_cons, List.sum_cons]; omega

theorem txt_size (strs : List Bytes) (w : Bytes) (h : packTxtStrings strs = some w) :
    w.length ≤ (strs.map txtEscape).foldl (fun a x => a + x.length + 1) 0 := by
  rw [foldl_txt, Nat.zero_add]
  induction strs generalizing w with
  | nil => simp [packTxtStrings] at h; subst h; simp
  | cons x xs ih =>
    simp only [packTxtStrings] at h
    split at h
    · cases hr : packTxtStrings xs with
      | none => simp [hr] at h
      | some r =>
        simp only [hr, Option.map_some, Option.some.injEq] at h
        subst h
        have := ih r hr
        have := escape_ge x
        simp only [List.length_cons, List.length_append, List.map_cons, List.sum_cons]
        omega
    · cases h

theorem trimZeros_le (bs : Bytes) : (trimZeros bs).length ≤ bs.length := by
  unfold trimZeros
  rw [List.length_reverse]
  have := (List.dropWhile_sublist (· == (0 : UInt8)) (l := bs.reverse)).length_le
  simpa using this

theorem aplItem_size (it : Nat × Bool × Bytes) (w : Bytes) (h : packAplItem it = some w) :
    w.length ≤ 4 + (it.1 + 7) / 8 := by
  obtain ⟨plen, neg, ip⟩ := it
  simp only [packAplItem] at h
  split at h
  · simp only [Option.some.injEq] at h
    subst h
    have := trimZeros_le ((maskBytes plen ip).take ((plen + 7) / 8))
    have h2 : ((maskBytes plen ip).take ((plen + 7) / 8)).length ≤ (plen + 7) / 8 := by
      rw [List.length_take]; omega
    simp only [List.length_append, List.length_cons, C11.beBytes_length]
    omega
  · cases h

theorem apl_size (items : List (Nat × Bool × Bytes)) (w : Bytes) (h : packApl items = some w) :
    w.length ≤ (items.map (fun it => 4 + (it.1 + 7) / 8)).sum := by
  induction items generalizing w with
  | nil => simp [packApl] at h; subst h; simp
  | cons it rest ih =>
    simp only [packApl] at h
    cases ha : packAplItem it with
    | none => simp [ha] at h
    | some a =>
      cases hr : packApl rest with
      | none => simp [ha, hr] at h
      | some r =>
        simp only [ha, hr, Option.some.injEq] at h
        subst h
        have := aplItem_size it a ha
        have := ih r hr
        simp only [List.length_append, List.map_cons, List.sum_cons]
        omega

theorem tlvs_size (items : List (Nat × Bytes)) (w : Bytes) (h : packTlvs items = some w) :
    w.length = (items.map (fun x => 4 + x.2.length)).sum := by
  induction items generalizing w with
  | nil => simp [packTlvs] at h; subst h; simp
  | cons it rest ih =>
    obtain ⟨c, d⟩ := it
    simp only [packTlvs] at h
    split at h
    · cases hr : packTlvs rest with
      | none => simp [hr] at h
      | some r =>
        simp only [hr, Option.map_some, Option.some.injEq] at h
        subst h
        have := ih r hr
        simp only [List.length_append, C11.beBytes_length, List.map_cons, List.sum_cons]
        omega
    · cases h

/-- OPT: `len()` packs every option to measure it, the packer packs the same options -/
theorem opt_est (items items' : List (Nat × Bytes)) (h : recodeKV "OPT" items = some items') :
    (items'.map (fun x => 4 + x.2.length)).sum =
      (items.map (fun x => 4 + (match (Opt.unpackOpt x.1 x.2).bind Opt.packOpt with
        | some d => d.length
        | none => 0))).sum := by
  simp only [recodeKV, ↓reduceIte] at h
  induction items generalizing items' with
  | nil => simp at h; subst h; simp
  | cons x rest ih =>
    rw [List.mapM_cons] at h
    cases hx : (Opt.unpackOpt x.1 x.2).bind (fun o => (Opt.packOpt o).map (fun d => (o.code, d))) with
    | none => simp [hx] at h
    | some y =>
      cases hr : rest.mapM (fun x => (Opt.unpackOpt x.1 x.2).bind (fun o => (Opt.packOpt o).map (fun d => (o.code, d)))) with
      | none => simp [hx, hr] at h
      | some r =>
        simp [hx, hr] at h
        subst h
        have := ih r hr
        cases ho : Opt.unpackOpt x.1 x.2 with
        | none => simp [ho] at hx
        | some o =>
          cases hd : Opt.packOpt o with
          | none => simp [ho, hd] at hx
          | some d =>
            simp only [ho, hd, Option.bind_some, Option.map_some, Option.some.injEq] at hx
            subst hx
            simp only [List.map_cons, List.sum_cons, ho, hd, Option.bind_some]
            omega

/-! #### SVCB / HTTPS parameters: what the packer writes for a decoded value is no longer than the value was -/

theorem chunks_flatten_eq (n : Nat) (fuel : Nat) (b : Bytes) (hf : b.length ≤ fuel) (hn : 0 < n) :
    (Opt.chunks n fuel b).flatten = b := by
  induction fuel generalizing b with
  | zero =>
    have : b = [] := List.eq_nil_of_length_eq_zero (by omega)
    subst this; rfl
  | succ f ih =>
    simp only [Opt.chunks]
    split
    · rename_i he; simp only [List.isEmpty_iff] at he; subst he; rfl
    · rename_i he
      have hpos : 0 < b.length := by
        cases b with
        | nil => simp at he
        | cons _ _ => simp
      simp only [List.flatten_cons]
      rw [ih (b.drop n) (by simp only [List.length_drop]; omega), List.take_append_drop]

theorem chunks_count (n : Nat) (hn : 0 < n) (fuel : Nat) (b : Bytes) (hf : b.length ≤ fuel) (hb : b.length % n = 0) :
    (Opt.chunks n fuel b).length * n = b.length := by
  induction fuel generalizing b with
  | zero =>
    have : b = [] := List.eq_nil_of_length_eq_zero (by omega)
    subst this; simp [Opt.chunks]
  | succ f ih =>
    simp only [Opt.chunks]
    split
    · rename_i he; simp only [List.isEmpty_iff] at he; subst he; simp
    · rename_i he
      have hpos : 0 < b.length := by
        cases b with
        | nil => simp at he
        | cons _ _ => simp
      have hge : n ≤ b.length := Nat.le_of_dvd hpos (Nat.dvd_of_mod_eq_zero hb)
      have hd : (b.drop n).length % n = 0 := by
        simp only [List.length_drop]
        have := Nat.sub_mod_eq_zero_of_mod_eq (m := b.length) (n := n) (k := n) (by simp [hb])
        exact this
      have := ih (b.drop n) (by simp only [List.length_drop]; omega) hd
      simp only [List.length_cons, List.length_drop] at this ⊢
      rw [Nat.add_mul, this]
      omega

theorem insertNat_length (x : Nat) (ys : List Nat) : (Opt.insertNat x ys).length = ys.length + 1 := by
  induction ys with
  | nil => rfl
  | cons y ys ih => simp only [Opt.insertNat]; split <;> simp [ih]

theorem sortNat_length (xs : List Nat) : (Opt.sortNat xs).length = xs.length := by
  induction xs with
  | nil => rfl
  | cons x xs ih => simp [Opt.sortNat, insertNat_length, ih]

theorem flatMap_be2_length (xs : List Nat) : (xs.flatMap (beBytes 2)).length = xs.length * 2 := by
  induction xs with
  | nil => rfl
  | cons x xs ih => simp only [List.flatMap_cons, List.length_append, C11.beBytes_length, ih, List.length_cons]; omega

theorem alpn_recode_len (fuel : Nat) (d : Bytes) (ids : List Bytes) (d' : Bytes)
    (hu : Opt.unpackAlpn fuel d = some ids) (hp : Opt.packAlpn ids = some d') : d'.length ≤ d.length := by
  induction fuel generalizing d ids d' with
  | zero => simp [Opt.unpackAlpn] at hu
  | succ f ih =>
    cases d with
    | nil => simp [Opt.unpackAlpn] at hu; subst hu; simp [Opt.packAlpn] at hp; subst hp; simp
    | cons l rest =>
      simp only [Opt.unpackAlpn] at hu
      split at hu
      · rename_i hle
        cases hr : Opt.unpackAlpn f (rest.drop l.toNat) with
        | none => simp [hr] at hu
        | some r =>
          simp only [hr, Option.map_some, Option.some.injEq] at hu
          subst hu
          simp only [Opt.packAlpn] at hp
          split at hp
          · cases hp
          · cases hq : Opt.packAlpn r with
            | none => simp [hq] at hp
            | some r' =>
              simp only [hq, Option.map_some, Option.some.injEq] at hp
              subst hp
              have := ih (rest.drop l.toNat) r r' hr hq
              simp only [List.length_cons, List.length_append, List.length_take, List.length_drop] at this ⊢
              omega
      · cases hu

/-- one parameter: decode, encode again -/
theorem param_recode_len (k : Nat) (d : Bytes) (q : Opt.Param) (d' : Bytes) (hu : Opt.unpackParam k d = some q)
    (hp : Opt.packParam q = some d') : d'.length ≤ d.length := by
  unfold Opt.unpackParam at hu
  split at hu
  · split at hu
    · cases hu
    · rename_i heven
      simp only [Option.some.injEq] at hu; subst hu
      simp only [Opt.packParam] at hp
      split at hp
      · simp only [Option.some.injEq] at hp; subst hp
        rw [flatMap_be2_length, sortNat_length, List.length_map]
        have := chunks_count 2 (by omega) d.length d (Nat.le_refl _) (by omega)
        omega
      · cases hp
  · split at hu
    · cases ha : Opt.unpackAlpn (d.length + 1) d with
      | none => simp [ha] at hu
      | some ids =>
        simp only [ha, Option.map_some, Option.some.injEq] at hu; subst hu
        exact alpn_recode_len _ d ids d' ha hp
    · split at hu
      · split at hu
        · simp only [Option.some.injEq] at hu; subst hu
          simp only [Opt.packParam, Option.some.injEq] at hp; subst hp; simp
        · cases hu
      · split at hu
        · split at hu
          · rename_i h2
            simp only [Option.some.injEq] at hu; subst hu
            simp only [Opt.packParam] at hp
            split at hp
            · simp only [Option.some.injEq] at hp; subst hp; rw [C11.beBytes_length]; omega
            · cases hp
          · cases hu
        · split at hu
          · split at hu
            · cases hu
            · simp only [Option.some.injEq] at hu; subst hu
              simp only [Opt.packParam] at hp
              split at hp
              · simp only [Option.some.injEq] at hp; subst hp
                rw [chunks_flatten_eq 4 d.length d (Nat.le_refl _) (by omega)]; exact Nat.le_refl _
              · cases hp
          · split at hu
            · simp only [Option.some.injEq] at hu; subst hu
              simp only [Opt.packParam, Option.some.injEq] at hp; subst hp; exact Nat.le_refl _
            · split at hu
              · split at hu
                · cases hu
                · split at hu
                  · cases hu
                  · simp only [Option.some.injEq] at hu; subst hu
                    simp only [Opt.packParam] at hp
                    split at hp
                    · simp only [Option.some.injEq] at hp; subst hp
                      rw [chunks_flatten_eq 16 d.length d (Nat.le_refl _) (by omega)]; exact Nat.le_refl _
                    · cases hp
              · split at hu
                · simp only [Option.some.injEq] at hu; subst hu
                  simp only [Opt.packParam, Option.some.injEq] at hp; subst hp; exact Nat.le_refl _
                · split at hu
                  · split at hu
                    · simp only [Option.some.injEq] at hu; subst hu
                      simp only [Opt.packParam, Option.some.injEq] at hp; subst hp; simp
                    · cases hu
                  · split at hu
                    · cases hu
                    · simp only [Option.some.injEq] at hu; subst hu
                      simp only [Opt.packParam, Option.some.injEq] at hp; subst hp; exact Nat.le_refl _

theorem insertKV_sum (f : Nat × Bytes → Nat) (x : Nat × Bytes) (ys : List (Nat × Bytes)) :
    ((insertKV x ys).map f).sum = f x + (ys.map f).sum := by
  induction ys with
  | nil => simp [insertKV]
  | cons y ys ih =>
    simp only [insertKV]
    split
    · simp
    · simp only [List.map_cons, List.sum_cons, ih]; omega

theorem sortKV_sum (f : Nat × Bytes → Nat) (xs : List (Nat × Bytes)) : ((sortKV xs).map f).sum = (xs.map f).sum := by
  induction xs with
  | nil => rfl
  | cons x xs ih => simp only [sortKV, insertKV_sum, ih, List.map_cons, List.sum_cons]

/-- SVCB / HTTPS: `len()` adds `4 + x.len()` for every value as decoded; the packer writes the values encoded again -/
theorem svcb_est (kind : String) (hk : kind = "SVCB" ∨ kind = "HTTPS") (items items' : List (Nat × Bytes))
    (h : recodeKV kind items = some items') :
    (items'.map (fun x => 4 + x.2.length)).sum ≤ (items.map (fun x => 4 + x.2.length)).sum := by
  have hno : kind ≠ "OPT" := by rcases hk with rfl | rfl <;> decide
  simp only [recodeKV, hno, ↓reduceIte, hk] at h
  induction items generalizing items' with
  | nil => simp at h; subst h; simp
  | cons x rest ih =>
    rw [List.mapM_cons] at h
    cases hx : (Opt.unpackParam x.1 x.2).bind (fun q => (Opt.packParam q).map (fun d => (q.key, d))) with
    | none => simp [hx] at h
    | some y =>
      cases hr : rest.mapM (fun x => (Opt.unpackParam x.1 x.2).bind (fun q => (Opt.packParam q).map (fun d => (q.key, d)))) with
      | none => simp [hx, hr] at h
      | some r =>
        simp [hx, hr] at h
        subst h
        have := ih r hr
        cases ho : Opt.unpackParam x.1 x.2 with
        | none => simp [ho] at hx
        | some q =>
          cases hd : Opt.packParam q with
          | none => simp [ho, hd] at hx
          | some d =>
            simp only [ho, hd, Option.bind_some, Option.map_some, Option.some.injEq] at hx
            subst hx
            have := param_recode_len x.1 x.2 q d ho hd
            simp only [List.map_cons, List.sum_cons]
            omega

/-! ### one variable-length field -/

/-- the zero value of a Go field -/
def isDefault : FVal → Bool
  | .n v => v == 0
  | .s t => t.isEmpty
  | .ss t => t.isEmpty
  | .ip a => a.isEmpty
  | .ts t => t.isEmpty

/-- `len()` finds the value under the field's name — or nothing, and the value is the zero value it then assumes -/
def Holds (fs : Fields) (x : String × FVal) : Prop :=
  fs.lookup x.1 = some x.2 ∨ (fs.lookup x.1 = none ∧ isDefault x.2 = true)

/-- what the unpack step made of the value is what `len()` finds under the field's name -/
def FieldsAgree (fs : Fields) (kind : String) (pu : PStep) (v : Val) : Prop :=
  ∃ g, fieldsOfStep kind pu v = some g ∧ ∀ x ∈ g, Holds fs x

theorem dnl_some (s : Bytes) (off : Nat) (c : List Bytes) (cp : Bool) :
    (domainNameLen s off (some c) cp).2 = some ((domainNameLen s off (some c) cp).2.getD c) := by
  unfold domainNameLen
  split
  · rfl
  · simp only
    split
    · split <;> rfl
    · rfl

theorem names_step (texts : List Bytes) (h : ∀ t ∈ texts, NameOK t) (pos off : Nat) (m : CMap) (c : List Bytes) (a0 : Nat)
    (hinv : Inv pos (off + a0) m c) (w : Bytes) (m' : CMap) (hp : packNamesC pos m texts = some (w, m')) :
    ∃ c', (texts.foldl (fun (a : Nat × Option (List Bytes)) x =>
        (a.1 + (domainNameLen x (off + a.1) a.2 false).1, (domainNameLen x (off + a.1) a.2 false).2)) (a0, some c)).2 = some c' ∧
      Inv (pos + w.length) (off + (texts.foldl (fun (a : Nat × Option (List Bytes)) x =>
        (a.1 + (domainNameLen x (off + a.1) a.2 false).1, (domainNameLen x (off + a.1) a.2 false).2)) (a0, some c)).1) m' c' ∧
      w.length + a0 ≤ (texts.foldl (fun (a : Nat × Option (List Bytes)) x =>
        (a.1 + (domainNameLen x (off + a.1) a.2 false).1, (domainNameLen x (off + a.1) a.2 false).2)) (a0, some c)).1 := by
  induction texts generalizing pos m c a0 w m' with
  | nil =>
    simp only [packNamesC, Option.some.injEq, Prod.mk.injEq] at hp
    obtain ⟨rfl, rfl⟩ := hp
    exact ⟨c, rfl, by simpa using hinv, by simp⟩
  | cons t rest ih =>
    simp only [packNamesC] at hp
    split at hp
    · rename_i w1 m1 h1
      cases hr : packNamesC (pos + w1.length) m1 rest with
      | none => simp [hr] at hp
      | some q =>
        obtain ⟨w2, m2⟩ := q
        simp only [hr, Option.map_some, Option.some.injEq, Prod.mk.injEq] at hp
        obtain ⟨rfl, rfl⟩ := hp
        have hs := name_step t (Or.inr (h t (by simp))) pos (off + a0) m c false hinv w1 m1 h1
        have hle := name_le t (Or.inr (h t (by simp))) pos (off + a0) m c false hinv w1 m1 h1
        have hd := dnl_some t (off + a0) c false
        simp only [List.foldl_cons]
        rw [hd]
        obtain ⟨c', e1, e2, e3⟩ := ih (fun t ht => h t (by simp [ht])) (pos + w1.length) m1
          ((domainNameLen t (off + a0) (some c) false).2.getD c) (a0 + (domainNameLen t (off + a0) (some c) false).1)
          (by rw [← Nat.add_assoc]; exact hs) w2 m2 hr
        refine ⟨c', e1, by simpa [List.length_append, Nat.add_assoc] using e2, ?_⟩
        simp only [List.length_append]
        omega
    · cases hp

theorem fstr_of (fs : Fields) (f : String) (t : Bytes) (h : Holds fs (f, .s t)) : fstr fs f = t := by
  rcases h with h | ⟨h, hd⟩
  · simp only at h; simp [fstr, h]
  · simp only at h hd; simp only [isDefault, List.isEmpty_iff] at hd; simp [fstr, h, hd]
theorem fstrs_of (fs : Fields) (f : String) (t : List Bytes) (h : Holds fs (f, .ss t)) : fstrs fs f = t := by
  rcases h with h | ⟨h, hd⟩
  · simp only at h; simp [fstrs, h]
  · simp only at h hd; simp only [isDefault, List.isEmpty_iff] at hd; simp [fstrs, h, hd]
theorem fnat_of (fs : Fields) (f : String) (n : Nat) (h : Holds fs (f, .n n)) : fnat fs f = n := by
  rcases h with h | ⟨h, hd⟩
  · simp only at h; simp [fnat, h]
  · simp only at h hd; simp only [isDefault, beq_iff_eq] at hd; simp [fnat, h, hd]
theorem fip_of (fs : Fields) (f : String) (t : Bytes) (h : Holds fs (f, .ip t)) : fip fs f = t := by
  rcases h with h | ⟨h, hd⟩
  · simp only at h; simp [fip, h]
  · simp only at h hd; simp only [isDefault, List.isEmpty_iff] at hd; simp [fip, h, hd]
theorem ftypes_of (fs : Fields) (f : String) (t : List Nat) (h : Holds fs (f, .ts t)) : ftypes fs f = t := by
  rcases h with h | ⟨h, hd⟩
  · simp only at h; simp [ftypes, h]
  · simp only at h hd; simp only [isDefault, List.isEmpty_iff] at hd; simp [ftypes, h, hd]

/-- a step that leaves map and set alone: the `len()` step counts at least the octets written -/
theorem plain_done (pos off : Nat) (m : CMap) (c : List Bytes) (hinv : Inv pos off m c) (w : Bytes) (k : Nat)
    (hle : w.length ≤ k) : ∃ c', some c = some c' ∧ Inv (pos + w.length) (off + k) m c' ∧ w.length ≤ k :=
  ⟨c, rfl, inv_est pos off m c w.length k hle hinv, hle⟩

theorem recode_shape (kind : String) (v v' : Val) (h : recode kind v = some v') :
    v' = v ∨ ∃ items items', v = .kv items ∧ v' = .kv items' ∧ recodeKV kind items = some items' := by
  cases v <;> simp only [recode, Option.some.injEq] at h <;> (try (exact Or.inl h.symm))
  rename_i items
  cases hr : recodeKV kind items with
  | none => simp [hr] at h
  | some items' =>
    simp only [hr, Option.map_some, Option.some.injEq] at h
    exact Or.inr ⟨items, items', rfl, h.symm, hr⟩

/-- the gateway when it is an address (or absent): at most 4 / 16 / 0 octets by its type -/
theorem gateway_b_size (acc : List Val) (i : Nat) (mk : Bool) (bs w : Bytes)
    (h : packStep acc (.gateway i mk) (.b bs) = some w) :
    w.length ≤ (if gatewayType acc i mk = 1 then 4 else if gatewayType acc i mk = 2 then 16
      else if gatewayType acc i mk = 3 then 0 + 1 else 0) := by
  simp only [packStep] at h
  generalize gatewayType acc i mk = t at h ⊢
  match t, h with
  | 0, h => cases bs <;> simp at h ⊢; subst h; simp
  | 1, h =>
    simp only at h
    split at h
    · rename_i hl; simp only [Option.some.injEq] at h; subst h; rcases hl with e | e <;> simp [e]
    · cases h
  | 2, h =>
    simp only at h
    split at h
    · rename_i hl; simp only [Option.some.injEq] at h; subst h; rcases hl with e | e <;> simp [e]
    · cases h
  | 3, h => cases bs <;> simp at h ⊢; subst h; simp
  | n + 4, h => cases bs <;> simp at h ⊢; subst h; simp

/-- **one variable-length field**: the `len()` step that accounts for it and the `pack()` step that writes it keep the
    two sides related -/
theorem var_step (kind : String) (fs : Fields) (all : List PPS) (idx : Nat) (l : LStep) (pu : PStep) (cs : CStep) (flag : Bool)
    (hacc : accountsC kind all idx l (pu, cs, flag) = true) (v v' : Val) (hrec : recode kind v = some v')
    (hn : ValNamesOK v) (hfa : FieldsAgree fs kind pu v)
    (acc : List Val)
    (htype : ∀ tf mk hf i, l = .gateway tf mk hf → cs = .gateway i mk →
      gatewayType acc i mk = (if mk then fnat fs tf % 128 else fnat fs tf))
    (pos off : Nat) (m : CMap) (c : List Bytes) (hinv : Inv pos off m c)
    (w : Bytes) (m' : CMap) (hp : packStepC acc pos m flag cs v' = some (w, m'))
    (k : Nat) (c1 : Option (List Bytes)) (hl : stepLenC fs off (some c) l = some (k, c1)) :
    ∃ c', c1 = some c' ∧ Inv (pos + w.length) (off + k) m' c' ∧ w.length ≤ k := by
  obtain ⟨codec, field, e1, e2⟩ := pu
  obtain ⟨g, hg, hlook⟩ := hfa
  cases l with
  | name f cp =>
    simp only [accountsC, Bool.and_eq_true, decide_eq_true_eq] at hacc
    obtain ⟨rfl, rfl, rfl, rfl⟩ := hacc
    cases v <;> simp only [recode, Option.some.injEq] at hrec <;> (try subst hrec) <;>
      (try (simp [packStepC, packStep] at hp; done))
    · rename_i text
      simp only [packStepC] at hp
      simp [fieldsOfStep] at hg
      subst hg
      have hf := fstr_of fs field text (by simpa using hlook (field, FVal.s text) (by simp))
      simp only [stepLenC, hf, Option.some.injEq, Prod.mk.injEq] at hl
      obtain ⟨rfl, rfl⟩ := hl
      exact ⟨_, dnl_some text off c flag, name_step text hn pos off m c flag hinv w m' hp,
        name_le text hn pos off m c flag hinv w m' hp⟩
    · rename_i items
      cases hr : recodeKV kind items <;> simp [hr] at hrec
      subst hrec
      simp [packStepC, packStep] at hp
  | str1 f =>
    simp only [accountsC, Bool.and_eq_true, Bool.or_eq_true, decide_eq_true_eq] at hacc
    obtain ⟨rfl, hc⟩ := hacc
    rcases recode_shape kind v v' hrec with rfl | ⟨items, items', rfl, rfl, _⟩
    · rcases hc with ⟨rfl, rfl⟩ | ⟨rfl | rfl, rfl⟩ <;> cases v' <;> (try (simp [packStepC, packStep] at hp; done))
      · rename_i bs
        simp [fieldsOfStep] at hg
        subst hg
        have hf := fstr_of fs field _ (by simpa using hlook (field, FVal.s (txtEscape bs)) (by simp))
        simp only [stepLenC, stepLen, hf, Option.map_some, Option.some.injEq, Prod.mk.injEq] at hl
        obtain ⟨rfl, rfl⟩ := hl
        simp only [packStepC, packStep] at hp
        split at hp
        · simp only [Option.map_some, Option.some.injEq, Prod.mk.injEq] at hp
          obtain ⟨rfl, rfl⟩ := hp
          exact plain_done pos off m c hinv _ _ (by have := escape_ge bs; simp; omega)
        · simp at hp
      · rename_i bs
        simp [fieldsOfStep] at hg
        subst hg
        have hf := fstr_of fs field _ (by simpa using hlook (field, FVal.s (doubleBackslash bs)) (by simp))
        simp only [stepLenC, stepLen, hf, Option.map_some, Option.some.injEq, Prod.mk.injEq] at hl
        obtain ⟨rfl, rfl⟩ := hl
        simp only [packStepC, packStep, Option.map_some, Option.some.injEq, Prod.mk.injEq] at hp
        obtain ⟨rfl, rfl⟩ := hp
        exact plain_done pos off m c hinv _ _ (by have := dbl_ge bs; omega)
      · rename_i bs
        simp [fieldsOfStep] at hg
        subst hg
        have hf := fstr_of fs field _ (by simpa using hlook (field, FVal.s bs) (by simp))
        simp only [stepLenC, stepLen, hf, Option.map_some, Option.some.injEq, Prod.mk.injEq] at hl
        obtain ⟨rfl, rfl⟩ := hl
        simp only [packStepC, packStep, Option.map_some, Option.some.injEq, Prod.mk.injEq] at hp
        obtain ⟨rfl, rfl⟩ := hp
        exact plain_done pos off m c hinv _ _ (by omega)
    · rcases hc with ⟨rfl, rfl⟩ | ⟨rfl | rfl, rfl⟩ <;> simp [packStepC, packStep] at hp
  | strLen f =>
    simp only [accountsC, Bool.and_eq_true, Bool.or_eq_true, decide_eq_true_eq] at hacc
    obtain ⟨rfl, hc, rfl⟩ := hacc
    rcases recode_shape kind v v' hrec with rfl | ⟨items, items', rfl, rfl, _⟩
    · rcases hc with rfl | rfl | rfl <;> cases v' <;> (try (simp [packStepC, packStep] at hp; done))
      · rename_i bs
        simp [fieldsOfStep] at hg
        subst hg
        have hf := fstr_of fs field _ (by simpa using hlook (field, FVal.s (doubleBackslash bs)) (by simp))
        simp only [stepLenC, stepLen, hf, Option.map_some, Option.some.injEq, Prod.mk.injEq] at hl
        obtain ⟨rfl, rfl⟩ := hl
        simp only [packStepC, packStep, Option.map_some, Option.some.injEq, Prod.mk.injEq] at hp
        obtain ⟨rfl, rfl⟩ := hp
        exact plain_done pos off m c hinv _ _ (by have := dbl_ge bs; omega)
      · rename_i bs
        simp [fieldsOfStep] at hg
        subst hg
        have hf := fstr_of fs field _ (by simpa using hlook (field, FVal.s (bs)) (by simp))
        simp only [stepLenC, stepLen, hf, Option.map_some, Option.some.injEq, Prod.mk.injEq] at hl
        obtain ⟨rfl, rfl⟩ := hl
        simp only [packStepC, packStep, Option.map_some, Option.some.injEq, Prod.mk.injEq] at hp
        obtain ⟨rfl, rfl⟩ := hp
        exact plain_done pos off m c hinv _ _ (by omega)
      · rename_i bs
        simp [fieldsOfStep] at hg
        subst hg
        have hf := fstr_of fs field _ (by simpa using hlook (field, FVal.s (filler ((8 * bs.length + 4) / 5))) (by simp))
        simp only [stepLenC, stepLen, hf, Option.map_some, Option.some.injEq, Prod.mk.injEq] at hl
        obtain ⟨rfl, rfl⟩ := hl
        simp only [packStepC, packStep, Option.map_some, Option.some.injEq, Prod.mk.injEq] at hp
        obtain ⟨rfl, rfl⟩ := hp
        exact plain_done pos off m c hinv _ _ (by rw [filler_length]; omega)
    · simp [packStepC, packStep] at hp
  | hexHalf f =>
    simp only [accountsC, Bool.and_eq_true, decide_eq_true_eq] at hacc
    obtain ⟨rfl, rfl, rfl⟩ := hacc
    rcases recode_shape kind v v' hrec with rfl | ⟨items, items', rfl, rfl, _⟩
    · cases v' <;> (try (simp [packStepC, packStep] at hp; done))
      · rename_i bs
        simp [fieldsOfStep] at hg
        subst hg
        have hf := fstr_of fs field _ (by simpa using hlook (field, FVal.s (filler (2 * bs.length))) (by simp))
        simp only [stepLenC, stepLen, hf, Option.map_some, Option.some.injEq, Prod.mk.injEq] at hl
        obtain ⟨rfl, rfl⟩ := hl
        simp only [packStepC, packStep, Option.map_some, Option.some.injEq, Prod.mk.injEq] at hp
        obtain ⟨rfl, rfl⟩ := hp
        exact plain_done pos off m c hinv _ _ (by rw [filler_length]; omega)
    · simp [packStepC, packStep] at hp
  | b64 f =>
    simp only [accountsC, Bool.and_eq_true, decide_eq_true_eq] at hacc
    obtain ⟨rfl, rfl, rfl⟩ := hacc
    rcases recode_shape kind v v' hrec with rfl | ⟨items, items', rfl, rfl, _⟩
    · cases v' <;> (try (simp [packStepC, packStep] at hp; done))
      · rename_i bs
        simp [fieldsOfStep] at hg
        subst hg
        have hf := fstr_of fs field _ (by simpa using hlook (field, FVal.s (filler ((bs.length + 2) / 3 * 4))) (by simp))
        simp only [stepLenC, stepLen, hf, Option.map_some, Option.some.injEq, Prod.mk.injEq] at hl
        obtain ⟨rfl, rfl⟩ := hl
        simp only [packStepC, packStep, Option.map_some, Option.some.injEq, Prod.mk.injEq] at hp
        obtain ⟨rfl, rfl⟩ := hp
        exact plain_done pos off m c hinv _ _ (by rw [filler_length]; exact b64_ge _)
    · simp [packStepC, packStep] at hp
  | b32 f =>
    simp only [accountsC, Bool.and_eq_true, decide_eq_true_eq] at hacc
    obtain ⟨rfl, rfl, rfl⟩ := hacc
    rcases recode_shape kind v v' hrec with rfl | ⟨items, items', rfl, rfl, _⟩
    · cases v' <;> (try (simp [packStepC, packStep] at hp; done))
      · rename_i bs
        simp [fieldsOfStep] at hg
        subst hg
        have hf := fstr_of fs field _ (by simpa using hlook (field, FVal.s (filler ((8 * bs.length + 4) / 5))) (by simp))
        simp only [stepLenC, stepLen, hf, Option.map_some, Option.some.injEq, Prod.mk.injEq] at hl
        obtain ⟨rfl, rfl⟩ := hl
        simp only [packStepC, packStep, Option.map_some, Option.some.injEq, Prod.mk.injEq] at hp
        obtain ⟨rfl, rfl⟩ := hp
        exact plain_done pos off m c hinv _ _ (by rw [filler_length]; exact b32_ge _)
    · simp [packStepC, packStep] at hp
  | txt f =>
    simp only [accountsC, Bool.and_eq_true, decide_eq_true_eq] at hacc
    obtain ⟨rfl, rfl, rfl⟩ := hacc
    rcases recode_shape kind v v' hrec with rfl | ⟨items, items', rfl, rfl, _⟩
    · cases v' <;> (try (simp [packStepC, packStep] at hp; done))
      rename_i strs
      simp [fieldsOfStep] at hg
      subst hg
      have hf := fstrs_of fs field _ (by simpa using hlook (field, FVal.ss (strs.map txtEscape)) (by simp))
      simp only [stepLenC, stepLen, hf, Option.map_some, Option.some.injEq, Prod.mk.injEq] at hl
      obtain ⟨rfl, rfl⟩ := hl
      simp only [packStepC, packStep] at hp
      cases hw : packTxtStrings strs with
      | none => simp [hw] at hp
      | some w0 =>
        simp only [hw, Option.map_some, Option.some.injEq, Prod.mk.injEq] at hp
        obtain ⟨rfl, rfl⟩ := hp
        exact plain_done pos off m c hinv _ _ (txt_size strs w0 hw)
    · simp [packStepC, packStep] at hp
  | names f cp =>
    simp only [accountsC, Bool.and_eq_true, decide_eq_true_eq] at hacc
    obtain ⟨rfl, rfl, rfl, rfl⟩ := hacc
    rcases recode_shape kind v v' hrec with rfl | ⟨items, items', rfl, rfl, _⟩
    · cases v' <;> (try (simp [packStepC, packStep] at hp; done))
      rename_i texts
      simp [fieldsOfStep] at hg
      subst hg
      have hf := fstrs_of fs field _ (by simpa using hlook (field, FVal.ss texts) (by simp))
      simp only [stepLenC, hf, Option.some.injEq] at hl
      simp only [packStepC] at hp
      obtain ⟨c', h1, h2, h3⟩ := names_step texts hn pos off m c 0 (by simpa using hinv) w m' hp
      simp only [hl] at h1 h2 h3
      exact ⟨c', h1, h2, by simpa using h3⟩
    · simp [packStepC, packStep] at hp
  | ipIf f n =>
    simp only [accountsC, Bool.and_eq_true, Bool.or_eq_true, decide_eq_true_eq] at hacc
    obtain ⟨rfl, hc⟩ := hacc
    rcases recode_shape kind v v' hrec with rfl | ⟨items, items', rfl, rfl, _⟩
    · rcases hc with ⟨rfl, rfl, rfl⟩ | ⟨rfl, rfl, rfl⟩ <;> cases v' <;> (try (simp [packStepC, packStep] at hp; done))
      all_goals
        rename_i bs
        simp [fieldsOfStep] at hg
        subst hg
        have hf := fip_of fs field _ (by simpa using hlook (field, FVal.ip bs) (by simp))
        simp only [stepLenC, stepLen, hf, Option.map_some, Option.some.injEq, Prod.mk.injEq] at hl
        obtain ⟨rfl, rfl⟩ := hl
        simp only [packStepC, packStep] at hp
        split at hp
        · rename_i hlen
          simp only [Option.map_some, Option.some.injEq, Prod.mk.injEq] at hp
          obtain ⟨rfl, rfl⟩ := hp
          exact plain_done pos off m c hinv _ _ (by rcases hlen with h | h <;> simp [h])
        · simp at hp
    · rcases hc with ⟨rfl, rfl, rfl⟩ | ⟨rfl, rfl, rfl⟩ <;> simp [packStepC, packStep] at hp
  | apl f =>
    simp only [accountsC, Bool.and_eq_true, decide_eq_true_eq] at hacc
    obtain ⟨rfl, rfl, rfl⟩ := hacc
    rcases recode_shape kind v v' hrec with rfl | ⟨items, items', rfl, rfl, _⟩
    · cases v' <;> (try (simp [packStepC, packStep] at hp; done))
      rename_i items
      simp [fieldsOfStep] at hg
      subst hg
      have hf := fnat_of fs field _ (by simpa using hlook (field, FVal.n ((items.map (fun it => 4 + (it.1 + 7) / 8)).sum)) (by simp))
      simp only [stepLenC, hf, Option.some.injEq, Prod.mk.injEq] at hl
      obtain ⟨rfl, rfl⟩ := hl
      simp only [packStepC, packStep] at hp
      cases hw : packApl items with
      | none => simp [hw] at hp
      | some w0 =>
        simp only [hw, Option.map_some, Option.some.injEq, Prod.mk.injEq] at hp
        obtain ⟨rfl, rfl⟩ := hp
        exact plain_done pos off m c hinv _ _ (apl_size items w0 hw)
    · simp [packStepC, packStep] at hp
  | bitmap f =>
    simp only [accountsC, Bool.and_eq_true, decide_eq_true_eq] at hacc
    obtain ⟨rfl, rfl, rfl⟩ := hacc
    rcases recode_shape kind v v' hrec with rfl | ⟨items, items', rfl, rfl, _⟩
    · cases v' <;> (try (simp [packStepC, packStep] at hp; done))
      rename_i types
      simp [fieldsOfStep] at hg
      subst hg
      have hf := ftypes_of fs field _ (by simpa using hlook (field, FVal.ts types) (by simp))
      simp only [stepLenC, stepLen, hf, Option.map_some, Option.some.injEq, Prod.mk.injEq] at hl
      obtain ⟨rfl, rfl⟩ := hl
      simp only [packStepC, packStep] at hp
      cases hw : packNsec types with
      | none => simp [hw] at hp
      | some w0 =>
        simp only [hw, Option.map_some, Option.some.injEq, Prod.mk.injEq] at hp
        obtain ⟨rfl, rfl⟩ := hp
        exact plain_done pos off m c hinv _ _ (C08L.bitmap_ge types w0 hw)
    · simp [packStepC, packStep] at hp
  | svcb f =>
    simp only [accountsC, Bool.and_eq_true, Bool.or_eq_true, decide_eq_true_eq] at hacc
    obtain ⟨rfl, hc⟩ := hacc
    rcases hc with ⟨rfl, rfl, rfl⟩ | ⟨hk, rfl, rfl⟩
    · cases v <;> simp only [recode, Option.some.injEq] at hrec <;> (try subst hrec) <;>
        (try (simp [packStepC, packStep] at hp; done))
      rename_i items
      cases hr : recodeKV "OPT" items with
      | none => simp [hr] at hrec
      | some items' =>
        simp only [hr, Option.map_some, Option.some.injEq] at hrec
        subst hrec
        simp [fieldsOfStep] at hg
        subst hg
        have hf := fnat_of fs field _ (by simpa using hlook _ (List.mem_singleton.mpr rfl))
        simp only [stepLenC, hf, Option.some.injEq, Prod.mk.injEq] at hl
        obtain ⟨rfl, rfl⟩ := hl
        simp only [packStepC, packStep] at hp
        cases hw : packTlvs items' with
        | none => simp [hw] at hp
        | some w0 =>
          simp only [hw, Option.map_some, Option.some.injEq, Prod.mk.injEq] at hp
          obtain ⟨rfl, rfl⟩ := hp
          refine plain_done pos off m c hinv _ _ ?_
          rw [tlvs_size items' w0 hw, opt_est items items' hr]
          exact Nat.le_refl _
    · have hno : kind ≠ "OPT" := by rcases hk with rfl | rfl <;> decide
      cases v <;> simp only [recode, Option.some.injEq] at hrec <;> (try subst hrec) <;>
        (try (simp [packStepC, packStep] at hp; done))
      rename_i items
      cases hr : recodeKV kind items with
      | none => simp [hr] at hrec
      | some items' =>
        simp only [hr, Option.map_some, Option.some.injEq] at hrec
        subst hrec
        simp [fieldsOfStep, hno] at hg
        subst hg
        have hf := fnat_of fs field _ (by simpa using hlook _ (List.mem_singleton.mpr rfl))
        simp only [stepLenC, hf, Option.some.injEq, Prod.mk.injEq] at hl
        obtain ⟨rfl, rfl⟩ := hl
        simp only [packStepC, packStep] at hp
        split at hp
        · cases hw : packTlvs (sortKV items') with
          | none => simp [hw] at hp
          | some w0 =>
            simp only [hw, Option.map_some, Option.some.injEq, Prod.mk.injEq] at hp
            obtain ⟨rfl, rfl⟩ := hp
            refine plain_done pos off m c hinv _ _ ?_
            rw [tlvs_size (sortKV items') w0 hw, sortKV_sum]
            exact svcb_est kind hk items items' hr
        · simp at hp
  | gateway tf mk hf =>
    simp only [accountsC, Bool.and_eq_true, decide_eq_true_eq] at hacc
    obtain ⟨⟨rfl, rfl⟩, hcs⟩ := hacc
    cases cs <;> simp only [Bool.and_eq_true, decide_eq_true_eq, Bool.false_eq_true] at hcs
    rename_i i mk'
    obtain ⟨⟨rfl, _⟩, _⟩ := hcs
    have ht := htype tf mk' "GatewayHost" i rfl rfl
    simp only [stepLenC, stepLen, Option.map_some, Option.some.injEq, Prod.mk.injEq] at hl
    obtain ⟨rfl, rfl⟩ := hl
    rw [← ht]
    rcases recode_shape kind v v' hrec with rfl | ⟨items, items', rfl, rfl, _⟩
    · cases v' with
      | b bs =>
        simp [fieldsOfStep] at hg
        subst hg
        have hhost := fstr_of fs "GatewayHost" [] (hlook _ (by simp))
        have hp' : (packStep acc (.gateway i mk') (.b bs)).map (fun w => (w, m)) = some (w, m') := hp
        cases hw : packStep acc (.gateway i mk') (.b bs) with
        | none => simp [hw] at hp'
        | some w0 =>
          simp only [hw, Option.map_some, Option.some.injEq, Prod.mk.injEq] at hp'
          obtain ⟨rfl, rfl⟩ := hp'
          refine plain_done pos off m c hinv _ _ ?_
          have := gateway_b_size acc i mk' bs w0 hw
          simpa [hhost] using this
      | t text =>
        simp [fieldsOfStep] at hg
        subst hg
        have hhost := fstr_of fs "GatewayHost" text (hlook _ (by simp))
        simp only [packStepC] at hp
        split at hp
        · rename_i h3
          rw [h3]
          simp only [hhost]
          obtain ⟨h1, h2⟩ := name_uncounted text hn pos off m c hinv w m' hp
          exact ⟨c, rfl, by simpa using h1, by simpa using h2⟩
        · cases hp
      | _ => simp [fieldsOfStep] at hg
    · simp [fieldsOfStep] at hg
  | const _ => simp [accountsC] at hacc
  | other _ => simp [accountsC] at hacc

/-! ### a whole RDATA body -/

def Rel2 {α β : Type} (R : α → β → Prop) : List α → List β → Prop
  | [], [] => True
  | a :: as, b :: bs => R a b ∧ Rel2 R as bs
  | _, _ => False

theorem inv_mono (pos off : Nat) (m : CMap) (c : List Bytes) (h : Inv pos off m c) (pos' off' : Nat) (h1 : pos ≤ pos')
    (h2 : pos' ≤ off') : Inv pos' off' m c :=
  ⟨h2, h.keys, fun e he => by have := h.back e he; omega, h.closed⟩

theorem accountsC_var (kind : String) (all : List PPS) (idx : Nat) (l : LStep) (pu : PStep) (cs : CStep) (flag : Bool)
    (h : accountsC kind all idx l (pu, cs, flag) = true) : cs ≠ .early ∧ constK l = none := by
  cases l <;> simp only [accountsC, Bool.and_eq_true, Bool.or_eq_true, decide_eq_true_eq] at h <;>
    (try (exact Bool.noConfusion h)) <;> refine ⟨?_, by simp [constK]⟩
  all_goals (intro e; subst e; simp at h)

/-- what the packer and `len()` know about the fixed-width fields already done: the value packed is the number `len()`
    finds under the field's name (the gateway of IPSECKEY / AMTRELAY looks its type up there) -/
def TypeFact (fs : Fields) (all : List PPS) (acc : List Val) : Prop :=
  ∀ i p, all[i]? = some p → i < acc.length → (uintW p.2.1).isSome = true → p.1.1 ≠ "unpackIPSECGateway" →
    ∃ x, acc[i]? = some (Val.n x) ∧ Holds fs (p.1.2.1, FVal.n x)

theorem typeFact_snoc (fs : Fields) (kind : String) (all : List PPS) (acc : List Val) (p : PPS) (v v' : Val)
    (htf : TypeFact fs all acc) (hp : all[acc.length]? = some p) (hrec : recode kind v = some v')
    (hfa : FieldsAgree fs kind p.1 v) (hpack : (uintW p.2.1).isSome = true → ∃ x, v' = Val.n x) :
    TypeFact fs all (acc ++ [v']) := by
  obtain ⟨⟨codec, field, e1, e2⟩, cs, fl⟩ := p
  intro i q hq hi hu hg
  by_cases hlt : i < acc.length
  · obtain ⟨x, h1, h2⟩ := htf i q hq hlt hu hg
    exact ⟨x, by rw [List.getElem?_append_left hlt]; exact h1, h2⟩
  · have hi' : i = acc.length := by simp only [List.length_append, List.length_cons, List.length_nil] at hi; omega
    subst hi'
    rw [hp] at hq
    simp only [Option.some.injEq] at hq
    subst hq
    obtain ⟨x, rfl⟩ := hpack hu
    have hv : v = Val.n x := by
      rcases recode_shape kind v (Val.n x) hrec with h | ⟨_, _, _, h, _⟩
      · exact h.symm
      · cases h
    subst hv
    obtain ⟨g, hg1, hg2⟩ := hfa
    simp only at hg hg1
    simp [fieldsOfStep, hg] at hg1
    subst hg1
    exact ⟨x, by simp, hg2 _ (by simp)⟩

theorem gatewayType_of (fs : Fields) (all : List PPS) (acc : List Val) (htf : TypeFact fs all acc) (i : Nat) (mk : Bool)
    (tf : String) (hi : i < acc.length) (q : PPS) (hq : all[i]? = some q) (hname : q.1.2.1 = tf)
    (hu : (uintW q.2.1).isSome = true) (hg : q.1.1 ≠ "unpackIPSECGateway") :
    gatewayType acc i mk = (if mk then fnat fs tf % 128 else fnat fs tf) := by
  obtain ⟨x, h1, h2⟩ := htf i q hq hi hu hg
  rw [hname] at h2
  have := fnat_of fs tf x h2
  unfold gatewayType
  have hd : acc.getD i (Val.n 0) = Val.n x := by
    rw [List.getD_eq_getElem?_getD, h1]; rfl
  rw [hd, this]

/-- **bodies**: a `len()` body lined up with a `pack()` body (`alignedF`) predicts at least what is written, for all
    field values, from any related states -/
theorem plan_sim (kind : String) (fs : Fields) (all : List PPS) (fuel : Nat) :
    ∀ (cr idx : Nat) (ls : List LStep) (ps : List PPS) (vals vals' acc : List Val) (pos off l : Nat) (m : CMap) (c : List Bytes),
    alignedF kind all fuel cr idx ls ps = true →
    acc.length = idx → all.drop idx = ps → TypeFact fs all acc →
    Rel2 (fun v v' => recode kind v = some v') vals vals' →
    (∀ v ∈ vals, ValNamesOK v) →
    Rel2 (fun (p : PPS) v => FieldsAgree fs kind p.1 v) ps vals →
    Inv pos (off + l) m c → pos + cr ≤ off + l →
    ∀ (w : Bytes) (m' : CMap), packPlanC acc pos m (ps.map (·.2.1)) vals' (ps.map (·.2.2)) = some (w, m') →
    ∀ (l' : Nat) (c1 : Option (List Bytes)), planLenC fs off l (some c) ls = some (l', c1) →
    ∃ c', c1 = some c' ∧ Inv (pos + w.length) (off + l') m' c' := by
  induction fuel with
  | zero => intro cr idx ls ps vals vals' acc pos off l m c hal; simp [alignedF] at hal
  | succ fuel ih =>
    intro cr idx ls ps vals vals' acc pos off l m c hal hidx hdrop htf hrec hn hfa hinv hcr w m' hp l' c1 hl
    simp only [alignedF] at hal
    split at hal
    · -- a constant on the `len()` side
      rename_i k hk
      cases ls with
      | nil => simp at hk
      | cons l0 ls' =>
        simp only [List.head?_cons, Option.bind_some] at hk
        cases l0 <;> simp only [constK, Option.some.injEq, reduceCtorEq] at hk
        subst hk
        simp only [List.tail_cons] at hal
        simp only [planLenC, stepLenC, stepLen, Option.map_some, Option.bind_some] at hl
        exact ih (cr + _) idx ls' ps vals vals' acc pos off (l + _) m c hal hidx hdrop htf hrec hn hfa
          (inv_mono _ _ _ _ hinv _ _ (Nat.le_refl _) (by have := hinv.pos; omega)) (by omega) w m' hp l' c1 hl
    · rename_i hk
      split at hal
      · -- a fixed-width integer on the `pack()` side
        rename_i wd hw
        cases ps with
        | nil => simp at hw
        | cons p ps' =>
          have hhead : all[acc.length]? = some p := by
            rw [hidx, ← List.head?_drop, hdrop]; rfl
          have hdrop' : all.drop (idx + 1) = ps' := by
            rw [← List.drop_drop, hdrop]; rfl
          obtain ⟨pu, cs, fl⟩ := p
          simp only [List.head?_cons, Option.bind_some] at hw
          cases cs <;> simp only [uintW, Option.some.injEq, reduceCtorEq] at hw
          rename_i w0
          subst hw
          simp only [List.tail_cons, Bool.and_eq_true, decide_eq_true_eq] at hal
          obtain ⟨hle, hal⟩ := hal
          cases vals with
          | nil => simp [Rel2] at hfa
          | cons v vs =>
            cases vals' with
            | nil => simp [Rel2] at hrec
            | cons v' vs' =>
              simp only [Rel2] at hrec hfa
              simp only [List.map_cons] at hp
              rw [C04M.packPlanC_cons _ _ _ _ _ _ _ _ (by simp)] at hp
              rcases C08M.recode_shape kind v v' hrec.1 with rfl | ⟨items, items', rfl, rfl, _⟩
              · cases v' <;> (try (simp [packStepC, packStep] at hp; done))
                rename_i x
                have hst : packStepC acc pos m fl (.uint w0) (.n x) =
                    if x < 256 ^ w0 then some (beBytes w0 x, m) else none := by
                  simp only [packStepC, packStep]; split <;> rfl
                simp only [List.headD_cons, List.tail_cons, hst] at hp
                by_cases hx : x < 256 ^ w0
                · simp only [hx, ↓reduceIte] at hp
                  cases hq : packPlanC (acc ++ [Val.n x]) (pos + (beBytes w0 x).length) m (ps'.map (·.2.1)) vs'
                      (List.map (·.2.2) ps') with
                  | none => simp [hq] at hp
                  | some q =>
                    simp only [hq, Option.map_some, Option.some.injEq, Prod.mk.injEq] at hp
                    obtain ⟨rfl, rfl⟩ := hp
                    rw [C11.beBytes_length] at hq
                    have htf' := typeFact_snoc fs kind all acc (pu, CStep.uint w0, fl) (Val.n x) (Val.n x) htf hhead hrec.1 hfa.1
                      (fun _ => ⟨x, rfl⟩)
                    have := ih (cr - w0) (idx + 1) ls ps' vs vs' _ (pos + w0) off l m c hal (by simp [hidx]) hdrop' htf' hrec.2
                      (fun v hv => hn v (by simp [hv])) hfa.2
                      (inv_mono _ _ _ _ hinv _ _ (by omega) (by omega)) (by omega) q.1 q.2 hq l' c1 hl
                    simpa [List.length_append, C11.beBytes_length, Nat.add_assoc] using this
                · simp [hx] at hp
              · simp [packStepC, packStep] at hp
      · -- a variable-length field on both sides
        rename_i hw
        split at hal
        · -- both bodies at their end
          simp only [List.map_nil] at hp
          cases vals' with
          | nil =>
            simp only [packPlanC, Option.some.injEq, Prod.mk.injEq] at hp
            obtain ⟨rfl, rfl⟩ := hp
            simp only [planLenC, Option.some.injEq, Prod.mk.injEq] at hl
            obtain ⟨rfl, rfl⟩ := hl
            exact ⟨c, rfl, by simpa using hinv⟩
          | cons v' vs' => simp [packPlanC] at hp
        · rename_i l0 ls' p ps'
          have hhead : all[acc.length]? = some p := by
            rw [hidx, ← List.head?_drop, hdrop]; rfl
          have hdrop' : all.drop (idx + 1) = ps' := by
            rw [← List.drop_drop, hdrop]; rfl
          have hnu : uintW p.2.1 = none := by simpa using hw
          obtain ⟨pu, cs, fl⟩ := p
          simp only [Bool.and_eq_true] at hal
          obtain ⟨hacc, hal⟩ := hal
          obtain ⟨hne, _⟩ := accountsC_var kind all idx l0 pu cs fl hacc
          cases vals with
          | nil => simp [Rel2] at hfa
          | cons v vs =>
            cases vals' with
            | nil => simp [Rel2] at hrec
            | cons v' vs' =>
              simp only [Rel2] at hrec hfa
              simp only [List.map_cons] at hp
              rw [C04M.packPlanC_cons _ _ _ _ _ _ _ _ hne] at hp
              simp only [List.headD_cons, List.tail_cons] at hp
              split at hp
              · rename_i a m1 hs
                cases hq : packPlanC (acc ++ [v']) (pos + a.length) m1 (ps'.map (·.2.1)) vs' (List.map (·.2.2) ps') with
                | none => simp [hq] at hp
                | some q =>
                  simp only [hq, Option.map_some, Option.some.injEq, Prod.mk.injEq] at hp
                  obtain ⟨rfl, rfl⟩ := hp
                  simp only [planLenC] at hl
                  cases hs1 : stepLenC fs (off + l) (some c) l0 with
                  | none => simp [hs1] at hl
                  | some r =>
                    obtain ⟨k, c2⟩ := r
                    simp only [hs1, Option.bind_some] at hl
                    have htype : ∀ tf mk hf i, l0 = .gateway tf mk hf → cs = .gateway i mk →
                        gatewayType acc i mk = (if mk then fnat fs tf % 128 else fnat fs tf) := by
                      intro tf mk hf i e1 e2
                      subst e1 e2
                      simp only [accountsC, Bool.and_eq_true, decide_eq_true_eq] at hacc
                      obtain ⟨_, ⟨_, hi⟩, hq⟩ := hacc
                      cases hai : all[i]? with
                      | none => simp [hai] at hq
                      | some q0 =>
                        simp only [hai, Bool.and_eq_true, decide_eq_true_eq] at hq
                        exact gatewayType_of fs all acc htf i mk tf (by omega) q0 hai hq.1.1 hq.1.2 hq.2
                    obtain ⟨c', rfl, hinv', hak⟩ := var_step kind fs all idx l0 pu cs fl hacc v v' hrec.1 (hn v (by simp)) hfa.1
                      acc htype pos (off + l) m c hinv a m1 hs k c2 hs1
                    have htf' := typeFact_snoc fs kind all acc (pu, cs, fl) v v' htf hhead hrec.1 hfa.1
                      (fun h => by simp [hnu] at h)
                    have := ih cr (idx + 1) ls' ps' vs vs' _ (pos + a.length) off (l + k) m1 c' hal (by simp [hidx]) hdrop' htf' hrec.2
                      (fun v hv => hn v (by simp [hv])) hfa.2 (by simpa [Nat.add_assoc] using hinv')
                      (by omega) q.1 q.2 hq l' c1 hl
                    simpa [List.length_append, Nat.add_assoc] using this
              · simp at hp
        · simp at hal

/-! ### a whole record -/

theorem lookup_of_nodup (L : Fields) (h : (L.map (·.1)).Nodup) (x : String × FVal) (hx : x ∈ L) :
    L.lookup x.1 = some x.2 := by
  induction L with
  | nil => simp at hx
  | cons y L ih =>
    simp only [List.map_cons, List.nodup_cons] at h
    rcases List.mem_cons.mp hx with rfl | hx'
    · simp [List.lookup]
    · have hne : x.1 ≠ y.1 := by
        intro e
        exact h.1 (e ▸ List.mem_map_of_mem hx')
      have : (x.1 == y.1) = false := by simpa using hne
      simp only [List.lookup, this]
      exact ih h.2 hx'

theorem mapM_rel2 {α β : Type} (f : α → Option β) (xs : List α) (ys : List β) (h : xs.mapM f = some ys) :
    Rel2 (fun x y => f x = some y) xs ys := by
  induction xs generalizing ys with
  | nil => simp at h; subst h; trivial
  | cons x xs ih =>
    rw [List.mapM_cons] at h
    cases hx : f x with
    | none => simp [hx] at h
    | some y =>
      cases hr : xs.mapM f with
      | none => simp [hx, hr] at h
      | some r =>
        simp [hx, hr] at h
        subst h
        exact ⟨hx, ih r hr⟩

theorem rel2_map {α β γ : Type} (R : β → γ → Prop) (f : α → β) (xs : List α) (zs : List γ) :
    Rel2 R (xs.map f) zs ↔ Rel2 (fun x z => R (f x) z) xs zs := by
  induction xs generalizing zs with
  | nil => cases zs <;> simp [Rel2]
  | cons x xs ih => cases zs <;> simp [Rel2, ih]

/-- an unpack step fills the fields `stepKeys` names -/
theorem fieldsOfStep_key (kind : String) (pu : PStep) (v : Val) (g : Fields)
    (h : fieldsOfStep kind pu v = some g) : g.map (·.1) = stepKeys pu := by
  obtain ⟨codec, field, e1, e2⟩ := pu
  by_cases hc : codec = "unpackIPSECGateway"
  · subst hc
    cases v <;> simp [fieldsOfStep] at h <;> subst h <;> rfl
  · have hs : stepKeys (codec, field, e1, e2) = [field] := by simp [stepKeys, hc]
    rw [hs]
    cases v <;> simp only [fieldsOfStep, hc, ↓reduceIte] at h
    case b bs =>
      repeat' (split at h)
      all_goals (first | (cases h; done) | (simp only [Option.some.injEq] at h; subst h; rfl))
    case kv items =>
      split at h <;> (simp only [Option.some.injEq] at h; subst h; rfl)
    all_goals (simp only [Option.some.injEq] at h; subst h; rfl)

theorem fa_of_groups (fs : Fields) (kind : String) :
    ∀ (pus : List PStep) (vals : List Val) (gs : List Fields), pus.length = vals.length →
      (pus.zip vals).mapM (fun p => fieldsOfStep kind p.1 p.2) = some gs →
      (∀ g ∈ gs, ∀ x ∈ g, Holds fs x) → Rel2 (fun pu v => FieldsAgree fs kind pu v) pus vals := by
  intro pus
  induction pus with
  | nil => intro vals gs hlen _ _; cases vals <;> simp_all [Rel2]
  | cons pu pus ih =>
    intro vals gs hlen hm hl
    cases vals with
    | nil => simp at hlen
    | cons v vals =>
      simp only [List.zip_cons_cons] at hm
      rw [List.mapM_cons] at hm
      cases hx : fieldsOfStep kind pu v with
      | none => simp [hx] at hm
      | some g =>
        cases hr : (pus.zip vals).mapM (fun p => fieldsOfStep kind p.1 p.2) with
        | none => simp [hx, hr] at hm
        | some r =>
          simp [hx, hr] at hm
          subst hm
          exact ⟨⟨g, hx, hl g (by simp)⟩, ih vals r (by simpa using hlen) hr (fun g' hg' => hl g' (by simp [hg']))⟩

theorem keys_of_groups (kind : String) :
    ∀ (pus : List PStep) (vals : List Val) (gs : List Fields),
      (pus.zip vals).mapM (fun p => fieldsOfStep kind p.1 p.2) = some gs → pus.length = vals.length →
      gs.flatten.map (·.1) = pus.flatMap stepKeys := by
  intro pus
  induction pus with
  | nil => intro vals gs hm _; simp at hm; subst hm; rfl
  | cons pu pus ih =>
    intro vals gs hm hlen
    cases vals with
    | nil => simp at hlen
    | cons v vals =>
      simp only [List.zip_cons_cons] at hm
      rw [List.mapM_cons] at hm
      cases hx : fieldsOfStep kind pu v with
      | none => simp [hx] at hm
      | some g =>
        cases hr : (pus.zip vals).mapM (fun p => fieldsOfStep kind p.1 p.2) with
        | none => simp [hx, hr] at hm
        | some r =>
          simp [hx, hr] at hm
          subst hm
          have h1 := fieldsOfStep_key kind pu v g hx
          have h2 := ih vals r hr (by simpa using hlen)
          simp only [List.flatten_cons, List.map_append, h1, h2, List.flatMap_cons]

theorem zip3_fst {α β γ : Type} (a : List α) (b : List β) (c : List γ) (h1 : a.length = b.length) (h2 : b.length = c.length) :
    (a.zip (b.zip c)).map (fun x => x.1) = a := by
  induction a generalizing b c with
  | nil => rfl
  | cons x a ih =>
    cases b with
    | nil => simp at h1
    | cons y b =>
      cases c with
      | nil => simp at h2
      | cons z c => simp [ih b c (by simpa using h1) (by simpa using h2)]

theorem zip3_snd1 {α β γ : Type} (a : List α) (b : List β) (c : List γ) (h1 : a.length = b.length) (h2 : b.length = c.length) :
    (a.zip (b.zip c)).map (fun x => x.2.1) = b := by
  induction a generalizing b c with
  | nil =>
    cases b with
    | nil => rfl
    | cons _ _ => simp at h1
  | cons x a ih =>
    cases b with
    | nil => simp at h1
    | cons y b =>
      cases c with
      | nil => simp at h2
      | cons z c => simp [ih b c (by simpa using h1) (by simpa using h2)]

theorem zip3_snd2 {α β γ : Type} (a : List α) (b : List β) (c : List γ) (h1 : a.length = b.length) (h2 : b.length = c.length) :
    (a.zip (b.zip c)).map (fun x => x.2.2) = c := by
  induction a generalizing b c with
  | nil =>
    cases b with
    | nil =>
      cases c with
      | nil => rfl
      | cons _ _ => simp at h2
    | cons _ _ => simp at h1
  | cons x a ih =>
    cases b with
    | nil => simp at h1
    | cons y b =>
      cases c with
      | nil => simp at h2
      | cons z c => simp [ih b c (by simpa using h1) (by simpa using h2)]

/-- the values the packer is given for a record: its own, or the zero values when it has no RDATA -/
def valsOf (r : RRm) (cu : List CStep) : List Val :=
  match r.body with
  | some vals => vals
  | none => cu.filterMap zeroVal

/-- one record, given that `len()` finds every field under its name (or nothing, for zero values) -/
theorem rr_core (r : RRm) (ls : List LStep) (hls : planOfC r.kind = some ls) (ps : List PPS) (pu : List PStep) (cu : List CStep)
    (hpu : Gen.unpackPlans.lookup r.kind = some pu) (hcu : Gen.unpackCodecs.lookup r.kind = some cu)
    (hlens : (pu.filter (fun s => s.1 != "earlyexit")).length = (stripPlan cu).length ∧
      (stripPlan cu).length = (flagsOf r.kind).length)
    (hps : (pu.filter (fun s => s.1 != "earlyexit")).zip ((stripPlan cu).zip (flagsOf r.kind)) = ps)
    (hal : alignedF r.kind ps (ls.length + ps.length + 1) 0 0 ls ps = true)
    (hown : r.name = [] ∨ NameOK r.name) (fs : Fields) (hfs : fieldsOfRR r = some fs)
    (hnv : ∀ v ∈ valsOf r cu, ValNamesOK v)
    (hfa : Rel2 (fun pu v => FieldsAgree fs r.kind pu v) (pu.filter (fun s => s.1 != "earlyexit")) (valsOf r cu))
    (rc : RRc) (htp : toPack r = some rc) (pos off : Nat) (m : CMap) (c : List Bytes) (hinv : Inv pos off m c)
    (w : Bytes) (m' : CMap)
    (hp : packRRC pos m true rc.owner rc.typ rc.cls rc.ttl rc.plan rc.vals rc.flags = some (w, m'))
    (k : Nat) (c1 : Option (List Bytes)) (hl : lenRRC off (some c) r = some (k, c1)) :
    ∃ c', c1 = some c' ∧ Inv (pos + w.length) (off + k) m' c' := by
  have htp' : ((valsOf r cu).mapM (recode r.kind)).map
      (fun vs => (⟨r.name, r.typ, r.cls, r.ttl, stripPlan cu, vs, flagsOf r.kind⟩ : RRc)) = some rc := by
    unfold toPack at htp; rw [hcu] at htp; exact htp
  replace htp := htp'
  clear htp'
  cases hvs : (valsOf r cu).mapM (recode r.kind) with
  | none => simp [hvs] at htp
  | some vs =>
    simp only [hvs, Option.map_some, Option.some.injEq] at htp
    subst htp
    simp only at hp
    have hplan : (if r.kind = "OPT" then some [LStep.svcb "Option"] else planOf r.kind) = some ls := hls
    simp only [lenRRC, hplan, hfs] at hl
    simp only [packRRC] at hp
    split at hp
    · rename_i o m1 ho
      have hown' := name_step r.name hown pos off m c true hinv o m1 ho
      have hdn := dnl_some r.name off c true
      rw [hdn] at hl
      cases hq : packPlanC [] (pos + o.length + 10) m1 (stripPlan cu) vs (flagsOf r.kind) with
      | none => simp [hq] at hp
      | some q =>
        simp only [hq, Option.bind_some] at hp
        split at hp
        · simp only [Option.some.injEq, Prod.mk.injEq] at hp
          obtain ⟨rfl, rfl⟩ := hp
          have hps1 : ps.map (·.1) = pu.filter (fun s => s.1 != "earlyexit") := by
            subst hps; exact zip3_fst _ _ _ hlens.1 hlens.2
          have hps2 : ps.map (·.2.1) = stripPlan cu := by
            subst hps; exact zip3_snd1 _ _ _ hlens.1 hlens.2
          have hps3 : ps.map (·.2.2) = flagsOf r.kind := by
            subst hps; exact zip3_snd2 _ _ _ hlens.1 hlens.2
          rw [← hps1] at hfa
          rw [rel2_map] at hfa
          rw [← hps2, ← hps3] at hq
          have hinv1 : Inv (pos + o.length + 10)
              (off + ((domainNameLen r.name off (some c) true).1 + 10)) m1
              ((domainNameLen r.name off (some c) true).2.getD c) := by
            have := inv_est _ _ _ _ 10 10 (Nat.le_refl _) hown'
            simpa [Nat.add_assoc] using this
          obtain ⟨c', e1, e2⟩ := plan_sim r.kind fs ps (ls.length + ps.length + 1) 0 0 ls ps (valsOf r cu) vs []
            (pos + o.length + 10) off ((domainNameLen r.name off (some c) true).1 + 10) m1 _ hal rfl rfl
            (by intro i p _ hi; simp at hi)
            (mapM_rel2 _ _ _ hvs) hnv hfa hinv1 (by have := hinv1.pos; omega)
            q.1 q.2 hq k c1 hl
          refine ⟨c', e1, ?_⟩
          simp only [List.length_append, C11.beBytes_length]
          have : pos + (o.length + (2 + (2 + (4 + (2 + q.1.length))))) = pos + o.length + 10 + q.1.length := by omega
          rw [this]; exact e2
        · simp at hp
    · simp at hp

/-- the zero values of a type's fields are what `len()` assumes for a record without RDATA -/
def zeroFieldsOK (kind : String) : Bool :=
  match Gen.unpackPlans.lookup kind, Gen.unpackCodecs.lookup kind with
  | some pu, some cu =>
    let pu' := pu.filter (fun s => s.1 != "earlyexit")
    let zs := cu.filterMap zeroVal
    decide (pu'.length = zs.length) && (pu'.zip zs).all (fun p =>
      match fieldsOfStep kind p.1 p.2 with
      | some g => g.all (fun x => isDefault x.2)
      | none => false)
  | _, _ => false

theorem zero_names (cu : List CStep) : ∀ v ∈ cu.filterMap zeroVal, ValNamesOK v := by
  intro v hv
  obtain ⟨s, _, hs⟩ := List.mem_filterMap.mp hv
  cases s <;> simp only [zeroVal, Option.some.injEq, reduceCtorEq] at hs <;> subst hs <;> simp [ValNamesOK]

theorem rel2_of_all {α β : Type} (R : α → β → Prop) (f : α × β → Bool) (hf : ∀ p, f p = true → R p.1 p.2) :
    ∀ (xs : List α) (ys : List β), xs.length = ys.length → (xs.zip ys).all f = true → Rel2 R xs ys
  | [], [], _, _ => trivial
  | x :: xs, y :: ys, hl, ha => by
    simp only [List.zip_cons_cons, List.all_cons, Bool.and_eq_true] at ha
    exact ⟨hf (x, y) ha.1, rel2_of_all R f hf xs ys (by simpa using hl) ha.2⟩
  | [], _ :: _, hl, _ => by simp at hl
  | _ :: _, [], hl, _ => by simp at hl

/-- what `rr_sim` establishes before it runs the body: the tables of the record's type, lined up, and `len()` finding
    every field -/
theorem rr_setup (r : RRm) (hk : alignedKind r.kind = true) (hz : zeroFieldsOK r.kind = true) (hn : RRNamesOK r)
    (fs : Fields) (hfs0 : fieldsOfRR r = some fs) :
    ∃ (ls : List LStep) (ps : List PPS) (pu : List PStep) (cu : List CStep),
      planOfC r.kind = some ls ∧ Gen.unpackPlans.lookup r.kind = some pu ∧ Gen.unpackCodecs.lookup r.kind = some cu ∧
      ((pu.filter (fun s => s.1 != "earlyexit")).length = (stripPlan cu).length ∧
        (stripPlan cu).length = (flagsOf r.kind).length) ∧
      (pu.filter (fun s => s.1 != "earlyexit")).zip ((stripPlan cu).zip (flagsOf r.kind)) = ps ∧
      alignedF r.kind ps (ls.length + ps.length + 1) 0 0 ls ps = true ∧
      (∀ v ∈ valsOf r cu, ValNamesOK v) ∧
      Rel2 (fun pu v => FieldsAgree fs r.kind pu v) (pu.filter (fun s => s.1 != "earlyexit")) (valsOf r cu) := by
  unfold alignedKind at hk
  cases hls : planOfC r.kind with
  | none => simp [hls] at hk
  | some ls =>
    cases hps : pplOf r.kind with
    | none => simp [hls, hps] at hk
    | some ps =>
      simp only [hls, hps, Bool.and_eq_true] at hk
      obtain ⟨hal, hkd⟩ := hk
      unfold pplOf at hps
      cases hpu : Gen.unpackPlans.lookup r.kind with
      | none => simp [hpu] at hps
      | some pu =>
        cases hcu : Gen.unpackCodecs.lookup r.kind with
        | none => simp [hpu, hcu] at hps
        | some cu =>
          simp only [hpu, hcu] at hps
          split at hps
          · rename_i hlens
            simp only [Option.some.injEq] at hps
            cases hb : r.body with
            | some vals =>
              have hfs := hfs0
              (
                simp only [fieldsOfRR, hb, hpu] at hfs
                split at hfs
                · rename_i hlen2
                  cases hgs : ((pu.filter (fun s => s.1 != "earlyexit")).zip vals).mapM
                      (fun p => fieldsOfStep r.kind p.1 p.2) with
                  | none => simp [hgs] at hfs
                  | some gs =>
                    simp only [hgs, Option.map_some, Option.some.injEq] at hfs
                    subst hfs
                    have hkeys := keys_of_groups r.kind (pu.filter (fun s => s.1 != "earlyexit")) vals gs hgs hlen2
                    have hnd : (gs.flatten.map (·.1)).Nodup := by
                      rw [hkeys]
                      simp only [keysDistinct, decide_eq_true_eq] at hkd
                      have h0 : ps.map (·.1) = pu.filter (fun s => s.1 != "earlyexit") := by
                        subst hps; exact zip3_fst _ _ _ hlens.1 hlens.2
                      rw [← h0, List.flatMap_map]
                      exact hkd
                    have hfa := fa_of_groups gs.flatten r.kind (pu.filter (fun s => s.1 != "earlyexit")) vals gs hlen2 hgs
                      (fun g hg x hx => Or.inl (lookup_of_nodup gs.flatten hnd x (List.mem_flatten.mpr ⟨g, hg, hx⟩)))
                    have hv : valsOf r cu = vals := by simp [valsOf, hb]
                    exact ⟨ls, ps, pu, cu, rfl, rfl, rfl, hlens, hps, hal,
                      (by rw [hv]; exact fun v hv' => hn.2 vals hb v hv'), (by rw [hv]; exact hfa)⟩
                · simp at hfs)
            | none =>
              have hfs : fieldsOfRR r = some [] := by simp [fieldsOfRR, hb]
              have hfe : fs = [] := by rw [hfs] at hfs0; exact (Option.some.inj hfs0).symm
              subst hfe
              have hv : valsOf r cu = cu.filterMap zeroVal := by simp [valsOf, hb]
              simp only [zeroFieldsOK, hpu, hcu, Bool.and_eq_true, decide_eq_true_eq] at hz
              have hfa : Rel2 (fun pu v => FieldsAgree [] r.kind pu v) (pu.filter (fun s => s.1 != "earlyexit"))
                  (cu.filterMap zeroVal) := by
                refine rel2_of_all _ _ ?_ _ _ hz.1 hz.2
                intro p hp'
                split at hp'
                · rename_i g hg
                  refine ⟨g, hg, fun x hx => Or.inr ⟨rfl, ?_⟩⟩
                  exact (List.all_eq_true.mp hp') x hx
                · cases hp'
              exact ⟨ls, ps, pu, cu, rfl, rfl, rfl, hlens, hps, hal,
                (by rw [hv]; exact zero_names cu), (by rw [hv]; exact hfa)⟩
          · simp at hps


/-- **one record**: owner, the ten fixed octets, the body — with RDATA, or without (the packer then writes the zero
    values and `len()` counts them) -/
theorem rr_sim (r : RRm) (hk : alignedKind r.kind = true) (hz : zeroFieldsOK r.kind = true) (hn : RRNamesOK r)
    (rc : RRc) (htp : toPack r = some rc) (pos off : Nat) (m : CMap) (c : List Bytes) (hinv : Inv pos off m c)
    (w : Bytes) (m' : CMap)
    (hp : packRRC pos m true rc.owner rc.typ rc.cls rc.ttl rc.plan rc.vals rc.flags = some (w, m'))
    (k : Nat) (c1 : Option (List Bytes)) (hl : lenRRC off (some c) r = some (k, c1)) :
    ∃ c', c1 = some c' ∧ Inv (pos + w.length) (off + k) m' c' := by
  cases hfs : fieldsOfRR r with
  | none => simp [lenRRC, hfs] at hl
  | some fs =>
    obtain ⟨ls, ps, pu, cu, hls, hpu, hcu, hlens, hps, hal, hnv, hfa⟩ := rr_setup r hk hz hn fs hfs
    exact rr_core r ls hls ps pu cu hpu hcu hlens hps hal hn.1 fs hfs hnv hfa rc htp pos off m c hinv w m' hp k c1 hl

/-! ### sections, questions, the message -/

/-- a record the theorem covers: a type whose `len()` body lines up with its `pack()` body, names as the decoder
    produces them -/
def Covered (r : RRm) : Prop := alignedKind r.kind = true ∧ zeroFieldsOK r.kind = true ∧ RRNamesOK r

theorem section_sim (rs : List RRm) (rcs : List RRc) (hrel : Rel2 (fun r rc => toPack r = some rc) rs rcs)
    (hcov : ∀ r ∈ rs, Covered r) (pos l : Nat) (m : CMap) (c : List Bytes) (hinv : Inv pos l m c)
    (w : Bytes) (m' : CMap) (hp : packRRcs pos m true rcs = some (w, m'))
    (l' : Nat) (c1 : Option (List Bytes)) (hl : lenSection l (some c) rs = some (l', c1)) :
    ∃ c', c1 = some c' ∧ Inv (pos + w.length) l' m' c' := by
  induction rs generalizing rcs pos l m c w m' with
  | nil =>
    cases rcs with
    | nil =>
      simp only [packRRcs, Option.some.injEq, Prod.mk.injEq] at hp
      obtain ⟨rfl, rfl⟩ := hp
      simp only [lenSection, Option.some.injEq, Prod.mk.injEq] at hl
      obtain ⟨rfl, rfl⟩ := hl
      exact ⟨c, rfl, by simpa using hinv⟩
    | cons _ _ => simp [Rel2] at hrel
  | cons r rs ih =>
    cases rcs with
    | nil => simp [Rel2] at hrel
    | cons rc rcs =>
      simp only [Rel2] at hrel
      simp only [packRRcs] at hp
      split at hp
      · rename_i w1 m1 h1
        cases hq : packRRcs (pos + w1.length) m1 true rcs with
        | none => simp [hq] at hp
        | some q =>
          simp only [hq, Option.map_some, Option.some.injEq, Prod.mk.injEq] at hp
          obtain ⟨rfl, rfl⟩ := hp
          simp only [lenSection] at hl
          cases hr : lenRRC l (some c) r with
          | none => simp [hr] at hl
          | some kc =>
            obtain ⟨k, c2⟩ := kc
            simp only [hr, Option.bind_some] at hl
            obtain ⟨ha, hz, hn⟩ := hcov r (by simp)
            obtain ⟨c', rfl, hinv'⟩ := rr_sim r ha hz hn rc hrel.1 pos l m c hinv w1 m1 h1 k c2 hr
            obtain ⟨c'', e1, e2⟩ := ih rcs hrel.2 (fun r hr => hcov r (by simp [hr])) (pos + w1.length) (l + k) m1 c' hinv'
              q.1 q.2 hq hl
            exact ⟨c'', e1, by simpa [List.length_append, Nat.add_assoc] using e2⟩
      · simp at hp

theorem questions_sim (qs : List Qm) (hq : ∀ q ∈ qs, NameOK q.name) (pos l : Nat) (m : CMap) (c : List Bytes)
    (hinv : Inv pos l m c) (w : Bytes) (m' : CMap) (hp : packQCs pos m true qs = some (w, m')) :
    ∃ c', (qs.foldl (fun (a : Nat × Option (List Bytes)) q =>
        ((a.1 + (domainNameLen q.name a.1 a.2 true).1 + 4, (domainNameLen q.name a.1 a.2 true).2))) (l, some c)).2 = some c' ∧
      Inv (pos + w.length) (qs.foldl (fun (a : Nat × Option (List Bytes)) q =>
        ((a.1 + (domainNameLen q.name a.1 a.2 true).1 + 4, (domainNameLen q.name a.1 a.2 true).2))) (l, some c)).1 m' c' := by
  induction qs generalizing pos l m c w m' with
  | nil =>
    simp only [packQCs, Option.some.injEq, Prod.mk.injEq] at hp
    obtain ⟨rfl, rfl⟩ := hp
    exact ⟨c, rfl, by simpa using hinv⟩
  | cons q qs ih =>
    simp only [packQCs] at hp
    split at hp
    · rename_i w1 m1 h1
      cases hr : packQCs (pos + w1.length) m1 true qs with
      | none => simp [hr] at hp
      | some r =>
        simp only [hr, Option.map_some, Option.some.injEq, Prod.mk.injEq] at hp
        obtain ⟨rfl, rfl⟩ := hp
        simp only [packQC] at h1
        cases hn : nameC q.name pos m true with
        | none => simp [hn] at h1
        | some nm =>
          obtain ⟨o, m2⟩ := nm
          simp only [hn, Option.map_some, Option.some.injEq, Prod.mk.injEq] at h1
          obtain ⟨rfl, rfl⟩ := h1
          have h2 := name_step q.name (Or.inr (hq q (by simp))) pos l m c true hinv o m2 hn
          have h3 := inv_est _ _ _ _ 4 4 (Nat.le_refl _) h2
          simp only [List.foldl_cons]
          rw [dnl_some q.name l c true]
          obtain ⟨c', e1, e2⟩ := ih (fun q hq' => hq q (by simp [hq'])) (pos + (o ++ (beBytes 2 q.typ ++ beBytes 2 q.cls)).length)
            (l + (domainNameLen q.name l (some c) true).1 + 4) m2 _
            (by simpa [List.length_append, C11.beBytes_length, Nat.add_assoc] using h3) r.1 r.2 hr
          exact ⟨c', e1, by simpa [List.length_append, Nat.add_assoc] using e2⟩
    · simp at hp

/-- **Len never under-estimates, whole messages**: for every decoded message with something to compress whose records
    are of covered types, the length the model of `Msg.Len()` predicts (with `Compress`) is at least the number of
    octets the compressing packer model writes -/
theorem lenMsg_ge_packMsgC (m : MsgM) (hq : ∀ q ∈ m.question, NameOK q.name)
    (hcov : ∀ r ∈ m.answer ++ m.ns ++ m.extra, Covered r)
    (hcomp : ¬ (m.question.length ≤ 1 ∧ m.answer.isEmpty ∧ m.ns.isEmpty ∧ m.extra.isEmpty))
    (w : Bytes) (hp : packMsgCOf m = some w) (n : Nat) (hl : lenMsg m true = some n) : w.length ≤ n := by
  unfold packMsgCOf at hp
  rw [if_neg hcomp] at hp
  split at hp
  · cases hp
  · split at hp
    · cases hp
    · cases han : m.answer.mapM toPack with
      | none => simp [han] at hp
      | some an =>
        cases hns : m.ns.mapM toPack with
        | none => simp [han, hns] at hp
        | some ns =>
          cases hex : m.extra.mapM toPack with
          | none => simp [han, hns, hex] at hp
          | some ex =>
            simp only [han, hns, hex] at hp
            unfold packMsgC at hp
            simp only at hp
            have hc0 : (decide (m.question.length > 1) || !m.answer.isEmpty || !m.ns.isEmpty || !m.extra.isEmpty) = true := by
              by_cases h1 : m.question.length > 1
              · simp [h1]
              · have : m.question.length ≤ 1 := by omega
                cases ha : m.answer.isEmpty <;> cases hn : m.ns.isEmpty <;> cases he : m.extra.isEmpty <;> simp_all
            simp only [lenMsg, hc0, Bool.and_self, ↓reduceIte] at hl
            have hinv0 : Inv 12 12 [] [] := by
              have := inv_est 0 0 [] [] 12 12 (Nat.le_refl _) (by simpa using inv_init)
              simpa using this
            split at hp
            · cases hp
            · rename_i wq m1 hwq
              obtain ⟨cq, eq1, eq2⟩ := questions_sim m.question hq 12 12 [] [] hinv0 wq m1 hwq
              split at hp
              · cases hp
              · rename_i wa m2 hwa
                split at hp
                · cases hp
                · rename_i wn m3 hwn
                  split at hp
                  · cases hp
                  · rename_i we m4 hwe
                    simp only [Option.some.injEq] at hp
                    subst hp
                    rw [eq1] at hl
                    cases hla : lenSection (m.question.foldl (fun (a : Nat × Option (List Bytes)) q =>
                        ((a.1 + (domainNameLen q.name a.1 a.2 true).1 + 4, (domainNameLen q.name a.1 a.2 true).2))) (12, some [])).1
                        (some cq) m.answer with
                    | none => simp [hla] at hl
                    | some a =>
                      simp only [hla, Option.bind_some] at hl
                      obtain ⟨ca, ea1, ea2⟩ := section_sim m.answer an (mapM_rel2 _ _ _ han)
                        (fun r hr => hcov r (by simp [hr])) _ _ _ _ eq2 wa m2 hwa a.1 a.2 hla
                      rw [ea1] at hl
                      cases hln : lenSection a.1 (some ca) m.ns with
                      | none => simp [hln] at hl
                      | some b =>
                        simp only [hln, Option.bind_some] at hl
                        obtain ⟨cn, en1, en2⟩ := section_sim m.ns ns (mapM_rel2 _ _ _ hns)
                          (fun r hr => hcov r (by simp [hr])) _ _ _ _ ea2 wn m3 hwn b.1 b.2 hln
                        rw [en1] at hl
                        cases hle : lenSection b.1 (some cn) m.extra with
                        | none => simp [hle] at hl
                        | some e =>
                          simp only [hle, Option.map_some, Option.some.injEq] at hl
                          obtain ⟨ce, ee1, ee2⟩ := section_sim m.extra ex (mapM_rel2 _ _ _ hex)
                            (fun r hr => hcov r (by simp [hr])) _ _ _ _ en2 we m4 hwe e.1 e.2 hle
                          have := ee2.pos
                          subst hl
                          simp only [List.length_append, C11.beBytes_length]
                          omega

end Dns.C08M

namespace Dns.C08M
open Dns Dns.MU Dns.Len Dns.C02M

/-- non-vacuity of the record hypothesis: an MX record `example.org. MX 10 mail.example.org.` as the decoder holds it -/
example :
    Covered ⟨[101,120,97,109,112,108,101,46,111,114,103,46], 15, 1, 60, 0, "MX",
      some [.n 10, .t [109,97,105,108,46,101,120,97,109,112,108,101,46,111,114,103,46]]⟩ := by
  refine ⟨by decide, by decide, ⟨Or.inr ⟨[[101,120,97,109,112,108,101],[111,114,103]], by decide, by decide⟩, ?_⟩⟩
  intro vals hv v hmem
  simp only [Option.some.injEq] at hv
  subst hv
  simp only [List.mem_cons, List.not_mem_nil, or_false] at hmem
  rcases hmem with rfl | rfl
  · trivial
  · exact Or.inr ⟨[[109,97,105,108],[101,120,97,109,112,108,101],[111,114,103]], by decide, by decide⟩

end Dns.C08M
