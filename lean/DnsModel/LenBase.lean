/-
  DnsModel.LenBase — the step alphabet of the length algebra: what a record type's `len()` method adds for its RDATA
  (kept apart so that the generated table DnsModel/Generated/LenPlans.lean can import it).
-/
namespace Dns

inductive LStep where
  | const (k : Nat)                                   -- `l += k`, `l++`
  | name (field : String) (compress : Bool)           -- `l += domainNameLen(rr.F, off+l, compression, c)`
  | str1 (field : String)                             -- `l += len(rr.F) + 1`
  | strLen (field : String)                           -- `l += len(rr.F)`
  | hexHalf (field : String)                          -- `l += len(rr.F) / 2`
  | b64 (field : String)                              -- `l += base64.StdEncoding.DecodedLen(len(rr.F))`
  | b32 (field : String)                              -- `l += base32HexNoPadEncoding.DecodedLen(len(rr.F))`
  | txt (field : String)                              -- `for _, x := range rr.F { l += len(x) + 1 }`
  | names (field : String) (compress : Bool)          -- `for _, x := range rr.F { l += domainNameLen(x, …) }`
  | ipIf (field : String) (n : Nat)                   -- `if len(rr.F) != 0 { l += n }`
  | gateway (typeField : String) (mask7 : Bool) (hostField : String)   -- 4 / 16 / `len(host) + 1` by gateway type
  | apl (field : String)                              -- `for _, x := range rr.F { l += x.len() }`
  | svcb (field : String)                             -- `for _, x := range rr.F { l += 4 + int(x.len()) }`
  | bitmap (field : String)                           -- `l += typeBitMapLen(rr.F)`
  | other (src : String)                              -- a statement outside the algebra
deriving Repr, DecidableEq

end Dns
