/-
  C02 (whole messages) — the decoder model of DnsModel/MsgUnpack.lean: every record read moves the offset forward by
  at least eleven octets and never beyond the input, so the number of records (and of loop rounds) is bounded by the
  octets present, whatever the counts in the header claim.
-/
import DnsModel.MsgUnpack
import DnsProofs.C18
import DnsProofs.C02
namespace Dns.C02M
open Dns Dns.MU Dns.C18

theorem uintAt_spec (w : Nat) (msg : Bytes) (off v o : Nat) (h : uintAt w msg off = some (v, o)) :
    o = off + w ∧ o ≤ msg.length := by
  unfold uintAt at h
  split at h
  · simp at h; omega
  · simp at h

/-- **one record**: a record that is read ends inside the input; unless the offset already stood at the end of the input
    (the empty header, which the section loop discards), it lies at least eleven octets further on -/
theorem unpackRR_advance (msg : Bytes) (off : Nat) (r : RRm) (o : Nat) (hoff : off ≤ msg.length)
    (h : unpackRR msg off = some (r, o)) :
    o ≤ msg.length ∧ ((off = msg.length ∧ o = off) ∨ off + 11 ≤ o) := by
  unfold unpackRR at h
  split at h
  · simp at h; omega
  · rename_i hne
    split at h
    · rename_i name o1 hn
      have g1 := unpackName_gt msg off name o1 hn
      split at h
      · simp at h
      · rename_i typ o2 h2
        obtain ⟨e2, _⟩ := uintAt_spec 2 msg o1 typ o2 h2
        split at h
        · simp at h
        · rename_i cls o3 h3
          obtain ⟨e3, _⟩ := uintAt_spec 2 msg o2 cls o3 h3
          split at h
          · simp at h
          · rename_i ttl o4 h4
            obtain ⟨e4, _⟩ := uintAt_spec 4 msg o3 ttl o4 h4
            split at h
            · simp at h
            · rename_i rdlen o5 h5
              obtain ⟨e5, l5⟩ := uintAt_spec 2 msg o4 rdlen o5 h5
              split at h
              · simp at h
              · rename_i hlen
                simp only at h
                split at h
                · simp at h; omega
                · split at h
                  · simp at h
                  · split at h
                    · split at h
                      · rename_i hok
                        simp at h
                        omega
                      · simp at h
                    · simp at h
    · simp at h

/-- **sections**: a section that is read holds at most `count` records, at most one per eleven octets that were left,
    and ends inside the input -/
theorem unpackSection_bound (c : Nat) (msg : Bytes) (off : Nat) (acc rs : List RRm) (o : Nat) (hoff : off ≤ msg.length)
    (h : unpackSection c msg off acc = some (rs, o)) :
    off ≤ o ∧ o ≤ msg.length ∧ rs.length ≤ acc.length + c ∧ acc.length + (rs.length - acc.length) = rs.length ∧
      11 * (rs.length - acc.length) ≤ o - off := by
  induction c generalizing off acc with
  | zero => simp [unpackSection] at h; obtain ⟨rfl, rfl⟩ := h; simp; exact hoff
  | succ c ih =>
    simp only [unpackSection] at h
    split at h
    · simp at h
    · rename_i r off' hr
      obtain ⟨l1, l2⟩ := unpackRR_advance msg off r off' hoff hr
      split at h
      · simp at h; obtain ⟨rfl, rfl⟩ := h; simp; exact hoff
      · rename_i hne
        have hadv : off + 11 ≤ off' := by
          rcases l2 with ⟨_, e⟩ | l2
          · exact absurd e hne
          · exact l2
        obtain ⟨a1, a2, a3, a4, a5⟩ := ih off' (r :: acc) l1 h
        simp only [List.length_cons] at a3 a4 a5
        refine ⟨by omega, a2, by omega, by omega, by omega⟩

/-- the counts are only an upper limit: beyond the number of records that fit, a larger count changes nothing
    ("lying counts") -/
theorem unpackSection_count_irrelevant (c : Nat) (msg : Bytes) (off : Nat) (acc : List RRm) (hoff : off ≤ msg.length)
    (hc : msg.length - off < 11 * c) :
    unpackSection (c + 1) msg off acc = unpackSection c msg off acc := by
  induction c generalizing off acc with
  | zero => omega
  | succ c ih =>
    conv => lhs; rw [unpackSection]
    conv => rhs; rw [unpackSection]
    split
    · rfl
    · rename_i r off' hr
      obtain ⟨l1, l2⟩ := unpackRR_advance msg off r off' hoff hr
      split
      · rfl
      · rename_i hne
        have hadv : off + 11 ≤ off' := by
          rcases l2 with ⟨_, e⟩ | l2
          · exact absurd e hne
          · exact l2
        by_cases hz : c = 0
        · subst hz; omega
        · exact ih off' (r :: acc) l1 (by omega)

theorem unpackQuestion_advance (msg : Bytes) (off : Nat) (q : Qm) (o : Nat) (h : unpackQuestion msg off = some (q, o)) :
    off < o ∧ o ≤ msg.length := by
  unfold unpackQuestion at h
  split at h
  · rename_i name o1 hn
    have g1 := unpackName_gt msg off name o1 hn
    have g2 := unpackName_le msg off name o1 hn
    split at h
    · simp at h; omega
    · split at h
      · simp at h
      · rename_i typ o2 h2
        obtain ⟨e2, l2⟩ := uintAt_spec 2 msg o1 typ o2 h2
        split at h
        · simp at h; omega
        · split at h
          · simp at h
          · rename_i cls o3 h3
            obtain ⟨e3, l3⟩ := uintAt_spec 2 msg o2 cls o3 h3
            simp at h; omega
  · simp at h

/-- the question loop: at most `count` questions, one per octet at the very least, ending inside the input -/
theorem unpackQuestions_bound (c : Nat) (msg : Bytes) (off : Nat) (acc : List Qm) (hoff : off ≤ msg.length) :
    off ≤ (unpackQuestions c msg off acc).2.1 ∧ (unpackQuestions c msg off acc).2.1 ≤ msg.length ∧
      (unpackQuestions c msg off acc).1.length ≤ acc.length + c ∧
      (unpackQuestions c msg off acc).1.length ≤ acc.length + ((unpackQuestions c msg off acc).2.1 - off) := by
  induction c generalizing off acc with
  | zero => simp [unpackQuestions]; exact hoff
  | succ c ih =>
    simp only [unpackQuestions]
    split
    · simp; exact hoff
    · rename_i q off' hq
      obtain ⟨l1, l2⟩ := unpackQuestion_advance msg off q off' hq
      split
      · simp; exact hoff
      · obtain ⟨a1, a2, a3, a4⟩ := ih off' (q :: acc) l2
        simp only [List.length_cons] at a3 a4
        exact ⟨by omega, a2, by omega, by omega⟩

/-- **whole message**: however large the four counts in the header are, the records of the three sections together are
    at most one per eleven octets of input behind the header, and the questions at most one per octet -/
theorem unpackMsg_records_bounded (msg : Bytes) (m : MsgM) (h : unpackMsg msg = some m) :
    11 * (m.answer.length + m.ns.length + m.extra.length) ≤ msg.length - 12 ∧ m.question.length ≤ msg.length - 12 := by
  unfold unpackMsg at h
  split at h
  · simp at h
  · rename_i hlen
    simp only [Nat.reduceMul] at h
    have hq := unpackQuestions_bound (beVal ((msg.drop 4).take 2)) msg 12 [] (by omega)
    obtain ⟨q1, q2, _, q4⟩ := hq
    simp only [List.length_nil, Nat.zero_add] at q4
    split at h
    · simp at h; subst h; simp
    · split at h
      · simp at h; subst h; simp; omega
      · split at h
        · simp at h; subst h; simp; omega
        · rename_i an o1 ha
          obtain ⟨a1, a2, _, _, a5⟩ := unpackSection_bound _ msg _ [] an o1 q2 ha
          simp only [List.length_nil, Nat.sub_zero] at a5
          split at h
          · simp at h; subst h; simp; omega
          · rename_i ns o2 hn
            obtain ⟨b1, b2, _, _, b5⟩ := unpackSection_bound _ msg _ [] ns o2 a2 hn
            simp only [List.length_nil, Nat.sub_zero] at b5
            split at h
            · simp at h; subst h; simp; omega
            · rename_i ex o3 he
              obtain ⟨c1, c2, _, _, c5⟩ := unpackSection_bound _ msg _ [] ex o3 b2 he
              simp only [List.length_nil, Nat.sub_zero] at c5
              simp at h; subst h; simp; omega

/-! ### names in accepted messages -/

/-- a name as the decoder delivers it: the library's spelling of a label list within the 63 / 255 limits -/
def NameOK (text : Bytes) : Prop := ∃ ls, WireNameOK ls ∧ text = presentOf ls

theorem unpackName_nameOK (msg : Bytes) (off : Nat) (s : Bytes) (o : Nat) (h : unpackName msg off = .ok (s, o)) : NameOK s := by
  obtain ⟨_, ls, hok, hs, _⟩ := C02.unpackName_sound msg off s o h
  exact ⟨ls, hok, hs⟩

/-- every name a field value holds -/
def ValNamesOK : Val → Prop
  | .t text => text = [] ∨ NameOK text
  | .ns texts => ∀ t ∈ texts, NameOK t
  | _ => True

theorem unpackNamesM_ok (fuel : Nat) (m : Bytes) (off : Nat) (texts : List Bytes) (h : unpackNamesM fuel m off = some texts) :
    ∀ t ∈ texts, NameOK t := by
  induction fuel generalizing off texts with
  | zero => simp [unpackNamesM] at h
  | succ f ih =>
    simp only [unpackNamesM] at h
    split at h
    · simp at h; subst h; simp
    · split at h
      · rename_i text off' hn
        cases hr : unpackNamesM f m off' with
        | none => simp [hr] at h
        | some r =>
          simp only [hr, Option.map_some, Option.some.injEq] at h
          subst h
          intro t ht
          rcases List.mem_cons.mp ht with rfl | ht
          · exact unpackName_nameOK m off _ off' hn
          · exact ih off' r hr t ht
      · simp at h

theorem unpackNames_ok (fuel : Nat) (rd : Bytes) (texts : List Bytes) (h : unpackNames fuel rd = some texts) :
    ∀ t ∈ texts, NameOK t := by
  induction fuel generalizing rd texts with
  | zero => simp [unpackNames] at h
  | succ f ih =>
    cases rd with
    | nil => simp [unpackNames] at h; subst h; simp
    | cons b rest =>
      simp only [unpackNames] at h
      split at h
      · rename_i text off hn
        split at h
        · simp at h
        · cases hr : unpackNames f ((b :: rest).drop off) with
          | none => simp [hr] at h
          | some r =>
            simp only [hr, Option.map_some, Option.some.injEq] at h
            subst h
            intro t ht
            rcases List.mem_cons.mp ht with rfl | ht
            · exact unpackName_nameOK _ 0 _ off hn
            · exact ih _ r hr t ht
      · simp at h

/-- one step of a body on an RDATA slice: whatever name it delivers is within the limits -/
theorem unpackStep_names (vals : List Val) (s : CStep) (rd : Bytes) (v : Val) (rd' : Bytes)
    (h : unpackStep vals s rd = some (v, rd')) : ValNamesOK v := by
  cases s
  case name =>
    simp only [unpackStep] at h
    split at h
    · rename_i text o' hn
      simp only [Option.some.injEq, Prod.mk.injEq] at h
      obtain ⟨rfl, _⟩ := h
      exact Or.inr (unpackName_nameOK _ 0 _ o' hn)
    · cases h
  case names =>
    simp only [unpackStep] at h
    cases hn : unpackNames (rd.length + 1) rd with
    | none => rw [hn] at h; cases h
    | some ns =>
      rw [hn] at h
      simp only [Option.map_some, Option.some.injEq, Prod.mk.injEq] at h
      obtain ⟨rfl, _⟩ := h
      exact unpackNames_ok _ _ _ hn
  case gateway i mk =>
    simp only [unpackStep] at h
    split at h
    · split at h
      · simp only [Option.some.injEq, Prod.mk.injEq] at h; obtain ⟨rfl, _⟩ := h; trivial
      · cases h
    · split at h
      · simp only [Option.some.injEq, Prod.mk.injEq] at h; obtain ⟨rfl, _⟩ := h; trivial
      · cases h
    · split at h
      · rename_i text o' hn
        simp only [Option.some.injEq, Prod.mk.injEq] at h
        obtain ⟨rfl, _⟩ := h
        exact Or.inr (unpackName_nameOK _ 0 _ o' hn)
      · cases h
    · simp only [Option.some.injEq, Prod.mk.injEq] at h; obtain ⟨rfl, _⟩ := h; trivial
  case uint w =>
    simp only [unpackStep] at h
    split at h
    · simp only [Option.some.injEq, Prod.mk.injEq] at h; obtain ⟨rfl, _⟩ := h; trivial
    · cases h
  case a =>
    simp only [unpackStep] at h
    split at h
    · simp only [Option.some.injEq, Prod.mk.injEq] at h; obtain ⟨rfl, _⟩ := h; trivial
    · cases h
  case aaaa =>
    simp only [unpackStep] at h
    split at h
    · simp only [Option.some.injEq, Prod.mk.injEq] at h; obtain ⟨rfl, _⟩ := h; trivial
    · cases h
  case str =>
    cases rd with
    | nil => simp [unpackStep] at h
    | cons l rest =>
      simp only [unpackStep] at h
      split at h
      · simp only [Option.some.injEq, Prod.mk.injEq] at h; obtain ⟨rfl, _⟩ := h; trivial
      · cases h
  case blobRest =>
    simp only [unpackStep, Option.some.injEq, Prod.mk.injEq] at h; obtain ⟨rfl, _⟩ := h; trivial
  case blobSized i =>
    simp only [unpackStep] at h
    split at h
    · split at h
      · simp only [Option.some.injEq, Prod.mk.injEq] at h; obtain ⟨rfl, _⟩ := h; trivial
      · cases h
    · cases h
  case txt =>
    simp only [unpackStep] at h
    cases hx : unpackTxtStrings (rd.length + 1) rd with
    | none => rw [hx] at h; cases h
    | some x => rw [hx] at h; simp only [Option.map_some, Option.some.injEq, Prod.mk.injEq] at h; obtain ⟨rfl, _⟩ := h; trivial
  case nsec =>
    simp only [unpackStep] at h
    cases hx : unpackNsec rd with
    | none => rw [hx] at h; cases h
    | some x => rw [hx] at h; simp only [Option.map_some, Option.some.injEq, Prod.mk.injEq] at h; obtain ⟨rfl, _⟩ := h; trivial
  case tlvs sorted =>
    simp only [unpackStep] at h
    cases hx : unpackTlvs sorted (rd.length + 1) none rd with
    | none => rw [hx] at h; cases h
    | some x => rw [hx] at h; simp only [Option.map_some, Option.some.injEq, Prod.mk.injEq] at h; obtain ⟨rfl, _⟩ := h; trivial
  case apl =>
    simp only [unpackStep] at h
    cases hx : unpackApl (rd.length + 1) rd with
    | none => rw [hx] at h; cases h
    | some x => rw [hx] at h; simp only [Option.map_some, Option.some.injEq, Prod.mk.injEq] at h; obtain ⟨rfl, _⟩ := h; trivial
  case early => simp [unpackStep] at h
  case other => simp [unpackStep] at h

/-- the same inside a message -/
theorem unpackStepM_names (vals : List Val) (s : CStep) (m : Bytes) (off : Nat) (v : Val) (o : Nat)
    (h : unpackStepM vals s m off = some (v, o)) : ValNamesOK v := by
  have slice : (unpackStep vals s (m.drop off)).map (fun p => (p.1, m.length - p.2.length)) = some (v, o) → ValNamesOK v := by
    intro hx
    cases hu : unpackStep vals s (m.drop off) with
    | none => rw [hu] at hx; cases hx
    | some p =>
      obtain ⟨v0, rd'⟩ := p
      rw [hu] at hx
      simp only [Option.map_some, Option.some.injEq, Prod.mk.injEq] at hx
      obtain ⟨rfl, _⟩ := hx
      exact unpackStep_names vals s _ _ _ hu
  cases s
  case name =>
    simp only [unpackStepM] at h
    split at h
    · rename_i text o' hn
      simp only [Option.some.injEq, Prod.mk.injEq] at h
      obtain ⟨rfl, _⟩ := h
      exact Or.inr (unpackName_nameOK m off _ o' hn)
    · cases h
  case names =>
    simp only [unpackStepM] at h
    cases hn : unpackNamesM (m.length + 1) m off with
    | none => rw [hn] at h; cases h
    | some ns =>
      rw [hn] at h
      simp only [Option.map_some, Option.some.injEq, Prod.mk.injEq] at h
      obtain ⟨rfl, _⟩ := h
      exact unpackNamesM_ok _ _ _ _ hn
  case gateway i mk =>
    simp only [unpackStepM] at h
    split at h
    · split at h
      · rename_i text o' hn
        simp only [Option.some.injEq, Prod.mk.injEq] at h
        obtain ⟨rfl, _⟩ := h
        exact Or.inr (unpackName_nameOK m off _ o' hn)
      · cases h
    · exact slice h
  all_goals exact slice h

/-- whole bodies -/
theorem unpackPlanM_names (U : List CStep) (m : Bytes) (off : Nat) (acc vals : List Val) (o : Nat)
    (hacc : ∀ v ∈ acc, ValNamesOK v) (h : unpackPlanM U m off acc = some (vals, o)) : ∀ v ∈ vals, ValNamesOK v := by
  induction U generalizing off acc with
  | nil => simp [unpackPlanM] at h; obtain ⟨rfl, _⟩ := h; exact hacc
  | cons s U ih =>
    by_cases hse : s = .early
    · subst hse
      simp only [unpackPlanM] at h
      split at h
      · simp only [Option.some.injEq, Prod.mk.injEq] at h
        obtain ⟨rfl, _⟩ := h
        intro v hv
        rcases List.mem_append.mp hv with hv | hv
        · exact hacc v hv
        · obtain ⟨s0, _, hz⟩ := List.mem_filterMap.mp hv
          cases s0 <;> simp [zeroVal] at hz <;> (subst hz; first | trivial | exact Or.inl rfl | (intro t ht; cases ht))
      · exact ih off acc hacc h
    · have hstep : unpackPlanM (s :: U) m off acc =
          (match unpackStepM acc s m off with
           | some (v, off') => unpackPlanM U m off' (acc ++ [v])
           | none => none) := by
        cases s <;> first | exact absurd rfl hse | rfl
      rw [hstep] at h
      cases hu : unpackStepM acc s m off with
      | none => rw [hu] at h; cases h
      | some p =>
        obtain ⟨v, off'⟩ := p
        rw [hu] at h
        simp only at h
        exact ih off' (acc ++ [v]) (by
          intro x hx
          rcases List.mem_append.mp hx with hx | hx
          · exact hacc x hx
          · simp at hx; subst hx; exact unpackStepM_names acc s m off _ off' hu) h

/-- **records**: the owner and every name inside the RDATA of a record the decoder accepts are names within the
    63 / 255 limits in the library's spelling (the owner of the discarded empty header aside) -/
theorem unpackRR_names (msg : Bytes) (off : Nat) (r : RRm) (o : Nat) (h : unpackRR msg off = some (r, o)) :
    (r.name = [] ∨ NameOK r.name) ∧ ∀ vals, r.body = some vals → ∀ v ∈ vals, ValNamesOK v := by
  unfold unpackRR at h
  split at h
  · simp only [Option.some.injEq, Prod.mk.injEq] at h
    obtain ⟨rfl, _⟩ := h
    exact ⟨Or.inl rfl, by intro vals hv; cases hv⟩
  · split at h
    · rename_i name o1 hn
      have hname := unpackName_nameOK msg off name o1 hn
      split at h
      · cases h
      · split at h
        · cases h
        · split at h
          · cases h
          · split at h
            · cases h
            · split at h
              · cases h
              · simp only at h
                split at h
                · simp only [Option.some.injEq, Prod.mk.injEq] at h
                  obtain ⟨rfl, _⟩ := h
                  exact ⟨Or.inr hname, by intro vals hv; cases hv⟩
                · split at h
                  · cases h
                  · split at h
                    · rename_i plan hpl vals off' hb
                      split at h
                      · simp only [Option.some.injEq, Prod.mk.injEq] at h
                        obtain ⟨rfl, _⟩ := h
                        refine ⟨Or.inr hname, ?_⟩
                        intro vs hvs
                        simp only [Option.some.injEq] at hvs
                        subst hvs
                        exact unpackPlanM_names _ _ _ [] _ _ (by simp) hb
                      · cases h
                    · cases h
    · cases h

def RRNamesOK (r : RRm) : Prop := (r.name = [] ∨ NameOK r.name) ∧ ∀ vals, r.body = some vals → ∀ v ∈ vals, ValNamesOK v

theorem unpackSection_names (c : Nat) (msg : Bytes) (off : Nat) (acc rs : List RRm) (o : Nat)
    (hacc : ∀ r ∈ acc, RRNamesOK r) (h : unpackSection c msg off acc = some (rs, o)) : ∀ r ∈ rs, RRNamesOK r := by
  induction c generalizing off acc with
  | zero => simp [unpackSection] at h; obtain ⟨rfl, _⟩ := h; simpa using hacc
  | succ c ih =>
    simp only [unpackSection] at h
    split at h
    · cases h
    · rename_i r off' hr
      split at h
      · simp only [Option.some.injEq, Prod.mk.injEq] at h; obtain ⟨rfl, _⟩ := h; simpa using hacc
      · exact ih off' (r :: acc) (by
          intro x hx
          rcases List.mem_cons.mp hx with rfl | hx
          · exact unpackRR_names msg off _ off' hr
          · exact hacc x hx) h

theorem unpackQuestions_names (c : Nat) (msg : Bytes) (off : Nat) (acc : List Qm) (hacc : ∀ q ∈ acc, NameOK q.name) :
    ∀ q ∈ (unpackQuestions c msg off acc).1, NameOK q.name := by
  induction c generalizing off acc with
  | zero => simpa [unpackQuestions] using hacc
  | succ c ih =>
    simp only [unpackQuestions]
    split
    · simpa using hacc
    · rename_i q off' hq
      split
      · simpa using hacc
      · apply ih
        intro x hx
        rcases List.mem_cons.mp hx with rfl | hx
        · unfold unpackQuestion at hq
          split at hq
          · rename_i name o1 hn
            have := unpackName_nameOK msg off name o1 hn
            split at hq
            · simp only [Option.some.injEq, Prod.mk.injEq] at hq; obtain ⟨rfl, _⟩ := hq; exact this
            · split at hq
              · cases hq
              · split at hq
                · simp only [Option.some.injEq, Prod.mk.injEq] at hq; obtain ⟨rfl, _⟩ := hq; exact this
                · split at hq
                  · cases hq
                  · simp only [Option.some.injEq, Prod.mk.injEq] at hq; obtain ⟨rfl, _⟩ := hq; exact this
          · cases hq
        · exact hacc x hx

/-- **accepted messages hold only names within the limits**: every question name, every owner and every domain name
    inside the RDATA of every record of whatever `Msg.Unpack` (the model) returns — also the partial result after an
    error — is the library's spelling of a label list within the 63 / 255 octet limits -/
theorem unpackMsg_names (msg : Bytes) (m : MsgM) (h : unpackMsg msg = some m) :
    (∀ q ∈ m.question, NameOK q.name) ∧ (∀ r ∈ m.answer, RRNamesOK r) ∧ (∀ r ∈ m.ns, RRNamesOK r) ∧
      (∀ r ∈ m.extra, RRNamesOK r) := by
  unfold unpackMsg at h
  split at h
  · cases h
  · simp only at h
    have hq := unpackQuestions_names (beVal ((msg.drop (2 * 2)).take 2)) msg 12 [] (by simp)
    split at h
    · simp at h; subst h; simp
    · split at h
      · simp at h; subst h; exact ⟨hq, by simp, by simp, by simp⟩
      · split at h
        · simp at h; subst h; exact ⟨hq, by simp, by simp, by simp⟩
        · rename_i an o1 ha
          have han := unpackSection_names _ msg _ [] an o1 (by simp) ha
          split at h
          · simp at h; subst h; exact ⟨hq, han, by simp, by simp⟩
          · rename_i ns o2 hn
            have hns := unpackSection_names _ msg _ [] ns o2 (by simp) hn
            split at h
            · simp at h; subst h; exact ⟨hq, han, hns, by simp⟩
            · rename_i ex o3 he
              have hex := unpackSection_names _ msg _ [] ex o3 (by simp) he
              simp at h; subst h; exact ⟨hq, han, hns, hex⟩

/-- the premise is satisfiable (a bare header whose counts claim 65535 records each); on longer inputs the compiled
    model is run against `Msg.Unpack` by the `msg.unpack` correspondence (the name decoder is defined by well-founded
    recursion, which the kernel does not unfold by `decide`) -/
example : (unpackMsg [0x12, 0x34, 0x81, 0x80, 0xFF, 0xFF, 0xFF, 0xFF, 0xFF, 0xFF, 0xFF, 0xFF]).isSome = true := by decide

end Dns.C02M
