package main

import (
	"crypto/hmac"
	"encoding/base64"
	"encoding/hex"
	"fmt"
	"net"
	"time"

	"github.com/miekg/dns"
)

// c11Server: signed requests against real servers.  The reply to a signed request is chained onto the request's MAC
// (RFC 8945 5.3): its MAC is the HMAC over request MAC ++ reply ++ TSIG variables — also when the request's MAC is
// right but its time lies outside the window and the handler answers BADTIME (5.2.3).
func c11Server(c *Ctx, r *Rng) {
	const keyName = "srv-key."
	secret := r.Bytes(32)
	secB64 := base64.StdEncoding.EncodeToString(secret)
	h := dns.HandlerFunc(func(w dns.ResponseWriter, req *dns.Msg) {
		m := new(dns.Msg)
		m.SetReply(req)
		if t := req.IsTsig(); t != nil {
			now := time.Now().Unix()
			m.SetTsig(keyName, dns.HmacSHA256, 300, now)
			if w.TsigStatus() == dns.ErrTime {
				m.Rcode = dns.RcodeNotAuth
				ts := m.IsTsig()
				ts.Error = dns.RcodeBadTime
				ts.TimeSigned = t.TimeSigned
				ts.OtherLen = 6
				ts.OtherData = fmt.Sprintf("%012x", uint64(now))
			}
		}
		w.WriteMsg(m)
	})
	for _, network := range []string{"udp", "tcp"} {
		srv := &dns.Server{Handler: h, TsigSecret: map[string]string{keyName: secB64}, ReadTimeout: 2 * time.Second}
		var addr string
		if network == "udp" {
			pc, err := net.ListenPacket("udp", "127.0.0.1:0")
			if err != nil {
				continue
			}
			srv.PacketConn, addr = pc, pc.LocalAddr().String()
		} else {
			l, err := net.Listen("tcp", "127.0.0.1:0")
			if err != nil {
				continue
			}
			srv.Listener, addr = l, l.Addr().String()
		}
		started := make(chan struct{})
		srv.NotifyStartedFunc = func() { close(started) }
		go srv.ActivateAndServe()
		<-started
		for i := 0; i < c.Scale(6, 60); i++ {
			skew := []int64{0, 100, -100, 1000, -1000, 100000}[i%6]
			q := new(dns.Msg)
			q.SetQuestion(fmt.Sprintf("q%d.example.", i), dns.TypeA)
			q.SetTsig(keyName, dns.HmacSHA256, 300, time.Now().Unix()+skew)
			reqWire, reqMAC, err := dns.TsigGenerate(q, secB64, "", false)
			if err != nil {
				continue
			}
			conn, err := net.Dial(network, addr)
			if err != nil {
				continue
			}
			co := &dns.Conn{Conn: conn}
			co.Write(reqWire)
			conn.SetReadDeadline(time.Now().Add(2 * time.Second))
			reply, err := co.ReadMsgHeader(nil)
			conn.Close()
			in := fmt.Sprintf("%s skew=%d request=%s", network, skew, hx(reqWire))
			if err != nil {
				c.Pred("server", "signed-request-answered", in, false, err.Error(), "a reply", true)
				continue
			}
			f, ok := indepStrip(reply)
			if !ok {
				c.Pred("server", "reply-carries-tsig", in+" reply="+hx(reply), false, "no TSIG as last record", "signed reply", true)
				continue
			}
			reqB, _ := hex.DecodeString(reqMAC)
			hm := hmacFor(dns.HmacSHA256, secret)
			hm.Write(specDigest(f, reqB, false))
			want := hm.Sum(nil)
			inWindow := skew >= -300 && skew <= 300
			kind := "in-window"
			if !inWindow {
				kind = "badtime"
				c.Pred("server", "out-of-window-request-refused", in, f.errc == uint16(dns.RcodeBadTime), fmt.Sprint(f.errc), "BADTIME", true)
			}
			c.Pred("server", "reply-mac-chained-on-request-mac:"+kind, in+" reply="+hx(reply), hmac.Equal(want, f.mac), hx(f.mac), hx(want), true)
		}
		srv.Shutdown()
	}
	c11EmptyKeyTable(c, r)
}

// c11EmptyKeyTable: a server whose key table is there but empty knows no key: TsigStatus of any signed request is an
// error (and the handler can see that), never nil.
func c11EmptyKeyTable(c *Ctx, r *Rng) {
	secB64 := base64.StdEncoding.EncodeToString(r.Bytes(32))
	for _, network := range []string{"udp", "tcp"} {
		status := make(chan string, 4)
		h := dns.HandlerFunc(func(w dns.ResponseWriter, req *dns.Msg) {
			if req.IsTsig() != nil {
				status <- fmt.Sprint(w.TsigStatus())
			} else {
				status <- "unsigned"
			}
			m := new(dns.Msg)
			m.SetReply(req)
			w.WriteMsg(m)
		})
		srv := &dns.Server{Handler: h, TsigSecret: map[string]string{}, ReadTimeout: 2 * time.Second}
		var addr string
		if network == "udp" {
			pc, err := net.ListenPacket("udp", "127.0.0.1:0")
			if err != nil {
				continue
			}
			srv.PacketConn, addr = pc, pc.LocalAddr().String()
		} else {
			l, err := net.Listen("tcp", "127.0.0.1:0")
			if err != nil {
				continue
			}
			srv.Listener, addr = l, l.Addr().String()
		}
		started := make(chan struct{})
		srv.NotifyStartedFunc = func() { close(started) }
		go srv.ActivateAndServe()
		<-started
		q := new(dns.Msg)
		q.SetQuestion("nokey.example.", dns.TypeA)
		q.SetTsig("some-key.", dns.HmacSHA256, 300, time.Now().Unix())
		if reqWire, _, err := dns.TsigGenerate(q, secB64, "", false); err == nil {
			if conn, err := net.Dial(network, addr); err == nil {
				co := &dns.Conn{Conn: conn}
				co.Write(reqWire)
				got := "handler not reached"
				select {
				case got = <-status:
				case <-time.After(2 * time.Second):
				}
				conn.Close()
				c.Pred("server", "unknown-key-is-an-error:empty-key-table", network, got != "<nil>" && got != "unsigned", got, "an error (ErrSecret)", true)
			}
		}
		srv.Shutdown()
	}
}
