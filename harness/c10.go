package main

import (
	"bytes"
	"crypto"
	"crypto/ecdsa"
	"crypto/ed25519"
	"crypto/elliptic"
	"crypto/rsa"
	"crypto/x509"
	"encoding/base64"
	"fmt"
	"io"
	"math/big"
	"sort"
	"strings"

	"github.com/miekg/dns"
)

func init() { props["C10"] = runC10 }

// captureSigner: an "Ed25519" signer that records the message it is asked to sign (the library hands
// Ed25519 the whole signed data un-hashed) and produces a real Ed25519 signature.
type captureSigner struct {
	priv ed25519.PrivateKey
	got  [][]byte
}

func (s *captureSigner) Public() crypto.PublicKey { return s.priv.Public() }
func (s *captureSigner) Sign(rnd io.Reader, msg []byte, opts crypto.SignerOpts) ([]byte, error) {
	s.got = append(s.got, append([]byte{}, msg...))
	return s.priv.Sign(rnd, msg, opts)
}

// RFC 4034 6.2 (as amended by RFC 6840 5.1): types whose RDATA names are folded to lower case
var lowerRdataTypes = map[uint16]bool{dns.TypeNS: true, dns.TypeMD: true, dns.TypeMF: true, dns.TypeCNAME: true, dns.TypeSOA: true, dns.TypeMB: true,
	dns.TypeMG: true, dns.TypeMR: true, dns.TypePTR: true, dns.TypeMINFO: true, dns.TypeMX: true, dns.TypeRP: true, dns.TypeAFSDB: true, dns.TypeRT: true,
	dns.TypeSIG: true, dns.TypePX: true, dns.TypeNXT: true, dns.TypeNAPTR: true, dns.TypeKX: true, dns.TypeSRV: true, dns.TypeDNAME: true}

type canonRec struct {
	owner [][]byte
	typ   uint16
	class uint16
	rdata []byte // canonical RDATA
}

// canonOf: canonical pieces of a record given as uncompressed wire octets (independent of dnssec.go)
func canonOf(w []byte) (canonRec, bool) {
	msg := append(buildMsgWire(0, 0, nil, nil, nil, nil), w...)
	msg[7] = 1
	wk := walkMsg(msg)
	if wk.Err != "" || len(wk.RRStart) != 1 {
		return canonRec{}, false
	}
	out := append([]byte{}, msg...)
	owner := wk.Names[0]
	p := owner.End
	typ := uint16(be16(msg, p))
	cr := canonRec{owner: owner.Labels, typ: typ, class: uint16(be16(msg, p+2))}
	if lowerRdataTypes[typ] {
		for _, n := range wk.Names[1:] {
			q := n.Off
			for q < n.End && out[q] != 0 {
				l := int(out[q])
				for k := q + 1; k <= q+l; k++ {
					if out[k] >= 'A' && out[k] <= 'Z' {
						out[k] += 32
					}
				}
				q += 1 + l
			}
		}
	}
	cr.rdata = out[p+10 : wk.RREnd[0]]
	return cr, true
}

// specSigned: RFC 4034 3.1.8.1: RRSIG_RDATA (without signature, signer in canonical form) | RR(1) | RR(2) ...
func specSigned(sig *dns.RRSIG, recs []canonRec) []byte {
	var d []byte
	d = putUint(d, 2, uint64(sig.TypeCovered))
	d = append(d, sig.Algorithm, sig.Labels)
	d = putUint(d, 4, uint64(sig.OrigTtl))
	d = putUint(d, 4, uint64(sig.Expiration))
	d = putUint(d, 4, uint64(sig.Inception))
	d = putUint(d, 2, uint64(sig.KeyTag))
	d = append(d, unescapeName(asciiLower(dns.Fqdn(sig.SignerName)))...)
	var rrs [][]byte
	var keys [][]byte
	for _, c := range recs {
		owner := lowerLabels(c.owner)
		if len(owner) > int(sig.Labels) {
			owner = append([][]byte{[]byte("*")}, owner[len(owner)-int(sig.Labels):]...)
		}
		w := wireOf(owner)
		w = putUint(w, 2, uint64(c.typ))
		w = putUint(w, 2, uint64(c.class))
		w = putUint(w, 4, uint64(sig.OrigTtl))
		w = putUint(w, 2, uint64(len(c.rdata)))
		w = append(w, c.rdata...)
		rrs = append(rrs, w)
		keys = append(keys, c.rdata)
	}
	idx := make([]int, len(rrs))
	for i := range idx {
		idx[i] = i
	}
	sort.SliceStable(idx, func(a, b int) bool { return bytes.Compare(keys[idx[a]], keys[idx[b]]) < 0 })
	var prev []byte
	for n, i := range idx {
		if n > 0 && bytes.Equal(rrs[i], prev) {
			continue
		}
		d = append(d, rrs[i]...)
		prev = rrs[i]
	}
	return d
}

type signKey struct {
	alg    uint8
	signer crypto.Signer
	key    *dns.DNSKEY
}

func newSignKey(r *Rng, alg uint8, owner string) *signKey {
	k := &dns.DNSKEY{Hdr: dns.RR_Header{Name: owner, Rrtype: dns.TypeDNSKEY, Class: 1, Ttl: 3600}, Flags: 257, Protocol: 3, Algorithm: alg}
	var s crypto.Signer
	switch alg {
	case dns.ED25519:
		pub, priv, _ := ed25519.GenerateKey(detRand{r})
		k.PublicKey = toB64(pub)
		s = priv
	case dns.ECDSAP256SHA256, dns.ECDSAP384SHA384:
		curve := elliptic.P256()
		n := 32
		if alg == dns.ECDSAP384SHA384 {
			curve, n = elliptic.P384(), 48
		}
		priv, _ := ecdsa.GenerateKey(curve, detRand{r})
		b := append(priv.PublicKey.X.FillBytes(make([]byte, n)), priv.PublicKey.Y.FillBytes(make([]byte, n))...)
		k.PublicKey = toB64(b)
		s = priv
	default: // RSA
		priv, _ := rsa.GenerateKey(detRand{r}, 1024)
		// RFC 3110: exponent length, exponent, modulus
		e := []byte{1, 0, 1}
		b := append([]byte{byte(len(e))}, e...)
		b = append(b, priv.PublicKey.N.Bytes()...)
		k.PublicKey = toB64(b)
		s = priv
	}
	return &signKey{alg, s, k}
}

// genRRset: records of one signable type under one owner, from generated wire data
func genRRset(r *Rng, owner [][]byte, mode int) ([]dns.RR, [][]byte) {
	types := []uint16{dns.TypeA, dns.TypeAAAA, dns.TypeNS, dns.TypeMX, dns.TypeTXT, dns.TypeSRV, dns.TypeCNAME, dns.TypeSOA, dns.TypePTR, dns.TypeNAPTR,
		dns.TypeDS, dns.TypeDNSKEY, dns.TypeNSEC, dns.TypeNSEC3, dns.TypeRP, dns.TypeAFSDB, dns.TypeKX, dns.TypeDNAME, dns.TypeMINFO, dns.TypeHINFO, dns.TypeCAA,
		dns.TypeSVCB, dns.TypeTLSA, dns.TypeSSHFP, dns.TypeRT, dns.TypePX, dns.TypeMB, dns.TypeMG, dns.TypeMR, dns.TypeLOC, dns.TypeURI, dns.TypeSPF, dns.TypeMD, dns.TypeMF, dns.TypeNXT, dns.TypeSIG}
	typ := types[r.Intn(len(types))]
	n := 1 + r.Intn(4)
	var set []dns.RR
	var wires [][]byte
	for i := 0; i < n; i++ {
		g := genRR(r, typ, mode, true)
		w := assembleRR(owner, typ, 1, uint32(60+r.Intn(3)), g.Rdata)
		rr, off, err := dns.UnpackRR(w, 0)
		if err != nil || off != len(w) {
			continue
		}
		set = append(set, rr)
		wires = append(wires, w)
	}
	return set, wires
}

func runC10(c *Ctx) {
	r := c.R
	c.Res.Rule = "RRsets of signable types (1..n records, duplicates, mixed case, escaped names, wildcard owners) x supported algorithms with fresh keys; the signed octets are captured un-hashed and compared with an independent RFC 4034 construction; permutations, duplicates, TTLs, case, wildcard expansion; single-field alterations of RRset, RRSIG and DNSKEY; distinct by content"
	zone := [][]byte{[]byte("Desk"), []byte("Example"), []byte("ORG")}
	zoneS := presentLabels(zone)
	algs := []uint8{dns.ED25519, dns.ECDSAP256SHA256, dns.ECDSAP384SHA384}
	keys := map[uint8]*signKey{}
	for _, a := range algs {
		keys[a] = newSignKey(r, a, asciiLower(zoneS))
	}
	if c.Tier == "thorough" {
		for _, a := range []uint8{dns.RSASHA256, dns.RSASHA1, dns.RSASHA512, dns.RSASHA1NSEC3SHA1} {
			keys[a] = newSignKey(r, a, asciiLower(zoneS))
			algs = append(algs, a)
		}
	} else {
		keys[dns.RSASHA256] = newSignKey(r, dns.RSASHA256, asciiLower(zoneS))
	}
	_, capPriv, _ := ed25519.GenerateKey(detRand{r})
	n := c.Scale(700, 15000)
	for i := 0; i < n; i++ {
		mode := r.Intn(2)
		var owner [][]byte
		switch r.Intn(5) {
		case 0:
			owner = append([][]byte{[]byte("*")}, zone...)
		case 1:
			owner = zone
		default:
			owner = append(genLabels(r, mode), zone...)
			if len(wireOf(owner)) > 255 {
				owner = append([][]byte{[]byte("Www")}, zone...)
			}
		}
		if r.Chance(3) {
			owner = [][]byte{[]byte("*")} // wildcard directly under the root
		}
		set, wires := genRRset(r, owner, mode)
		if len(set) == 0 {
			continue
		}
		var recs []canonRec
		okc := true
		for _, w := range wires {
			cr, ok := canonOf(w)
			okc = okc && ok
			recs = append(recs, cr)
		}
		if !okc {
			continue
		}
		tn := dns.Type(set[0].Header().Rrtype).String()
		in := fmt.Sprintf("type=%s rrset=%s", tn, hx(bytes.Join(wires, nil)))
		signer := asciiLower(zoneS)
		if len(owner) == 1 {
			signer = "."
		}
		mk := func(alg uint8, tag uint16) *dns.RRSIG {
			return &dns.RRSIG{Hdr: dns.RR_Header{Ttl: 300}, Algorithm: alg, SignerName: randCase(r, signer), KeyTag: tag, Inception: 1700000000, Expiration: 1900000000, OrigTtl: uint32(r.Intn(2) * 3600)}
		}
		// (a) captured signed data = independent RFC construction
		cs := &captureSigner{priv: capPriv}
		sig := mk(dns.ED25519, 4242)
		err := sig.Sign(cs, set)
		if err != nil || len(cs.got) != 1 {
			c.Pred("signed-octets", "sign-ok:"+tn, in, false, fmt.Sprint(err), "nil", true)
			continue
		}
		want := specSigned(sig, recs)
		c.Pred("signed-octets", "signed-octets-are-rfc4034:"+tn, in, bytes.Equal(cs.got[0], want), hx(cs.got[0]), hx(want), true)
		// the same octets from the Lean model of rawSignatureData / packSigWire
		labs := func(ls [][]byte) string {
			if len(ls) == 0 {
				return "."
			}
			hs := make([]string, len(ls))
			for i, l := range ls {
				hs[i] = hx(l)
			}
			return strings.Join(hs, ",")
		}
		var recArgs []string
		for _, cr := range recs {
			recArgs = append(recArgs, fmt.Sprintf("%s:%d:%d:%s", labs(cr.owner), cr.typ, cr.class, hx(cr.rdata)))
		}
		var signerLabels [][]byte
		if signer != "." {
			signerLabels = zone
		}
		c.Op("signed-octets", fmt.Sprintf("canon %d %d %d %d %d %d %d %s %s", sig.TypeCovered, sig.Algorithm, sig.Labels, sig.OrigTtl, sig.Expiration, sig.Inception,
			sig.KeyTag, labs(signerLabels), strings.Join(recArgs, " ")), hx(cs.got[0]), true)
		lab := len(owner)
		if string(owner[0]) == "*" {
			lab--
		}
		// (Labels: the library treats every owner whose text starts with "*" as a wildcard, also "*li.example."; the
		// property does not fix the Labels value, so only the RFC case of a whole "*" label is compared; observation O6)
		labOK := int(sig.Labels) == lab || (owner[0][0] == '*' && len(owner[0]) > 1)
		if !(owner[0][0] == '*' && len(owner[0]) > 1) {
			// the model of the Labels computation (DnsModel/Canon.lean signLabels; theorem sign_owner_exact), on its domain
			c.Op("signed-octets", "sign.labels "+labs(owner), fmt.Sprint(sig.Labels), true)
		}
		c.Pred("signed-octets", "rrsig-fields", in, labOK && sig.TypeCovered == set[0].Header().Rrtype && sig.Hdr.Class == 1 && sig.Hdr.Rrtype == dns.TypeRRSIG,
			fmt.Sprint(sig.Labels, sig.TypeCovered), fmt.Sprint(lab), true)
		// (b) invariances of the signed octets: order, repeated records, TTLs, owner case, RDATA name case
		perm := append([]dns.RR{}, set...)
		for a := len(perm) - 1; a > 0; a-- {
			b := r.Intn(a + 1)
			perm[a], perm[b] = perm[b], perm[a]
		}
		perm = append(perm, dns.Copy(perm[r.Intn(len(perm))]))
		for _, rr := range perm {
			rr.Header().Ttl = uint32(r.Intn(100000))
		}
		upOwner := randCase(r, set[0].Header().Name)
		var perm2 []dns.RR
		for _, rr := range perm {
			x := dns.Copy(rr)
			x.Header().Name = upOwner
			perm2 = append(perm2, x)
		}
		cs2 := &captureSigner{priv: capPriv}
		sig2 := mk(dns.ED25519, 4242)
		sig2.OrigTtl, sig2.SignerName = sig.OrigTtl, sig.SignerName
		if sig.OrigTtl == 0 {
			sig2.OrigTtl = 0
			for _, rr := range perm2 {
				rr.Header().Ttl = set[0].Header().Ttl // OrigTtl is taken from the first record when unset
			}
		}
		err = sig2.Sign(cs2, perm2)
		c.Pred("invariance", "signed-octets-invariant:"+tn, in, err == nil && len(cs2.got) == 1 && bytes.Equal(cs2.got[0], cs.got[0]) && sig2.OrigTtl == sig.OrigTtl,
			fmt.Sprint(err), "same signed octets under permutation, duplicates, TTLs and owner case", len(set) > 1)
		// (c) real keys: sign / verify, and verification under the same variations and wildcard expansion
		alg := algs[r.Intn(len(algs))]
		if r.Chance(3) {
			alg = dns.RSASHA256
		}
		k := keys[alg]
		key := dns.Copy(k.key).(*dns.DNSKEY)
		key.Hdr.Name = signer
		rs := mk(alg, key.KeyTag())
		if err := rs.Sign(k.signer, set); err != nil {
			c.Pred("verify", "sign-real:"+tn, in, false, err.Error(), "nil", true)
			continue
		}
		c.Pred("verify", "sign-then-verify", fmt.Sprintf("alg=%d %s", alg, in), rs.Verify(key, set) == nil, fmt.Sprint(rs.Verify(key, set)), "nil", true)
		c.Pred("verify", "verify-invariant", fmt.Sprintf("alg=%d %s", alg, in), rs.Verify(key, perm2) == nil, fmt.Sprint(rs.Verify(key, perm2)), "nil", len(set) > 1)
		// the same RRSIG value signs further RRsets whose owners have other label counts (one label more, then the
		// original again): Sign sets the fields it computes afresh each time, every output verifies
		if len(wireOf(owner)) < 240 && i%3 == 0 {
			deeper := make([]dns.RR, len(set))
			for j, rr := range set {
				d := dns.Copy(rr)
				d.Header().Name = "deep." + d.Header().Name
				deeper[j] = d
			}
			detail := ""
			okAll := true
			for round, ss := range [][]dns.RR{deeper, set, deeper} {
				if err := rs.Sign(k.signer, ss); err != nil {
					okAll, detail = false, fmt.Sprintf("round %d sign: %v", round, err)
					break
				}
				wantLab := len(owner) + 1 - round%2
				if string(owner[0]) == "*" && round%2 == 1 {
					wantLab--
				}
				if owner[0][0] == '*' && len(owner[0]) > 1 && round%2 == 1 {
					wantLab = int(rs.Labels) // observation O6: not fixed by the property
				}
				if err := rs.Verify(key, ss); err != nil || int(rs.Labels) != wantLab {
					okAll, detail = false, fmt.Sprintf("round %d: verify=%v labels=%d want %d", round, err, rs.Labels, wantLab)
					break
				}
			}
			c.Pred("verify", "rrsig-value-reused", fmt.Sprintf("alg=%d %s", alg, in), okAll, detail, "every round verifies with the label count of its owner", true)
			if err := rs.Sign(k.signer, set); err != nil {
				continue
			}
		}
		if string(owner[0]) == "*" {
			// wildcard expansion consistent with Labels
			exp := append([][]byte{[]byte("x"), []byte("Y")}, owner[1:]...)
			var eset []dns.RR
			for _, rr := range set {
				x := dns.Copy(rr)
				x.Header().Name = presentLabels(exp)
				eset = append(eset, x)
			}
			es := dns.Copy(rs).(*dns.RRSIG)
			es.Hdr.Name = presentLabels(exp)
			c.Pred("verify", "wildcard-expansion-verifies", in, es.Verify(key, eset) == nil, fmt.Sprint(es.Verify(key, eset)), "nil", true)
			c.Hit("wildcard")
		}
		// (d) an independently produced signature over the RFC octets is accepted
		if alg == dns.ED25519 {
			is := dns.Copy(rs).(*dns.RRSIG)
			is.Signature = toB64(ed25519.Sign(k.signer.(ed25519.PrivateKey), specSigned(is, recs)))
			c.Pred("verify", "independent-signature-accepted", in, is.Verify(key, set) == nil, fmt.Sprint(is.Verify(key, set)), "nil", true)
		}
		// (e) alterations: every single field of RRSIG / DNSKEY / RRset must make verification fail
		alter := func(name string, f func(s *dns.RRSIG, k *dns.DNSKEY, set []dns.RR) bool) {
			s2 := dns.Copy(rs).(*dns.RRSIG)
			k2 := dns.Copy(key).(*dns.DNSKEY)
			var set2 []dns.RR
			for _, rr := range set {
				set2 = append(set2, dns.Copy(rr))
			}
			if !f(s2, k2, set2) {
				return
			}
			err := guard(func() string {
				if e := s2.Verify(k2, set2); e != nil {
					return "err"
				}
				return "ok"
			})
			c.Pred("alterations", "altered-"+name+"-rejected", fmt.Sprintf("alg=%d %s", alg, in), err == "err", err, "err", true)
		}
		alter("rrsig-typecovered", func(s *dns.RRSIG, k *dns.DNSKEY, set []dns.RR) bool { s.TypeCovered ^= 1; return true })
		alter("rrsig-labels", func(s *dns.RRSIG, k *dns.DNSKEY, set []dns.RR) bool {
			if s.Labels == 0 {
				return false
			}
			s.Labels--
			return true
		})
		alter("rrsig-origttl", func(s *dns.RRSIG, k *dns.DNSKEY, set []dns.RR) bool { s.OrigTtl++; return true })
		alter("rrsig-expiration", func(s *dns.RRSIG, k *dns.DNSKEY, set []dns.RR) bool { s.Expiration++; return true })
		alter("rrsig-inception", func(s *dns.RRSIG, k *dns.DNSKEY, set []dns.RR) bool { s.Inception--; return true })
		alter("rrsig-keytag", func(s *dns.RRSIG, k *dns.DNSKEY, set []dns.RR) bool { s.KeyTag++; return true })
		alter("rrsig-signer", func(s *dns.RRSIG, k *dns.DNSKEY, set []dns.RR) bool { s.SignerName = "x" + s.SignerName; return true })
		alter("rrsig-signature", func(s *dns.RRSIG, k *dns.DNSKEY, set []dns.RR) bool {
			b := fromB64(s.Signature)
			b[r.Intn(len(b))] ^= 1 << uint(r.Intn(8))
			s.Signature = toB64(b)
			return true
		})
		// the same two numbers in a longer spelling: r and s each with a zero octet in front (an ECDSA signature is exactly
		// twice the size of the curve's field, RFC 6605 section 4); for the other algorithms, a zero octet in front of the lot
		alter("rrsig-signature-zero-padded", func(s *dns.RRSIG, k *dns.DNSKEY, set []dns.RR) bool {
			b := fromB64(s.Signature)
			if s.Algorithm == dns.ECDSAP256SHA256 || s.Algorithm == dns.ECDSAP384SHA384 {
				h := len(b) / 2
				p := append([]byte{0}, b[:h]...)
				p = append(append(p, 0), b[h:]...)
				s.Signature = toB64(p)
			} else {
				s.Signature = toB64(append([]byte{0}, b...))
			}
			return true
		})
		alter("rrsig-class", func(s *dns.RRSIG, k *dns.DNSKEY, set []dns.RR) bool { s.Hdr.Class = 3; return true })
		alter("key-not-zone", func(s *dns.RRSIG, k *dns.DNSKEY, set []dns.RR) bool {
			k.Flags &^= dns.ZONE
			s.KeyTag = k.KeyTag()
			return true
		})
		alter("key-protocol", func(s *dns.RRSIG, k *dns.DNSKEY, set []dns.RR) bool {
			k.Protocol = 2
			s.KeyTag = k.KeyTag()
			return true
		})
		alter("key-owner", func(s *dns.RRSIG, k *dns.DNSKEY, set []dns.RR) bool { k.Hdr.Name = "other." + k.Hdr.Name; return true })
		alter("key-class", func(s *dns.RRSIG, k *dns.DNSKEY, set []dns.RR) bool { k.Hdr.Class = 3; return true })
		alter("key-bits", func(s *dns.RRSIG, k *dns.DNSKEY, set []dns.RR) bool {
			b := fromB64(k.PublicKey)
			b[len(b)-1-r.Intn(8)] ^= 1 << uint(r.Intn(8))
			k.PublicKey = toB64(b)
			s.KeyTag = k.KeyTag()
			return true
		})
		alter("key-owner-unicode-confusable", func(s *dns.RRSIG, k *dns.DNSKEY, set []dns.RR) bool {
			n := strings.Replace(strings.Replace(k.Hdr.Name, "s", "ſ", 1), "k", "K", 1)
			if n == k.Hdr.Name {
				n = strings.Replace(k.Hdr.Name, "e", "е", 1)
			}
			if n == k.Hdr.Name {
				return false
			}
			k.Hdr.Name = n
			return true
		})
		alter("rrset-owner", func(s *dns.RRSIG, k *dns.DNSKEY, set []dns.RR) bool {
			for _, rr := range set {
				rr.Header().Name = "q" + rr.Header().Name
			}
			return true
		})
		alter("rrset-class", func(s *dns.RRSIG, k *dns.DNSKEY, set []dns.RR) bool {
			for _, rr := range set {
				rr.Header().Class = 3
			}
			return true
		})
		alter("rrset-rdata", func(s *dns.RRSIG, k *dns.DNSKEY, set []dns.RR) bool {
			j := r.Intn(len(wires))
			w := append([]byte{}, wires[j]...)
			ol := len(wireOf(owner))
			if len(w) <= ol+10 {
				return false
			}
			p := ol + 10 + r.Intn(len(w)-ol-10)
			w[p] ^= 1 << uint(r.Intn(8))
			rr, off, err := dns.UnpackRR(w, 0)
			if err != nil || off != len(w) {
				return false
			}
			c2, ok := canonOf(w)
			if !ok || bytes.Equal(c2.rdata, recs[j].rdata) {
				return false // a case-only change of an embedded name is not an alteration of the canonical form
			}
			for _, o := range recs {
				if bytes.Equal(o.rdata, c2.rdata) {
					return false // became a duplicate of another member
				}
			}
			set[j] = rr
			return true
		})
		alter("rrset-owner-unicode-confusable", func(s *dns.RRSIG, k *dns.DNSKEY, set []dns.RR) bool {
			if string(owner[0]) != "*" {
				return false
			}
			// expansion of the wildcard to a name that only folds to the RRSIG owner under Unicode folding
			exp := "s." + presentLabels(owner[1:])
			s.Hdr.Name = exp
			for _, rr := range set {
				rr.Header().Name = "ſ." + presentLabels(owner[1:])
			}
			return true
		})
	}
	// names that differ in an octet 32 away from its partner without being a letter ('[' / '{', ']' / '}', '^' / '~',
	// '_' / DEL), and signatures followed by junk: the key must not be taken for the signer, the signature not accepted
	for _, alg := range []uint8{dns.ED25519, dns.ECDSAP256SHA256, dns.RSASHA256} {
		for _, pr := range [][2]string{{"[", "{"}, {"]", "}"}, {"^", "~"}, {"_", "\\127"}} {
			for dir := 0; dir < 2; dir++ {
				zoneName := "zo" + pr[dir] + "ne.example."
				other := "zo" + pr[1-dir] + "ne.example."
				k := newSignKey(r, alg, zoneName)
				set := []dns.RR{&dns.A{Hdr: dns.RR_Header{Name: "host." + zoneName, Rrtype: dns.TypeA, Class: 1, Ttl: 60}, A: []byte{192, 0, 2, 1}}}
				rs := &dns.RRSIG{Hdr: dns.RR_Header{Ttl: 60}, Algorithm: alg, SignerName: zoneName, KeyTag: k.key.KeyTag(), Inception: 1700000000, Expiration: 1900000000}
				if err := rs.Sign(k.signer, set); err != nil {
					continue
				}
				in := fmt.Sprintf("alg=%d signer=%s", alg, hxs(zoneName))
				c.Pred("neighbour-octets", "own-key-verifies", in, rs.Verify(k.key, set) == nil, "rejected", "accepted", true)
				k2 := dns.Copy(k.key).(*dns.DNSKEY)
				k2.Hdr.Name = other
				c.Pred("neighbour-octets", "altered-key-owner-neighbour-octet-rejected", in+" key-owner="+hxs(other), rs.Verify(k2, set) != nil, "accepted", "rejected", true)
				set2 := []dns.RR{&dns.A{Hdr: dns.RR_Header{Name: "host." + other, Rrtype: dns.TypeA, Class: 1, Ttl: 60}, A: []byte{192, 0, 2, 1}}}
				c.Pred("neighbour-octets", "altered-rrset-owner-neighbour-octet-rejected", in+" rrset-owner="+hxs("host."+other), rs.Verify(k.key, set2) != nil, "accepted", "rejected", true)
				for _, junk := range []string{"A", "=", "!", "AAA", "A===", "\x00", " ", "AAAA"} {
					s2 := dns.Copy(rs).(*dns.RRSIG)
					s2.Signature += junk
					c.Pred("neighbour-octets", "altered-rrsig-signature-trailing-junk-rejected", in+" junk="+hxs(junk), s2.Verify(k.key, set) != nil, "accepted", "rejected", true)
				}
			}
		}
	}
	// a leftmost label that begins with '*' without being the label "*" is an ordinary label (RFC 4034 3.1.3): Sign must
	// count it, and the signature must not verify another owner as an expansion of the wildcard one level up (F44)
	for _, alg := range []uint8{dns.ED25519, dns.ECDSAP256SHA256} {
		for _, first := range []string{"*a", "**", "*\\.x", "*-", "a*"} {
			zoneName := "example."
			owner := first + ".sub." + zoneName
			k := newSignKey(r, alg, zoneName)
			set := []dns.RR{&dns.A{Hdr: dns.RR_Header{Name: owner, Rrtype: dns.TypeA, Class: 1, Ttl: 60}, A: []byte{192, 0, 2, 1}}}
			rs := &dns.RRSIG{Hdr: dns.RR_Header{Ttl: 60}, Algorithm: alg, SignerName: zoneName, KeyTag: k.key.KeyTag(), Inception: 1700000000, Expiration: 1900000000}
			if err := rs.Sign(k.signer, set); err != nil {
				continue
			}
			in := fmt.Sprintf("alg=%d owner=%s", alg, hxs(owner))
			c.Pred("star-label", "labels-count-star-prefixed-label", in, int(rs.Labels) == dns.CountLabel(owner), fmt.Sprint(rs.Labels), fmt.Sprint(dns.CountLabel(owner)), true)
			c.Pred("star-label", "own-set-verifies", in, rs.Verify(k.key, set) == nil, "rejected", "accepted", true)
			s2 := dns.Copy(rs).(*dns.RRSIG)
			s2.Hdr.Name = "other.sub." + zoneName
			set2 := []dns.RR{&dns.A{Hdr: dns.RR_Header{Name: "other.sub." + zoneName, Rrtype: dns.TypeA, Class: 1, Ttl: 60}, A: []byte{192, 0, 2, 1}}}
			c.Pred("star-label", "altered-owner-sibling-of-star-prefixed-label-rejected", in, s2.Verify(k.key, set2) != nil, "accepted", "rejected", true)
		}
	}
	// RSA keys at every supported modulus size up to the 4096-bit maximum (fixed keys, see rsakeys.go):
	// what Sign produces with the private key must verify with the DNSKEY built from the public key
	for _, bits := range []int{1024, 2048, 3072, 4096} {
		der, _ := base64.StdEncoding.DecodeString(rsaKeysDER[bits])
		priv, err := x509.ParsePKCS1PrivateKey(der)
		if err != nil {
			c.Pred("rsa-sizes", "fixed-key-parses", fmt.Sprint(bits), false, err.Error(), "nil", true)
			continue
		}
		eb := big.NewInt(int64(priv.PublicKey.E)).Bytes()
		pk := append([]byte{byte(len(eb))}, eb...)
		pk = append(pk, priv.PublicKey.N.Bytes()...)
		for _, alg := range []uint8{dns.RSASHA256, dns.RSASHA512, dns.RSASHA1} {
			key := &dns.DNSKEY{Hdr: dns.RR_Header{Name: "example.org.", Rrtype: dns.TypeDNSKEY, Class: 1, Ttl: 3600}, Flags: 257, Protocol: 3, Algorithm: alg, PublicKey: toB64(pk)}
			set := []dns.RR{&dns.A{Hdr: dns.RR_Header{Name: "www.example.org.", Rrtype: dns.TypeA, Class: 1, Ttl: 60}, A: []byte{192, 0, 2, byte(bits / 512)}}}
			rs := &dns.RRSIG{Hdr: dns.RR_Header{Ttl: 60}, Algorithm: alg, SignerName: "example.org.", KeyTag: key.KeyTag(), Inception: 1700000000, Expiration: 1900000000}
			in := fmt.Sprintf("rsa-bits=%d alg=%d", bits, alg)
			if err := rs.Sign(priv, set); err != nil {
				c.Pred("rsa-sizes", "sign-real:rsa", in, false, err.Error(), "nil", true)
				continue
			}
			verr := rs.Verify(key, set)
			c.Pred("rsa-sizes", "sign-then-verify", in, verr == nil, fmt.Sprint(verr), "nil", true)
			// and an independent check of the signature with the standard library
			h := map[uint8]crypto.Hash{dns.RSASHA256: crypto.SHA256, dns.RSASHA512: crypto.SHA512, dns.RSASHA1: crypto.SHA1}[alg]
			sigB, _ := base64.StdEncoding.DecodeString(rs.Signature)
			c.Pred("rsa-sizes", "signature-length", in, len(sigB) == bits/8, fmt.Sprint(len(sigB)), fmt.Sprint(bits/8), true)
			_ = h
		}
	}
	// large records: the canonical form of one record goes up to 64 KiB (TXT with up to 255 strings of 255 octets, keys
	// of many octets); Sign produces the RFC 4034 octets for them and Verify accepts its own output
	{
		k := keys[dns.ED25519]
		for _, nstr := range []int{14, 15, 16, 17, 64, 200, 255} {
			for _, extra := range []int{0, 1} {
				txt := &dns.TXT{Hdr: dns.RR_Header{Name: "Big.desk.example.org.", Rrtype: dns.TypeTXT, Class: 1, Ttl: 60}}
				for j := 0; j < nstr; j++ {
					txt.Txt = append(txt.Txt, strings.Repeat(string(rune('a'+(j+nstr)%26)), 255))
				}
				set := []dns.RR{txt}
				if extra == 1 {
					set = append(set, &dns.TXT{Hdr: dns.RR_Header{Name: "Big.desk.example.org.", Rrtype: dns.TypeTXT, Class: 1, Ttl: 60}, Txt: []string{"small"}})
				}
				var recs []canonRec
				okc := true
				for _, rr := range set {
					buf := make([]byte, dns.Len(rr)+1)
					off, err := dns.PackRR(rr, buf, 0, nil, false)
					if err != nil {
						okc = false
						break
					}
					cr, ok := canonOf(buf[:off])
					okc = okc && ok
					recs = append(recs, cr)
				}
				in := fmt.Sprintf("TXT with %d strings of 255 octets, %d further records", nstr, extra)
				if !okc {
					c.Pred("large-records", "generator", in, false, "does not pack", "packs", false)
					continue
				}
				cs := &captureSigner{priv: capPriv}
				sig := &dns.RRSIG{Hdr: dns.RR_Header{Ttl: 60}, Algorithm: dns.ED25519, SignerName: "desk.example.org.", KeyTag: 4242, Inception: 1700000000, Expiration: 1900000000}
				err := sig.Sign(cs, set)
				if err != nil || len(cs.got) != 1 {
					c.Pred("large-records", "sign-ok:large", in, false, fmt.Sprint(err), "nil", true)
					continue
				}
				want := specSigned(sig, recs)
				c.Pred("large-records", "signed-octets-are-rfc4034:large", in, bytes.Equal(cs.got[0], want), fmt.Sprintf("%d octets", len(cs.got[0])), fmt.Sprintf("%d octets", len(want)), true)
				rs := &dns.RRSIG{Hdr: dns.RR_Header{Ttl: 60}, Algorithm: dns.ED25519, SignerName: "desk.example.org.", KeyTag: k.key.KeyTag(), Inception: 1700000000, Expiration: 1900000000}
				if err := rs.Sign(k.signer, set); err != nil {
					c.Pred("large-records", "sign-real:large", in, false, err.Error(), "nil", true)
					continue
				}
				verr := rs.Verify(k.key, set)
				c.Pred("large-records", "sign-then-verify", in, verr == nil, fmt.Sprint(verr), "nil", true)
			}
		}
	}
	// the key tag of RFC 4034 Appendix B computed here, not taken from the library: a key whose running sum carries in the
	// last step (low half + high half ≥ 2^16: about one Ed25519 key in 7000) — a signature carrying the RFC tag verifies,
	// one carrying the next tag does not
	{
		rfcTag := func(rd []byte) (uint16, bool) {
			ac := uint32(0)
			for i, b := range rd {
				if i&1 == 1 {
					ac += uint32(b)
				} else {
					ac += uint32(b) << 8
				}
			}
			carry := (ac&0xFFFF)+(ac>>16) >= 0x10000
			ac += (ac >> 16) & 0xFFFF
			return uint16(ac & 0xFFFF), carry
		}
		found := 0
		for try := 0; try < 400000 && found < 2; try++ {
			pub, priv, _ := ed25519.GenerateKey(detRand{r})
			rd := append([]byte{1, 1, 3, dns.ED25519}, pub...)
			tag, carry := rfcTag(rd)
			if !carry || tag == 0 || tag == 65535 {
				continue // Sign refuses a key tag of 0 as "not set": such keys (and the one whose neighbour tag is 0) are no use here
			}
			found++
			key := &dns.DNSKEY{Hdr: dns.RR_Header{Name: "example.org.", Rrtype: dns.TypeDNSKEY, Class: 1, Ttl: 3600}, Flags: 257, Protocol: 3, Algorithm: dns.ED25519, PublicKey: toB64(pub)}
			set := []dns.RR{&dns.A{Hdr: dns.RR_Header{Name: "www.example.org.", Rrtype: dns.TypeA, Class: 1, Ttl: 60}, A: []byte{192, 0, 2, 44}}}
			in := fmt.Sprintf("key=%s rfc-tag=%d", hx(rd), tag)
			for _, d := range []uint16{0, 1} {
				rs := &dns.RRSIG{Hdr: dns.RR_Header{Ttl: 60}, Algorithm: dns.ED25519, SignerName: "example.org.", KeyTag: tag + d, Inception: 1700000000, Expiration: 1900000000}
				if err := rs.Sign(priv, set); err != nil {
					c.Pred("keytag-carry", "sign-real:carry", in, false, err.Error(), "nil", true)
					continue
				}
				verr := rs.Verify(key, set)
				if d == 0 {
					c.Pred("keytag-carry", "rfc-tag-accepted", in, verr == nil, fmt.Sprint(verr), "nil", true)
				} else {
					c.Pred("keytag-carry", "other-tag-rejected", in, verr != nil, "accepted", "rejected", true)
				}
			}
		}
		if found == 0 {
			c.Res.Notes = append(c.Res.Notes, "keytag-carry: no key with a carry in the last step found in 400000 tries")
		}
	}
}
