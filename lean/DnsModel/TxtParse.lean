/-
  DnsModel.TxtParse — the RDATA parser shared by TXT, SPF, AVC, NINFO, RESINFO (scan_rr.go endingToTxtSlice /
  escapedStringOffset) over the lexer's token list, and `sprintTxt` (types.go) that prints such RDATA.
-/
import DnsModel.Lexer
import DnsModel.Text
namespace Dns.TxtParse
open Dns Dns.Lex

/-- `escapedStringOffset(s, desired)`: the index in `s` after `desired` unescaped octets; `some none` = -1 (`s` holds
    fewer), `none` = a dangling backslash -/
def escOffsetAux : (fuel : Nat) → Bytes → (cur i : Nat) → (desired : Nat) → Option (Option Nat)
  | 0, _, _, _, _ => some none
  | f + 1, s, cur, i, desired =>
    match s with
    | [] => some none
    | c :: rest =>
      if c != 92 then
        if cur + 1 ≥ desired then some (some (i + 1)) else escOffsetAux f rest (cur + 1) (i + 1) desired
      else if isDDD rest then
        if cur + 1 ≥ desired then some (some (i + 4)) else escOffsetAux f (rest.drop 3) (cur + 1) (i + 4) desired
      else match rest with
        | [] => none
        | _ :: rest' =>
          if cur + 1 ≥ desired then some (some (i + 2)) else escOffsetAux f rest' (cur + 1) (i + 2) desired

def escOffset (s : Bytes) (desired : Nat) : Option (Option Nat) :=
  if desired = 0 then some (some 0) else escOffsetAux (s.length + 1) s 0 0 desired

/-- the chunking loop of `endingToTxtSlice`: a token longer than 255 unescaped octets is cut into 255-octet pieces -/
def chunk255 : (fuel : Nat) → Bytes → Option (List Bytes)
  | 0, _ => none
  | f + 1, tok =>
    match escOffset tok 255 with
    | none => none
    | some none => some [tok]
    | some (some i) =>
      if i ≠ tok.length then (chunk255 f (tok.drop i)).map (fun r => tok.take i :: r) else some [tok]

/-- `endingToTxtSlice` over the tokens of the rest of the entry: the strings, or `none` for "bad … Txt" -/
def txtSlice : List Tok → (quote empty : Bool) → (acc : List Bytes) → Option (List Bytes)
  | [], quote, _, acc => if quote then none else some acc          -- zEOF
  | t :: ts, quote, empty, acc =>
    if t.value = zNewline then (if quote then none else some acc)
    else if t.err then none
    else if t.value = zString then
      match chunk255 (t.token.length + 1) t.token with
      | some sx => txtSlice ts quote false (acc ++ sx)
      | none => none
    else if t.value = zBlank then (if quote then none else txtSlice ts quote empty acc)
    else if t.value = zQuote then txtSlice ts (!quote) true (if empty && quote then acc ++ [[]] else acc)
    else none

/-- the first token is looked at before the loop: an error there is an error -/
def endingToTxtSlice (ts : List Tok) : Option (List Bytes) :=
  match ts with
  | t :: _ => if t.err then none else txtSlice ts false false []
  | [] => txtSlice [] false false []

/-- `sprintTxt`: each string between quotes, decoded and spelled again, separated by one blank -/
def sprintTxt : List Bytes → Bytes
  | [] => []
  | [s] => sprintTxtOne s
  | s :: rest => sprintTxtOne s ++ [32] ++ sprintTxt rest

/-- the tokens behind the type of the first entry of a text: what a record's `parse` method is handed -/
def rdataTokens : List Tok → List Tok
  | [] => []
  | t :: ts => if t.value = zRrtpe then (match ts with | b :: rest => if b.value = zBlank then rest else ts | [] => []) else rdataTokens ts

/-- the TXT-family RDATA of the first entry of `text`, as the strings the parser stores -/
def parseTxtLine (text : Bytes) : Option (List Bytes) :=
  endingToTxtSlice (rdataTokens ((lexAll text).map (·.1)))

end Dns.TxtParse
