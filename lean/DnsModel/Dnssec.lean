/-
  DnsModel.Dnssec — dnssec.go (KeyTag, ValidityPeriod), nsecx.go (HashName iteration structure,
  NSEC3 Cover / Match interval logic).
-/
import DnsModel.Basic
import DnsModel.Name
namespace Dns

/-! ### key tag (dnssec.go KeyTag) -/

/-- the `for i, v := range wire` loop: odd index adds `v`, even index adds `v << 8` -/
def keyTagSum : (i : Nat) → Bytes → Nat → Nat
  | _, [], acc => acc
  | i, v :: rest, acc => keyTagSum (i + 1) rest (if i % 2 = 1 then acc + v.toNat else acc + v.toNat * 256)

def keyTag (rdata : Bytes) : Nat :=
  let s := keyTagSum 0 rdata 0
  (s + (s / 65536) % 65536) % 65536

/-- RFC 4034 Appendix B reference: accumulate 16-bit big-endian words (odd trailing octet is a high octet),
    add the carry once, keep 16 bits -/
def rfcKeyTagAcc : Bytes → Nat
  | [] => 0
  | [a] => a.toNat * 256
  | a :: b :: rest => a.toNat * 256 + b.toNat + rfcKeyTagAcc rest

def rfcKeyTag (rdata : Bytes) : Nat :=
  let ac := rfcKeyTagAcc rdata
  (ac + (ac / 65536) % 65536) % 65536

/-! ### signature validity period (dnssec.go ValidityPeriod); Go `/` on int64 truncates toward zero -/

def year68 : Int := 2147483648

def validityPeriod (inception expiration utc : Int) : Bool :=
  let modi := Int.tdiv (inception - utc) year68
  let mode := Int.tdiv (expiration - utc) year68
  let ti := inception + modi * year68
  let te := expiration + mode * year68
  decide (ti ≤ utc) && decide (utc ≤ te)

/-! ### NSEC3 (nsecx.go) -/

/-- the iteration structure of `HashName`, generic in the hash function -/
def hashNameIter (H : Bytes → Bytes) (nameWire salt : Bytes) (iter : Nat) : Bytes :=
  let rec loop : Nat → Bytes → Bytes
    | 0, h => h
    | k + 1, h => loop k (H (h ++ salt))
  loop iter (H (nameWire ++ salt))

/-- RFC 5155 §5: IH(salt, x, 0) = H(x ‖ salt); IH(salt, x, k) = H(IH(salt, x, k-1) ‖ salt) -/
def rfcIH (H : Bytes → Bytes) (salt x : Bytes) : Nat → Bytes
  | 0 => H (x ++ salt)
  | k + 1 => H (rfcIH H salt x k ++ salt)

/-- `NSEC3.Cover` after the zone test; hashes as numbers (base32hex preserves order) -/
def nsec3Cover (inZone : Bool) (ownerHash nextHash nameHash : Nat) : Bool :=
  if !inZone then false
  else if ownerHash == nextHash && nameHash != ownerHash then true
  else if ownerHash > nextHash then
    if nameHash > ownerHash then true else decide (nameHash < nextHash)
  else if nameHash ≤ ownerHash then false
  else decide (nameHash < nextHash)

def nsec3Match (inZone : Bool) (ownerHash nameHash : Nat) : Bool :=
  inZone && ownerHash == nameHash

/-- specification: strictly between owner and next in circular order -/
def strictlyBetweenCircular (o n x : Nat) : Prop :=
  if o < n then o < x ∧ x < n
  else if n < o then o < x ∨ x < n
  else x ≠ o

instance (o n x : Nat) : Decidable (strictlyBetweenCircular o n x) := by
  unfold strictlyBetweenCircular; infer_instance

/-! ### what is hashed (dnssec.go `ToDS`, nsecx.go `HashName`) -/

/-- `DNSKEY.ToDS`: the octets handed to the digest — owner name in canonical form ‖ DNSKEY RDATA (RFC 4034 §5.1.4) -/
def dsInput (owner rdata : Bytes) : Option Bytes :=
  match packName (canonicalName owner) with
  | .ok w => some (w ++ rdata)
  | _ => none

/-- `HashName`: the octets of the first hash — the name in lower case, in wire form ‖ salt (RFC 5155 §5) -/
def nsec3Input (name salt : Bytes) : Option Bytes :=
  match packName (lowerAll name) with
  | .ok w => some (w ++ salt)
  | _ => none

/-- `HashName` as a whole, generic in the hash function -/
def hashName (H : Bytes → Bytes) (name salt : Bytes) (iter : Nat) : Option Bytes :=
  match packName (lowerAll name) with
  | .ok w => some (hashNameIter H w salt iter)
  | _ => none

end Dns
