package main

// Translation of the generated per-type pack / unpack bodies (zmsg.go) into Lean terms over the codec algebra of
// DnsModel/Codec.lean: every call of a msg_helpers primitive becomes a constructor; size arguments such as
// `off+int(rr.HitLength)` are resolved to the index of the field that holds the size.

import (
	"fmt"
	"strings"
)

func codecStep(fn, extra string, fieldIdx map[string]int) string {
	uint := map[string]int{"Uint8": 1, "Uint16": 2, "Uint32": 4, "Uint48": 6, "Uint64": 8}
	base := strings.TrimPrefix(strings.TrimPrefix(strings.TrimPrefix(fn, "unpack"), "pack"), "Unpack")
	if w, ok := uint[base]; ok {
		return fmt.Sprintf(".uint %d", w)
	}
	switch base {
	case "DataA":
		return ".a"
	case "DataAAAA":
		return ".aaaa"
	case "String":
		return ".str"
	case "DomainName":
		return ".name"
	case "StringTxt":
		return ".txt"
	case "DataNsec":
		return ".nsec"
	case "DataDomainNames":
		return ".names"
	case "DataOpt":
		return ".tlvs false"
	case "DataSVCB":
		return ".tlvs true"
	case "DataApl":
		return ".apl"
	case "IPSECGateway":
		// packIPSECGateway(rr.GatewayAddr, rr.GatewayHost, msg, off, rr.GatewayType[&0x7f], compression, false) /
		// unpackIPSECGateway(msg, off, rr.GatewayType[&0x7f])
		arg := strings.Split(extra, ",")[0]
		mask := "false"
		if strings.HasSuffix(arg, "&0x7f") {
			mask = "true"
			arg = strings.TrimSuffix(arg, "&0x7f")
		}
		if strings.HasPrefix(arg, "rr.") {
			if i, ok := fieldIdx[strings.TrimPrefix(arg, "rr.")]; ok {
				return fmt.Sprintf(".gateway %d %s", i, mask)
			}
		}
	case "StringOctet":
		return ".blobRest"
	case "StringHex", "StringBase64", "StringBase32", "StringAny":
		if strings.HasPrefix(fn, "pack") {
			return ".blobRest" // the packer copies the octets; where the field ends is the unpacker's business
		}
		if extra == "rdStart+int(rr.Hdr.Rdlength)" {
			return ".blobRest"
		}
		if strings.HasPrefix(extra, "off+int(rr.") && strings.HasSuffix(extra, ")") {
			f := strings.TrimSuffix(strings.TrimPrefix(extra, "off+int(rr."), ")")
			if i, ok := fieldIdx[f]; ok {
				return fmt.Sprintf(".blobSized %d", i)
			}
		}
	}
	return ".other"
}

func leanCodecs(name string, ps []plan, unpack bool) string {
	var b strings.Builder
	fmt.Fprintf(&b, "def %s : List (String × List CStep) := [\n", name)
	for i, pl := range ps {
		// field index = position among the value-carrying steps
		idx := map[string]int{}
		k := 0
		for _, s := range pl.Steps {
			if s.Codec == "earlyexit" {
				continue
			}
			idx[s.Field] = k
			k++
		}
		var steps []string
		for _, s := range pl.Steps {
			if s.Codec == "earlyexit" {
				steps = append(steps, ".early")
				continue
			}
			st := codecStep(s.Codec, s.Extra, idx)
			if s.Cond != "" && s.Cond != "rr.Salt!=\"-\"" {
				// (the NSEC3 salt "-" stands for no octets: packing nothing = copying an empty blob)
				st = ".other"
			}
			steps = append(steps, st)
		}
		fmt.Fprintf(&b, "  (%s, [%s])", leanStr(pl.Type), strings.Join(steps, ", "))
		if i < len(ps)-1 {
			b.WriteString(",")
		}
		b.WriteString("\n")
	}
	b.WriteString("]\n")
	return b.String()
}
