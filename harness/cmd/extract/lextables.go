package main

import (
	"fmt"
	"go/ast"
	"go/token"
	"sort"
	"strconv"
	"strings"
)

// stringMap evaluates a package-level `var <name> = map[uint16]string{ Const: "TEXT", ... }` and returns it
// reversed (text -> code), as reverse.go builds StringToType / StringToClass.
func (p *pkgInfo) stringMap(file, name string) map[string]int64 {
	out := map[string]int64{}
	f := p.files[file]
	if f == nil {
		fail("%s not found", file)
		return out
	}
	found := false
	ast.Inspect(f, func(n ast.Node) bool {
		vs, ok := n.(*ast.ValueSpec)
		if !ok || len(vs.Names) != 1 || vs.Names[0].Name != name || len(vs.Values) != 1 {
			return true
		}
		cl, ok := vs.Values[0].(*ast.CompositeLit)
		if !ok {
			return true
		}
		found = true
		for _, e := range cl.Elts {
			kv, ok := e.(*ast.KeyValueExpr)
			if !ok {
				fail("%s: element %s is not key: value", name, p.src(e))
				continue
			}
			code, ok := p.eval(kv.Key, nil, 0, 0)
			if !ok {
				fail("%s key %s not evaluable", name, p.src(kv.Key))
				continue
			}
			lit, ok := kv.Value.(*ast.BasicLit)
			if !ok || lit.Kind != token.STRING {
				fail("%s value %s is not a string literal", name, p.src(kv.Value))
				continue
			}
			s, err := strconv.Unquote(lit.Value)
			if err != nil {
				fail("%s value %s: %v", name, lit.Value, err)
				continue
			}
			if _, dup := out[s]; dup {
				fail("%s: text %q twice", name, s)
			}
			out[s] = code
		}
		return false
	})
	if !found {
		fail("%s not found in %s", name, file)
	}
	return out
}

// reverseIsPlain checks that reverse.go still builds the parse tables as the plain reversal of the print tables.
func (p *pkgInfo) reverseIsPlain() bool {
	f := p.files["reverse.go"]
	if f == nil {
		return false
	}
	want := map[string]string{"StringToType": "reverseInt16(TypeToString)", "StringToClass": "reverseInt16(ClassToString)",
		"StringToAlgorithm": "reverseInt8(AlgorithmToString)", "StringToCertType": "reverseInt16(CertTypeToString)"}
	seen := 0
	ast.Inspect(f, func(n ast.Node) bool {
		vs, ok := n.(*ast.ValueSpec)
		if !ok || len(vs.Names) != 1 || len(vs.Values) != 1 {
			return true
		}
		if w, ok := want[vs.Names[0].Name]; ok && strings.ReplaceAll(p.src(vs.Values[0]), " ", "") == w {
			seen++
		}
		return true
	})
	return seen == 4
}

func leanStringTable(name string, m map[string]int64) string {
	var ks []string
	for k := range m {
		ks = append(ks, k)
	}
	sort.Strings(ks)
	var b strings.Builder
	fmt.Fprintf(&b, "def %s : List (String × Nat) := [", name)
	for i, k := range ks {
		if i > 0 {
			b.WriteString(", ")
		}
		if i%8 == 7 {
			b.WriteString("\n  ")
		}
		fmt.Fprintf(&b, "(%s, %d)", leanStr(k), m[k])
	}
	b.WriteString("]\n")
	return b.String()
}

func (p *pkgInfo) lexTables() string {
	if !p.reverseIsPlain() {
		fail("reverse.go: StringToType / StringToClass are no longer reverseInt16 of the print tables")
	}
	var b strings.Builder
	b.WriteString(leanStringTable("stringToType", p.stringMap("ztypes.go", "TypeToString")))
	b.WriteString(leanStringTable("stringToClass", p.stringMap("msg.go", "ClassToString")))
	b.WriteString(leanStringTable("stringToAlgorithm", p.stringMap("dnssec.go", "AlgorithmToString")))
	b.WriteString(leanStringTable("stringToCertType", p.stringMap("types.go", "CertTypeToString")))
	fmt.Fprintf(&b, "def maxTok : Nat := %d\n", p.constVal("maxTok"))
	return b.String()
}
