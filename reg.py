#!/usr/bin/env python3
# usage: reg.py <prop> <module> [--instance] name...   registers theorems (module::Namespace.name) for a property
import json, sys
prop, mod = sys.argv[1], sys.argv[2]
args = sys.argv[3:]
inst = False
if args and args[0] == "--instance":
    inst = True; args = args[1:]
t = json.load(open('/verif/theorems.json'))
e = t.setdefault(prop, {"modules": [], "instance_modules": [], "theorems": [], "assumptions": []})
key = "instance_modules" if inst else "modules"
if mod not in e[key]:
    e[key].append(mod)
for n in args:
    s = mod + "::" + n
    if s not in e["theorems"]:
        e["theorems"].append(s)
json.dump(t, open('/verif/theorems.json', 'w'), indent=1)
print(prop, len(e["theorems"]), "theorems")
