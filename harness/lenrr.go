package main

import (
	"fmt"
	"net"
	"reflect"
	"strings"

	"github.com/miekg/dns"
)

// lenFields renders the fields of a record as the Go struct holds them (strings in presentation form), in the
// vocabulary of the Lean length model (DnsModel/LenModel.lean); ok=false when a field has a shape outside it.
func lenFields(v reflect.Value, out *[]string) bool {
	t := v.Type()
	for i := 0; i < t.NumField(); i++ {
		f := t.Field(i)
		if f.Name == "Hdr" {
			continue
		}
		fv := v.Field(i)
		if f.Anonymous && fv.Kind() == reflect.Struct {
			if !lenFields(fv, out) {
				return false
			}
			continue
		}
		switch x := fv.Interface().(type) {
		case string:
			*out = append(*out, f.Name+"=s:"+strOrDash(hxs(x)))
		case []string:
			if len(x) == 0 {
				*out = append(*out, f.Name+"=l:-")
				break
			}
			var parts []string
			for _, s := range x {
				if s == "" {
					parts = append(parts, "~")
				} else {
					parts = append(parts, hxs(s))
				}
			}
			*out = append(*out, f.Name+"=l:"+strings.Join(parts, ","))
		case net.IP:
			*out = append(*out, f.Name+"=ip:"+strOrDash(hx(x)))
		case []uint16:
			if len(x) == 0 {
				*out = append(*out, f.Name+"=y:-")
				break
			}
			var parts []string
			for _, n := range x {
				parts = append(parts, fmt.Sprint(n))
			}
			*out = append(*out, f.Name+"=y:"+strings.Join(parts, ","))
		default:
			switch fv.Kind() {
			case reflect.Uint8, reflect.Uint16, reflect.Uint32, reflect.Uint64:
				*out = append(*out, fmt.Sprintf("%s=n:%d", f.Name, fv.Uint()))
			default:
				return false
			}
		}
	}
	return true
}

// lenRRCorr: Len(rr) against the Lean evaluation of the type's translated len() body.
func lenRRCorr(c *Ctx, stream string, rr dns.RR) {
	v := reflect.ValueOf(rr)
	if v.Kind() != reflect.Ptr || v.Elem().Kind() != reflect.Struct {
		return
	}
	var toks []string
	if !lenFields(v.Elem(), &toks) {
		c.Hit("len-rr:outside-model:" + v.Elem().Type().Name())
		return
	}
	name := v.Elem().Type().Name()
	got := guard(func() string { return fmt.Sprint(dns.Len(rr)) })
	c.OpK(stream, strings.TrimSpace(fmt.Sprintf("len.rr %s %s %s", name, strOrDash(hxs(rr.Header().Name)), strings.Join(toks, " "))), got, true, "len-rr")
}
