package main

import (
	"fmt"
	"io/fs"
	"runtime"
	"strings"
	"sync/atomic"
	"testing/fstest"
	"time"

	"github.com/miekg/dns"
)

func init() { props["C07"] = runC07 }

// countingFS records every Open.
type countingFS struct {
	inner fstest.MapFS
	opens int64
}

func (c *countingFS) Open(name string) (fs.File, error) {
	atomic.AddInt64(&c.opens, 1)
	if name == "broken.db" {
		return &brokenFile{}, nil
	}
	return c.inner.Open(name)
}

// brokenFile delivers one good line and then fails: an I/O error in the middle of an included file.
type brokenFile struct{ n int }

func (b *brokenFile) Stat() (fs.FileInfo, error) { return nil, fs.ErrInvalid }
func (b *brokenFile) Close() error               { return nil }
func (b *brokenFile) Read(p []byte) (int, error) {
	b.n++
	if b.n == 1 {
		return copy(p, "good A 10.0.0.7\n"), nil
	}
	return 0, fs.ErrPermission
}

var zoneFrags = []string{"$ORIGIN ", "$TTL ", "$INCLUDE ", "$GENERATE ", "$GENERATE 1-3 ", "$GENERATE 0-70000 ", "$INCLUDE self.db\n", "$INCLUDE /etc/passwd\n", "$INCLUDE ../x\n",
	"example.org. ", "@ ", "www ", "3600 ", "1h ", "IN ", "CH ", "A ", "MX ", "TXT ", "SOA ", "NSEC ", "NSEC3 ", "LOC ", "SVCB ", "HIP ", "TYPE65280 ", "CLASS32 ", "\\# ", "4 ", "0A000001",
	"10.0.0.1", "::1", "( ", ") ", "(", ")", "\"", "\"unterminated", "\\", "\\\"", "\\000", "\\999", ";", "; comment\n", "\n", "\r\n", "\t", " ", "\x00", "\xff", "$", "${0,3,d}", "${", "}",
	"a.b.c.", "..", ".", "*", "_", "=", "alpn=h2", "key65535=x", "APL ", "1:10.0.0.0/33 ", "!1:10.0.0.0/8 ", "IPSECKEY ", "10 1 2 ", "AMTRELAY ", "HTTPS ", "port=99999 ", "ipv4hint=1.2.3 ", "1 . ", "ns1 host 1 2 3 4 5", "52 22 23.000 N 4 53 32.000 E -2.00m", strings.Repeat("x", 300), strings.Repeat("(", 40)}

func genHostileZone(r *Rng) string {
	var sb strings.Builder
	n := 1 + r.Intn(25)
	for i := 0; i < n; i++ {
		if r.Chance(8) {
			sb.Write(r.Bytes(1 + r.Intn(8)))
		} else {
			sb.WriteString(zoneFrags[r.Intn(len(zoneFrags))])
		}
	}
	return sb.String()
}

type zoneRun struct {
	records    int
	errText    string
	afterErr   int // records returned after the error was first visible
	errStable  bool
	panicked   bool
	hung       bool
	opens      int64
	posOK      bool
	syntaxErr  bool // the error is a *dns.ParseError (syntax errors carry a position; I/O errors of an include target need not)
	allocBytes uint64
	elapsed    time.Duration
}

var hostileDefaultTTL = true

func runHostile(text string, allowInclude bool, withFS bool, origin string, measure bool) zoneRun {
	var zr zoneRun
	cfs := &countingFS{inner: fstest.MapFS{"self.db": {Data: []byte("$INCLUDE self.db\nx A 10.0.0.1\n")}, "etc/passwd": {Data: []byte("secret A 10.9.9.9\n")}, "x": {Data: []byte("y A 10.0.0.2\n")},
		"adir": {Mode: fs.ModeDir}, "adir/f": {Data: []byte("f A 10.0.0.3\n")}}}
	done := make(chan struct{})
	var before, after runtime.MemStats
	if measure {
		runtime.ReadMemStats(&before)
	}
	t0 := time.Now()
	go func() {
		defer close(done)
		defer func() {
			if rec := recover(); rec != nil {
				zr.panicked = true
			}
		}()
		zp := dns.NewZoneParser(strings.NewReader(text), origin, "hostile.db")
		zp.SetIncludeAllowed(allowInclude)
		if hostileDefaultTTL {
			zp.SetDefaultTTL(3600) // without a default most records stop at "missing TTL" before their RDATA is read
		}
		if withFS {
			zp.SetIncludeFS(cfs)
		}
		for k := 0; k < 70000; k++ {
			rr, ok := zp.Next()
			if !ok {
				break
			}
			_ = rr.String()
			zr.records++
		}
		err := zp.Err()
		zr.errStable = true
		if err != nil {
			zr.errText = err.Error()
			// sticky: every further Next returns nothing and Err stays the same
			for k := 0; k < 3; k++ {
				if rr, ok := zp.Next(); ok || rr != nil {
					zr.afterErr++
				}
				if e2 := zp.Err(); e2 == nil || e2.Error() != zr.errText {
					zr.errStable = false
				}
			}
			if pe, ok := err.(*dns.ParseError); ok {
				_ = pe
				zr.syntaxErr = true
			}
			zr.posOK = strings.Contains(zr.errText, "hostile.db") || strings.Contains(zr.errText, "self.db") || strings.Contains(zr.errText, "x") || strings.Contains(zr.errText, "passwd")
		}
	}()
	select {
	case <-done:
	case <-time.After(10 * time.Second):
		zr.hung = true
		return zr
	}
	zr.elapsed = time.Since(t0)
	if measure {
		runtime.ReadMemStats(&after)
		zr.allocBytes = after.TotalAlloc - before.TotalAlloc
	}
	zr.opens = atomic.LoadInt64(&cfs.opens)
	return zr
}

// hostileCorpus: zone texts whose handling once told a broken parser from a sound one.
var hostileCorpus = []string{
	"$GENERATE 1-3 ${",
	"$GENERATE 1-3 ${\nafter A 10.0.0.9\n",
	"$GENERATE 1-3 a$ A ${1,2\nafter A 10.0.0.9\n",
	"$GENERATE 1-3 a$ A 10.0.0.${0,3\n",
	"$GENERATE 1-3 \"\nafter A 10.0.0.9\n",
	"CH \tNSEC *1 . CLASS32 NSEC 3600 $GENERATE 0-70000 ) TYPE65280 $example.org. ",
	"a NSEC b. A ) \nb A 10.0.0.1\n",
	"$INCLUDE x sub\nafter A 10.0.0.9\n",
	"a A 10.0.0.1 ) \nb A 10.0.0.2\n",
	"a APL 1:10.0.0.0/33\n", "a APL 3:0/0\n", "a APL !1:10.0.0.0/8 x\n", "a SVCB 1 . port=99999\n", "a HTTPS 1 . ipv4hint=1.2.3\n",
	"a SVCB 1 . mandatory=alpn\n", "a IPSECKEY 10 1 2 bad key\n", "a IPSECKEY 10 3 2 .. AQ==\n", "a AMTRELAY 10 1 9 x\n", "a AMTRELAY 10 0 1 999.0.0.1\n",
	"TYPE\n", "CLASS\n", "a TYPE A\n", "a CLASS A\n", "a CLASS1x A 1.2.3.4\n", "a TYPE1x 1\n",
}

func runC07(c *Ctx) {
	r := c.R
	c.Res.Rule = "zone texts assembled from directive, type, escape, bracket and binary fragments (NUL, unterminated quotes / parentheses / escapes, long tokens and comments), with includes allowed or not, with and without an include FS, self-including files, oversized and nested $GENERATE; distinct by content"
	n := c.Scale(6000, 150000)
	for i := 0; i < n+3*len(hostileCorpus); i++ {
		text := genHostileZone(r)
		if i >= n {
			// texts that once exposed a change (kept from earlier runs; the random stream drifts, these do not)
			text = hostileCorpus[(i-n)/3]
		} else if r.Chance(55) {
			// mostly valid zone text with a small hostile edit
			text = renderZone(r, genZone(r), 1, false)
			if r.Chance(60) {
				pos := r.Intn(len(text) + 1)
				text = text[:pos] + zoneFrags[r.Intn(len(zoneFrags))] + text[pos:]
			}
			if r.Chance(30) {
				text += "$GENERATE 1-" + fmt.Sprint(r.Intn(40)) + " g$ A 10.1.0.$\n"
			}
			if r.Chance(20) {
				text += "$INCLUDE x sub\nafter A 10.0.0.9\n"
			}
		}
		allow := r.Bool()
		withFS := r.Chance(70)
		if !withFS && allow {
			allow = false // never touch the real file system from the check
		}
		origin := []string{"", "example.org.", "."}[r.Intn(3)]
		measure := i%64 == 0
		hostileDefaultTTL = !r.Chance(15)
		if i >= n {
			allow, withFS, origin, hostileDefaultTTL = true, true, []string{".", "example.org.", ""}[(i-n)%3], true
		}
		zr := runHostile(text, allow, withFS, origin, measure)
		in := fmt.Sprintf("allow=%v fs=%v origin=%q zone=%s", allow, withFS, origin, hxs(text))
		nt := len(text) > 10
		c.Pred("hostile", "no-panic-no-hang", in, !zr.panicked && !zr.hung, fmt.Sprint("panic=", zr.panicked, " hang=", zr.hung), "returns", nt)
		if zr.panicked || zr.hung {
			continue
		}
		if zr.errText != "" {
			c.Hit("zone:error")
			c.Pred("hostile", "error-sticky", in, zr.afterErr == 0 && zr.errStable, fmt.Sprint(zr.afterErr, " records after the error; stable=", zr.errStable), "none", nt)
			c.Pred("hostile", "error-has-position", in, !zr.syntaxErr || strings.Contains(zr.errText, "line:") || strings.Contains(zr.errText, "failed to open"), zr.errText, "file / line / column", nt)
			if zr.syntaxErr && !strings.Contains(zr.errText, "failed to open") {
				// the position is one inside a text: lines are counted from 1 (an error reported "at line: 0:0" has lost it)
				line := -1
				if k := strings.LastIndex(zr.errText, " at line: "); k >= 0 {
					fmt.Sscanf(zr.errText[k+len(" at line: "):], "%d:", &line)
				}
				c.Pred("hostile", "error-line-counted-from-one", in, line >= 1, zr.errText, "at line: L:C with L >= 1", nt)
			}
			if zr.syntaxErr && !strings.Contains(text, "$INCLUDE") {
				// no other file is involved: the error names the file the parser was given
				c.Pred("hostile", "error-names-file", in, strings.HasPrefix(zr.errText, "hostile.db: dns: "), zr.errText, "hostile.db: dns: ...", nt)
			}
		} else {
			c.Hit("zone:clean")
		}
		if !allow {
			c.Pred("hostile", "no-open-unless-allowed", in, zr.opens == 0, fmt.Sprint(zr.opens, " opens"), "0", strings.Contains(text, "$INCLUDE"))
		}
		// include nesting stops: a self-including file is opened at most maxIncludeDepth times per top-level include
		inc := strings.Count(text, "$INCLUDE")
		c.Pred("hostile", "include-depth-bounded", in, zr.opens <= int64(8*(inc+1)), fmt.Sprint(zr.opens), fmt.Sprint("<= ", 8*(inc+1)), inc > 0)
		c.Pred("hostile", "generate-bounded", in, zr.records <= 65536*(strings.Count(text, "$GENERATE")+1)+strings.Count(text, "\n")+2, fmt.Sprint(zr.records), "<= 65536 per $GENERATE", strings.Contains(text, "$GENERATE"))
		if measure {
			gens := strings.Count(text, "$GENERATE")
			bound := uint64(4096*len(text)+256*1024) + uint64(gens)*65536*uint64(600+4*len(text))
			c.Pred("hostile", "memory-proportional", in, zr.allocBytes <= bound, fmt.Sprint(zr.allocBytes), fmt.Sprint("<= ", bound), true)
		}
	}
	// directed cases
	type tc struct{ name, zone string }
	cases := []tc{
		{"nested-generate", "$GENERATE 1-2 $GENERATE 1-2 a$ A 10.0.0.$\n"},
		{"generate-too-many", "$GENERATE 0-65536 h$ A 10.0.0.1\n"},
		{"generate-max", "$GENERATE 0-65535 h$ A 10.0.0.1\n"},
		{"generate-near-int64", "$GENERATE 9223372036854775806-9223372036854775807/2 h$ A 10.0.0.1\n"},
		{"generate-step-zero", "$GENERATE 1-5/0 h$ A 10.0.0.1\n"},
		{"unterminated-quote", "a TXT \"abc\n"},
		{"unbalanced-open", "a SOA ns h ( 1 2 3 4 5\n"},
		{"unbalanced-close", "a NSEC b. A ) \nb A 10.0.0.1\n"},
		{"nsec-open", "a. NSEC b. ( A "},
		{"long-token", strings.Repeat("x", 100000) + " A 10.0.0.1\n"},
		{"long-comment", "a A 10.0.0.1 ;" + strings.Repeat("c", 100000) + "\n"},
		{"nul", "a\x00b A 10.0.0.1\n"},
		{"dangling-escape", "a\\"},
	}
	// fixed-shape tokens at every length around their shape (the parsers index into the token)
	for n := 0; n <= 26; n++ {
		cut := func(t string) string {
			if n < len(t) {
				return t[:n]
			}
			return t + strings.Repeat("f", n-len(t))
		}
		cases = append(cases, tc{fmt.Sprintf("nid-token-%d", n), "a. 60 IN NID 1 " + cut("0014:4fff:ff20:ee64") + "\n"},
			tc{fmt.Sprintf("l64-token-%d", n), "a. 60 IN L64 1 " + cut("2001:0db8:1140:1000") + "\n"},
			tc{fmt.Sprintf("eui48-token-%d", n), "a. 60 IN EUI48 " + cut("00-00-5e-00-53-2a") + "\n"},
			tc{fmt.Sprintf("eui64-token-%d", n), "a. 60 IN EUI64 " + cut("00-00-5e-ef-10-00-00-2a") + "\n"},
			tc{fmt.Sprintf("loc-token-%d", n), "a. 60 IN LOC " + cut("52 22 23.000 N 4 53 32.000 E") + "\n"},
			tc{fmt.Sprintf("nsec3-token-%d", n), "a. 60 IN NSEC3 1 0 0 - " + cut("2t7b4g4vsa5smi47k61mv5bv1a22bojr") + " A\n"},
			tc{fmt.Sprintf("sshfp-token-%d", n), "a. 60 IN SSHFP 1 1 " + cut("123456789abcdef67890123456789abcdef67890") + "\n"})
	}
	hostileDefaultTTL = true
	cases = append(cases, tc{"nsec-close", "a. NSEC b. A ) \nb. A 10.0.0.1\n"}, tc{"csync-open", "a. CSYNC 1 1 ( A "}, tc{"loc-open", "a. LOC 1 N 1 E 1m ( 1m "},
		tc{"nsec3-open", "a. NSEC3 1 0 0 - abcdefgh ( A "})
	for _, k := range cases {
		zr := runHostile(k.zone, true, true, "example.org.", true)
		c.Pred("directed", "no-panic-no-hang", k.name, !zr.panicked && !zr.hung, fmt.Sprint(zr.panicked, zr.hung), "returns", true)
		switch k.name {
		case "nested-generate", "generate-too-many", "generate-step-zero", "unterminated-quote", "unbalanced-open", "unbalanced-close":
			c.Pred("directed", "rejected:"+k.name, k.name, zr.errText != "", fmt.Sprint(zr.records, " records, no error"), "error", true)
		case "generate-max":
			c.Pred("directed", "generate-65536", k.name, zr.records == 65536 && zr.errText == "", fmt.Sprint(zr.records, zr.errText), "65536 records", true)
		case "generate-near-int64":
			c.Pred("directed", "generate-terminates-near-int64", k.name, zr.records <= 2, fmt.Sprint(zr.records), "<= 2", true)
		}
		c.Pred("directed", "error-sticky", k.name, zr.afterErr == 0, fmt.Sprint(zr.afterErr), "0", true)
	}
	// an include target that cannot be read (a directory, a file whose Read fails): the error is reported, sticky,
	// and nothing after the $INCLUDE line is handed out
	for _, tgt := range []string{"adir", "broken.db", "missing.db"} {
		for _, pre := range []string{"", "first A 10.0.0.1\n", "$TTL 60\nfirst A 10.0.0.1\n"} {
			text := pre + "$INCLUDE " + tgt + "\nafter A 10.0.0.9\nlater A 10.0.0.10\n"
			zr := runHostile(text, true, true, "example.org.", false)
			maxRecs := strings.Count(pre, " A ")
			if tgt == "broken.db" {
				maxRecs++ // the line read before the failure may be delivered
			}
			c.Pred("directed", "include-io-error-reported", text, zr.errText != "" && !zr.panicked && !zr.hung, fmt.Sprint(zr.records, " records, error: ", zr.errText), "an error", true)
			c.Pred("directed", "include-io-error-stops", text, zr.records <= maxRecs && zr.afterErr == 0 && zr.errStable,
				fmt.Sprint(zr.records, " records, ", zr.afterErr, " after the error"), fmt.Sprint("<= ", maxRecs, " records, none after the error"), true)
		}
	}
	// self-including file: depth limit
	{
		zr := runHostile("$INCLUDE self.db\n", true, true, "example.org.", false)
		c.Pred("directed", "self-include-stops", "self.db", zr.errText != "" && zr.opens <= 8 && !zr.hung, fmt.Sprint(zr.opens, " opens: ", zr.errText), "error after at most 8 opens", true)
	}
	// the lexer model against zlexer.Next, token by token
	lexStream(c, c.Scale(3000, 60000))
	// $INCLUDE on the model: which files are opened, in which order, and where the reading stops
	includeTreeStream(c, "include-tree", c.Scale(400, 8000))
	// the end of the input anywhere: the text of a record of every type, cut after every octet, with no line end behind it
	// (NewRR always appends one; a ZoneParser or ReadRR on a file that was cut short does not)
	{
		t := loadSpec()
		for _, code := range t.wireTypes() {
			for k := 0; k < c.Scale(1, 4); k++ {
				g := genRR(r, code, r.Intn(2), r.Bool())
				rr, off, err := dns.UnpackRR(g.Wire, 0)
				if err != nil || off != len(g.Wire) {
					continue
				}
				txt := rr.String()
				if len(txt) > 400 {
					txt = txt[:400]
				}
				for cut := 1; cut <= len(txt); cut++ {
					zr := runHostile(txt[:cut], false, false, "", false)
					c.Pred("eof-anywhere", "no-panic-no-hang", "zone="+hxs(txt[:cut]), !zr.panicked && !zr.hung, fmt.Sprint("panic=", zr.panicked, " hang=", zr.hung), "returns", true)
				}
			}
		}
		for _, txt := range []string{"a. LOC 42 N 71 W", "a. LOC 42 21 54 N 71 06 18 W", "a. LOC 42 N 71 W ", "a. LOC 42 N", "a. LOC 42 N 71 W -24m 30m", "a. LOC 42 N 71 W -24m 30m 10m 10m"} {
			for cut := 6; cut <= len(txt); cut++ {
				zr := runHostile(txt[:cut], false, false, "", false)
				c.Pred("eof-anywhere", "no-panic-no-hang", "zone="+hxs(txt[:cut]), !zr.panicked && !zr.hung, fmt.Sprint("panic=", zr.panicked, " hang=", zr.hung), "returns", true)
			}
		}
	}
	// one $GENERATE yields at most 65536 records — also when its template smuggles a line end past the outer lexer inside
	// what that one takes for a quoted string (`\\"`: an escaped backslash and an opening quote outside, an escaped quote
	// in the generated text)
	for _, tc := range []struct{ key, zone string }{
		{"generate-at-most-65536:quoted-line-end", "$GENERATE 0-65535 a TXT x\\\\\"\nb TXT y\\\\\"\n"},
		{"generate-at-most-65536:plain", "$GENERATE 0-65535 a$ TXT x\n"},
		{"generate-at-most-65536:quoted", "$GENERATE 0-65535 a TXT \"x\ny\"\n"}} {
		n := 0
		res := guard(func() string {
			zp := dns.NewZoneParser(strings.NewReader(tc.zone), "example.", "count.db")
			zp.SetDefaultTTL(60)
			for _, ok := zp.Next(); ok && n < 300000; _, ok = zp.Next() {
				n++
			}
			return "ok"
		})
		c.Pred("directed", tc.key, "zone="+hxs(tc.zone), res == "ok" && n <= 65536, fmt.Sprintf("%s, %d records", res, n), "at most 65536 records", true)
	}
	// a $GENERATE inside a $GENERATE is refused also when an $INCLUDE stands between them: the file a generated $INCLUDE
	// line names contains a $GENERATE of its own
	for _, tc := range []struct {
		zone   string
		reject bool
	}{{"$GENERATE 0-1 \\$INCLUDE gen.db\n", true}, {"$GENERATE 0-1 \\$INCLUDE plain.db\n", false}, {"$INCLUDE gen.db\n", false},
		{"$GENERATE 0-1 \\$GENERATE 1-2 x$ A 10.0.0.$\n", true}, {"$GENERATE 0-0 \\$INCLUDE via.db\n", true}} {
		fsys := fstest.MapFS{"gen.db": {Data: []byte("$GENERATE 1-3 i$ A 10.0.0.$\n")}, "plain.db": {Data: []byte("p A 10.0.0.9\n")}, "via.db": {Data: []byte("$INCLUDE gen.db\n")}}
		res := guard(func() string {
			zp := dns.NewZoneParser(strings.NewReader(tc.zone), "example.", "nested.db")
			zp.SetIncludeAllowed(true)
			zp.SetIncludeFS(fsys)
			zp.SetDefaultTTL(60)
			n := 0
			for _, ok := zp.Next(); ok && n < 100; _, ok = zp.Next() {
				n++
			}
			if err := zp.Err(); err != nil {
				return "error"
			}
			return fmt.Sprintf("%d records", n)
		})
		key := "generate-inside-generate-rejected"
		if tc.reject && strings.Contains(tc.zone, "$INCLUDE") {
			key = "generate-inside-generate-through-include-rejected" // known finding F32: the suite pins that this is accepted
		}
		c.Pred("directed", key, "zone="+hxs(tc.zone), (res == "error") == tc.reject, res, map[bool]string{true: "error", false: "records"}[tc.reject], true)
	}
}
