/-
  Instance facts about the regenerated text plans (DnsModel/Generated/TextPlans.lean): for which record types the
  translated parser and printer belong together, and that for those every fitting record survives its own text.
-/
import DnsModel.TextCodec
import DnsModel.Generated.TextPlans
import DnsProofs.C05Text
namespace Dns.Instance
open Dns Dns.Lex Dns.TextCodec Dns.C05X Dns.C06T

/-- the types whose translated `String()` and `parse` match -/
def textCovered : List String :=
  (Gen.printTextPlans.filter (fun p => match Gen.parseTextPlans.lookup p.1 with
    | some q => matchPlans p.2 q
    | none => false)).map (·.1)

theorem text_covered_types :
    textCovered = ["A", "AFSDB", "AVC", "CAA", "CDNSKEY", "CDS", "CERT", "CNAME", "CSYNC", "DHCID", "DLV", "DNAME", "DNSKEY", "DS", "EID", "EUI48", "EUI64", "GID", "HINFO", "ISDN", "KEY", "KX", "L64", "LP", "MB", "MD", "MF", "MG",
      "MINFO", "MR", "MX", "NID", "NIMLOC", "NINFO", "NS", "NSAPPTR", "NSEC", "NSEC3", "NSEC3PARAM", "NXT", "OPENPGPKEY", "PTR", "PX", "RESINFO", "RKEY", "RP", "RT", "SMIMEA", "SOA", "SPF", "SRV",
      "SSHFP", "TA", "TALINK", "TLSA", "TXT", "UID", "UINFO", "URI", "X25", "ZONEMD"] := by
  decide

theorem text_covered_all :
    textCovered.all (fun t => match Gen.printTextPlans.lookup t, Gen.parseTextPlans.lookup t with
      | some P, some Q => matchPlans P Q
      | _, _ => false) = true := by
  decide

/-- every covered type has a translated printer and a translated parser that belong together -/
theorem text_covered_match (t : String) (h : t ∈ textCovered) :
    ∃ P Q, Gen.printTextPlans.lookup t = some P ∧ Gen.parseTextPlans.lookup t = some Q ∧ matchPlans P Q = true := by
  have := text_covered_all
  rw [List.all_eq_true] at this
  have ht := this t h
  cases hp : Gen.printTextPlans.lookup t <;> cases hq : Gen.parseTextPlans.lookup t <;> simp [hp, hq] at ht
  exact ⟨_, _, rfl, rfl, ht⟩

/-- matching plans always have fitting values (the theorem below is not vacuous for any covered type) -/
theorem fits_exist (P Q : List TStep) (h : matchPlans P Q = true) : ∃ vals vals', Fits P Q vals vals' := by
  have hfield : ∀ p q, kindEq p q = true → ∃ v, FieldWF q v := by
    intro p q hk
    cases p <;> cases q <;> simp only [kindEq, Bool.false_eq_true] at hk
    · exact ⟨.n 0, by simp only [FieldWF]; exact Nat.two_pow_pos _⟩
    · exact ⟨.n 0, by simp [FieldWF]⟩
    · exact ⟨.n 0, by simp [FieldWF]⟩
    · exact ⟨.n 0, by simp only [FieldWF]; exact Nat.two_pow_pos _⟩
    · exact ⟨.s (presentOf []), ⟨[], by decide, rfl⟩⟩
    · rename_i u; cases u <;> simp only [kindEq, Bool.false_eq_true] at hk
      exact ⟨.s [65], ⟨by simp, by decide⟩⟩
    · rename_i u; cases u <;> simp only [kindEq, Bool.false_eq_true] at hk
      exact ⟨.s [65], ⟨by simp, by decide⟩⟩
    · exact ⟨.n 0, by simp only [FieldWF]; exact Nat.two_pow_pos _⟩
    · exact ⟨.n 0, by simp [FieldWF]⟩
    · exact ⟨.n 0, by simp only [FieldWF]; exact Nat.two_pow_pos _⟩
    · exact ⟨.s [0, 0, 0, 0], by simp [FieldWF]⟩
  fun_induction matchPlans P Q
  · exact ⟨_, _, Fits.txt [] (by simp)⟩
  · exact ⟨_, _, Fits.pair [] [] (by simp) (by simp)⟩
  · exact ⟨_, _, Fits.first [] (by simp)⟩
  · exact ⟨_, _, Fits.octet []⟩
  · exact ⟨_, _, Fits.salt [] (Or.inl rfl)⟩
  · exact ⟨_, _, Fits.rest _ _ [65] ⟨by simp, by decide⟩⟩
  · exact ⟨_, _, Fits.tok _ [65] ⟨by simp, by decide⟩⟩
  · rename_i p q _ _
    obtain ⟨v, hv⟩ := hfield p q h
    exact ⟨_, _, Fits.last p q v h hv⟩
  · rename_i p u q u'
    obtain ⟨v, hv⟩ := hfield p q h
    exact ⟨_, _, Fits.lastRest p q v u u' [65] h hv ⟨by simp, by decide⟩⟩
  · rename_i p n q u'
    simp only [Bool.and_eq_true, decide_eq_true_eq] at h
    obtain ⟨v, hv⟩ := hfield p q h.1
    exact ⟨_, _, Fits.lastSplit p q v n u' [65] h.1 hv h.2 ⟨by simp, by decide⟩⟩
  · rename_i p q
    obtain ⟨v, hv⟩ := hfield p q h
    exact ⟨_, _, Fits.types p q v [1, 255, 65535] h hv (by decide)⟩
  · rename_i P Q ih
    obtain ⟨vs, vs', hfs⟩ := ih h
    exact ⟨_, _, Fits.consSalt [] (Or.inl rfl) P Q vs vs' hfs⟩
  · rename_i p P q Q _ ih
    simp only [Bool.and_eq_true] at h
    obtain ⟨v, hv⟩ := hfield p q h.1
    obtain ⟨vs, vs', hfs⟩ := ih h.2
    exact ⟨_, _, Fits.cons p q v P Q vs vs' h.1 hv hfs⟩
  · simp at h

/-- **generated_text_roundtrip**: for every covered record type, every origin and all fitting field values, the
    translated `parse` applied to the tokens of what the translated `String()` printed — behind the type, up to the end
    of the line — returns the field values -/
theorem generated_text_roundtrip (t : String) (P Q : List TStep) (vals vals' : List TVal)
    (hP : Gen.printTextPlans.lookup t = some P) (hQ : Gen.parseTextPlans.lookup t = some Q)
    (hf : Fits P Q vals vals') (zl : St) (hL : LS zl false true true) (origin rest : Bytes) :
    ∃ txt, printPlan P vals = some txt ∧ parsePlan origin Q (stream zl (txt ++ 10 :: rest)) [] = some vals' := by
  obtain ⟨txt, h1, h2⟩ := text_roundtrip P Q vals vals' hf zl hL origin rest []
  exact ⟨txt, h1, by simpa using h2⟩

end Dns.Instance
