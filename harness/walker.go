package main

// Independent message walker driven by the specification table: locates every domain name of a
// packed message (owner, question and RDATA names), decodes it with a backward-only reference
// decoder and reports compression pointers.

import (
	"fmt"
	"strings"

	"github.com/miekg/dns"
)

// namePool, when non-nil, makes generated names share suffixes (for compression tests).
var namePool [][][]byte

func nameFor(r *Rng, mode int) [][]byte {
	if namePool == nil || r.Chance(15) {
		return genLabels(r, mode)
	}
	base := namePool[r.Intn(len(namePool))]
	// keep a random suffix of the base, prepend 0..2 fresh labels, flip case sometimes
	k := r.Intn(len(base) + 1)
	var ls [][]byte
	for i := 0; i < r.Intn(3); i++ {
		ls = append(ls, genLabel(r, 1+r.Intn(5), mode))
	}
	for _, l := range base[len(base)-k:] {
		l2 := append([]byte{}, l...)
		if r.Chance(15) {
			for i := range l2 {
				if l2[i] >= 'a' && l2[i] <= 'z' && r.Bool() {
					l2[i] -= 32
				}
			}
		}
		ls = append(ls, l2)
	}
	if len(wireOf(ls)) > 255 {
		return base
	}
	return ls
}

func setNamePool(r *Rng, mode int) {
	namePool = nil
	n := 1 + r.Intn(3)
	var pool [][][]byte
	for i := 0; i < n; i++ {
		ls := genLabels(r, mode)
		for len(ls) < 2 {
			ls = append(ls, genLabel(r, 1+r.Intn(6), mode))
		}
		pool = append(pool, ls)
	}
	namePool = pool
}

type walkedName struct {
	Off      int      // offset of the name field
	End      int      // offset just after the field
	Labels   [][]byte // decoded labels
	Ptrs     [][2]int // (position of the pointer, target)
	Compress bool     // specification: may this field be compressed (RFC 1035 set, owners, questions)
	InRdata  bool
	RRType   uint16
	LabelAt  []int // offsets (in this message) at which the labels of this name start, as far as literal here
}

type walked struct {
	Names   []walkedName
	RRStart []int
	RREnd   []int
	Err     string
}

// refName: RFC 1035 4.1.4 decoder, pointers must go strictly backwards.
func refName(b []byte, off int) (wn walkedName, err error) {
	wn.Off = off
	end := -1
	limit := off
	total := 1
	for hops := 0; ; {
		if off >= len(b) {
			return wn, fmt.Errorf("name runs past the message at %d", off)
		}
		c := int(b[off])
		switch c & 0xC0 {
		case 0:
			if c == 0 {
				if end < 0 {
					end = off + 1
				}
				wn.End = end
				return wn, nil
			}
			if off+1+c > len(b) {
				return wn, fmt.Errorf("label runs past the message at %d", off)
			}
			total += c + 1
			if total > 255 {
				return wn, fmt.Errorf("name longer than 255 octets")
			}
			wn.Labels = append(wn.Labels, b[off+1:off+1+c])
			if end < 0 {
				wn.LabelAt = append(wn.LabelAt, off)
			}
			off += 1 + c
		case 0xC0:
			if off+1 >= len(b) {
				return wn, fmt.Errorf("truncated pointer at %d", off)
			}
			p := (c&0x3F)<<8 | int(b[off+1])
			wn.Ptrs = append(wn.Ptrs, [2]int{off, p})
			if end < 0 {
				end = off + 2
			}
			if p >= limit {
				return wn, fmt.Errorf("pointer at %d to %d does not point backwards", off, p)
			}
			limit = p
			off = p
			hops++
			if hops > 255 {
				return wn, fmt.Errorf("too many pointers")
			}
		default:
			return wn, fmt.Errorf("reserved label type at %d", off)
		}
	}
}

func be16(b []byte, off int) int { return int(b[off])<<8 | int(b[off+1]) }

// walkMsg locates all names. It relies on the specification table only.
func walkMsg(b []byte) (w walked) {
	t := loadSpec()
	if len(b) < 12 {
		w.Err = "short header"
		return
	}
	qd, an, ns, ar := be16(b, 4), be16(b, 6), be16(b, 8), be16(b, 10)
	off := 12
	for i := 0; i < qd; i++ {
		wn, err := refName(b, off)
		if err != nil {
			w.Err = "question: " + err.Error()
			return
		}
		wn.Compress = true
		w.Names = append(w.Names, wn)
		off = wn.End + 4
	}
	for i := 0; i < an+ns+ar; i++ {
		start := off
		wn, err := refName(b, off)
		if err != nil {
			w.Err = "owner: " + err.Error()
			return
		}
		wn.Compress = true
		off = wn.End
		if off+10 > len(b) {
			w.Err = "truncated RR header"
			return
		}
		typ := uint16(be16(b, off))
		rdlen := be16(b, off+8)
		off += 10
		rdEnd := off + rdlen
		if rdEnd > len(b) {
			w.Err = "RDATA past the message"
			return
		}
		wn.RRType = typ
		w.Names = append(w.Names, wn)
		w.RRStart = append(w.RRStart, start)
		w.RREnd = append(w.RREnd, rdEnd)
		// RDATA names per specification
		if pl := t.byCode[typ]; pl != nil && rdlen > 0 {
			cflag := map[string]bool{}
			for _, pp := range t.Pack {
				if pp.Type == pl.Type {
					for _, s := range pp.Steps {
						if s.Codec == "packDomainName" && s.Extra == "compress" {
							cflag[s.Field] = true
						}
					}
				}
			}
			vals := map[string]int{}
			p := off
		steps:
			for _, s := range pl.Steps {
				if p >= rdEnd {
					break
				}
				switch s.Codec {
				case "earlyexit":
				case "unpackUint8":
					vals[s.Field] = int(b[p])
					p++
				case "unpackUint16":
					if p+2 > rdEnd {
						break steps
					}
					vals[s.Field] = be16(b, p)
					p += 2
				case "unpackUint32":
					p += 4
				case "unpackUint48":
					p += 6
				case "unpackUint64":
					p += 8
				case "unpackDataA":
					p += 4
				case "unpackDataAAAA":
					p += 16
				case "unpackString":
					p += 1 + int(b[p])
				case "UnpackDomainName":
					rn, err := refName(b, p)
					if err != nil {
						w.Err = fmt.Sprintf("rdata name of %s: %v", pl.Type, err)
						return
					}
					rn.Compress = cflag[s.Field]
					rn.InRdata = true
					rn.RRType = typ
					w.Names = append(w.Names, rn)
					p = rn.End
				case "unpackDataDomainNames":
					for p < rdEnd {
						rn, err := refName(b, p)
						if err != nil {
							w.Err = fmt.Sprintf("rdata names of %s: %v", pl.Type, err)
							return
						}
						rn.InRdata = true
						rn.RRType = typ
						w.Names = append(w.Names, rn)
						p = rn.End
					}
				case "unpackIPSECGateway":
					gt := vals["GatewayType"]
					if pl.Type == "AMTRELAY" {
						gt &= 0x7f
					}
					switch gt {
					case 1:
						p += 4
					case 2:
						p += 16
					case 3:
						rn, err := refName(b, p)
						if err != nil {
							w.Err = fmt.Sprintf("gateway name of %s: %v", pl.Type, err)
							return
						}
						rn.InRdata = true
						rn.RRType = typ
						w.Names = append(w.Names, rn)
						p = rn.End
					}
				case "unpackStringHex", "unpackStringBase64", "unpackStringBase32", "unpackStringAny":
					if sf := sizeFieldOf(s.Extra); sf != "" {
						p += vals[sf]
					} else {
						break steps
					}
				default:
					// rest-of-RDATA kinds hold no names
					break steps
				}
			}
		}
		off = rdEnd
	}
	return
}

// items renders the walk of an *uncompressed* message as driver items (gap / name).
func (w *walked) items(b []byte, present func([][]byte) string) []string {
	var it []string
	pos := 12
	for _, n := range w.Names {
		if n.Off > pos {
			it = append(it, fmt.Sprintf("gap:%d", n.Off-pos))
		}
		f := "n0:"
		if n.Compress {
			f = "n1:"
		}
		it = append(it, f+hxs(present(n.Labels)))
		pos = n.End
	}
	if len(b) > pos {
		it = append(it, fmt.Sprintf("gap:%d", len(b)-pos))
	}
	return it
}

func presentLabels(ls [][]byte) string { return spell(ls, nil, 0) }

func labelsEqual(a, b [][]byte) bool {
	if len(a) != len(b) {
		return false
	}
	for i := range a {
		if string(a[i]) != string(b[i]) {
			return false
		}
	}
	return true
}

var _ = strings.Join
var _ = dns.TypeA
