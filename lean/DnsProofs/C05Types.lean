/-
  C05 — "type and class may be written as mnemonic or TYPEnnn / CLASSnnn for every code point": what `Type.String` and
  `Class.String` print for a code — the mnemonic of the regenerated table, else `TYPEnnn` / `CLASSnnn` — is a word the
  zone lexer classifies as that very type / class, for all 65536 codes (255 aside: `ANY` names a type and a class, and the
  lexer takes it for the class).
-/
import DnsModel.TextCodec
import DnsProofs.C05Itoa
namespace Dns.C05Y
open Dns Dns.Lex Dns.TextCodec Dns.C07 Dns.C06T Dns.C05X

def typeMnemonicB (w : Bytes) (t : Nat) : Bool :=
  decide (w ≠ []) && wordOK w && (lookup Gen.stringToClass (goUpper w) == none) && !(isPrefix (ascii "CLASS") (goUpper w)) &&
    (lookup Gen.stringToType (goUpper w) == some t)

def classMnemonicB (w : Bytes) (c : Nat) : Bool :=
  decide (w ≠ []) && wordOK w && (lookup Gen.stringToType (goUpper w) == none) && !(isPrefix (ascii "TYPE") (goUpper w)) &&
    (lookup Gen.stringToClass (goUpper w) == some c)

theorem typeMnemonicB_sound (w : Bytes) (t : Nat) (h : typeMnemonicB w t = true) : TypeWord w t := by
  simp only [typeMnemonicB, Bool.and_eq_true, decide_eq_true_eq, beq_iff_eq, Bool.not_eq_true'] at h
  obtain ⟨⟨⟨⟨h1, h2⟩, h3⟩, h4⟩, h5⟩ := h
  exact ⟨⟨h1, h2⟩, h3, h4, Or.inl h5⟩

theorem classMnemonicB_sound (w : Bytes) (c : Nat) (h : classMnemonicB w c = true) : ClassWord w c := by
  simp only [classMnemonicB, Bool.and_eq_true, decide_eq_true_eq, beq_iff_eq, Bool.not_eq_true'] at h
  obtain ⟨⟨⟨⟨h1, h2⟩, h3⟩, h4⟩, h5⟩ := h
  exact ⟨⟨h1, h2⟩, h3, h4, Or.inl h5⟩

/-- every mnemonic of the regenerated type table (but `ANY`) is read back as its code; likewise the classes -/
theorem type_table_ok : Gen.stringToType.all (fun p => p.2 == 255 || !(lookup Gen.stringToType (goUpper (ascii p.1)) == some p.2) || typeMnemonicB (ascii p.1) p.2) = true := by
  decide +kernel

theorem class_table_ok : Gen.stringToClass.all (fun p => !(lookup Gen.stringToType (ascii p.1) == none) || classMnemonicB (ascii p.1) p.2) = true := by
  decide +kernel

/-- **printed_type_read_back**: for every type code but 255, what `Type.String` prints is classified by the lexer as
    that type (`TypeWord`: a mnemonic of the table in any case, or `TYPEnnn`) -/
theorem printed_type_read_back (n : Nat) (hn : n ≤ 65535) (h255 : n ≠ 255) : TypeWord (printType n) n := by
  have hnum : TypeWord (ascii "TYPE" ++ itoa n) n := by
    obtain ⟨hd, hv⟩ := itoa_spec n
    have := numeric_typeWord (itoa n) hd (by rw [hv]; exact hn)
    rw [hv] at this
    exact this
  unfold printType
  cases hf : Gen.stringToType.find? (fun p => p.2 == n) with
  | some p =>
    have hm := List.mem_of_find?_eq_some hf
    have hp := List.find?_some hf
    simp only [beq_iff_eq] at hp
    simp only
    split
    · rename_i hl
      have := type_table_ok
      rw [List.all_eq_true] at this
      have ht := this p hm
      rw [hp] at ht
      simp only [Bool.or_eq_true, beq_iff_eq, hl, Bool.not_true, Bool.false_eq_true, or_false] at ht
      rcases ht with e | e
      · omega
      · exact typeMnemonicB_sound _ _ e
    · exact hnum
  | none => exact hnum

theorem any_rdType : (printType 255 ≠ [] ∧ wordOK (printType 255) = true) ∧ rdType (printType 255) = some 255 := by
  decide +kernel

/-- **printed_type_rdata**: inside RDATA (type bitmaps of NSEC, CSYNC) what `Type.String` prints is one word that the
    bitmap loop reads as that type, for every code -/
theorem printed_type_rdata (n : Nat) (hn : n ≤ 65535) : Word (printType n) ∧ rdType (printType n) = some n := by
  by_cases h : n = 255
  · subst h; exact any_rdType
  · obtain ⟨hw, _, _, hl⟩ := printed_type_read_back n hn h
    refine ⟨hw, ?_⟩
    unfold rdType
    rcases hl with hl | ⟨hl, _, hnum⟩
    · rw [hl]
    · rw [hl]; exact hnum

/-- **printed_class_read_back**: for every class code, what `Class.String` prints is classified as that class -/
theorem printed_class_read_back (n : Nat) (hn : n ≤ 65535) : ClassWord (printClass n) n := by
  have hnum : ClassWord (ascii "CLASS" ++ itoa n) n := by
    obtain ⟨hd, hv⟩ := itoa_spec n
    have := numeric_classWord (itoa n) hd (by rw [hv]; exact hn)
    rw [hv] at this
    exact this
  unfold printClass
  cases hf : Gen.stringToClass.find? (fun p => p.2 == n) with
  | some p =>
    have hm := List.mem_of_find?_eq_some hf
    have hp := List.find?_some hf
    simp only [beq_iff_eq] at hp
    simp only
    split
    · rename_i hl
      have := class_table_ok
      rw [List.all_eq_true] at this
      have ht := this p hm
      simp only [Bool.or_eq_true, hl, Bool.not_true, Bool.false_eq_true, false_or] at ht
      rw [← hp]; exact classMnemonicB_sound _ _ ht
    · exact hnum
  | none => exact hnum

end Dns.C05Y
