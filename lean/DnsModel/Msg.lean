/-
  DnsModel.Msg — message header word, 12-bit RCODE split (msg.go: packBufferWithCompressionMap,
  setHdr, unpack; edns.go: SetExtendedRcode / ExtendedRcode).
-/
import DnsModel.Basic
namespace Dns

structure MsgHdr where
  response : Bool
  opcode : Nat
  authoritative : Bool
  truncated : Bool
  recursionDesired : Bool
  recursionAvailable : Bool
  zero : Bool
  authenticatedData : Bool
  checkingDisabled : Bool
  rcode : Nat
deriving Repr, DecidableEq

def bit (b : Bool) (mask : BitVec 16) : BitVec 16 := if b then mask else 0

/-- `dh.Bits = uint16(dns.Opcode)<<11 | uint16(dns.Rcode&0xF)` then the flag masks are or-ed in -/
def packBits (h : MsgHdr) : BitVec 16 :=
  (BitVec.ofNat 16 h.opcode <<< 11) ||| BitVec.ofNat 16 (h.rcode % 16)
    ||| bit h.response 0x8000 ||| bit h.authoritative 0x0400 ||| bit h.truncated 0x0200
    ||| bit h.recursionDesired 0x0100 ||| bit h.recursionAvailable 0x0080 ||| bit h.zero 0x0040
    ||| bit h.authenticatedData 0x0020 ||| bit h.checkingDisabled 0x0010

/-- `setHdr` -/
def unpackBits (w : BitVec 16) : MsgHdr :=
  { response := w &&& 0x8000 != 0
    opcode := ((w >>> 11) &&& 0xF).toNat
    authoritative := w &&& 0x0400 != 0
    truncated := w &&& 0x0200 != 0
    recursionDesired := w &&& 0x0100 != 0
    recursionAvailable := w &&& 0x0080 != 0
    zero := w &&& 0x0040 != 0
    authenticatedData := w &&& 0x0020 != 0
    checkingDisabled := w &&& 0x0010 != 0
    rcode := (w &&& 0xF).toNat }

/-- packing side of the RCODE split: header nibble and the OPT TTL's top octet;
    `none` = the pack error (`ErrRcode`, `ErrExtendedRcode`) -/
def splitRcode (rcode : Nat) (hasOpt : Bool) : Option (Nat × Option Nat) :=
  if rcode > 0xFFF then none
  else if hasOpt then some (rcode % 16, some (rcode / 16))
  else if rcode > 0xF then none
  else some (rcode, none)

/-- unpacking side: `dns.Rcode |= opt.ExtendedRcode()` where ExtendedRcode = top octet << 4 -/
def joinRcode (nibble : Nat) (optTop : Option Nat) : Nat :=
  match optTop with
  | some t => nibble ||| (t <<< 4)
  | none => nibble

end Dns
