/-
  C08 — the `len()` body of every record type, re-read from the source on every run (Generated/LenPlans.lean), lines up
  with its `pack()` body (Generated/Layouts.lean, Generated/Codecs.lean) in the sense the whole-message theorem
  `lenMsg_ge_packMsgC` needs: fixed-width octets are never counted later than they are written, the variable-length
  fields pair up in order, each with a step that counts at least what is written, names with the same compress flag;
  every step fills one struct field of its own; the zero values of the fields are what `len()` assumes for a record
  without RDATA.
-/
import DnsProofs.C08Plain
import DnsProofs.C08ExactMsg
namespace Dns.Instance
open Dns Dns.MU Dns.Len Dns.C08M Dns.C02M

/-- record types the line-up does not cover: none on the pinned tree (the gateway of IPSECKEY / AMTRELAY, whose host name
    enters the packer's map but not Len's set, and the SVCB / HTTPS parameter lists, where `len()` asks each value for
    its length, are covered by `name_uncounted` and `svcb_est`) -/
def lenUncovered : List String := []

/-- **every type** (81 of 81: all generated bodies, RFC 3597 and OPT included) -/
theorem len_bodies_aligned :
    Gen.unpackCodecs.all (fun p => lenUncovered.contains p.1 || (alignedKind p.1 && zeroFieldsOK p.1)) = true := by
  decide

theorem covered_of_kind (r : RRm) (hk : r.kind ∈ Gen.unpackCodecs.map (·.1)) (hu : r.kind ∉ lenUncovered)
    (hn : RRNamesOK r) : Covered r := by
  obtain ⟨p, hp, hpk⟩ := List.mem_map.mp hk
  have := List.all_eq_true.mp len_bodies_aligned p hp
  simp only [Bool.or_eq_true, Bool.and_eq_true, List.contains_iff_mem] at this
  rw [hpk] at this
  rcases this with h | ⟨h1, h2⟩
  · exact absurd h hu
  · exact ⟨h1, h2, hn⟩

/-- **Len ≥ Pack for what `Unpack` accepts**: a message decoded from any octets (its names are then within the limits,
    `unpackMsg_names`) whose records are of the covered types: the model of `Msg.Len()` predicts at least what the model
    of `Msg.Pack()` writes, with `Compress` set and without -/
theorem len_ge_pack_decoded (b : Bytes) (m : MsgM) (hm : unpackMsg b = some m)
    (hk : ∀ r ∈ m.answer ++ m.ns ++ m.extra, r.kind ∈ Gen.unpackCodecs.map (·.1) ∧ r.kind ∉ lenUncovered) :
    (∀ w n, packMsgCOf m = some w → lenMsg m true = some n → w.length ≤ n) ∧
    (∀ w n, packMsgPlain m = some w → lenMsg m false = some n → w.length ≤ n) := by
  obtain ⟨hq, ha, hn, he⟩ := unpackMsg_names b m hm
  refine lenMsg_ge_pack m hq ?_
  intro r hr
  have hr' := hr
  simp only [List.mem_append] at hr'
  have hnames : RRNamesOK r := by
    rcases hr' with (h | h) | h
    · exact ha r h
    · exact hn r h
    · exact he r h
  exact covered_of_kind r (hk r hr).1 (hk r hr).2 hnames

end Dns.Instance

namespace Dns.Instance
open Dns Dns.MU Dns.Len Dns.C08M Dns.C02M Dns.C08X

/-- the record types whose `len()` is exact on escape-free values: integer, address, name and character-string fields only,
    nothing counted ahead of a variable-length field -/
def exactKinds : List String :=
  ["A", "AAAA", "AFSDB", "ANY", "AVC", "CNAME", "DNAME", "EUI48", "EUI64", "GID", "GPOS", "HINFO", "ISDN", "KX", "L32",
   "L64", "LOC", "LP", "MB", "MD", "MF", "MG", "MINFO", "MR", "MX", "NAPTR", "NID", "NINFO", "NS", "NSAPPTR", "NXNAME",
   "PTR", "PX", "RESINFO", "RP", "RT", "SOA", "SPF", "SRV", "TALINK", "TXT", "UID", "UINFO", "X25"]

/-- **which types are exact** (re-checked against the regenerated tables on every run) -/
theorem exact_kinds : Gen.unpackCodecs.all (fun p => exactKind p.1 == exactKinds.contains p.1) = true := by decide

/-- non-vacuity: `example.org. MX 10 mail.example.org.` is a record `lenMsg_eq_packMsgC` speaks about -/
example :
    ExactRR ⟨[101,120,97,109,112,108,101,46,111,114,103,46], 15, 1, 60, 0, "MX",
      some [.n 10, .t [109,97,105,108,46,101,120,97,109,112,108,101,46,111,114,103,46]]⟩ := by
  have hname : PlainName [101,120,97,109,112,108,101,46,111,114,103,46] :=
    ⟨[[101,120,97,109,112,108,101],[111,114,103]], by decide,
      (by intro l hl; unfold C08.Plain; simp only [List.mem_cons, List.not_mem_nil, or_false] at hl
          rcases hl with rfl | rfl <;> decide), by decide⟩
  have hmx : PlainName [109,97,105,108,46,101,120,97,109,112,108,101,46,111,114,103,46] :=
    ⟨[[109,97,105,108],[101,120,97,109,112,108,101],[111,114,103]], by decide,
      (by intro l hl; unfold C08.Plain; simp only [List.mem_cons, List.not_mem_nil, or_false] at hl
          rcases hl with rfl | rfl | rfl <;> decide), by decide⟩
  refine ⟨⟨by decide, by decide, ⟨Or.inr (plainName_ok _ hname), ?_⟩⟩, by decide, hname,
    [.n 10, .t [109,97,105,108,46,101,120,97,109,112,108,101,46,111,114,103,46]], [.uint 2, .early, .name], rfl, by decide, ?_, ?_⟩
  · intro vals hv v hmem
    simp only [Option.some.injEq] at hv
    subst hv
    simp only [List.mem_cons, List.not_mem_nil, or_false] at hmem
    rcases hmem with rfl | rfl
    · trivial
    · exact Or.inr (plainName_ok _ hmx)
  · exact ⟨trivial, hmx, trivial⟩
  · intro v hv items
    simp only [List.mem_cons, List.not_mem_nil, or_false] at hv
    rcases hv with rfl | rfl <;> simp

end Dns.Instance
