package main

// Correspondence of the Lean model of the TXT-family RDATA parser (DnsModel/TxtParse.lean: lexer + endingToTxtSlice) and
// printer (sprintTxt) with scan_rr.go / types.go: whole lines `x. 1 IN TXT <text>` over an alphabet of quotes, escapes,
// separators, comments, parentheses and long tokens — which texts are accepted and which strings they yield.

import (
	"strings"

	"github.com/miekg/dns"
)

var txtAlphabet = []string{"\"", "\"", "\"", " ", " ", "\t", "a", "bc", "x y", "\\\"", "\\\\", "\\", "\\065", "\\255", "\\25", "\\999", "\\0", ";", "; c", "(", ")", "( ", " )",
	"\n", "\r\n", "\"\"", "\" \"", "A", "IN", "TXT", "\xc3\xa9", "\x00", "\x7f", "\xff", "'", "@", ".", "$"}

func genTxtText(r *Rng) string {
	var sb strings.Builder
	n := 1 + r.Intn(12)
	for i := 0; i < n; i++ {
		switch {
		case r.Chance(6):
			// a long run: tokens above 255 octets are cut into 255-octet strings
			k := []int{254, 255, 256, 300, 510, 511, 600}[r.Intn(7)]
			unit := []string{"y", "\\\"", "\\065", "\\\\"}[r.Intn(4)]
			sb.WriteString(strings.Repeat(unit, k))
		case r.Chance(4):
			sb.Write(r.Bytes(1 + r.Intn(3)))
		default:
			sb.WriteString(txtAlphabet[r.Intn(len(txtAlphabet))])
		}
	}
	return sb.String()
}

func txtStream(c *Ctx, n int) {
	r := c.R
	one := func(kind, text string) {
		line := "x. 1 IN TXT " + text
		if !strings.HasSuffix(line, "\n") {
			line += "\n"
		}
		got := guard(func() string {
			rr, err := dns.NewRR(line)
			if err != nil || rr == nil {
				return "err"
			}
			t, ok := rr.(*dns.TXT)
			if !ok {
				return "err"
			}
			var parts [][]byte
			for _, s := range t.Txt {
				parts = append(parts, []byte(s))
			}
			return strings.TrimSpace("ok " + hexListOrDash(parts))
		})
		c.OpK("txt-parse", "txt.parse "+hxs(line), got, len(text) > 0, "txt-parse:"+kind)
	}
	one("plain", "\"a b\" \"c\"")
	one("plain", "\"\"")
	one("plain", "a b c")
	for i := 0; i < n; i++ {
		one("alphabet", genTxtText(r))
		// what the library itself prints for arbitrary in-memory strings, and its re-reading
		k := r.Intn(4)
		var ss []string
		var args []string
		for j := 0; j <= k; j++ {
			var s string
			if r.Bool() {
				s = string(genCharString(r, false))
			} else {
				s = genTxtText(r)
				if len(s) > 300 {
					s = s[:300]
				}
			}
			ss = append(ss, s)
			if s == "" {
				args = append(args, "~")
			} else {
				args = append(args, hxs(s))
			}
		}
		t := &dns.TXT{Hdr: dns.RR_Header{Name: "x.", Rrtype: dns.TypeTXT, Class: 1, Ttl: 1}, Txt: ss}
		printed := guard(func() string {
			f := strings.SplitN(t.String(), "\t", 5)
			if len(f) < 5 {
				return "-"
			}
			return hexOrDash([]byte(f[4]))
		})
		c.OpK("txt-sprint", "txt.sprint "+strings.Join(args, " "), printed, true, "txt-sprint")
		if printed != "-" && !strings.HasPrefix(printed, "panic") {
			one("printed", string(unhx(printed)))
		}
	}
}
