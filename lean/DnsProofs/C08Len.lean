/-
  C08 (per-type accounting) — what a record type's `len()` adds for its RDATA is at least what its `pack()` writes:
  the `len()` bodies are translated from the source on every run (Generated/LenPlans.lean) and checked, type by type,
  against the `pack()` bodies (Generated/Layouts.lean): the fixed-width fields are counted in full and every
  variable-length field is accounted for by a step whose value is at least the octets the packer writes.
-/
import DnsModel.LenModel
import DnsModel.Text
import DnsProofs.C08
import DnsModel.Nsec
namespace Dns.C08L
open Dns Dns.Len

/-! ### the general argument -/

def sumL (E : LStep → Nat) (ls : List LStep) : Nat := (ls.map E).sum
def sumP (P : PStep → Nat) (ps : List PStep) : Nat := (ps.map P).sum

theorem foldl_add_init {α : Type} (f : α → Nat) (xs : List α) (a : Nat) :
    xs.foldl (fun acc x => acc + f x) a = a + (xs.map f).sum := by
  induction xs generalizing a with
  | nil => simp
  | cons x xs ih => simp only [List.foldl_cons, ih, List.map_cons, List.sum_cons]; omega

theorem sum_filter_split {α : Type} (f : α → Nat) (p : α → Bool) (xs : List α) :
    (xs.map f).sum = ((xs.filter p).map f).sum + ((xs.filter (fun x => !p x)).map f).sum := by
  induction xs with
  | nil => rfl
  | cons x xs ih =>
    cases hp : p x <;> simp [List.filter_cons, hp, ih] <;> omega

theorem constTotal_eq (E : LStep → Nat) (hC : ∀ k, E (.const k) = k) (ls : List LStep) :
    constTotal ls = ((ls.filter isConst).map E).sum := by
  unfold constTotal
  induction ls with
  | nil => rfl
  | cons s ls ih =>
    cases s <;> simp only [List.map_cons, List.sum_cons, List.filter_cons, isConst, ↓reduceIte, Bool.false_eq_true, ih,
      constOf, hC, Nat.zero_add]

theorem uintTotal_eq (P : PStep → Nat) (hU : ∀ p w, uintWidth p.1 = some w → P p = w) (ps : List PStep) :
    uintTotal ps = ((ps.filter (fun p => !(uintWidth p.1).isNone)).map P).sum := by
  unfold uintTotal
  induction ps with
  | nil => rfl
  | cons p ps ih =>
    simp only [List.map_cons, List.sum_cons, List.filter_cons, ih]
    cases hw : uintWidth p.1 with
    | none => simp
    | some w => simp [hU p w hw]

theorem zip_le (E : LStep → Nat) (P : PStep → Nat) (hA : ∀ l p, accounts l p = true → P p ≤ E l) :
    ∀ (ls : List LStep) (ps : List PStep), zipAccounts ls ps = true → (ps.map P).sum ≤ (ls.map E).sum
  | [], [], _ => by simp
  | l :: ls, p :: ps, h => by
    simp only [zipAccounts, Bool.and_eq_true] at h
    have := hA l p h.1
    have := zip_le E P hA ls ps h.2
    simp only [List.map_cons, List.sum_cons]; omega
  | [], _ :: _, h => by simp [zipAccounts] at h
  | _ :: _, [], h => by simp [zipAccounts] at h

/-- **len covers pack**: if a type's `len()` steps cover its `pack()` steps, then — whatever the field values — the sum
    of what the `len()` steps add is at least the sum of what the `pack()` steps write, provided each kind of `len()`
    step is at least what the packer writes for the field it accounts for (`hA`, discharged kind by kind below) -/
theorem covers_sum (E : LStep → Nat) (P : PStep → Nat) (hC : ∀ k, E (.const k) = k)
    (hU : ∀ p w, uintWidth p.1 = some w → P p = w) (hA : ∀ l p, accounts l p = true → P p ≤ E l)
    (ls : List LStep) (ps : List PStep) (h : lenCovers ls ps = true) :
    sumP P ps ≤ sumL E ls := by
  unfold lenCovers at h
  simp only [Bool.and_eq_true, decide_eq_true_eq] at h
  obtain ⟨h1, h2⟩ := h
  unfold sumP sumL
  rw [sum_filter_split P (fun p => (uintWidth p.1).isNone) ps, sum_filter_split E isConst ls]
  rw [constTotal_eq E hC, uintTotal_eq P hU] at h1
  have := zip_le E P hA _ _ h2
  omega

/-! ### the generated table -/

/-- **every type**: the `len()` method of every record type with a generated `pack()` covers it — all but OPT, whose
    `len()` packs each option to measure it -/
theorem len_plans_cover :
    Gen.packPlans.all (fun p => p.1 = "OPT" || (match planOf p.1 with | some l => lenCovers l p.2 | none => false)) = true := by
  decide

/-- and counts the fixed-width fields exactly, for every type but NSEC3 (two octets too many: harmless) -/
theorem len_plans_exact_consts :
    Gen.packPlans.all (fun p => p.1 = "OPT" || p.1 = "NSEC3" ||
      (match planOf p.1 with | some l => lenExactConsts l p.2 | none => false)) = true := by
  decide

/-! ### kind by kind: what the step adds against what the packer writes -/

/-- a character-string: the text in memory is at least as long as the octets it stands for -/
theorem unescape_le (s : Bytes) : (txtUnescape s).length ≤ s.length := by
  fun_induction txtUnescape s <;> simp only [List.length_cons, List.length_nil] <;>
    first
      | omega
      | (rename_i rest _ ih; have : (List.drop 3 rest).length ≤ rest.length := by simp
         omega)

/-- `len(s) + 1` against the length octet and the unescaped text (`packString`) -/
theorem str1_ge (s : Bytes) : 1 + (txtUnescape s).length ≤ s.length + 1 := by
  have := unescape_le s; omega

/-- TXT-like lists -/
theorem txt_ge (strs : List Bytes) :
    (strs.map (fun x => 1 + (txtUnescape x).length)).sum ≤ strs.foldl (fun a x => a + x.length + 1) 0 := by
  have hf : ∀ a, strs.foldl (fun a x => a + x.length + 1) a = a + (strs.map (fun x => x.length + 1)).sum := by
    induction strs with
    | nil => intro a; simp
    | cons x xs ih => intro a; simp only [List.foldl_cons, ih, List.map_cons, List.sum_cons]; omega
  rw [hf 0, Nat.zero_add]
  clear hf
  induction strs with
  | nil => simp
  | cons x xs ih =>
    simp only [List.map_cons, List.sum_cons]
    have := unescape_le x
    omega

/-- a name that is not compressed: `domainNameLen` with a nil map is exactly the wire length (C08) -/
theorem name_ge (ls : List Bytes) (off : Nat) (c : Bool) (h : WireNameOK ls) :
    (wireOf ls).length ≤ (domainNameLen (presentOf ls) off none c).1 := by
  rw [(C08.domainNameLen_exact ls off c h).1]; exact Nat.le_refl _

/-! ### the type bitmap: `typeBitMapLen` runs the packer's loop without writing -/

/-- one round of `typeBitMapLen`'s loop on (length so far, last window, last length) -/
def bmStep (st : Nat × Nat × Nat) (t : Nat) : Nat × Nat × Nat :=
  let window := t / 256
  let length := (t - window * 256) / 8 + 1
  let st1 : Nat × Nat × Nat := if window > st.2.1 ∧ st.2.2 ≠ 0 then (st.1 + st.2.2 + 2, st.2.1, 0) else st
  if window < st1.2.1 ∨ length < st1.2.2 then st1 else (st1.1, window, length)

theorem typeBitMapLen_eq (ts : List Nat) :
    typeBitMapLen ts = (ts.foldl bmStep (0, 0, 0)).1 + (ts.foldl bmStep (0, 0, 0)).2.2 + 2 := rfl

/-- the packer's state and the counter's state go together: octets finished, window, length of the open block -/
def Sim (st : NsecSt) (c : Nat × Nat × Nat) : Prop :=
  c.1 = st.done.length ∧ c.2.1 = st.lw ∧ c.2.2 = st.ll ∧ st.data.length = st.ll

/-- what one successful round of the packer does to the sizes -/
theorem packStep_sizes (st st' : NsecSt) (t : Nat) (hd : st.data.length = st.ll) (hp : packNsecStep st t = some st') :
    (t / 256 > st.lw ∧ st.ll ≠ 0 →
      st'.done.length = st.done.length + 2 + st.ll ∧ st'.lw = t / 256 ∧ st'.ll = t % 256 / 8 + 1 ∧
        st'.data.length = t % 256 / 8 + 1 ∧ ¬ t / 256 < st.lw) ∧
    (¬ (t / 256 > st.lw ∧ st.ll ≠ 0) →
      st'.done.length = st.done.length ∧ st'.lw = t / 256 ∧ st'.ll = t % 256 / 8 + 1 ∧
        st'.data.length = t % 256 / 8 + 1 ∧ ¬ (t / 256 < st.lw ∨ t % 256 / 8 + 1 < st.ll)) := by
  unfold packNsecStep at hp
  by_cases hw : t / 256 > st.lw ∧ st.ll ≠ 0
  · have hw' : (decide (t / 256 > st.lw) && (st.ll != 0)) = true := by simp [hw.1, hw.2]
    simp only [hw', ↓reduceIte] at hp
    refine ⟨fun _ => ?_, fun h => absurd hw h⟩
    by_cases hc : (decide (t / 256 < st.lw) || decide (t % 256 / 8 + 1 < 0)) = true
    · rw [if_pos hc] at hp; cases hp
    · rw [if_neg hc] at hp
      simp only [Option.some.injEq] at hp
      subst hp
      simp only [Bool.or_eq_true, decide_eq_true_eq, not_or, Nat.not_lt] at hc
      refine ⟨by simp [hd]; omega, rfl, rfl, by simp, by omega⟩
  · have hw' : (decide (t / 256 > st.lw) && (st.ll != 0)) = false := by
      by_cases h1 : t / 256 > st.lw
      · have : st.ll = 0 := by
          by_cases h0 : st.ll = 0
          · exact h0
          · exact absurd ⟨h1, h0⟩ hw
        simp [this]
      · simp [h1]
    simp only [hw', Bool.false_eq_true, ↓reduceIte] at hp
    refine ⟨fun h => absurd h hw, fun _ => ?_⟩
    by_cases hc : (decide (t / 256 < st.lw) || decide (t % 256 / 8 + 1 < st.ll)) = true
    · rw [if_pos hc] at hp; cases hp
    · rw [if_neg hc] at hp
      simp only [Option.some.injEq] at hp
      subst hp
      simp only [Bool.or_eq_true, decide_eq_true_eq, not_or, Nat.not_lt] at hc
      refine ⟨rfl, rfl, rfl, by simp; omega, by omega⟩

theorem sim_step (st st' : NsecSt) (c : Nat × Nat × Nat) (t : Nat) (h : Sim st c) (hp : packNsecStep st t = some st') :
    Sim st' (bmStep c t) := by
  obtain ⟨h1, h2, h3, h4⟩ := h
  obtain ⟨c1, c2, c3⟩ := c
  simp only at h1 h2 h3
  subst h1 h2 h3
  have hlen : (t - t / 256 * 256) / 8 + 1 = t % 256 / 8 + 1 := by
    have : t - t / 256 * 256 = t % 256 := by omega
    rw [this]
  obtain ⟨p1, p2⟩ := packStep_sizes st st' t h4 hp
  unfold bmStep
  simp only [hlen]
  by_cases hw : t / 256 > st.lw ∧ st.ll ≠ 0
  · obtain ⟨a1, a2, a3, a4, a5⟩ := p1 hw
    rw [if_pos hw]
    simp only
    have hnot : ¬ (t / 256 < st.lw ∨ t % 256 / 8 + 1 < 0) := by omega
    rw [if_neg hnot]
    exact ⟨by simp only; omega, a2.symm, a3.symm, by omega⟩
  · obtain ⟨a1, a2, a3, a4, a5⟩ := p2 hw
    rw [if_neg hw]
    simp only
    rw [if_neg a5]
    exact ⟨by simp only; omega, a2.symm, a3.symm, by omega⟩

theorem sim_fold (ts : List Nat) (st st' : NsecSt) (c : Nat × Nat × Nat) (h : Sim st c)
    (hp : packNsecFold ts st = some st') : Sim st' (ts.foldl bmStep c) := by
  induction ts generalizing st c with
  | nil => simp [packNsecFold] at hp; subst hp; exact h
  | cons t ts ih =>
    simp only [packNsecFold] at hp
    split at hp
    · rename_i s1 hs1
      exact ih s1 (bmStep c t) (sim_step st s1 c t h hs1) hp
    · cases hp

/-- **bitmap**: whenever the packer writes a type bitmap, `typeBitMapLen` is exactly the number of octets written — and
    2 for the empty list, of which nothing is written -/
theorem bitmap_ge (types : List Nat) (w : Bytes) (h : packNsec types = some w) : w.length ≤ typeBitMapLen types := by
  unfold packNsec at h
  split at h
  · simp at h; subst h; simp
  · cases hf : packNsecFold types ⟨[], 0, 0, []⟩ with
    | none => simp [hf] at h
    | some st =>
      simp only [hf, Option.map_some, Option.some.injEq] at h
      subst h
      obtain ⟨s1, s2, s3, s4⟩ := sim_fold types ⟨[], 0, 0, []⟩ st (0, 0, 0) ⟨rfl, rfl, rfl, rfl⟩ hf
      rw [typeBitMapLen_eq, s1, s3]
      simp [s4]
      omega

end Dns.C08L
