import DnsModel.Basic
namespace Driver
open Dns

def hexDigitVal (c : Char) : Option Nat :=
  if '0' ≤ c ∧ c ≤ '9' then some (c.toNat - '0'.toNat)
  else if 'a' ≤ c ∧ c ≤ 'f' then some (c.toNat - 'a'.toNat + 10)
  else if 'A' ≤ c ∧ c ≤ 'F' then some (c.toNat - 'A'.toNat + 10)
  else none

partial def unhexAux : List Char → Bytes → Option Bytes
  | [], acc => some acc.reverse
  | a :: b :: rest, acc =>
    match hexDigitVal a, hexDigitVal b with
    | some x, some y => unhexAux rest (UInt8.ofNat (x * 16 + y) :: acc)
    | _, _ => none
  | _, _ => none

/-- "-" is the empty string -/
def unhex (s : String) : Option Bytes :=
  if s == "-" then some [] else unhexAux s.toList []

def hexChar (n : Nat) : Char := if n < 10 then Char.ofNat (48 + n) else Char.ofNat (87 + n)

def hex (bs : Bytes) : String :=
  if bs.isEmpty then "-" else
  String.ofList (bs.flatMap fun b => [hexChar (b.toNat / 16), hexChar (b.toNat % 16)])

def showNats (ns : List Nat) : String :=
  if ns.isEmpty then "-" else ",".intercalate (ns.map toString)

def showB (b : Bool) : String := if b then "1" else "0"

end Driver
