package main

import (
	"bytes"
	"encoding/hex"
	"fmt"
	"strings"

	"github.com/miekg/dns"
)

func init() { props["C05"] = runC05 }

// types without a presentation format
var noPresentation = map[uint16]bool{dns.TypeOPT: true, dns.TypeTSIG: true, dns.TypeTKEY: true, dns.TypeNULL: true, dns.TypeANY: true, dns.TypeNXNAME: true}

// makeTextWF adjusts generated RDATA so that the record is well formed for its type's presentation format
// (what the RFC of the type demands beyond the field shapes); returns false when the case is to be skipped.
func makeTextWF(r *Rng, g *GenRR) bool {
	rd := g.Rdata
	switch g.Type {
	case dns.TypeX25: // PSDN address: digits
		n := 1 + r.Intn(12)
		d := make([]byte, n)
		for i := range d {
			d[i] = byte('0' + r.Intn(10))
		}
		rd = append([]byte{byte(n)}, d...)
	case dns.TypeGPOS: // three numeric strings
		rd = nil
		for _, s := range []string{fmt.Sprintf("%d.%d", r.Intn(90), r.Intn(100)), fmt.Sprintf("-%d.%d", r.Intn(180), r.Intn(100)), fmt.Sprint(r.Intn(9000))} {
			rd = append(rd, byte(len(s)))
			rd = append(rd, s...)
		}
	case dns.TypeLOC:
		// RFC 1876: base 1..9 with exponent 0..9; a zero base is only canonical as 0x00
		sz := func() byte {
			if r.Chance(10) {
				return 0
			}
			return byte(1+r.Intn(9))<<4 | byte(r.Intn(10))
		}
		lat := uint32(1<<31) + uint32(r.Intn(2*90*3600000)) - 90*3600000
		lon := uint32(1<<31) + uint32(r.Intn(2*180*3600000)) - 180*3600000
		alt := uint32(r.Intn(20000000))
		if r.Chance(30) {
			// around the reference level (100000 m below the spheroid = 0): altitudes between -1 m and +1 m, whole metres,
			// the ends of the range
			alt = []uint32{9999900, 9999901, 9999950, 9999999, 10000000, 10000001, 10000050, 10000099, 10000100, 9999899, 0, 1, 99, 100,
				4294967295, 4294967200, uint32(9999900 + r.Intn(200))}[r.Intn(17)]
		}
		if r.Chance(15) {
			// latitude / longitude on the equator / prime meridian and within a second of them, and at the poles
			lat = []uint32{1 << 31, 1<<31 - 1, 1<<31 + 1, 1<<31 - 999, 1<<31 + 999, 1<<31 + 90*3600000, 1<<31 - 90*3600000}[r.Intn(7)]
			lon = []uint32{1 << 31, 1<<31 - 1, 1<<31 + 1, 1<<31 - 59999, 1<<31 + 180*3600000, 1<<31 - 180*3600000}[r.Intn(6)]
		}
		rd = []byte{0, sz(), sz(), sz()}
		rd = putUint(rd, 4, uint64(lat))
		rd = putUint(rd, 4, uint64(lon))
		rd = putUint(rd, 4, uint64(alt))
	case dns.TypeNSEC3: // SHA-1 sized next hashed owner
		if len(rd) < 5 {
			return false
		}
		sl := int(rd[4])
		if len(rd) < 5+sl+1 {
			return false
		}
		hl := int(rd[5+sl])
		rest := rd[5+sl+1+hl:]
		n := append(append([]byte{}, rd[:5+sl]...), 20)
		n = append(n, r.Bytes(20)...)
		rd = append(n, rest...)
		rd[0] = 1
	case dns.TypeHIP:
		if len(rd) < 4 {
			return false
		}
		hitl, pkl := 1+r.Intn(16), 1+r.Intn(40)
		n := []byte{byte(hitl), rd[1], byte(pkl >> 8), byte(pkl)}
		n = append(n, r.Bytes(hitl)...)
		n = append(n, r.Bytes(pkl)...)
		for i := 0; i < r.Intn(3); i++ {
			n = append(n, wireOf(genLabels(r, 0))...)
		}
		rd = n
	case dns.TypeDHCID, dns.TypeOPENPGPKEY, dns.TypeDNSKEY, dns.TypeCDNSKEY, dns.TypeKEY, dns.TypeRKEY, dns.TypeCERT, dns.TypeSIG, dns.TypeRRSIG:
		// base64 blob must be non-empty to be written
		if g.Type == dns.TypeDHCID || g.Type == dns.TypeOPENPGPKEY {
			if len(rd) == 0 {
				rd = r.Bytes(1 + r.Intn(20))
			}
		}
	case dns.TypeCAA: // flag, tag [a-z0-9]+, value
		tag := []string{"issue", "issuewild", "iodef", "tbs0"}[r.Intn(4)]
		val := genCharString(r, false)
		rd = append([]byte{byte(r.Intn(256)), byte(len(tag))}, tag...)
		rd = append(rd, val...)
	case dns.TypeEUI48, dns.TypeEUI64, dns.TypeNID, dns.TypeL64, dns.TypeL32:
	case dns.TypeAPL, dns.TypeSVCB, dns.TypeHTTPS:
	case dns.TypeTA, dns.TypeDLV, dns.TypeDS, dns.TypeCDS, dns.TypeSSHFP, dns.TypeTLSA, dns.TypeSMIMEA, dns.TypeZONEMD, dns.TypeNSAPPTR, dns.TypeNIMLOC, dns.TypeEID:
		// hex tails must be non-empty
		min := map[uint16]int{dns.TypeDS: 5, dns.TypeCDS: 5, dns.TypeTA: 5, dns.TypeDLV: 5, dns.TypeSSHFP: 3, dns.TypeTLSA: 4, dns.TypeSMIMEA: 4, dns.TypeZONEMD: 7, dns.TypeNIMLOC: 1, dns.TypeEID: 1}[g.Type]
		if len(rd) < min {
			return false
		}
	}
	if len(rd) == 0 {
		return false // RDATA-less records print nothing to re-read
	}
	g.Rdata = rd
	g.Wire = assembleRR(g.Owner, g.Type, g.Class, g.TTL, rd)
	return true
}

// texts (with their wire form) that passed the single-record round trip; a record must also be re-readable when it
// is one line of a zone, before and after other records
type textWire struct {
	txt  string
	wire []byte
}

var c05Prev []textWire

func c05InZone(c *Ctx, stream, tn string, cur textWire) {
	if len(c05Prev) == 0 {
		return
	}
	other := c05Prev[c.R.Intn(len(c05Prev))]
	for _, order := range [][]textWire{{cur, other}, {other, cur}, {other, cur, other}} {
		var sb strings.Builder
		for _, e := range order {
			sb.WriteString(e.txt)
			sb.WriteByte('\n')
		}
		zone := sb.String()
		out := guard(func() string {
			zp := dns.NewZoneParser(strings.NewReader(zone), "", "")
			k := 0
			for rr, ok := zp.Next(); ok; rr, ok = zp.Next() {
				if k >= len(order) {
					return "too-many-records"
				}
				w, err := packRRBytes(rr)
				if err != nil {
					return "repack-error: " + err.Error()
				}
				if !bytes.Equal(w, order[k].wire) {
					return fmt.Sprintf("record %d differs: %s", k, hx(w))
				}
				k++
			}
			if err := zp.Err(); err != nil {
				return fmt.Sprintf("parse-error after %d records: %v", k, err)
			}
			if k != len(order) {
				return fmt.Sprintf("%d records of %d", k, len(order))
			}
			return "ok"
		})
		c.Pred(stream, "text-in-zone:"+tn, zone, out == "ok", out, "ok", true)
	}
}

func c05Record(c *Ctx, stream string, g *GenRR) {
	tn := dns.Type(g.Type).String()
	if _, named := dns.TypeToString[g.Type]; !named {
		tn = "TYPE-unassigned" // one key for all of them
	}
	in := fmt.Sprintf("type=%s wire=%s", dns.Type(g.Type).String(), hx(g.Wire))
	rr, off, err := dns.UnpackRR(g.Wire, 0)
	if err != nil || off != len(g.Wire) {
		c.Hit("skipped:" + tn)
		return
	}
	w1, err := packRRBytes(rr)
	if err != nil || !bytes.Equal(w1, g.Wire) {
		return // not canonical (C01's business)
	}
	txt := rr.String()
	out := guard(func() string {
		rr2, err := dns.NewRR(txt)
		if err != nil {
			return "parse-error: " + err.Error()
		}
		if rr2 == nil {
			return "parse-nil"
		}
		txt2 := rr2.String() // before anything else touches the record (packing fills in Rdlength)
		w2, err := packRRBytes(rr2)
		if err != nil {
			return "repack-error: " + err.Error()
		}
		if !bytes.Equal(w2, g.Wire) {
			return "differs: " + hx(w2)
		}
		// text of the re-read record is a fixed point
		if txt2 != txt || rr2.String() != txt {
			return "text-not-stable: " + txt2
		}
		// the sibling entry points read the same text the same way
		rr5, err := dns.ReadRR(strings.NewReader(txt), "verif.zone")
		if err != nil || rr5 == nil {
			return fmt.Sprint("ReadRR: ", err)
		}
		if !dns.IsDuplicate(rr2, rr5) || rr5.Header().Ttl != rr2.Header().Ttl {
			return "ReadRR reads a different record: " + rr5.String()
		}
		zp := dns.NewZoneParser(strings.NewReader(txt+"\n"), "", "verif.zone")
		rr6, ok6 := zp.Next()
		if !ok6 || rr6 == nil || zp.Err() != nil || !dns.IsDuplicate(rr2, rr6) || rr6.Header().Ttl != rr2.Header().Ttl {
			return fmt.Sprint("ZoneParser reads a different record: ", rr6, zp.Err())
		}
		return "ok"
	})
	c.Hit("text:" + tn)
	c.Pred(stream, "text-roundtrip:"+tn, in+" text="+txt, out == "ok", out, "ok", true)
	if out == "ok" {
		cur := textWire{txt, append([]byte{}, g.Wire...)}
		c05InZone(c, stream, tn, cur)
		if len(c05Prev) < 64 {
			c05Prev = append(c05Prev, cur)
		} else {
			c05Prev[c.R.Intn(64)] = cur
		}
	}
	// the text uses only RFC 1035 master-file syntax: printable ASCII, balanced quotes, one line
	okSyntax := !strings.ContainsAny(txt, "\n\r") && strings.Count(strings.ReplaceAll(strings.ReplaceAll(txt, "\\\\", ""), "\\\"", ""), "\"")%2 == 0
	for i := 0; i < len(txt); i++ {
		if txt[i] != '\t' && (txt[i] < ' ' || txt[i] > '~') {
			okSyntax = false
		}
	}
	c.Pred(stream, "text-is-master-file-syntax:"+tn, in+" text="+txt, okSyntax, txt, "printable, one line, balanced quotes", true)
	// RFC 3597 generic form of the same record
	f := strings.SplitN(txt, "\t", 5)
	if len(f) == 5 {
		gen := fmt.Sprintf("%s\t%s\tCLASS%d\tTYPE%d\t\\# %d %s", f[0], f[1], g.Class, g.Type, len(g.Rdata), hx(g.Rdata))
		if len(g.Rdata) == 0 {
			gen = fmt.Sprintf("%s\t%s\tCLASS%d\tTYPE%d\t\\# 0", f[0], f[1], g.Class, g.Type)
		}
		out := guard(func() string {
			rr3, err := dns.NewRR(gen)
			if err != nil || rr3 == nil {
				return fmt.Sprint("parse-error: ", err)
			}
			w3, err := packRRBytes(rr3)
			if err != nil {
				return "repack-error: " + err.Error()
			}
			if !bytes.Equal(w3, g.Wire) {
				return "differs: " + hx(w3)
			}
			return "ok"
		})
		c.Pred(stream, "generic-form:"+tn, gen, out == "ok", out, "ok", true)
		// the numeric spelling of class and type in front of the type's own RDATA text (which may hold words that are
		// themselves type or class mnemonics: NSEC / CSYNC type lists, base64 that reads AAAA, a CAA tag, ...)
		for _, num := range []string{
			fmt.Sprintf("%s\t%s\tCLASS%d\tTYPE%d\t%s", f[0], f[1], g.Class, g.Type, f[4]),
			fmt.Sprintf("%s\t%s\t%s\ttype%d\t%s", f[0], f[1], f[2], g.Type, f[4]),
		} {
			out := guard(func() string {
				rr4, err := dns.NewRR(num)
				if err != nil || rr4 == nil {
					return fmt.Sprint("parse-error: ", err)
				}
				w4, err := packRRBytes(rr4)
				if err != nil {
					return "repack-error: " + err.Error()
				}
				if !bytes.Equal(w4, g.Wire) {
					return "differs: " + hx(w4)
				}
				return "ok"
			})
			c.Pred(stream, "numeric-spelling:"+tn, num, out == "ok", out, "ok", true)
		}
	}
}

// privRdata: the RDATA of a privately registered type (PrivateHandle): one hex word
type privRdata struct{ b []byte }

func (p *privRdata) String() string { return hx(p.b) }
func (p *privRdata) Parse(txt []string) error {
	b, err := hex.DecodeString(strings.Join(txt, ""))
	p.b = b
	return err
}
func (p *privRdata) Pack(buf []byte) (int, error) {
	if len(buf) < len(p.b) {
		return 0, fmt.Errorf("short buffer")
	}
	return copy(buf, p.b), nil
}
func (p *privRdata) Unpack(buf []byte) (int, error) {
	p.b = append([]byte{}, buf...)
	return len(buf), nil
}
func (p *privRdata) Copy(dst dns.PrivateRdata) error {
	dst.(*privRdata).b = append([]byte{}, p.b...)
	return nil
}
func (p *privRdata) Len() int { return len(p.b) }

// c05PrivateTypes: a type code printed under a privately registered mnemonic, and again after the registration is
// removed: whatever String() prints at either moment must be accepted by the parser at that moment and give the same
// record (type codes inside NSEC / CSYNC bitmaps and RRSIG "type covered" included).
func c05PrivateTypes(c *Ctx) {
	c05PrivateType(c, 65281, true)
	c05PrivateType(c, 65282, false) // first printed while registered
}

func c05PrivateType(c *Ctx, code uint16, before bool) {
	mk := func() []dns.RR {
		return []dns.RR{
			&dns.NSEC{Hdr: dns.RR_Header{Name: "a.example.", Rrtype: dns.TypeNSEC, Class: 1, Ttl: 60}, NextDomain: "b.example.", TypeBitMap: []uint16{1, 46, code}},
			&dns.CSYNC{Hdr: dns.RR_Header{Name: "a.example.", Rrtype: dns.TypeCSYNC, Class: 1, Ttl: 60}, Serial: 7, Flags: 3, TypeBitMap: []uint16{2, code}},
			&dns.RRSIG{Hdr: dns.RR_Header{Name: "a.example.", Rrtype: dns.TypeRRSIG, Class: 1, Ttl: 60}, TypeCovered: code, Algorithm: 13, Labels: 2,
				OrigTtl: 60, Expiration: 1700000000, Inception: 1600000000, KeyTag: 9, SignerName: "example.", Signature: "AAEC"},
		}
	}
	roundTrip := func(phase string) {
		for _, rr := range mk() {
			txt := rr.String()
			back, err := dns.NewRR(txt)
			ok := err == nil && back != nil && dns.IsDuplicate(rr, back)
			detail := "ok"
			if err != nil {
				detail = err.Error()
			} else if !ok {
				detail = "a different record"
			}
			c.Pred("private-types", "text-rereads:"+phase, txt, ok, detail, "the same record", true)
		}
		name := dns.Type(code).String()
		if v, ok := dns.StringToType[name]; ok {
			c.Pred("private-types", "mnemonic-known:"+phase, name, v == code, fmt.Sprint(v), fmt.Sprint(code), true)
		} else {
			c.Pred("private-types", "mnemonic-known:"+phase, name, name == fmt.Sprintf("TYPE%d", code), name, "TYPEnnn when not registered", true)
		}
	}
	if before {
		roundTrip("before")
	}
	dns.PrivateHandle(fmt.Sprintf("XPRIV%d", code), code, func() dns.PrivateRdata { return new(privRdata) })
	roundTrip("registered")
	dns.PrivateHandleRemove(code)
	roundTrip("removed")
	dns.PrivateHandle(fmt.Sprintf("YPRIV%d", code), code, func() dns.PrivateRdata { return new(privRdata) })
	roundTrip("registered-again")
	dns.PrivateHandleRemove(code)
	roundTrip("removed-again")
}

func runC05(c *Ctx) {
	r := c.R
	t := loadSpec()
	c05PrivateTypes(c)
	c.Res.Rule = "records of every type with a presentation format, decoded from generated wire data that is well formed for the type (strings with quotes, backslashes, semicolons, parentheses, blanks, newlines, non-ASCII; 255-octet and empty strings) and re-read from text; all 65536 type and class codes; RFC 3597 generic form; distinct by content"
	per := c.Scale(120, 2500)
	for _, typ := range t.wireTypes() {
		if noPresentation[typ] {
			continue
		}
		for i := 0; i < per; i++ {
			g := genRR(r, typ, r.Intn(3), r.Chance(30))
			if g.Class == 0 || r.Chance(80) {
				g.Class = 1
			}
			if i%6 == 0 {
				c05Generic(c, g)
			}
			if !makeTextWF(r, g) {
				continue
			}
			g.Wire = assembleRR(g.Owner, g.Type, g.Class, g.TTL, g.Rdata)
			c05Record(c, "from-wire", g)
		}
	}
	// length octets that are computed from the length of a text field when it is read back: the field at and around the
	// lengths where `uint8(len(text))` wraps before it is halved (HIP: HIT of 127, 128, 200, 255 octets; the key likewise)
	for _, hitLen := range []int{1, 16, 127, 128, 129, 200, 254, 255} {
		for _, keyLen := range []int{1, 3, 300} {
			rd := []byte{byte(hitLen), 2, byte(keyLen >> 8), byte(keyLen)}
			rd = append(rd, r.Bytes(hitLen)...)
			rd = append(rd, r.Bytes(keyLen)...)
			if r.Bool() {
				rd = append(rd, wireOf([][]byte{[]byte("rvs"), []byte("example")})...)
			}
			g := &GenRR{Type: dns.TypeHIP, Class: 1, TTL: 60, Owner: [][]byte{[]byte("hip"), []byte("example")}, Rdata: rd}
			g.Wire = assembleRR(g.Owner, g.Type, g.Class, g.TTL, g.Rdata)
			c.Hit(fmt.Sprintf("length-octets:HIP:hit=%d", hitLen))
			c05Record(c, "length-octets", g)
		}
	}
	// record types the library does not know: the RFC 3597 form out and in again (what is printed for a record read from
	// text must be readable too: `text-not-stable`)
	for i, n := 0, c.Scale(400, 6000); i < n; i++ {
		typ := uint16(65280 + r.Intn(254))
		if r.Chance(40) {
			typ = uint16(270 + r.Intn(32000))
		}
		if _, known := dns.TypeToRR[typ]; known {
			continue
		}
		if _, named := dns.TypeToString[typ]; named {
			continue
		}
		g := genRR(r, typ, r.Intn(3), false)
		g.Class = 1
		if r.Chance(10) {
			g.Rdata = nil
		}
		g.Wire = assembleRR(g.Owner, g.Type, g.Class, g.TTL, g.Rdata)
		c05Record(c, "unknown-types", g)
	}
	// RFC 3597 generic form with large RDATA (the 16-bit length is where arithmetic goes wrong)
	for _, n := range []int{255, 256, 32767, 32768, 32769, 40000, 65534, 65535} {
		for _, typ := range []uint16{dns.TypeOPENPGPKEY, dns.TypeDNSKEY, dns.TypeTXT, dns.TypeDHCID, 65280} {
			var rd []byte
			switch typ {
			case dns.TypeTXT:
				for len(rd) < n {
					k := n - len(rd) - 1
					if k > 255 {
						k = 255
					}
					rd = append(rd, byte(k))
					for j := 0; j < k; j++ {
						rd = append(rd, byte('a'+r.Intn(26)))
					}
				}
			default:
				rd = r.Bytes(n)
			}
			if len(rd) != n {
				continue
			}
			wire := assembleRR([][]byte{[]byte("big")}, typ, 1, 300, rd)
			gen := fmt.Sprintf("big.\t300\tCLASS1\tTYPE%d\t\\# %d %s", typ, n, hx(rd))
			out := guard(func() string {
				rr, err := dns.NewRR(gen)
				if err != nil || rr == nil {
					return fmt.Sprint("parse-error: ", err)
				}
				w, err := packRRBytes(rr)
				if err != nil {
					return "repack-error: " + err.Error()
				}
				if !bytes.Equal(w, wire) {
					return fmt.Sprintf("differs: %d octets, rdlength %d", len(w), rr.Header().Rdlength)
				}
				return "ok"
			})
			c.Pred("generic-large", "generic-form:"+dns.Type(typ).String(), fmt.Sprintf("type=%d rdlen=%d", typ, n), out == "ok", out, "ok", true)
		}
	}
	// character-strings: in-memory form after unpacking and octets after packing, against the Lean text model
	for i := 0; i < c.Scale(3000, 80000); i++ {
		raw := genCharString(r, false)
		w := assembleRR([][]byte{[]byte("t")}, dns.TypeTXT, 1, 1, append([]byte{byte(len(raw))}, raw...))
		rr, _, err := dns.UnpackRR(w, 0)
		if err != nil {
			continue
		}
		mem := rr.(*dns.TXT).Txt[0]
		c.Op("charstring", "txt.escape "+hx(raw), hxs(mem), len(raw) > 0)
		// any spelling packs to what the model un-escapes
		sp := mutateText(mem, r)
		if len(sp) > 255 {
			continue
		}
		t2 := &dns.TXT{Hdr: dns.RR_Header{Name: "t.", Rrtype: dns.TypeTXT, Class: 1, Ttl: 1}, Txt: []string{sp}}
		pw, err := packRRBytes(t2)
		if err == nil && len(pw) > 13 {
			c.Op("charstring", "txt.unescape "+hxs(sp), hx(pw[14:]), len(sp) > 0)
		}
	}
	// unknown types print and re-read in the generic form
	for i := 0; i < c.Scale(300, 6000); i++ {
		typ := uint16(r.Intn(65536))
		if _, known := t.byCode[typ]; known || noPresentation[typ] {
			continue
		}
		g := genRR(r, typ, 0, false)
		c05Record(c, "unknown-types", g)
	}
	// all type and class codes: mnemonic and TYPEnnn / CLASSnnn
	for code := 0; code < 65536; code++ {
		ts := dns.Type(code).String()
		for _, spelling := range []string{ts, fmt.Sprintf("TYPE%d", code)} {
			if noPresentation[uint16(code)] && spelling == ts {
				continue
			}
			txt := fmt.Sprintf("x.example.\t3600\tIN\t%s\t\\# 0", spelling)
			rr, err := dns.NewRR(txt)
			ok := err == nil && rr != nil && rr.Header().Rrtype == uint16(code)
			c.Pred("type-codes", "type-text:"+spellingKind(spelling), txt, ok, fmt.Sprint(err), fmt.Sprint("type ", code), spelling == ts)
		}
		// the model of Type.String / Class.String (theorems printed_type_read_back / printed_class_read_back)
		c.Op("type-codes", fmt.Sprintf("type.print %d", code), hxs(ts), true)
		c.Op("class-codes", fmt.Sprintf("class.print %d", code), hxs(dns.Class(code).String()), true)
		cs := dns.Class(code).String()
		for _, spelling := range []string{cs, fmt.Sprintf("CLASS%d", code)} {
			txt := fmt.Sprintf("x.example.\t3600\t%s\tA\t192.0.2.1", spelling)
			rr, err := dns.NewRR(txt)
			ok := err == nil && rr != nil && rr.Header().Class == uint16(code)
			c.Pred("class-codes", "class-text:"+spellingKind(spelling), txt, ok, fmt.Sprint(err), fmt.Sprint("class ", code), spelling == cs)
		}
	}
	// type codes inside RDATA: type covered of RRSIG and type bitmaps, for every code (mnemonic as printed)
	for code := 0; code < 65536; code += c.Scale(13, 1) {
		for _, k := range []int{code, 65535 - code} {
			sig := &dns.RRSIG{Hdr: dns.RR_Header{Name: "x.example.", Rrtype: dns.TypeRRSIG, Class: 1, Ttl: 1}, TypeCovered: uint16(k), Algorithm: 8, Labels: 2,
				OrigTtl: 1, Expiration: 1900000000, Inception: 1800000000, KeyTag: 1, SignerName: "example.", Signature: "AAEC"}
			nsec := &dns.NSEC{Hdr: dns.RR_Header{Name: "x.example.", Rrtype: dns.TypeNSEC, Class: 1, Ttl: 1}, NextDomain: "y.example.", TypeBitMap: []uint16{uint16(k)}}
			for _, rr := range []dns.RR{sig, nsec} {
				txt := rr.String()
				rr2, err := dns.NewRR(txt)
				ok := err == nil && rr2 != nil && rr2.String() == txt
				c.Pred("type-in-rdata", fmt.Sprintf("type-in-rdata:%s", dns.Type(rr.Header().Rrtype)), txt, ok, fmt.Sprint(err), "re-read", true)
			}
		}
	}
	// the tokeniser under the text: the lexer model against zlexer.Next, token by token
	lexStream(c, c.Scale(2000, 40000))
	// the TXT-family RDATA parser and printer, and the text algebra over the translated per-type parsers and printers
	txtStream(c, c.Scale(1500, 30000))
	textStream(c, c.Scale(25, 500))
}

func spellingKind(s string) string {
	if strings.HasPrefix(s, "TYPE") || strings.HasPrefix(s, "CLASS") {
		return "numeric"
	}
	return "mnemonic"
}
