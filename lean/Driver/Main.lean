import DnsModel
import Driver.Util
open Dns Driver

/-- `comp.pack <compressMsg 0/1> <startOff> item*` with item = `gap:<n>` (n opaque octets) or
    `n<0/1>:<hexname>` (a name with its per-field compress flag).  Output: total length, then for every
    name its offset and octets. -/
def compPack (compressMsg : Bool) (start : Nat) (items : List String) : String := Id.run do
  let mut off := start
  let mut m : CMap := []
  let mut outs : List String := []
  for it in items do
    if it.startsWith "gap:" then
      match (it.drop 4).toString.toNat? with
      | some n => off := off + n
      | none => return "bad-op"
    else
      let flag := it.startsWith "n1:"
      match unhex (it.drop 3).toString with
      | some s =>
        -- compressMsg = false: the map is invalid (nil), nothing is recorded or compressed
        if compressMsg then
          match packNameC s off m flag with
          | .ok r =>
            outs := outs ++ [s!"{off}:{hex r.out}"]
            off := off + r.out.length
            m := r.map
          | _ => return "err"
        else
          match packName s with
          | .ok w =>
            outs := outs ++ [s!"{off}:{hex w}"]
            off := off + w.length
          | _ => return "err"
      | none => return "bad-op"
  return " ".intercalate (toString off :: outs)

/-- `len.msg <compress 0/1> <startOff> item*`: Len's prediction with the simulated compression set;
    items as for comp.pack.  Output: predicted total. -/
def lenMsg (compress : Bool) (start : Nat) (items : List String) : String := Id.run do
  let mut off := start
  let mut c : Option (List Bytes) := if compress then some [] else none
  for it in items do
    if it.startsWith "gap:" then
      match (it.drop 4).toString.toNat? with
      | some n => off := off + n
      | none => return "bad-op"
    else
      let flag := it.startsWith "n1:"
      match unhex (it.drop 3).toString with
      | some s =>
        let (l, c') := domainNameLen s off c flag
        off := off + l
        c := c'
      | none => return "bad-op"
  return toString off

/-- a record for the Truncate model: its Len items (gap / name) -/
abbrev RecItems := List String

/-- `r.len(l, compression)` from items -/
def itemsLen (c : Option (List Bytes)) (off : Nat) (items : RecItems) : Nat × Option (List Bytes) := Id.run do
  let mut o := off
  let mut c := c
  for it in items do
    if it.startsWith "gap:" then
      o := o + ((it.drop 4).toString.toNat?.getD 0)
    else
      match unhex (it.drop 3).toString with
      | some s =>
        let (l, c') := domainNameLen s o c (it.startsWith "n1:")
        o := o + l
        c := c'
      | none => pure ()
  return (o - off, c)

/-- `trunc <size> <tc> <ulen> <optLen or -> Q* | A* | N* | E*` where each record is `items,items,...` and sections are
    separated by `|`; output: kept counts, TC, compress -/
def truncOp (args : List String) : String :=
  match args with
  | size :: tcFlag :: ulen :: optLen :: rest =>
    match size.toInt?, ulen.toNat? with
    | some size, some ulen =>
      let secs := (" ".intercalate rest).splitOn "|"
      let parse (s : String) : List RecItems :=
        ((s.trimAscii.toString.splitOn " ").filter (· ≠ "")).map fun r => (r.splitOn ",").filter (· ≠ "")
      match secs with
      | [q, a, n, e] =>
        let m : TMsg RecItems := ⟨parse q, parse a, parse n, parse e,
          (if optLen == "-" then none else some []), tcFlag == "1", false⟩
        let lenf := fun (c : Option (List Bytes)) (off : Nat) (r : RecItems) => itemsLen c off r
        let m' := truncate lenf (some []) ulen (optLen.toNat?.getD 0) size m
        s!"{m'.answer.length} {m'.ns.length} {m'.extra.length} {showB m'.truncated} {showB m'.compress}"
      | _ => "bad-op"
    | _, _ => "bad-op"
  | _ => "bad-op"

/-- `Msg.Truncate(size)` on the octets of a reply: decoded by the model, measured by the translated `len()` bodies with
    Len's simulated compression, truncated by the generic machine of DnsModel/Truncate.lean -/
def truncWireOp (size : Int) (msg : Bytes) : String :=
  match MU.unpackMsg msg with
  | none => "hdr-err"
  | some m =>
    if m.err then "err"
    else if (m.extra.getLast?.map (fun r => r.typ == 250)).getD false then "tsig"   -- IsTsig: the last additional record
    else
      -- popEdns0: the last OPT record of the additional section
      let idx := (m.extra.reverse.findIdx? (fun r => r.typ == 41)).map (fun i => m.extra.length - 1 - i)
      let extra' := match idx with | some i => m.extra.eraseIdx i | none => m.extra
      let opt := idx.bind (fun i => m.extra[i]?)
      let lenf := Len.lenItem
      let covered := (m.answer ++ m.ns ++ m.extra).all (fun r => (Len.lenRRC 0 none r).isSome)
      if !covered then "uncovered"
      else
        let tm : TMsg (Sum MU.Qm MU.RRm) := ⟨m.question.map Sum.inl, m.answer.map Sum.inr, m.ns.map Sum.inr, extra'.map Sum.inr,
          opt.map Sum.inr, m.hdr.truncated, false⟩
        let ulen := (Len.lenMsg m false).getD 0
        let optLen := match opt with | some o => ((Len.lenRRC 0 none o).map (·.1)).getD 0 | none => 0
        let m' := truncate lenf (some []) ulen optLen size tm
        s!"{m'.answer.length} {m'.ns.length} {m'.extra.length} {showB m'.truncated} {showB m'.compress}"

/-- reads for the transfer machines: `E` (read error) or `id:rcode:records` with records a string over
    `s<serial>.` / `o.` e.g. `7:0:s5.o.o.s5.` -/
def parseReads (args : List String) : List Read :=
  args.map fun a =>
    if a == "E" then Read.err
    else match a.splitOn ":" with
      | [id, rc, recs] =>
        let rs := (recs.splitOn ".").filterMap fun r =>
          if r.startsWith "s" then some (XRec.soa ((r.drop 1).toString.toNat?.getD 0))
          else if r.startsWith "o" then some (XRec.other 0) else none
        Read.msg (id.toNat?.getD 0) (rc.toNat?.getD 0) rs
      | _ => Read.err

/-- reads for the transfer machines from the octets of the envelopes: `E` (read error) or the message in hex, decoded by
    the model; a record of the answer section is an SOA with its serial (third field of the SOA body) or another record -/
def parseWireReads (args : List String) : List Read :=
  args.map fun a =>
    if a == "E" then Read.err
    else match unhex a with
      | none => Read.err
      | some b => match MU.unpackMsg b with
        | none => Read.err
        | some m =>
          if m.err then Read.err
          else Read.msg m.id m.rcode (m.answer.map fun r =>
            if r.typ == 6 then
              (match r.body with
               | some (_ :: _ :: Val.n serial :: _) => XRec.soa serial
               | _ => XRec.soa 0)
            else XRec.other 0)

def showEnvs (es : List Env) : String :=
  " ".intercalate (es.map fun e => match e with
    | .data r => s!"data{r.length}" | .errId _ => "errId" | .errRcode _ => "errRcode"
    | .errSoa _ => "errSoa" | .errRead => "errRead")

def parseLabels (s : String) : List Bytes :=
  if s == "." then [] else (s.splitOn ",").filterMap unhex

/-- `canon typeCovered alg labels origTtl exp inc keytag signerLabels rec*`, rec = `ownerLabels:typ:cls:rdata` -/
def canonOp (args : List String) : String :=
  match args with
  | tc :: alg :: lab :: ot :: ex :: inc :: kt :: signer :: recs =>
    let n := fun (s : String) => s.toNat?.getD 0
    let sf : SigFields := ⟨n tc, n alg, n lab, n ot, n ex, n inc, n kt, parseLabels signer⟩
    let rs : List CRec := recs.filterMap fun r => match r.splitOn ":" with
      | [o, t, c, rd] => (unhex rd).map fun rd => ⟨parseLabels o, n t, n c, 0, rd⟩
      | _ => none
    hex (signedData sf rs)
  | _ => "bad-op"


def hexList (xs : List Bytes) : String := if xs.isEmpty then "-" else ",".intercalate (xs.map hex)

def describeOpt : Opt.Opt → String
  | .llq v o e i l => s!"LLQ v={v} op={o} err={e} id={i} lease={l}"
  | .ul l k => s!"UL lease={l} keylease={k}"
  | .nsid d => "NSID " ++ hex d
  | .esu d => "ESU " ++ hex d
  | .dau d => "DAU " ++ hex d
  | .dhu d => "DHU " ++ hex d
  | .n3u d => "N3U " ++ hex d
  | .subnet f m sc a => s!"SUBNET fam={f} src={m} scope={sc} addr=" ++ hex a
  | .expire none => "EXPIRE empty"
  | .expire (some v) => s!"EXPIRE {v}"
  | .cookie d => "COOKIE " ++ hex d
  | .keepalive t => s!"KEEPALIVE {t}"
  | .padding d => "PADDING " ++ hex d
  | .ede c t => s!"EDE code={c} text=" ++ hex t
  | .reporting a => "REPORTING " ++ hex a
  | .zoneversion l t v => s!"ZONEVERSION labels={l} type={t} version=" ++ hex v
  | .local c d => s!"LOCAL code={c} data=" ++ hex d

def describeParam : Opt.Param → String
  | .mandatory cs => "mandatory " ++ (if cs.isEmpty then "-" else ",".intercalate (cs.map toString))
  | .alpn ids => "alpn " ++ hexList ids
  | .noDefaultAlpn => "no-default-alpn"
  | .port p => s!"port {p}"
  | .ipv4hint ips => "hint4 " ++ hexList ips
  | .ech d => "ech " ++ hex d
  | .ipv6hint ips => "hint16 " ++ hexList ips
  | .dohpath t => "dohpath " ++ hex t
  | .ohttp => "ohttp"
  | .local k d => s!"key{k} " ++ hex d

/-- `opt.describe` / `opt.repack`: the options of an OPT RDATA decoded by the model, and packed again -/
def optOp (repack : Bool) (rd : Bytes) : String :=
  match Opt.unpackOpts rd with
  | none => "none"
  | some opts =>
    if repack then (match Opt.packOpts opts with | some w => hex w | none => "none")
    else if opts.isEmpty then "-" else " | ".intercalate (opts.map describeOpt)

/-- `svc.describe` / `svc.repack`: the parameters of an SVCB / HTTPS RDATA (after priority and target) -/
def svcOp (repack : Bool) (rd : Bytes) : String :=
  match Opt.unpackParams rd with
  | none => "none"
  | some ps =>
    if repack then (match Opt.packParams ps with | some w => hex w | none => "none")
    else if ps.isEmpty then "-" else " | ".intercalate (ps.map describeParam)


def parseTVal (tok : String) : Option TextCodec.TVal :=
  match tok.splitOn ":" with
  | ["n", v] => v.toNat?.map TextCodec.TVal.n
  | ["s", h] => (unhex h).map TextCodec.TVal.s
  | ["l", h] =>
    if h == "-" then some (.ss [])
    else (h.splitOn ",").mapM (fun (x : String) => if x == "~" then some [] else unhex x) |>.map TextCodec.TVal.ss
  | ["t", h] =>
    if h == "-" then some (.nl [])
    else (h.splitOn ",").mapM (fun (x : String) => x.toNat?) |>.map TextCodec.TVal.nl
  | _ => none

def showTVal : TextCodec.TVal → String
  | .n v => s!"n:{v}"
  | .s t => "s:" ++ hex t
  | .ss [] => "l:-"
  | .ss strs => "l:" ++ ",".intercalate (strs.map (fun x => if x.isEmpty then "~" else hex x))
  | .nl [] => "t:-"
  | .nl ks => "t:" ++ ",".intercalate (ks.map toString)

/-- `text.print <Type> vals…`: the RDATA text the translated `String()` prints -/
def textPrint (typ : String) (args : List String) : String :=
  match Gen.printTextPlans.lookup typ, args.mapM parseTVal with
  | some plan, some vals =>
    if plan.contains .other then "uncovered"
    else match TextCodec.printPlan plan vals with
      | some w => hex w
      | none => "none"
  | _, _ => "bad-op"

/-- `text.parse <Type> <origin> <line>`: the field values the translated `parse` stores for the first entry of the line -/
def textParse (typ : String) (origin line : Bytes) : String :=
  match Gen.parseTextPlans.lookup typ with
  | some plan =>
    if plan.contains .other then "uncovered"
    else match TextCodec.parsePlan origin plan (TxtParse.rdataTokens ((Lex.lexAll line).map (·.1))) [] with
      | some vals => if vals.isEmpty then "-" else " ".intercalate (vals.map showTVal)
      | none => "none"
  | none => "bad-op"

/-- `zone.denote <originhex> <defttl|-> line*` with line = `rr:<ownerhex|->:<ttl|->:<cls|->:<0|1>:<typ>` |
    `ttl:<v>` | `origin:<hex>` | `empty`.  Both the token machine and the specification are run. -/
def zoneOp (spec : Bool) (args : List String) : String :=
  match args with
  | origin :: dttl :: lines =>
    let n? := fun (s : String) => if s == "-" then none else s.toNat?
    let ls : List ZLine := lines.filterMap fun l => match l.splitOn ":" with
      | ["rr", o, t, c, tf, ty] => some (ZLine.rr (if o == "-" then none else unhex o) (n? t) (n? c) (tf == "1") (ty.toNat?.getD 0))
      | ["ttl", v] => some (ZLine.ttlDir (v.toNat?.getD 0))
      | ["origin", h] => (unhex h).map ZLine.originDir
      | ["empty"] => some ZLine.empty
      | _ => none
    let org := (unhex origin).getD []
    let d := (n? dttl).map fun v => (v, false)
    let showRs := fun (rs : List ZHdr) => " ".intercalate (rs.map fun r => s!"{hex r.name}:{r.ttl}:{r.cls}:{r.typ}")
    if spec then
      match denote ls ⟨org, [], 0, d⟩ [] with
      | some rs => ("ok " ++ showRs rs).trimAscii.toString
      | none => "err"
    else
      let (rs, e) := zrun (ls.flatMap tokensOf) .ownerDir ⟨org, ⟨[], 0, 1, 0⟩, d⟩ []
      ((if e then "err " else "ok ") ++ showRs rs).trimAscii.toString
  | _ => "bad-op"

/-- field values on the line: `n:<dec>`, `b:<hex>`, `t:<hex>` (name text), `s:<hex>,<hex>,…` (`~` = empty string, `-` = no octets / no strings),
    `m:<hex>,…` (name texts), `k:<code>=<hex|~>,…` (options / parameters), `p:<prefix>/<0|1>/<hex>,…` (APL items), `y:<n>,…` (types) -/
def parseVal (tok : String) : Option Val :=
  match tok.splitOn ":" with
  | ["n", v] => v.toNat?.map Val.n
  | ["b", h] => if h == "-" then some (.b []) else (unhex h).map Val.b
  | ["t", h] => if h == "-" then some (.t []) else (unhex h).map Val.t
  | ["s", h] =>
    if h == "-" then some (.ss [])
    else (h.splitOn ",").mapM (fun x => if x == "~" then some [] else unhex x) |>.map Val.ss
  | ["m", h] =>
    if h == "-" then some (.ns [])
    else (h.splitOn ",").mapM (fun x => unhex x) |>.map Val.ns
  | ["k", h] =>
    if h == "-" then some (.kv [])
    else (h.splitOn ",").mapM (fun (x : String) => match x.splitOn "=" with
      | [c, d] => (c.toNat?).bind (fun cn => (if d == "~" then some [] else unhex d).map (fun db => (cn, db)))
      | _ => none) |>.map Val.kv
  | ["p", h] =>
    if h == "-" then some (.ap [])
    else (h.splitOn ",").mapM (fun (x : String) => match x.splitOn "/" with
      | [pl, ng, ip] => (pl.toNat?).bind (fun pn => (unhex ip).map (fun ib => (pn, ng == "1", ib)))
      | _ => none) |>.map Val.ap
  | ["y", h] =>
    if h == "-" then some (.ts [])
    else (h.splitOn ",").mapM (fun (x : String) => x.toNat?) |>.map Val.ts
  | _ => none

def showVal : Val → String
  | .n v => s!"n:{v}"
  | .b [] => "b:-"
  | .b bs => "b:" ++ hex bs
  | .t [] => "t:-"
  | .t bs => "t:" ++ hex bs
  | .ss [] => "s:-"
  | .ss strs => "s:" ++ ",".intercalate (strs.map (fun x => if x.isEmpty then "~" else hex x))
  | .ns [] => "m:-"
  | .ns names => "m:" ++ ",".intercalate (names.map hex)
  | .kv [] => "k:-"
  | .kv items => "k:" ++ ",".intercalate (items.map (fun x => s!"{x.1}=" ++ (if x.2.isEmpty then "~" else hex x.2)))
  | .ap [] => "p:-"
  | .ap items => "p:" ++ ",".intercalate (items.map (fun x => s!"{x.1}/" ++ (if x.2.1 then "1" else "0") ++ "/" ++ hex x.2.2))
  | .ts [] => "y:-"
  | .ts types => "y:" ++ ",".intercalate (types.map toString)

def codecPack (typ : String) (args : List String) : String :=
  match Gen.packCodecs.lookup typ, args.mapM parseVal with
  | some plan, some vals =>
    if plan.contains .other then "uncovered"
    else match packPlan plan vals with
      | some w => if w.isEmpty then "-" else hex w
      | none => "none"
  | _, _ => "bad-op"

def codecUnpack (typ : String) (rd : String) : String :=
  match Gen.unpackCodecs.lookup typ, (if rd == "-" then some [] else unhex rd) with
  | some plan, some bytes =>
    if plan.contains .other then "uncovered"
    else match unpackPlan plan bytes [] with
      | some vals => " ".intercalate (vals.map showVal)
      | none => "none"
  | _, _ => "bad-op"

def parseFVal (tok : String) : Option (String × Len.FVal) :=
  match tok.splitOn "=" with
  | [f, v] =>
    (match v.splitOn ":" with
     | ["n", x] => x.toNat?.map (fun k => (f, Len.FVal.n k))
     | ["s", h] => (if h == "-" then some [] else unhex h).map (fun b => (f, Len.FVal.s b))
     | ["ip", h] => (if h == "-" then some [] else unhex h).map (fun b => (f, Len.FVal.ip b))
     | ["l", h] =>
       (if h == "-" then some [] else (h.splitOn ",").mapM (fun (x : String) => if x == "~" then some [] else unhex x)).map
         (fun l => (f, Len.FVal.ss l))
     | ["y", h] =>
       (if h == "-" then some [] else (h.splitOn ",").mapM (fun (x : String) => x.toNat?)).map (fun l => (f, Len.FVal.ts l))
     | _ => none)
  | _ => none

def lenRROp (typ owner : String) (toks : List String) : String :=
  match (if owner == "-" then some [] else unhex owner), toks.mapM parseFVal with
  | some o, some fs =>
    (match Len.planOf typ with
     | none => "no-plan"
     | some _ => match Len.lenRR typ o fs with
       | some n => toString n
       | none => "uncovered")
  | _, _ => "bad-op"

def showRRm (r : MU.RRm) : String :=
  let nm := if r.name.isEmpty then "-" else hex r.name
  let body := match r.body with
    | none => "~"
    | some _ => match MU.repackRR r with
      | some w => hex w
      | none => "E"
  s!"{nm}/{r.typ}/{r.cls}/{r.ttl}/{r.rdlen}/{body}"

def showMsgM (m : MU.MsgM) : String :=
  let b (x : Bool) := if x then "1" else "0"
  let h := m.hdr
  let flags := b h.response ++ b h.authoritative ++ b h.truncated ++ b h.recursionDesired ++ b h.recursionAvailable ++
    b h.zero ++ b h.authenticatedData ++ b h.checkingDisabled
  let qs := m.question.map (fun q => (if q.name.isEmpty then "-" else hex q.name) ++ s!"/{q.typ}/{q.cls}")
  let sec (tag : String) (l : List MU.RRm) := s!"{tag}:{l.length}" :: l.map showRRm
  " ".intercalate ([if m.err then "err" else "ok", s!"{m.id}", s!"{h.opcode}", s!"{m.rcode}", flags, s!"q:{qs.length}"] ++ qs ++
    sec "an" m.answer ++ sec "ns" m.ns ++ sec "ex" m.extra)

/-- one operation: op name and arguments → one canonical output line -/
def runOp (op : String) (args : List String) : String :=
  match op, args with
  | "name.unpack", [m, off] =>
    match unhex m, off.toNat? with
    | some msg, some o =>
      match unpackName msg o with
      | .ok (s, o1) => s!"ok {hex s} {o1}"
      | .err => "err"
      | .panic => "panic"
    | _, _ => "bad-op"
  | "name.pack", [t] =>
    match unhex t with
    | some s => match packName s with
      | .ok w => s!"ok {hex w}"
      | .err => "err"
      | .panic => "panic"
    | _ => "bad-op"
  | "name.isdomain", [t] =>
    match unhex t with
    | some s => let (n, ok) := isDomainName s; if ok then s!"1 {n}" else "0"
    | _ => "bad-op"
  | "name.isfqdn", [t] =>
    match unhex t with
    | some s => showB (isFqdn s)
    | _ => "bad-op"
  | "name.labels", [t] =>        -- spec: labels denoted by the text
    match unhex t with
    | some s => match labelsOfText s with
      | some ls => "ok " ++ (if ls.isEmpty then "-" else ",".intercalate (ls.map hex))
      | none => "none"
    | _ => "bad-op"
  | "spec.pack", [t] =>
    match unhex t with
    | some s => match specPack s with
      | .ok w => s!"ok {hex w}"
      | _ => "err"
    | _ => "bad-op"
  | "spec.valid", [t] =>
    match unhex t with
    | some s => showB (specValid s)
    | _ => "bad-op"
  | "spec.present", [t] =>       -- t: wire form (labels); output: canonical presentation form
    match unhex t with
    | some w => match unpackName w 0 with
      | .ok (s, _) => hex s
      | _ => "err"
    | _ => "bad-op"
  | "hdr.unpack", [w] => match w.toNat? with
    | some w =>
      let h := unpackBits (BitVec.ofNat 16 w)
      " ".intercalate [showB h.response, toString h.opcode, showB h.authoritative, showB h.truncated,
        showB h.recursionDesired, showB h.recursionAvailable, showB h.zero, showB h.authenticatedData,
        showB h.checkingDisabled, toString h.rcode]
    | _ => "bad-op"
  | "hdr.pack", [qr, op, aa, tc, rd, ra, z, ad, cd, rc] =>
    match op.toNat?, rc.toNat? with
    | some op, some rc =>
      let h : MsgHdr := ⟨qr == "1", op, aa == "1", tc == "1", rd == "1", ra == "1", z == "1", ad == "1", cd == "1", rc⟩
      toString (packBits h).toNat
    | _, _ => "bad-op"
  | "rcode.split", [rc, opt] => match rc.toNat? with
    | some rc => match splitRcode rc (opt == "1") with
      | some (n, some t) => s!"ok {n} {t}"
      | some (n, none) => s!"ok {n} -"
      | none => "err"
    | _ => "bad-op"
  | "rcode.join", [n, t] => match n.toNat? with
    | some n => toString (joinRcode n (if t == "-" then none else t.toNat?))
    | _ => "bad-op"
  | "comp.pack", cm :: st :: items => match st.toNat? with
    | some st => compPack (cm == "1") st items
    | none => "bad-op"
  | "len.msg", cm :: st :: items => match st.toNat? with
    | some st => lenMsg (cm == "1") st items
    | none => "bad-op"
  | "trunc", args => truncOp args
  | "truncate.wire", [size, m] => (match size.toInt?, unhex m with
    | some sz, some msg => truncWireOp sz msg
    | _, _ => "bad-op")
  | "norm", [t] => match unhex t with
    | some s => hex (normalizedString s) | _ => "bad-op"
  | "dedup", recs =>
    let rs : List Rec := recs.filterMap fun r => match r.splitOn ":" with
      | [k, t] => match k.toNat?, t.toNat? with
        | some k, some t => some (k, t)
        | _, _ => none
      | _ => none
    " ".intercalate ((dedup rs).map fun r => s!"{r.1}:{r.2}")
  | "spec.dedup", recs =>
    let rs : List Rec := recs.filterMap fun r => match r.splitOn ":" with
      | [k, t] => match k.toNat?, t.toNat? with
        | some k, some t => some (k, t)
        | _, _ => none
      | _ => none
    " ".intercalate ((dedupSpec rs).map fun r => s!"{r.1}:{r.2}")
  | "ds.input", [o, rd] => (match unhex o, unhex rd with
      | some o, some rd => (match dsInput o rd with | some b => hex b | none => "err")
      | _, _ => "bad-op")
  | "nsec3.input", [n, salt] => (match unhex n, unhex salt with
      | some n, some salt => (match nsec3Input n salt with | some b => hex b | none => "err")
      | _, _ => "bad-op")
  | "keytag", [t] => match unhex t with
    | some b => toString (keyTag b) | _ => "bad-op"
  | "spec.keytag", [t] => match unhex t with
    | some b => toString (rfcKeyTag b) | _ => "bad-op"
  | "nsec3.cover", [z, o, n, x] => match o.toNat?, n.toNat?, x.toNat? with
    | some o, some n, some x => showB (nsec3Cover (z == "1") o n x) | _, _, _ => "bad-op"
  | "spec.cover", [z, o, n, x] => match o.toNat?, n.toNat?, x.toNat? with
    | some o, some n, some x => showB (z == "1" && decide (strictlyBetweenCircular o n x)) | _, _, _ => "bad-op"
  | "nsec3.match", [z, o, x] => match o.toNat?, x.toNat? with
    | some o, some x => showB (nsec3Match (z == "1") o x) | _, _ => "bad-op"
  | "valid", [i, e, t] => match i.toInt?, e.toInt?, t.toInt? with
    | some i, some e, some t => showB (validityPeriod i e t) | _, _, _ => "bad-op"
  | "spec.valid-period", [i, e, t] => match i.toInt?, e.toInt?, t.toInt? with
    | some i, some e, some t => showB (decide (i ≤ t) && decide (t ≤ e)) | _, _, _ => "bad-op"
  | "accept", [b, qd, an, ns, ar] => match b.toNat?, qd.toNat?, an.toNat?, ns.toNat?, ar.toNat? with
    | some b, some qd, some an, some ns, some ar =>
      (match defaultAccept (BitVec.ofNat 16 b) qd an ns ar with
        | .accept => "accept" | .reject => "reject" | .ignore => "ignore" | .rejectNotImpl => "notimp")
    | _, _, _, _, _ => "bad-op"
  | "serve", [hdrOk, b, qd, an, ns, ar, decodeOk] =>
    match b.toNat?, qd.toNat?, an.toNat?, ns.toNat?, ar.toNat? with
    | some b, some qd, some an, some ns, some ar =>
      let bits := BitVec.ofNat 16 b
      (match serveDecision (hdrOk == "1") (defaultAccept bits qd an ns ar) (unpackBits bits) (decodeOk == "1") with
        | .invalidOnly => "invalid"
        | .handler => "handler"
        | .ignored => "ignored"
        | .reply h i => s!"reply {(packBits h).toNat} {showB i}")
    | _, _, _, _, _ => "bad-op"
  | "serve.packet", [pk] =>
    -- the admission decision closed over the decoder model: no flag supplied from outside
    match (if pk == "-" then some [] else unhex pk) with
    | some p =>
      if p.length < 12 then "invalid"
      else
        let w (i : Nat) := beVal ((p.drop (2 * i)).take 2)
        let bits := BitVec.ofNat 16 (w 1)
        let decodeOk := match MU.unpackMsg p with | some m => !m.err | none => false
        (match serveDecision true (defaultAccept bits (w 2) (w 3) (w 4) (w 5)) (unpackBits bits) decodeOk with
          | .invalidOnly => "invalid"
          | .handler => "handler"
          | .ignored => "ignored"
          | .reply h i => s!"reply {(packBits h).toNat} {showB i}")
    | none => "bad-op"
  | "mux", ds :: q :: pats =>
    match unhex q with
    | some q => (match muxMatch (pats.filterMap unhex) q (ds == "1") with
        | some p => hex p | none => "none")
    | none => "bad-op"
  | "axfr", qid :: reads =>
    let (d, n) := inAxfr (qid.toNat?.getD 0) (parseReads reads) true
    s!"{n} {showEnvs d}"
  | "axfr.wire", qid :: reads =>
    let (d, n) := inAxfr (qid.toNat?.getD 0) (parseWireReads reads) true
    s!"{n} {showEnvs d}"
  | "ixfr.wire", qid :: qser :: reads =>
    let (d, n) := inIxfr (qid.toNat?.getD 0) (qser.toNat?.getD 0) (parseWireReads reads) 0 0 true
    s!"{n} {showEnvs d}"
  | "ixfr", qid :: qser :: reads =>
    let (d, n) := inIxfr (qid.toNat?.getD 0) (qser.toNat?.getD 0) (parseReads reads) 0 0 true
    s!"{n} {showEnvs d}"
  | "tsig.digest", [msg, oid, key, ttl, alg, ts, fudge, err, other, mac, timers] =>
    match unhex msg, unhex key, unhex alg, unhex other, unhex mac with
    | some msg, some key, some alg, some other, some mac =>
      let v : TsigVars := ⟨key, ttl.toNat?.getD 0, alg, ts.toNat?.getD 0, fudge.toNat?.getD 0, err.toNat?.getD 0, other.length, other⟩
      hex (tsigDigest msg (oid.toNat?.getD 0) v mac (timers == "1"))
    | _, _, _, _, _ => "bad-op"
  | "tsig.time", [now, ts, fudge] => match now.toNat?, ts.toNat?, fudge.toNat? with
    | some now, some ts, some fudge => showB (tsigTimeOk now ts fudge) | _, _, _ => "bad-op"
  | "canon", args => canonOp args
  | "sign.labels", [o] => toString (signLabels (parseLabels o))
  | "sig0.walk", [b] => match unhex b with
    | some buf =>
      if buf.length < 12 then "short" else
      (match sigWalk buf with
        | .ok w => s!"ok {w.bodyend} {w.sigstart} {w.sigend} {w.expire} {w.incept} {hex w.signer} {hex (sigHashInput buf w)}"
        | .err => "err"
        | .panic => "panic")
    | none => "bad-op"
  | "sig0.sign", [mb, alg, exp, inc, tag, signer, sg] =>
    (match unhex mb, unhex signer, unhex sg with
      | some mbuf, some signer, some sg =>
        let f : MU.SigFields := ⟨alg.toNat?.getD 0, exp.toNat?.getD 0, inc.toNat?.getD 0, tag.toNat?.getD 0, signer⟩
        (match MU.sigSignBuf mbuf f sg, MU.sigSignInput mbuf f with
          | some out, some inp => s!"{hex out} {hex inp}"
          | _, _ => "none")
      | _, _, _ => "bad-op")
  | "sig0.verify", [b, key, now] =>
    (match unhex b, unhex key with
      | some buf, some key =>
        if buf.length < 12 then "short" else
        (match sigWalk buf with
          | .ok w =>
            let v := MU.sigVerify buf key (now.toNat?.getD 0) (fun _ _ => true)
            let vs := match v with | .accepted => "crypto" | .refused => "refused" | .panicked => "panic"
            s!"{vs} {w.incept} {w.expire} {hex (sigHashInput buf w)} {hex (buf.drop w.sigend)}"
          | .err => "refused-walk"
          | .panic => "panic")
      | _, _ => "bad-op")
  | "tsig.generate", [mb, oid, tw] =>
    (match unhex mb, unhex tw with
      | some mbuf, some tw => hex (MU.tsigGenerateBuf mbuf (oid.toNat?.getD 0) tw)
      | _, _ => "bad-op")
  | "tsig.verify", [b, mac, timers, now] =>
    (match unhex b, unhex mac with
      | some msg, some mac =>
        (match MU.stripTsig msg with
          | .err => "striperr"
          | .ok s =>
            if s.found then
              let v := MU.tsigVarsOf s 0
              let verdict := MU.tsigVerifyM msg mac (timers == "1") (now.toNat?.getD 0) 0 (fun _ _ _ => true)
              let vs := match verdict with | .accepted => "accepted" | .badTime => "badtime" | .badMac => "badmac" | .stripError => "striperr"
              if vs == "striperr" then "striperr" else
              s!"1 {hex (MU.stripDigest s mac (timers == "1") 0)} {hex (MU.fieldB s.body 0)} {hex (MU.fieldB s.body 4)} {MU.fieldN s.body 1} {v.fudge} {vs}"
            else if mac.length == 1 then "striperr" else s!"0 {hex (tsigMsgPart s.msg 0)}")
      | _, _ => "bad-op")
  | "sig0.class", [b] => match unhex b with
    | some buf => if buf.length < 12 then "short" else (match sigWalk buf with | .panic => "panic" | _ => "nopanic")
    | none => "bad-op"
  | "deframe", chunks =>
    let cs := chunks.filterMap unhex
    let (ms, e) := readMsgs (cs.flatten.length + 1) cs
    -- a frame too short for a header is consumed and reported as a short read; the stream goes on behind it
    " ".intercalate ((ms.map (fun m => if m.length < Gen.headerSize then "short" else hex m)) ++ [match e with | .eof => "eof" | .unexpected => "unexpected"])
  | "xchg.dgram", qid :: replies =>
    let rs := replies.map fun r => if r == "E" then Reply.err else Reply.msg (r.toNat?.getD 0)
    (match exchangeDatagram (qid.toNat?.getD 0) rs with
      | some (Reply.msg id) => s!"ok {id}" | some Reply.err => "err" | none => "err")
  | "xchg.stream", qid :: replies =>
    let rs := replies.map fun r => if r == "E" then Reply.err else Reply.msg (r.toNat?.getD 0)
    (match exchangeStream (qid.toNat?.getD 0) rs with
      | .ok id => s!"ok {id}" | .errId => "errId" | .err => "err")
  | "gen.stream", [a, b, st, t] => match a.toInt?, b.toInt?, st.toInt?, unhex t with
    | some a, some b, some st, some t => (match generateStream a b st t with | some o => "ok " ++ hex o | none => "err")
    | _, _, _, _ => "bad-op"
  | "ttl", [t] => match unhex t with
    | some t => (match stringToTTL t with | some v => s!"ok {v}" | none => "err") | none => "bad-op"
  | "spec.ttl", [t] => match unhex t with
    | some t => (match ttlSpec t with | some v => s!"ok {v}" | none => "err") | none => "bad-op"
  | "zone.run", args => zoneOp false args
  | "spec.zone", args => zoneOp true args
  | "codec.pack", typ :: vals => codecPack typ vals
  | "generic.print", [rd] => (match (if rd == "-" then some [] else unhex rd) with
      | some b => hex (Generic.printGeneric (Generic.hexOf b))
      | none => "bad-op")
  | "generic.parse", [typ, line] => (match unhex line with
      | some l =>
        (match Generic.parseGeneric (TxtParse.rdataTokens ((Lex.lexAll l).map (·.1))) with
          | none => "none"
          | some h =>
            (match Generic.fromGeneric typ h with
              | some (some vals) => (" ".intercalate (vals.map showVal)).trimAscii.toString
              | some none => "no-rdata"
              | none => "none"))
      | none => "bad-op")
  | "type.print", [n] => hex (TextCodec.printType (n.toNat?.getD 0))
  | "class.print", [n] => hex (TextCodec.printClass (n.toNat?.getD 0))
  | "codec.unpack", [typ, rd] => codecUnpack typ rd
  | "len.rr", typ :: owner :: toks => lenRROp typ owner toks
  | "msg.len", [m] =>
    match unhex m with
    | some msg => (match MU.unpackMsg msg with
      | some r =>
        if r.err then "err"
        else (match Len.lenMsg r false, Len.lenMsg r true with
          | some a, some b => s!"{a} {b}"
          | _, _ => "uncovered")
      | none => "hdr-err")
    | none => "bad-op"
  | "msg.packc", [m] =>
    match unhex m with
    | some msg => (match MU.unpackMsg msg with
      | some r => if r.err then "err" else (match MU.packMsgCOf r with | some w => hex w | none => "E")
      | none => "hdr-err")
    | none => "bad-op"
  | "msg.repack", [m] =>
    match unhex m with
    | some msg => (match MU.unpackMsg msg with
      | some r => if r.err then "err" else (match MU.packMsgPlain r with | some w => hex w | none => "E")
      | none => "hdr-err")
    | none => "bad-op"
  | "msg.unpack", [m] =>
    match unhex m with
    | some msg => (match MU.unpackMsg msg with | some r => showMsgM r | none => "hdr-err")
    | none => "bad-op"
  | "zone.text", [origin, dttl, t] =>
    match unhex origin, unhex t with
    | some org, some text =>
      let d := if dttl == "-" then none else dttl.toNat?
      let (rs, e) := ZoneText.readZone org d text
      ((if e then "err " else "ok ") ++ " ".intercalate (rs.map fun r => s!"{hex r.name}:{r.ttl}:{r.cls}:{r.typ}")).trimAscii.toString
    | _, _ => "bad-op"
  | "zone.include", allowed :: origin :: dttl :: t :: files =>
    (match unhex origin, unhex t with
    | some org, some text =>
      let tbl : List (Bytes × Bytes) := files.filterMap fun f => match f.splitOn "=" with
        | [n, c] => (match unhex n, unhex c with | some a, some b => some (a, b) | _, _ => none)
        | _ => none
      let fs := fun (p : Bytes) => (tbl.find? (fun x => x.1 == p)).map (·.2)
      let d := if dttl == "-" then none else dttl.toNat?
      let r := Inc.readZoneI fs (allowed == "1") org d text
      let hs := ((if r.err then "err " else "ok ") ++ " ".intercalate (r.hdrs.map fun r => s!"{hex r.name}:{r.ttl}:{r.cls}:{r.typ}")).trimAscii.toString
      (hs ++ " | " ++ " ".intercalate (r.opens.map fun o => hex o.2)).trimAscii.toString
    | _, _ => "bad-op")
  | "opt.describe", [t] => (match unhex t with | some b => optOp false b | none => "bad-op")
  | "opt.repack", [t] => (match unhex t with | some b => optOp true b | none => "bad-op")
  | "svc.describe", [t] => (match unhex t with | some b => svcOp false b | none => "bad-op")
  | "svc.repack", [t] => (match unhex t with | some b => svcOp true b | none => "bad-op")
  | "text.print", typ :: vals => textPrint typ vals
  | "text.parse", [typ, o, l] => (match unhex o, unhex l with
    | some ob, some lb => textParse typ ob lb
    | _, _ => "bad-op")
  | "txt.parse", [t] => (match unhex t with
    | some b => (match TxtParse.parseTxtLine b with
      | some ss => ("ok " ++ hexList ss).trimAscii.toString
      | none => "err")
    | none => "bad-op")
  | "txt.sprint", ss => (match ss.mapM (fun (x : String) => if x == "~" then some [] else unhex x) with
    | some l => hex (TxtParse.sprintTxt l)
    | none => "bad-op")
  | "lex", [t] => match unhex t with
    | some b =>
      let toks := Lex.lexAll b
      if toks.isEmpty then "-" else
      " ".intercalate (toks.map (fun (tk, c) =>
        s!"{tk.value},{hex tk.token},{tk.torc},{if tk.err then 1 else 0},{tk.line},{tk.column},{hex c}"))
    | none => "bad-op"
  | "txt.escape", [t] => match unhex t with
    | some b => hex (txtEscape b) | none => "bad-op"
  | "txt.unescape", [t] => match unhex t with
    | some b => hex (txtUnescape b) | none => "bad-op"
  | "lab.count", [t] => match unhex t with
    | some s => toString (countLabel s) | _ => "bad-op"
  | "lab.split", [t] => match unhex t with
    | some s => showNats (split s) | _ => "bad-op"
  | "lab.splitdn", [t] => match unhex t with
    | some s => let l := splitDomainName s; if l.isEmpty then "nil" else ",".intercalate (l.map hex)
    | _ => "bad-op"
  | "lab.next", [t, o] => match unhex t, o.toNat? with
    | some s, some o => let (i, e) := nextLabel s o; s!"{i} {showB e}" | _, _ => "bad-op"
  | "lab.prev", [t, n] => match unhex t, n.toNat? with
    | some s, some n => let (i, e) := prevLabel s n; s!"{i} {showB e}" | _, _ => "bad-op"
  | "lab.compare", [a, b] => match unhex a, unhex b with
    | some a, some b => toString (compareDomainName a b) | _, _ => "bad-op"
  | "lab.issub", [a, b] => match unhex a, unhex b with
    | some a, some b => showB (isSubDomain a b) | _, _ => "bad-op"
  | "lab.fqdn", [t] => match unhex t with
    | some s => hex (fqdn s) | _ => "bad-op"
  | "lab.canon", [t] => match unhex t with
    | some s => hex (canonicalName s) | _ => "bad-op"
  | "lab.addorigin", [a, b] => match unhex a, unhex b with
    | some a, some b => hex (addOrigin a b) | _, _ => "bad-op"
  | "lab.trim", [a, b] => match unhex a, unhex b with
    | some a, some b => (match trimDomainName a b with | some r => hex r | none => "panic") | _, _ => "bad-op"
  | _, _ => "bad-op"

partial def loop (h : IO.FS.Stream) (out : IO.FS.Stream) : IO Unit := do
  let line ← h.getLine
  if line.isEmpty then return ()
  let ws := (line.trimAscii.toString.splitOn " ").filter (· ≠ "")
  match ws with
  | [] => out.putStrLn "bad-op"
  | op :: args => out.putStrLn (runOp op args)
  loop h out

def main : IO Unit := do
  let out ← IO.getStdout
  loop (← IO.getStdin) out
  out.flush
