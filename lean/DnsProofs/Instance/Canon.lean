/-
  C10 — which RDATA fields are put into lower case before an RRset is signed or verified: the type switch of
  `rawSignatureData` (dnssec.go), re-read on every run (Generated/CanonPlans.lean), against RFC 4034 section 6.2 (3) as
  amended by RFC 6840 section 5.1: every domain name in the RDATA of the listed types, and nothing else.
-/
import DnsModel.Generated.CanonPlans
import DnsModel.Generated.Layouts
namespace Dns.Instance
open Dns

/-- RFC 4034 6.2 (3): NS, MD, MF, CNAME, SOA, MB, MG, MR, PTR, HINFO, MINFO, MX, HINFO, RP, AFSDB, RT, SIG, PX, NXT, NAPTR, KX,
    SRV, DNAME, A6, RRSIG, NSEC.  RFC 6840 5.1 takes HINFO (no names) and NSEC out.  A6 is not implemented by the library;
    RRSIG records are not themselves signed as an RRset (their signer name is lower-cased where the RRSIG RDATA enters the
    signed octets: `canon_owner_case` / the captured-octets correspondence). -/
def rfc4034Types : List String :=
  ["NS", "MD", "MF", "CNAME", "SOA", "MB", "MG", "MR", "PTR", "MINFO", "MX", "RP", "AFSDB", "RT", "SIG", "PX", "NXT", "NAPTR", "KX",
    "SRV", "DNAME"]

/-- the domain-name fields of a type, from its generated pack body -/
def nameFields (t : String) : List String :=
  match Gen.packPlans.lookup t with
  | some steps => (steps.filter (fun s => s.1 == "packDomainName")).map (fun s => s.2.1)
  | none => []

def rfcLower : List (String × String) := rfc4034Types.flatMap (fun t => (nameFields t).map (fun f => (t, f)))

/-- **canonical form, RDATA names**: the library lower-cases exactly the domain names inside the RDATA of the types
    RFC 4034 6.2 / RFC 6840 5.1 list -/
theorem canon_lower_eq_rfc :
    (rfcLower.all (fun x => Gen.canonLower.contains x) && Gen.canonLower.all (fun x => rfcLower.contains x)) = true := by
  decide

/-- every listed type is one the library implements, with at least one name in its RDATA -/
theorem rfc_types_have_names : rfc4034Types.all (fun t => !(nameFields t).isEmpty) = true := by decide

end Dns.Instance
