package main

// Translation of the hand-written RDATA parsers (scan_rr.go `func (rr *T) parse`) and printers (types.go
// `func (rr *T) String`) into step lists of the text algebra (DnsModel/TextCodec.lean), for the types whose
// parser and printer use only the idioms below.  Anything else makes the type "other" (not covered), never a guess.

import (
	"fmt"
	"go/ast"
	"go/token"
	"os"
	"regexp"
	"sort"
	"strconv"
	"strings"
)

// the bodies of (*HINFO).parse / (*ISDN).parse and of (*UINFO).parse as src() prints them (white space removed), with the
// type name in the error text and the field names left open; any other change makes the type "other"
var pairBodyRe = regexp.MustCompile(`^\{chunks,e:=endingToTxtSlice\(c,"bad([A-Z0-9]+)Fields"\)ife!=nil\{returne\}ifln:=len\(chunks\);ln==0\{returnnil\}elseifln==1\{ifout:=strings\.Fields\(chunks\[0\]\);len\(out\)>1\{chunks=out\}else\{chunks=append\(chunks,""\)\}\}rr\.([A-Za-z]+)=chunks\[0\]rr\.([A-Za-z]+)=strings\.Join\(chunks\[1:\],""\)returnnil\}$`)
var nodeStringRe = regexp.MustCompile(`^\{s:=rr\.Hdr\.String\(\)\+strconv\.Itoa\(int\(rr\.([A-Za-z0-9]+)\)\)node:=fmt\.Sprintf\("%0\.16([xX])",rr\.([A-Za-z0-9]+)\)s\+=""\+node\[0:4\]\+":"\+node\[4:8\]\+":"\+node\[8:12\]\+":"\+node\[12:16\]returns\}$`)

var parseErrRe = regexp.MustCompile(`&ParseError\{err:"[^"]*",lex:l\}`)

// euiBody: (*EUI48).parse (6 groups) / (*EUI64).parse (8 groups) as src() prints it, error texts replaced
func euiBody(g int) string {
	n := 2 * g
	return strings.Join(strings.Fields(fmt.Sprintf(`{l, _ := c.Next()
	if len(l.token) != %d || l.err {
		return &ParseError{}
	}
	addr := make([]byte, %d)
	dash := 0
	for i := 0; i < %d; i += 2 {
		addr[i] = l.token[i+dash]
		addr[i+1] = l.token[i+1+dash]
		dash++
		if l.token[i+1+dash] != '-' {
			return &ParseError{}
		}
	}
	addr[%d] = l.token[%d]
	addr[%d] = l.token[%d]
	i, e := strconv.ParseUint(string(addr), 16, %d)
	if e != nil {
		return &ParseError{}
	}
	rr.Address = i
	return slurpRemainder(c)}`, 3*g-1, n, n-2, n-2, 3*g-3, n-1, 3*g-2, 8*g)), "")
}

// aParseBody: (*A).parse as src() prints it, the error text replaced.  net.ParseIP and the test for a colon are what
// DnsModel.TextCodec.parseIPv4 stands for (dotted decimal, four fields of at most three digits, no leading zero, ≤ 255).
func aParseBody() string {
	return strings.Join(strings.Fields(`{l, _ := c.Next()
	rr.A = net.ParseIP(l.token)
	isIPv4 := !strings.Contains(l.token, ":")
	if rr.A == nil || !isIPv4 || l.err {
		return &ParseError{}
	}
	return slurpRemainder(c)}`), "")
}

// aStringBody: (*A).String; net.IP.String of a four-octet address is DnsModel.TextCodec.printIPv4
const aStringBody = `{ifrr.A==nil{returnrr.Hdr.String()}returnrr.Hdr.String()+rr.A.String()}`

// typeLoopSrc: the type-bitmap loop of (*NSEC).parse / (*CSYNC).parse as src() prints it, error texts replaced
var typeLoopSrc = strings.Join(strings.Fields(`for l.value != zNewline && l.value != zEOF {
		switch l.value {
		case zBlank:
		case zString:
			tokenUpper := strings.ToUpper(l.token)
			if k, ok = StringToType[tokenUpper]; !ok {
				if k, ok = typeToInt(l.token); !ok {
					return &ParseError{}
				}
			}
			rr.TypeBitMap = append(rr.TypeBitMap, k)
		default:
			return &ParseError{}
		}
		l, _ = c.Next()
	}`), "")

// splitNSrc: the body of splitN (types.go) that DnsModel.TextCodec.splitN stands for
var splitNSrc = strings.Join(strings.Fields(`{
	if len(s) < n {
		return []string{s}
	}
	sx := []string{}
	p, i := 0, n
	for {
		if i <= len(s) {
			sx = append(sx, s[p:i])
		} else {
			sx = append(sx, s[p:])
			break

		}
		p, i = p+n, i+n
	}

	return sx
}`), "")

var mnemIfRe = regexp.MustCompile(`^ifv,ok:=(StringToCertType|StringToAlgorithm)\[l\.token\];ok\{rr\.([A-Za-z]+)=v\}elseifi,err:=strconv\.ParseUint\(l\.token,10,(8|16)\);err!=nil\{return&ParseError\{\}\}else\{rr\.([A-Za-z]+)=uint(8|16)\(i\)\}$`)

// certStringSrc: (*CERT).String — the certificate type and the algorithm as the mnemonic of their tables, else as numbers
const certStringSrc = `{var(okboolcerttype,algorithmstring)ifcerttype,ok=CertTypeToString[rr.Type];!ok{certtype=strconv.Itoa(int(rr.Type))}ifalgorithm,ok=AlgorithmToString[rr.Algorithm];!ok{algorithm=strconv.Itoa(int(rr.Algorithm))}returnrr.Hdr.String()+certtype+""+strconv.Itoa(int(rr.KeyTag))+""+algorithm+""+rr.Certificate}`

var firstBodyRe = regexp.MustCompile(`^\{s,e:=endingToTxtSlice\(c,"bad([A-Z0-9]+)([A-Za-z]+)"\)ife!=nil\{returne\}ifln:=len\(s\);ln==0\{returnnil\}rr\.([A-Za-z]+)=s\[0\]returnnil\}$`)

type tstep struct {
	Kind  string // uint | name | endstr | txt | blank | slurp | other
	Bits  int
	Field string
	Upper bool // printer upper-cases the field
	Group int  // hexgroups: digits per group
	Sep   int  // hexgroups: the separator octet
}

func (s tstep) lean() string {
	switch s.Kind {
	case "uint":
		return fmt.Sprintf(".uint %d", s.Bits)
	case "uintalg":
		return ".uintAlg"
	case "uintttl":
		if s.Upper {
			return ".uintTtl true"
		}
		return ".uintTtl false"
	case "tok":
		return ".tok"
	case "name":
		return ".name"
	case "endstr":
		if s.Upper {
			return ".endStr true"
		}
		return ".endStr false"
	case "txt":
		return ".txt"
	case "txtpair":
		return ".txtPair"
	case "txtfirst":
		return ".txtFirst"
	case "octet":
		return ".octet"
	case "hexgroups":
		return fmt.Sprintf(".hexGroups %d %d %d %v", s.Bits, s.Group, s.Sep, s.Upper)
	case "euitok":
		return fmt.Sprintf(".euiTok %d", s.Bits)
	case "nodeid":
		return ".nodeId"
	case "ipv4":
		return ".ipv4"
	case "uintlax":
		return fmt.Sprintf(".uintLax %d", s.Bits)
	case "typelist":
		return ".typeList"
	case "saltne":
		return ".saltNE"
	case "tokne":
		return ".tokNE"
	case "mnem":
		return fmt.Sprintf(".mnem %d %d", s.Group, s.Bits)
	case "endstrsplit":
		return fmt.Sprintf(".endStrSplit %d", s.Bits)
	case "salt":
		return ".salt"
	case "tokstr":
		return ".tokStr"
	case "blank":
		return ".blank"
	case "slurp":
		return ".slurp"
	}
	return ".other"
}

// rrField: `rr.F` -> F
func rrField(e ast.Expr) string {
	if se, ok := e.(*ast.SelectorExpr); ok {
		if id, ok := se.X.(*ast.Ident); ok && id.Name == "rr" {
			return se.Sel.Name
		}
	}
	return ""
}

func isCall(e ast.Expr, recv, name string) (*ast.CallExpr, bool) {
	c, ok := e.(*ast.CallExpr)
	if !ok {
		return nil, false
	}
	switch f := c.Fun.(type) {
	case *ast.Ident:
		return c, recv == "" && f.Name == name
	case *ast.SelectorExpr:
		if id, ok := f.X.(*ast.Ident); ok {
			return c, id.Name == recv && f.Sel.Name == name
		}
	}
	return c, false
}

// parsePlanOf translates one parse body; ok=false when an unknown idiom occurs.
func (p *pkgInfo) parsePlanOf(fd *ast.FuncDecl, depth int) ([]tstep, bool) {
	// whole bodies built on endingToTxtSlice: two string fields (HINFO, ISDN), one string field (UINFO)
	if body := p.src(fd.Body); true {
		if os.Getenv("EXTRACT_DEBUG") != "" && strings.Contains(body, "endingToTxtSlice") {
			fmt.Fprintln(os.Stderr, body)
		}
		if m := pairBodyRe.FindStringSubmatch(body); m != nil {
			return []tstep{{Kind: "txtpair", Field: m[2] + "," + m[3]}}, true
		}
		if m := firstBodyRe.FindStringSubmatch(body); m != nil && strings.HasSuffix(m[1]+m[2], m[3]) {
			return []tstep{{Kind: "txtfirst", Field: m[3]}}, true
		}
		// (*EUI48).parse / (*EUI64).parse: the error texts aside, the body must be the expected one
		norm := parseErrRe.ReplaceAllString(body, "&ParseError{}")
		if norm == aParseBody() {
			return []tstep{{Kind: "ipv4", Field: "A"}, {Kind: "slurp"}}, true
		}
		for _, g := range []int{6, 8} {
			if norm == euiBody(g) {
				return []tstep{{Kind: "euitok", Bits: g, Field: "Address"}, {Kind: "slurp"}}, true
			}
		}
	}
	var out []tstep
	uintVar, uintErr, uintBits := "", "", 0 // the last ParseUint: value variable, error variable, width
	nameVar, nameOk := "", ""               // the last toAbsoluteName: name variable, ok variable
	endVar, endErr, endKind := "", "", ""   // the last endingToString / endingToTxtSlice
	rawTok := ""                            // field that takes the raw token (after an `if l.err` check)
	strTok := ""                            // field that takes the token after an `if l.value != zString` check
	nodeVar, nodeErr := "", ""              // the last stringToNodeID: value variable, error variable
	uintLax := false                        // the error check behind the last ParseUint did not look at l.err
	nonEmpty := false                       // `if l.token == "" || l.err { return … }` stands in front of the next idiom
	typeList := false                       // the type-bitmap loop has been seen (nothing may follow but `return nil`)
	lhsNames := func(s *ast.AssignStmt) []string {
		var ns []string
		for _, l := range s.Lhs {
			ns = append(ns, p.src(l))
		}
		return ns
	}
	stmts := fd.Body.List
	for idx, st := range stmts {
		switch s := st.(type) {
		case *ast.AssignStmt:
			if len(s.Rhs) == 1 {
				if _, ok := isCall(s.Rhs[0], "c", "Next"); ok {
					continue // l, _ := c.Next(): the token the next idiom consumes
				}
				if c, ok := isCall(s.Rhs[0], "strconv", "ParseUint"); ok && len(c.Args) == 3 && p.src(c.Args[0]) == "l.token" && p.src(c.Args[1]) == "10" && len(s.Lhs) == 2 {
					bits, err := strconv.Atoi(p.src(c.Args[2]))
					if err != nil {
						return nil, false
					}
					ns := lhsNames(s)
					uintVar, uintErr, uintBits, uintLax = ns[0], ns[1], bits, false
					continue
				}
				if c, ok := isCall(s.Rhs[0], "", "toAbsoluteName"); ok && len(c.Args) == 2 && p.src(c.Args[0]) == "l.token" && p.src(c.Args[1]) == "o" && len(s.Lhs) == 2 {
					ns := lhsNames(s)
					nameVar, nameOk = ns[0], ns[1]
					continue
				}
				if _, ok := isCall(s.Rhs[0], "", "endingToString"); ok && len(s.Lhs) == 2 {
					ns := lhsNames(s)
					endVar, endErr, endKind = ns[0], ns[1], "endstr"
					continue
				}
				if c, ok := isCall(s.Rhs[0], "", "stringToNodeID"); ok && len(c.Args) == 1 && p.src(c.Args[0]) == "l" && len(s.Lhs) == 2 {
					ns := lhsNames(s)
					nodeVar, nodeErr = ns[0], ns[1]
					continue
				}
				if _, ok := isCall(s.Rhs[0], "", "endingToOctetString"); ok && len(s.Lhs) == 2 {
					ns := lhsNames(s)
					endVar, endErr, endKind = ns[0], ns[1], "octet"
					continue
				}
				if _, ok := isCall(s.Rhs[0], "", "endingToTxtSlice"); ok && len(s.Lhs) == 2 {
					ns := lhsNames(s)
					endVar, endErr, endKind = ns[0], ns[1], "txt"
					continue
				}
				if f := rrField(s.Lhs[0]); f != "" && len(s.Lhs) == 1 {
					rhs := p.src(s.Rhs[0])
					switch {
					case uintVar != "" && rhs == fmt.Sprintf("uint%d(%s)", uintBits, uintVar):
						kind := "uint"
						if uintLax {
							kind = "uintlax"
						}
						out = append(out, tstep{Kind: kind, Bits: uintBits, Field: f})
						uintVar, uintLax = "", false
						continue
					case f == "TypeBitMap" && rhs == "make([]uint16,0)":
						continue // the empty bitmap the loop appends to
					case nodeVar != "" && rhs == nodeVar:
						out = append(out, tstep{Kind: "nodeid", Field: f})
						nodeVar = ""
						continue
					case nameVar != "" && rhs == nameVar:
						out = append(out, tstep{Kind: "name", Field: f})
						nameVar = ""
						continue
					case rhs == "l.token" && nonEmpty:
						out = append(out, tstep{Kind: "tokne", Field: f})
						nonEmpty = false
						continue
					case f == "HashLength" && rhs == "20" && nonEmpty:
						continue // NSEC3: the length of a SHA-1 hash, not a text field
					case rhs == "l.token" && rawTok == f:
						out = append(out, tstep{Kind: "tok", Field: f})
						rawTok = ""
						continue
					case rhs == "l.token" && strTok == f:
						out = append(out, tstep{Kind: "tokstr", Field: f})
						strTok = ""
						continue
					case rhs == "l.token":
						continue // provisional, overwritten by the absolute name
					case endVar != "" && rhs == endVar:
						out = append(out, tstep{Kind: endKind, Field: f})
						endVar = ""
						continue
					}
				}
			}
			return nil, false
		case *ast.ExprStmt:
			if _, ok := isCall(s.X, "c", "Next"); ok {
				out = append(out, tstep{Kind: "blank"})
				continue
			}
			return nil, false
		case *ast.IfStmt:
			// `if i, err := strconv.ParseUint(l.token, 10, 8); err != nil { …StringToAlgorithm[tokenUpper]…; rr.F = i } else { rr.F = uint8(i) }`
			if s.Init != nil && s.Else != nil && p.src(s.Init) == "i,err:=strconv.ParseUint(l.token,10,8)" && p.src(s.Cond) == "err!=nil" {
				body := p.src(s.Body)
				els := p.src(s.Else)
				if strings.HasPrefix(body, "{tokenUpper:=strings.ToUpper(l.token)i,ok:=StringToAlgorithm[tokenUpper]if!ok||l.err{return&ParseError{") &&
					strings.HasSuffix(body, "}rr.Algorithm=i}") && els == "{rr.Algorithm=uint8(i)}" {
					out = append(out, tstep{Kind: "uintalg", Bits: 8, Field: "Algorithm"})
					continue
				}
				return nil, false
			}
			// a mnemonic of a table, else a number (CERT): `if v, ok := StringToX[l.token]; ok { rr.F = v } else if i, err :=
			// strconv.ParseUint(l.token, 10, N); err != nil { return … } else { rr.F = uintN(i) }`
			if m := mnemIfRe.FindStringSubmatch(parseErrRe.ReplaceAllString(p.src(s), "&ParseError{}")); m != nil && m[2] == m[4] && m[3] == m[5] {
				bits, _ := strconv.Atoi(m[3])
				tbl := map[string]int{"StringToCertType": 0, "StringToAlgorithm": 1}[m[1]]
				if p.fieldBits(funcRecv(fd), m[2]) == bits {
					out = append(out, tstep{Kind: "mnem", Group: tbl, Bits: bits, Field: m[2]})
					continue
				}
				return nil, false
			}
			// `if l.token == "" || l.err { return … }`: the token that the next idiom takes must not be empty
			if s.Else == nil && s.Init == nil && p.src(s.Cond) == `l.token==""||l.err` && len(s.Body.List) == 1 && !nonEmpty {
				if _, ok := s.Body.List[0].(*ast.ReturnStmt); ok {
					nonEmpty = true
					continue
				}
			}
			// the salt of NSEC3PARAM: `if l.token != "-" { rr.SaltLength = uint8(len(l.token) / 2); rr.Salt = l.token }`
			if s.Else == nil && s.Init == nil && p.src(s) == `ifl.token!="-"{rr.SaltLength=uint8(len(l.token)/2)rr.Salt=l.token}` {
				if nonEmpty {
					out = append(out, tstep{Kind: "saltne", Field: "Salt"})
					nonEmpty = false
					continue
				}
				out = append(out, tstep{Kind: "salt", Field: "Salt"})
				continue
			}
			// `if l.value != zString { return … }` in front of `rr.F = l.token`: the token, which must be a string token
			if s.Else == nil && s.Init == nil && p.src(s.Cond) == "l.value!=zString" && len(s.Body.List) == 1 {
				if _, ok := s.Body.List[0].(*ast.ReturnStmt); ok && idx+1 < len(stmts) {
					if as, ok := stmts[idx+1].(*ast.AssignStmt); ok && len(as.Lhs) == 1 && len(as.Rhs) == 1 && rrField(as.Lhs[0]) != "" && p.src(as.Rhs[0]) == "l.token" {
						strTok = rrField(as.Lhs[0])
						continue
					}
				}
				return nil, false
			}
			// `if l.err { return … }` in front of `rr.F = l.token`: the raw token is the field
			if s.Else == nil && s.Init == nil && p.src(s.Cond) == "l.err" && len(s.Body.List) == 1 {
				if _, ok := s.Body.List[0].(*ast.ReturnStmt); ok && idx+1 < len(stmts) {
					if as, ok := stmts[idx+1].(*ast.AssignStmt); ok && len(as.Lhs) == 1 && len(as.Rhs) == 1 && rrField(as.Lhs[0]) != "" && p.src(as.Rhs[0]) == "l.token" {
						rawTok = rrField(as.Lhs[0])
						continue
					}
				}
				return nil, false
			}
			// error checks directly behind the idiom they belong to
			if s.Else == nil && len(s.Body.List) == 1 && s.Init == nil {
				if _, ok := s.Body.List[0].(*ast.ReturnStmt); ok {
					cond := p.src(s.Cond)
					if uintErr != "" && cond == uintErr+"!=nil" {
						uintLax = true // the token's error flag is not looked at: step `uintLax`
						continue
					}
					if (uintErr != "" && (cond == uintErr+"!=nil||l.err" || cond == uintErr+"!=nil")) || (nameOk != "" && cond == "l.err||!"+nameOk) || (endErr != "" && cond == endErr+"!=nil") || (nodeErr != "" && cond == nodeErr+"!=nil||l.err") {
						continue
					}
				}
			}
			return nil, false
		case *ast.DeclStmt:
			// `var ( v uint32; ok bool )` in front of the SOA loop
			if p.src(s) == "var(vuint32okbool)" || p.src(s) == "var(kuint16okbool)" {
				continue
			}
			return nil, false
		case *ast.ForStmt:
			// the five numbers of an SOA record: the serial a plain number, the others numbers or TTL strings with units
			if p.src(s) == soaLoopSrc {
				for i, f := range []string{"Serial", "Refresh", "Retry", "Expire", "Minttl"} {
					out = append(out, tstep{Kind: "uintttl", Bits: 32, Field: f, Upper: i == 0})
					if i < 4 {
						out = append(out, tstep{Kind: "blank"})
					}
				}
				continue
			}
			// the type bitmap of NSEC / CSYNC: the rest of the entry as type mnemonics
			if parseErrRe.ReplaceAllString(p.src(s), "&ParseError{}") == typeLoopSrc && idx == len(stmts)-2 {
				out = append(out, tstep{Kind: "typelist", Field: "TypeBitMap"})
				typeList = true
				continue
			}
			return nil, false
		case *ast.ReturnStmt:
			if idx != len(stmts)-1 || len(s.Results) != 1 {
				return nil, false
			}
			if typeList && p.src(s.Results[0]) != "nil" {
				return nil, false
			}
			if _, ok := isCall(s.Results[0], "", "slurpRemainder"); ok {
				out = append(out, tstep{Kind: "slurp"})
				continue
			}
			if p.src(s.Results[0]) == "nil" {
				continue
			}
			// delegation to the embedded struct: `return rr.NSEC.parse(c, o)` (NXT)
			if c, ok := s.Results[0].(*ast.CallExpr); ok && depth == 0 && len(stmts) == 1 && len(c.Args) == 2 && p.src(c.Args[0]) == "c" && p.src(c.Args[1]) == "o" {
				if se, ok := c.Fun.(*ast.SelectorExpr); ok && se.Sel.Name == "parse" && rrField(se.X) != "" {
					if sub := p.funcs[rrField(se.X)+".parse"]; sub != nil {
						if st := p.structs()[strings.TrimSuffix(funcRecv(fd), "")]; st != nil && len(st.Fields.List) == 1 && len(st.Fields.List[0].Names) == 0 && p.src(st.Fields.List[0].Type) == rrField(se.X) {
							return p.parsePlanOf(sub, 1)
						}
					}
				}
			}
			// delegation: return rr.parseDS(c, o, "DS")
			if c, ok := s.Results[0].(*ast.CallExpr); ok && depth == 0 {
				if se, ok := c.Fun.(*ast.SelectorExpr); ok && rrField(se) != "" {
					var names []string
					for name := range p.funcs {
						if strings.HasSuffix(name, "."+se.Sel.Name) {
							names = append(names, name)
						}
					}
					sort.Strings(names)
					for _, name := range names {
						if sub, ok := p.parsePlanOf(p.funcs[name], 1); ok {
							return append(out, sub...), true
						}
					}
				}
			}
			return nil, false
		default:
			return nil, false
		}
	}
	if uintVar != "" || nameVar != "" || endVar != "" || rawTok != "" || strTok != "" || nodeVar != "" || nonEmpty {
		return nil, false
	}
	return out, true
}

// fieldBits: the width of an unsigned integer field of struct typ (following one level of embedding); 0 = not one
func (p *pkgInfo) fieldBits(typ, field string) int {
	st := p.structs()[typ]
	if st == nil {
		return 0
	}
	for _, f := range st.Fields.List {
		if len(f.Names) == 0 {
			if b := p.fieldBits(p.src(f.Type), field); b != 0 {
				return b
			}
			continue
		}
		for _, n := range f.Names {
			if n.Name == field {
				switch p.src(f.Type) {
				case "uint8":
					return 8
				case "uint16":
					return 16
				case "uint32":
					return 32
				case "uint64":
					return 64
				}
				return 0
			}
		}
	}
	return 0
}

// printPlanOf flattens `rr.Hdr.String() + a + " " + b …` of a String method of struct typ.
func (p *pkgInfo) printPlanOf(fd *ast.FuncDecl, typ string) ([]tstep, bool) {
	if m := nodeStringRe.FindStringSubmatch(p.src(fd.Body)); m != nil {
		// (*NID).String / (*L64).String: preference, then a 64-bit number as four groups of four hex digits
		if bits := p.fieldBits(typ, m[1]); bits == 16 && p.fieldBits(typ, m[3]) == 64 {
			return []tstep{{Kind: "uint", Bits: 16, Field: m[1]}, {Kind: "blank"}, {Kind: "hexgroups", Bits: 16, Group: 4, Sep: ':', Upper: m[2] == "X", Field: m[3]}}, true
		}
	}
	if typ == "CERT" && p.src(fd.Body) == certStringSrc && p.fieldBits(typ, "Type") == 16 && p.fieldBits(typ, "Algorithm") == 8 && p.fieldBits(typ, "KeyTag") == 16 && certBlanks(fd) {
		return []tstep{{Kind: "mnem", Group: 0, Bits: 16, Field: "Type"}, {Kind: "blank"}, {Kind: "uint", Bits: 16, Field: "KeyTag"}, {Kind: "blank"},
			{Kind: "mnem", Group: 1, Bits: 8, Field: "Algorithm"}, {Kind: "blank"}, {Kind: "endstr", Field: "Certificate"}}, true
	}
	if typ == "A" && p.src(fd.Body) == aStringBody {
		return []tstep{{Kind: "ipv4", Field: "A"}}, true
	}
	var leaves []ast.Expr
	var parts []ast.Expr
	splitField, splitLen := "", 0 // `sx := splitN(rr.F, n)`
	typeLoop := false // `for _, t := range rr.TypeBitMap { s += " " + Type(t).String() }` is the last statement before `return s`
	if n := len(fd.Body.List); n >= 2 {
		// `s := e1; s += e2; …; return s`: the concatenation of the parts
		first, ok1 := fd.Body.List[0].(*ast.AssignStmt)
		last, ok2 := fd.Body.List[n-1].(*ast.ReturnStmt)
		if !ok1 || !ok2 || first.Tok != token.DEFINE || len(first.Lhs) != 1 || len(first.Rhs) != 1 || p.src(first.Lhs[0]) != "s" ||
			len(last.Results) != 1 || p.src(last.Results[0]) != "s" {
			return nil, false
		}
		parts = append(parts, first.Rhs[0])
		for i, st := range fd.Body.List[1 : n-1] {
			if rs, ok := st.(*ast.RangeStmt); ok && i == n-3 && isTypeLoop(p, rs) {
				typeLoop = true
				continue
			}
			if ds, ok := st.(*ast.AssignStmt); ok && ds.Tok == token.DEFINE && len(ds.Lhs) == 1 && len(ds.Rhs) == 1 && p.src(ds.Lhs[0]) == "sx" && splitField == "" {
				// `sx := splitN(rr.F, n)`: the pieces `strings.Join(sx, " ")` prints further down
				if c, ok := isCall(ds.Rhs[0], "", "splitN"); ok && len(c.Args) == 2 && rrField(c.Args[0]) != "" && p.funcs["splitN"] != nil && p.src(p.funcs["splitN"].Body) == splitNSrc {
					if n, err := strconv.Atoi(p.src(c.Args[1])); err == nil && n > 0 {
						splitField, splitLen = rrField(c.Args[0]), n
						continue
					}
				}
				return nil, false
			}
			as, ok := st.(*ast.AssignStmt)
			if !ok || as.Tok != token.ADD_ASSIGN || len(as.Lhs) != 1 || len(as.Rhs) != 1 || p.src(as.Lhs[0]) != "s" {
				return nil, false
			}
			parts = append(parts, as.Rhs[0])
		}
	} else if n == 1 {
		ret, ok := fd.Body.List[0].(*ast.ReturnStmt)
		if !ok || len(ret.Results) != 1 {
			return nil, false
		}
		parts = append(parts, ret.Results[0])
	} else {
		return nil, false
	}
	var walk func(e ast.Expr)
	walk = func(e ast.Expr) {
		if b, ok := e.(*ast.BinaryExpr); ok && b.Op == token.ADD {
			walk(b.X)
			walk(b.Y)
			return
		}
		if pe, ok := e.(*ast.ParenExpr); ok {
			walk(pe.X)
			return
		}
		leaves = append(leaves, e)
	}
	for _, e := range parts {
		walk(e)
	}
	if len(leaves) == 0 || p.src(leaves[0]) != "rr.Hdr.String()" {
		return nil, false
	}
	var out []tstep
	for _, l := range leaves[1:] {
		if bl, ok := l.(*ast.BasicLit); ok && bl.Value == `" "` {
			out = append(out, tstep{Kind: "blank"})
			continue
		}
		if c, ok := isCall(l, "strings", "Join"); ok && len(c.Args) == 2 && p.src(c.Args[0]) == "sx" && splitField != "" {
			if bl, ok := c.Args[1].(*ast.BasicLit); ok && bl.Value == `" "` {
				out = append(out, tstep{Kind: "endstrsplit", Bits: splitLen, Field: splitField})
				splitField = ""
				continue
			}
		}
		if c, ok := isCall(l, "strconv", "Itoa"); ok && len(c.Args) == 1 {
			a := p.src(c.Args[0])
			if strings.HasPrefix(a, "int(rr.") && strings.HasSuffix(a, ")") {
				f := a[7 : len(a)-1]
				bits := p.fieldBits(typ, f)
				if bits == 0 {
					return nil, false
				}
				out = append(out, tstep{Kind: "uint", Bits: bits, Field: f}) // the printer prints every value the field can hold
				continue
			}
		}
		if c, ok := isCall(l, "strconv", "FormatInt"); ok && len(c.Args) == 2 && p.src(c.Args[1]) == "10" {
			// strconv.FormatInt(int64(rr.F), 10): the same decimal digits as Itoa for an unsigned field of at most 32 bits
			a := p.src(c.Args[0])
			if strings.HasPrefix(a, "int64(rr.") && strings.HasSuffix(a, ")") {
				f := a[9 : len(a)-1]
				bits := p.fieldBits(typ, f)
				if bits == 0 || bits > 32 {
					return nil, false
				}
				out = append(out, tstep{Kind: "uint", Bits: bits, Field: f})
				continue
			}
		}
		if c, ok := isCall(l, "", "sprintName"); ok && len(c.Args) == 1 && rrField(c.Args[0]) != "" {
			out = append(out, tstep{Kind: "name", Field: rrField(c.Args[0])})
			continue
		}
		if c, ok := isCall(l, "", "sprintTxt"); ok && len(c.Args) == 1 && rrField(c.Args[0]) != "" {
			out = append(out, tstep{Kind: "txt", Field: rrField(c.Args[0])})
			continue
		}
		if c, ok := isCall(l, "", "sprintTxt"); ok && len(c.Args) == 1 {
			// sprintTxt([]string{rr.F, rr.G}) / sprintTxt([]string{rr.F})
			if cl, ok := c.Args[0].(*ast.CompositeLit); ok && p.src(cl.Type) == "[]string" {
				var fs []string
				for _, e := range cl.Elts {
					if f := rrField(e); f != "" {
						fs = append(fs, f)
					}
				}
				if len(fs) == len(cl.Elts) && len(fs) == 2 {
					out = append(out, tstep{Kind: "txtpair", Field: fs[0] + "," + fs[1]})
					continue
				}
				if len(fs) == len(cl.Elts) && len(fs) == 1 {
					out = append(out, tstep{Kind: "txtfirst", Field: fs[0]})
					continue
				}
			}
		}
		if c, ok := isCall(l, "", "saltToString"); ok && len(c.Args) == 1 && rrField(c.Args[0]) != "" {
			out = append(out, tstep{Kind: "salt", Field: rrField(c.Args[0])})
			continue
		}
		if c, ok := isCall(l, "", "euiToString"); ok && len(c.Args) == 2 && rrField(c.Args[0]) != "" {
			switch p.src(c.Args[1]) {
			case "48":
				out = append(out, tstep{Kind: "hexgroups", Bits: 12, Group: 2, Sep: '-', Field: rrField(c.Args[0])})
				continue
			case "64":
				out = append(out, tstep{Kind: "hexgroups", Bits: 16, Group: 2, Sep: '-', Field: rrField(c.Args[0])})
				continue
			}
		}
		if c, ok := isCall(l, "", "sprintTxtOctet"); ok && len(c.Args) == 1 && rrField(c.Args[0]) != "" {
			out = append(out, tstep{Kind: "octet", Field: rrField(c.Args[0])})
			continue
		}
		if c, ok := isCall(l, "strings", "ToUpper"); ok && len(c.Args) == 1 && rrField(c.Args[0]) != "" {
			out = append(out, tstep{Kind: "endstr", Field: rrField(c.Args[0]), Upper: true})
			continue
		}
		if f := rrField(l); f != "" {
			out = append(out, tstep{Kind: "endstr", Field: f})
			continue
		}
		return nil, false
	}
	if typeLoop {
		out = append(out, tstep{Kind: "typelist", Field: "TypeBitMap"})
	}
	if splitField != "" {
		return nil, false // pieces that are not printed
	}
	return out, true
}

// funcRecv: the receiver's type name of a method declaration (`*T` -> T)
func funcRecv(fd *ast.FuncDecl) string {
	if fd.Recv == nil || len(fd.Recv.List) != 1 {
		return ""
	}
	t := fd.Recv.List[0].Type
	if st, ok := t.(*ast.StarExpr); ok {
		t = st.X
	}
	if id, ok := t.(*ast.Ident); ok {
		return id.Name
	}
	return ""
}

// certBlanks: the three string literals of (*CERT).String are single blanks (src() drops white space)
func certBlanks(fd *ast.FuncDecl) bool {
	n, ok := 0, true
	ast.Inspect(fd.Body, func(x ast.Node) bool {
		if bl, isLit := x.(*ast.BasicLit); isLit && bl.Kind == token.STRING {
			n++
			ok = ok && bl.Value == `" "`
		}
		return true
	})
	return ok && n == 3
}

// isTypeLoop: `for _, t := range rr.TypeBitMap { s += " " + Type(t).String() }`
func isTypeLoop(p *pkgInfo, rs *ast.RangeStmt) bool {
	if rs.Key == nil || rs.Value == nil || p.src(rs.Key) != "_" || p.src(rs.Value) != "t" || p.src(rs.X) != "rr.TypeBitMap" || len(rs.Body.List) != 1 {
		return false
	}
	as, ok := rs.Body.List[0].(*ast.AssignStmt)
	if !ok || as.Tok != token.ADD_ASSIGN || len(as.Lhs) != 1 || len(as.Rhs) != 1 || p.src(as.Lhs[0]) != "s" {
		return false
	}
	b, ok := as.Rhs[0].(*ast.BinaryExpr)
	if !ok || b.Op != token.ADD {
		return false
	}
	bl, ok := b.X.(*ast.BasicLit)
	return ok && bl.Value == `" "` && p.src(b.Y) == "Type(t).String()"
}

type textPlan struct {
	Type  string
	Parse []tstep
	Print []tstep
}

func (p *pkgInfo) textPlans() []textPlan {
	var out []textPlan
	for name, fd := range p.funcs {
		if !strings.HasSuffix(name, ".parse") || fd.Recv == nil {
			continue
		}
		typ := strings.TrimSuffix(name, ".parse")
		pr, ok1 := p.parsePlanOf(fd, 0)
		sfd := p.funcs[typ+".String"]
		if sfd == nil {
			// `type KEY struct{ DNSKEY }`: the printer is the embedded type's
			if st := p.structs()[typ]; st != nil && len(st.Fields.List) == 1 && len(st.Fields.List[0].Names) == 0 {
				sfd = p.funcs[p.src(st.Fields.List[0].Type)+".String"]
			}
		}
		if sfd == nil {
			continue
		}
		st, ok2 := p.printPlanOf(sfd, typ)
		if !ok1 {
			pr = []tstep{{Kind: "other"}}
		}
		if !ok2 {
			st = []tstep{{Kind: "other"}}
		}
		out = append(out, textPlan{typ, pr, st})
	}
	sort.Slice(out, func(i, j int) bool { return out[i].Type < out[j].Type })
	return out
}

// jsonTextPlans: the same plans with field names, for the harness
func jsonTextPlans(ps []textPlan) string {
	var b strings.Builder
	b.WriteString("[\n")
	for i, pl := range ps {
		enc := func(steps []tstep) string {
			var ss []string
			for _, s := range steps {
				ss = append(ss, fmt.Sprintf(`{"kind":%q,"bits":%d,"field":%q}`, s.Kind, s.Bits, s.Field))
			}
			return "[" + strings.Join(ss, ",") + "]"
		}
		fmt.Fprintf(&b, ` {"type":%q,"parse":%s,"print":%s}`, pl.Type, enc(pl.Parse), enc(pl.Print))
		if i < len(ps)-1 {
			b.WriteString(",")
		}
		b.WriteString("\n")
	}
	b.WriteString("]\n")
	return b.String()
}

func leanTextPlans(ps []textPlan) string {
	var b strings.Builder
	for _, which := range []string{"parse", "print"} {
		fmt.Fprintf(&b, "def %sTextPlans : List (String × List TStep) := [\n", which)
		for i, pl := range ps {
			steps := pl.Parse
			if which == "print" {
				steps = pl.Print
			}
			var ss []string
			for _, s := range steps {
				ss = append(ss, s.lean())
			}
			fmt.Fprintf(&b, "  (%s, [%s])", leanStr(pl.Type), strings.Join(ss, ", "))
			if i < len(ps)-1 {
				b.WriteString(",")
			}
			b.WriteString("\n")
		}
		b.WriteString("]\n")
	}
	return b.String()
}

// soaLoopSrc: the loop of (*SOA).parse as printed by src() (white space removed); any change to it makes SOA "other"
var soaLoopSrc = strings.Join(strings.Fields(`for i := 0; i < 5; i++ {
	l, _ = c.Next()
	if l.err {
		return &ParseError{err: "bad SOA zone parameter", lex: l}
	}
	if j, err := strconv.ParseUint(l.token, 10, 32); err != nil {
		if i == 0 {
			return &ParseError{err: "bad SOA zone parameter", lex: l}
		}
		if v, ok = stringToTTL(l.token); !ok {
			return &ParseError{err: "bad SOA zone parameter", lex: l}
		}
	} else {
		v = uint32(j)
	}
	switch i {
	case 0:
		rr.Serial = v
		c.Next()
	case 1:
		rr.Refresh = v
		c.Next()
	case 2:
		rr.Retry = v
		c.Next()
	case 3:
		rr.Expire = v
		c.Next()
	case 4:
		rr.Minttl = v
	}
}`), "")
