/-
  DnsModel.MsgUnpack — `Msg.Unpack` as a whole (msg.go: unpackMsgHdr, Msg.unpack, unpackQuestion, unpackRRslice,
  UnpackRR, UnpackRRWithHeader; msg_helpers.go: unpackHeader, truncateMsgFromRdlength), with the record bodies decoded
  by the generated unpack bodies of the codec algebra (DnsModel/Generated/Codecs.lean) — here with the message as
  context, so that names inside RDATA may follow compression pointers to earlier octets.

  The counts of the header are the attacker's: the loops run at most that often, stop as soon as the offset stops
  moving, and never allocate from the counts.
-/
import DnsModel.Codec
import DnsModel.Msg
import DnsModel.Options
import DnsModel.Generated.Codecs
import DnsModel.Generated.Layouts
namespace Dns.MU
open Dns

/-- `unpackDataDomainNames(msg, off, end)` with `end = len(msg)` -/
def unpackNamesM : (fuel : Nat) → Bytes → Nat → Option (List Bytes)
  | 0, _, _ => none
  | f + 1, m, off =>
    if m.length ≤ off then some []
    else match unpackName m off with
      | .ok (text, off') => (unpackNamesM f m off').map (fun r => text :: r)
      | _ => none

/-- one step of a generated `unpack` body at offset `off` of the message cut at the end of the RDATA -/
def unpackStepM (vals : List Val) (s : CStep) (m : Bytes) (off : Nat) : Option (Val × Nat) :=
  match s with
  | .name => (match unpackName m off with | .ok (text, o) => some (.t text, o) | _ => none)
  | .names => (unpackNamesM (m.length + 1) m off).map (fun ns => (.ns ns, max off m.length))
  | .gateway i mk =>
    if gatewayType vals i mk = 3 then (match unpackName m off with | .ok (text, o) => some (.t text, o) | _ => none)
    else (unpackStep vals s (m.drop off)).map (fun p => (p.1, m.length - p.2.length))
  | _ => (unpackStep vals s (m.drop off)).map (fun p => (p.1, m.length - p.2.length))

def unpackPlanM : List CStep → Bytes → Nat → List Val → Option (List Val × Nat)
  | [], _, off, acc => some (acc, off)
  | .early :: steps, m, off, acc =>
    if off = m.length then some (acc ++ steps.filterMap zeroVal, off) else unpackPlanM steps m off acc
  | s :: steps, m, off, acc =>
    match unpackStepM acc s m off with
    | some (v, off') => unpackPlanM steps m off' (acc ++ [v])
    | none => none

/-- a decoded record: header fields as on the wire, and the fields of the body (`none`: RDLENGTH 0, nothing decoded) -/
structure RRm where
  name : Bytes
  typ : Nat
  cls : Nat
  ttl : Nat
  rdlen : Nat
  kind : String               -- the Go type the body was decoded into
  body : Option (List Val)
deriving Repr, DecidableEq

/-- `unpackUintN` -/
def uintAt (w : Nat) (msg : Bytes) (off : Nat) : Option (Nat × Nat) :=
  if off + w ≤ msg.length then some (beVal ((msg.drop off).take w), off + w) else none

/-- `TypeToRR[h.Rrtype]`, else RFC3597 -/
def kindOf (typ : Nat) : String :=
  match Gen.typeRegistry.find? (fun p => p.2 == typ) with
  | some p => p.1
  | none => "RFC3597"

/-- the values inside option / parameter lists go through their own codecs (edns.go, svcb.go): the framing of the codec
    algebra yields (code, octets) pairs, `recode` decodes each value and encodes it again as `pack` would (`none`: the
    value decoder refuses) -/
def recodeKV (kind : String) (items : List (Nat × Bytes)) : Option (List (Nat × Bytes)) :=
  if kind = "OPT" then
    items.mapM (fun x => (Opt.unpackOpt x.1 x.2).bind (fun o => (Opt.packOpt o).map (fun d => (o.code, d))))
  else if kind = "SVCB" ∨ kind = "HTTPS" then
    items.mapM (fun x => (Opt.unpackParam x.1 x.2).bind (fun q => (Opt.packParam q).map (fun d => (q.key, d))))
  else some items

def recode (kind : String) (v : Val) : Option Val :=
  match v with
  | Val.kv items => (recodeKV kind items).map Val.kv
  | v => some v

def valueOK (kind : String) : Val → Bool
  | .kv items =>
    if kind = "OPT" then (items.mapM (fun x => Opt.unpackOpt x.1 x.2)).isSome
    else if kind = "SVCB" ∨ kind = "HTTPS" then (items.mapM (fun x => Opt.unpackParam x.1 x.2)).isSome
    else true
  | _ => true

/-- `UnpackRR`: the record and the offset behind it; `none` = an error -/
def unpackRR (msg : Bytes) (off : Nat) : Option (RRm × Nat) :=
  if off = msg.length then some (⟨[], 0, 0, 0, 0, "RFC3597", none⟩, off)      -- unpackHeader at the end: an empty header
  else match unpackName msg off with
    | .ok (name, o1) =>
      match uintAt 2 msg o1 with
      | none => none
      | some (typ, o2) =>
      match uintAt 2 msg o2 with
      | none => none
      | some (cls, o3) =>
      match uintAt 4 msg o3 with
      | none => none
      | some (ttl, o4) =>
      match uintAt 2 msg o4 with
      | none => none
      | some (rdlen, o5) =>
        if msg.length < o5 + rdlen then none                        -- "overflowing header size"
        else
          let kind := kindOf typ
          if rdlen = 0 then some (⟨name, typ, cls, ttl, rdlen, kind, none⟩, o5)      -- noRdata
          else match Gen.unpackCodecs.lookup kind with
            | none => none
            | some plan =>
              match unpackPlanM plan (msg.take (o5 + rdlen)) o5 [] with
              | some (vals, off') =>
                if off' = o5 + rdlen ∧ vals.all (valueOK kind) then
                  some (⟨name, typ, cls, ttl, rdlen, kind, some vals⟩, off')
                else none   -- "bad rdlength", or a value its own decoder refuses
              | none => none
    | _ => none

/-- `unpackRRslice`: at most `count` records; stops when the offset no longer moves; `none` = an error (the section is
    then dropped) -/
def unpackSection : Nat → Bytes → Nat → List RRm → Option (List RRm × Nat)
  | 0, _, off, acc => some (acc.reverse, off)
  | c + 1, msg, off, acc =>
    match unpackRR msg off with
    | none => none
    | some (r, off') => if off' = off then some (acc.reverse, off) else unpackSection c msg off' (r :: acc)

structure Qm where
  name : Bytes
  typ : Nat
  cls : Nat
deriving Repr, DecidableEq

/-- `unpackQuestion` -/
def unpackQuestion (msg : Bytes) (off : Nat) : Option (Qm × Nat) :=
  match unpackName msg off with
  | .ok (name, o1) =>
    if o1 = msg.length then some (⟨name, 0, 0⟩, o1)
    else match uintAt 2 msg o1 with
      | none => none
      | some (typ, o2) =>
        if o2 = msg.length then some (⟨name, typ, 0⟩, o2)
        else match uintAt 2 msg o2 with
          | none => none
          | some (cls, o3) => some (⟨name, typ, cls⟩, o3)
  | _ => none

/-- the question loop of `Msg.unpack`: the questions read so far, the offset, and whether an error stopped it -/
def unpackQuestions : Nat → Bytes → Nat → List Qm → List Qm × Nat × Bool
  | 0, _, off, acc => (acc.reverse, off, false)
  | c + 1, msg, off, acc =>
    match unpackQuestion msg off with
    | none => (acc.reverse, off, true)
    | some (q, off') => if off' = off then (acc.reverse, off, false) else unpackQuestions c msg off' (q :: acc)

structure MsgM where
  id : Nat
  hdr : MsgHdr
  rcode : Nat
  question : List Qm
  answer : List RRm
  ns : List RRm
  extra : List RRm
  err : Bool
deriving Repr

/-- `IsEdns0` + `ExtendedRcode`: the last OPT record of the additional section -/
def extRcode (extra : List RRm) : Option Nat :=
  match extra.reverse.find? (fun r => r.typ == 41) with
  | some r => some (r.ttl / 16777216 % 256)
  | none => none

/-- `Msg.Unpack` into a fresh message; `none` = the header itself could not be read -/
def unpackMsg (msg : Bytes) : Option MsgM :=
  if msg.length < 12 then none
  else
    let w (i : Nat) := beVal ((msg.drop (2 * i)).take 2)
    let h := unpackBits (BitVec.ofNat 16 (w 1))
    let m0 : MsgM := ⟨w 0, h, h.rcode, [], [], [], [], false⟩
    if msg.length = 12 then some m0
    else
      let qs := unpackQuestions (w 2) msg 12 []
      if qs.2.2 then some { m0 with question := qs.1, err := true }
      else match unpackSection (w 3) msg qs.2.1 [] with
        | none => some { m0 with question := qs.1, err := true }
        | some (an, o1) =>
          match unpackSection (w 4) msg o1 [] with
          | none => some { m0 with question := qs.1, answer := an, err := true }
          | some (ns, o2) =>
            match unpackSection (w 5) msg o2 [] with
            | none => some { m0 with question := qs.1, answer := an, ns := ns, err := true }
            | some (ex, _) =>
              some { m0 with question := qs.1, answer := an, ns := ns, extra := ex,
                             rcode := joinRcode h.rcode (extRcode ex) }

/-- the plain encoding of a record: owner in wire form, the fixed header with the RDLENGTH of the body, the body -/
def encodeRR (owner : Bytes) (typ cls ttl : Nat) (rd : Bytes) : Bytes :=
  owner ++ (beBytes 2 typ ++ (beBytes 2 cls ++ (beBytes 4 ttl ++ (beBytes 2 rd.length ++ rd))))

/-- the octets `PackRR(rr, buf, 0, nil, false)` writes for a decoded record: owner, fixed header with the recomputed
    RDLENGTH, body; a record decoded without RDATA holds the zero value of every field, and those are packed
    (RFC 2136 records grow a body, finding F7); `none` = the packer refuses the record -/
def repackRR (r : RRm) : Option Bytes :=
  match packName r.name, Gen.unpackCodecs.lookup r.kind with
  | .ok owner, some plan =>
    let vals := match r.body with
      | some vals => vals
      | none => plan.filterMap zeroVal
    ((vals.mapM (recode r.kind)).bind (packPlan (stripPlan plan))).bind (fun rd =>
      if rd.length < 65536 then some (encodeRR owner r.typ r.cls r.ttl rd) else none)
  | _, _ => none

def encodeQ (q : Qm) : Option Bytes :=
  match packName q.name with
  | .ok w => some (w ++ (beBytes 2 q.typ ++ beBytes 2 q.cls))
  | _ => none

def concatAll : List (Option Bytes) → Option Bytes
  | [] => some []
  | x :: xs => match x, concatAll xs with
    | some a, some r => some (a ++ r)
    | _, _ => none

/-- `Msg.Pack` with `Compress = false` on a decoded message: the header word from the flags and the low RCODE nibble,
    the true counts, questions and records one after the other (the last OPT record already carries the upper RCODE
    bits the decoder merged in) -/
def packMsgPlain (m : MsgM) : Option Bytes :=
  if m.rcode > 0xFFF then none
  else if m.rcode > 0xF ∧ (extRcode m.extra).isNone then none
  else
    let bits := (packBits { m.hdr with rcode := m.rcode }).toNat
    (concatAll (m.question.map encodeQ ++ (m.answer.map repackRR ++ (m.ns.map repackRR ++ m.extra.map repackRR)))).map
      (fun body => beBytes 2 m.id ++ (beBytes 2 bits ++ (beBytes 2 m.question.length ++ (beBytes 2 m.answer.length ++
        (beBytes 2 m.ns.length ++ (beBytes 2 m.extra.length ++ body))))))

end Dns.MU
