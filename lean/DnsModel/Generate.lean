/-
  DnsModel.Generate — generate.go: the byte stream of the $GENERATE sub-reader (generateReader.ReadByte,
  modToPrintf) for a range and a right-hand side.
-/
import DnsModel.Basic
namespace Dns

def digitChar (d : Nat) (upper : Bool) : Byte :=
  if d < 10 then UInt8.ofNat (48 + d) else UInt8.ofNat ((if upper then 55 else 87) + d)

/-- digits of `n` in `base` (most significant first), "0" for zero -/
def natDigits (base : Nat) (upper : Bool) : (fuel : Nat) → Nat → Bytes → Bytes
  | 0, _, acc => acc
  | f + 1, n, acc =>
    if n < base ∨ base < 2 then digitChar n upper :: acc
    else natDigits base upper f (n / base) (digitChar (n % base) upper :: acc)

/-- Go `fmt.Sprintf("%0<width><verb>", v)` for a non-negative `v` -/
def fmtNum (v width base : Nat) (upper : Bool) : Bytes :=
  let ds := natDigits base upper 70 v []
  List.replicate (width - ds.length) 48 ++ ds

/-- the same for an int64 value: a negative value prints a minus sign and pads after it -/
def fmtInt (v : Int) (width base : Nat) (upper : Bool) : Bytes :=
  if v < 0 then 45 :: fmtNum (-v).toNat (width - 1) base upper else fmtNum v.toNat width base upper

/-- int64 addition wraps -/
def wrap64 (x : Int) : Int :=
  let m := x % 18446744073709551616
  if m ≥ 9223372036854775808 then m - 18446744073709551616 else m

structure GMod where
  offset : Int
  width : Nat
  base : Nat
  upper : Bool
deriving Repr

def parseNat (s : Bytes) : Option Nat :=
  if s.isEmpty then none
  else s.foldl (fun acc c => match acc with
    | some n => if isDigit c then some (n * 10 + (c.toNat - 48)) else none
    | none => none) (some 0)

/-- `strconv.ParseInt(s, 10, 64)`: optional sign, digits, must fit in int64 -/
def parseInt64 (s : Bytes) : Option Int :=
  match s with
  | 45 :: r => (parseNat r).bind fun n => if n ≤ 9223372036854775808 then some (-(n : Int)) else none
  | 43 :: r => (parseNat r).bind fun n => if n ≤ 9223372036854775807 then some (n : Int) else none
  | _ => (parseNat s).bind fun n => if n ≤ 9223372036854775807 then some (n : Int) else none

def cutComma (s : Bytes) : Bytes × Bytes × Bool :=
  match s.span (· != 44) with
  | (a, []) => (a, [], false)
  | (a, _ :: b) => (a, b, true)

/-- `modToPrintf`: "offset[,width[,base]]" -/
def modToPrintf (s : Bytes) : Option GMod :=
  let (offStr, s1, ok0) := cutComma s
  let (widthStr0, s2, ok1) := cutComma s1
  let (base0, _, ok2) := cutComma s2
  let widthStr := if ok0 then widthStr0 else [48]
  let base := if ok1 then base0 else [100]
  if ok2 then none
  else
    let b? : Option (Nat × Bool) :=
      if base = [111] then some (8, false) else if base = [100] then some (10, false)
      else if base = [120] then some (16, false) else if base = [88] then some (16, true) else none
    match b?, parseInt64 offStr, parseNat widthStr with
    | some (b, up), some off, some w => if w ≤ 255 then some ⟨off, w, b, up⟩ else none
    | _, _, _ => none

structure GState where
  si : Nat            -- (kept implicit: the remaining template)
  escape : Bool
deriving Repr

/-- one line of output: walk the right-hand side for iterator value `cur`. Returns the octets, the escape
    flag at the end of the line (it is carried into the next line), or `none` on a parse error. -/
def genLine (start stop : Int) (cur : Int) : (fuel : Nat) → Bytes → (escape : Bool) → Bytes → Option (Bytes × Bool)
  | 0, _, _, _ => none
  | _ + 1, [], esc, out => some (out ++ [10], esc)
  | f + 1, c :: rest, esc, out =>
    if c = 92 then
      if esc then genLine start stop cur f rest false (out ++ [92])
      else genLine start stop cur f rest true out
    else if c = 36 then
      if esc then genLine start stop cur f rest false (out ++ [36])
      else match rest with
        | [] => some (out ++ fmtNum cur.toNat 0 10 false ++ [10], esc)   -- `$` is the last character
        | 36 :: rest' => genLine start stop cur f rest' esc (out ++ [36])
        | 123 :: rest' =>
          match rest'.span (· != 125) with
          | (_, []) => none                                       -- no closing brace
          | (m, _ :: after) =>
            match modToPrintf m with
            | none => none
            | some g =>
              -- the guard and the value are computed in int64 (observation O7: they can wrap for ranges near 2^63)
              if wrap64 (start + g.offset) < 0 ∨ wrap64 (stop + g.offset) > 2147483647 then none
              else genLine start stop cur f after esc (out ++ fmtInt (wrap64 (cur + g.offset)) g.width g.base g.upper)
        | _ => genLine start stop cur f rest esc (out ++ fmtNum cur.toNat 0 10 false)
    else
      if esc then genLine start stop cur f rest false (out ++ [92, c])    -- other escapes are passed through
      else genLine start stop cur f rest false (out ++ [c])

/-- all lines: `cur` runs from start in steps while `cur <= stop` (and no int64 wrap) -/
def genAll (start stop step : Int) (tmpl : Bytes) : (fuel : Nat) → (cur : Int) → (esc : Bool) → Bytes → Option Bytes
  | 0, _, _, out => some out
  | f + 1, cur, esc, out =>
    match genLine start stop cur (tmpl.length + 2) tmpl esc [] with
    | none => none
    | some (line, esc') =>
      let cur' := cur + step
      -- r.eof = r.cur > r.end || r.cur < 0 (the sum is taken in int64: wrap-around to a negative value)
      let wrapped := if cur' > 9223372036854775807 then cur' - 18446744073709551616 else cur'
      if wrapped > stop ∨ wrapped < 0 then some (out ++ line)
      else genAll start stop step tmpl f wrapped esc' (out ++ line)

/-- the range guard of `generate`: `end < 0 || start < 0 || end < start || (end-start)/step > 65535` is an error -/
def rangeOk (start stop step : Int) : Bool :=
  !(stop < 0 || start < 0 || stop < start || (stop - start) / step > 65535) && step > 0

def generateStream (start stop step : Int) (tmpl : Bytes) : Option Bytes :=
  genAll start stop step tmpl 65537 start false []

end Dns
