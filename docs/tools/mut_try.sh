#!/bin/bash
# usage: mut_try.sh <id> [seed]   apply /verif/seeded/<id>/patch.diff to the scratch worktree, build the scratch harness, run the property
export GOFLAGS=-mod=mod GOPROXY=off DNSDRIVER=/verif/lean/.lake/build/bin/dnsdriver GOMEMLIMIT=6GiB
id=$1; seed=${2:-1}
prop=${id:0:3}
cd /tmp/wtm && git checkout -q -- . && git clean -fdq
if [ "$id" != "${id%none}" ]; then :; else git apply /verif/seeded/$id/patch.diff || { echo "$id APPLY-FAIL"; exit 1; }; fi
cd /tmp/stage/h8 && go build -tags verif -o /tmp/stage/h8bin . || { echo BUILD-FAIL; exit 1; }
cd /tmp/stage && timeout 600 ./h8bin -prop $prop -tier quick -seed $seed -out /tmp/stage/h8_$id.json >/dev/null 2>/tmp/stage/h8_$id.err; rc=$?
python3 - "$id" "$rc" <<'PY'
import json,sys
id,rc=sys.argv[1],sys.argv[2]
try:
    d=json.load(open('/tmp/stage/h8_%s.json'%id))
    ks={}
    for v in d.get('violations',[]):
        if v['key'].startswith('rdlen0-repack') or v['key'].startswith('comment-length:acc511') or 'paren-newline' in v['key']: continue
        ks[v['key']]=ks.get(v['key'],0)+1
    print(id,'rc',rc,'violations',d.get('n_violations'),list(ks)[:4])
except Exception as e:
    print(id,'rc',rc,'no result',e)
PY
cd /tmp/wtm && git checkout -q -- .
