package main

import (
	"crypto"
	"crypto/ecdsa"
	"crypto/elliptic"
	"crypto/sha1"
	"crypto/sha256"
	"crypto/sha512"
	"encoding/base32"
	"encoding/base64"
	"encoding/hex"
	"fmt"
	"io"
	"math/big"
	"strings"
	"testing/iotest"
	"time"

	"github.com/miekg/dns"
)

func init() { props["C17"] = runC17 }

var b32hex = base32.HexEncoding.WithPadding(base32.NoPadding)

// refHashName: RFC 5155 section 5, written independently (SHA-1 only).
func refHashName(labels [][]byte, iter int, salt []byte) []byte {
	low := make([][]byte, len(labels))
	for i, l := range labels {
		low[i] = []byte(asciiLower(string(l)))
	}
	x := append(wireOf(low), salt...)
	h := sha1.Sum(x)
	for k := 0; k < iter; k++ {
		h = sha1.Sum(append(append([]byte{}, h[:]...), salt...))
	}
	return h[:]
}

func randCase(r *Rng, s string) string {
	b := []byte(s)
	for i := range b {
		if (b[i] >= 'a' && b[i] <= 'z' || b[i] >= 'A' && b[i] <= 'Z') && r.Bool() {
			b[i] ^= 0x20
		}
	}
	return string(b)
}

func runC17(c *Ctx) {
	r := c.R
	var hq []hashQuery
	c.Res.Rule = "DNSKEY RDATA (all flag/protocol/algorithm values, key octets 0..1200 and 4088..20000 incl. carry-heavy ones), DS digest types, names x salts x iterations, NSEC3 interval shapes x hash positions built arithmetically around H(name), validity triples around the boundaries, key export/import for the supported algorithms; distinct by content"
	// 1. key tags
	n := c.Scale(4000, 100000)
	for i := 0; i < n; i++ {
		kl := []int{0, 1, 2, 3, 4, 5, 32, 33, 64, 65, 130, 260, 520}[r.Intn(13)]
		if r.Chance(5) {
			kl = r.Intn(1200)
		}
		if i%200 == 7 {
			// keys around and beyond the size of the library's default scratch buffer (4096 octets with the four fixed ones)
			kl = []int{4088, 4091, 4092, 4093, 4096, 5000, 20000}[(i/200)%7]
			c.Hit(fmt.Sprintf("keytag:long-key:%d", kl))
		}
		key := r.Bytes(kl)
		if r.Chance(30) {
			for j := range key {
				if r.Chance(85) {
					key[j] = 0xFF
				}
			}
		}
		alg := uint8(r.Intn(256))
		if alg == dns.RSAMD5 {
			alg = dns.RSASHA256
		}
		k := &dns.DNSKEY{Hdr: dns.RR_Header{Name: "Example.ORG.", Rrtype: dns.TypeDNSKEY, Class: 1}, Flags: uint16(genUint(r, 2)), Protocol: uint8(genUint(r, 1)), Algorithm: alg, PublicKey: toB64(key)}
		rd := putUint(nil, 2, uint64(k.Flags))
		rd = append(rd, k.Protocol, k.Algorithm)
		rd = append(rd, key...)
		if len(key) >= 2 && len(rd)%2 == 0 && r.Chance(40) {
			// steer the 16-bit sum towards the carry boundary: low half + high half around 65536
			s0 := 0
			for j := 0; j+1 < len(rd)-2; j += 2 {
				s0 += int(rd[j])<<8 | int(rd[j+1])
			}
			hi := (s0 + 65535) >> 16
			target := (65536 - hi - 2 + r.Intn(5)) & 0xFFFF
			w := (target - s0) & 0xFFFF
			rd[len(rd)-2], rd[len(rd)-1] = byte(w>>8), byte(w)
			key = rd[4:]
			k.PublicKey = toB64(key)
			c.Hit("keytag:carry-boundary")
		}
		c.Op("keytag", "keytag "+hx(rd), fmt.Sprint(k.KeyTag()), len(key) > 0)
		c.OpK("keytag", "spec.keytag "+hx(rd), fmt.Sprint(k.KeyTag()), len(key) > 0, "keytag-vs-rfc")
		// DS digests
		if i%8 == 0 {
			k.Hdr.Name = randCase(r, presentLabels(genLabels(r, 0)))
			if r.Chance(30) {
				// owner names typed as raw UTF-8: only ASCII letters are case-folded (RFC 4034 section 6.2)
				lab := []string{"\u00c9", "\u212a", "\u0414\u043e\u043c", "\u00dcn\u00ef", "A\u00c9b"}[r.Intn(5)]
				if k.Hdr.Name == "." {
					k.Hdr.Name = lab + "."
				} else {
					k.Hdr.Name = lab + "." + k.Hdr.Name
				}
				if len(k.Hdr.Name) > 200 {
					k.Hdr.Name = lab + "."
				}
			}
			owner := unescapeName(asciiLower(k.Hdr.Name))
			for _, dt := range []uint8{1, 2, 4, 0, 3, 5, 255} {
				ds := k.ToDS(dt)
				var want string
				switch dt {
				case 1:
					h := sha1.Sum(append(append([]byte{}, owner...), rd...))
					want = hex.EncodeToString(h[:])
				case 2:
					h := sha256.Sum256(append(append([]byte{}, owner...), rd...))
					want = hex.EncodeToString(h[:])
				case 4:
					h := sha512.Sum384(append(append([]byte{}, owner...), rd...))
					want = hex.EncodeToString(h[:])
				}
				in := fmt.Sprintf("digest=%d owner=%s rdata=%s", dt, k.Hdr.Name, hx(rd))
				if want == "" {
					c.Pred("ds", "ds-unsupported", in, ds == nil || dt == 5, fmt.Sprint(ds), "nil", true)
					continue
				}
				got := ""
				if ds != nil {
					got = strings.ToLower(ds.Digest)
				}
				c.Pred("ds", "ds-digest", in, ds != nil && got == want && ds.KeyTag == k.KeyTag() && ds.Algorithm == k.Algorithm && ds.DigestType == dt, got, want, true)
				if isASCII(k.Hdr.Name) {
					hq = append(hq, hashQuery{op: "ds.input " + hxs(k.Hdr.Name) + " " + hx(rd), dt: int(dt), lib: got, in: in})
				}
			}
		}
	}
	_ = crypto.SHA1
	// 2'. the iteration counts at the end of the 16-bit range, under a watchdog (a counter of the field's own width that is
	//     compared with `<=` never gets past 65535)
	for _, iter := range []int{255, 256, 32767, 32768, 65534, 65535} {
		ls := [][]byte{[]byte("Iter"), []byte("example")}
		salt := r.Bytes(4)
		name := presentLabels(ls)
		got := runTimed(func() string { return dns.HashName(name, dns.SHA1, uint16(iter), hex.EncodeToString(salt)) }, 30*time.Second)
		want := b32hex.EncodeToString(refHashName(ls, iter, salt))
		c.Pred("nsec3hash", "hashname-vs-rfc", fmt.Sprintf("name=%s salt=%s iter=%d", hxs(name), hex.EncodeToString(salt), iter), strings.EqualFold(got, want), got, want, true)
	}
	// 2. NSEC3 hashes
	n = c.Scale(1500, 40000)
	for i := 0; i < n; i++ {
		ls := genLabels(r, r.Intn(2))
		salt := r.Bytes([]int{0, 0, 1, 4, 8, 16, 255}[r.Intn(7)])
		iter := []int{0, 1, 2, 10, 100, 150}[r.Intn(6)]
		if i%500 == 0 {
			iter = []int{1000, 2500, 65534}[r.Intn(3)]
		}
		name := randCase(r, presentLabels(ls))
		saltS := hex.EncodeToString(salt)
		got := dns.HashName(name, dns.SHA1, uint16(iter), saltS)
		want := b32hex.EncodeToString(refHashName(ls, iter, salt))
		in := fmt.Sprintf("name=%s salt=%s iter=%d", hxs(name), saltS, iter)
		c.Pred("nsec3hash", "hashname-vs-rfc", in, strings.EqualFold(got, want), got, want, true)
		got2 := dns.HashName(asciiLower(name), dns.SHA1, uint16(iter), strings.ToUpper(saltS))
		c.Pred("nsec3hash", "hashname-case-invariant", in, got2 == got, got2, got, true)
		hq = append(hq, hashQuery{op: "nsec3.input " + hxs(name) + " " + hx(salt), dt: -1, iter: iter, salt: salt, lib: strings.ToLower(got), in: in})
	}
	// the octets the model says are hashed (dsInput / nsec3Input, theorems ds_input_canonical / hashName_rfc), hashed here
	// with the standard library, must give the library's digest / NSEC3 hash
	runHashQueries(c, hq)
	// 3. match / cover: interval shapes x positions
	n = c.Scale(3000, 60000)
	one := big.NewInt(1)
	max := new(big.Int).Lsh(one, 160)
	for i := 0; i < n; i++ {
		zone := genLabels(r, 0)
		for len(zone) < 1 {
			zone = append(zone, genLabel(r, 3, 0))
		}
		if len(wireOf(zone)) > 150 {
			zone = zone[len(zone)-1:]
		}
		// the queried name: inside the zone, or outside (unrelated, or sharing only a text suffix)
		var name [][]byte
		inZone := true
		switch r.Intn(6) {
		case 5: // a label that ends in a dot octet and the zone's first label: the text ends in ".<zone>", the labels do not
			first := append(append(append([]byte{}, genLabel(r, 2, 0)...), '.'), zone[0]...)
			if len(first) > 63 {
				first = first[len(first)-63:]
			}
			name = append([][]byte{first}, zone[1:]...)
			inZone = commonSuffix(zone, name) == len(zone)
		case 0:
			name = zone
		case 1, 2:
			name = append([][]byte{genLabel(r, 1+r.Intn(5), 0)}, zone...)
		case 3:
			name = genLabels(r, 0)
			inZone = commonSuffix(zone, name) == len(zone)
		case 4: // shares only a textual suffix: "telecom." vs zone "com."
			first := append(append([]byte{}, genLabel(r, 2, 0)...), zone[0]...)
			if len(first) > 63 {
				first = first[:63]
			}
			name = append([][]byte{first}, zone[1:]...)
			inZone = commonSuffix(zone, name) == len(zone)
		}
		salt := r.Bytes(r.Intn(5))
		iter := r.Intn(4)
		h := new(big.Int).SetBytes(refHashName(name, iter, salt))
		pick := func() *big.Int {
			d := big.NewInt(int64([]int{-3, -2, -1, 0, 1, 2, 3}[r.Intn(7)]))
			if r.Chance(30) {
				d = new(big.Int).Rand(randSrc(r), max)
			}
			v := new(big.Int).Add(h, d)
			return v.Mod(v, max)
		}
		o, nx := pick(), pick()
		if r.Chance(15) {
			nx = new(big.Int).Set(o)
		}
		toHash := func(v *big.Int) string {
			b := v.FillBytes(make([]byte, 20))
			return b32hex.EncodeToString(b)
		}
		rr := &dns.NSEC3{Hdr: dns.RR_Header{Name: randCase(r, toHash(o)+"."+presentLabels(zone)), Rrtype: dns.TypeNSEC3, Class: 1},
			Hash: dns.SHA1, Iterations: uint16(iter), SaltLength: uint8(len(salt)), Salt: hex.EncodeToString(salt), HashLength: 20, NextDomain: toHash(nx)}
		if r.Chance(35) {
			// the next hashed owner in the spelling a zone file may use (base32hex is case-insensitive, RFC 4648 / RFC 5155 3.3)
			rr.NextDomain = strings.ToLower(rr.NextDomain)
			c.Hit("interval:next-hash-lower-case")
		}
		q := randCase(r, presentLabels(name))
		shape := "normal"
		if o.Cmp(nx) > 0 {
			shape = "wrap"
		} else if o.Cmp(nx) == 0 {
			shape = "empty"
		}
		c.Hit("interval:" + shape + ":inzone=" + b01(inZone))
		cov, mat := rr.Cover(q), rr.Match(q)
		args := fmt.Sprintf("%s %s %s %s", b01(inZone), o.String(), nx.String(), h.String())
		c.Op("cover", "nsec3.cover "+args, b01(cov), true)
		c.OpK("cover", "spec.cover "+args, b01(cov), true, "cover-vs-rfc")
		c.Op("match", fmt.Sprintf("nsec3.match %s %s %s", b01(inZone), o.String(), h.String()), b01(mat), true)
	}
	// 3'. the same for a record of the root zone: the owner is the hash label alone, every name lies inside the zone
	for i, n := 0, c.Scale(120, 3000); i < n; i++ {
		name := genLabels(r, 0)
		salt := r.Bytes(r.Intn(5))
		iter := r.Intn(4)
		max := new(big.Int).Lsh(big.NewInt(1), 160)
		h := new(big.Int).SetBytes(refHashName(name, iter, salt))
		pick := func() *big.Int {
			d := big.NewInt(int64([]int{-3, -2, -1, 0, 1, 2, 3}[r.Intn(7)]))
			if r.Chance(30) {
				d = new(big.Int).SetBytes(r.Bytes(20))
			}
			v := new(big.Int).Add(h, d)
			return v.Mod(v, max)
		}
		o, nx := pick(), pick()
		if r.Chance(15) {
			nx = new(big.Int).Set(o)
		}
		toHash := func(v *big.Int) string { return b32hex.EncodeToString(v.FillBytes(make([]byte, 20))) }
		rr := &dns.NSEC3{Hdr: dns.RR_Header{Name: randCase(r, toHash(o)+"."), Rrtype: dns.TypeNSEC3, Class: 1},
			Hash: dns.SHA1, Iterations: uint16(iter), SaltLength: uint8(len(salt)), Salt: hex.EncodeToString(salt), HashLength: 20, NextDomain: toHash(nx)}
		q := randCase(r, presentLabels(name))
		cov, mat := rr.Cover(q), rr.Match(q)
		args := fmt.Sprintf("1 %s %s %s", o.String(), nx.String(), h.String())
		c.OpK("cover", "nsec3.cover "+args, b01(cov), true, "cover-root-zone")
		c.OpK("match", fmt.Sprintf("nsec3.match 1 %s %s", o.String(), h.String()), b01(mat), true, "match-root-zone")
	}
	// 4. validity period
	n = c.Scale(5000, 100000)
	now := int64(1790000000)
	for i := 0; i < n; i++ {
		base := now + int64(r.Intn(2000000)) - 1000000
		if r.Chance(20) {
			base = int64(r.U64() % (1 << 32))
		}
		inc := base + int64(r.Intn(7)) - 3
		exp := inc + int64([]int{0, 1, 2, 10, 86400, 1 << 30}[r.Intn(6)])
		if r.Chance(10) {
			exp = inc - int64(r.Intn(5))
		}
		t := []int64{inc - 1, inc, inc + 1, exp - 1, exp, exp + 1, base, inc + (exp-inc)/2}[r.Intn(8)]
		if inc < 0 || exp < 0 || inc >= 1<<32 || exp >= 1<<32 || t <= 0 {
			continue
		}
		sig := &dns.RRSIG{Inception: uint32(inc), Expiration: uint32(exp)}
		got := sig.ValidityPeriod(time.Unix(t, 0))
		args := fmt.Sprintf("%d %d %d", inc, exp, t)
		c.Op("validity", "valid "+args, b01(got), true)
		if abs64(inc-t) < 1<<31 && abs64(exp-t) < 1<<31 {
			c.OpK("validity", "spec.valid-period "+args, b01(got), true, "validity-vs-spec")
		}
	}
	// 5. key generation, export to BIND private-key text and re-import: sign / verify interchangeably
	type kspec struct {
		alg  uint8
		bits int
	}
	specs := []kspec{{dns.ED25519, 256}, {dns.ECDSAP256SHA256, 256}, {dns.ECDSAP384SHA384, 384}, {dns.RSASHA256, 1024}, {dns.RSASHA1, 1024}, {dns.RSASHA512, 1024}}
	rounds := c.Scale(1, 6)
	for k := 0; k < rounds; k++ {
		for _, ks := range specs {
			key := &dns.DNSKEY{Hdr: dns.RR_Header{Name: "example.org.", Rrtype: dns.TypeDNSKEY, Class: 1, Ttl: 3600}, Flags: 256, Protocol: 3, Algorithm: ks.alg}
			priv, err := key.Generate(ks.bits)
			in := fmt.Sprintf("alg=%d bits=%d", ks.alg, ks.bits)
			if err != nil {
				c.Pred("keys", "key-generate", in, false, err.Error(), "key", true)
				continue
			}
			txt := key.PrivateKeyString(priv)
			priv2, err := key.NewPrivateKey(txt)
			if err != nil {
				c.Pred("keys", "key-reimport", in, false, err.Error(), "key", true)
				continue
			}
			set := []dns.RR{&dns.A{Hdr: dns.RR_Header{Name: "a.example.org.", Rrtype: dns.TypeA, Class: 1, Ttl: 60}, A: []byte{192, 0, 2, byte(k)}}}
			ok := true
			detail := ""
			for _, pk := range []crypto.PrivateKey{priv, priv2} {
				sig := &dns.RRSIG{Hdr: dns.RR_Header{Name: "a.example.org.", Rrtype: dns.TypeRRSIG, Class: 1, Ttl: 60}, Algorithm: ks.alg, SignerName: "example.org.",
					KeyTag: key.KeyTag(), Inception: uint32(time.Now().Unix() - 1000), Expiration: uint32(time.Now().Unix() + 1000)}
				signer, _ := pk.(crypto.Signer)
				if signer == nil {
					ok, detail = false, "not a signer"
					break
				}
				if err := sig.Sign(signer, set); err != nil {
					ok, detail = false, "sign: "+err.Error()
					break
				}
				if err := sig.Verify(key, set); err != nil {
					ok, detail = false, "verify: "+err.Error()
					break
				}
			}
			c.Pred("keys", "key-export-import", in, ok, detail, "sign/verify interchangeably", true)
			// the same text through ReadPrivateKey, with and without the final line feed, from readers of both kinds
			for vi, src := range []io.Reader{strings.NewReader(txt), strings.NewReader(strings.TrimRight(txt, "\n")),
				iotest.OneByteReader(strings.NewReader(txt)), iotest.OneByteReader(strings.NewReader(strings.TrimRight(txt, "\n")))} {
				pk, err := key.ReadPrivateKey(src, "Kexample.org.private")
				res := "ok"
				if err != nil {
					res = "read: " + err.Error()
				} else if signer, _ := pk.(crypto.Signer); signer == nil {
					res = "not a signer"
				} else {
					sig := &dns.RRSIG{Hdr: dns.RR_Header{Name: "a.example.org.", Rrtype: dns.TypeRRSIG, Class: 1, Ttl: 60}, Algorithm: ks.alg, SignerName: "example.org.",
						KeyTag: key.KeyTag(), Inception: uint32(time.Now().Unix() - 1000), Expiration: uint32(time.Now().Unix() + 1000)}
					if err := guard(func() string {
						if e := sig.Sign(signer, set); e != nil {
							return "sign: " + e.Error()
						}
						if e := sig.Verify(key, set); e != nil {
							return "verify: " + e.Error()
						}
						return "ok"
					}); err != "ok" {
						res = err
					}
				}
				c.Pred("keys", "key-read-from-text", fmt.Sprintf("%s variant=%d", in, vi), res == "ok", res, "a key that signs for this DNSKEY", true)
			}
		}
	}
	// 5b. ECDSA keys whose private scalar is shorter than the field (top octets zero — one generated key in 256): the
	//     exported text is read back to a key that signs for the same DNSKEY
	for _, ks := range []kspec{{dns.ECDSAP256SHA256, 256}, {dns.ECDSAP384SHA384, 384}} {
		curve, n := elliptic.P256(), 32
		if ks.bits == 384 {
			curve, n = elliptic.P384(), 48
		}
		var ds []*big.Int
		for _, sh := range []uint{0, 1, 7, 8, 9, 64, uint(8*n - 16), uint(8*n - 9), uint(8*n - 8)} {
			ds = append(ds, new(big.Int).Lsh(big.NewInt(1), sh))
		}
		ds = append(ds, new(big.Int).Sub(new(big.Int).Lsh(big.NewInt(1), uint(8*n-8)), big.NewInt(1))) // n-1 octets, all ones
		for k := 0; k < c.Scale(2, 20); k++ {
			b := r.Bytes(n)
			b[0] = 0
			if k%2 == 1 {
				b[1] = 0
			}
			ds = append(ds, new(big.Int).SetBytes(b))
		}
		for _, d := range ds {
			if d.Sign() == 0 {
				continue
			}
			priv := new(ecdsa.PrivateKey)
			priv.Curve = curve
			priv.D = d
			priv.X, priv.Y = curve.ScalarBaseMult(d.Bytes())
			pub := append(priv.X.FillBytes(make([]byte, n)), priv.Y.FillBytes(make([]byte, n))...)
			key := &dns.DNSKEY{Hdr: dns.RR_Header{Name: "example.org.", Rrtype: dns.TypeDNSKEY, Class: 1, Ttl: 3600}, Flags: 256, Protocol: 3, Algorithm: ks.alg, PublicKey: toB64(pub)}
			in := fmt.Sprintf("alg=%d scalar of %d octets", ks.alg, len(d.Bytes()))
			res := guard(func() string {
				txt := key.PrivateKeyString(priv)
				pk, err := key.NewPrivateKey(txt)
				if err != nil {
					return "re-read: " + err.Error()
				}
				signer, _ := pk.(crypto.Signer)
				if signer == nil {
					return "not a signer"
				}
				set := []dns.RR{&dns.A{Hdr: dns.RR_Header{Name: "a.example.org.", Rrtype: dns.TypeA, Class: 1, Ttl: 60}, A: []byte{192, 0, 2, 7}}}
				sig := &dns.RRSIG{Hdr: dns.RR_Header{Name: "a.example.org.", Rrtype: dns.TypeRRSIG, Class: 1, Ttl: 60}, Algorithm: ks.alg, SignerName: "example.org.",
					KeyTag: key.KeyTag(), Inception: uint32(time.Now().Unix() - 1000), Expiration: uint32(time.Now().Unix() + 1000)}
				if e := sig.Sign(signer, set); e != nil {
					return "sign: " + e.Error()
				}
				if e := sig.Verify(key, set); e != nil {
					return "verify: " + e.Error()
				}
				return "ok"
			})
			c.Pred("keys", "short-scalar-export-import", in, res == "ok", res, "a key that signs for this DNSKEY", true)
		}
	}
	// 6. two keys of one owner and algorithm whose key tags collide are still two keys: a signature verifies under the
	//    key that made it and under no other, in whatever order the keys are used
	for k := 0; k < c.Scale(2, 8); k++ {
		for _, alg := range []uint8{dns.RSASHA256, dns.RSASHA512, dns.ECDSAP256SHA256, dns.ED25519} {
			for order := 0; order < 2; order++ {
				owner := fmt.Sprintf("k%d-%d-%d.example.org.", k, alg, order)
				key := &dns.DNSKEY{Hdr: dns.RR_Header{Name: owner, Rrtype: dns.TypeDNSKEY, Class: 1, Ttl: 3600}, Flags: 256, Protocol: 3, Algorithm: alg}
				bits := 256
				if alg == dns.RSASHA256 || alg == dns.RSASHA512 {
					bits = 1024
				}
				priv, err := key.Generate(bits)
				if err != nil {
					continue
				}
				// the twin: two octets of the public key changed so that the tag stays the same
				pkb, _ := base64.StdEncoding.DecodeString(key.PublicKey)
				i1, i2 := -1, -1
				for i := 8; i+1 < len(pkb) && (i1 < 0 || i2 < 0); i += 2 {
					if i1 < 0 && pkb[i] < 255 {
						i1 = i
					} else if i2 < 0 && pkb[i] > 0 {
						i2 = i
					}
				}
				if i1 < 0 || i2 < 0 {
					continue
				}
				pkb[i1]++
				pkb[i2]--
				twin := dns.Copy(key).(*dns.DNSKEY)
				twin.PublicKey = base64.StdEncoding.EncodeToString(pkb)
				in := fmt.Sprintf("alg=%d owner=%s", alg, owner)
				c.Pred("keys", "twin-has-same-tag", in, twin.KeyTag() == key.KeyTag(), fmt.Sprint(twin.KeyTag()), fmt.Sprint(key.KeyTag()), true)
				set := []dns.RR{&dns.A{Hdr: dns.RR_Header{Name: "a." + owner, Rrtype: dns.TypeA, Class: 1, Ttl: 60}, A: []byte{192, 0, 2, 7}}}
				sig := &dns.RRSIG{Hdr: dns.RR_Header{Name: "a." + owner, Rrtype: dns.TypeRRSIG, Class: 1, Ttl: 60}, Algorithm: alg, SignerName: owner,
					KeyTag: key.KeyTag(), Inception: uint32(time.Now().Unix() - 1000), Expiration: uint32(time.Now().Unix() + 1000)}
				if err := sig.Sign(priv.(crypto.Signer), set); err != nil {
					continue
				}
				ver := func(k *dns.DNSKEY) bool {
					return guard(func() string {
						if sig.Verify(k, set) == nil {
							return "ok"
						}
						return "err"
					}) == "ok"
				}
				var own, other bool
				if order == 0 {
					own = ver(key)
					other = ver(twin)
				} else {
					other = ver(twin)
					own = ver(key)
				}
				c.Pred("keys", "verifies-under-its-key", fmt.Sprintf("%s order=%d", in, order), own, "rejected", "accepted", true)
				c.Pred("keys", "rejected-under-colliding-key", fmt.Sprintf("%s order=%d", in, order), !other, "accepted", "rejected", true)
			}
		}
	}
}

func abs64(x int64) int64 {
	if x < 0 {
		return -x
	}
	return x
}


type hashQuery struct {
	op   string
	dt   int // DS digest type, or -1: NSEC3 hash
	iter int
	salt []byte
	lib  string
	in   string
}

func isASCII(s string) bool {
	for i := 0; i < len(s); i++ {
		if s[i] >= 0x80 {
			return false
		}
	}
	return true
}

func runHashQueries(c *Ctx, qs []hashQuery) {
	if len(qs) == 0 {
		return
	}
	ops := make([]string, len(qs))
	for i, q := range qs {
		ops[i] = q.op
	}
	outs, err := RunDriver(ops)
	if err != nil || len(outs) != len(ops) {
		c.Pred("hash-input", "hash-input-model-ran", fmt.Sprint(len(qs), " queries"), false, fmt.Sprint(err), "one line per query", true)
		return
	}
	c.Res.ModelOps += len(ops)
	for i, q := range qs {
		want := ""
		if outs[i] != "err" && outs[i] != "bad-op" {
			b := unhx(outs[i])
			switch q.dt {
			case 1:
				h := sha1.Sum(b)
				want = hex.EncodeToString(h[:])
			case 2:
				h := sha256.Sum256(b)
				want = hex.EncodeToString(h[:])
			case 4:
				h := sha512.Sum384(b)
				want = hex.EncodeToString(h[:])
			case -1:
				h := sha1.Sum(b)
				cur := h[:]
				for k := 0; k < q.iter; k++ {
					n := sha1.Sum(append(append([]byte{}, cur...), q.salt...))
					cur = n[:]
				}
				want = strings.ToLower(b32hex.EncodeToString(cur))
			}
		}
		c.count(q.op+" => "+q.lib, true)
		if want != q.lib {
			c.addViol(Violation{Key: "corr:hash-input", Kind: "correspondence", Stream: "hash-input", Op: q.op, Impl: q.lib, Model: want + " (hash of " + cut(outs[i], 120) + ")", Note: q.in})
		}
	}
}
