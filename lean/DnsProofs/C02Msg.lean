/-
  C02 (whole messages) — the decoder model of DnsModel/MsgUnpack.lean: every record read moves the offset forward by
  at least eleven octets and never beyond the input, so the number of records (and of loop rounds) is bounded by the
  octets present, whatever the counts in the header claim.
-/
import DnsModel.MsgUnpack
import DnsProofs.C18
namespace Dns.C02M
open Dns Dns.MU Dns.C18

theorem uintAt_spec (w : Nat) (msg : Bytes) (off v o : Nat) (h : uintAt w msg off = some (v, o)) :
    o = off + w ∧ o ≤ msg.length := by
  unfold uintAt at h
  split at h
  · simp at h; omega
  · simp at h

/-- **one record**: a record that is read ends inside the input; unless the offset already stood at the end of the input
    (the empty header, which the section loop discards), it lies at least eleven octets further on -/
theorem unpackRR_advance (msg : Bytes) (off : Nat) (r : RRm) (o : Nat) (hoff : off ≤ msg.length)
    (h : unpackRR msg off = some (r, o)) :
    o ≤ msg.length ∧ ((off = msg.length ∧ o = off) ∨ off + 11 ≤ o) := by
  unfold unpackRR at h
  split at h
  · simp at h; omega
  · rename_i hne
    split at h
    · rename_i name o1 hn
      have g1 := unpackName_gt msg off name o1 hn
      split at h
      · simp at h
      · rename_i typ o2 h2
        obtain ⟨e2, _⟩ := uintAt_spec 2 msg o1 typ o2 h2
        split at h
        · simp at h
        · rename_i cls o3 h3
          obtain ⟨e3, _⟩ := uintAt_spec 2 msg o2 cls o3 h3
          split at h
          · simp at h
          · rename_i ttl o4 h4
            obtain ⟨e4, _⟩ := uintAt_spec 4 msg o3 ttl o4 h4
            split at h
            · simp at h
            · rename_i rdlen o5 h5
              obtain ⟨e5, l5⟩ := uintAt_spec 2 msg o4 rdlen o5 h5
              split at h
              · simp at h
              · rename_i hlen
                simp only at h
                split at h
                · simp at h; omega
                · split at h
                  · simp at h
                  · split at h
                    · split at h
                      · rename_i hok
                        simp at h
                        omega
                      · simp at h
                    · simp at h
    · simp at h

/-- **sections**: a section that is read holds at most `count` records, at most one per eleven octets that were left,
    and ends inside the input -/
theorem unpackSection_bound (c : Nat) (msg : Bytes) (off : Nat) (acc rs : List RRm) (o : Nat) (hoff : off ≤ msg.length)
    (h : unpackSection c msg off acc = some (rs, o)) :
    off ≤ o ∧ o ≤ msg.length ∧ rs.length ≤ acc.length + c ∧ acc.length + (rs.length - acc.length) = rs.length ∧
      11 * (rs.length - acc.length) ≤ o - off := by
  induction c generalizing off acc with
  | zero => simp [unpackSection] at h; obtain ⟨rfl, rfl⟩ := h; simp; exact hoff
  | succ c ih =>
    simp only [unpackSection] at h
    split at h
    · simp at h
    · rename_i r off' hr
      obtain ⟨l1, l2⟩ := unpackRR_advance msg off r off' hoff hr
      split at h
      · simp at h; obtain ⟨rfl, rfl⟩ := h; simp; exact hoff
      · rename_i hne
        have hadv : off + 11 ≤ off' := by
          rcases l2 with ⟨_, e⟩ | l2
          · exact absurd e hne
          · exact l2
        obtain ⟨a1, a2, a3, a4, a5⟩ := ih off' (r :: acc) l1 h
        simp only [List.length_cons] at a3 a4 a5
        refine ⟨by omega, a2, by omega, by omega, by omega⟩

/-- the counts are only an upper limit: beyond the number of records that fit, a larger count changes nothing
    ("lying counts") -/
theorem unpackSection_count_irrelevant (c : Nat) (msg : Bytes) (off : Nat) (acc : List RRm) (hoff : off ≤ msg.length)
    (hc : msg.length - off < 11 * c) :
    unpackSection (c + 1) msg off acc = unpackSection c msg off acc := by
  induction c generalizing off acc with
  | zero => omega
  | succ c ih =>
    conv => lhs; rw [unpackSection]
    conv => rhs; rw [unpackSection]
    split
    · rfl
    · rename_i r off' hr
      obtain ⟨l1, l2⟩ := unpackRR_advance msg off r off' hoff hr
      split
      · rfl
      · rename_i hne
        have hadv : off + 11 ≤ off' := by
          rcases l2 with ⟨_, e⟩ | l2
          · exact absurd e hne
          · exact l2
        by_cases hz : c = 0
        · subst hz; omega
        · exact ih off' (r :: acc) l1 (by omega)

theorem unpackQuestion_advance (msg : Bytes) (off : Nat) (q : Qm) (o : Nat) (h : unpackQuestion msg off = some (q, o)) :
    off < o ∧ o ≤ msg.length := by
  unfold unpackQuestion at h
  split at h
  · rename_i name o1 hn
    have g1 := unpackName_gt msg off name o1 hn
    have g2 := unpackName_le msg off name o1 hn
    split at h
    · simp at h; omega
    · split at h
      · simp at h
      · rename_i typ o2 h2
        obtain ⟨e2, l2⟩ := uintAt_spec 2 msg o1 typ o2 h2
        split at h
        · simp at h; omega
        · split at h
          · simp at h
          · rename_i cls o3 h3
            obtain ⟨e3, l3⟩ := uintAt_spec 2 msg o2 cls o3 h3
            simp at h; omega
  · simp at h

/-- the question loop: at most `count` questions, one per octet at the very least, ending inside the input -/
theorem unpackQuestions_bound (c : Nat) (msg : Bytes) (off : Nat) (acc : List Qm) (hoff : off ≤ msg.length) :
    off ≤ (unpackQuestions c msg off acc).2.1 ∧ (unpackQuestions c msg off acc).2.1 ≤ msg.length ∧
      (unpackQuestions c msg off acc).1.length ≤ acc.length + c ∧
      (unpackQuestions c msg off acc).1.length ≤ acc.length + ((unpackQuestions c msg off acc).2.1 - off) := by
  induction c generalizing off acc with
  | zero => simp [unpackQuestions]; exact hoff
  | succ c ih =>
    simp only [unpackQuestions]
    split
    · simp; exact hoff
    · rename_i q off' hq
      obtain ⟨l1, l2⟩ := unpackQuestion_advance msg off q off' hq
      split
      · simp; exact hoff
      · obtain ⟨a1, a2, a3, a4⟩ := ih off' (q :: acc) l2
        simp only [List.length_cons] at a3 a4
        exact ⟨by omega, a2, by omega, by omega⟩

/-- **whole message**: however large the four counts in the header are, the records of the three sections together are
    at most one per eleven octets of input behind the header, and the questions at most one per octet -/
theorem unpackMsg_records_bounded (msg : Bytes) (m : MsgM) (h : unpackMsg msg = some m) :
    11 * (m.answer.length + m.ns.length + m.extra.length) ≤ msg.length - 12 ∧ m.question.length ≤ msg.length - 12 := by
  unfold unpackMsg at h
  split at h
  · simp at h
  · rename_i hlen
    simp only [Nat.reduceMul] at h
    have hq := unpackQuestions_bound (beVal ((msg.drop 4).take 2)) msg 12 [] (by omega)
    obtain ⟨q1, q2, _, q4⟩ := hq
    simp only [List.length_nil, Nat.zero_add] at q4
    split at h
    · simp at h; subst h; simp
    · split at h
      · simp at h; subst h; simp; omega
      · split at h
        · simp at h; subst h; simp; omega
        · rename_i an o1 ha
          obtain ⟨a1, a2, _, _, a5⟩ := unpackSection_bound _ msg _ [] an o1 q2 ha
          simp only [List.length_nil, Nat.sub_zero] at a5
          split at h
          · simp at h; subst h; simp; omega
          · rename_i ns o2 hn
            obtain ⟨b1, b2, _, _, b5⟩ := unpackSection_bound _ msg _ [] ns o2 a2 hn
            simp only [List.length_nil, Nat.sub_zero] at b5
            split at h
            · simp at h; subst h; simp; omega
            · rename_i ex o3 he
              obtain ⟨c1, c2, _, _, c5⟩ := unpackSection_bound _ msg _ [] ex o3 b2 he
              simp only [List.length_nil, Nat.sub_zero] at c5
              simp at h; subst h; simp; omega

/-- the premise is satisfiable (a bare header whose counts claim 65535 records each); on longer inputs the compiled
    model is run against `Msg.Unpack` by the `msg.unpack` correspondence (the name decoder is defined by well-founded
    recursion, which the kernel does not unfold by `decide`) -/
example : (unpackMsg [0x12, 0x34, 0x81, 0x80, 0xFF, 0xFF, 0xFF, 0xFF, 0xFF, 0xFF, 0xFF, 0xFF]).isSome = true := by decide

end Dns.C02M
