/-
  DnsModel.Codec — the primitives of msg_helpers.go as total functions on octet lists, and the generated per-type
  pack / unpack bodies (DnsModel/Generated/Codecs.lean, translated from zmsg.go) interpreted over them.

  Values are wire-level: integers, octet strings (what the hex / base64 / character-string text denotes), names as
  presentation text (so that packName / unpackName of DnsModel.Name are the name codec), lists of character-strings.
  The RDATA handed to `unpack` is cut at RDLENGTH, as UnpackRRWithHeader does (`msg[:end]`).
-/
import DnsModel.CodecBase
import DnsModel.Name
import DnsModel.Nsec
namespace Dns

inductive Val where
  | n (v : Nat)
  | b (bs : Bytes)
  | t (text : Bytes)          -- a domain name in presentation form
  | ss (strs : List Bytes)
  | ts (types : List Nat)     -- a type bitmap as the list of type codes
  | ns (names : List Bytes)   -- a list of domain names in presentation form
  | kv (items : List (Nat × Bytes))          -- EDNS0 options / SVCB parameters: code and value octets
  | ap (items : List (Nat × Bool × Bytes))   -- APL items: plen length, negation, address (4 or 16 octets)
deriving Repr, DecidableEq

/-- what a field holds when the unpacker stopped before reaching it -/
def zeroVal : CStep → Option Val
  | .early => none
  | .uint _ => some (.n 0)
  | .a | .aaaa | .blobRest | .blobSized _ => some (.b [])
  | .str => some (.b [])
  | .name => some (.t [])
  | .txt => some (.ss [])
  | .nsec => some (.ts [])
  | .gateway _ _ => some (.b [])
  | .names => some (.ns [])
  | .tlvs _ => some (.kv [])
  | .apl => some (.ap [])
  | .other => none

def packTxtStrings : List Bytes → Option Bytes
  | [] => some []
  | s :: rest =>
    if s.length ≤ 255 then (packTxtStrings rest).map (fun r => UInt8.ofNat s.length :: s ++ r) else none

def packNames : List Bytes → Option Bytes
  | [] => some []
  | t :: rest => match packName t, packNames rest with
    | .ok w, some r => some (w ++ r)
    | _, _ => none

def unpackNames : (fuel : Nat) → Bytes → Option (List Bytes)
  | 0, _ => none
  | _ + 1, [] => some []
  | f + 1, rd => match unpackName rd 0 with
    | .ok (text, off) => if off = 0 then none else (unpackNames f (rd.drop off)).map (fun r => text :: r)
    | _ => none

/-! #### type-length-value lists: `packDataOpt` / `unpackDataOpt`, `packDataSVCB` / `unpackDataSVCB` -/

def packTlvs : List (Nat × Bytes) → Option Bytes
  | [] => some []
  | (c, d) :: rest =>
    if c < 65536 ∧ d.length < 65536 then (packTlvs rest).map (fun r => beBytes 2 c ++ (beBytes 2 d.length ++ (d ++ r))) else none

/-- `sort.Slice(pairs, key <)` (the order of equal keys does not matter: they are rejected right after) -/
def insertKV (x : Nat × Bytes) : List (Nat × Bytes) → List (Nat × Bytes)
  | [] => [x]
  | y :: ys => if x.1 < y.1 then x :: y :: ys else y :: insertKV x ys

def sortKV : List (Nat × Bytes) → List (Nat × Bytes)
  | [] => []
  | x :: xs => insertKV x (sortKV xs)

/-- packDataSVCB's walk over the sorted pairs: a key equal to the previous one (`svcb_RESERVED` = 65535 to begin with)
    is "repeated" -/
def svcbKeysOK (prev : Nat) : List (Nat × Bytes) → Bool
  | [] => true
  | (c, _) :: rest => c != prev && svcbKeysOK c rest

/-- unpackDataSVCB: key 65535 has no value type ("bad SVCB key"); keys must be strictly increasing -/
def svcbKeyBad (prev : Option Nat) (c : Nat) : Bool :=
  c == 65535 || (match prev with | some p => decide (c ≤ p) | none => false)

def unpackTlvs (sorted : Bool) : (fuel : Nat) → (prev : Option Nat) → Bytes → Option (List (Nat × Bytes))
  | 0, _, _ => none
  | f + 1, prev, rd =>
    if rd.isEmpty then some []
    else if 4 ≤ rd.length then
      let c := beVal (rd.take 2)
      let n := beVal ((rd.drop 2).take 2)
      let body := rd.drop 4
      if n ≤ body.length then
        if sorted && svcbKeyBad prev c then none
        else (unpackTlvs sorted f (some c) (body.drop n)).map (fun r => (c, body.take n) :: r)
      else none
    else none

/-! #### APL items: `packDataAplPrefix` / `unpackDataAplPrefix` -/

/-- `IP.Mask(CIDRMask(p, 8*len))` -/
def maskBytes : Nat → Bytes → Bytes
  | _, [] => []
  | p, b :: bs => (if 8 ≤ p then b else b &&& (UInt8.ofNat (256 - 2 ^ (8 - p)))) :: maskBytes (p - 8) bs

def trimZeros (bs : Bytes) : Bytes := (bs.reverse.dropWhile (· == 0)).reverse

def packAplItem : Nat × Bool × Bytes → Option Bytes
  | (plen, neg, ip) =>
    if (ip.length = 4 ∨ ip.length = 16) ∧ plen ≤ 8 * ip.length then
      let addr := trimZeros ((maskBytes plen ip).take ((plen + 7) / 8))
      some (beBytes 2 (if ip.length = 4 then 1 else 2) ++
        (UInt8.ofNat plen :: UInt8.ofNat ((if neg then 128 else 0) + addr.length) :: addr))
    else none

def packApl : List (Nat × Bool × Bytes) → Option Bytes
  | [] => some []
  | it :: rest => match packAplItem it, packApl rest with
    | some a, some r => some (a ++ r)
    | _, _ => none

def unpackAplItem (rd : Bytes) : Option ((Nat × Bool × Bytes) × Bytes) :=
  if 4 ≤ rd.length then
    let fam := beVal (rd.take 2)
    let plen := (rd.getD 2 0).toNat
    let nlen := (rd.getD 3 0).toNat
    let body := rd.drop 4
    let full := if fam = 1 then 4 else 16
    let afdlen := nlen % 128
    if (fam = 1 ∨ fam = 2) ∧ plen ≤ 8 * full ∧ afdlen ≤ full ∧ afdlen ≤ body.length then
      let addr := body.take afdlen
      -- "Address MUST NOT contain trailing zero bytes"
      if afdlen > 0 ∧ addr.getD (afdlen - 1) 0 = 0 then none
      else some ((plen, decide (128 ≤ nlen), addr ++ List.replicate (full - afdlen) 0), body.drop afdlen)
    else none
  else none

def unpackApl : (fuel : Nat) → Bytes → Option (List (Nat × Bool × Bytes))
  | 0, _ => none
  | f + 1, rd =>
    if rd.isEmpty then some []
    else match unpackAplItem rd with
      | some (it, rest) => (unpackApl f rest).map (fun r => it :: r)
      | none => none

/-- the gateway type that selects the shape of an IPSECKEY / AMTRELAY gateway -/
def gatewayType (vals : List Val) (idx : Nat) (mask7 : Bool) : Nat :=
  match vals.getD idx (.n 0) with
  | .n v => if mask7 then v % 128 else v
  | _ => 0

/-- one step of a generated `pack` body -/
def packStep (vals : List Val) : CStep → Val → Option Bytes
  | .uint w, .n v => if v < 256 ^ w then some (beBytes w v) else none
  | .a, .b bs => if bs.length = 4 ∨ bs.length = 0 then some bs else none
  | .aaaa, .b bs => if bs.length = 16 ∨ bs.length = 0 then some bs else none
  | .str, .b bs => if bs.length ≤ 255 then some (UInt8.ofNat bs.length :: bs) else none
  | .name, .t text => match packName text with | .ok w => some w | _ => none
  | .blobRest, .b bs => some bs
  | .blobSized _, .b bs => some bs
  | .txt, .ss strs => packTxtStrings strs
  | .nsec, .ts types => packNsec types
  | .names, .ns texts => packNames texts
  | .tlvs false, .kv items => packTlvs items
  | .tlvs true, .kv items => if svcbKeysOK 65535 (sortKV items) then packTlvs (sortKV items) else none
  | .apl, .ap items => packApl items
  | .gateway i m, v =>
    match gatewayType vals i m, v with
    | 1, .b bs => if bs.length = 4 ∨ bs.length = 0 then some bs else none
    | 2, .b bs => if bs.length = 16 ∨ bs.length = 0 then some bs else none
    | 3, .t text => match packName text with | .ok w => some w | _ => none
    | 3, .b [] => some []        -- the zero value after an early exit: no host, packDomainName("") writes nothing
    | 1, _ => none
    | 2, _ => none
    | 3, _ => none
    | _, .b [] => some []
    | _, _ => none
  | _, _ => none

def packPlanAcc : List Val → List CStep → List Val → Option Bytes
  | _, [], [] => some []
  | acc, .early :: steps, vals => packPlanAcc acc steps vals
  | acc, s :: steps, v :: vals =>
    match packStep acc s v, packPlanAcc (acc ++ [v]) steps vals with
    | some a, some r => some (a ++ r)
    | _, _ => none
  | _, _, _ => none

def packPlan (steps : List CStep) (vals : List Val) : Option Bytes := packPlanAcc [] steps vals

def unpackTxtStrings : (fuel : Nat) → Bytes → Option (List Bytes)
  | 0, _ => none
  | _ + 1, [] => some []
  | f + 1, l :: rest =>
    if l.toNat ≤ rest.length then (unpackTxtStrings f (rest.drop l.toNat)).map (fun r => rest.take l.toNat :: r) else none

/-- one step of a generated `unpack` body on the remaining RDATA: the value and what is left -/
def unpackStep (vals : List Val) : CStep → Bytes → Option (Val × Bytes)
  | .uint w, rd => if w ≤ rd.length then some (.n (beVal (rd.take w)), rd.drop w) else none
  | .a, rd => if 4 ≤ rd.length then some (.b (rd.take 4), rd.drop 4) else none
  | .aaaa, rd => if 16 ≤ rd.length then some (.b (rd.take 16), rd.drop 16) else none
  | .str, [] => none
  | .str, l :: rest => if l.toNat ≤ rest.length then some (.b (rest.take l.toNat), rest.drop l.toNat) else none
  | .name, rd => match unpackName rd 0 with | .ok (text, off) => some (.t text, rd.drop off) | _ => none
  | .blobRest, rd => some (.b rd, [])
  | .blobSized i, rd =>
    match vals.getD i (.n 0) with
    | .n size => if size ≤ rd.length then some (.b (rd.take size), rd.drop size) else none
    | _ => none
  | .txt, rd => (unpackTxtStrings (rd.length + 1) rd).map (fun ss => (.ss ss, []))
  | .nsec, rd => (unpackNsec rd).map (fun ts => (.ts ts, []))
  | .names, rd => (unpackNames (rd.length + 1) rd).map (fun ns => (.ns ns, []))
  | .tlvs sorted, rd => (unpackTlvs sorted (rd.length + 1) none rd).map (fun kv => (.kv kv, []))
  | .apl, rd => (unpackApl (rd.length + 1) rd).map (fun ap => (.ap ap, []))
  | .gateway i m, rd =>
    match gatewayType vals i m with
    | 1 => if 4 ≤ rd.length then some (.b (rd.take 4), rd.drop 4) else none
    | 2 => if 16 ≤ rd.length then some (.b (rd.take 16), rd.drop 16) else none
    | 3 => (match unpackName rd 0 with | .ok (text, off) => some (.t text, rd.drop off) | _ => none)
    | _ => some (.b [], rd)
  | _, _ => none

/-- a generated `unpack` body: `acc` the fields decoded so far (in order) -/
def unpackPlan : List CStep → Bytes → List Val → Option (List Val)
  | [], rd, acc => if rd.isEmpty then some acc else some acc   -- trailing octets are the caller's business (off != end)
  | .early :: steps, rd, acc =>
    if rd.isEmpty then some (acc ++ steps.filterMap zeroVal) else unpackPlan steps rd acc
  | s :: steps, rd, acc =>
    match unpackStep acc s rd with
    | some (v, rd') => unpackPlan steps rd' (acc ++ [v])
    | none => none

/-- the pack plan that belongs to an unpack plan: same steps without the early exits, sized blobs copied -/
def stripPlan : List CStep → List CStep
  | [] => []
  | .early :: s => stripPlan s
  | .blobSized _ :: s => .blobRest :: stripPlan s
  | x :: s => x :: stripPlan s

end Dns
