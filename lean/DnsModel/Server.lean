/-
  DnsModel.Server — server.go start / accept / serve / shutdown bookkeeping (TCP flavour; the UDP loop has
  the same shape with packets instead of connections) as an interleaving state machine.
  Every critical section of srv.lock is one atomic step.
-/
import DnsModel.Framing
namespace Dns

inductive ServePc where
  | idle          -- serve not called
  | loopTop       -- about to evaluate `srv.isStarted()`
  | inAccept      -- blocked in Accept
  | accepted (c : Nat)   -- Accept returned connection c, not yet registered
  | exiting       -- left the loop, in `wg.Wait()`
  | exited        -- `close(srv.shutdown)` done, serve returned nil
deriving Repr, DecidableEq

inductive WPc where
  | none | check | refresh | blocked | handling | closing | done
deriving Repr, DecidableEq

inductive SdPc where
  | none | waiting | returned | returnedCtx
deriving Repr, DecidableEq

structure Srv where
  started : Bool
  lstClosed : Bool
  chanClosed : Bool
  serve : ServePc
  reg : Nat → Bool          -- connection tracked in srv.conns
  dlPast : Nat → Bool       -- read deadline of the connection lies in the past
  wpc : Nat → WPc           -- per-connection worker
  sd : SdPc

def Srv.allDone (s : Srv) : Prop := ∀ c, s.wpc c = .none ∨ s.wpc c = .done

inductive SEv where
  | start                    -- ListenAndServe / ActivateAndServe critical section, enters serve loop
  | loopCheck                -- `for srv.isStarted()`
  | acceptConn (c : Nat)     -- Accept returns a new connection
  | acceptErr                -- Accept fails (listener closed)
  | register (c : Nat)       -- conns[c] = {}; wg.Add(1); go serveTCPConn
  | wCheck (c : Nat)         -- worker loop condition `srv.isStarted()`
  | wRefresh (c : Nat)       -- readTCP: RLock; if started { SetReadDeadline(future) }; RUnlock
  | wReadOk (c : Nat)        -- a request was read: handler starts
  | wReadErr (c : Nat)       -- read failed (deadline passed, or peer closed)
  | wHandlerDone (c : Nat)
  | wClose (c : Nat)         -- Close; delete(conns, c); wg.Done()
  | serveExit                -- wg.Wait() returned; close(srv.shutdown); return nil
  | sdCritical               -- ShutdownContext critical section
  | sdReturn                 -- <-srv.shutdown
  | sdCtx                    -- <-ctx.Done()

def Srv.enabled (s : Srv) : SEv → Prop
  | .start => s.started = false ∧ s.serve = .idle
  | .loopCheck => s.serve = .loopTop
  | .acceptConn c => s.serve = .inAccept ∧ s.lstClosed = false ∧ s.wpc c = .none
  | .acceptErr => s.serve = .inAccept ∧ s.lstClosed = true
  | .register c => s.serve = .accepted c
  | .wCheck c => s.wpc c = .check
  | .wRefresh c => s.wpc c = .refresh
  | .wReadOk c => s.wpc c = .blocked ∧ s.dlPast c = false
  | .wReadErr c => s.wpc c = .blocked
  | .wHandlerDone c => s.wpc c = .handling
  | .wClose c => s.wpc c = .closing
  | .serveExit => s.serve = .exiting ∧ s.allDone
  | .sdCritical => s.sd = .none ∧ s.started = true
  | .sdReturn => s.sd = .waiting ∧ s.chanClosed = true
  | .sdCtx => s.sd = .waiting

def Srv.step (s : Srv) : SEv → Srv
  | .start => { s with started := true, serve := .loopTop }
  | .loopCheck => { s with serve := if s.started then .inAccept else .exiting }
  | .acceptConn c => { s with serve := .accepted c }
  | .acceptErr => { s with serve := .exiting }      -- `if !srv.isStarted() { return nil }` (started is false once closed)
  | .register c => { s with reg := upd s.reg c true, wpc := upd s.wpc c .check, serve := .loopTop }
  | .wCheck c => { s with wpc := upd s.wpc c (if s.started then .refresh else .closing) }
  | .wRefresh c => { s with dlPast := if s.started then upd s.dlPast c false else s.dlPast, wpc := upd s.wpc c .blocked }
  | .wReadOk c => { s with wpc := upd s.wpc c .handling }
  | .wReadErr c => { s with wpc := upd s.wpc c .closing }
  | .wHandlerDone c => { s with wpc := upd s.wpc c .check }
  | .wClose c => { s with reg := upd s.reg c false, wpc := upd s.wpc c .done }
  | .serveExit => { s with chanClosed := true, serve := .exited }
  | .sdCritical => { s with started := false, lstClosed := true, dlPast := fun c => if s.reg c then true else s.dlPast c, sd := .waiting }
  | .sdReturn => { s with sd := .returned }
  | .sdCtx => { s with sd := .returnedCtx }

def Srv.init : Srv := ⟨false, false, false, .idle, fun _ => false, fun _ => false, fun _ => .none, .none⟩

inductive Srv.Reach : Srv → Prop
  | init : Srv.Reach Srv.init
  | step (s : Srv) (e : SEv) : Srv.Reach s → s.enabled e → Srv.Reach (s.step e)

end Dns
