/-
  C05 — "any type may be written in the RFC 3597 generic form with the same result": the generic form of non-empty RDATA
  that `(*RFC3597).String` prints is read back by `(*RFC3597).parse` through the lexer as the same hex text
  (`generic_text_roundtrip`), and `fromRFC3597` with the unpack body of any generated type then gives the field values
  the RDATA was packed from (`generic_same_result`: the text algebra's lexer lemmas composed with the codec algebra's
  round trip).
-/
import DnsModel.Generic
import DnsProofs.C05Text
import DnsProofs.C01Codec
namespace Dns.C05G
open Dns Dns.Lex Dns.TextCodec Dns.Generic Dns.C07 Dns.C06T Dns.C05X Dns.C01

theorem hexDigit_facts : ∀ n : Fin 16, hexVal (hexDigit n.val) = some n.val ∧ plain (hexDigit n.val) = true := by decide

theorem hex_byte (b : Byte) : (UInt8.ofNat (b.toNat / 16 * 16 + b.toNat % 16)) = b := by
  have : b.toNat / 16 * 16 + b.toNat % 16 = b.toNat := by omega
  rw [this]
  exact UInt8.ofNat_toNat

/-- **unhex_hex**: decoding the hex text of an octet string gives the octets -/
theorem unhex_hex (rd : Bytes) : unhexOf (hexOf rd) = some rd := by
  induction rd with
  | nil => rfl
  | cons b rd ih =>
    have hb := b.toNat_lt
    have h1 := (hexDigit_facts ⟨b.toNat / 16, by omega⟩).1
    have h2 := (hexDigit_facts ⟨b.toNat % 16, by omega⟩).1
    simp only at h1 h2
    simp only [hexOf, unhexOf, h1, h2, ih, hex_byte]

theorem hex_length (rd : Bytes) : (hexOf rd).length = 2 * rd.length := by
  induction rd with
  | nil => rfl
  | cons b rd ih => simp only [hexOf, List.length_cons, ih]; omega

theorem hex_plain (rd : Bytes) : (hexOf rd).all plain = true := by
  induction rd with
  | nil => rfl
  | cons b rd ih =>
    have hb := b.toNat_lt
    have h1 := (hexDigit_facts ⟨b.toNat / 16, by omega⟩).2
    have h2 := (hexDigit_facts ⟨b.toNat % 16, by omega⟩).2
    simp only at h1 h2
    simp only [hexOf, List.all_cons, h1, h2, ih, Bool.and_self]

theorem hex_ne_nil (rd : Bytes) (h : rd ≠ []) : hexOf rd ≠ [] := by
  cases rd with
  | nil => exact absurd rfl h
  | cons b rd => simp [hexOf]

/-- **generic_text_roundtrip**: what `(*RFC3597).String` prints for non-empty RDATA, `(*RFC3597).parse` reads back —
    through the lexer, from the position behind the type and its blank, whatever follows the line -/
theorem generic_text_roundtrip (zl : St) (hL : LS zl false true true) (rd rest : Bytes) (hne : rd ≠ [])
    (hlen : rd.length < 65536) :
    parseGeneric (stream zl (printGeneric (hexOf rd) ++ 10 :: rest)) = some (hexOf rd) := by
  have hw1 : Word [92, 35] := ⟨by decide, by decide⟩
  obtain ⟨hd, hv⟩ := itoa_spec ((hexOf rd).length / 2)
  have hw2 : Word (itoa ((hexOf rd).length / 2)) := digits_word _ hd
  have hw3 : Word (hexOf rd) := ⟨hex_ne_nil rd hne, plain_wordOK _ (hex_plain rd) (hex_ne_nil rd hne)⟩
  have hn : (hexOf rd).length / 2 = rd.length := by rw [hex_length]; omega
  have e : printGeneric (hexOf rd) ++ 10 :: rest =
      [92, 35] ++ 32 :: (itoa ((hexOf rd).length / 2) ++ 32 :: (hexOf rd ++ 10 :: rest)) := by
    simp [printGeneric, List.append_assoc]
  rw [e]
  obtain ⟨t1, b1, zl1, hs1, htk1, hte1, htv1, hbv1, hbe1, hL1⟩ :=
    rdata_word_tokens zl [92, 35] (itoa ((hexOf rd).length / 2) ++ 32 :: (hexOf rd ++ 10 :: rest)) hL hw1
  obtain ⟨t2, b2, zl2, hs2, htk2, hte2, htv2, hbv2, hbe2, hL2⟩ :=
    rdata_word_tokens zl1 (itoa ((hexOf rd).length / 2)) (hexOf rd ++ 10 :: rest) hL1 hw2
  obtain ⟨t3, b3, zl3, hs3, htk3, hte3, htv3, hbv3, hbe3⟩ := rdata_last_tokens zl2 (hexOf rd) rest hL2 hw3
  rw [hs1, hs2, hs3]
  have hp : parseUintN 16 (itoa ((hexOf rd).length / 2)) = some ((hexOf rd).length / 2) := by
    have := parseUintN_digits 16 _ hd (by rw [hv, hn]; omega)
    rw [hv] at this
    exact this
  simp only [parseGeneric, headTok, htk1, List.tail_cons, htk2, hp, hte2]
  simp [endingToString, hbv2, hbe2, htv3, hte3, hbv3, htk3, zNewline, zString, zBlank, hex_length]
  omega

/-- **generic_same_result**: a record of any generated type whose RDATA (non-empty, the octets its pack body writes for
    fitting field values) is written in the generic form is read back — parsed as RFC3597, the hex text decoded, the
    type's own unpack body run on the octets — as exactly those field values -/
theorem generic_same_result (kind : String) (U : List CStep) (vals : List Val) (rd : Bytes)
    (hk : Gen.unpackCodecs.lookup kind = some U) (hg : GoodPlan U = true) (hw : WFPlan [] U vals)
    (hp : packPlan (stripPlan U) vals = some rd) (hne : rd ≠ []) (hlen : rd.length < 65536)
    (zl : St) (hL : LS zl false true true) (rest : Bytes) :
    (parseGeneric (stream zl (printGeneric (hexOf rd) ++ 10 :: rest))).bind (fromGeneric kind) = some (some vals) := by
  rw [generic_text_roundtrip zl hL rd rest hne hlen]
  obtain ⟨w, h1, h2⟩ := plan_roundtrip [] U vals hg hw
  have : w = rd := by
    unfold packPlan at hp
    rw [h1] at hp
    exact Option.some.inj hp
  subst this
  simp only [Option.bind_some, fromGeneric, unhex_hex, hk]
  have hn : (hexOf w).isEmpty = false := by
    cases hh : hexOf w with
    | nil => exact absurd hh (hex_ne_nil w hne)
    | cons _ _ => rfl
  simp [hn, h2]

end Dns.C05G
