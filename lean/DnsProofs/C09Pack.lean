/-
  C09 (packed size) — Truncate's budget is honoured by the packer: what Truncate keeps, packed with compression after
  the 12-octet header, is no longer than the budget.  Composition of `kept_len_le` (C09) with `len_ge_pack` (C08):
  records are lists of fields (opaque octets, then a valid name, compressed or not).
-/
import DnsProofs.C09
import DnsProofs.C08Sim
namespace Dns.C09
open Dns Dns.C03 Dns.C04 Dns.C08

/-- Len over fields, also returning the simulated compression set -/
def lenFieldsSt : List Field → Nat → List Bytes → Nat × List Bytes
  | [], off, c => (off, c)
  | f :: fs, off, c =>
    let r := domainNameLen (presentLabels f.name) (off + f.gap.length) (some c) f.cp
    lenFieldsSt fs (off + f.gap.length + r.1) (r.2.getD c)

theorem lenFieldsSt_fst (fs : List Field) (off : Nat) (c : List Bytes) : (lenFieldsSt fs off c).1 = lenFields fs off c := by
  induction fs generalizing off c with
  | nil => rfl
  | cons f fs ih => simp only [lenFieldsSt, lenFields]; exact ih _ _

theorem lenFieldsSt_ge (fs : List Field) (off : Nat) (c : List Bytes) : off ≤ (lenFieldsSt fs off c).1 := by
  induction fs generalizing off c with
  | nil => exact Nat.le_refl _
  | cons f fs ih =>
    simp only [lenFieldsSt]
    exact Nat.le_trans (by omega) (ih _ _)

theorem lenFieldsSt_append (a b : List Field) (off : Nat) (c : List Bytes) :
    lenFieldsSt (a ++ b) off c = lenFieldsSt b (lenFieldsSt a off c).1 (lenFieldsSt a off c).2 := by
  induction a generalizing off c with
  | nil => rfl
  | cons f fs ih => simp only [List.cons_append, lenFieldsSt]; exact ih _ _

/-- `r.len(l, compression)` of a record given as its fields -/
def lenRec (c : List Bytes) (l : Nat) (r : List Field) : Nat × List Bytes :=
  ((lenFieldsSt r l c).1 - l, (lenFieldsSt r l c).2)

theorem lenFold_lenRec (rs : List (List Field)) (l : Nat) (c : List Bytes) :
    lenFold lenRec rs l c = lenFieldsSt rs.flatten l c := by
  induction rs generalizing l c with
  | nil => rfl
  | cons r rs ih =>
    simp only [lenFold, lenRec, List.flatten_cons, lenFieldsSt_append]
    have := lenFieldsSt_ge r l c
    have e : l + ((lenFieldsSt r l c).1 - l) = (lenFieldsSt r l c).1 := by omega
    rw [e]
    exact ih _ _

/-- **truncated_packs_within_budget**: for every message of records made of fields with valid names, every budget that
    leaves room for the question, and any 12-octet header, the records Truncate keeps — question, then the kept
    prefixes of the three sections — pack (with the compression each field asks for) into at most `budget` octets -/
theorem truncated_packs_within_budget (m : TMsg (List Field)) (size : Int) (hdr : Bytes) (hh : hdr.length = 12)
    (hv : ∀ r ∈ m.question ++ m.answer ++ m.ns ++ m.extra, ∀ f ∈ r, f.name ≠ [] ∧ Valid f.name)
    (hq : ((lenFold lenRec m.question 12 ([] : List Bytes)).1 : Int) ≤ size) :
    let c := truncCounts lenRec ([] : List Bytes) size m
    let kept := m.question ++ m.answer.take c.a.2.1 ++ m.ns.take c.n.2.1 ++ m.extra.take c.e.2.1
    ((packFields kept.flatten hdr []).1.length : Int) ≤ size := by
  intro c kept
  have hlen := kept_len_le lenRec ([] : List Bytes) size m hq
  simp only at hlen
  rw [lenFold_lenRec, lenFieldsSt_fst] at hlen
  have hvk : ∀ f ∈ kept.flatten, f.name ≠ [] ∧ Valid f.name := by
    intro f hf
    obtain ⟨r, hr, hfr⟩ := List.mem_flatten.mp hf
    have hsub : r ∈ m.question ++ m.answer ++ m.ns ++ m.extra := by
      simp only [kept, List.mem_append] at hr ⊢
      rcases hr with ((h | h) | h) | h
      · exact Or.inl (Or.inl (Or.inl h))
      · exact Or.inl (Or.inl (Or.inr (List.mem_of_mem_take h)))
      · exact Or.inl (Or.inr (List.mem_of_mem_take h))
      · exact Or.inr (List.mem_of_mem_take h)
    exact hv r hsub f hfr
  have hpack := len_ge_pack kept.flatten hdr 12 [] []
    ⟨by omega, by simp, by simp, by intro l more p _ _ h; simp [CMap.find] at h⟩ hvk
  have : ((packFields kept.flatten hdr []).1.length : Int) ≤ (lenFields kept.flatten 12 [] : Int) := by
    exact_mod_cast hpack
  exact Int.le_trans this hlen

end Dns.C09
