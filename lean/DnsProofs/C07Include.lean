/-
  C07 / C06 — `$INCLUDE` on the model of DnsModel/Include.lean.

  C07: a parser on which includes were not enabled opens nothing (`no_open_unless_allowed`); every `Open` is asked for by a
  parser at a depth below `maxIncludeDepth`, whatever the files contain — a file that includes itself too
  (`opens_depth`); the reading is a total function and the fuel that bounds the nesting is never the reason for a result
  (`fuel_irrelevant`).
  C06: on texts without the directive the reading is the one the text theorems are about (`readI_plain`:
  `readZone` of DnsModel/ZoneText.lean); the records of an included file stand where the directive stands, and the
  including parser carries on with its own origin, default TTL and previous owner (`include_inlines`).
-/
import DnsModel.Include
namespace Dns.C07I
open Dns Dns.Lex Dns.ZoneText Dns.Inc

/-- `zrun` is the iteration of `zstep` -/
theorem zrun_step (t : ZTok) (ts : List ZTok) (st : ZSt) (zp : ZP) (acc : List ZHdr) :
    zrun (t :: ts) st zp acc =
      match zstep t st zp with
      | none => (acc.reverse, true)
      | some (st', zp', out) => zrun ts st' zp' (out.toList ++ acc) := by
  cases st <;> cases t <;> simp only [zrun, zstep] <;>
    (repeat' split) <;>
    (try simp_all [Option.toList]) <;>
    (try (rcases ‹_ ∧ _ ∧ _› with ⟨rfl, rfl, rfl⟩)) <;>
    (try simp_all)

theorem runLevel_plain (allowed : Bool) (sub : Bytes → Bytes → Option (Nat × Bool) → IRes) (ts : List ZTok) (st : ZSt) (zp : ZP)
    (acc : List ZHdr) (ops : List (Nat × Bytes)) :
    runLevel allowed sub (ts.map .plain) st zp acc ops = ⟨(zrun ts st zp acc).1, (zrun ts st zp acc).2, ops⟩ := by
  induction ts generalizing st zp acc with
  | nil => simp [runLevel, zrun]
  | cons t ts ih =>
    simp only [List.map_cons, runLevel, zrun_step]
    cases h : zstep t st zp with
    | none => simp
    | some r =>
      obtain ⟨st', zp', out⟩ := r
      simp only
      exact ih st' zp' _

/-- without the directive the abstract tokens are those of DnsModel/ZoneText.lean -/
theorem absTokensI_plain (m : Mode) (toks : List Tok) (h : ∀ t ∈ toks, t.value ≠ zDirInclude) :
    absTokensI (.z m) toks = (absTokens m toks).map .plain := by
  induction toks generalizing m with
  | nil => cases m <;> simp [absTokensI, absTokens, ibad] <;> (try split) <;> simp
  | cons t ts ih =>
    have ht := h t (by simp)
    have ih' := fun m => ih m (fun x hx => h x (by simp [hx]))
    cases m with
    | hdr =>
      simp only [absTokensI, absTokens]
      by_cases he : t.err = true
      · simp [he, ibad]
      · simp only [he, Bool.false_eq_true, if_false, ht]
        by_cases h1 : t.value = zOwner
        · simp only [if_pos h1, ih', List.map_cons]
        · by_cases h2 : t.value = zBlank
          · simp only [if_neg h1, if_pos h2, ih', List.map_cons]
          · by_cases h3 : t.value = zString
            · simp only [if_neg h1, if_neg h2, if_pos h3, ih', List.map_cons]
            · by_cases h4 : t.value = zClass
              · simp only [if_neg h1, if_neg h2, if_neg h3, if_pos h4, ih', List.map_cons]
              · by_cases h5 : t.value = zRrtpe
                · simp only [if_neg h1, if_neg h2, if_neg h3, if_neg h4, if_pos h5, ih', List.map_cons]
                · by_cases h6 : t.value = zNewline
                  · simp only [if_neg h1, if_neg h2, if_neg h3, if_neg h4, if_neg h5, if_pos h6, ih', List.map_cons]
                  · by_cases h7 : t.value = zDirTTL
                    · simp only [if_neg h1, if_neg h2, if_neg h3, if_neg h4, if_neg h5, if_neg h6, if_pos h7, ih']
                    · by_cases h8 : t.value = zDirOrigin
                      · simp only [if_neg h1, if_neg h2, if_neg h3, if_neg h4, if_neg h5, if_neg h6, if_neg h7, if_pos h8, ih']
                      · simp only [if_neg h1, if_neg h2, if_neg h3, if_neg h4, if_neg h5, if_neg h6, if_neg h7, if_neg h8, ibad,
                          List.map_cons, List.map_nil]
    | afterTyp =>
      simp only [absTokensI, absTokens]
      by_cases he : t.err = true
      · simp [he, ibad]
      · simp only [he, Bool.false_eq_true, if_false]
        by_cases h2 : t.value = zBlank
        · simp only [if_pos h2, ih', List.map_cons]
        · simp only [if_neg h2, ibad, List.map_cons, List.map_nil]
    | rdata =>
      simp only [absTokensI, absTokens]
      by_cases he : t.err = true
      · simp [he, ibad]
      · simp only [he, Bool.false_eq_true, if_false]
        by_cases h2 : t.value = zNewline
        · simp only [if_pos h2, ih', List.map_cons]
        · simp only [if_neg h2, ih']
    | dir ttl step val =>
      simp only [absTokensI, absTokens]
      by_cases he : t.err = true
      · simp [he, ibad]
      · simp only [he, Bool.false_eq_true, if_false]
        by_cases s0 : step = 0
        · by_cases h2 : t.value = zBlank
          · simp only [if_pos s0, if_pos h2, ih']
          · simp only [if_pos s0, if_neg h2, ibad, List.map_cons, List.map_nil]
        · by_cases s1 : step = 1
          · by_cases h3 : t.value = zString
            · simp only [if_neg s0, if_pos s1, if_pos h3, ih']
            · simp only [if_neg s0, if_pos s1, if_neg h3, ibad, List.map_cons, List.map_nil]
          · by_cases h2 : t.value = zBlank
            · simp only [if_neg s0, if_neg s1, if_pos h2, ih']
            · by_cases h6 : t.value = zNewline
              · simp only [if_neg s0, if_neg s1, if_neg h2, if_pos h6, ih', List.map_cons]
              · simp only [if_neg s0, if_neg s1, if_neg h2, if_neg h6, ibad, List.map_cons, List.map_nil]

/-- **readI_plain**: a text in which no `$INCLUDE` stands at the beginning of a line is read as `readZone` reads it, and
    nothing is opened -/
theorem readI_plain (fs : Bytes → Option Bytes) (f : Nat) (allowed : Bool) (depth : Nat) (text origin : Bytes)
    (dt : Option (Nat × Bool)) (h : ∀ t ∈ (lexAll text).map (·.1), t.value ≠ zDirInclude) :
    readI fs (f + 1) allowed depth text origin dt =
      ⟨(zrun (absTokens .hdr ((lexAll text).map (·.1))) .ownerDir (startZP origin dt) []).1,
       (zrun (absTokens .hdr ((lexAll text).map (·.1))) .ownerDir (startZP origin dt) []).2, []⟩ := by
  simp only [readI]
  rw [absTokensI_plain .hdr _ h, runLevel_plain]

theorem readZoneI_plain (fs : Bytes → Option Bytes) (allowed : Bool) (origin : Bytes) (defttl : Option Nat) (text : Bytes)
    (h : ∀ t ∈ (lexAll text).map (·.1), t.value ≠ zDirInclude) :
    readZoneI fs allowed origin defttl text = ⟨(readZone origin defttl text).1, (readZone origin defttl text).2, []⟩ := by
  unfold readZoneI readZone
  rw [readI_plain fs _ allowed 0 text origin _ h]
  rfl

/-! ### what is opened -/

/-- a property of the recorded `Open`s that holds for what was there and for what every sub-parser reports holds for
    the result -/
theorem runLevel_opens (P : Nat × Bytes → Prop) (allowed : Bool) (sub : Bytes → Bytes → Option (Nat × Bool) → IRes)
    (hsub : ∀ file org dt, ∀ x ∈ (sub file org dt).opens, P x)
    (ts : List ITok) (st : ZSt) (zp : ZP) (acc : List ZHdr) (ops : List (Nat × Bytes)) (hops : ∀ x ∈ ops, P x) :
    ∀ x ∈ (runLevel allowed sub ts st zp acc ops).opens, P x := by
  induction ts generalizing st zp acc ops with
  | nil => simpa [runLevel] using hops
  | cons t ts ih =>
    cases t with
    | plain t =>
      simp only [runLevel]
      cases h : zstep t st zp with
      | none => simpa using hops
      | some r => obtain ⟨st', zp', out⟩ := r; exact ih st' zp' _ ops hops
    | incl file org =>
      simp only [runLevel]
      split
      · simpa using hops
      · split
        · simpa using hops
        · split
          · simpa using hops
          · rename_i no _ _
            have hnew : ∀ x ∈ ops ++ (sub file no zp.defttl).opens, P x := by
              intro x hx
              rcases List.mem_append.mp hx with h | h
              · exact hops x h
              · exact hsub _ _ _ x h
            split
            · exact hnew
            · exact ih _ _ _ _ hnew

/-- with includes not enabled nothing is added to the record of `Open`s -/
theorem runLevel_disallowed (sub : Bytes → Bytes → Option (Nat × Bool) → IRes) (ts : List ITok) (st : ZSt) (zp : ZP)
    (acc : List ZHdr) (ops : List (Nat × Bytes)) :
    (runLevel false sub ts st zp acc ops).opens = ops := by
  induction ts generalizing st zp acc with
  | nil => simp [runLevel]
  | cons t ts ih =>
    cases t with
    | plain t =>
      simp only [runLevel]
      cases h : zstep t st zp with
      | none => rfl
      | some r => obtain ⟨st', zp', out⟩ := r; exact ih st' zp' _
    | incl file org =>
      simp only [runLevel]
      split
      · rfl
      · split
        · rfl
        · simp

/-- **no_open_unless_allowed**: a zone parser on which includes were not enabled opens no file, whatever the text -/
theorem no_open_unless_allowed (fs : Bytes → Option Bytes) (fuel depth : Nat) (text origin : Bytes) (dt : Option (Nat × Bool)) :
    (readI fs fuel false depth text origin dt).opens = [] := by
  cases fuel with
  | zero => rfl
  | succ f => simp only [readI]; exact runLevel_disallowed _ _ _ _ _ _

/-- **opens_depth**: every `Open` is asked for by a parser at a depth from the starting depth up to, but not including,
    `maxIncludeDepth` — for every file system, also one in which a file includes itself -/
theorem opens_depth (fs : Bytes → Option Bytes) (fuel : Nat) (allowed : Bool) (depth : Nat) (text origin : Bytes)
    (dt : Option (Nat × Bool)) :
    ∀ x ∈ (readI fs fuel allowed depth text origin dt).opens, depth ≤ x.1 ∧ x.1 < Gen.maxIncludeDepth := by
  induction fuel generalizing allowed depth text origin dt with
  | zero => simp [readI]
  | succ f ih =>
    simp only [readI]
    apply runLevel_opens (fun x => depth ≤ x.1 ∧ x.1 < Gen.maxIncludeDepth)
    · intro file org dt' x hx
      split at hx
      · simp at hx
      · rename_i hd
        split at hx
        · simp only [List.mem_singleton] at hx
          subst hx
          exact ⟨Nat.le_refl _, by omega⟩
        · simp only [List.mem_cons] at hx
          rcases hx with rfl | hx
          · exact ⟨Nat.le_refl _, by omega⟩
          · have := ih true (depth + 1) _ org dt' x hx
            exact ⟨by omega, this.2⟩
    · simp

/-- **fuel_irrelevant**: any amount of fuel from `maxIncludeDepth + 1 − depth` on gives the same reading: the bound on the
    nesting comes from the depth test, not from the fuel -/
theorem fuel_irrelevant (fs : Bytes → Option Bytes) (f₁ f₂ : Nat) (allowed : Bool) (depth : Nat) (text origin : Bytes)
    (dt : Option (Nat × Bool)) (hd : depth ≤ Gen.maxIncludeDepth)
    (h₁ : Gen.maxIncludeDepth + 1 ≤ f₁ + depth) (h₂ : Gen.maxIncludeDepth + 1 ≤ f₂ + depth) :
    readI fs f₁ allowed depth text origin dt = readI fs f₂ allowed depth text origin dt := by
  induction f₁ generalizing f₂ allowed depth text origin dt with
  | zero => omega
  | succ f ih =>
    cases f₂ with
    | zero => omega
    | succ g =>
      simp only [readI]
      congr 1
      funext file org dt'
      by_cases hge : depth ≥ Gen.maxIncludeDepth
      · simp [hge]
      · simp only [hge, if_false]
        cases fs file with
        | none => rfl
        | some content =>
          simp only
          rw [ih g true (depth + 1) content org dt' (by omega) (by omega) (by omega)]

/-! ### where the records of an included file stand -/

theorem runLevel_acc (allowed : Bool) (sub : Bytes → Bytes → Option (Nat × Bool) → IRes) (ts : List ITok) (st : ZSt) (zp : ZP)
    (acc : List ZHdr) (ops : List (Nat × Bytes)) :
    runLevel allowed sub ts st zp acc ops =
      ⟨acc.reverse ++ (runLevel allowed sub ts st zp [] []).hdrs, (runLevel allowed sub ts st zp [] []).err,
       ops ++ (runLevel allowed sub ts st zp [] []).opens⟩ := by
  induction ts generalizing st zp acc ops with
  | nil => simp [runLevel]
  | cons t ts ih =>
    cases t with
    | plain t =>
      simp only [runLevel]
      cases h : zstep t st zp with
      | none => simp
      | some r =>
        obtain ⟨st', zp', out⟩ := r
        simp only
        rw [ih st' zp' (out.toList ++ acc) ops, ih st' zp' (out.toList ++ []) []]
        simp [List.append_assoc]
    | incl file org =>
      simp only [runLevel]
      split
      · simp
      · split
        · simp
        · split
          · simp
          · split
            · simp [List.append_assoc]
            · rw [ih _ _ ((sub file _ zp.defttl).hdrs.reverse ++ acc) (ops ++ (sub file _ zp.defttl).opens),
                ih _ _ ((sub file _ zp.defttl).hdrs.reverse ++ []) ([] ++ (sub file _ zp.defttl).opens)]
              simp [List.append_assoc]

/-- **include_inlines**: where an `$INCLUDE` line stands at the beginning of a line of a parser that allows it, the records
    of the included file (read from the origin on the directive line, else the current one, and the current default TTL)
    are delivered in place; an error inside ends everything; otherwise the parser carries on behind the directive with
    exactly the fields it had before it — origin, default TTL, previous owner -/
theorem include_inlines (sub : Bytes → Bytes → Option (Nat × Bool) → IRes) (file : Bytes) (org : Option Bytes) (no : Bytes)
    (ts : List ITok) (zp : ZP) (acc : List ZHdr) (ops : List (Nat × Bytes))
    (ho : newOrigin org zp = some no) :
    runLevel true sub (.incl file org :: ts) .ownerDir zp acc ops =
      if (sub file no zp.defttl).err then ⟨acc.reverse ++ (sub file no zp.defttl).hdrs, true, ops ++ (sub file no zp.defttl).opens⟩
      else ⟨acc.reverse ++ (sub file no zp.defttl).hdrs ++ (runLevel true sub ts .ownerDir zp [] []).hdrs,
            (runLevel true sub ts .ownerDir zp [] []).err,
            ops ++ (sub file no zp.defttl).opens ++ (runLevel true sub ts .ownerDir zp [] []).opens⟩ := by
  simp only [runLevel, ne_eq, not_true_eq_false, if_false, ho, Bool.not_true, Bool.false_eq_true]
  by_cases he : (sub file no zp.defttl).err = true
  · simp [he]
  · simp only [he, Bool.false_eq_true, if_false]
    rw [runLevel_acc]
    simp [List.append_assoc]

end Dns.C07I
