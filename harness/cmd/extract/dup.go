package main

import (
	"fmt"
	"go/ast"
	"sort"
	"strings"
)

type dupPlan struct {
	Type       string
	Compared   []string // every field of r1 that the comparison reads
	NameFields []string // fields compared with isDuplicateName (ASCII case-insensitive)
}

// dupPlans reads the bodies of the generated isDuplicate methods (zduplicate.go).
func (p *pkgInfo) dupPlans() []dupPlan {
	f := p.files["zduplicate.go"]
	if f == nil {
		fail("zduplicate.go not found")
		return nil
	}
	var out []dupPlan
	for _, d := range f.Decls {
		fd, ok := d.(*ast.FuncDecl)
		if !ok || fd.Recv == nil || fd.Name.Name != "isDuplicate" {
			continue
		}
		pl := dupPlan{Type: recvName(fd.Recv.List[0].Type)}
		cmp := map[string]bool{}
		names := map[string]bool{}
		ast.Inspect(fd.Body, func(n ast.Node) bool {
			switch x := n.(type) {
			case *ast.SelectorExpr:
				if id, ok := x.X.(*ast.Ident); ok && id.Name == "r1" {
					cmp[x.Sel.Name] = true
				}
			case *ast.CallExpr:
				if id, ok := x.Fun.(*ast.Ident); ok && id.Name == "isDuplicateName" && len(x.Args) == 2 {
					// r1.F or r1.F[i]
					a := x.Args[0]
					if ie, ok := a.(*ast.IndexExpr); ok {
						a = ie.X
					}
					if se, ok := a.(*ast.SelectorExpr); ok {
						names[se.Sel.Name] = true
					}
				}
			}
			return true
		})
		for k := range cmp {
			pl.Compared = append(pl.Compared, k)
		}
		for k := range names {
			pl.NameFields = append(pl.NameFields, k)
		}
		sort.Strings(pl.Compared)
		sort.Strings(pl.NameFields)
		out = append(out, pl)
	}
	sort.Slice(out, func(i, j int) bool { return out[i].Type < out[j].Type })
	return out
}

func leanStrList(xs []string) string {
	q := make([]string, len(xs))
	for i, x := range xs {
		q[i] = leanStr(x)
	}
	return "[" + strings.Join(q, ", ") + "]"
}

func leanDupPlans(ps []dupPlan) string {
	var b strings.Builder
	b.WriteString("def dupPlans : List (String × List String × List String) := [\n")
	for i, p := range ps {
		fmt.Fprintf(&b, "  (%s, %s, %s)", leanStr(p.Type), leanStrList(p.Compared), leanStrList(p.NameFields))
		if i < len(ps)-1 {
			b.WriteString(",")
		}
		b.WriteString("\n")
	}
	b.WriteString("]\n")
	return b.String()
}
