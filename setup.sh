#!/bin/sh
# Build the framework offline from files on disk: extractor, harness, Lean model, proofs, driver.
set -e
cd "$(dirname "$0")"
export GOFLAGS=-mod=mod GOPROXY=off
mkdir -p .build evidence replays
cp /repo/go.sum harness/go.sum
(cd harness && go build -o ../.build/extract ./cmd/extract && ../.build/extract -repo /repo -out ../lean/DnsModel/Generated && go build -tags verif -o ../.build/harness .)
(cd lean && lake build)
echo setup-ok
