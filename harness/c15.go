package main

import (
	"fmt"
	"net"
	"strings"
	"sync/atomic"
	"time"

	"github.com/miekg/dns"
)

func init() { props["C15"] = runC15 }

type xrec struct {
	soa    bool
	serial uint32
	n      int // distinguishes other records
}

func (x xrec) rr() dns.RR {
	if x.soa {
		return &dns.SOA{Hdr: dns.RR_Header{Name: "example.org.", Rrtype: dns.TypeSOA, Class: 1, Ttl: 3600}, Ns: "ns.example.org.", Mbox: "h.example.org.", Serial: x.serial, Refresh: 1, Retry: 2, Expire: 3, Minttl: 4}
	}
	return &dns.A{Hdr: dns.RR_Header{Name: fmt.Sprintf("h%d.example.org.", x.n), Rrtype: dns.TypeA, Class: 1, Ttl: 60}, A: net.IPv4(10, 0, byte(x.n>>8), byte(x.n))}
}

type xenv struct {
	id    uint16
	rcode int
	recs  []xrec
	// faults
	unsigned bool   // TSIG: send without TSIG
	badKey   bool   // TSIG: sign with another secret
	alter    bool   // flip a bit of the packed message after signing
	alterTTL bool   // with alter: flip a bit of the TSIG record's TTL instead (signed with the variables of a first envelope)
	macCut   int    // >= 0 with alter: also cut the MAC down to that many octets (a forged envelope with a short MAC)
	cutAt    int    // >0: close the connection after this many octets of this message
	opt      bool   // the envelope carries an additional section (an OPT record, as servers answering an EDNS0 query send)
	raw      []byte // pre-packed octets (filled by the sender)
}

func envString(e xenv) string {
	var sb strings.Builder
	fmt.Fprintf(&sb, "%d:%d:", e.id, e.rcode)
	for _, r := range e.recs {
		if r.soa {
			fmt.Fprintf(&sb, "s%d.", r.serial)
		} else {
			sb.WriteString("o.")
		}
	}
	return sb.String()
}

var xfrSwap = -1 // index of the (signed) envelope to swap with its successor

const xfrKeyName = "axfr."
const xfrSecret = "so6ZGir4GPAqINNh9U5c3A=="
const xfrBadSecret = "NoTCJU+DMqFWywaPyxSijrDEA/eC3nK0xi3AMEZuPVk="

// slowCloseConn: a connection whose Close takes a moment and says when it is done, so that the order "connection closed,
// then channel closed" can be observed from the consumer's side.
type slowCloseConn struct {
	net.Conn
	delay  time.Duration
	closed int32
}

func (s *slowCloseConn) Close() error {
	time.Sleep(s.delay)
	err := s.Conn.Close()
	atomic.StoreInt32(&s.closed, 1)
	return err
}

var xfrRuns int64

type xfrResult struct {
	closeOrder string // "" (not observed) | "ok" | "channel closed while the connection was still open"
	sent   [][]byte // the octets of each envelope as the sender wrote them (without the length prefix)
	envs   []string // dataN | errId | errRcode | errSoa | errRead | errOther
	reads  int
	recs   []string
	closed bool
}

// runTransfer: real Transfer.In against a scripted sender over net.Pipe.
func runTransfer(qtype uint16, qid uint16, qser uint32, envs []xenv, tsig bool) xfrResult {
	cl, sv := net.Pipe()
	q := new(dns.Msg)
	if qtype == dns.TypeAXFR {
		q.SetAxfr("example.org.")
	} else {
		q.SetIxfr("example.org.", qser, "ns.example.org.", "h.example.org.")
	}
	q.Id = qid
	var slow *slowCloseConn
	var trConn net.Conn = cl
	if atomic.AddInt64(&xfrRuns, 1)%5 == 0 {
		slow = &slowCloseConn{Conn: cl, delay: 15 * time.Millisecond}
		trConn = slow
	}
	tr := &dns.Transfer{Conn: &dns.Conn{Conn: trConn}, ReadTimeout: 300 * time.Millisecond, WriteTimeout: time.Second}
	now := time.Now().Unix()
	if tsig {
		tr.TsigSecret = map[string]string{xfrKeyName: xfrSecret}
		q.SetTsig(xfrKeyName, dns.HmacSHA256, 300, now)
	}
	done := make(chan int, 1)
	var sent [][]byte // filled by the sender before it writes; read after <-done
	go func() {
		// sender: read the query, then write the envelopes
		sc := &dns.Conn{Conn: sv}
		sv.SetDeadline(time.Now().Add(3 * time.Second))
		buf := make([]byte, 65536)
		n, err := sc.Read(buf)
		if err != nil {
			done <- 0
			sv.Close()
			return
		}
		reqMAC := ""
		if tsig {
			var qm dns.Msg
			if qm.Unpack(buf[:n]) == nil {
				if ts := qm.IsTsig(); ts != nil {
					reqMAC = ts.MAC
				}
			}
		}
		wrote := 0
		timers := false
		var frames [][]byte
		var cuts []int
		for _, e := range envs {
			m := envMsg(e, q)
			var out []byte
			if tsig && !e.unsigned {
				m.SetTsig(xfrKeyName, dns.HmacSHA256, 300, now)
				sec := xfrSecret
				if e.badKey {
					sec = xfrBadSecret
				}
				var mac string
				out, mac, err = dns.TsigGenerate(m, sec, reqMAC, timers)
				if err != nil {
					break
				}
				reqMAC = mac
				timers = true
			} else {
				out, _ = m.Pack()
			}
			if e.alter && e.alterTTL && len(out) > 20 {
				// the TTL of the TSIG record: behind its owner name, type and class
				if f, ok := indepStrip(out); ok {
					p := len(f.stripped)
					for p < len(out) && out[p] != 0 {
						p += 1 + int(out[p])
					}
					if p+9 <= len(out) {
						out[p+1+4+3] ^= 0x01
					}
				}
			} else if e.alter && len(out) > 20 {
				out[2] ^= 0x01 // the RD flag: header flags are covered by the digest
				if e.macCut >= 0 {
					if t := truncateMAC(out, e.macCut); t != nil {
						out = t
					}
				}
			}
			frames = append(frames, append(putUint(nil, 2, uint64(len(out))), out...))
			sent = append(sent, append([]byte{}, out...))
			cuts = append(cuts, e.cutAt)
		}
		// reordering happens on the signed envelopes
		if xfrSwap >= 0 && xfrSwap+1 < len(frames) {
			frames[xfrSwap], frames[xfrSwap+1] = frames[xfrSwap+1], frames[xfrSwap]
		}
		for i, frame := range frames {
			if cuts[i] > 0 && cuts[i] < len(frame) {
				sv.Write(frame[:cuts[i]])
				break
			}
			if _, err := sv.Write(frame); err != nil {
				break
			}
			wrote++
		}
		sv.Close()
		done <- wrote
	}()
	var res xfrResult
	ch, err := tr.In(q, "")
	if err != nil {
		cl.Close()
		<-done
		res.envs = []string{"in-error"}
		return res
	}
	timeout := time.After(5 * time.Second)
loop:
	for {
		select {
		case e, ok := <-ch:
			if !ok {
				res.closed = true
				if slow != nil {
					if atomic.LoadInt32(&slow.closed) == 1 {
						res.closeOrder = "ok"
					} else {
						res.closeOrder = "channel closed while the connection was still open"
					}
				}
				break loop
			}
			switch {
			case e.Error == nil:
				res.envs = append(res.envs, fmt.Sprintf("data%d", len(e.RR)))
				for _, rr := range e.RR {
					res.recs = append(res.recs, rr.String())
				}
			case e.Error == dns.ErrId:
				res.envs = append(res.envs, "errId")
			case e.Error == dns.ErrSoa:
				res.envs = append(res.envs, "errSoa")
			case strings.Contains(e.Error.Error(), "bad xfr rcode"):
				res.envs = append(res.envs, "errRcode")
			default:
				res.envs = append(res.envs, "errRead")
			}
		case <-timeout:
			res.envs = append(res.envs, "hang")
			break loop
		}
	}
	res.reads = <-done
	res.sent = sent
	return res
}

// compositions of n into ordered positive parts
// envMsg: the message of one envelope as the scripted sender builds it
func envMsg(e xenv, q *dns.Msg) *dns.Msg {
	m := new(dns.Msg)
	m.Id = e.id
	m.Response = true
	m.Rcode = e.rcode
	m.Question = q.Question
	for _, x := range e.recs {
		m.Answer = append(m.Answer, x.rr())
	}
	if e.opt {
		o := &dns.OPT{Hdr: dns.RR_Header{Name: ".", Rrtype: dns.TypeOPT}}
		o.SetUDPSize(1232)
		o.Option = append(o.Option, &dns.EDNS0_NSID{Code: dns.EDNS0NSID, Nsid: "6e73"})
		m.Extra = append(m.Extra, o)
	}
	return m
}

func compositions(n int) [][]int {
	if n == 0 {
		return [][]int{{}}
	}
	var out [][]int
	for first := 1; first <= n; first++ {
		for _, rest := range compositions(n - first) {
			out = append(out, append([]int{first}, rest...))
		}
	}
	return out
}

func splitStream(stream []xrec, parts []int, id uint16) []xenv {
	var envs []xenv
	p := 0
	for _, k := range parts {
		envs = append(envs, xenv{id: id, recs: stream[p : p+k]})
		p += k
	}
	return envs
}

func c15Run(c *Ctx, stream string, qtype uint16, qid uint16, qser uint32, envs []xenv, valid bool, want []xrec) {
	res := runTransfer(qtype, qid, qser, envs, false)
	var args []string
	for _, e := range envs {
		args = append(args, envString(e))
	}
	// a cut or a close is a read error for the receiver
	reads := append(append([]string{}, args...), "E") // the sender closes after the last envelope
	for i, e := range envs {
		if e.cutAt > 0 {
			reads = append(append([]string{}, args[:i]...), "E")
			break
		}
	}
	got := strings.Join(res.envs, " ")
	if res.closeOrder != "" {
		// "ends - closing channel and connection": whoever sees the channel closed finds the connection closed already
		c.Pred(stream, "connection-closed-when-channel-closes", strings.Join(args, " "), res.closeOrder == "ok", res.closeOrder, "connection closed first", true)
	}
	op := "axfr"
	pre := fmt.Sprint(qid)
	if qtype == dns.TypeIXFR {
		op = "ixfr"
		pre = fmt.Sprintf("%d %d", qid, qser)
	}
	// number of messages consumed: the model's count; a trailing read error consumes no message
	c.Op(stream, fmt.Sprintf("%s %s %s", op, pre, strings.Join(reads, " ")), strings.TrimSpace(fmt.Sprintf("%d %s", readsSeen(res, envs), got)), true)
	// the same machines fed with the octets of the envelopes, decoded by the model
	if len(res.sent) == len(envs) {
		var wr []string
		for i, e := range envs {
			if e.cutAt > 0 {
				wr = append(wr, "E")
				break
			}
			wr = append(wr, hx(res.sent[i]))
		}
		if len(wr) == len(envs) && (len(envs) == 0 || envs[len(envs)-1].cutAt == 0) {
			wr = append(wr, "E") // the sender closes after the last envelope
		}
		c.OpK(stream, fmt.Sprintf("%s.wire %s %s", op, pre, strings.Join(wr, " ")), strings.TrimSpace(fmt.Sprintf("%d %s", readsSeen(res, envs), got)), true, op+"-wire")
	}
	c.Pred(stream, "channel-closed", strings.Join(args, " "), res.closed, "open", "closed", true)
	if valid {
		var wantS []string
		for _, x := range want {
			wantS = append(wantS, x.rr().String())
		}
		ok := strings.Join(res.recs, "\n") == strings.Join(wantS, "\n") && !strings.Contains(got, "err")
		c.Pred(stream, "delivers-zone-exactly", strings.Join(args, " "), ok, got, "the transmitted records in order, no error", true)
	}
}

// readsSeen: messages the receiver consumed = envelopes delivered (each delivered envelope, also an error
// envelope other than a read error, corresponds to one message read; a read error to one failed read)
func readsSeen(res xfrResult, envs []xenv) int {
	return len(res.envs)
}

// c15UDP: IXFR over a datagram connection (RFC 1995 section 2: "via UDP" when the answer fits): answers of 300 to 4000
// octets in one datagram are delivered exactly.
func c15UDP(c *Ctx) {
	for _, nrec := range []int{1, 10, 30, 60, 150} {
		pc, err := net.ListenPacket("udp", "127.0.0.1:0")
		if err != nil {
			return
		}
		q := new(dns.Msg)
		q.SetIxfr("example.org.", 5, "ns.example.org.", "h.example.org.")
		q.Id = 4242
		soa := func(serial uint32) dns.RR {
			return &dns.SOA{Hdr: dns.RR_Header{Name: "example.org.", Rrtype: dns.TypeSOA, Class: 1, Ttl: 60}, Ns: "ns.example.org.", Mbox: "h.example.org.", Serial: serial, Refresh: 1, Retry: 1, Expire: 1, Minttl: 1}
		}
		reply := new(dns.Msg)
		reply.SetReply(q)
		reply.Answer = []dns.RR{soa(9)}
		for k := 0; k < nrec; k++ {
			reply.Answer = append(reply.Answer, &dns.A{Hdr: dns.RR_Header{Name: fmt.Sprintf("host-%03d.example.org.", k), Rrtype: dns.TypeA, Class: 1, Ttl: 60}, A: []byte{10, 0, byte(k >> 8), byte(k)}})
		}
		reply.Answer = append(reply.Answer, soa(9))
		rb, perr := reply.Pack()
		if perr != nil {
			pc.Close()
			continue
		}
		go func() {
			buf := make([]byte, 65535)
			pc.SetDeadline(time.Now().Add(3 * time.Second))
			_, addr, err := pc.ReadFrom(buf)
			if err == nil {
				pc.WriteTo(rb, addr)
			}
		}()
		conn, derr := net.Dial("udp", pc.LocalAddr().String())
		if derr != nil {
			pc.Close()
			continue
		}
		tr := &dns.Transfer{Conn: &dns.Conn{Conn: conn}, ReadTimeout: time.Second, WriteTimeout: time.Second}
		var got []string
		errText := ""
		if ch, err := tr.In(q, ""); err != nil {
			errText = "in: " + err.Error()
		} else {
			timeout := time.After(4 * time.Second)
		loop:
			for {
				select {
				case e, ok := <-ch:
					if !ok {
						break loop
					}
					if e.Error != nil {
						errText = e.Error.Error()
					}
					for _, rr := range e.RR {
						got = append(got, rr.String())
					}
				case <-timeout:
					errText = "hang"
					break loop
				}
			}
		}
		var want []string
		for _, rr := range reply.Answer {
			want = append(want, rr.String())
		}
		c.Pred("udp", "ixfr-over-udp-delivered", fmt.Sprintf("%d records, %d octets in one datagram", len(reply.Answer), len(rb)),
			errText == "" && strings.Join(got, "\n") == strings.Join(want, "\n"), fmt.Sprintf("%d records, error %q", len(got), errText), "all records, no error", true)
		conn.Close()
		pc.Close()
	}
}

func runC15(c *Ctx) {
	c15UDP(c)
	r := c.R
	c.Res.Rule = "zones of 1..n records x all compositions into envelopes (exhaustive for small zones), AXFR and IXFR with 0..3 difference sequences, up-to-date and AXFR-style answers; faults: wrong ID, error RCODE in any envelope, non-SOA first, empty envelopes, connection closed at an envelope or octet boundary, TSIG unsigned / wrong key / altered / reordered envelopes; distinct by content"
	// 1. AXFR: exhaustive compositions of small zones
	maxBody := c.Scale(4, 6)
	for body := 0; body <= maxBody; body++ {
		serial := uint32(5 + body)
		stream := []xrec{{soa: true, serial: serial}}
		for i := 0; i < body; i++ {
			stream = append(stream, xrec{n: i})
		}
		stream = append(stream, xrec{soa: true, serial: serial})
		for _, parts := range compositions(len(stream)) {
			envs := splitStream(stream, parts, 77)
			c15Run(c, "axfr-compositions", dns.TypeAXFR, 77, 0, envs, true, stream)
		}
	}
	// 2. IXFR: difference sequences, all compositions of small streams
	for k := 0; k <= 2; k++ {
		newS := uint32(10)
		stream := []xrec{{soa: true, serial: newS}}
		for d := 0; d < k; d++ {
			old := newS - uint32(k-d)
			nw := old + 1
			stream = append(stream, xrec{soa: true, serial: old}, xrec{n: d}, xrec{soa: true, serial: nw}, xrec{n: 100 + d})
		}
		stream = append(stream, xrec{soa: true, serial: newS})
		if k == 0 {
			// AXFR-style fallback: SOA, body, SOA
			stream = []xrec{{soa: true, serial: newS}, {n: 1}, {n: 2}, {soa: true, serial: newS}}
		}
		comps := compositions(len(stream))
		for ci, parts := range comps {
			if len(comps) > c.Scale(80, 600) && ci%(len(comps)/c.Scale(80, 600)+1) != 0 {
				continue
			}
			envs := splitStream(stream, parts, 78)
			c15Run(c, "ixfr-compositions", dns.TypeIXFR, 78, newS-uint32(k)-1, envs, true, stream)
		}
	}
	// up-to-date IXFR: single SOA
	for _, qs := range []uint32{10, 11, 4000000000} {
		stream := []xrec{{soa: true, serial: 10}}
		c15Run(c, "ixfr-uptodate", dns.TypeIXFR, 79, qs, splitStream(stream, []int{1}, 79), true, stream)
	}
	// 3. faults
	n := c.Scale(250, 5000)
	for i := 0; i < n; i++ {
		body := r.Intn(6)
		stream := []xrec{{soa: true, serial: 9}}
		for k := 0; k < body; k++ {
			stream = append(stream, xrec{n: k})
		}
		stream = append(stream, xrec{soa: true, serial: 9})
		comps := compositions(len(stream))
		envs := splitStream(stream, comps[r.Intn(len(comps))], 80)
		qtype := []uint16{dns.TypeAXFR, dns.TypeIXFR}[r.Intn(2)]
		j := r.Intn(len(envs))
		switch r.Intn(7) {
		case 0:
			envs[j].id = 81
		case 1:
			envs[j].rcode = []int{dns.RcodeServerFailure, dns.RcodeRefused, dns.RcodeNotAuth}[r.Intn(3)]
		case 2:
			envs[0].recs = append([]xrec{{n: 999}}, envs[0].recs...)
		case 3: // empty envelope inserted
			envs = append(envs[:j], append([]xenv{{id: 80}}, envs[j:]...)...)
		case 4: // stream ends early
			envs = envs[:j]
		case 5: // connection closed inside an envelope
			envs[j].cutAt = 1 + r.Intn(20)
		case 6: // duplicate an envelope
			envs = append(envs[:j], append([]xenv{envs[j]}, envs[j:]...)...)
		}
		c15Run(c, "faults", qtype, 80, 3, envs, false, nil)
	}
	// 3b. the connection closed at every octet of every envelope of a small transfer whose messages carry an additional
	//     section: wherever the stream ends early the transfer must report it (a message cut on a record boundary still
	//     decodes, so only the short read gives it away)
	{
		stream := []xrec{{soa: true, serial: 9}, {n: 1}, {n: 2}, {soa: true, serial: 9}}
		q := new(dns.Msg)
		q.SetAxfr("example.org.")
		for ci, parts := range compositions(len(stream)) {
			if c.Tier != "thorough" && ci%3 != 0 {
				continue
			}
			base := splitStream(stream, parts, 80)
			for j := range base {
				base[j].opt = true
			}
			for j := range base {
				b, err := envMsg(base[j], q).Pack()
				if err != nil {
					continue
				}
				for cut := 1; cut < len(b)+2; cut++ {
					envs := append([]xenv{}, base...)
					envs[j].cutAt = cut
					c15Run(c, "cut-every-octet", dns.TypeAXFR, 80, 3, envs, false, nil)
				}
			}
		}
	}
	// 4. TSIG: every envelope must verify against the running MAC chain
	nt := c.Scale(120, 2500)
	for i := 0; i < nt; i++ {
		body := 1 + r.Intn(5)
		stream := []xrec{{soa: true, serial: 9}}
		for k := 0; k < body; k++ {
			stream = append(stream, xrec{n: k})
		}
		stream = append(stream, xrec{soa: true, serial: 9})
		comps := compositions(len(stream))
		envs := splitStream(stream, comps[r.Intn(len(comps))], 82)
		fault := r.Intn(7)
		j := r.Intn(len(envs))
		desc := "none"
		switch fault {
		case 1:
			envs[j].unsigned = true
			desc = fmt.Sprintf("unsigned@%d", j)
		case 2:
			envs[j].badKey = true
			desc = fmt.Sprintf("badkey@%d", j)
		case 3:
			envs[j].alter = true
			envs[j].macCut = []int{-1, -1, 0, 0, 1, 10, 16, 31}[r.Intn(8)]
			desc = fmt.Sprintf("altered@%d,mac-cut=%d", j, envs[j].macCut)
		case 4:
			if len(envs) >= 2 {
				k := r.Intn(len(envs) - 1)
				xfrSwap = k
				desc = fmt.Sprintf("swapped@%d", k)
				j = k
			} else {
				fault = 0
			}
		case 5:
			fault = 0
		case 6:
			// the TTL of the first envelope's TSIG record is one of the signed variables (RFC 8945 4.3.3)
			j = 0
			envs[0].alter, envs[0].alterTTL, envs[0].macCut = true, true, -1
			desc = "tsig-ttl-altered@0"
		}
		res := runTransfer(dns.TypeAXFR, 82, 0, envs, true)
		xfrSwap = -1
		got := strings.Join(res.envs, " ")
		in := fmt.Sprintf("fault=%s envelopes=%d", desc, len(envs))
		if fault == 0 {
			var wantS []string
			for _, x := range stream {
				wantS = append(wantS, x.rr().String())
			}
			ok := !strings.Contains(got, "err") && strings.Join(res.recs, "\n") == strings.Join(wantS, "\n")
			c.Pred("tsig", "tsig-clean-transfer", in, ok, got, "complete, no error", true)
			c.Hit("tsig:clean")
		} else {
			// the faulty envelope j is read unless the transfer ended before it; a complete, error-free result is wrong
			complete := !strings.Contains(got, "err") && !strings.Contains(got, "hang") && len(res.envs) > j
			c.Pred("tsig", "tsig-every-envelope-verified", in, !complete, got, "an error at or before the faulty envelope", true)
			c.Hit("tsig:" + strings.Split(desc, "@")[0])
		}
	}
	// 5. the sending side: several signed transfers over one connection to a real server (RFC 5936 section 4.1.1);
	//    each must be delivered exactly, its first envelope chained to its own request
	for _, seq := range []string{"x", "xx", "xxx", "qx", "xqx"} {
		for _, nrec := range []int{0, 1, 3} {
			res := tsigServerSession(seq, nrec)
			c.Pred("tsig-server", "signed-transfers-on-one-connection", fmt.Sprintf("sequence=%s records=%d", seq, nrec), sessionOK(res, len(seq)), sessionText(res), "every transaction ok", true)
		}
	}
}
