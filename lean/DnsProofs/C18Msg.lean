/-
  C18 (whole messages) — "a message signed with SIG(0) verifies whatever the message's content, size or compression
  setting": on the models of `SIG.Sign` and `SIG.Verify` (DnsModel/Signed.lean, DnsModel/Sig0.lean).

  `sign_walk`: for every packed message that the decoder reads section by section (`Walks`: the plain packer's and the
  compressing packer's output both are, for records of every generated type) and every SIG record, the offset walk of
  `Verify` over the buffer `Sign` returns finds the body end, the SIG RDATA and the signature exactly where `Sign` put
  them, and what it hashes is octet for octet what `Sign` hashed.  `sign_verifies`: hence `Verify` accepts, for any
  signature scheme in which a signature over those octets checks, inside the validity window.
-/
import DnsProofs.SignedWalk
namespace Dns.C18M
open Dns Dns.MU Dns.C18 Dns.C02M Dns.C01 Dns.C03 Dns.C04 Dns.C01M Dns.C04M Dns.SW

theorem slice_ctx (pre x rest : Bytes) : slice (pre ++ x ++ rest) pre.length x.length = x := by
  unfold slice
  rw [List.append_assoc, List.drop_left' rfl, List.take_left' rfl]

theorem slice_ctx' (pre x rest : Bytes) (n k : Nat) (hn : n = pre.length) (hk : k = x.length) :
    slice (pre ++ x ++ rest) n k = x := by subst hn hk; exact slice_ctx pre x rest

theorem goU16_ctx (pre rest : Bytes) (v : Nat) (hv : v < 65536) (n : Nat) (hn : n = pre.length) :
    goU16 (pre ++ beBytes 2 v ++ rest) n = .ok v := by
  subst hn
  unfold goU16
  rw [if_pos (by simp [beBytes_len])]
  have := slice_ctx pre (beBytes 2 v) rest
  rw [beBytes_len] at this
  rw [this, beVal_beBytes 2 v (by omega)]

theorem goU32_ctx (pre rest : Bytes) (v : Nat) (hv : v < 4294967296) (n : Nat) (hn : n = pre.length) :
    goU32 (pre ++ beBytes 4 v ++ rest) n = .ok v := by
  subst hn
  unfold goU32
  rw [if_pos (by simp [beBytes_len])]
  have := slice_ctx pre (beBytes 4 v) rest
  rw [beBytes_len] at this
  rw [this, beVal_beBytes 4 v (by omega)]

/-- the six words of a header -/
def hdr (id bits nq na nn ne : Nat) : Bytes :=
  beBytes 2 id ++ (beBytes 2 bits ++ (beBytes 2 nq ++ (beBytes 2 na ++ (beBytes 2 nn ++ beBytes 2 ne))))

theorem hdr_len (id bits nq na nn ne : Nat) : (hdr id bits nq na nn ne).length = 12 := by simp [hdr, beBytes_len]

/-- writing ARCOUNT into a buffer that starts with a header -/
theorem setArcount_hdr (id bits nq na nn ne v : Nat) (rest : Bytes) :
    setArcount (hdr id bits nq na nn ne ++ rest) v = hdr id bits nq na nn v ++ rest := by
  unfold setArcount hdr
  have e : beBytes 2 id ++ (beBytes 2 bits ++ (beBytes 2 nq ++ (beBytes 2 na ++ (beBytes 2 nn ++ beBytes 2 ne)))) ++ rest =
      (beBytes 2 id ++ (beBytes 2 bits ++ (beBytes 2 nq ++ (beBytes 2 na ++ beBytes 2 nn)))) ++ (beBytes 2 ne ++ rest) := by
    simp [List.append_assoc]
  rw [e]
  have l10 : (beBytes 2 id ++ (beBytes 2 bits ++ (beBytes 2 nq ++ (beBytes 2 na ++ beBytes 2 nn)))).length = 10 := by
    simp [beBytes_len]
  rw [List.take_left' l10]
  have : (12 : Nat) = 10 + 2 := rfl
  rw [this, ← List.drop_drop, List.drop_left' l10, List.drop_left' (beBytes_len 2 ne)]
  simp [List.append_assoc]

theorem arcount_hdr (id bits nq na nn ne : Nat) (rest : Bytes) (h : ne < 65536) :
    arcountOf (hdr id bits nq na nn ne ++ rest) = ne := by
  unfold arcountOf hdr
  have := word_at (beBytes 2 id ++ (beBytes 2 bits ++ (beBytes 2 nq ++ (beBytes 2 na ++ beBytes 2 nn)))) rest ne h
  simpa [beBytes_len, List.append_assoc] using this

/-- the four counts as `Verify` reads them -/
theorem counts_hdr (id bits nq na nn ne : Nat) (rest : Bytes) (hq : nq < 65536) (ha : na < 65536) (hn : nn < 65536)
    (he : ne < 65536) :
    goU16 (hdr id bits nq na nn ne ++ rest) 4 = .ok nq ∧ goU16 (hdr id bits nq na nn ne ++ rest) 6 = .ok na ∧
    goU16 (hdr id bits nq na nn ne ++ rest) 8 = .ok nn ∧ goU16 (hdr id bits nq na nn ne ++ rest) 10 = .ok ne := by
  unfold hdr
  refine ⟨?_, ?_, ?_, ?_⟩
  · have := goU16_ctx (beBytes 2 id ++ beBytes 2 bits) (beBytes 2 na ++ (beBytes 2 nn ++ beBytes 2 ne) ++ rest) nq hq 4
      (by simp [beBytes_len])
    simpa [List.append_assoc] using this
  · have := goU16_ctx (beBytes 2 id ++ (beBytes 2 bits ++ beBytes 2 nq)) (beBytes 2 nn ++ beBytes 2 ne ++ rest) na ha 6
      (by simp [beBytes_len])
    simpa [List.append_assoc] using this
  · have := goU16_ctx (beBytes 2 id ++ (beBytes 2 bits ++ (beBytes 2 nq ++ beBytes 2 na))) (beBytes 2 ne ++ rest) nn hn 8
      (by simp [beBytes_len])
    simpa [List.append_assoc] using this
  · have := goU16_ctx (beBytes 2 id ++ (beBytes 2 bits ++ (beBytes 2 nq ++ (beBytes 2 na ++ beBytes 2 nn)))) rest ne he 10
      (by simp [beBytes_len])
    simpa [List.append_assoc] using this

theorem sigRdata_len (f : SigFields) (sw : Bytes) : (sigRdata f sw).length = 18 + sw.length := by
  simp [sigRdata, beBytes_len]; omega

theorem sigHeader_len (n : Nat) : (sigHeader n).length = 11 := by simp [sigHeader, beBytes_len]

theorem wireOf_pos (ls : List Bytes) : 0 < (wireOf ls).length := by simp [wireOf]

/-- **sign_walk**: `Verify`'s walk over what `Sign` returns.  `body` is any packed message body the decoder reads
    section by section; the header carries its true counts. -/
theorem sign_walk (id bits : Nat) (body : Bytes) (nq na nn ne : Nat) (types : List Nat)
    (hw : Walks body nq na nn ne types)
    (hq : nq < 65536) (hcount : na + nn + ne + 1 < 65536)
    (f : SigFields) (ls : List Bytes) (hls : WireNameOK ls) (hs : f.signer = presentOf ls)
    (hexp : f.expire < 4294967296) (hinc : f.incept < 4294967296)
    (sg buf : Bytes) (hb : sigSignBuf (hdr id bits nq na nn ne ++ body) f sg = some buf) :
    ∃ w, sigWalk buf = .ok w ∧
      some (sigHashInput buf w) = sigSignInput (hdr id bits nq na nn ne ++ body) f ∧
      buf.drop w.sigend = sg ∧ w.signer = f.signer ∧ w.expire = f.expire ∧ w.incept = f.incept := by
  have hp := pack_present ls hls
  unfold sigSignBuf at hb
  rw [hs, hp] at hb
  simp only at hb
  split at hb
  · cases hb
  · simp only [Option.some.injEq] at hb
    rw [arcount_hdr id bits nq na nn ne body (by omega), List.append_assoc, setArcount_hdr] at hb
    subst hb
    -- names for the parts
    generalize hrd : sigRdata f (wireOf ls) = rd
    have lrd : rd.length = 18 + (wireOf ls).length := by rw [← hrd]; exact sigRdata_len f _
    have lsw := wireOf_pos ls
    generalize hH : hdr id bits nq na nn (ne + 1) = Hs
    have lH : Hs.length = 12 := by rw [← hH]; exact hdr_len ..
    generalize htl : sigHeader (rd.length + sg.length) ++ (rd ++ sg) = tail
    have ltl : tail.length = 11 + rd.length + sg.length := by rw [← htl]; simp [sigHeader_len]; omega
    obtain ⟨c1, c2, c3, c4⟩ := counts_hdr id bits nq na nn (ne + 1) (body ++ tail) hq (by omega) (by omega) (by omega)
    rw [hH] at c1 c2 c3 c4
    have eb : Hs ++ (body ++ tail) = Hs ++ body ++ tail := by simp [List.append_assoc]
    obtain ⟨qs, an, ns, ex, o1, o2, o3, uq, lq, ua, la, un, ln, ue, le, _, m1, m2, m3⟩ := hw Hs tail lH
    have blen : (Hs ++ body ++ tail).length = 12 + body.length + (11 + rd.length + sg.length) := by
      simp [lH, ltl]; omega
    -- the two loops
    have sq := (skip_questions nq (Hs ++ body ++ tail) 12 [] qs o1 uq (by simpa using lq) (by omega)).1
    have s1 := skipRecords_section na (Hs ++ body ++ tail) o1 [] an o2 ua (by simpa using la) (by omega) (nn + ne)
    have s2 := skipRecords_section nn (Hs ++ body ++ tail) o2 [] ns o3 un (by simpa using ln) (by omega) ne
    have s3 := skipRecords_section ne (Hs ++ body ++ tail) o3 [] ex (12 + body.length) ue (by simpa using le) (by omega) 0
    have sr : skipRecords (Hs ++ body ++ tail) (na + nn + ne) o1 = .ok (12 + body.length) := by
      rw [Nat.add_assoc, s1, s2]
      have : ne = ne + 0 := rfl
      rw [this, s3]; rfl
    -- the SIG record: owner, header, RDATA
    have eroot : unpackName (Hs ++ body ++ tail) (12 + body.length) = .ok (presentOf [], 12 + body.length + 1) := by
      have := unpackName_ctx [] (Hs ++ body) ((beBytes 2 24 ++ (beBytes 2 255 ++ (beBytes 4 0 ++ beBytes 2 (rd.length + sg.length)))) ++ (rd ++ sg))
        (by decide)
      have e2 : Hs ++ body ++ wireOf [] ++ ((beBytes 2 24 ++ (beBytes 2 255 ++ (beBytes 4 0 ++ beBytes 2 (rd.length + sg.length)))) ++ (rd ++ sg))
          = Hs ++ body ++ tail := by
        rw [← htl]; simp [sigHeader, wireOf, List.append_assoc]
      rw [e2] at this
      simpa [lH, wireOf] using this
    -- where the RDATA fields lie
    have split_rd : rd = (beBytes 2 0 ++ (beBytes 1 f.alg ++ (beBytes 1 0 ++ beBytes 4 0))) ++ beBytes 4 f.expire ++
        (beBytes 4 f.incept ++ (beBytes 2 f.keytag ++ wireOf ls)) := by
      rw [← hrd]; simp [sigRdata, List.append_assoc]
    generalize hpre : Hs ++ body ++ sigHeader (rd.length + sg.length) = P
    have lP : P.length = 12 + body.length + 11 := by rw [← hpre]; simp [lH, sigHeader_len]; omega
    have ebuf : Hs ++ body ++ tail = P ++ rd ++ sg := by rw [← htl, ← hpre]; simp [List.append_assoc]
    have gexp : goU32 (Hs ++ body ++ tail) (12 + body.length + 1 + 10 + 8) = .ok f.expire := by
      rw [ebuf, split_rd]
      have := goU32_ctx (P ++ (beBytes 2 0 ++ (beBytes 1 f.alg ++ (beBytes 1 0 ++ beBytes 4 0))))
        ((beBytes 4 f.incept ++ (beBytes 2 f.keytag ++ wireOf ls)) ++ sg) f.expire hexp (12 + body.length + 1 + 10 + 8)
        (by simp [lP, beBytes_len])
      simpa [List.append_assoc] using this
    have ginc : goU32 (Hs ++ body ++ tail) (12 + body.length + 1 + 10 + 8 + 4) = .ok f.incept := by
      rw [ebuf, split_rd]
      have := goU32_ctx (P ++ (beBytes 2 0 ++ (beBytes 1 f.alg ++ (beBytes 1 0 ++ beBytes 4 0))) ++ beBytes 4 f.expire)
        ((beBytes 2 f.keytag ++ wireOf ls) ++ sg) f.incept hinc (12 + body.length + 1 + 10 + 8 + 4)
        (by simp [lP, beBytes_len])
      simpa [List.append_assoc] using this
    have esig : unpackName (Hs ++ body ++ tail) (12 + body.length + 1 + 10 + 8 + 10) =
        .ok (presentOf ls, 12 + body.length + 1 + 10 + 8 + 10 + (wireOf ls).length) := by
      rw [ebuf, split_rd]
      have := unpackName_ctx ls (P ++ (beBytes 2 0 ++ (beBytes 1 f.alg ++ (beBytes 1 0 ++ beBytes 4 0))) ++ beBytes 4 f.expire ++
        beBytes 4 f.incept ++ beBytes 2 f.keytag) sg hls
      have e3 : (P ++ (beBytes 2 0 ++ (beBytes 1 f.alg ++ (beBytes 1 0 ++ beBytes 4 0))) ++ beBytes 4 f.expire ++
        beBytes 4 f.incept ++ beBytes 2 f.keytag).length = 12 + body.length + 1 + 10 + 8 + 10 := by
        simp [lP, beBytes_len]
      rw [e3] at this
      simpa [List.append_assoc] using this
    -- run the walk
    rw [eb] at c1 c2 c3 c4
    rw [eb]
    refine ⟨⟨12 + body.length, 12 + body.length + 1 + 10, 12 + body.length + 1 + 10 + 8 + 10 + (wireOf ls).length,
      f.expire, f.incept, presentOf ls, ne + 1⟩, ?_, ?_, ?_, hs.symm, rfl, rfl⟩
    · unfold sigWalk
      simp only [c1, c2, c3, c4, bind, Outcome.bind, sq]
      have tot : (na + nn + (ne + 1)) % 65536 - 1 = na + nn + ne := by
        rw [Nat.mod_eq_of_lt (by omega)]; omega
      rw [tot, sr]
      simp only
      rw [if_neg (by rw [blen]; omega), eroot]
      simp only
      rw [if_neg (by rw [blen]; omega), gexp, ginc]
      simp only
      rw [esig]
      simp only
      rw [if_pos (by rw [blen]; omega)]
    · -- what is hashed
      unfold sigHashInput sigSignInput
      rw [hs, hp]
      simp only [Option.some.injEq]
      have h1 : slice (Hs ++ body ++ tail) (12 + body.length + 1 + 10)
          (12 + body.length + 1 + 10 + 8 + 10 + (wireOf ls).length - (12 + body.length + 1 + 10)) = rd := by
        rw [ebuf]
        exact slice_ctx' P rd sg _ _ (by rw [lP]) (by rw [lrd]; omega)
      have h2 : slice (Hs ++ body ++ tail) 12 (12 + body.length - 12) = body :=
        slice_ctx' Hs body tail _ _ lH.symm (by omega)
      have h3 : (Hs ++ body ++ tail).take 10 ++
          [UInt8.ofNat ((ne + 1 + 65535) % 65536 / 256 % 256), UInt8.ofNat ((ne + 1 + 65535) % 65536 % 256)] =
          hdr id bits nq na nn ne := by
        have e : (ne + 1 + 65535) % 65536 = ne := by omega
        rw [e, ← hH]
        unfold hdr
        have l10 : (beBytes 2 id ++ (beBytes 2 bits ++ (beBytes 2 nq ++ (beBytes 2 na ++ beBytes 2 nn)))).length = 10 := by
          simp [beBytes_len]
        have e4 : beBytes 2 id ++ (beBytes 2 bits ++ (beBytes 2 nq ++ (beBytes 2 na ++ (beBytes 2 nn ++ beBytes 2 (ne + 1))))) ++ body ++ tail
            = (beBytes 2 id ++ (beBytes 2 bits ++ (beBytes 2 nq ++ (beBytes 2 na ++ beBytes 2 nn)))) ++ (beBytes 2 (ne + 1) ++ body ++ tail) := by
          simp [List.append_assoc]
        rw [e4, List.take_left' l10]
        simp [beBytes, List.append_assoc]
      rw [h1, h2, List.append_assoc, List.append_assoc, ← List.append_assoc (List.take 10 _), h3, hrd]
    · rw [ebuf]
      have : 12 + body.length + 1 + 10 + 8 + 10 + (wireOf ls).length = (P ++ rd).length := by
        simp [lP, lrd]; omega
      simp only
      rw [this, List.drop_left' rfl]

/-- **sign_verifies**: with any signature scheme in which the signature `sg` over the octets `Sign` hashed checks,
    `Verify` accepts the buffer `Sign` returns — for every message body that is read section by section (plain or
    compressed, any record types), inside the validity window, under a key whose owner equals the signer name up to
    letter case -/
theorem sign_verifies (id bits : Nat) (body : Bytes) (nq na nn ne : Nat) (types : List Nat)
    (hw : Walks body nq na nn ne types)
    (hq : nq < 65536) (hcount : na + nn + ne + 1 < 65536)
    (f : SigFields) (ls : List Bytes) (hls : WireNameOK ls) (hs : f.signer = presentOf ls)
    (hexp : f.expire < 4294967296) (hinc : f.incept < 4294967296)
    (sg buf inp : Bytes) (hb : sigSignBuf (hdr id bits nq na nn ne ++ body) f sg = some buf)
    (hi : sigSignInput (hdr id bits nq na nn ne ++ body) f = some inp)
    (check : Bytes → Bytes → Bool) (hc : check inp sg = true)
    (keyName : Bytes) (hk : lowerAll keyName = lowerAll f.signer)
    (now : Nat) (hn1 : f.incept ≤ now) (hn2 : now ≤ f.expire) :
    sigVerify buf keyName now check = .accepted := by
  obtain ⟨w, hwk, hin, hsg, hsn, he, hic⟩ := sign_walk id bits body nq na nn ne types hw hq hcount f ls hls hs hexp hinc sg buf hb
  unfold sigVerify
  rw [hwk]
  simp only
  rw [hi] at hin
  simp only [Option.some.injEq] at hin
  rw [he, hic, hsn, hin, hsg, hc]
  rw [if_neg (by omega), if_neg (by simp [hk])]
  rfl



/-- **sign_verifies_any**: the same without assumptions on the counts — whatever `Sign` returns (it refuses more than
    65535 octets) has few enough records for `Verify`'s 16-bit arithmetic: every message `Sign` accepts verifies -/
theorem sign_verifies_any (id bits : Nat) (body : Bytes) (nq na nn ne : Nat) (types : List Nat)
    (hw : Walks body nq na nn ne types)
    (f : SigFields) (ls : List Bytes) (hls : WireNameOK ls) (hs : f.signer = presentOf ls)
    (hexp : f.expire < 4294967296) (hinc : f.incept < 4294967296)
    (sg buf inp : Bytes) (hb : sigSignBuf (hdr id bits nq na nn ne ++ body) f sg = some buf)
    (hi : sigSignInput (hdr id bits nq na nn ne ++ body) f = some inp)
    (check : Bytes → Bytes → Bool) (hc : check inp sg = true)
    (keyName : Bytes) (hk : lowerAll keyName = lowerAll f.signer)
    (now : Nat) (hn1 : f.incept ≤ now) (hn2 : now ≤ f.expire) :
    sigVerify buf keyName now check = .accepted := by
  obtain ⟨c1, c2⟩ := walks_counts body nq na nn ne types hw
  have hlen : body.length < 65535 := by
    unfold sigSignBuf at hb
    split at hb
    · simp only at hb
      split at hb
      · cases hb
      · rename_i hle
        simp only [List.length_append, hdr_len] at hle
        omega
    · cases hb
  exact sign_verifies id bits body nq na nn ne types hw (by omega) (by omega) f ls hls hs hexp hinc sg buf inp hb hi check hc
    keyName hk now hn1 hn2

/-- **sign_verifies_plain**: the statement for the plain packer of the model (`Compress` off): every message of
    questions and records of any generated type with fitting field values -/
theorem sign_verifies_plain (id bits : Nat) (qs : List QSpec) (an ns ex : List RRItem)
    (hq : ∀ q ∈ qs, q.WF) (han : ∀ x ∈ an, x.spec.WF x.plan x.rd) (hns : ∀ x ∈ ns, x.spec.WF x.plan x.rd)
    (hex : ∀ x ∈ ex, x.spec.WF x.plan x.rd)
    (cq : qs.length < 65536) (hcount : an.length + ns.length + ex.length + 1 < 65536)
    (f : SigFields) (ls : List Bytes) (hls : WireNameOK ls) (hs : f.signer = presentOf ls)
    (hexp : f.expire < 4294967296) (hinc : f.incept < 4294967296)
    (sg buf inp : Bytes) (hb : sigSignBuf (encodeMsg id bits qs an ns ex) f sg = some buf)
    (hi : sigSignInput (encodeMsg id bits qs an ns ex) f = some inp)
    (check : Bytes → Bytes → Bool) (hc : check inp sg = true)
    (keyName : Bytes) (hk : lowerAll keyName = lowerAll f.signer)
    (now : Nat) (hn1 : f.incept ≤ now) (hn2 : now ≤ f.expire) :
    sigVerify buf keyName now check = .accepted := by
  have e : encodeMsg id bits qs an ns ex = hdr id bits qs.length an.length ns.length ex.length ++
      (encQuestions qs ++ (encSection an ++ (encSection ns ++ encSection ex))) := by
    simp [encodeMsg, hdr, List.append_assoc]
  rw [e] at hb hi
  exact sign_verifies id bits _ _ _ _ _ _ (plain_walks qs an ns ex hq han hns hex) cq hcount f ls hls hs hexp hinc sg buf inp
    hb hi check hc keyName hk now hn1 hn2

/-- **sign_verifies_compressed**: the statement for the compressing packer of the model (`Compress` on: names replaced
    by pointers wherever the map and the flags allow) -/
theorem sign_verifies_compressed (id bits : Nat) (qs : List QSpec) (an ns ex : List (RRItem × List Bool))
    (hq : ∀ q ∈ qs, q.WF) (han : ∀ x ∈ an, x.1.spec.WF x.1.plan x.1.rd) (hns : ∀ x ∈ ns, x.1.spec.WF x.1.plan x.1.rd)
    (hex : ∀ x ∈ ex, x.1.spec.WF x.1.plan x.1.rd)
    (cq : qs.length < 65536) (hcount : an.length + ns.length + ex.length + 1 < 65536)
    (B : Bytes)
    (hp : packMsgC id bits (qs.map QSpec.dec) (an.map (fun x => toRRc x.1 x.2)) (ns.map (fun x => toRRc x.1 x.2))
      (ex.map (fun x => toRRc x.1 x.2)) = some B)
    (f : SigFields) (ls : List Bytes) (hls : WireNameOK ls) (hs : f.signer = presentOf ls)
    (hexp : f.expire < 4294967296) (hinc : f.incept < 4294967296)
    (sg buf inp : Bytes) (hb : sigSignBuf B f sg = some buf) (hi : sigSignInput B f = some inp)
    (check : Bytes → Bytes → Bool) (hc : check inp sg = true)
    (keyName : Bytes) (hk : lowerAll keyName = lowerAll f.signer)
    (now : Nat) (hn1 : f.incept ≤ now) (hn2 : now ≤ f.expire) :
    sigVerify buf keyName now check = .accepted := by
  unfold packMsgC at hp
  simp only [List.length_map] at hp
  cases h1 : packQCs 12 [] true (qs.map QSpec.dec) with
  | none => rw [h1] at hp; cases hp
  | some r1 =>
    obtain ⟨wq, m1⟩ := r1
    rw [h1] at hp; simp only at hp
    cases h2 : packRRcs (12 + wq.length) m1 true (an.map (fun x => toRRc x.1 x.2)) with
    | none => rw [h2] at hp; cases hp
    | some r2 =>
      obtain ⟨wa, m2⟩ := r2
      rw [h2] at hp; simp only at hp
      cases h3 : packRRcs (12 + wq.length + wa.length) m2 true (ns.map (fun x => toRRc x.1 x.2)) with
      | none => rw [h3] at hp; cases hp
      | some r3 =>
        obtain ⟨wn, m3⟩ := r3
        rw [h3] at hp; simp only at hp
        cases h4 : packRRcs (12 + wq.length + wa.length + wn.length) m3 true (ex.map (fun x => toRRc x.1 x.2)) with
        | none => rw [h4] at hp; cases hp
        | some r4 =>
          obtain ⟨we, m4⟩ := r4
          rw [h4] at hp
          simp only [Option.some.injEq] at hp
          have e : B = hdr id bits qs.length an.length ns.length ex.length ++ (wq ++ (wa ++ (wn ++ we))) := by
            rw [← hp]; simp [hdr, List.append_assoc]
          rw [e] at hb hi
          exact sign_verifies id bits _ _ _ _ _ _ (packC_walks qs an ns ex hq han hns hex wq wa wn we m1 m2 m3 m4 h1 h2 h3 h4)
            cq hcount f ls hls hs hexp hinc sg buf inp hb hi check hc keyName hk now hn1 hn2

/-- the hypotheses are satisfiable: a query for `a.`, signed by `k.`, verified under the key `K.` — `Sign` returns a
    buffer, and the theorem applies to it -/
example : (sigSignBuf (encodeMsg 7 256 [⟨[[97]], 1, 1⟩] [] [] []) ⟨15, 2000, 1000, 5, presentOf [[107]]⟩ [1, 2, 3]).isSome = true ∧
    (sigSignInput (encodeMsg 7 256 [⟨[[97]], 1, 1⟩] [] [] []) ⟨15, 2000, 1000, 5, presentOf [[107]]⟩).isSome = true := by
  unfold sigSignBuf sigSignInput
  simp only [pack_present [[107]] (by decide)]
  constructor
  · decide
  · rfl

example (buf inp : Bytes)
    (hb : sigSignBuf (encodeMsg 7 256 [⟨[[97]], 1, 1⟩] [] [] []) ⟨15, 2000, 1000, 5, presentOf [[107]]⟩ [1, 2, 3] = some buf)
    (hi : sigSignInput (encodeMsg 7 256 [⟨[[97]], 1, 1⟩] [] [] []) ⟨15, 2000, 1000, 5, presentOf [[107]]⟩ = some inp) :
    sigVerify buf (presentOf [[75]]) 1500 (fun d s => d == inp && s == [1, 2, 3]) = .accepted :=
  sign_verifies_plain 7 256 [⟨[[97]], 1, 1⟩] [] [] [] (by intro q hq; simp at hq; subst hq; exact ⟨by decide, by decide, by decide⟩) (by simp) (by simp) (by simp)
    (by decide) (by decide) _ [[107]] (by decide) rfl (by decide) (by decide) _ buf inp hb hi _ (by simp) _ (by decide) 1500
    (by decide) (by decide)

/-- and an altered hash input or signature is refused whenever the scheme refuses it: acceptance implies that the
    scheme accepted exactly the walked octets -/
theorem verify_accepts_only_checked (buf keyName : Bytes) (now : Nat) (check : Bytes → Bytes → Bool)
    (h : sigVerify buf keyName now check = .accepted) :
    ∃ w, sigWalk buf = .ok w ∧ w.incept ≤ now ∧ now ≤ w.expire ∧ lowerAll w.signer = lowerAll keyName ∧
      check (sigHashInput buf w) (buf.drop w.sigend) = true := by
  unfold sigVerify at h
  split at h
  · rename_i w hw
    refine ⟨w, hw, ?_⟩
    split at h
    · cases h
    · rename_i ht
      split at h
      · cases h
      · rename_i hn
        split at h
        · rename_i hc
          exact ⟨by omega, by omega, by simpa using hn, hc⟩
        · cases h
  · cases h
  · cases h

end Dns.C18M

namespace Dns.C18M
open Dns Dns.MU

theorem take_drop_slice (b : Bytes) (i j : Nat) (hij : i ≤ j) (hj : j ≤ b.length) :
    b = b.take i ++ slice b i (j - i) ++ b.drop j := by
  unfold slice
  have h1 : b = b.take i ++ b.drop i := (List.take_append_drop i b).symm
  have h2 : b.drop i = (b.drop i).take (j - i) ++ (b.drop i).drop (j - i) := (List.take_append_drop (j - i) (b.drop i)).symm
  have h3 : (b.drop i).drop (j - i) = b.drop j := by rw [List.drop_drop]; congr 1; omega
  rw [h3] at h2
  conv => lhs; rw [h1, h2]
  simp [List.append_assoc]

/-- **tamper_changes_input_partial**: two buffers of the same length on which `Verify`'s walk finds the same offsets, and
    for which the octets handed to the signature check — the hash input and the signature — are the same, are the same buffer
    except possibly inside the SIG record's own header (the eleven octets between the body end and the SIG RDATA, which this
    library does not sign): altering any other octet of a signed message changes what is verified.
    (Partial: alterations that move the offsets of the walk are not covered by this statement.) -/
theorem tamper_changes_input_partial (b b' : Bytes) (w w' : SigWalk) (hl : b.length = b'.length)
    (hb : w.bodyend = w'.bodyend) (hs : w.sigstart = w'.sigstart) (he : w.sigend = w'.sigend) (ha : w.adc % 65536 = w'.adc % 65536)
    (h12 : 12 ≤ w.bodyend) (hbs : w.bodyend ≤ w.sigstart) (hse : w.sigstart ≤ w.sigend) (hel : w.sigend ≤ b.length)
    (hin : sigHashInput b w = sigHashInput b' w') (hsig : b.drop w.sigend = b'.drop w'.sigend) :
    b.take 10 = b'.take 10 ∧ slice b 12 (w.bodyend - 12) = slice b' 12 (w.bodyend - 12) ∧ b.drop w.sigstart = b'.drop w.sigstart := by
  unfold sigHashInput at hin
  rw [← hb, ← hs, ← he] at hin
  have len_slice : ∀ (x : Bytes) (i n : Nat), i + n ≤ x.length → (slice x i n).length = n := by
    intro x i n h; unfold slice; simp; omega
  have l1 : (slice b w.sigstart (w.sigend - w.sigstart)).length = (slice b' w.sigstart (w.sigend - w.sigstart)).length := by
    rw [len_slice b _ _ (by omega), len_slice b' _ _ (by omega)]
  simp only [List.append_assoc] at hin
  obtain ⟨e1, r1⟩ := List.append_inj hin l1
  have l2 : (b.take 10).length = (b'.take 10).length := by simp; omega
  obtain ⟨e2, r2⟩ := List.append_inj r1 l2
  have l3 : ([UInt8.ofNat ((w.adc + 65535) % 65536 / 256 % 256), UInt8.ofNat ((w.adc + 65535) % 65536 % 256)] : Bytes).length =
      ([UInt8.ofNat ((w'.adc + 65535) % 65536 / 256 % 256), UInt8.ofNat ((w'.adc + 65535) % 65536 % 256)] : Bytes).length := by
    simp only [List.length_cons, List.length_nil]
  obtain ⟨_, e4⟩ := List.append_inj r2 l3
  refine ⟨e2, e4, ?_⟩
  -- the RDATA and the signature together are everything from sigstart on
  have d1 : b.drop w.sigstart = slice b w.sigstart (w.sigend - w.sigstart) ++ b.drop w.sigend := by
    unfold slice
    have := (List.take_append_drop (w.sigend - w.sigstart) (b.drop w.sigstart)).symm
    rw [List.drop_drop] at this
    have e : w.sigstart + (w.sigend - w.sigstart) = w.sigend := by omega
    rw [e] at this
    exact this
  have d2 : b'.drop w.sigstart = slice b' w.sigstart (w.sigend - w.sigstart) ++ b'.drop w.sigend := by
    unfold slice
    have := (List.take_append_drop (w.sigend - w.sigstart) (b'.drop w.sigstart)).symm
    rw [List.drop_drop] at this
    have e : w.sigstart + (w.sigend - w.sigstart) = w.sigend := by omega
    rw [e] at this
    exact this
  rw [d1, d2, e1, hsig, ← he]

end Dns.C18M
