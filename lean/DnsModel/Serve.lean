/-
  DnsModel.Serve — acceptfunc.go (defaultMsgAcceptFunc), server.go (serveDNS decision and the reject
  reply), serve_mux.go (ServeMux.match).
-/
import DnsModel.Msg
import DnsModel.Labels
namespace Dns

inductive Action where
  | accept | reject | ignore | rejectNotImpl
deriving Repr, DecidableEq

/-- `defaultMsgAcceptFunc` on the raw header -/
def defaultAccept (bits : BitVec 16) (qd an ns ar : Nat) : Action :=
  if bits &&& 0x8000 != 0 then .ignore
  else
    let opcode := ((bits >>> 11) &&& 0xF).toNat
    if opcode != 0 && opcode != 4 then .rejectNotImpl
    else if qd != 1 then .reject
    else if an > 1 then .reject
    else if ns > 1 then .reject
    else if ar > 2 then .reject
    else .accept

/-- what serveDNS does with one inbound message -/
inductive Served where
  | invalidOnly                      -- header did not parse: invalid callback, nothing else
  | handler                          -- handler called once with the decoded request
  | reply (h : MsgHdr) (invalidCalled : Bool)   -- library reply written, handler not called
  | ignored
deriving Repr, DecidableEq

/-- header of the reject reply built from the request header `req` (after `setHdr`) -/
def rejectHdr (req : MsgHdr) (notImpl : Bool) : MsgHdr :=
  { req with
    rcode := if notImpl then 4 else 1
    opcode := if notImpl then req.opcode else 0
    response := true
    authoritative := false
    zero := false }

/-- `serveDNS`: `hdrOk` — at least 12 octets; `decodeOk` — the full message decodes -/
def serveDecision (hdrOk : Bool) (action : Action) (req : MsgHdr) (decodeOk : Bool) : Served :=
  if !hdrOk then .invalidOnly
  else match action with
    | .accept => if decodeOk then .handler else .reply (rejectHdr req false) true
    | .reject => .reply (rejectHdr req false) false
    | .rejectNotImpl => .reply (rejectHdr req true) false
    | .ignore => .ignored

/-! ### ServeMux.match -/

/-- the registered patterns are kept canonical (lower case, fully qualified) -/
abbrev Mux := List Bytes

def muxLoop (z : Mux) (q : Bytes) (isDS : Bool) : (fuel : Nat) → (off : Nat) → Option Bytes → Option Bytes ⊕ Option Bytes
  | 0, _, h => .inr h
  | f + 1, off, h =>
    let key := q.drop off
    let h' := if z.contains key then some key else h
    if z.contains key && !isDS then .inl (some key)       -- `return h`
    else
      let nl := nextLabel q off
      if nl.2 then .inr h' else muxLoop z q isDS f nl.1 h'

/-- `match(q, t)`: the pattern whose handler is returned, `none` when nothing matches -/
def muxMatch (z : Mux) (q : Bytes) (isDS : Bool) : Option Bytes :=
  if z.isEmpty then none     -- (`mux.z == nil`; an empty non-nil map behaves the same)
  else
    let q := canonicalName q
    match muxLoop z q isDS (q.length + 1) 0 none with
    | .inl r => r
    | .inr h => if z.contains [46] then some [46] else h

/-- specification on label lists: the registered pattern with the most labels that is a suffix of the name on
    label boundaries (ASCII case-insensitively); the root pattern matches every name -/
def specMuxLongest (z : List (List Bytes)) (q : List Bytes) : Option (List Bytes) :=
  let qf := q.map lowerAll
  let cands := z.filter fun p => p.length ≤ qf.length && qf.drop (qf.length - p.length) == p.map lowerAll
  cands.foldl (fun best p => match best with
    | none => some p
    | some b => if p.length > b.length then some p else some b) none

end Dns
