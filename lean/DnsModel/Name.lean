/-
  DnsModel.Name — domain names: wire form, presentation form, escaping.
  Mirrors msg.go (packDomainName without a compression map, UnpackDomainName),
  defaults.go (IsDomainName, IsFqdn, Fqdn, CanonicalName) and types.go (escapeByte,
  isDomainNameLabelSpecial, sprintName's per-octet rule), character by character.
-/
import DnsModel.Basic
import DnsModel.Generated.Consts

namespace Dns

/-! ### escaping (types.go) -/

def isSpecial (b : Byte) : Bool := Gen.labelSpecial.contains b

def digitByte (n : Nat) : Byte := UInt8.ofNat (48 + n)

/-- `escapeByte`: the `\DDD` spelling. -/
def escapeByte (b : Byte) : Bytes :=
  [92, digitByte (b.toNat / 100), digitByte (b.toNat / 10 % 10), digitByte (b.toNat % 10)]

/-- what `UnpackDomainName` appends for one label octet -/
def presentByte (b : Byte) : Bytes :=
  if isSpecial b then [92, b]
  else if b < 32 || b > 126 then escapeByte b
  else [b]

def presentLabel (l : Bytes) : Bytes := l.flatMap presentByte

/-- `isDDD` (msg.go) -/
def isDDD (s : Bytes) : Bool :=
  match s with
  | a :: b :: c :: _ => isDigit a && isDigit b && isDigit c
  | _ => false

/-- `dddToByte` (msg.go) — Go byte arithmetic wraps modulo 256, and so does `UInt8`. -/
def dddToByte (s : Bytes) : Byte :=
  match s with
  | a :: b :: c :: _ => (a - 48) * 100 + (b - 48) * 10 + (c - 48)
  | _ => 0

/-! ### UnpackDomainName (msg.go) -/

/-- One run of the `Loop:` in `UnpackDomainName`.  `budget` is kept as the number of octets
    still allowed (`budget <= 0` after subtraction is the `ErrLongDomain` exit). -/
def unpackNameLoop (msg : Bytes) (off ptr budget off1 : Nat) (acc : Bytes) : Outcome (Bytes × Nat) :=
  if h : off < msg.length then
    let c := (msg[off]'h).toNat
    if c < 64 then
      if c = 0 then
        -- end of name
        let off1' := if ptr = 0 then off + 1 else off1
        .ok (if acc.isEmpty then [46] else acc, off1')
      else if off + 1 + c > msg.length then .err
      else if budget ≤ c + 1 then .err       -- budget -= c+1; budget <= 0
      else
        unpackNameLoop msg (off + 1 + c) ptr (budget - (c + 1)) off1
          (acc ++ presentLabel (slice msg (off + 1) c) ++ [46])
    else if c ≥ 192 then
      if h2 : off + 1 < msg.length then
        let c1 := (msg[off + 1]'h2).toNat
        let off1' := if ptr = 0 then off + 2 else off1
        if ptr + 1 > Gen.maxCompressionPointers then .err
        else
          unpackNameLoop msg ((c - 192) * 256 + c1) (ptr + 1) budget off1' acc
      else .err
    else .err
  else .err
termination_by (Gen.maxCompressionPointers + 1 - ptr, msg.length - off)
decreasing_by
  all_goals simp_wf
  · apply Prod.Lex.right; omega
  · apply Prod.Lex.left; omega

def unpackName (msg : Bytes) (off : Nat) : Outcome (Bytes × Nat) :=
  unpackNameLoop msg off 0 Gen.maxDomainNameWireOctets 0 []

/-! ### IsFqdn / Fqdn / CanonicalName (defaults.go) -/

/-- number of consecutive backslashes at the end of `s` -/
def trailingBackslashes (s : Bytes) : Nat := (s.reverse.takeWhile (· == 92)).length

/-- `IsFqdn`: trailing dot preceded by an even number of backslashes. -/
def isFqdn (s : Bytes) : Bool :=
  match s.getLast? with
  | some 46 => trailingBackslashes s.dropLast % 2 == 0
  | _ => false

def fqdn (s : Bytes) : Bytes := if isFqdn s then s else s ++ [46]

def canonicalName (s : Bytes) : Bytes := lowerAll (fqdn s)

/-! ### packDomainName without compression (msg.go) -/

/-- The `for i := 0; i < ls; i++` loop of `packDomainName`, on the not yet consumed text.
    `first` : `i == 0`; `label` : the decoded octets `bs[begin:i]`; `out` : octets written.
    The buffer is unbounded here (Pack sizes it with Len, property C08). -/
def packLoop (s : Bytes) (first : Bool) (multi : Bool) (label : Bytes) (wasDot : Bool) (out : Bytes) :
    Outcome Bytes :=
  match s with
  | [] => .ok (out ++ [0])
  | c :: rest =>
    if c = 92 then
      if isDDD rest then
        packLoop (rest.drop 3) false multi (label ++ [dddToByte rest]) false out
      else
        match rest with
        | [] => .ok (out ++ [0])            -- dangling backslash: unreachable under IsFqdn
        | d :: rest' => packLoop rest' false multi (label ++ [d]) false out
    else if c = 46 then
      if first && multi then .err          -- leading dot
      else if wasDot then .err             -- two dots back to back
      else if label.length ≥ Gen.labelLimit then .err
      else if out.length + 1 + label.length + 1 > Gen.maxDomainNameWireOctets then .err  -- ErrLongDomain
      else packLoop rest false multi [] true (out ++ UInt8.ofNat label.length :: label)
    else packLoop rest false multi (label ++ [c]) false out
termination_by s.length
decreasing_by all_goals simp_wf <;> omega

/-- `PackDomainName(s, buf, 0, nil, false)` with a large enough buffer: the octets written. -/
def packName (s : Bytes) : Outcome Bytes :=
  if s.isEmpty then .ok []
  else if !isFqdn s then .err
  else if s = [46] then .ok [0]
  else packLoop s true (s.length > 1) [] false []

/-! ### IsDomainName (defaults.go) -/

/-- The loop of `IsDomainName` on the remaining text. `blen` = `i - begin` (decoded octets of the
    current label), `off` = wire octets so far, `escape` the toggle flag. -/
def isDomainLoop (s : Bytes) (first multi : Bool) (blen off labels : Nat) (wasDot escape : Bool) :
    Nat × Bool :=
  match s with
  | [] => (labels, !escape)
  | c :: rest =>
    if c = 92 then
      if off + 1 > Gen.isDomainNameLenmsg then (labels, false)
      else if isDDD rest then
        isDomainLoop (rest.drop 3) false multi (blen + 1) off labels false (!escape)
      else
        isDomainLoop (rest.drop 1) false multi (blen + 1) off labels false (!escape)
    else if c = 46 then
      if first && multi then (labels, false)
      else if wasDot then (labels, false)
      else if blen ≥ Gen.labelLimitIsDomainName then (labels, false)
      else if off + 1 + blen > Gen.isDomainNameLenmsg then (labels, false)
      else isDomainLoop rest false multi 0 (off + 1 + blen) (labels + 1) true false
    else isDomainLoop rest false multi (blen + 1) off labels false false
termination_by s.length
decreasing_by all_goals simp_wf <;> omega

def isDomainName (s : Bytes) : Nat × Bool :=
  if s.isEmpty then (0, false)
  else
    let s := fqdn s
    isDomainLoop s true (s.length > 1) 0 0 0 false false

/-! ### independent specification: label lists -/

/-- wire encoding of a label list (RFC 1035 §3.1) -/
def wireOf (ls : List Bytes) : Bytes :=
  ls.flatMap (fun l => UInt8.ofNat l.length :: l) ++ [0]

/-- presentation form of a label list -/
def presentOf (ls : List Bytes) : Bytes :=
  if ls.isEmpty then [46] else ls.flatMap (fun l => presentLabel l ++ [46])

/-- RFC 1035 §2.3.4 limits -/
def WireNameOK (ls : List Bytes) : Prop :=
  (∀ l ∈ ls, 1 ≤ l.length ∧ l.length ≤ 63) ∧ (wireOf ls).length ≤ 255

instance (ls : List Bytes) : Decidable (WireNameOK ls) := by unfold WireNameOK; infer_instance

/-- Tokeniser of the presentation grammar, written without reference to the code:
    `\DDD` (three digits) is the octet DDD mod 256, `\c` is `c`, an unescaped `.` ends a label.
    Returns the labels, or `none` for an empty label / dangling backslash / missing final dot. -/
def tokensAux : (fuel : Nat) → Bytes → Bytes → List Bytes → Option (List Bytes)
  | 0, _, _, _ => none
  | _ + 1, [], cur, acc => if cur.isEmpty then some acc.reverse else none
  | f + 1, 92 :: a :: b :: c :: rest, cur, acc =>
      if isDigit a && isDigit b && isDigit c then
        tokensAux f rest (cur ++ [(a - 48) * 100 + (b - 48) * 10 + (c - 48)]) acc
      else tokensAux f (b :: c :: rest) (cur ++ [a]) acc
  | f + 1, 92 :: a :: rest, cur, acc => tokensAux f rest (cur ++ [a]) acc
  | _ + 1, [92], _, _ => none
  | f + 1, 46 :: rest, cur, acc => if cur.isEmpty then none else tokensAux f rest [] (cur :: acc)
  | f + 1, c :: rest, cur, acc => tokensAux f rest (cur ++ [c]) acc

/-- labels denoted by a fully-qualified presentation name; `"."` denotes the empty list -/
def labelsOfText (s : Bytes) : Option (List Bytes) :=
  if s = [46] then some [] else if s.isEmpty then none else tokensAux (s.length + 1) s [] []

/-- specification of packing a name: the RFC wire form of the denoted labels, when within limits -/
def specPack (s : Bytes) : Outcome Bytes :=
  if s.isEmpty then .ok []
  else match labelsOfText s with
    | some ls => if WireNameOK ls then .ok (wireOf ls) else .err
    | none => .err

/-- specification of validity of a fully-qualified presentation name -/
def specValid (s : Bytes) : Bool :=
  match labelsOfText s with
  | some ls => decide (WireNameOK ls)
  | none => false

end Dns
