/-
  C19 (origin laws) — dnsutil.AddOrigin and dnsutil.TrimDomainName are inverse to each other for relative names
  under an origin, in the library's spelling.
-/
import DnsModel.Labels
import DnsProofs.C19
import DnsProofs.C03Valid
namespace Dns.C19
open Dns Dns.C03

theorem eud_presentByte (b : Byte) (rest : Bytes) (d : Bool) : eud (presentByte b ++ rest) d = eud rest false := by
  unfold presentByte
  by_cases hs : isSpecial b = true
  · simp only [hs, if_true]
    have hd := isDDD_of_not_digit b rest (special_ne_digit b hs)
    rw [show [92, b] ++ rest = 92 :: b :: rest from rfl, eud.eq_def]
    simp [hd]
  · have hs' : isSpecial b = false := by simpa using hs
    simp only [hs', Bool.false_eq_true, ↓reduceIte]
    by_cases hp : (b < 32 || b > 126) = true
    · simp only [hp, ↓reduceIte]
      have ⟨h1, _⟩ := ddd_escape b rest
      have e : escapeByte b ++ rest = 92 :: ((escapeByte b).tail ++ rest) := by simp [escapeByte]
      rw [e, eud.eq_def]
      simp only [h1, ↓reduceIte]
      simp [escapeByte]
    · have ⟨n92, n46⟩ := plain_not_special b hs'
      simp only [hp, Bool.false_eq_true, ↓reduceIte]
      rw [show [b] ++ rest = b :: rest from rfl, eud.eq_def]
      simp [n92, n46]

theorem eud_presentLabel (l rest : Bytes) (d : Bool) (hl : l ≠ []) : eud (presentLabel l ++ rest) d = eud rest false := by
  induction l generalizing d with
  | nil => exact absurd rfl hl
  | cons b l ih =>
    have e : presentLabel (b :: l) ++ rest = presentByte b ++ (presentLabel l ++ rest) := by simp [presentLabel]
    rw [e, eud_presentByte]
    cases l with
    | nil => simp [presentLabel]
    | cons c l' => exact ih false (by simp)

/-- a relative name in the library's spelling (the labels without the final dot) is not fully qualified -/
theorem relative_not_fqdn (rel : List Bytes) (hne : rel ≠ []) (hl : ∀ l ∈ rel, l ≠ []) :
    isFqdn (presentLabels rel).dropLast = false := by
  rcases List.eq_nil_or_concat rel with h | ⟨pre, last, h⟩
  · exact absurd h hne
  rw [List.concat_eq_append] at h
  subst h
  have hlast : last ≠ [] := hl last (by simp)
  have e : (presentLabels (pre ++ [last])).dropLast = presentLabels pre ++ presentLabel last := by
    rw [presentLabels_snoc, List.dropLast_concat]
  rw [e]
  have hne2 : presentLabels pre ++ presentLabel last ≠ [] := by
    have := presentByte_ne_nil
    cases last with
    | nil => exact absurd rfl hlast
    | cons b l =>
      intro h0
      have h1 := congrArg List.length h0
      have hb := presentByte_ne_nil b
      have e2 : presentLabel (b :: l) = presentByte b ++ presentLabel l := by simp [presentLabel]
      rw [e2] at h1
      simp only [List.length_append, List.length_nil] at h1
      omega
  rw [← eud_eq_isFqdn _ false hne2]
  -- read the finished labels, then the last one
  have hpre : ∀ (ls : List Bytes) (X : Bytes) (d : Bool), (∀ l ∈ ls, l ≠ []) →
      eud (presentLabels ls ++ X) d = eud X (if ls = [] then d else true) := by
    intro ls
    induction ls with
    | nil => intro X d _; simp [presentLabels]
    | cons l ls ih =>
      intro X d hall
      rw [presentLabels_cons, List.append_assoc, eud_presentLabel _ _ _ (hall l (by simp))]
      rw [List.cons_append, eud.eq_def]
      simp only [show ¬ ((46 : Byte) = 92) by decide, ↓reduceIte]
      rw [ih X true (fun x hx => hall x (by simp [hx]))]
      simp
  rw [hpre pre _ false (fun l hm => hl l (by simp [hm]))]
  have := eud_presentLabel last [] (if pre = [] then false else true) hlast
  simp only [List.append_nil] at this
  rw [this, eud.eq_def]

theorem presentByte_head : ∀ b : Byte, (presentByte b).headD 0 ≠ 46 ∧ presentByte b ≠ [64] := by
  apply forall_byte; decide +kernel

theorem presentLabels_head (ls : List Bytes) (hne : ls ≠ []) (hl : ∀ l ∈ ls, l ≠ []) :
    (presentLabels ls).getD 0 0 ≠ 46 := by
  match ls, hne with
  | (b :: l) :: rest, _ =>
    have hb := (presentByte_head b).1
    have e : presentLabels ((b :: l) :: rest) = presentByte b ++ (presentLabel l ++ 46 :: presentLabels rest) := by
      simp [presentLabels, presentLabel]
    rw [e]
    have hnn := presentByte_ne_nil b
    cases hp : presentByte b with
    | nil => rw [hp] at hnn; simp at hnn
    | cons x xs => rw [hp] at hb; simpa using hb
  | [] :: rest, _ => exact absurd rfl (hl [] (by simp))

theorem startsFrom_length (b : Nat) (ls : List Bytes) : (startsFrom b ls).length = ls.length := by
  induction ls generalizing b with
  | nil => rfl
  | cons l ls ih => simp [startsFrom, ih]

theorem startsFrom_getD (ls : List Bytes) (i : Nat) (hi : i < ls.length) :
    (startsFrom 0 ls).getD i 0 = (presentLabels (ls.take i)).length := by
  have := startsFrom_eq [] ls
  have e0 : (presentLabels ([] : List Bytes)).length = 0 := rfl
  rw [e0] at this
  rw [this]
  simp [List.getD, hi]

theorem csl_self_append (x y : List Bytes) : commonSuffixLen (x ++ y) x = x.length := by
  induction x with
  | nil => cases y <;> simp [commonSuffixLen]
  | cons a x ih => simp [commonSuffixLen, ih]

theorem presentLabels_two_le (ls : List Bytes) (hne : ls ≠ []) (hl : ∀ l ∈ ls, l ≠ []) :
    2 ≤ (presentLabels ls).length := by
  match ls, hne with
  | (b :: l) :: rest, _ =>
    have hnn := presentByte_ne_nil b
    simp [presentLabels, presentLabel]; omega
  | [] :: rest, _ => exact absurd rfl (hl [] (by simp))

/-- **AddOrigin**: a relative name (labels `rel` in the library's spelling, no final dot) under a non-root origin
    becomes the spelling of `rel ++ org` -/
theorem addOrigin_relative (rel org : List Bytes) (hr : rel ≠ []) (ho : org ≠ [])
    (hlr : ∀ l ∈ rel, l ≠ []) (hlo : ∀ l ∈ org, l ≠ []) :
    addOrigin (presentLabels rel).dropLast (presentLabels org) = presentLabels (rel ++ org) := by
  unfold addOrigin
  have h1 := relative_not_fqdn rel hr hlr
  have h2 : (presentLabels org).isEmpty = false := by
    have := presentLabels_two_le org ho hlo
    cases h : presentLabels org with
    | nil => rw [h] at this; simp at this
    | cons _ _ => rfl
  have hlen := presentLabels_two_le rel hr hlr
  have h3 : (presentLabels rel).dropLast ≠ [] := by
    intro e; have := congrArg List.length e; simp at this; omega
  have h4 : (presentLabels rel).dropLast ≠ [64] := by
    rcases List.eq_nil_or_concat rel with h | ⟨pre, last, h⟩
    · exact absurd h hr
    rw [List.concat_eq_append] at h
    subst h
    rw [presentLabels_snoc, List.dropLast_concat]
    intro e
    have hlast : last ≠ [] := hlr last (by simp)
    cases pre with
    | cons p ps =>
      have := congrArg List.length e
      have h2' := presentLabels_two_le (p :: ps) (by simp) (fun l hm => hlr l (List.mem_append_left _ hm))
      simp at this; omega
    | nil =>
      simp only [presentLabels, List.flatMap_nil, List.nil_append] at e
      match last, hlast with
      | [b], _ =>
        have := (presentByte_head b).2
        simp [presentLabel] at e; exact this e
      | b :: c :: l, _ =>
        have := congrArg List.length e
        have hb := presentByte_ne_nil b
        have hc := presentByte_ne_nil c
        simp [presentLabel] at this; omega
  have h5 : presentLabels org ≠ [46] := presentLabels_ne_root org hlo
  have h3' : (presentLabels rel).dropLast.isEmpty = false := by
    cases h : (presentLabels rel).dropLast with
    | nil => exact absurd h h3
    | cons _ _ => rfl
  simp only [h1, h2, h3', h4, h5, Bool.false_eq_true, ↓reduceIte, decide_false, Bool.or_self]
  rw [presentLabels_append]
  congr 1
  rcases List.eq_nil_or_concat rel with h | ⟨pre, last, h⟩
  · exact absurd h hr
  rw [List.concat_eq_append] at h
  subst h
  rw [presentLabels_snoc, List.dropLast_concat]

/-- **TrimDomainName** undoes it -/
theorem trimDomainName_under_origin (rel org : List Bytes) (hr : rel ≠ []) (ho : org ≠ [])
    (hlr : ∀ l ∈ rel, l ≠ []) (hlo : ∀ l ∈ org, l ≠ []) :
    trimDomainName (presentLabels (rel ++ org)) (presentLabels org) = some (presentLabels rel).dropLast := by
  have hall : ∀ l ∈ rel ++ org, l ≠ [] := by
    intro l hl; rcases List.mem_append.mp hl with h | h
    · exact hlr l h
    · exact hlo l h
  have hne : rel ++ org ≠ [] := by simp [hr]
  have hS2 := presentLabels_two_le (rel ++ org) hne hall
  have hemp : (presentLabels (rel ++ org)).isEmpty = false := by
    cases h : presentLabels (rel ++ org) with
    | nil => rw [h] at hS2; simp at hS2
    | cons _ _ => rfl
  have hO46 : presentLabels org ≠ [46] := presentLabels_ne_root org hlo
  have fq : ∀ ls : List Bytes, ls ≠ [] → fqdn (presentLabels ls) = presentLabels ls := by
    intro ls h
    unfold fqdn
    rcases List.eq_nil_or_concat ls with h0 | ⟨i, x, h0⟩
    · exact absurd h0 h
    · rw [h0, List.concat_eq_append, isFqdn_presentLabels]; rfl
  have hsub : isSubDomain (presentLabels org) (presentLabels (rel ++ org)) = true := by
    rw [isSubDomain_labels org (rel ++ org) ho hne hlo hall, List.map_append]
    exact List.suffix_append _ _
  have hm : compareDomainName (presentLabels (rel ++ org)) (presentLabels org) = org.length := by
    rw [compareDomainName_labels _ _ hne ho hall hlo]
    unfold commonSuffix
    rw [List.map_append, List.reverse_append, csl_self_append]
    simp
  have hsl : (split (presentLabels (rel ++ org))).length = rel.length + org.length := by
    rw [split_labels _ hne hall, startsFrom_length]; simp
  have hol : (split (presentLabels org)).length = org.length := by
    rw [split_labels _ ho hlo, startsFrom_length]
  have hrl : 0 < rel.length := List.length_pos_iff.mpr hr
  have hoL : 0 < org.length := List.length_pos_iff.mpr ho
  have hidx : (split (presentLabels (rel ++ org))).getD (rel.length + org.length - org.length) 0
      = (presentLabels rel).length := by
    rw [split_labels _ hne hall, Nat.add_sub_cancel, startsFrom_getD _ _ (by simp; omega)]
    simp
  have hR2 := presentLabels_two_le rel hr hlr
  unfold trimDomainName
  simp only [hemp, Bool.false_eq_true, ↓reduceIte, hO46, fq _ hne, fq _ ho, hsub, Bool.not_true, hm, hsl, hol]
  have c1 : ¬ (org.length = rel.length + org.length) := by omega
  have c2 : (presentLabels (rel ++ org)).getD 0 0 ≠ 46 := presentLabels_head _ hne hall
  have c3 : ¬ (org.length = 0) := by omega
  simp only [beq_self_eq_true, Bool.true_and, hidx]
  have c2' : ((presentLabels (rel ++ org)).getD 0 0 == 46) = false := by simpa using c2
  have c1' : (org.length == rel.length + org.length) = false := by simpa using c1
  simp only [c1', c2', Bool.false_and, Bool.or_self, Bool.false_eq_true, ↓reduceIte]
  have c4 : ¬ (org.length = 0 ∨ (presentLabels rel).length = 0) := by omega
  simp only [c4, ↓reduceIte]
  rw [presentLabels_append, List.take_append_of_le_length (by omega), List.dropLast_eq_take]

/-- **origin laws**: for a relative name under a non-root origin, TrimDomainName ∘ AddOrigin is the identity, and
    AddOrigin ∘ TrimDomainName gives the full name back -/
theorem origin_inverse (rel org : List Bytes) (hr : rel ≠ []) (ho : org ≠ [])
    (hlr : ∀ l ∈ rel, l ≠ []) (hlo : ∀ l ∈ org, l ≠ []) :
    trimDomainName (addOrigin (presentLabels rel).dropLast (presentLabels org)) (presentLabels org)
      = some (presentLabels rel).dropLast ∧
    (trimDomainName (presentLabels (rel ++ org)) (presentLabels org)).map (fun t => addOrigin t (presentLabels org))
      = some (presentLabels (rel ++ org)) := by
  rw [addOrigin_relative rel org hr ho hlr hlo, trimDomainName_under_origin rel org hr ho hlr hlo]
  exact ⟨rfl, by simp [addOrigin_relative rel org hr ho hlr hlo]⟩

end Dns.C19
