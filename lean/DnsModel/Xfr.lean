/-
  DnsModel.Xfr — xfr.go inAxfr / inIxfr as machines over the sequence of read results.
-/
namespace Dns

inductive XRec where
  | soa (serial : Nat)
  | other (id : Nat)
deriving Repr, DecidableEq

def XRec.isSoa : XRec → Bool
  | .soa _ => true
  | .other _ => false

/-- what `ReadMsg` returns -/
inductive Read where
  | msg (id : Nat) (rcode : Nat) (answer : List XRec)
  | err                       -- read / unpack / TSIG error
deriving Repr, DecidableEq

/-- what is sent on the channel -/
inductive Env where
  | data (rrs : List XRec)
  | errId (rrs : List XRec)
  | errRcode (rrs : List XRec)
  | errSoa (rrs : List XRec)
  | errRead
deriving Repr, DecidableEq

def isSOAFirst (a : List XRec) : Bool := match a.head? with | some r => r.isSoa | none => false
def isSOALast (a : List XRec) : Bool := match a.getLast? with | some r => r.isSoa | none => false

/-- `inAxfr`: returns the envelopes delivered (the channel and the connection are closed after the last
    one) and the number of messages read -/
def inAxfr (qid : Nat) : List Read → (first : Bool) → List Env × Nat
  | [], _ => ([], 0)        -- (the real reader would block / time out: modelled by `Read.err`)
  | Read.err :: _, _ => ([Env.errRead], 1)
  | Read.msg id rcode ans :: rest, first =>
    if qid != id then ([Env.errId ans], 1)
    else if rcode != 0 then ([Env.errRcode ans], 1)
    else if first then
      if !isSOAFirst ans then ([Env.errSoa ans], 1)
      else if ans.length == 1 then
        let (d, n) := inAxfr qid rest false
        (Env.data ans :: d, n + 1)
      else if isSOALast ans then ([Env.data ans], 1)
      else
        let (d, n) := inAxfr qid rest false
        (Env.data ans :: d, n + 1)
    else if isSOALast ans then ([Env.data ans], 1)
    else
      let (d, n) := inAxfr qid rest false
      (Env.data ans :: d, n + 1)

/-- the per-envelope SOA scan of `inIxfr`: returns (n, axfr, finished) -/
def ixfrScan (serial : Nat) : List XRec → Nat → Bool → Nat × Bool × Bool
  | [], n, axfr => (n, axfr, false)
  | XRec.soa s :: rest, n, axfr =>
    if s == serial then
      let n' := n + 1
      if (axfr && n' == 2) || n' == 3 then (n', axfr, true)
      else ixfrScan serial rest n' axfr
    else ixfrScan serial rest n (if axfr then false else axfr)
  | XRec.other _ :: rest, n, axfr => ixfrScan serial rest n axfr

/-- `inIxfr` -/
def inIxfr (qid qser : Nat) : List Read → (n : Nat) → (serial : Nat) → (axfr : Bool) → List Env × Nat
  | [], _, _, _ => ([], 0)
  | Read.err :: _, _, _, _ => ([Env.errRead], 1)
  | Read.msg id rcode ans :: rest, n, serial, axfr =>
    if qid != id then ([Env.errId ans], 1)
    else if rcode != 0 then ([Env.errRcode ans], 1)
    else
      if n == 0 && !isSOAFirst ans then ([Env.errSoa ans], 1)
      else
        let serial := if n == 0 then (match ans.head? with | some (XRec.soa s) => s | _ => serial) else serial
        if n == 0 && qser ≥ serial then ([Env.data ans], 1)
        else
          let (n', axfr', fin) := ixfrScan serial ans n axfr
          if fin then ([Env.data ans], 1)
          else
            let (d, k) := inIxfr qid qser rest n' serial axfr'
            (Env.data ans :: d, k + 1)

end Dns
