#!/bin/sh
# usage: trymut.sh <mutant-dir> <prop>...   applies patch to /repo, runs checks, reverts
d=$1; shift
git -C /repo apply "$d/patch.diff" || { echo "PATCH DOES NOT APPLY: $d"; exit 9; }
for p in "$@"; do /verif/check $p 2>&1 | grep -E "VIOLATION|^C[0-9]+ tier|failed obligation" | cut -c1-300; done
git -C /repo checkout -- .
