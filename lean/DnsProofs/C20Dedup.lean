/-
  C20 (Dedup refinement) — the two-pass, map-based `Dedup` of sanitize.go equals the declarative specification:
  one representative per normalized key, at the position of the key's first occurrence, carrying the minimum
  TTL of its group.  For every input list.
-/
import DnsModel.Dedup
namespace Dns.C20
open Dns

/-- keys in first-occurrence order, skipping those in `seen` -/
def nubAux : List Rec → List Nat → List Nat
  | [], _ => []
  | (k, _) :: rs, seen => if seen.contains k then nubAux rs seen else k :: nubAux rs (k :: seen)

def keys (rs : List Rec) : List Nat := rs.map (·.1)

theorem specAux_eq (all rs : List Rec) (seen : List Nat) :
    dedupSpecAux all rs seen = (nubAux rs seen).map (fun k => (k, groupMin k all)) := by
  induction rs generalizing seen with
  | nil => rfl
  | cons r rs ih =>
    obtain ⟨k, t⟩ := r
    simp only [dedupSpecAux, nubAux]
    split
    · exact ih seen
    · simp [ih]

theorem mem_nubAux (rs : List Rec) (seen : List Nat) (x : Nat) :
    x ∈ nubAux rs seen ↔ x ∈ keys rs ∧ x ∉ seen := by
  induction rs generalizing seen with
  | nil => simp [nubAux, keys]
  | cons r rs ih =>
    obtain ⟨k, t⟩ := r
    simp only [nubAux, keys, List.map_cons, List.mem_cons, List.contains_iff_mem] at *
    split
    · rename_i hk
      rw [ih]
      constructor
      · rintro ⟨h1, h2⟩; exact ⟨Or.inr h1, h2⟩
      · rintro ⟨h1 | h1, h2⟩
        · subst h1; exact absurd hk h2
        · exact ⟨h1, h2⟩
    · rename_i hk
      simp only [List.mem_cons, ih, not_or]
      constructor
      · rintro (h | ⟨h1, h2, h3⟩)
        · subst h; exact ⟨Or.inl rfl, hk⟩
        · exact ⟨Or.inr h1, h3⟩
      · rintro ⟨h1 | h1, h2⟩
        · exact Or.inl h1
        · by_cases hx : x = k
          · exact Or.inl hx
          · exact Or.inr ⟨h1, hx, h2⟩

theorem nubAux_snoc (pre : List Rec) (k t : Nat) (seen : List Nat) :
    nubAux (pre ++ [(k, t)]) seen
      = nubAux pre seen ++ (if k ∈ seen ∨ k ∈ keys pre then [] else [k]) := by
  induction pre generalizing seen with
  | nil =>
    simp only [List.nil_append, nubAux, keys, List.map_nil, List.not_mem_nil, or_false, List.contains_iff_mem]
  | cons r pre ih =>
    obtain ⟨k0, t0⟩ := r
    simp only [List.cons_append, nubAux, keys, List.map_cons, List.mem_cons, List.contains_iff_mem] at *
    split
    · rename_i hk0
      rw [ih]
      congr 1
      have e : (k ∈ seen ∨ k = k0 ∨ k ∈ List.map (fun x : Rec => x.fst) pre)
          ↔ (k ∈ seen ∨ k ∈ List.map (fun x : Rec => x.fst) pre) := by
        constructor
        · rintro (h | h | h)
          · exact Or.inl h
          · exact Or.inl (h ▸ hk0)
          · exact Or.inr h
        · rintro (h | h)
          · exact Or.inl h
          · exact Or.inr (Or.inr h)
      by_cases hc : k ∈ seen ∨ k ∈ List.map (fun x : Rec => x.fst) pre
      · have hc' := e.mpr hc
        simp only [hc, hc', ↓reduceIte]
      · have hc' : ¬ _ := fun h => hc (e.mp h)
        simp only [hc, hc', ↓reduceIte]
    · rename_i hk0
      rw [ih]
      simp only [List.cons_append, List.mem_cons]
      congr 2
      have e : ((k = k0 ∨ k ∈ seen) ∨ k ∈ List.map (fun x : Rec => x.fst) pre)
          ↔ (k ∈ seen ∨ k = k0 ∨ k ∈ List.map (fun x : Rec => x.fst) pre) := by
        constructor
        · rintro ((h | h) | h)
          · exact Or.inr (Or.inl h)
          · exact Or.inl h
          · exact Or.inr (Or.inr h)
        · rintro (h | h | h)
          · exact Or.inl (Or.inr h)
          · exact Or.inl (Or.inl h)
          · exact Or.inr h
      by_cases hc : (k = k0 ∨ k ∈ seen) ∨ k ∈ List.map (fun x : Rec => x.fst) pre
      · have hc' := e.mp hc
        simp only [hc, hc', ↓reduceIte]
      · have hc' : ¬ _ := fun h => hc (e.mpr h)
        simp only [hc, hc', ↓reduceIte]

/-- the TTLs of the records with key `k` -/
def vals (k : Nat) (rs : List Rec) : List Nat := (rs.filter (·.1 == k)).map (·.2)

theorem vals_nil_iff (k : Nat) (rs : List Rec) : vals k rs = [] ↔ k ∉ keys rs := by
  induction rs with
  | nil => simp [vals, keys]
  | cons r rs ih =>
    obtain ⟨k0, t0⟩ := r
    unfold vals keys at *
    simp only [List.filter_cons, List.map_cons, List.mem_cons, not_or]
    by_cases h : k0 = k
    · subst h; simp
    · have h' : ¬ k = k0 := fun e => h e.symm
      simp [h, h', ih]

theorem groupMin_def (k : Nat) (rs : List Rec) :
    groupMin k rs = match vals k rs with | [] => 0 | t :: ts => ts.foldl min t := rfl

theorem vals_snoc (k' : Nat) (pre : List Rec) (k t : Nat) :
    vals k' (pre ++ [(k, t)]) = vals k' pre ++ (if k = k' then [t] else []) := by
  unfold vals
  simp only [List.filter_append, List.map_append, List.filter_cons, List.filter_nil]
  by_cases h : k = k' <;> simp [h]

theorem groupMin_snoc (k' : Nat) (pre : List Rec) (k t : Nat) :
    groupMin k' (pre ++ [(k, t)])
      = if k' = k then (if k ∈ keys pre then min (groupMin k pre) t else t) else groupMin k' pre := by
  rw [groupMin_def, groupMin_def, vals_snoc]
  by_cases h : k' = k
  · subst h
    simp only [↓reduceIte]
    by_cases hm : k' ∈ keys pre
    · simp only [hm, ↓reduceIte]
      have : vals k' pre ≠ [] := fun e => (vals_nil_iff k' pre).mp e hm
      cases hv : vals k' pre with
      | nil => exact absurd hv this
      | cons a as => simp [List.foldl_append]
    · simp only [hm, ↓reduceIte]
      rw [(vals_nil_iff k' pre).mpr hm]
      simp
  · have h' : ¬ k = k' := fun e => h e.symm
    simp [h, h', groupMin_def]

theorem lookup_map (ks : List Nat) (f : Nat → Nat) (k : Nat) :
    (ks.map (fun x => (x, f x))).lookup k = if k ∈ ks then some (f k) else none := by
  induction ks with
  | nil => simp
  | cons a as ih =>
    simp only [List.map_cons, List.lookup_cons, List.mem_cons]
    by_cases h : k = a
    · subst h; simp
    · have : (k == a) = false := by simpa using h
      simp [this, h, ih]

theorem spec_eq (rs : List Rec) : dedupSpec rs = (nubAux rs []).map (fun k => (k, groupMin k rs)) :=
  specAux_eq rs rs []

/-- **pass 1 builds the specification**: continuing the first pass from the specification of a prefix gives the
    specification of the whole -/
theorem pass1_spec (pre rs : List Rec) : dedupPass1 rs (dedupSpec pre) = dedupSpec (pre ++ rs) := by
  induction rs generalizing pre with
  | nil => simp [dedupPass1]
  | cons r rs ih =>
    obtain ⟨k, t⟩ := r
    have hstep : (match (dedupSpec pre).lookup k with
        | some t0 => (if t0 > t then (dedupSpec pre).map (fun e => if e.1 = k then (k, t) else e) else dedupSpec pre)
        | none => dedupSpec pre ++ [(k, t)]) = dedupSpec (pre ++ [(k, t)]) := by
      rw [spec_eq pre, spec_eq (pre ++ [(k, t)]), lookup_map, nubAux_snoc]
      simp only [List.not_mem_nil, false_or]
      by_cases hm : k ∈ keys pre
      · have hm' : k ∈ nubAux pre [] := (mem_nubAux pre [] k).mpr ⟨hm, by simp⟩
        simp only [hm', hm, ↓reduceIte, List.append_nil]
        by_cases hgt : groupMin k pre > t
        · simp only [hgt, ↓reduceIte, List.map_map]
          apply List.map_congr_left
          intro x _
          simp only [Function.comp, groupMin_snoc, hm, ↓reduceIte]
          by_cases hx : x = k
          · subst hx; simp; omega
          · simp [hx]
        · simp only [hgt, ↓reduceIte]
          apply List.map_congr_left
          intro x _
          simp only [groupMin_snoc, hm, ↓reduceIte]
          by_cases hx : x = k
          · subst hx; simp; omega
          · simp [hx]
      · have hm' : k ∉ nubAux pre [] := fun h => hm ((mem_nubAux pre [] k).mp h).1
        simp only [hm', hm, ↓reduceIte, List.map_append, List.map_cons, List.map_nil]
        congr 1
        · apply List.map_congr_left
          intro x hx
          have : x ≠ k := fun e => hm' (e ▸ hx)
          simp [groupMin_snoc, this]
        · simp [groupMin_snoc, hm]
    have := ih (pre ++ [(k, t)])
    simp only [List.append_assoc, List.singleton_append] at this
    rw [← this, ← hstep]
    simp only [dedupPass1]
    cases (dedupSpec pre).lookup k <;> rfl

theorem pass1_eq_spec (rs : List Rec) : dedupPass1 rs [] = dedupSpec rs := by
  have := pass1_spec [] rs
  simpa [dedupSpec, dedupSpecAux] using this

/-- **pass 2 returns the map contents in order** -/
theorem pass2_spec (f : Nat → Nat) (rs : List Rec) (seen : List Nat) :
    dedupPass2 rs ((nubAux rs seen).map (fun k => (k, f k))) = (nubAux rs seen).map (fun k => (k, f k)) := by
  induction rs generalizing seen with
  | nil => simp [dedupPass2, nubAux]
  | cons r rs ih =>
    obtain ⟨k, t⟩ := r
    simp only [dedupPass2, nubAux]
    by_cases hs : seen.contains k = true
    · simp only [hs, ↓reduceIte]
      by_cases he : ((nubAux rs seen).map (fun k => (k, f k))).isEmpty = true
      · simp only [he, ↓reduceIte]
        simpa using he
      · simp only [he, Bool.false_eq_true, ↓reduceIte, lookup_map]
        have : k ∉ nubAux rs seen := fun h => ((mem_nubAux rs seen k).mp h).2 (by simpa using hs)
        simp only [this, ↓reduceIte]
        exact ih seen
    · simp only [hs, Bool.false_eq_true, ↓reduceIte, List.map_cons, List.isEmpty_cons, List.lookup_cons,
        beq_self_eq_true, List.filter_cons, bne_self_eq_false]
      congr 1
      have hfil : List.filter (fun x => x.1 != k) ((nubAux rs (k :: seen)).map (fun k => (k, f k)))
          = (nubAux rs (k :: seen)).map (fun k => (k, f k)) := by
        rw [List.filter_eq_self]
        intro e he
        simp only [List.mem_map] at he
        obtain ⟨x, hx, rfl⟩ := he
        have := ((mem_nubAux rs (k :: seen) x).mp hx).2
        simp only [List.mem_cons, not_or] at this
        simpa using this.1
      rw [hfil]
      exact ih (k :: seen)

theorem nubAux_length_le (rs : List Rec) (seen : List Nat) : (nubAux rs seen).length ≤ rs.length := by
  induction rs generalizing seen with
  | nil => simp [nubAux]
  | cons r rs ih =>
    obtain ⟨k, t⟩ := r
    simp only [nubAux]
    split
    · have := ih seen; simp only [List.length_cons]; omega
    · have := ih (k :: seen); simp only [List.length_cons]; omega

/-- all keys different (and none seen before) when the map is as long as the list -/
theorem nodup_of_length (rs : List Rec) (seen : List Nat) (h : (nubAux rs seen).length = rs.length) :
    (keys rs).Nodup ∧ ∀ k ∈ keys rs, k ∉ seen := by
  induction rs generalizing seen with
  | nil => simp [keys]
  | cons r rs ih =>
    obtain ⟨k, t⟩ := r
    simp only [nubAux] at h
    by_cases hs : seen.contains k = true
    · simp only [hs, ↓reduceIte, List.length_cons] at h
      have := nubAux_length_le rs seen; omega
    · simp only [hs, Bool.false_eq_true, ↓reduceIte, List.length_cons, Nat.add_right_cancel_iff] at h
      obtain ⟨hn, hd⟩ := ih (k :: seen) h
      have hk : k ∉ seen := by simpa using hs
      simp only [keys, List.map_cons, List.nodup_cons, List.mem_cons, forall_eq_or_imp] at *
      refine ⟨⟨?_, hn⟩, hk, ?_⟩
      · intro hmem
        exact (hd k hmem) (Or.inl rfl)
      · intro x hx
        exact fun hxs => (hd x hx) (Or.inr hxs)

theorem groupMin_unique (rs : List Rec) (hn : (keys rs).Nodup) (k t : Nat) (hm : (k, t) ∈ rs) :
    groupMin k rs = t := by
  induction rs with
  | nil => cases hm
  | cons r rs ih =>
    obtain ⟨k0, t0⟩ := r
    simp only [keys, List.map_cons, List.nodup_cons] at hn
    rw [groupMin_def]
    have hv : vals k ((k0, t0) :: rs) = (if k0 = k then [t0] else []) ++ vals k rs := by
      unfold vals; by_cases h : k0 = k <;> simp [List.filter_cons, h]
    rw [hv]
    by_cases h : k0 = k
    · subst h
      have hnil : vals k0 rs = [] := (vals_nil_iff k0 rs).mpr hn.1
      simp only [↓reduceIte, hnil, List.append_nil, List.foldl_nil]
      rcases List.mem_cons.mp hm with e | e
      · exact (Prod.mk.inj e).2.symm
      · exact absurd (List.mem_map_of_mem (f := (·.1)) e) hn.1
    · simp only [h, ↓reduceIte, List.nil_append]
      rcases List.mem_cons.mp hm with e | e
      · exact absurd (Prod.mk.inj e).1.symm h
      · rw [← groupMin_def]; exact ih hn.2 e

theorem specAux_id (all rs : List Rec) (seen : List Nat) (hn : (keys rs).Nodup) (hd : ∀ k ∈ keys rs, k ∉ seen)
    (hg : ∀ k t, (k, t) ∈ rs → groupMin k all = t) : dedupSpecAux all rs seen = rs := by
  induction rs generalizing seen with
  | nil => rfl
  | cons r rs ih =>
    obtain ⟨k, t⟩ := r
    simp only [keys, List.map_cons, List.nodup_cons, List.mem_cons, forall_eq_or_imp] at hn hd
    have hs : seen.contains k = false := by simpa using hd.1
    simp only [dedupSpecAux, hs, Bool.false_eq_true, ↓reduceIte]
    rw [hg k t (List.mem_cons_self ..)]
    congr 1
    apply ih (k :: seen) hn.2
    · intro x hx
      simp only [List.mem_cons, not_or]
      exact ⟨fun e => hn.1 (e ▸ hx), hd.2 x hx⟩
    · intro k' t' hm; exact hg k' t' (List.mem_cons_of_mem _ hm)

/-- **dedup_refines_spec**: for every list of records, `Dedup` returns exactly the specification — one record
    per normalized key, in the order of first occurrence, with the smallest TTL of the group -/
theorem dedup_refines_spec (rs : List Rec) : dedup rs = dedupSpec rs := by
  unfold dedup
  simp only [pass1_eq_spec]
  by_cases hl : (dedupSpec rs).length = rs.length
  · simp only [hl, ↓reduceIte]
    have hl' : (nubAux rs []).length = rs.length := by simpa [spec_eq] using hl
    obtain ⟨hn, hd⟩ := nodup_of_length rs [] hl'
    exact (specAux_id rs rs [] hn hd (fun k t hm => groupMin_unique rs hn k t hm)).symm
  · simp only [hl, ↓reduceIte]
    rw [spec_eq]
    exact pass2_spec (fun k => groupMin k rs) rs []

/-- consequences read off the specification: the output has pairwise different keys … -/
theorem nubAux_nodup (rs : List Rec) (seen : List Nat) : (nubAux rs seen).Nodup := by
  induction rs generalizing seen with
  | nil => simp [nubAux]
  | cons r rs ih =>
    obtain ⟨k, t⟩ := r
    simp only [nubAux]
    split
    · exact ih seen
    · rw [List.nodup_cons]
      refine ⟨fun h => ?_, ih (k :: seen)⟩
      exact ((mem_nubAux rs (k :: seen) k).mp h).2 (List.mem_cons_self ..)

theorem dedup_keys_nodup (rs : List Rec) : (keys (dedup rs)).Nodup := by
  rw [dedup_refines_spec, spec_eq]
  simp only [keys, List.map_map]
  have : ((fun x : Rec => x.1) ∘ fun k => (k, groupMin k rs)) = id := rfl
  rw [this, List.map_id]
  exact nubAux_nodup rs []

/-- … and exactly the keys of the input -/
theorem dedup_keys_same (rs : List Rec) (k : Nat) : k ∈ keys (dedup rs) ↔ k ∈ keys rs := by
  rw [dedup_refines_spec, spec_eq]
  simp only [keys, List.map_map]
  have : ((fun x : Rec => x.1) ∘ fun k => (k, groupMin k rs)) = id := rfl
  rw [this, List.map_id, mem_nubAux]
  simp [keys]

/-- idempotence -/
theorem dedup_idem (rs : List Rec) : dedup (dedup rs) = dedup rs := by
  have hn := dedup_keys_nodup rs
  generalize dedup rs = out at hn
  rw [dedup_refines_spec]
  exact specAux_id out out [] hn (by simp) (fun k t hm => groupMin_unique out hn k t hm)


/-! ### what the carried TTL is: a TTL of the group, and the smallest of them -/

theorem foldl_min_le_init (ts : List Nat) (t : Nat) : ts.foldl min t ≤ t := by
  induction ts generalizing t with
  | nil => exact Nat.le_refl _
  | cons a ts ih => exact Nat.le_trans (ih (min t a)) (Nat.min_le_left ..)

theorem foldl_min_le_mem (ts : List Nat) (t x : Nat) (hx : x ∈ ts) : ts.foldl min t ≤ x := by
  induction ts generalizing t with
  | nil => cases hx
  | cons a ts ih =>
    rcases List.mem_cons.mp hx with h | h
    · subst h; exact Nat.le_trans (foldl_min_le_init ts (min t x)) (Nat.min_le_right ..)
    · exact ih (min t a) h

theorem foldl_min_mem (ts : List Nat) (t : Nat) : ts.foldl min t = t ∨ ts.foldl min t ∈ ts := by
  induction ts generalizing t with
  | nil => exact Or.inl rfl
  | cons a ts ih =>
    rcases ih (min t a) with h | h
    · rw [List.foldl_cons, h]
      rcases Nat.le_total t a with hl | hl
      · exact Or.inl (Nat.min_eq_left hl)
      · exact Or.inr (by rw [Nat.min_eq_right hl]; exact List.mem_cons_self ..)
    · exact Or.inr (List.mem_cons_of_mem _ h)

/-- the group's minimum is below every TTL of the group … -/
theorem groupMin_le (k : Nat) (rs : List Rec) (t : Nat) (hm : (k, t) ∈ rs) : groupMin k rs ≤ t := by
  have hv : t ∈ vals k rs := by
    unfold vals; exact List.mem_map.mpr ⟨(k, t), List.mem_filter.mpr ⟨hm, by simp⟩, rfl⟩
  rw [groupMin_def]
  match hvs : vals k rs, hv with
  | [], hv => cases hv
  | t0 :: ts, hv =>
    rcases List.mem_cons.mp hv with h | h
    · subst h; exact foldl_min_le_init ts t
    · exact foldl_min_le_mem ts t0 t h

/-- … and is the TTL of one of its records -/
theorem groupMin_mem (k : Nat) (rs : List Rec) (hk : k ∈ keys rs) : (k, groupMin k rs) ∈ rs := by
  have hne : vals k rs ≠ [] := fun h => (vals_nil_iff k rs).mp h hk
  have key : groupMin k rs ∈ vals k rs := by
    rw [groupMin_def]
    match hvs : vals k rs, hne with
    | [], hne => exact absurd rfl hne
    | t0 :: ts, _ =>
      rcases foldl_min_mem ts t0 with h | h
      · show ts.foldl min t0 ∈ t0 :: ts
        rw [h]; exact List.mem_cons_self ..
      · exact List.mem_cons_of_mem _ h
  unfold vals at key
  obtain ⟨⟨k', t'⟩, hf, he⟩ := List.mem_map.mp key
  obtain ⟨hm, hk'⟩ := List.mem_filter.mp hf
  have : k' = k := by simpa using hk'
  subst this; simp only at he; subst he; exact hm

/-- **dedup_ttl_is_min**: every record `Dedup` returns carries a TTL that occurs in the input under the same key
    and that no record of that key undercuts -/
theorem dedup_ttl_is_min (rs : List Rec) (k t : Nat) (h : (k, t) ∈ dedup rs) :
    (k, t) ∈ rs ∧ ∀ t', (k, t') ∈ rs → t ≤ t' := by
  have hk : k ∈ keys rs := (dedup_keys_same rs k).mp (List.mem_map.mpr ⟨(k, t), h, rfl⟩)
  rw [dedup_refines_spec, spec_eq] at h
  obtain ⟨k', _, he⟩ := List.mem_map.mp h
  have e1 : k' = k := congrArg Prod.fst he
  subst e1
  have e2 : groupMin k' rs = t := congrArg Prod.snd he
  subst e2
  exact ⟨groupMin_mem k' rs hk, fun t' hm => groupMin_le k' rs t' hm⟩

/-- **dedup_length_le**: `Dedup` never returns more records than it was given -/
theorem dedup_length_le (rs : List Rec) : (dedup rs).length ≤ rs.length := by
  rw [dedup_refines_spec, spec_eq, List.length_map]
  exact nubAux_length_le rs []

example : dedup [(1, 30), (2, 5), (1, 10)] = [(1, 10), (2, 5)] := by decide

end Dns.C20
