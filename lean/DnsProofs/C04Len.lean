/-
  C04 (size) — the compressed form is never longer: on the whole-message models, what the compressing packer
  (DnsModel/MsgPackC.lean) writes for a message is at most as long as what the plain packer (DnsModel/MsgUnpack.lean:
  `packMsgPlain`) writes for it.  Field by field the two packers run the same codec steps on the same values; they differ
  only at names, where the compressing packer writes `specTail` — the labels up to the first suffix found in the map, then
  a pointer — which is never longer than the labels and the root octet (`specTail_length_le`, for any map).
-/
import DnsProofs.C08Plain
namespace Dns.C04L
open Dns Dns.C03 Dns.C04 Dns.C08 Dns.MU Dns.C02M Dns.C08M

/-- one name -/
theorem name_c_le (text : Bytes) (h : text = [] ∨ NameOK text) (pos : Nat) (m : CMap) (cp : Bool) (w : Bytes) (m' : CMap)
    (hc : nameC text pos m cp = some (w, m')) (w' : Bytes) (hp : packName text = .ok w') : w.length ≤ w'.length := by
  rcases h with rfl | ⟨ls, hok, rfl⟩
  · simp only [nameC, packNameC, List.isEmpty_nil, ↓reduceIte, Option.some.injEq, Prod.mk.injEq] at hc
    obtain ⟨rfl, _⟩ := hc
    simp
  · rw [pack_present ls hok] at hp
    simp only [Outcome.ok.injEq] at hp
    subst hp
    cases ls with
    | nil =>
      have : nameC (presentOf []) pos m cp = some ([0], m) := by
        simp [nameC, presentOf, packNameC, isFqdn, trailingBackslashes]
      rw [this] at hc
      simp only [Option.some.injEq, Prod.mk.injEq] at hc
      obtain ⟨rfl, _⟩ := hc
      simp [wireOf]
    | cons l rest =>
      rw [presentOf_eq] at hc
      have hv := C04M.wireNameOK_valid (l :: rest) hok
      obtain ⟨ptr, hspec⟩ := packNameC_spec pos m cp (l :: rest) (by simp) hv
      simp only [nameC, hspec, Option.some.injEq, Prod.mk.injEq] at hc
      obtain ⟨rfl, _⟩ := hc
      have := specTail_length_le pos m cp (l :: rest) 0
      rw [wireOf_eq]
      simp only [List.length_append, List.length_cons, List.length_nil]
      omega

theorem names_c_le (texts : List Bytes) (h : ∀ t ∈ texts, NameOK t) (pos : Nat) (m : CMap) (w : Bytes) (m' : CMap)
    (hc : packNamesC pos m texts = some (w, m')) (w' : Bytes) (hp : packNames texts = some w') :
    w.length ≤ w'.length := by
  induction texts generalizing pos m w m' w' with
  | nil =>
    simp only [packNamesC, Option.some.injEq, Prod.mk.injEq] at hc
    obtain ⟨rfl, _⟩ := hc
    simp
  | cons t rest ih =>
    simp only [packNamesC] at hc
    split at hc
    · rename_i w1 m1 h1
      cases hr : packNamesC (pos + w1.length) m1 rest with
      | none => simp [hr] at hc
      | some q =>
        simp only [hr, Option.map_some, Option.some.injEq, Prod.mk.injEq] at hc
        obtain ⟨rfl, _⟩ := hc
        simp only [packNames] at hp
        cases ht : packName t with
        | ok w1' =>
          cases hr' : packNames rest with
          | none => simp [ht, hr'] at hp
          | some w2' =>
            simp only [ht, hr', Option.some.injEq] at hp
            subst hp
            have a := name_c_le t (Or.inr (h t (by simp))) pos m false w1 m1 h1 w1' ht
            have b := ih (fun t ht => h t (by simp [ht])) (pos + w1.length) m1 q.1 q.2 hr w2' hr'
            simp only [List.length_append]
            omega
        | err => simp [ht] at hp
        | panic => simp [ht] at hp
    · cases hc

/-- one codec step -/
theorem step_c_le (acc : List Val) (pos : Nat) (m : CMap) (cp : Bool) (s : CStep) (v : Val) (hn : ValNamesOK v)
    (w : Bytes) (m' : CMap) (hc : packStepC acc pos m cp s v = some (w, m')) (w' : Bytes)
    (hp : packStep acc s v = some w') : w.length ≤ w'.length := by
  by_cases h1 : s = .name
  · subst h1
    cases v <;> (try (simp [packStep] at hp; done))
    rename_i text
    simp only [packStepC] at hc
    simp only [packStep] at hp
    cases hpn : packName text with
    | ok w0 => simp only [hpn, Option.some.injEq] at hp; subst hp; exact name_c_le text hn pos m cp w m' hc w0 hpn
    | err => simp [hpn] at hp
    | panic => simp [hpn] at hp
  · by_cases h2 : s = .names
    · subst h2
      cases v <;> (try (simp [packStep] at hp; done))
      rename_i texts
      simp only [packStepC] at hc
      simp only [packStep] at hp
      exact names_c_le texts hn pos m w m' hc w' hp
    · by_cases h3 : ∃ i mk t, s = .gateway i mk ∧ v = .t t
      · obtain ⟨i, mk, t, rfl, rfl⟩ := h3
        obtain ⟨h3', hpn⟩ := gateway_t_size acc i mk t w' hp
        simp only [packStepC, h3', ↓reduceIte] at hc
        exact name_c_le t hn pos m false w m' hc w' hpn
      · have h3' : ∀ i mk t, ¬ (s = .gateway i mk ∧ v = .t t) := fun i mk t h => h3 ⟨i, mk, t, h⟩
        rw [C04M.packStepC_plain acc pos m cp s v h1 h2 h3', hp] at hc
        simp only [Option.map_some, Option.some.injEq, Prod.mk.injEq] at hc
        obtain ⟨rfl, _⟩ := hc
        exact Nat.le_refl _

/-- one RDATA body -/
theorem plan_c_le (steps : List CStep) :
    ∀ (acc vals : List Val) (pos : Nat) (m : CMap) (flags : List Bool), (∀ v ∈ vals, ValNamesOK v) →
    ∀ (w : Bytes) (m' : CMap), packPlanC acc pos m steps vals flags = some (w, m') →
    ∀ (w' : Bytes), packPlanAcc acc steps vals = some w' → w.length ≤ w'.length := by
  induction steps with
  | nil =>
    intro acc vals pos m flags _ w m' hc w' hp
    cases vals with
    | nil =>
      simp only [packPlanC, Option.some.injEq, Prod.mk.injEq] at hc
      obtain ⟨rfl, _⟩ := hc
      simp
    | cons _ _ => simp [packPlanC] at hc
  | cons s steps ih =>
    intro acc vals pos m flags hn w m' hc w' hp
    by_cases he : s = .early
    · subst he
      simp only [packPlanC] at hc
      simp only [packPlanAcc] at hp
      exact ih acc vals pos m flags hn w m' hc w' hp
    · cases vals with
      | nil =>
        cases s <;> first | exact absurd rfl he | simp [packPlanC] at hc
      | cons v vs =>
        rw [C04M.packPlanC_cons _ _ _ _ _ _ _ _ he] at hc
        rw [packPlanAcc_cons _ _ _ _ _ he] at hp
        split at hc
        · rename_i a m1 hs
          cases hq : packPlanC (acc ++ [v]) (pos + a.length) m1 steps vs flags.tail with
          | none => simp [hq] at hc
          | some q =>
            simp only [hq, Option.map_some, Option.some.injEq, Prod.mk.injEq] at hc
            obtain ⟨rfl, _⟩ := hc
            cases ha : packStep acc s v with
            | none => simp [ha] at hp
            | some a' =>
              cases hr : packPlanAcc (acc ++ [v]) steps vs with
              | none => simp [ha, hr] at hp
              | some r' =>
                simp only [ha, hr, Option.some.injEq] at hp
                subst hp
                have h1 := step_c_le acc pos m (flags.headD false) s v (hn v (by simp)) a m1 hs a' ha
                have h2 := ih (acc ++ [v]) vs (pos + a.length) m1 flags.tail (fun v hv => hn v (by simp [hv])) q.1 q.2 hq r' hr
                simp only [List.length_append]
                omega
        · simp at hc

/-- recoding the option / parameter values leaves the names alone -/
theorem recode_names (kind : String) (vals vs : List Val) (h : vals.mapM (recode kind) = some vs)
    (hn : ∀ v ∈ vals, ValNamesOK v) : ∀ v ∈ vs, ValNamesOK v := by
  have hrel := mapM_rel2 _ _ _ h
  induction vals generalizing vs with
  | nil => cases vs <;> simp_all [Rel2]
  | cons x xs ih =>
    cases vs with
    | nil => simp [Rel2] at hrel
    | cons y ys =>
      simp only [Rel2] at hrel
      rw [List.mapM_cons] at h
      cases hx : recode kind x with
      | none => simp [hx] at h
      | some y0 =>
        cases hr : xs.mapM (recode kind) with
        | none => simp [hx, hr] at h
        | some r =>
          simp [hx, hr] at h
          obtain ⟨rfl, rfl⟩ := h
          intro v hv
          rcases List.mem_cons.mp hv with rfl | hv'
          · rcases recode_shape kind x v hx with rfl | ⟨_, _, _, rfl, _⟩
            · exact hn _ (by simp)
            · trivial
          · exact ih r hr (fun v hv => hn v (by simp [hv])) hrel.2 v hv'

/-- one record -/
theorem rr_c_le (r : RRm) (hn : RRNamesOK r) (rc : RRc) (htp : toPack r = some rc) (pos : Nat) (m : CMap) (cp : Bool)
    (w : Bytes) (m' : CMap) (hc : packRRC pos m cp rc.owner rc.typ rc.cls rc.ttl rc.plan rc.vals rc.flags = some (w, m'))
    (w' : Bytes) (hp : repackRR r = some w') : w.length ≤ w'.length := by
  unfold repackRR at hp
  cases hcu : Gen.unpackCodecs.lookup r.kind with
  | none => simp [toPack, hcu] at htp
  | some cu =>
    rw [hcu] at hp
    have htp' : ((valsOf r cu).mapM (recode r.kind)).map
        (fun vs => (⟨r.name, r.typ, r.cls, r.ttl, stripPlan cu, vs, flagsOf r.kind⟩ : RRc)) = some rc := by
      unfold toPack at htp; rw [hcu] at htp; exact htp
    cases hown : packName r.name with
    | ok owner =>
      rw [hown] at hp
      have hp' : (((valsOf r cu).mapM (recode r.kind)).bind (packPlan (stripPlan cu))).bind (fun rd =>
          if rd.length < 65536 then some (encodeRR owner r.typ r.cls r.ttl rd) else none) = some w' := hp
      cases hvs : (valsOf r cu).mapM (recode r.kind) with
      | none => simp [hvs] at htp'
      | some vs =>
        simp only [hvs, Option.map_some, Option.some.injEq] at htp'
        subst htp'
        simp only at hc
        cases hrd : packPlan (stripPlan cu) vs with
        | none => simp [hvs, hrd] at hp'
        | some rd =>
          simp only [hvs, hrd, Option.bind_some] at hp'
          split at hp'
          · simp only [Option.some.injEq] at hp'
            subst hp'
            simp only [packRRC] at hc
            split at hc
            · rename_i o m1 ho
              cases hq : packPlanC [] (pos + o.length + 10) m1 (stripPlan cu) vs (flagsOf r.kind) with
              | none => simp [hq] at hc
              | some q =>
                simp only [hq, Option.bind_some] at hc
                split at hc
                · simp only [Option.some.injEq, Prod.mk.injEq] at hc
                  obtain ⟨rfl, _⟩ := hc
                  have hvn : ∀ v ∈ valsOf r cu, ValNamesOK v := by
                    intro v hv
                    unfold valsOf at hv
                    cases hb : r.body with
                    | some vals => rw [hb] at hv; exact hn.2 vals hb v hv
                    | none => rw [hb] at hv; exact zero_names cu v hv
                  have h1 := name_c_le r.name hn.1 pos m cp o m1 ho owner hown
                  have h2 := plan_c_le (stripPlan cu) [] vs (pos + o.length + 10) m1 (flagsOf r.kind)
                    (recode_names r.kind _ vs hvs hvn) q.1 q.2 hq rd hrd
                  simp only [encodeRR, List.length_append, C11.beBytes_length]
                  omega
                · simp at hc
            · simp at hc
          · cases hp'
    | err => simp [hown] at hp
    | panic => simp [hown] at hp

theorem section_c_le (rs : List RRm) (rcs : List RRc) (hrel : Rel2 (fun r rc => toPack r = some rc) rs rcs)
    (hn : ∀ r ∈ rs, RRNamesOK r) (pos : Nat) (m : CMap) (cp : Bool) (w : Bytes) (m' : CMap)
    (hc : packRRcs pos m cp rcs = some (w, m')) (w' : Bytes) (hp : concatAll (rs.map repackRR) = some w') :
    w.length ≤ w'.length := by
  induction rs generalizing rcs pos m w m' w' with
  | nil =>
    cases rcs with
    | nil =>
      simp only [packRRcs, Option.some.injEq, Prod.mk.injEq] at hc
      obtain ⟨rfl, _⟩ := hc
      simp
    | cons _ _ => simp [Rel2] at hrel
  | cons r rs ih =>
    cases rcs with
    | nil => simp [Rel2] at hrel
    | cons rc rcs =>
      simp only [Rel2] at hrel
      simp only [packRRcs] at hc
      split at hc
      · rename_i w1 m1 h1
        cases hq : packRRcs (pos + w1.length) m1 cp rcs with
        | none => simp [hq] at hc
        | some q =>
          simp only [hq, Option.map_some, Option.some.injEq, Prod.mk.injEq] at hc
          obtain ⟨rfl, _⟩ := hc
          simp only [List.map_cons, concatAll] at hp
          cases hr1 : repackRR r with
          | none => simp [hr1] at hp
          | some y =>
            cases hr : concatAll (rs.map repackRR) with
            | none => simp [hr1, hr] at hp
            | some rest =>
              simp only [hr1, hr, Option.some.injEq] at hp
              subst hp
              have a := rr_c_le r (hn r (by simp)) rc hrel.1 pos m cp w1 m1 h1 y hr1
              have b := ih rcs hrel.2 (fun r hr' => hn r (by simp [hr'])) (pos + w1.length) m1 q.1 q.2 hq rest hr
              simp only [List.length_append]
              omega
      · simp at hc

theorem questions_c_le (qs : List Qm) (hq : ∀ q ∈ qs, NameOK q.name) (pos : Nat) (m : CMap) (cp : Bool) (w : Bytes)
    (m' : CMap) (hc : packQCs pos m cp qs = some (w, m')) (w' : Bytes) (hp : concatAll (qs.map encodeQ) = some w') :
    w.length ≤ w'.length := by
  induction qs generalizing pos m w m' w' with
  | nil =>
    simp only [packQCs, Option.some.injEq, Prod.mk.injEq] at hc
    obtain ⟨rfl, _⟩ := hc
    simp
  | cons q qs ih =>
    simp only [packQCs] at hc
    split at hc
    · rename_i w1 m1 h1
      cases hr : packQCs (pos + w1.length) m1 cp qs with
      | none => simp [hr] at hc
      | some r =>
        simp only [hr, Option.map_some, Option.some.injEq, Prod.mk.injEq] at hc
        obtain ⟨rfl, _⟩ := hc
        simp only [List.map_cons, concatAll] at hp
        cases hq1 : encodeQ q with
        | none => simp [hq1] at hp
        | some y =>
          cases hr' : concatAll (qs.map encodeQ) with
          | none => simp [hq1, hr'] at hp
          | some rest =>
            simp only [hq1, hr', Option.some.injEq] at hp
            subst hp
            simp only [packQC] at h1
            cases hn : nameC q.name pos m cp with
            | none => simp [hn] at h1
            | some nm =>
              obtain ⟨o, m2⟩ := nm
              simp only [hn, Option.map_some, Option.some.injEq, Prod.mk.injEq] at h1
              obtain ⟨rfl, rfl⟩ := h1
              simp only [encodeQ] at hq1
              cases hpn : packName q.name with
              | ok w0 =>
                simp only [hpn, Option.some.injEq] at hq1
                subst hq1
                have a := name_c_le q.name (Or.inr (hq q (by simp))) pos m cp o m2 hn w0 hpn
                have b := ih (fun q hq' => hq q (by simp [hq'])) _ m2 r.1 r.2 hr rest hr'
                simp only [List.length_append, C11.beBytes_length] at b ⊢
                omega
              | err => simp [hpn] at hq1
              | panic => simp [hpn] at hq1
    · simp at hc

/-- **the compressed form is never longer**: for every decoded message (names as the decoder produces them), what the
    packer model writes with `Compress` is at most as long as what it writes without -/
theorem compressed_never_longer (m : MsgM) (hq : ∀ q ∈ m.question, NameOK q.name)
    (hn : ∀ r ∈ m.answer ++ m.ns ++ m.extra, RRNamesOK r) (wc : Bytes) (hc : packMsgCOf m = some wc) (wp : Bytes)
    (hp : packMsgPlain m = some wp) : wc.length ≤ wp.length := by
  unfold packMsgCOf at hc
  split at hc
  · rw [hc] at hp; simp only [Option.some.injEq] at hp; subst hp; exact Nat.le_refl _
  · split at hc
    · cases hc
    · split at hc
      · cases hc
      · cases han : m.answer.mapM toPack with
        | none => simp [han] at hc
        | some an =>
          cases hns : m.ns.mapM toPack with
          | none => simp [han, hns] at hc
          | some ns =>
            cases hex : m.extra.mapM toPack with
            | none => simp [han, hns, hex] at hc
            | some ex =>
              simp only [han, hns, hex] at hc
              unfold packMsgC at hc
              simp only at hc
              rename_i hr1 hr2
              unfold packMsgPlain at hp
              rw [if_neg hr1, if_neg hr2] at hp
              · simp only at hp
                · skip
                  cases hb : concatAll (m.question.map encodeQ ++ (m.answer.map repackRR ++ (m.ns.map repackRR ++
                      m.extra.map repackRR))) with
                  | none => simp [hb] at hp
                  | some body =>
                    simp only [hb, Option.map_some, Option.some.injEq] at hp
                    subst hp
                    obtain ⟨xq, x1, hxq, hx1, rfl⟩ := concatAll_append _ _ body hb
                    obtain ⟨xa, x2, hxa, hx2, rfl⟩ := concatAll_append _ _ x1 hx1
                    obtain ⟨xn, xe, hxn, hxe, rfl⟩ := concatAll_append _ _ x2 hx2
                    split at hc
                    · cases hc
                    · rename_i wq m1 hwq
                      split at hc
                      · cases hc
                      · rename_i wa m2 hwa
                        split at hc
                        · cases hc
                        · rename_i wn m3 hwn
                          split at hc
                          · cases hc
                          · rename_i we m4 hwe
                            simp only [Option.some.injEq] at hc
                            subst hc
                            have a := questions_c_le m.question hq 12 [] true wq m1 hwq xq hxq
                            have b := section_c_le m.answer an (mapM_rel2 _ _ _ han) (fun r hr => hn r (by simp [hr]))
                              _ _ true wa m2 hwa xa hxa
                            have c := section_c_le m.ns ns (mapM_rel2 _ _ _ hns) (fun r hr => hn r (by simp [hr]))
                              _ _ true wn m3 hwn xn hxn
                            have d := section_c_le m.extra ex (mapM_rel2 _ _ _ hex) (fun r hr => hn r (by simp [hr]))
                              _ _ true we m4 hwe xe hxe
                            simp only [List.length_append, C11.beBytes_length]
                            omega

end Dns.C04L
