/-
  C19 (PrevLabel) — stepping backwards: `PrevLabel(s, n)` is the start of the n-th label from the right, and reports
  overshoot when the name has fewer labels.
-/
import DnsModel.Labels
import DnsProofs.C19
namespace Dns.C19
open Dns Dns.C03

/-- scanning downwards through the inside of a label changes nothing -/
theorem prevLoop_in_label (done : List Bytes) (l C : Bytes) (t n : Nat) (ht : t ≤ (presentLabel l).length) (hn : n ≠ 0) :
    prevLabelLoop (presentLabels done ++ presentLabel l ++ C) ((presentLabels done).length + t) n
      = prevLabelLoop (presentLabels done ++ presentLabel l ++ C) (presentLabels done).length n := by
  induction t with
  | zero => rfl
  | succ t ih =>
    have hns := no_sep_in_label done [] l C t (by omega)
    simp only [presentLabel, List.flatMap_nil, List.append_nil] at hns
    have e : presentLabels done ++ List.flatMap presentByte l ++ C = presentLabels done ++ presentLabel l ++ C := rfl
    rw [e] at hns
    rw [← Nat.add_assoc, prevLabelLoop]
    simp only [hn, ↓reduceIte, hns, Bool.false_eq_true]
    exact ih (by omega)

/-- the scan from just below the final dot of the first `k` labels, looking for the `n`-th label start -/
theorem prevLoop_labels (k : Nat) : ∀ (pre post : List Bytes) (n : Nat), pre.length = k → n ≠ 0 → pre ≠ [] →
    prevLabelLoop (presentLabels (pre ++ post)) ((presentLabels pre).length - 1) n
      = if n ≤ pre.length then ((presentLabels (pre.take (pre.length - n))).length, false) else (0, true) := by
  induction k with
  | zero => intro pre post n hk _ hne; exact absurd (List.length_eq_zero_iff.mp hk) hne
  | succ k ih =>
    intro pre post n hk hn hne
    rcases List.eq_nil_or_concat pre with h | ⟨p0, l, h⟩
    · exact absurd h hne
    rw [List.concat_eq_append] at h
    subst h
    have hp0 : p0.length = k := by simpa using hk
    -- the region is  P p0 ++ pl l  (the final dot of l is excluded)
    have e1 : presentLabels (p0 ++ [l] ++ post) = presentLabels p0 ++ presentLabel l ++ (46 :: presentLabels post) := by
      simp [presentLabels]
    have e2 : (presentLabels (p0 ++ [l])).length - 1 = (presentLabels p0).length + (presentLabel l).length := by
      rw [presentLabels_snoc_length]; omega
    rw [e1, e2, prevLoop_in_label p0 l _ _ n (Nat.le_refl _) hn]
    by_cases hp : p0 = []
    · -- first label: the scan reaches the start of the text
      subst hp
      have hz : (presentLabels ([] : List Bytes)).length = 0 := rfl
      rw [hz, prevLabelLoop]
      by_cases h1 : n = 1
      · subst h1; simp [presentLabels]
      · have : ¬ n ≤ 1 := by omega
        simp [this]; omega
    · -- below sits the final dot of the previous label
      have hpos : 1 ≤ (presentLabels p0).length := by
        have := presentLabels_length_ge p0
        have : 0 < p0.length := List.length_pos_iff.mpr hp
        omega
      obtain ⟨q, hq⟩ : ∃ q, (presentLabels p0).length = q + 1 := ⟨(presentLabels p0).length - 1, by omega⟩
      rcases List.eq_nil_or_concat p0 with h0 | ⟨p1, l1, h0⟩
      · exact absurd h0 hp
      rw [List.concat_eq_append] at h0
      have hsep : isSepDot (presentLabels p0 ++ presentLabel l ++ 46 :: presentLabels post) q = true := by
        have := sep_at_label_end p1 l1 (presentLabels [] ++ presentLabel l ++ 46 :: presentLabels post)
        have e3 : presentLabels p0 = presentLabels p1 ++ presentLabel l1 ++ [46] := by rw [h0, presentLabels_snoc]
        have hq' : q = (presentLabels p1 ++ presentLabel l1).length := by
          rw [e3] at hq; simp only [List.length_append, List.length_cons, List.length_nil] at hq ⊢; omega
        rw [hq', e3]
        simpa [presentLabels, List.append_assoc] using this
      rw [hq, prevLabelLoop]
      simp only [hn, ↓reduceIte, hsep]
      by_cases h1 : n - 1 = 0
      · have hn1 : n = 1 := by omega
        subst hn1
        simp only [Nat.sub_self, ↓reduceIte, List.length_append, List.length_cons, List.length_nil]
        have : 1 ≤ p0.length + 1 := by omega
        simp only [this, ↓reduceIte, Nat.add_sub_cancel, List.take_left', hq]
      · simp only [h1, ↓reduceIte]
        have := ih p0 ([l] ++ post) (n - 1) hp0 h1 hp
        have e4 : presentLabels (p0 ++ ([l] ++ post)) = presentLabels p0 ++ presentLabel l ++ 46 :: presentLabels post := by
          simp [presentLabels]
        rw [e4, hq, Nat.add_sub_cancel] at this
        rw [this]
        simp only [List.length_append, List.length_cons, List.length_nil]
        by_cases hle : n - 1 ≤ p0.length
        · have hle' : n ≤ p0.length + 1 := by omega
          simp only [hle, hle', ↓reduceIte]
          have e5 : p0.length + 1 - n = p0.length - (n - 1) := by omega
          rw [e5, List.take_append_of_le_length (by omega)]
        · have hle' : ¬ n ≤ p0.length + 1 := by omega
          simp [hle, hle']

/-- **PrevLabel**: the start of the `n`-th label from the right; overshoot is reported -/
theorem prevLabel_labels (ls : List Bytes) (n : Nat) (hne : ls ≠ []) (hl : ∀ l ∈ ls, l ≠ []) :
    prevLabel (presentLabels ls) n =
      if n = 0 then ((presentLabels ls).length, false)
      else if n ≤ ls.length then ((presentLabels (ls.take (ls.length - n))).length, false)
      else (0, true) := by
  have h2 : 2 ≤ (presentLabels ls).length := by
    match ls, hne with
    | (b :: l) :: rest, _ =>
      have hnn := presentByte_ne_nil b
      simp [presentLabels, presentLabel]; omega
    | [] :: rest, _ => exact absurd rfl (hl [] (by simp))
  have hemp : (presentLabels ls).isEmpty = false := by
    cases h : presentLabels ls with
    | nil => rw [h] at h2; simp at h2
    | cons _ _ => rfl
  unfold prevLabel
  simp only [hemp, Bool.false_eq_true, ↓reduceIte]
  by_cases hn : n = 0
  · simp [hn]
  · simp only [hn, ↓reduceIte]
    have hlast : (presentLabels ls).getD ((presentLabels ls).length - 1) 0 = 46 := by
      rcases List.eq_nil_or_concat ls with h | ⟨p, l, h⟩
      · exact absurd h hne
      rw [List.concat_eq_append] at h
      subst h
      rw [presentLabels_snoc]
      simp [List.getD]
    simp only [hlast, beq_self_eq_true, ↓reduceIte]
    have := prevLoop_labels ls.length ls [] n rfl hn hne
    simpa using this

end Dns.C19
