#!/usr/bin/env python3
# Writes MANIFEST.json from the table below (kept in one place so it stays valid).
import json, os
V = os.path.dirname(os.path.abspath(__file__))
props = [json.loads(l) for l in open(os.path.join(V, "properties.jsonl"))]
claimed = json.load(open(os.path.join(V, "claims.json")))
checks, na = [], []
for p in props:
    pid = p["id"]
    c = claimed.get(pid)
    if not c or c.get("not_applicable"):
        na.append({"property_id": pid, "reason": (c or {}).get("not_applicable", "check not built yet in this session; see DESIGN.md section 4 for the planned model and theorems")})
        continue
    checks.append({
        "property_id": pid,
        "quick_cmd": "./check %s --tier quick" % pid,
        "thorough_cmd": "./check %s --tier thorough" % pid,
        "evidence_file": "evidence/%s.json" % pid,
        "replay_cmd_template": "./check %s --replay {path}" % pid,
        "engine": "lean-proof+correspondence",
        "level_claimed": {"category": "proof", "text": c["text"], "design_ref": "DESIGN.md section 4, " + pid},
        "level_note": c["note"],
        "technique": c["technique"],
    })
m = {
    "version": 1,
    "setup_cmd": "./setup.sh",
    "hooks": {
        "guard": "verif",
        "enable": "go build -tags verif (the harness module replaces github.com/miekg/dns by /repo)",
        "baseline_off_cmd": "cd /repo && GOFLAGS=-mod=mod GOPROXY=off go test -vet=off -count=1 ./...",
        "source_commits": json.load(open(os.path.join(V, "hooks.json"))),
        "add_only": True,
    },
    "engines": [
        {"name": "lean-proof+correspondence", "path": "check", "serves_properties": [c["property_id"] for c in checks],
         "kind_free_text": "Lean 4 theorems about an executable model (lean/DnsModel, lean/DnsProofs), tied to /repo on every run by a go/ast fact extractor that regenerates lean/DnsModel/Generated and by a differential harness (harness/) that runs the real code and the compiled Lean model on the same operations"},
    ],
    "checks": checks,
    "not_applicable": na,
    "notes": "See DESIGN.md. KNOWN_FINDINGS.jsonl lists recorded defects and fix: commits.",
}
json.dump(m, open(os.path.join(V, "MANIFEST.json"), "w"), indent=1)
print("checks:", len(checks), "not_applicable:", len(na))
