/-
  DnsModel.Sig0 — sig0.go SIG.Verify: the manual offset walk over the signed message, in `Outcome` style:
  `panic` is produced exactly where Go would index or slice outside the buffer.
-/
import DnsModel.Name
namespace Dns

/-- `binary.BigEndian.Uint16(buf[off:])`: slicing panics when `off > len`, reading when fewer than 2 octets -/
def goU16 (buf : Bytes) (off : Nat) : Outcome Nat :=
  if off + 2 ≤ buf.length then .ok (beVal (slice buf off 2)) else .panic

def goU32 (buf : Bytes) (off : Nat) : Outcome Nat :=
  if off + 4 ≤ buf.length then .ok (beVal (slice buf off 4)) else .panic

/-- first loop: `for i < qdc && offset < buflen { name; offset += 4 }` -/
def skipQuestions (buf : Bytes) : (n : Nat) → (offset : Nat) → Outcome Nat
  | 0, offset => .ok offset
  | n + 1, offset =>
    if offset < buf.length then
      match unpackName buf offset with
      | .ok (_, o) => skipQuestions buf n (o + 4)
      | .err => .err
      | .panic => .panic
    else .ok offset

/-- second loop: `for i := 1; i < total && offset < buflen` over the records before the SIG -/
def skipRecords (buf : Bytes) : (n : Nat) → (offset : Nat) → Outcome Nat
  | 0, offset => .ok offset
  | n + 1, offset =>
    if offset < buf.length then
      match unpackName buf offset with
      | .ok (_, o) =>
        let offset := o + 8
        if offset + 1 ≥ buf.length then skipRecords buf n offset     -- `continue`
        else
          match goU16 buf offset with
          | .ok rdlen => skipRecords buf n (offset + 2 + rdlen)
          | .err => .err
          | .panic => .panic
      | .err => .err
      | .panic => .panic
    else .ok offset

structure SigWalk where
  bodyend : Nat
  sigstart : Nat
  sigend : Nat
  expire : Nat
  incept : Nat
  signer : Bytes
  adc : Nat
deriving Repr

/-- the walk of `SIG.Verify` up to the point where the hash input is assembled -/
def sigWalk (buf : Bytes) : Outcome SigWalk := do
  let qdc ← goU16 buf 4
  let anc ← goU16 buf 6
  let auc ← goU16 buf 8
  let adc ← goU16 buf 10
  let offset ← skipQuestions buf qdc 12
  let total := (anc + auc + adc) % 65536
  let offset ← skipRecords buf (total - 1) offset
  if offset ≥ buf.length then .err
  else
    let bodyend := offset
    match unpackName buf offset with
    | .ok (_, o) =>
      let sigstart := o + 10
      let offset := sigstart + 8
      if offset + 8 ≥ buf.length then .err
      else do
        let expire ← goU32 buf offset
        let incept ← goU32 buf (offset + 4)
        let offset := offset + 10
        match unpackName buf offset with
        | .ok (signer, sigend) =>
          -- `buf[sigstart:sigend]`, `buf[:10]`, `buf[12:bodyend]`, `buf[sigend:]`
          if sigstart ≤ sigend ∧ sigend ≤ buf.length ∧ 12 ≤ bodyend ∧ bodyend ≤ buf.length ∧ 10 ≤ buf.length then
            .ok ⟨bodyend, sigstart, sigend, expire, incept, signer, adc⟩
          else .panic
        | .err => .err
        | .panic => .panic
    | .err => .err
    | .panic => .panic

/-- what Verify hashes: SIG RDATA without the signature ‖ header with the original ARCOUNT ‖ body -/
def sigHashInput (buf : Bytes) (w : SigWalk) : Bytes :=
  slice buf w.sigstart (w.sigend - w.sigstart) ++ buf.take 10
    ++ [UInt8.ofNat ((w.adc + 65535) % 65536 / 256 % 256), UInt8.ofNat ((w.adc + 65535) % 65536 % 256)]
    ++ slice buf 12 (w.bodyend - 12)

end Dns
