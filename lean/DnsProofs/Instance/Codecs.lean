/-
  Instance facts about the regenerated codec table (DnsModel/Generated/Codecs.lean): which types the algebra covers,
  and that for those the generated pack body is the one that belongs to the generated unpack body.
-/
import DnsModel.Codec
import DnsModel.Generated.Codecs
import DnsProofs.C01Codec
namespace Dns.Instance
open Dns Dns.C01

/-- the types whose unpack body lies inside the algebra -/
def coveredTypes : List String := (Gen.unpackCodecs.filter (fun p => GoodPlan p.2)).map (·.1)

/-- all 81 generated bodies are covered (EDNS0 options and SVCB parameters at the level of their (code, value octets)
    framing; the value codecs of the individual options are checked on the implementation by the wire-level oracle) -/
theorem covered_types :
    coveredTypes = ["A", "AAAA", "AFSDB", "AMTRELAY", "ANY", "APL", "AVC", "CAA", "CDNSKEY", "CDS", "CERT", "CNAME", "CSYNC", "DHCID", "DLV", "DNAME",
      "DNSKEY", "DS", "EID", "EUI48", "EUI64", "GID", "GPOS", "HINFO", "HIP", "HTTPS", "IPSECKEY", "ISDN", "KEY", "KX", "L32", "L64", "LOC", "LP", "MB",
      "MD", "MF", "MG", "MINFO", "MR", "MX", "NAPTR", "NID", "NIMLOC", "NINFO", "NS", "NSAPPTR", "NSEC", "NSEC3", "NSEC3PARAM", "NULL",
      "NXNAME", "NXT", "OPENPGPKEY", "OPT", "PTR", "PX", "RESINFO", "RFC3597", "RKEY", "RP", "RRSIG", "RT", "SIG", "SMIMEA", "SOA", "SPF",
      "SRV", "SSHFP", "SVCB", "TA", "TALINK", "TKEY", "TLSA", "TSIG", "TXT", "UID", "UINFO", "URI", "X25", "ZONEMD"] := by
  decide

/-- for every covered type the generated `pack` body is exactly the pack side of its generated `unpack` body -/
theorem pack_matches_unpack :
    (Gen.unpackCodecs.filter (fun p => GoodPlan p.2)).all
      (fun p => Gen.packCodecs.lookup p.1 == some (stripPlan p.2)) = true := by
  decide

/-- **generated_bodies_inverse**: for every covered record type and all fitting field values, the generated `unpack`
    body applied to what the generated `pack` body wrote returns the field values -/
theorem generated_bodies_inverse (t : String) (U : List CStep) (vals : List Val)
    (hmem : (t, U) ∈ Gen.unpackCodecs) (hg : GoodPlan U = true) (hw : WFPlan [] U vals) :
    ∃ P w, Gen.packCodecs.lookup t = some P ∧ packPlan P vals = some w ∧ unpackPlan U w [] = some vals := by
  have hall := pack_matches_unpack
  rw [List.all_eq_true] at hall
  have := hall (t, U) (List.mem_filter.mpr ⟨hmem, hg⟩)
  simp only [beq_iff_eq] at this
  obtain ⟨w, h1, h2⟩ := plan_roundtrip [] U vals hg hw
  exact ⟨stripPlan U, w, this, by simpa [packPlan] using h1, by simpa using h2⟩

/-- nothing in the generated table is outside the algebra -/
theorem all_covered : Gen.unpackCodecs.all (fun p => GoodPlan p.2) = true ∧ Gen.unpackCodecs.length = 81 := by decide

/-- **no collisions**: two lists of fitting field values of a covered record type that pack to the same RDATA are the
    same values — what the packer writes determines every field -/
theorem pack_injective (U : List CStep) (v1 v2 : List Val) (hg : GoodPlan U = true) (h1 : WFPlan [] U v1)
    (h2 : WFPlan [] U v2) (h : packPlan (stripPlan U) v1 = packPlan (stripPlan U) v2) : v1 = v2 := by
  obtain ⟨w1, p1, u1⟩ := plan_roundtrip [] U v1 hg h1
  obtain ⟨w2, p2, u2⟩ := plan_roundtrip [] U v2 hg h2
  unfold packPlan at h
  rw [p1, p2] at h
  have hw : w1 = w2 := Option.some.inj h
  subst hw
  rw [u1] at u2
  simpa using u2

end Dns.Instance
