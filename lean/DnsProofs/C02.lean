/-
  C02 — hostile wire input: the name decoder never panics, stays inside the input, and whatever it
  accepts is a name within the 63/255-octet limits in the library's own spelling.
-/
import DnsModel.Name
import DnsProofs.C03
namespace Dns.C02
open Dns Dns.C03

/-- **never panics**: for every byte string and every offset the name decoder returns a value or an error -/
theorem unpackLoop_ne_panic (msg : Bytes) (off ptr budget off1 : Nat) (acc : Bytes) :
    unpackNameLoop msg off ptr budget off1 acc ≠ .panic := by
  fun_induction unpackNameLoop msg off ptr budget off1 acc <;> simp_all

theorem unpackName_ne_panic (msg : Bytes) (off : Nat) : unpackName msg off ≠ .panic :=
  unpackLoop_ne_panic msg off 0 _ 0 []

theorem slice_length (msg : Bytes) (off n : Nat) (h : off + n ≤ msg.length) : (slice msg off n).length = n := by
  simp [slice]; omega

theorem presentLabels_eq_nil (ls : List Bytes) : presentLabels ls = [] ↔ ls = [] := by
  cases ls with
  | nil => simp [presentLabels]
  | cons l ls => simp [presentLabels]

set_option tactic.hygienic false in
/-- loop invariant: what has been accumulated is the spelling of a label list within the limits, and the
    budget accounts for exactly its wire octets -/
theorem unpackLoop_sound (msg : Bytes) (off ptr budget off1 : Nat) (acc : Bytes) (s : Bytes) (o : Nat) :
    ∀ (ls : List Bytes), acc = presentLabels ls →
    (∀ l ∈ ls, 1 ≤ l.length ∧ l.length ≤ 63) →
    budget + (wireLabels ls).length = 255 → 1 ≤ budget →
    (ptr > 0 → off1 ≤ msg.length) →
    unpackNameLoop msg off ptr budget off1 acc = .ok (s, o) →
    o ≤ msg.length ∧ ∃ ls', WireNameOK ls' ∧ s = presentOf ls' := by
  fun_induction unpackNameLoop msg off ptr budget off1 acc
  all_goals intro ls hacc hls hb hb1 ho h
  all_goals try (simp at h; done)
  case case1 =>
    simp at h
    obtain ⟨rfl, rfl⟩ := h
    constructor
    · simp only [off1']
      split
      · omega
      · exact ho (by omega)
    · refine ⟨ls, ⟨hls, ?_⟩, ?_⟩
      · rw [wireOf_eq]; simp; omega
      · subst hacc
        cases ls with
        | nil => simp [presentLabels, presentOf]
        | cons l ls => simp [presentOf_eq, presentLabels]
  case case4 =>
    have hlen : (slice msg (off_1 + 1) c).length = c := slice_length _ _ _ (by omega)
    apply ih1 (ls ++ [slice msg (off_1 + 1) c])
    · subst hacc; simp [presentLabels]
    · intro l hl
      rcases List.mem_append.mp hl with h1 | h1
      · exact hls l h1
      · simp at h1; subst h1; rw [hlen]; omega
    · have : (wireLabels (ls ++ [slice msg (off_1 + 1) c])).length = (wireLabels ls).length + 1 + c := by
        simp [wireLabels, hlen]; omega
      rw [this]; omega
    · omega
    · exact ho
    · exact h
  case case6 =>
    apply ih1 ls hacc hls hb hb1 _ h
    intro _
    simp only [off1']
    split
    · omega
    · exact ho (by omega)

/-- **accepted ⇒ within limits**: whatever `UnpackDomainName` accepts — at any offset of any byte string,
    through any pointer graph — is the library's spelling of a label list with labels of 1..63 octets and at
    most 255 wire octets, and the reported end offset lies inside the input. -/
theorem unpackName_sound (msg : Bytes) (off : Nat) (s : Bytes) (o : Nat)
    (h : unpackName msg off = .ok (s, o)) :
    o ≤ msg.length ∧ ∃ ls, WireNameOK ls ∧ s = presentOf ls ∧ packName s = .ok (wireOf ls) := by
  have := unpackLoop_sound msg off 0 Gen.maxDomainNameWireOctets 0 [] s o [] (by simp [presentLabels])
    (by simp) (by simp [wireLabels, Gen.maxDomainNameWireOctets]) (by simp [Gen.maxDomainNameWireOctets])
    (by simp) h
  obtain ⟨h1, ls, hw, hs⟩ := this
  exact ⟨h1, ls, hw, hs, by rw [hs]; exact pack_present ls hw⟩

end Dns.C02
