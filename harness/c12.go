package main

import (
	"encoding/binary"
	"errors"
	"fmt"
	"io"
	"net"
	"os"
	"strings"
	"sync"
	"sync/atomic"
	"time"

	"github.com/miekg/dns"
)

func init() { props["C12"] = runC12 }

// chunkConn: a stream whose reads return at most the rest of the current chunk.
type chunkConn struct {
	chunks [][]byte
	wrote  [][]byte
	wmax   int // >0: Write accepts at most this many octets per call (short writes are the caller's problem)
}

func (c *chunkConn) Read(p []byte) (int, error) {
	for len(c.chunks) > 0 && len(c.chunks[0]) == 0 {
		c.chunks = c.chunks[1:]
	}
	if len(c.chunks) == 0 {
		return 0, io.EOF
	}
	n := copy(p, c.chunks[0])
	c.chunks[0] = c.chunks[0][n:]
	return n, nil
}
func (c *chunkConn) Write(p []byte) (int, error) {
	c.wrote = append(c.wrote, append([]byte{}, p...))
	return len(p), nil
}
func (c *chunkConn) Close() error                     { return nil }
func (c *chunkConn) LocalAddr() net.Addr              { return &net.TCPAddr{IP: net.IPv4(127, 0, 0, 1), Port: 1} }
func (c *chunkConn) RemoteAddr() net.Addr             { return &net.TCPAddr{IP: net.IPv4(127, 0, 0, 1), Port: 53} }
func (c *chunkConn) SetDeadline(time.Time) error      { return nil }
func (c *chunkConn) SetReadDeadline(time.Time) error  { return nil }
func (c *chunkConn) SetWriteDeadline(time.Time) error { return nil }

// randomChunks cuts b into pieces: single octets, inside the length prefix, large blocks
func randomChunks(r *Rng, b []byte) [][]byte {
	var out [][]byte
	for len(b) > 0 {
		n := 1 + r.Intn(3)
		switch r.Intn(4) {
		case 0:
			n = 1
		case 1:
			n = 1 + r.Intn(40)
		case 2:
			n = 1 + r.Intn(len(b))
		}
		if n > len(b) {
			n = len(b)
		}
		out = append(out, b[:n])
		b = b[n:]
		if r.Chance(10) {
			out = append(out, nil) // a zero-length read
		}
	}
	return out
}

func chunksHex(cs [][]byte) string {
	var hs []string
	for _, c := range cs {
		if len(c) > 0 {
			hs = append(hs, hx(c))
		}
	}
	return strings.Join(hs, " ")
}

// readAll: repeatedly ReadMsgHeader until an error; canonical rendering as the driver does
func readAll(cc *chunkConn) string {
	co := &dns.Conn{Conn: cc}
	var out []string
	for i := 0; i < 1000; i++ {
		p, err := co.ReadMsgHeader(nil)
		if err == dns.ErrShortRead {
			// a frame too short for a header: the frame is gone, the stream goes on
			out = append(out, "short")
			continue
		}
		if err != nil {
			switch {
			case err == io.EOF:
				out = append(out, "eof")
			case err == io.ErrUnexpectedEOF:
				out = append(out, "unexpected")
			default:
				out = append(out, "err:"+err.Error())
			}
			break
		}
		out = append(out, hx(p))
	}
	return strings.Join(out, " ")
}

// readAllRead: the same stream through Conn.Read (the io.Reader face used by Transfer.ReadMsg)
func readAllRead(cc *chunkConn) string {
	co := &dns.Conn{Conn: cc}
	var out []string
	buf := make([]byte, 65535)
	for i := 0; i < 1000; i++ {
		n, err := co.Read(buf)
		if err != nil {
			switch {
			case err == io.EOF:
				out = append(out, "eof")
			case err == io.ErrUnexpectedEOF:
				out = append(out, "unexpected")
			default:
				out = append(out, "err:"+err.Error())
			}
			break
		}
		out = append(out, hx(buf[:n]))
	}
	return strings.Join(out, " ")
}

// scriptPC: a datagram "connection" with scripted inbound datagrams.
type scriptPC struct {
	in  [][]byte // nil entry = read error (deadline)
	out [][]byte
}

type timeoutErr struct{}

func (timeoutErr) Error() string   { return "i/o timeout" }
func (timeoutErr) Timeout() bool   { return true }
func (timeoutErr) Temporary() bool { return true }

func (c *scriptPC) Read(p []byte) (int, error) {
	if len(c.in) == 0 {
		return 0, timeoutErr{}
	}
	d := c.in[0]
	c.in = c.in[1:]
	if d == nil {
		return 0, timeoutErr{}
	}
	return copy(p, d), nil
}
func (c *scriptPC) ReadFrom(p []byte) (int, net.Addr, error) {
	n, err := c.Read(p)
	return n, c.RemoteAddr(), err
}
func (c *scriptPC) Write(p []byte) (int, error) {
	c.out = append(c.out, append([]byte{}, p...))
	return len(p), nil
}
func (c *scriptPC) WriteTo(p []byte, _ net.Addr) (int, error) { return c.Write(p) }
func (c *scriptPC) Close() error                              { return nil }
func (c *scriptPC) LocalAddr() net.Addr                       { return &net.UDPAddr{IP: net.IPv4(127, 0, 0, 1), Port: 1} }
func (c *scriptPC) RemoteAddr() net.Addr                      { return &net.UDPAddr{IP: net.IPv4(127, 0, 0, 1), Port: 53} }
func (c *scriptPC) SetDeadline(time.Time) error               { return nil }
func (c *scriptPC) SetReadDeadline(time.Time) error           { return nil }
func (c *scriptPC) SetWriteDeadline(time.Time) error          { return nil }

// unixStreamConn: a stream connection that also satisfies net.PacketConn, as *net.UnixConn does for network "unix"
type unixStreamConn struct{ *chunkConn }

func (c *unixStreamConn) LocalAddr() net.Addr { return &net.UnixAddr{Name: "/verif.sock", Net: "unix"} }
func (c *unixStreamConn) ReadFrom(p []byte) (int, net.Addr, error) {
	n, err := c.Read(p)
	return n, c.LocalAddr(), err
}
func (c *unixStreamConn) WriteTo(p []byte, _ net.Addr) (int, error) { return c.Write(p) }

// unixgramConn: a datagram socket of the unix domain
type unixgramConn struct{ *scriptPC }

func (c *unixgramConn) LocalAddr() net.Addr {
	return &net.UnixAddr{Name: "/verif.sock", Net: "unixgram"}
}

// timedPC: a datagram socket on which a reply with a foreign ID arrives every `gap`; reads honour the read deadline
type timedPC struct {
	gap      time.Duration
	n        int
	deadline time.Time
	served   int
}

func (c *timedPC) Read(p []byte) (int, error) {
	wake := time.Now().Add(c.gap)
	if !c.deadline.IsZero() && c.deadline.Before(wake) {
		if d := time.Until(c.deadline); d > 0 {
			time.Sleep(d)
		}
		return 0, timeoutErr{}
	}
	time.Sleep(c.gap)
	if c.served >= c.n {
		return 0, timeoutErr{}
	}
	c.served++
	return copy(p, replyWithID(9, c.served)), nil
}
func (c *timedPC) ReadFrom(p []byte) (int, net.Addr, error) {
	n, err := c.Read(p)
	return n, c.RemoteAddr(), err
}
func (c *timedPC) Write(p []byte) (int, error)               { return len(p), nil }
func (c *timedPC) WriteTo(p []byte, _ net.Addr) (int, error) { return len(p), nil }
func (c *timedPC) Close() error                              { return nil }
func (c *timedPC) LocalAddr() net.Addr                       { return &net.UDPAddr{IP: net.IPv4(127, 0, 0, 1), Port: 1} }
func (c *timedPC) RemoteAddr() net.Addr                      { return &net.UDPAddr{IP: net.IPv4(127, 0, 0, 1), Port: 53} }
func (c *timedPC) SetDeadline(t time.Time) error             { c.deadline = t; return nil }
func (c *timedPC) SetReadDeadline(t time.Time) error         { c.deadline = t; return nil }
func (c *timedPC) SetWriteDeadline(time.Time) error          { return nil }

func replyWithID(id uint16, tag int) []byte {
	m := new(dns.Msg)
	m.SetQuestion(fmt.Sprintf("r%d.example.", tag), dns.TypeA)
	m.Id = id
	m.Response = true
	b, _ := m.Pack()
	return b
}

func runC12(c *Ctx) {
	r := c.R
	c.Res.Rule = "message lists framed and cut into arbitrary chunks (single octets, cuts inside the length prefix, zero-length reads), streams ended at every offset, sizes 12..65535 and 65536, scripted stale/duplicate/foreign-ID datagrams, concurrent clients against UDP and TCP servers with buffer pooling; distinct by content"
	// 1. framing under arbitrary segmentation: impl vs Lean model, plus the expected list itself
	n := c.Scale(1500, 40000)
	for i := 0; i < n; i++ {
		k := r.Intn(4)
		var msgs [][]byte
		var stream []byte
		for j := 0; j < k; j++ {
			sz := 12 + r.Intn(60)
			if r.Chance(3) {
				sz = []int{255, 256, 257, 4096, 65535}[r.Intn(5)]
			}
			m := r.Bytes(sz)
			msgs = append(msgs, m)
			stream = append(putUint(stream, 2, uint64(len(m))), m...)
		}
		cut := len(stream)
		if r.Chance(40) && len(stream) > 0 {
			cut = r.Intn(len(stream) + 1) // early end of stream
		}
		cs := randomChunks(r, stream[:cut])
		got := readAll(&chunkConn{chunks: append([][]byte{}, cs...)})
		if len(stream) < 3000 {
			c.Op("framing", "deframe "+chunksHex(cs), got, k > 0)
		}
		if cut == len(stream) {
			var want []string
			for _, m := range msgs {
				want = append(want, hx(m))
			}
			want = append(want, "eof")
			c.Pred("framing", "frames-intact", fmt.Sprintf("%d messages in %d chunks", k, len(cs)), got == strings.Join(want, " "), got[:min(len(got), 80)], "the messages, then eof", k > 0)
			got2 := readAllRead(&chunkConn{chunks: append([][]byte{}, cs...)})
			c.Pred("framing", "frames-intact-conn-read", "chunks="+chunksHex(cs)[:min(len(chunksHex(cs)), 400)], got2 == strings.Join(want, " "), got2[:min(len(got2), 80)], "the messages, then eof", k > 0)
		}
	}
	// frames too short to hold a header between whole ones: each is consumed whole and reported as a short read, the frames
	// behind it are delivered intact (a connection that is used again after a runt reply)
	for i, n := 0, c.Scale(300, 6000); i < n; i++ {
		k := 1 + r.Intn(5)
		var want []string
		var stream []byte
		runts := 0
		for j := 0; j < k; j++ {
			sz := 12 + r.Intn(40)
			if r.Chance(45) {
				sz = r.Intn(12)
				runts++
			}
			m := r.Bytes(sz)
			stream = append(putUint(stream, 2, uint64(len(m))), m...)
			if sz < 12 {
				want = append(want, "short")
			} else {
				want = append(want, hx(m))
			}
		}
		want = append(want, "eof")
		cs := randomChunks(r, stream)
		got := readAll(&chunkConn{chunks: append([][]byte{}, cs...)})
		c.Op("runt-frames", "deframe "+chunksHex(cs), got, runts > 0)
		c.Pred("runt-frames", "frames-intact-behind-runts", "chunks="+chunksHex(cs)[:min(len(chunksHex(cs)), 400)], got == strings.Join(want, " "), got[:min(len(got), 120)], "short for every runt, every whole frame intact, then eof", runts > 0)
	}
	// every end offset of a small stream (exhaustive)
	{
		var stream []byte
		var msgs [][]byte
		for j := 0; j < 3; j++ {
			m := r.Bytes(12 + j*5)
			msgs = append(msgs, m)
			stream = append(putUint(stream, 2, uint64(len(m))), m...)
		}
		for cut := 0; cut <= len(stream); cut++ {
			for rep := 0; rep < 3; rep++ {
				cs := randomChunks(r, stream[:cut])
				c.Op("early-eof", "deframe "+chunksHex(cs), readAll(&chunkConn{chunks: cs}), true)
			}
		}
	}
	// writes: length prefix, 65535 accepted, 65536 refused
	for _, sz := range []int{12, 255, 256, 65534, 65535, 65536, 70000} {
		cc := &chunkConn{}
		co := &dns.Conn{Conn: cc}
		_, err := co.Write(make([]byte, sz))
		if sz > 65535 {
			c.Pred("write", "oversize-refused", fmt.Sprint(sz), err != nil && len(cc.wrote) == 0, fmt.Sprint(err), "error, nothing written", true)
		} else {
			var all []byte
			for _, w := range cc.wrote {
				all = append(all, w...)
			}
			c.Pred("write", "write-framed", fmt.Sprint(sz), err == nil && len(all) == sz+2 && int(binary.BigEndian.Uint16(all)) == sz, fmt.Sprint(err, len(all)), "2-octet length + message", true)
		}
	}
	// 2. ID matching
	n = c.Scale(2000, 40000)
	cl := &dns.Client{}
	for i := 0; i < n; i++ {
		qid := uint16(1 + r.Intn(5))
		q := new(dns.Msg)
		q.SetQuestion("example.org.", dns.TypeA)
		q.Id = qid
		k := r.Intn(6)
		var script [][]byte
		var args []string
		for j := 0; j < k; j++ {
			if r.Chance(12) {
				script = append(script, nil)
				args = append(args, "E")
			} else {
				id := uint16(1 + r.Intn(5))
				script = append(script, replyWithID(id, j))
				args = append(args, fmt.Sprint(id))
			}
		}
		// datagram
		pc := &scriptPC{in: append([][]byte{}, script...)}
		rm, _, err := cl.ExchangeWithConn(q.Copy(), &dns.Conn{Conn: pc})
		got := "err"
		if err == nil && rm != nil {
			got = fmt.Sprintf("ok %d", rm.Id)
		}
		c.Op("id-datagram", fmt.Sprintf("xchg.dgram %d %s", qid, strings.Join(args, " ")), got, k > 1)
		// stream: the same replies framed on one stream
		var stream []byte
		for _, d := range script {
			if d == nil {
				break // a read error ends the stream
			}
			stream = append(putUint(stream, 2, uint64(len(d))), d...)
		}
		cc := &chunkConn{chunks: randomChunks(r, stream)}
		rm, _, err = cl.ExchangeWithConn(q.Copy(), &dns.Conn{Conn: cc})
		got = "err"
		if err == nil && rm != nil {
			got = fmt.Sprintf("ok %d", rm.Id)
		} else if errors.Is(err, dns.ErrId) {
			got = "errId"
		}
		sargs := args
		for j, a := range args {
			if a == "E" {
				sargs = append(append([]string{}, args[:j]...), "E")
				break
			}
		}
		c.Op("id-stream", fmt.Sprintf("xchg.stream %d %s", qid, strings.Join(sargs, " ")), got, k > 0)
		// unix-domain sockets satisfy net.PacketConn whatever their kind: a "unix" stream socket must behave as a
		// stream (framing, ErrId), a "unixgram" socket as a datagram socket (foreign IDs skipped)
		if i%4 == 0 {
			uc := &unixStreamConn{chunkConn: &chunkConn{chunks: randomChunks(r, stream)}}
			rm, _, err = cl.ExchangeWithConn(q.Copy(), &dns.Conn{Conn: uc})
			got = "err"
			if err == nil && rm != nil {
				got = fmt.Sprintf("ok %d", rm.Id)
			} else if errors.Is(err, dns.ErrId) {
				got = "errId"
			}
			c.OpK("id-unix-stream", fmt.Sprintf("xchg.stream %d %s", qid, strings.Join(sargs, " ")), got, k > 0, "id-unix-stream")
			ug := &unixgramConn{scriptPC: &scriptPC{in: append([][]byte{}, script...)}}
			rm, _, err = cl.ExchangeWithConn(q.Copy(), &dns.Conn{Conn: ug})
			got = "err"
			if err == nil && rm != nil {
				got = fmt.Sprintf("ok %d", rm.Id)
			}
			c.OpK("id-unixgram", fmt.Sprintf("xchg.dgram %d %s", qid, strings.Join(args, " ")), got, k > 1, "id-unixgram")
		}
	}
	// 2b. a train of stale replies spaced closer than the timeout: the exchange ends at its deadline, it is not kept alive
	//     by the replies it skips
	for _, gapMs := range []int{20, 50} {
		q := new(dns.Msg)
		q.SetQuestion("example.org.", dns.TypeA)
		q.Id = 7
		tc := &timedPC{gap: time.Duration(gapMs) * time.Millisecond, n: 100}
		cli := &dns.Client{Timeout: 200 * time.Millisecond}
		t0 := time.Now()
		_, _, err := cli.ExchangeWithConn(q, &dns.Conn{Conn: tc})
		el := time.Since(t0)
		c.Pred("id-datagram-deadline", "stale-replies-do-not-extend-the-deadline", fmt.Sprintf("timeout=200ms stale reply every %dms", gapMs),
			err != nil && el < 1200*time.Millisecond, fmt.Sprint(err, " after ", el.Round(10*time.Millisecond)), "a timeout error at about 200ms", true)
	}
	// 3. concurrent clients against real servers: each handler sees its own request, each client its own reply
	c12BufferReuse(c, r)
	c12TsigWhileOthers(c)
	c12IgnoredThenQueries(c, r, "udp")
	c12IgnoredThenQueries(c, r, "pc")
	heldDatagrams(c, r, "udp")
	heldDatagrams(c, r, "pc")
	c12Concurrent(c, r, "udp")
	c12Concurrent(c, r, "tcp")
	// 4. a TCP server reading requests cut at every offset (incl. inside the length prefix)
	c12ServerSegmentation(c, r)
	c12ReplySource(c, r)
	_ = os.Getenv
}

// token: question name and EDNS0 LOCAL option carry the same token; the reply echoes it in a TXT record
func tokenMsg(client, seq int) (*dns.Msg, string) {
	tok := fmt.Sprintf("c%dq%d", client, seq)
	m := new(dns.Msg)
	m.SetQuestion(tok+".example.", dns.TypeTXT)
	m.Id = uint16(client*1000 + seq)
	o := &dns.OPT{Hdr: dns.RR_Header{Name: ".", Rrtype: dns.TypeOPT}}
	o.SetUDPSize(1232)
	o.Option = append(o.Option, &dns.EDNS0_LOCAL{Code: 65001, Data: []byte(tok)})
	m.Extra = append(m.Extra, o)
	return m, tok
}

// c12Pool: records of every type (decoded from generated wire data) that requests carry in their answer, authority
// and additional sections, so that every decoder that might keep a reference into the receive buffer is exercised
func c12Pool(r *Rng) []dns.RR {
	t := loadSpec()
	var pool []dns.RR
	for k := 0; k < 6; k++ {
		for _, typ := range t.wireTypes() {
			g := genRR(r, typ, 0, r.Bool())
			if len(g.Wire) > 300 {
				continue
			}
			rr, off, err := dns.UnpackRR(g.Wire, 0)
			if err != nil || off != len(g.Wire) {
				continue
			}
			if _, err := packRRBytes(rr); err != nil {
				continue
			}
			pool = append(pool, rr)
		}
	}
	// hand-written ones with the multi-valued SVCB parameters and EDNS0 options
	for _, txt := range []string{
		"s.example. 60 IN HTTPS 1 . alpn=h2,h3 ipv4hint=192.0.2.1,192.0.2.2,198.51.100.7 ipv6hint=2001:db8::1,2001:db8::2 ech=AAECAwQF port=8443",
		"s.example. 60 IN SVCB 2 t.example. mandatory=ipv4hint,alpn alpn=h2 ipv4hint=203.0.113.77,203.0.113.78 dohpath=/dns-query{?dns} key65000=abcdef",
		"a.example. 60 IN APL 1:192.168.32.0/21 !1:192.168.38.0/28 2:2001:db8::/32",
	} {
		if rr, err := dns.NewRR(txt); err == nil && rr != nil {
			pool = append(pool, rr)
		}
	}
	return pool
}

// c12BufferReuse: one request is held in its handler while others are received; the receive buffer has been handed
// back to the pool by then, so anything the decoded request still shares with it changes under the handler.
func c12BufferReuse(c *Ctx, r *Rng) {
	entered := make(chan struct{}, 16)
	release := make(chan struct{})
	var changed, held int64
	h := dns.HandlerFunc(func(w dns.ResponseWriter, req *dns.Msg) {
		if req.Id%2 == 1 {
			before := req.String()
			atomic.AddInt64(&held, 1)
			entered <- struct{}{}
			<-release
			if req.String() != before {
				atomic.AddInt64(&changed, 1)
			}
		}
		m := new(dns.Msg)
		m.SetReply(req)
		w.WriteMsg(m)
	})
	pc, err := net.ListenPacket("udp", "127.0.0.1:0")
	if err != nil {
		c.Res.Notes = append(c.Res.Notes, "loopback udp not available: "+err.Error())
		return
	}
	srv := &dns.Server{PacketConn: pc, Handler: h, UDPSize: 1232, ReadTimeout: 2 * time.Second}
	started := make(chan struct{})
	srv.NotifyStartedFunc = func() { close(started) }
	go srv.ActivateAndServe()
	<-started
	defer srv.Shutdown()
	mk := func(id uint16, v byte) *dns.Msg {
		m := new(dns.Msg)
		m.SetQuestion("reuse.example.", dns.TypeHTTPS)
		m.Id = id
		txt := fmt.Sprintf("s.example. 60 IN HTTPS 1 . alpn=h%d ipv4hint=192.0.2.%d,198.51.100.%d ipv6hint=2001:db8::%x ech=AAEC%02X%02X port=%d", v%9+1, v, v, v, v, v, 1000+int(v))
		rr, err := dns.NewRR(txt)
		if err != nil {
			panic("c12: fixture does not parse: " + err.Error())
		}
		m.Answer = []dns.RR{rr}
		apl, err := dns.NewRR(fmt.Sprintf("a.example. 60 IN APL 1:10.%d.0.0/16 2:2001:db8:%x::/48", v, v))
		if err != nil {
			panic("c12: fixture does not parse: " + err.Error())
		}
		m.Ns = []dns.RR{apl}
		o := &dns.OPT{Hdr: dns.RR_Header{Name: ".", Rrtype: dns.TypeOPT}}
		o.SetUDPSize(1232)
		o.Option = append(o.Option, &dns.EDNS0_SUBNET{Code: dns.EDNS0SUBNET, Family: 1, SourceNetmask: 32, Address: net.IPv4(10, 9, v, v).To4()},
			&dns.EDNS0_COOKIE{Code: dns.EDNS0COOKIE, Cookie: fmt.Sprintf("%016x", uint64(v)*0x0101010101010101)},
			&dns.EDNS0_LOCAL{Code: 65001, Data: []byte{v, v, v, v}}, &dns.EDNS0_NSID{Code: dns.EDNS0NSID, Nsid: fmt.Sprintf("%02x%02x", v, v)},
			&dns.EDNS0_PADDING{Padding: []byte{v, v + 1, v, v + 1, v, v + 1}}, &dns.EDNS0_DAU{Code: dns.EDNS0DAU, AlgCode: []uint8{v, 8, v}},
			&dns.EDNS0_N3U{Code: dns.EDNS0N3U, AlgCode: []uint8{1, v}}, &dns.EDNS0_EDE{InfoCode: uint16(v), ExtraText: fmt.Sprintf("text-%d", v)})
		m.Extra = []dns.RR{o}
		return m
	}
	rounds := c.Scale(40, 3000)
	cl := &dns.Client{Net: "udp", Timeout: 2 * time.Second}
	for i := 0; i < rounds; i++ {
		done := make(chan struct{})
		go func() {
			cl.Exchange(mk(uint16(2*i+1), byte(1+i%100)), pc.LocalAddr().String())
			close(done)
		}()
		select {
		case <-entered:
		case <-time.After(2 * time.Second):
		}
		for k := 0; k < 6; k++ {
			cl.Exchange(mk(uint16(2*(i*8+k)+2), byte(101+(i+k)%100)), pc.LocalAddr().String())
		}
		release <- struct{}{}
		<-done
	}
	c.Pred("udp-buffer-reuse", "request-stable-while-handled", fmt.Sprintf("%d held requests, 6 others received meanwhile", held), changed == 0 && held > 0,
		fmt.Sprint(changed, " of ", held, " held requests changed"), "0", true)
	c.Res.Evaluations += rounds * 7
}

// c12IgnoredThenQueries: datagrams the server ignores or rejects (a stray response, an unsupported opcode, a bad
// question count) go back to the receive-buffer pool; the ordinary queries that follow are read into those buffers
// and must reach their handler whole and be answered with their own reply.
func c12IgnoredThenQueries(c *Ctx, r *Rng, kind string) {
	h := dns.HandlerFunc(func(w dns.ResponseWriter, req *dns.Msg) {
		m := new(dns.Msg)
		m.SetReply(req)
		// what the handler saw: packed size and the text of the request
		b, _ := req.Pack()
		m.Answer = []dns.RR{&dns.TXT{Hdr: dns.RR_Header{Name: "seen.example.", Rrtype: dns.TypeTXT, Class: 1}, Txt: []string{fmt.Sprintf("%d %x", len(b), b[:min(len(b), 200)])}}}
		w.WriteMsg(m)
	})
	pc, err := net.ListenPacket("udp", "127.0.0.1:0")
	if err != nil {
		c.Res.Notes = append(c.Res.Notes, "loopback udp not available: "+err.Error())
		return
	}
	srv := &dns.Server{Handler: h, UDPSize: 1232, ReadTimeout: 2 * time.Second}
	if kind == "pc" {
		srv.PacketConn = &wrapPC{PacketConn: pc}
	} else {
		srv.PacketConn = pc
	}
	started := make(chan struct{})
	srv.NotifyStartedFunc = func() { close(started) }
	go srv.ActivateAndServe()
	<-started
	defer srv.Shutdown()
	conn, err := net.Dial("udp", pc.LocalAddr().String())
	if err != nil {
		return
	}
	defer conn.Close()
	rounds := c.Scale(60, 2000)
	bad, total, silent := 0, 0, 0
	first := ""
	for i := 0; i < rounds && silent < 3; i++ { // a server that has stopped answering is reported, not waited for
		// a burst of datagrams that never reach a handler
		for k := 0; k < 1+r.Intn(4); k++ {
			var d []byte
			switch r.Intn(4) {
			case 0: // a stray 12-octet response
				d = buildMsgWire(uint16(40000+r.Intn(20000)), 0x8000, nil, nil, nil, nil)
			case 1: // unsupported opcode (UPDATE = 5): NOTIMP
				d = buildMsgWire(uint16(40000+r.Intn(20000)), 5<<11, nil, nil, nil, nil)
			case 2: // QDCOUNT 0 in a query: FORMERR
				d = buildMsgWire(uint16(40000+r.Intn(20000)), 0, nil, nil, nil, nil)
			default: // shorter than a header
				d = r.Bytes(1 + r.Intn(11))
			}
			conn.Write(d)
		}
		// the rejected ones are answered: drain what arrives before the real queries
		conn.SetReadDeadline(time.Now().Add(30 * time.Millisecond))
		buf := make([]byte, 4096)
		for {
			if _, err := conn.Read(buf); err != nil {
				break
			}
		}
		for k := 0; k < 3; k++ {
			q := new(dns.Msg)
			q.SetQuestion(fmt.Sprintf("q%d-%d.%s.example.", i, k, strings.Repeat("x", 1+r.Intn(40))), dns.TypeTXT)
			q.Id = uint16(1 + i*4 + k)
			if r.Bool() {
				q.SetEdns0(1232, true)
			}
			qb, _ := q.Pack()
			conn.Write(qb)
			total++
			got := "no reply"
			want := fmt.Sprintf("%d %x", len(qb), qb[:min(len(qb), 200)])
			// read until the reply to this query is there: late replies to rejected datagrams are skipped
			deadline := time.Now().Add(3 * time.Second)
			for time.Now().Before(deadline) {
				conn.SetReadDeadline(deadline)
				n, err := conn.Read(buf)
				if err != nil {
					break
				}
				var rm dns.Msg
				e := rm.Unpack(buf[:n])
				if e == nil && rm.Id != q.Id {
					continue
				}
				if e != nil {
					got = "undecodable reply"
				} else if rm.Rcode != dns.RcodeSuccess || len(rm.Question) != 1 || rm.Question[0].Name != q.Question[0].Name || len(rm.Answer) != 1 {
					got = fmt.Sprintf("id=%d rcode=%d questions=%d answers=%d", rm.Id, rm.Rcode, len(rm.Question), len(rm.Answer))
				} else {
					got = strings.Join(rm.Answer[0].(*dns.TXT).Txt, "")
				}
				break
			}
			if got == "no reply" {
				silent++
			} else {
				silent = 0
			}
			if got != want {
				bad++
				if first == "" {
					first = fmt.Sprintf("query %x: handler saw / client got %q, want %q", qb, got, want)
				}
			}
		}
	}
	c.Pred("udp-ignored-then-queries:"+kind, "request-whole-after-ignored-datagrams", fmt.Sprintf("%d queries after ignored / rejected datagrams", total), bad == 0,
		fmt.Sprintf("%d of %d mangled; %s", bad, total, first), "each query reaches its handler whole and gets its own reply", true)
	c.Res.Evaluations += total
}

func c12Concurrent(c *Ctx, r *Rng, network string) {
	var bad, changed int64
	var handled int64
	pool := c12Pool(r)
	h := dns.HandlerFunc(func(w dns.ResponseWriter, req *dns.Msg) {
		atomic.AddInt64(&handled, 1)
		// hold the request for a while: recycled receive buffers must not change it
		before := req.String()
		time.Sleep(time.Duration(200+int(req.Id)%700) * time.Microsecond)
		if req.String() != before {
			atomic.AddInt64(&changed, 1)
		}
		tok := strings.TrimSuffix(req.Question[0].Name, ".example.")
		ok := false
		if o := req.IsEdns0(); o != nil {
			for _, e := range o.Option {
				if l, isl := e.(*dns.EDNS0_LOCAL); isl && string(l.Data) == tok {
					ok = true
				}
			}
		}
		if !ok {
			atomic.AddInt64(&bad, 1)
		}
		m := new(dns.Msg)
		m.SetReply(req)
		m.Answer = []dns.RR{&dns.TXT{Hdr: dns.RR_Header{Name: req.Question[0].Name, Rrtype: dns.TypeTXT, Class: 1, Ttl: 1}, Txt: []string{tok}}}
		w.WriteMsg(m)
	})
	srv := &dns.Server{Net: network, Addr: "127.0.0.1:0", Handler: h, UDPSize: 1232, ReadTimeout: 2 * time.Second}
	started := make(chan struct{})
	srv.NotifyStartedFunc = func() { close(started) }
	var addr string
	if network == "udp" {
		pc, err := net.ListenPacket("udp", "127.0.0.1:0")
		if err != nil {
			c.Res.Notes = append(c.Res.Notes, "loopback udp not available: "+err.Error())
			return
		}
		srv.PacketConn = pc
		addr = pc.LocalAddr().String()
	} else {
		l, err := net.Listen("tcp", "127.0.0.1:0")
		if err != nil {
			c.Res.Notes = append(c.Res.Notes, "loopback tcp not available: "+err.Error())
			return
		}
		srv.Listener = l
		addr = l.Addr().String()
	}
	go srv.ActivateAndServe()
	<-started
	clients := c.Scale(8, 48)
	per := c.Scale(40, 1500)
	var wg sync.WaitGroup
	var mism, fails int64
	for ci := 0; ci < clients; ci++ {
		wg.Add(1)
		go func(ci int) {
			defer wg.Done()
			cl := &dns.Client{Net: network, Timeout: 3 * time.Second}
			var conn *dns.Conn
			for q := 0; q < per; q++ {
				m, tok := tokenMsg(ci, q)
				// extra baggage within what the default policy admits: one answer, one authority, one more additional
				if len(pool) > 0 {
					k := ci*131 + q*17
					switch k % 4 {
					case 0:
						m.Answer = []dns.RR{pool[k%len(pool)]}
					case 1:
						m.Ns = []dns.RR{pool[k%len(pool)]}
					case 2:
						m.Extra = append([]dns.RR{pool[k%len(pool)]}, m.Extra...)
					}
				}
				var rm *dns.Msg
				var err error
				if network == "tcp" && q%3 != 0 {
					if conn == nil {
						conn, err = cl.Dial(addr)
						if err != nil {
							atomic.AddInt64(&fails, 1)
							continue
						}
					}
					rm, _, err = cl.ExchangeWithConn(m, conn)
					if err != nil {
						conn.Close()
						conn = nil
					}
				} else {
					rm, _, err = cl.Exchange(m, addr)
				}
				if err != nil {
					atomic.AddInt64(&fails, 1)
					continue
				}
				okr := rm.Id == m.Id && len(rm.Answer) == 1
				if okr {
					t, isT := rm.Answer[0].(*dns.TXT)
					okr = isT && len(t.Txt) == 1 && t.Txt[0] == tok && rm.Question[0].Name == m.Question[0].Name
				}
				if !okr {
					atomic.AddInt64(&mism, 1)
				}
			}
			if conn != nil {
				conn.Close()
			}
		}(ci)
	}
	wg.Wait()
	srv.Shutdown()
	total := clients * per
	c.Pred("concurrent-"+network, "handler-sees-own-request", fmt.Sprintf("%d clients x %d queries", clients, per), bad == 0, fmt.Sprint(bad, " requests inconsistent"), "0", true)
	c.Pred("concurrent-"+network, "request-stable-while-handled", fmt.Sprintf("%d clients x %d queries", clients, per), changed == 0, fmt.Sprint(changed, " requests changed under the handler"), "0", true)
	c.Pred("concurrent-"+network, "client-gets-own-reply", fmt.Sprintf("%d clients x %d queries", clients, per), mism == 0, fmt.Sprint(mism, " replies mixed up"), "0", true)
	c.Pred("concurrent-"+network, "exchanges-complete", fmt.Sprintf("%d clients x %d queries", clients, per), fails*20 <= int64(total), fmt.Sprint(fails, " failed of ", total), "at most 5% lost", true)
	c.Res.Evaluations += total
	c.Res.Dist["concurrent-"+network+":exchanges"] = total
}

func c12ServerSegmentation(c *Ctx, r *Rng) {
	srv := &dns.Server{Listener: newPipeListener(), ReadTimeout: 2 * time.Second}
	srv.Handler = dns.HandlerFunc(func(w dns.ResponseWriter, req *dns.Msg) {
		m := new(dns.Msg)
		m.SetReply(req)
		w.WriteMsg(m)
	})
	started := make(chan struct{})
	srv.NotifyStartedFunc = func() { close(started) }
	go srv.ActivateAndServe()
	<-started
	defer srv.Shutdown()
	ln := srv.Listener.(*pipeListener)
	q := new(dns.Msg)
	q.SetQuestion("segment.example.", dns.TypeA)
	qb, _ := q.Pack()
	frame := append(putUint(nil, 2, uint64(len(qb))), qb...)
	rounds := c.Scale(1, 4)
	for rep := 0; rep < rounds; rep++ {
		for cut := 0; cut <= len(frame); cut++ {
			conn := ln.dial()
			conn.SetDeadline(time.Now().Add(2 * time.Second))
			go func() {
				// two requests on one connection, the first cut at `cut`, the second in random pieces
				conn.Write(frame[:cut])
				conn.Write(frame[cut:])
				for _, p := range randomChunks(r, frame) {
					if len(p) > 0 {
						conn.Write(p)
					}
				}
			}()
			co := &dns.Conn{Conn: conn}
			got := 0
			for k := 0; k < 2; k++ {
				m, err := co.ReadMsg()
				if err != nil || m.Id != q.Id {
					break
				}
				got++
			}
			conn.Close()
			c.Pred("server-segmentation", "server-reads-any-segmentation", fmt.Sprintf("cut=%d", cut), got == 2, fmt.Sprint(got, " replies"), "2 replies", true)
		}
		// pipelined: the first request and the first `cut` octets of the second arrive in ONE write (so one read of the
		// server can run past the end of the first message), the rest and a third request afterwards
		for cut := 0; cut <= len(frame); cut++ {
			conn := ln.dial()
			conn.SetDeadline(time.Now().Add(2 * time.Second))
			go func() {
				conn.Write(append(append([]byte{}, frame...), frame[:cut]...))
				if cut < len(frame) {
					conn.Write(frame[cut:])
				}
				conn.Write(frame)
			}()
			co := &dns.Conn{Conn: conn}
			got := 0
			for k := 0; k < 3; k++ {
				m, err := co.ReadMsg()
				if err != nil || m.Id != q.Id {
					break
				}
				got++
			}
			conn.Close()
			c.Pred("server-segmentation", "server-reads-pipelined-in-one-write", fmt.Sprintf("cut=%d", cut), got == 3, fmt.Sprint(got, " replies"), "3 replies", true)
		}
	}
	c12TCPPipelinedLoopback(c, r)
}

// c12TCPPipelinedLoopback: the same over a real TCP connection, where the kernel hands the server whatever has arrived:
// k queries written at once, each with its own name; every one must reach the handler whole and be answered in order.
func c12TCPPipelinedLoopback(c *Ctx, r *Rng) {
	l, err := net.Listen("tcp", "127.0.0.1:0")
	if err != nil {
		return
	}
	srv := &dns.Server{Listener: l, ReadTimeout: 2 * time.Second}
	srv.Handler = dns.HandlerFunc(func(w dns.ResponseWriter, req *dns.Msg) {
		m := new(dns.Msg)
		m.SetReply(req)
		w.WriteMsg(m)
	})
	started := make(chan struct{})
	srv.NotifyStartedFunc = func() { close(started) }
	go srv.ActivateAndServe()
	<-started
	defer srv.Shutdown()
	rounds := c.Scale(20, 400)
	for i := 0; i < rounds; i++ {
		k := 2 + r.Intn(5)
		var all []byte
		var names []string
		for j := 0; j < k; j++ {
			q := new(dns.Msg)
			q.SetQuestion(fmt.Sprintf("p%d-%d.%s.example.", i, j, strings.Repeat("y", 1+r.Intn(50))), dns.TypeA)
			q.Id = uint16(1000 + j)
			qb, _ := q.Pack()
			all = append(append(all, putUint(nil, 2, uint64(len(qb)))...), qb...)
			names = append(names, q.Question[0].Name)
		}
		conn, err := net.Dial("tcp", l.Addr().String())
		if err != nil {
			return
		}
		conn.SetDeadline(time.Now().Add(3 * time.Second))
		conn.Write(all)
		co := &dns.Conn{Conn: conn}
		got := 0
		for j := 0; j < k; j++ {
			m, err := co.ReadMsg()
			if err != nil || len(m.Question) != 1 || m.Question[0].Name != names[j] || m.Id != uint16(1000+j) {
				break
			}
			got++
		}
		conn.Close()
		c.Pred("server-segmentation", "tcp-pipelined-one-write", fmt.Sprintf("k=%d octets=%d", k, len(all)), got == k, fmt.Sprint(got, " replies"), fmt.Sprint(k, " replies in order"), true)
	}
}


// c12ReplySource: a server bound to the wildcard address answers every request from the address it was sent to, also
// when another datagram (to another local address) is read while the first request is still in its handler.
func c12ReplySource(c *Ctx, r *Rng) {
	rounds := c.Scale(4, 60)
	for i := 0; i < rounds; i++ {
		pc, err := net.ListenPacket("udp4", "0.0.0.0:0")
		if err != nil {
			c.Res.Notes = append(c.Res.Notes, "wildcard udp4 not available: "+err.Error())
			return
		}
		port := pc.LocalAddr().(*net.UDPAddr).Port
		entered := make(chan struct{}, 8)
		release := make(chan struct{})
		srv := &dns.Server{PacketConn: pc, ReadTimeout: 2 * time.Second}
		srv.Handler = dns.HandlerFunc(func(w dns.ResponseWriter, req *dns.Msg) {
			if strings.HasPrefix(req.Question[0].Name, "held") {
				entered <- struct{}{}
				<-release
			}
			m := new(dns.Msg)
			m.SetReply(req)
			w.WriteMsg(m)
		})
		started := make(chan struct{})
		srv.NotifyStartedFunc = func() { close(started) }
		go srv.ActivateAndServe()
		<-started
		a, err1 := net.Dial("udp4", fmt.Sprintf("127.0.0.1:%d", port))
		b, err2 := net.Dial("udp4", fmt.Sprintf("127.0.0.%d:%d", 2+r.Intn(200), port))
		if err1 != nil || err2 != nil {
			c.Res.Notes = append(c.Res.Notes, "second loopback address not usable")
			close(release)
			srv.Shutdown()
			return
		}
		ask := func(conn net.Conn, name string, id uint16) {
			q := new(dns.Msg)
			q.SetQuestion(name, dns.TypeA)
			q.Id = id
			qb, _ := q.Pack()
			conn.Write(qb)
		}
		answered := func(conn net.Conn, id uint16) string {
			conn.SetReadDeadline(time.Now().Add(1500 * time.Millisecond))
			buf := make([]byte, 2048)
			for {
				n, err := conn.Read(buf)
				if err != nil {
					return "no reply: " + err.Error()
				}
				var m dns.Msg
				if m.Unpack(buf[:n]) == nil && m.Id == id {
					return "ok"
				}
			}
		}
		ask(a, "held.example.", 11)
		select {
		case <-entered:
		case <-time.After(2 * time.Second):
		}
		// while the first request is in its handler, 1..3 more datagrams arrive for another local address
		nb := 1 + r.Intn(3)
		okB := true
		for k := 0; k < nb; k++ {
			ask(b, "free.example.", uint16(20+k))
			if answered(b, uint16(20+k)) != "ok" {
				okB = false
			}
		}
		close(release)
		gotA := answered(a, 11)
		c.Pred("reply-source", "reply-from-the-address-asked", fmt.Sprintf("round=%d other-datagrams=%d", i, nb), gotA == "ok" && okB,
			fmt.Sprintf("held client: %s; other client ok=%v", gotA, okB), "both clients answered from the address they asked", true)
		a.Close()
		b.Close()
		srv.Shutdown()
	}
}
