/-
  DnsModel.Heap — an abstract heap for copy/aliasing (property C16).
  A record is a list of fields; a field is an immediate value or a reference to a mutable cell
  (the backing array of a slice, a pointee).  `copyRec` allocates fresh cells for cloned fields.
-/
namespace Dns

inductive Field where
  | imm (v : Nat)
  | ref (loc : Nat)
deriving Repr, DecidableEq

/-- what the copy does with a field -/
inductive CopyOp where
  | assign   -- `rr.F`
  | clone    -- `cloneSlice(rr.F)` / rebuilt element by element / `.copy()`
deriving Repr, DecidableEq

abbrev Heap := List (Nat × List Nat)     -- location ↦ contents

def Heap.read (h : Heap) (l : Nat) : Option (List Nat) := h.lookup l

def Heap.write (h : Heap) (l : Nat) (v : List Nat) : Heap :=
  h.map fun e => if e.1 = l then (l, v) else e

/-- copy one record: cloned references get the fresh location `next`, `next+1`, … -/
def copyRec : List (Field × CopyOp) → Heap → Nat → List Field × Heap × Nat
  | [], h, next => ([], h, next)
  | (Field.imm v, _) :: fs, h, next =>
    let (r, h', n') := copyRec fs h next
    (Field.imm v :: r, h', n')
  | (Field.ref l, CopyOp.assign) :: fs, h, next =>
    let (r, h', n') := copyRec fs h next
    (Field.ref l :: r, h', n')
  | (Field.ref l, CopyOp.clone) :: fs, h, next =>
    let (r, h', n') := copyRec fs ((next, (h.read l).getD []) :: h) (next + 1)
    (Field.ref next :: r, h', n')

def locsOf : List Field → List Nat
  | [] => []
  | Field.imm _ :: fs => locsOf fs
  | Field.ref l :: fs => l :: locsOf fs

/-- the plan is deep: every reference field is cloned -/
def PlanDeep : List (Field × CopyOp) → Prop
  | [] => True
  | (Field.imm _, _) :: fs => PlanDeep fs
  | (Field.ref _, op) :: fs => op = CopyOp.clone ∧ PlanDeep fs

end Dns
