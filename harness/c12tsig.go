package main

// C12 — "no mixing across … recycled receive buffers", the signed request: a UDP server verifies the TSIG of a request
// over the octets it received. With a provider that takes a moment (a key store, GSS-TSIG), other datagrams arrive while
// the signature of one correctly signed request is being verified; it must still be verified over its own octets.

import (
	"crypto/hmac"
	"crypto/sha256"
	"encoding/base64"
	"encoding/hex"
	"fmt"
	"net"
	"sync"
	"time"

	"github.com/miekg/dns"
)

const c12TsigSecret = "so6ZGir4GPAqINNh9U5c3A=="

// slowTsig: HMAC-SHA256 with a fixed secret; Verify waits to be released before it looks at the octets handed to it
type slowTsig struct {
	entered chan struct{}
	release chan struct{}
}

func (p *slowTsig) mac(msg []byte) []byte {
	k, _ := base64.StdEncoding.DecodeString(c12TsigSecret)
	h := hmac.New(sha256.New, k)
	h.Write(msg)
	return h.Sum(nil)
}

func (p *slowTsig) Generate(msg []byte, t *dns.TSIG) ([]byte, error) { return p.mac(msg), nil }

func (p *slowTsig) Verify(msg []byte, t *dns.TSIG) error {
	select {
	case p.entered <- struct{}{}:
	default:
	}
	select {
	case <-p.release:
	case <-time.After(5 * time.Second):
	}
	want, err := hex.DecodeString(t.MAC)
	if err != nil || !hmac.Equal(want, p.mac(msg)) {
		return dns.ErrSig
	}
	return nil
}

func c12TsigWhileOthers(c *Ctx) {
	prov := &slowTsig{entered: make(chan struct{}, 1), release: make(chan struct{}, 1)}
	var mu sync.Mutex
	var statuses []error
	handler := dns.HandlerFunc(func(w dns.ResponseWriter, r *dns.Msg) {
		m := new(dns.Msg)
		m.SetReply(r)
		if ts := r.IsTsig(); ts != nil {
			mu.Lock()
			statuses = append(statuses, w.TsigStatus())
			mu.Unlock()
		}
		w.WriteMsg(m)
	})
	pc, err := net.ListenPacket("udp", "127.0.0.1:0")
	if err != nil {
		c.Res.Notes = append(c.Res.Notes, "udp-tsig-own-octets: cannot listen: "+err.Error())
		return
	}
	started := make(chan struct{})
	srv := &dns.Server{PacketConn: pc, Handler: handler, TsigProvider: prov, NotifyStartedFunc: func() { close(started) }}
	go srv.ActivateAndServe()
	select {
	case <-started:
	case <-time.After(5 * time.Second):
		c.Res.Notes = append(c.Res.Notes, "udp-tsig-own-octets: server did not start")
		return
	}
	defer srv.Shutdown()
	addr := pc.LocalAddr().String()
	rounds := c.Scale(6, 40)
	bad, seen, fillFail := 0, 0, 0
	detail := ""
	for round := 0; round < rounds; round++ {
		signed := new(dns.Msg)
		signed.SetQuestion(fmt.Sprintf("signed%d.example.", round), dns.TypeSOA)
		signed.SetTsig("test.", dns.HmacSHA256, 300, time.Now().Unix())
		done := make(chan error, 1)
		go func() {
			cl := &dns.Client{Timeout: 10 * time.Second, TsigProvider: prov}
			co, err := cl.Dial(addr)
			if err != nil {
				done <- err
				return
			}
			defer co.Close()
			co.TsigProvider = &slowTsig{entered: make(chan struct{}, 1), release: closedChan()}
			if err := co.WriteMsg(signed); err != nil {
				done <- err
				return
			}
			co.SetReadDeadline(time.Now().Add(10 * time.Second))
			buf := make([]byte, 4096)
			_, err = co.Conn.Read(buf) // the reply is not signed by this handler: read it raw
			done <- err
		}()
		select {
		case <-prov.entered:
		case <-time.After(5 * time.Second):
			detail = "the server never began to verify the signed request"
			bad++
			continue
		}
		for i := 0; i < 12; i++ {
			q := new(dns.Msg)
			q.SetQuestion(fmt.Sprintf("an.unrelated.and.somewhat.longer.query.name%d.example.org.", i), dns.TypeTXT)
			cl := &dns.Client{Timeout: 5 * time.Second}
			r, _, err := cl.Exchange(q, addr)
			if err != nil || r.Id != q.Id || len(r.Question) != 1 || r.Question[0] != q.Question[0] {
				fillFail++
			}
		}
		prov.release <- struct{}{}
		<-done
		mu.Lock()
		got := statuses
		statuses = nil
		mu.Unlock()
		seen += len(got)
		for _, st := range got {
			if st != nil {
				bad++
				detail = "TsigStatus " + st.Error()
			}
		}
	}
	c.Pred("udp-tsig-own-octets", "signed-request-verified-over-its-own-octets", fmt.Sprintf("%d correctly signed requests, 12 other datagrams each while the signature is verified", rounds),
		bad == 0 && seen == rounds && fillFail == 0, fmt.Sprintf("%d wrong, %d seen, %d other queries failed; %s", bad, seen, fillFail, detail), "every signed request reaches its handler with TsigStatus nil", true)
}

func closedChan() chan struct{} {
	ch := make(chan struct{})
	close(ch)
	return ch
}
