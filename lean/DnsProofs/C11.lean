/-
  C11 — TSIG: the signed octets and the time window.
-/
import DnsModel.Tsig
namespace Dns.C11
open Dns

/-- **time_window**: the signing time is accepted exactly when it lies within `fudge` seconds of `now`,
    in either direction, for all 64-bit values -/
theorem time_window (now ts fudge : Nat) :
    tsigTimeOk now ts fudge = true ↔ (now ≤ ts + fudge ∧ ts ≤ now + fudge) := by
  unfold tsigTimeOk
  by_cases h : now < ts
  · simp [h]; omega
  · simp [h]; omega

theorem beBytes_length (w v : Nat) : (beBytes w v).length = w := by
  induction w with
  | zero => rfl
  | succ w ih => simp [beBytes, ih]

/-- **digest_layout**: the signed octets are, in this order, the length-prefixed request MAC (absent when
    there is none), the message with only its first two octets (the ID) replaced by the original ID, and the
    variables; in particular every octet of the message after the ID is signed verbatim -/
theorem digest_layout (msg : Bytes) (origId : Nat) (v : TsigVars) (mac : Bytes) (timers : Bool) :
    tsigDigest msg origId v mac timers
      = tsigMacPart mac ++ (beBytes 2 origId ++ msg.drop 2) ++ tsigVarPart v timers
    ∧ (tsigMacPart mac).length = (if mac.isEmpty then 0 else 2 + mac.length)
    ∧ (timers = true → tsigVarPart v timers = beBytes 6 v.timeSigned ++ beBytes 2 v.fudge) := by
  refine ⟨rfl, ?_, ?_⟩
  · unfold tsigMacPart; split <;> simp [beBytes_length]
  · intro h; subst h; simp [tsigVarPart]

/-- in timers-only mode (second and later envelopes) the digest does not depend on key name, algorithm,
    TTL, error or other data of the TSIG record — exactly the RFC 8945 §5.3.1 behaviour -/
theorem timers_only_ignores (msg : Bytes) (origId : Nat) (v w : TsigVars) (mac : Bytes)
    (h1 : v.timeSigned = w.timeSigned) (h2 : v.fudge = w.fudge) :
    tsigDigest msg origId v mac true = tsigDigest msg origId w mac true := by
  simp [tsigDigest, tsigVarPart, h1, h2]

/-- two digests built over messages of the same length with the same prefix differ as soon as the messages
    differ after the ID: any alteration of a signed message octet alters the MAC input -/
theorem digest_msg_injective (m1 m2 : Bytes) (origId : Nat) (v : TsigVars) (mac : Bytes) (timers : Bool)
    (hl : m1.length = m2.length)
    (h : tsigDigest m1 origId v mac timers = tsigDigest m2 origId v mac timers) :
    m1.drop 2 = m2.drop 2 := by
  unfold tsigDigest tsigMsgPart at h
  simp only [List.append_assoc] at h
  have h1 := List.append_cancel_left h
  have h2 := List.append_cancel_left h1
  have hl2 : (m1.drop 2).length = (m2.drop 2).length := by simp [hl]
  exact (List.append_inj h2 hl2).1

end Dns.C11
