/-
  DnsModel.MsgPackC — `Msg.Pack` with compression (msg.go: packBufferWithCompressionMap with a compression map,
  packRR, RR_Header.packHeader, Question.pack; the generated pack bodies with their `compression, compress` arguments):
  every domain name goes through the model of `packDomainName` with the map (DnsModel/Compress.lean: `packNameC`),
  everything else through the codec algebra.  The compress flag of each name field is a parameter (the generated
  bodies pass `compress` for the fields RFC 1035 / 3597 allow to compress and `false` for the others).
-/
import DnsModel.MsgUnpack
import DnsModel.Compress
import DnsModel.Generated.Layouts
namespace Dns.MU
open Dns

def nameC (text : Bytes) (pos : Nat) (m : CMap) (cp : Bool) : Option (Bytes × CMap) :=
  match packNameC text pos m cp with
  | .ok r => some (r.out, r.map)
  | _ => none

/-- `packDataDomainNames`: never compressed, but every name is entered in the map -/
def packNamesC : Nat → CMap → List Bytes → Option (Bytes × CMap)
  | _, m, [] => some ([], m)
  | pos, m, t :: rest =>
    match nameC t pos m false with
    | some (w, m1) => (packNamesC (pos + w.length) m1 rest).map (fun q => (w ++ q.1, q.2))
    | none => none

/-- one step of a generated `pack` body at offset `pos` with compression map `m` -/
def packStepC (vals : List Val) (pos : Nat) (m : CMap) (cp : Bool) (s : CStep) (v : Val) : Option (Bytes × CMap) :=
  match s, v with
  | .name, .t text => nameC text pos m cp
  | .names, .ns texts => packNamesC pos m texts
  | .gateway i mk, .t text =>
    if gatewayType vals i mk = 3 then nameC text pos m false else none
  | s, v => (packStep vals s v).map (fun w => (w, m))

/-- a generated `pack` body; `flags` gives the compress flag of each step (only names look at it) -/
def packPlanC : List Val → Nat → CMap → List CStep → List Val → List Bool → Option (Bytes × CMap)
  | _, _, m, [], [], _ => some ([], m)
  | acc, pos, m, .early :: steps, vals, flags => packPlanC acc pos m steps vals flags
  | acc, pos, m, s :: steps, v :: vals, flags =>
    match packStepC acc pos m (flags.headD false) s v with
    | some (a, m1) => (packPlanC (acc ++ [v]) (pos + a.length) m1 steps vals flags.tail).map (fun q => (a ++ q.1, q.2))
    | none => none
  | _, _, _, _, _, _ => none

/-- a record with RDATA: owner (compress flag `cp`), fixed header with the RDLENGTH of the body as packed, body -/
def packRRC (pos : Nat) (m : CMap) (cp : Bool) (owner : Bytes) (typ cls ttl : Nat) (plan : List CStep) (vals : List Val)
    (flags : List Bool) : Option (Bytes × CMap) :=
  match nameC owner pos m cp with
  | some (o, m1) =>
    (packPlanC [] (pos + o.length + 10) m1 plan vals flags).bind (fun q =>
      if q.1.length < 65536 then
        some (o ++ (beBytes 2 typ ++ (beBytes 2 cls ++ (beBytes 4 ttl ++ (beBytes 2 q.1.length ++ q.1)))), q.2)
      else none)
  | none => none

def packQC (pos : Nat) (m : CMap) (cp : Bool) (name : Bytes) (typ cls : Nat) : Option (Bytes × CMap) :=
  (nameC name pos m cp).map (fun q => (q.1 ++ (beBytes 2 typ ++ beBytes 2 cls), q.2))

/-- a record to pack: owner, header fields, the body plan of its type, field values, the compress flag of each step -/
structure RRc where
  owner : Bytes
  typ : Nat
  cls : Nat
  ttl : Nat
  plan : List CStep
  vals : List Val
  flags : List Bool

def packRRcs : Nat → CMap → Bool → List RRc → Option (Bytes × CMap)
  | _, m, _, [] => some ([], m)
  | pos, m, cp, r :: rs =>
    match packRRC pos m cp r.owner r.typ r.cls r.ttl r.plan r.vals r.flags with
    | some (w, m1) => (packRRcs (pos + w.length) m1 cp rs).map (fun q => (w ++ q.1, q.2))
    | none => none

def packQCs : Nat → CMap → Bool → List Qm → Option (Bytes × CMap)
  | _, m, _, [] => some ([], m)
  | pos, m, cp, q :: qs =>
    match packQC pos m cp q.name q.typ q.cls with
    | some (w, m1) => (packQCs (pos + w.length) m1 cp qs).map (fun r => (w ++ r.1, r.2))
    | none => none

/-- `Msg.Pack` with `Compress = true` on a compressible message: header with the true counts, then questions and the
    three sections, one compression map threaded through all of them -/
def packMsgC (id bits : Nat) (qs : List Qm) (an ns ex : List RRc) : Option Bytes :=
  let hdr := beBytes 2 id ++ (beBytes 2 bits ++ (beBytes 2 qs.length ++ (beBytes 2 an.length ++ (beBytes 2 ns.length ++
    beBytes 2 ex.length))))
  match packQCs 12 [] true qs with
  | none => none
  | some (wq, m1) =>
    match packRRcs (12 + wq.length) m1 true an with
    | none => none
    | some (wa, m2) =>
      match packRRcs (12 + wq.length + wa.length) m2 true ns with
      | none => none
      | some (wn, m3) =>
        match packRRcs (12 + wq.length + wa.length + wn.length) m3 true ex with
        | none => none
        | some (we, _) => some (hdr ++ (wq ++ (wa ++ (wn ++ we))))

/-- the compress flags of a type's pack body: the generated code passes `compress` on for the fields RFC 1035 / 3597
    allow to compress and `false` for all others (Generated/Layouts.lean, from zmsg.go) -/
def flagsOf (kind : String) : List Bool :=
  match Gen.packPlans.lookup kind with
  | some steps => steps.map (fun s => s.2.2.1 == "compress")
  | none => []

/-- a decoded record as the input of the compressing packer (a record without RDATA holds the zero values) -/
def toPack (r : RRm) : Option RRc :=
  match Gen.unpackCodecs.lookup r.kind with
  | some plan =>
    let vals := match r.body with
      | some vals => vals
      | none => plan.filterMap zeroVal
    (vals.mapM (recode r.kind)).map (fun vs => ⟨r.name, r.typ, r.cls, r.ttl, stripPlan plan, vs, flagsOf r.kind⟩)
  | none => none

/-- `Msg.Pack` with `Compress = true` on a decoded message (`packMsgPlain` when there is nothing to compress) -/
def packMsgCOf (m : MsgM) : Option Bytes :=
  if m.question.length ≤ 1 ∧ m.answer.isEmpty ∧ m.ns.isEmpty ∧ m.extra.isEmpty then packMsgPlain m
  else if m.rcode > 0xFFF then none
  else if m.rcode > 0xF ∧ (extRcode m.extra).isNone then none
  else
    let bits := (packBits { m.hdr with rcode := m.rcode }).toNat
    match m.answer.mapM toPack, m.ns.mapM toPack, m.extra.mapM toPack with
    | some an, some ns, some ex => packMsgC m.id bits m.question an ns ex
    | _, _, _ => none

end Dns.MU
