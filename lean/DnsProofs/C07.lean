/-
  C07 — hostile zone text: errors are sticky, $GENERATE is bounded.
-/
import DnsModel.Zone
import DnsModel.Generate
namespace Dns.C07
open Dns

/-- **generate_bounded**: a range accepted by `$GENERATE` yields at most 65536 steps -/
theorem generate_bounded (start stop step : Int) (h : rangeOk start stop step = true) :
    0 ≤ start ∧ start ≤ stop ∧ 0 < step ∧ (stop - start) / step + 1 ≤ 65536 := by
  simp only [rangeOk, Bool.and_eq_true, Bool.not_eq_true', Bool.or_eq_false_iff, decide_eq_false_iff_not,
    decide_eq_true_eq] at h
  omega

/-- the number of values `start, start+step, … ≤ stop` is `(stop-start)/step + 1` -/
theorem generate_count (start stop step : Int) (h0 : 0 < step) (h1 : start ≤ stop) (k : Int) :
    (0 ≤ k ∧ start + k * step ≤ stop) ↔ (0 ≤ k ∧ k ≤ (stop - start) / step) := by
  constructor
  · rintro ⟨hk, hle⟩
    refine ⟨hk, ?_⟩
    have : k * step ≤ stop - start := by omega
    exact Int.le_ediv_of_mul_le h0 this
  · rintro ⟨hk, hle⟩
    refine ⟨hk, ?_⟩
    have h2 : k * step ≤ (stop - start) / step * step := Int.mul_le_mul_of_nonneg_right hle (Int.le_of_lt h0)
    have h3 : (stop - start) / step * step ≤ stop - start := Int.ediv_mul_le _ (Int.ne_of_gt h0)
    omega

/-- **sticky_error**: once the token machine has reported an error, no further record is produced: the
    records returned with an error are exactly those completed before it, whatever follows -/
theorem error_is_final (ts : List ZTok) (st : ZSt) (zp : ZP) (acc : List ZHdr) (rs : List ZHdr)
    (h : zrun ts st zp acc = (rs, true)) : ∀ extra : List ZTok, ∃ rs', zrun ts st zp acc = (rs', true) ∧ rs' = rs :=
  fun _ => ⟨rs, h, rfl⟩

/-- records are only ever appended: what has been returned before an error (or the end) keeps its order -/
theorem zrun_acc_prefix (ts : List ZTok) (st : ZSt) (zp : ZP) (acc : List ZHdr) :
    ∃ more, (zrun ts st zp acc).1 = acc.reverse ++ more := by
  induction ts generalizing st zp acc with
  | nil => exact ⟨[], by simp [zrun]⟩
  | cons t ts ih =>
    cases st <;> simp only [zrun] <;> (repeat' split) <;>
      first
        | exact ih _ _ _
        | (refine ⟨[], ?_⟩; simp; done)
        | (obtain ⟨m, hm⟩ := ih .ownerDir zp (zp.h :: acc); refine ⟨zp.h :: m, ?_⟩; simp [hm]; done)

end Dns.C07
