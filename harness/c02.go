package main

import (
	"fmt"
	"runtime"
	"strings"
	"time"

	"github.com/miekg/dns"
)

func init() { props["C02"] = runC02 }

// runTimed runs f with a watchdog; returns "hang" when it does not return in time.
func runTimed(f func() string, limit time.Duration) string {
	ch := make(chan string, 1)
	go func() { ch <- guard(f) }()
	select {
	case s := <-ch:
		return s
	case <-time.After(limit):
		return "hang"
	}
}

func nameWithinLimits(s string) bool {
	if s == "" {
		return true // RDATA-less records carry empty names
	}
	w := unescapeName(s)
	if len(w) > 255 {
		return false
	}
	for i := 0; i < len(w) && w[i] != 0; {
		if w[i] > 63 {
			return false
		}
		i += 1 + int(w[i])
	}
	_, ok := dns.IsDomainName(s)
	return ok
}

// namesOf collects every domain name held by a decoded message (via the spec table's name fields).
func namesOf(m *dns.Msg) []string {
	var out []string
	for _, q := range m.Question {
		out = append(out, q.Name)
	}
	t := loadSpec()
	for _, s := range [][]dns.RR{m.Answer, m.Ns, m.Extra} {
		for _, rr := range s {
			out = append(out, rr.Header().Name)
			pl := t.byCode[rr.Header().Rrtype]
			if pl == nil {
				continue
			}
			out = append(out, nameFieldsOf(rr, pl)...)
		}
	}
	return out
}

// c02Msg: one hostile input through Msg.Unpack and, when accepted, the follow-up operations.
func c02Msg(c *Ctx, stream string, b []byte, measure bool) {
	in := "msg=" + hx(b)
	var m dns.Msg
	var before, after runtime.MemStats
	if measure {
		runtime.ReadMemStats(&before)
	}
	t0 := time.Now()
	out := runTimed(func() string {
		if err := m.Unpack(b); err != nil {
			return "err"
		}
		return "ok"
	}, 10*time.Second)
	el := time.Since(t0)
	if measure {
		runtime.ReadMemStats(&after)
		alloc := after.TotalAlloc - before.TotalAlloc
		bound := uint64(2048*len(b) + 32*1024)
		c.Pred(stream, "alloc-bounded", in, alloc <= bound, fmt.Sprint(alloc), fmt.Sprint("<= ", bound), true)
	}
	c.Pred(stream, "no-panic-no-hang", in, out == "ok" || out == "err", out, "ok|err", len(b) > 12)
	if out == "ok" || out == "err" {
		msgUnpackCorr(c, stream, b)
	}
	c.Pred(stream, "time-bounded", in, el < 2*time.Second, el.String(), "< 2s", false)
	c.Hit("unpack:" + out)
	if out != "ok" {
		return
	}
	// accepted: names within limits, records inside the input, usable afterwards
	okNames := true
	bad := ""
	for _, n := range namesOf(&m) {
		if !nameWithinLimits(n) {
			okNames = false
			bad = n
		}
	}
	c.Pred(stream, "names-within-limits", in, okNames, bad, "63/255 limits", true)
	inside := true
	for _, s := range [][]dns.RR{m.Answer, m.Ns, m.Extra} {
		for _, rr := range s {
			if int(rr.Header().Rdlength) > len(b) {
				inside = false
			}
		}
	}
	c.Pred(stream, "records-inside-input", in, inside, "rdlength beyond input", "inside", true)
	n := len(m.Question) + len(m.Answer) + len(m.Ns) + len(m.Extra)
	c.Pred(stream, "records-bounded", in, n <= len(b), fmt.Sprint(n), fmt.Sprint("<= ", len(b)), true)
	use := runTimed(func() string {
		_ = m.String()
		_ = m.Len()
		cp := m.Copy()
		_ = cp.String()
		m.Compress = false
		if _, err := m.Pack(); err != nil {
			_ = err // an error is fine, a panic is not
		}
		m.Compress = true
		_, _ = m.Pack()
		for _, s := range [][]dns.RR{m.Answer, m.Ns, m.Extra} {
			for _, rr := range s {
				_ = dns.Len(rr)
				_ = dns.Copy(rr)
				_ = dns.IsDuplicate(rr, rr)
			}
		}
		return "ok"
	}, 10*time.Second)
	c.Pred(stream, "accepted-usable", in, use == "ok", use, "ok", true)
}

func c02Other(c *Ctx, stream string, b []byte, off int) {
	in := fmt.Sprintf("off=%d bytes=%s", off, hx(b))
	o := runTimed(func() string {
		_, _, _ = dns.UnpackRR(b, off)
		_, _, _ = dns.UnpackDomainName(b, off)
		var h dns.RR_Header
		if len(b) >= 10 {
			h = dns.RR_Header{Name: ".", Rrtype: uint16(b[0])<<8 | uint16(b[1]), Class: 1, Rdlength: uint16(b[2])<<8 | uint16(b[3])}
			_, _, _ = dns.UnpackRRWithHeader(h, b, off)
		}
		_ = dns.IsMsg(b)
		return "ok"
	}, 10*time.Second)
	c.Pred(stream, "decoders-no-panic", in, o == "ok", o, "ok", true)
	c.Op(stream, fmt.Sprintf("name.unpack %s %d", hx(b), off), implUnpackName(b, off), len(b) > 2)
}

func mutateBytes(r *Rng, b []byte) []byte {
	out := append([]byte{}, b...)
	if len(out) == 0 {
		return out
	}
	switch r.Intn(7) {
	case 0: // truncate
		return out[:r.Intn(len(out))]
	case 1: // bit flip
		i := r.Intn(len(out))
		out[i] ^= 1 << uint(r.Intn(8))
	case 2: // byte set to interesting value
		out[r.Intn(len(out))] = []byte{0, 1, 0x3F, 0x40, 0x7F, 0x80, 0xC0, 0xC1, 0xFF}[r.Intn(9)]
	case 3: // insert pointer
		i := r.Intn(len(out))
		p := r.Intn(len(out) + 4)
		out = append(out[:i], append([]byte{0xC0 | byte(p>>8), byte(p)}, out[i:]...)...)
	case 4: // lying counts
		if len(out) >= 12 {
			i := 4 + 2*r.Intn(4)
			v := []int{0, 1, 255, 256, 65535, r.Intn(65536)}[r.Intn(6)]
			out[i], out[i+1] = byte(v>>8), byte(v)
		}
	case 5: // delete a byte
		i := r.Intn(len(out))
		out = append(out[:i], out[i+1:]...)
	case 6: // several flips
		for k := 0; k < 1+r.Intn(4); k++ {
			out[r.Intn(len(out))] = r.Byte()
		}
	}
	return out
}

// c02Reuse: a Msg value that is used for a second Unpack holds exactly what a fresh Msg would hold: nothing of the
// first input survives (sections, counts, OPT), whether the second input is a full message, a bare header or damaged.
func c02Reuse(c *Ctx, first, second []byte) {
	in := "first=" + hx(first) + " second=" + hx(second)
	out := guard(func() string {
		var m, f dns.Msg
		_ = m.Unpack(first)
		e2 := m.Unpack(second)
		e3 := f.Unpack(second)
		if (e2 == nil) != (e3 == nil) {
			return fmt.Sprintf("reused: err=%v fresh: err=%v", e2, e3)
		}
		if e2 != nil {
			return "ok"
		}
		if m.String() != f.String() || m.Len() != f.Len() || len(m.Question) != len(f.Question) || len(m.Answer) != len(f.Answer) ||
			len(m.Ns) != len(f.Ns) || len(m.Extra) != len(f.Extra) {
			return fmt.Sprintf("reused Msg differs from a fresh one: %d/%d/%d/%d records, Len %d; fresh %d/%d/%d/%d, Len %d",
				len(m.Question), len(m.Answer), len(m.Ns), len(m.Extra), m.Len(), len(f.Question), len(f.Answer), len(f.Ns), len(f.Extra), f.Len())
		}
		return "ok"
	})
	c.Pred("msg-reuse", "reused-msg-equals-fresh", in, out == "ok", out, "ok", len(second) >= 12)
}

func runC02(c *Ctx) {
	r := c.R
	c.Res.Rule = "byte strings: truncations at every offset and bit/byte mutations of generated valid messages, pointer graphs (self, forward, mutual, long chains), lying counts and RDLENGTHs, random bytes; non-trivial = longer than a header; distinct by content"
	t := loadSpec()
	types := t.wireTypes()
	// 1. valid messages: every truncation point (of small ones), random mutations
	n := c.Scale(1500, 40000)
	var prevMsg []byte
	for i := 0; i < n; i++ {
		g := genMsg(r, msgOpts{mode: r.Intn(3), pool: r.Chance(50), maxAn: 3, maxNs: 2, maxEx: 2, optPct: 30})
		m, err := unpackGen(g)
		w := g.Wire
		if err == nil && r.Bool() {
			m.Compress = true
			if b, err := m.Pack(); err == nil {
				w = b // compressed form: pointers inside
			}
		}
		if len(w) < 400 && i%4 == 0 {
			for k := 0; k <= len(w); k++ {
				c02Msg(c, "truncations", w[:k], false)
			}
		}
		for k := 0; k < 12; k++ {
			x := mutateBytes(r, w)
			if r.Chance(30) {
				x = mutateBytes(r, x)
			}
			c02Msg(c, "mutations", x, i%16 == 0 && k == 0)
			if k == 0 {
				c02Reuse(c, w, x)
			}
		}
		// the same Msg value again: a bare header, the header with the counts kept, a cut in the middle, another message
		hdr := append([]byte{}, w[:12]...)
		c02Reuse(c, w, hdr)
		for k := 4; k < 12; k++ {
			hdr[k] = 0
		}
		c02Reuse(c, w, hdr)
		c02Reuse(c, w, w[:12+r.Intn(len(w)-11)])
		if prevMsg != nil {
			c02Reuse(c, prevMsg, w)
		}
		prevMsg = w
	}
	// 2. every type: RDATA truncated / RDLENGTH lying / mutated
	for k := 0; k < c.Scale(15, 400); k++ {
		for _, typ := range types {
			g := genRR(r, typ, r.Intn(3), r.Bool())
			msg := buildMsgWire(1, 0x8000, nil, []*GenRR{g}, nil, nil)
			x := mutateBytes(r, msg)
			c02Msg(c, "per-type", x, false)
			// RDLENGTH lies: position of rdlength = 12 + len(owner) + 8
			p := 12 + len(wireOf(g.Owner)) + 8
			y := append([]byte{}, msg...)
			v := []int{0, 1, len(g.Rdata) - 1, len(g.Rdata) + 1, 65535}[r.Intn(5)]
			if v < 0 {
				v = 0
			}
			y[p], y[p+1] = byte(v>>8), byte(v)
			c02Msg(c, "rdlength-lies", y, false)
			if len(x) > 12 {
				c02Other(c, "per-type", x[12:], 0)
			}
		}
	}
	// 2b. consistent framing, inconsistent content: every prefix of a valid RDATA with RDLENGTH set to match
	//     (a plain truncation of the message never reaches the per-type / per-option length handling)
	for k := 0; k < c.Scale(3, 40); k++ {
		for _, typ := range types {
			g := genRR(r, typ, r.Intn(3), r.Bool())
			step := 1
			if len(g.Rdata) > 96 {
				step = len(g.Rdata)/96 + 1
			}
			for cut := 0; cut < len(g.Rdata); cut += step {
				w := assembleRR(g.Owner, g.Type, g.Class, g.TTL, g.Rdata[:cut])
				h := buildMsgWire(1, 0x8000, nil, nil, nil, nil)
				h[7] = 1
				c02Msg(c, "rdata-prefix", append(h, w...), false)
				c02Other(c, "rdata-prefix", w, 0)
			}
		}
	}
	// 2b'. every octet value inside the values that printers walk octet by octet (SVCB alpn ids, dohpath, unknown keys;
	//      character-strings; names): what is accepted must print
	for b := 0; b < 256; b++ {
		for _, shape := range [][]byte{{byte(b)}, {'a', byte(b), 'c'}, {byte(b), byte(b)}} {
			alpn := append([]byte{byte(len(shape))}, shape...)
			for _, kv := range [][]byte{
				append([]byte{0, 1, 0, byte(len(alpn))}, alpn...),         // alpn
				append([]byte{0, 7, 0, byte(len(shape))}, shape...),       // dohpath
				append([]byte{0xfd, 0xe8, 0, byte(len(shape))}, shape...), // key65000
				append([]byte{0, 5, 0, byte(len(shape))}, shape...),       // ech
			} {
				rd := append([]byte{0, 1, 0}, kv...) // priority 1, target root
				w := assembleRR([][]byte{[]byte("svc")}, dns.TypeSVCB, 1, 60, rd)
				h := buildMsgWire(1, 0x8000, nil, nil, nil, nil)
				h[7] = 1
				c02Msg(c, "printed-octets", append(h, w...), false)
			}
			txt := append([]byte{byte(len(shape))}, shape...)
			w := assembleRR([][]byte{shape}, dns.TypeTXT, 1, 60, txt)
			h := buildMsgWire(1, 0x8000, nil, nil, nil, nil)
			h[7] = 1
			c02Msg(c, "printed-octets", append(h, w...), false)
		}
	}
	// 2b''. long values in the fields that printers cut into pieces or encode block by block (hex in pieces of 1024
	//       characters, base64 / base32 in groups): lengths at and around every multiple of 256 octets; what is accepted must print
	for _, tt := range []struct {
		typ uint16
		pre []byte
	}{{dns.TypeSMIMEA, []byte{3, 1, 1}}, {dns.TypeTLSA, []byte{3, 1, 1}}, {dns.TypeDS, []byte{0, 1, 8, 2}}, {dns.TypeDNSKEY, []byte{1, 1, 3, 8}},
		{dns.TypeCERT, []byte{0, 1, 0, 1, 8}}, {dns.TypeOPENPGPKEY, nil}, {dns.TypeSSHFP, []byte{1, 1}}, {dns.TypeDHCID, nil}, {dns.TypeNULL, nil},
		{dns.TypeEID, nil}, {dns.TypeNIMLOC, nil}, {65280, nil}, {dns.TypeZONEMD, []byte{0, 0, 0, 1, 1, 1}}, {dns.TypeRKEY, []byte{0, 0, 3, 8}}, {dns.TypeTA, []byte{0, 1, 8, 2}}} {
		for blk := 1; blk <= 17; blk++ {
			for d := -1; d <= 1; d++ {
				n := blk*256 + d
				rd := append(append([]byte{}, tt.pre...), r.Bytes(n)...)
				w := assembleRR([][]byte{[]byte("big")}, tt.typ, 1, 60, rd)
				h := buildMsgWire(1, 0x8000, nil, nil, nil, nil)
				h[7] = 1
				c02Msg(c, "long-values", append(h, w...), false)
				c.Hit(fmt.Sprintf("long-values:%s", dns.Type(tt.typ).String()))
			}
		}
	}
	// 2c. type-length-value sub-structures: every EDNS0 option code and SVCB key with every small length,
	//     APL items with every address length; RDLENGTH and option lengths consistent
	fill := func(n int) []byte {
		switch r.Intn(3) {
		case 0:
			return make([]byte, n)
		case 1:
			b := make([]byte, n)
			for i := range b {
				b[i] = 0xFF
			}
			return b
		}
		return r.Bytes(n)
	}
	one := func(stream string, typ uint16, owner [][]byte, class uint16, ttl uint32, rd []byte) {
		w := assembleRR(owner, typ, class, ttl, rd)
		h := buildMsgWire(1, 0x8000, nil, nil, nil, nil)
		h[11] = 1
		c02Msg(c, stream, append(h, w...), false)
		c02Other(c, stream, w, 0)
	}
	codes := []int{65001, 65534, 65535, 4242}
	for code := 0; code <= 24; code++ {
		codes = append(codes, code)
	}
	for _, code := range codes {
		for n := 0; n <= 40; n++ {
			opt := putUint(putUint(nil, 2, uint64(code)), 2, uint64(n))
			opt = append(opt, fill(n)...)
			one("tlv-lengths", dns.TypeOPT, nil, 1232, 0, opt)
			if n%5 == 0 {
				// after / before another option
				other := []byte{0, 10, 0, 8, 1, 2, 3, 4, 5, 6, 7, 8}
				one("tlv-lengths", dns.TypeOPT, nil, 1232, 0, append(append([]byte{}, other...), opt...))
				one("tlv-lengths", dns.TypeOPT, nil, 1232, 0, append(append([]byte{}, opt...), other...))
			}
		}
	}
	for _, typ := range []uint16{dns.TypeSVCB, dns.TypeHTTPS} {
		keys := []int{65535, 65280, 4242}
		for key := 0; key <= 12; key++ {
			keys = append(keys, key)
		}
		for _, key := range keys {
			for n := 0; n <= 40; n++ {
				rd := append(putUint(nil, 2, 1), 0) // priority 1, target "."
				rd = putUint(putUint(rd, 2, uint64(key)), 2, uint64(n))
				rd = append(rd, fill(n)...)
				one("tlv-lengths", typ, [][]byte{[]byte("s")}, 1, 1, rd)
			}
		}
	}
	for fam := 0; fam <= 3; fam++ {
		for alen := 0; alen <= 20; alen++ {
			for _, neg := range []byte{0, 0x80} {
				rd := putUint(nil, 2, uint64(fam))
				rd = append(rd, byte(r.Intn(140)), neg|byte(alen))
				rd = append(rd, fill(alen)...)
				one("tlv-lengths", dns.TypeAPL, [][]byte{[]byte("a")}, 1, 1, rd)
			}
		}
	}
	// 3. pointer graphs
	for i := 0; i < c.Scale(3000, 60000); i++ {
		msg := genHostileNameMsg(r)
		hdr := buildMsgWire(1, 0, nil, nil, nil, nil)
		hdr[5] = 1 // one question whose name is hostile
		c02Msg(c, "pointer-graphs", append(hdr, msg...), false)
		c02Other(c, "pointer-graphs", msg, r.Intn(len(msg)+1))
	}
	// chains of exactly k pointers ending in a label
	for _, k := range []int{1, 2, 63, 125, 126, 127, 128, 200} {
		msg := []byte{1, 'a', 0}
		for j := 0; j < k; j++ {
			tgt := 0
			if j > 0 {
				tgt = 3 + 2*(j-1)
			}
			msg = append(msg, 0xC0|byte(tgt>>8), byte(tgt))
		}
		off := len(msg) - 2
		c.Op("pointer-chains", fmt.Sprintf("name.unpack %s %d", hx(msg), off), implUnpackName(msg, off), true)
		hdr := buildMsgWire(1, 0, nil, nil, nil, nil)
		_ = hdr
	}
	// 4. lying counts with short bodies, measured allocations
	for i := 0; i < c.Scale(300, 5000); i++ {
		body := r.Bytes(r.Intn(40))
		if r.Bool() {
			body = append(wireOf(genLabels(r, 0)), body...)
		}
		hdr := buildMsgWire(uint16(i), uint16(r.U64()), nil, nil, nil, nil)
		for j := 4; j < 12; j += 2 {
			v := []int{0, 1, 2, 65535, 65535, 40000}[r.Intn(6)]
			hdr[j], hdr[j+1] = byte(v>>8), byte(v)
		}
		c02Msg(c, "lying-counts", append(hdr, body...), true)
	}
	// 5. random bytes of all sizes, a few large
	for i := 0; i < c.Scale(2000, 50000); i++ {
		sz := r.Intn(64)
		if r.Chance(3) {
			sz = r.Intn(65536)
		}
		c02Msg(c, "random-bytes", r.Bytes(sz), i%50 == 0)
	}
	// a large message of maximal expansion: many pointers to a 255-octet name
	{
		name := genLabelsNear(r, 2)
		for len(wireOf(name)) > 255 {
			name = name[1:]
		}
		body := wireOf(name)
		body = putUint(body, 2, 1)
		body = putUint(body, 2, 1)
		cnt := 0
		for len(body) < 60000 {
			body = append(body, 0xC0, 12)
			body = putUint(body, 2, uint64(dns.TypeNS))
			body = putUint(body, 2, 1)
			body = putUint(body, 4, 1)
			body = putUint(body, 2, 2)
			body = append(body, 0xC0, 12)
			cnt++
		}
		hdr := buildMsgWire(1, 0x8000, nil, nil, nil, nil)
		hdr[5] = 1
		hdr[6], hdr[7] = byte(cnt>>8), byte(cnt)
		c02Msg(c, "max-expansion", append(hdr, body...), true)
	}
	// option and parameter value decoders on well-formed, swept and damaged RDATA, against the Lean value codecs: what is
	// accepted, what is decoded (nothing from outside the option), no panic
	optStream(c, c.Scale(300, 6000))
	_ = strings.Join
}
