/-
  C01 (codec algebra) — the generated per-type `pack` / `unpack` bodies of zmsg.go, translated into the step
  alphabet of DnsModel/Codec.lean on every run, are inverse to each other for every type whose body uses only
  the algebra's primitives, for all field values: unpack (pack vals) = vals.
-/
import DnsModel.Codec
import DnsModel.Generated.Codecs
import DnsProofs.C03
import DnsProofs.C01Nsec
import DnsProofs.C01Tlv
namespace Dns.C01
open Dns Dns.C03

/-! ### values that a step can carry, and the step laws -/

/-- well-formed value for a step; `vals` are the values of the fields before it (for sized blobs) -/
def WFStep (vals : List Val) : CStep → Val → Prop
  | .uint w, .n v => v < 256 ^ w
  | .a, .b bs => bs.length = 4
  | .aaaa, .b bs => bs.length = 16
  | .str, .b bs => bs.length ≤ 255
  | .name, .t text => ∃ ls, WireNameOK ls ∧ text = presentOf ls
  | .blobRest, .b _ => True
  | .blobSized i, .b bs => vals.getD i (.n 0) = .n bs.length
  | .txt, .ss strs => ∀ s ∈ strs, s.length ≤ 255
  | .nsec, .ts types => types.Pairwise (· < ·) ∧ ∀ t ∈ types, t < 65536
  | .names, .ns texts => ∀ t ∈ texts, ∃ ls, WireNameOK ls ∧ t = presentOf ls
  | .tlvs sorted, .kv items => TlvOK items ∧ KeysFrom none sorted items
  | .apl, .ap items => ∀ it ∈ items, AplOK it
  | .gateway i m, v =>
    match gatewayType vals i m, v with
    | 1, .b bs => bs.length = 4
    | 2, .b bs => bs.length = 16
    | 3, .t text => ∃ ls, WireNameOK ls ∧ text = presentOf ls
    | 1, _ => False
    | 2, _ => False
    | 3, _ => False
    | _, .b [] => True
    | _, _ => False
  | _, _ => False

/-- steps that say themselves where they end -/
def selfDelim : CStep → Bool
  | .uint _ | .a | .aaaa | .str | .name | .blobSized _ | .gateway _ _ => true
  | _ => false

theorem ofNat_toNat_le (n : Nat) (h : n ≤ 255) : (UInt8.ofNat n).toNat = n := by
  simp [UInt8.toNat_ofNat']; omega

theorem gateway_roundtrip (vals : List Val) (i : Nat) (m : Bool) (v : Val) (rest : Bytes)
    (hw : WFStep vals (.gateway i m) v) :
    ∃ w, packStep vals (.gateway i m) v = some w ∧ unpackStep vals (.gateway i m) (w ++ rest) = some (v, rest) := by
  simp only [WFStep] at hw
  simp only [packStep, unpackStep]
  generalize gatewayType vals i m = g at hw ⊢
  match g, v, hw with
  | 1, .b bs, hw =>
    simp only at hw
    refine ⟨bs, by simp [hw], ?_⟩
    have : 4 ≤ (bs ++ rest).length := by simp [hw]
    simp only [this, ↓reduceIte]
    have e1 : (bs ++ rest).take 4 = bs := by rw [← hw, List.take_left']; rfl
    have e2 : (bs ++ rest).drop 4 = rest := by rw [← hw, List.drop_left']; rfl
    rw [e1, e2]
  | 2, .b bs, hw =>
    simp only at hw
    refine ⟨bs, by simp [hw], ?_⟩
    have : 16 ≤ (bs ++ rest).length := by simp [hw]
    simp only [this, ↓reduceIte]
    have e1 : (bs ++ rest).take 16 = bs := by rw [← hw, List.take_left']; rfl
    have e2 : (bs ++ rest).drop 16 = rest := by rw [← hw, List.drop_left']; rfl
    rw [e1, e2]
  | 3, .t text, hw =>
    obtain ⟨ls, hok, rfl⟩ := hw
    refine ⟨wireOf ls, by simp [pack_present ls hok], ?_⟩
    simp only [unpack_wire ls rest hok, List.drop_left']
  | 0, .b [], _ => exact ⟨[], by simp, by simp⟩
  | n + 4, .b [], _ => exact ⟨[], by simp, by simp⟩

/-- **self-delimiting steps**: what was packed is read back and exactly the rest is left -/
theorem step_roundtrip (vals : List Val) (s : CStep) (v : Val) (rest : Bytes) (hs : selfDelim s = true)
    (hw : WFStep vals s v) :
    ∃ w, packStep vals s v = some w ∧ unpackStep vals s (w ++ rest) = some (v, rest) := by
  cases s <;> simp only [selfDelim, Bool.false_eq_true] at hs
  case gateway i m => exact gateway_roundtrip vals i m v rest hw
  all_goals cases v <;> simp only [WFStep] at hw
  case uint.n w v =>
    refine ⟨beBytes w v, by simp [packStep, hw], ?_⟩
    simp only [unpackStep, List.length_append, beBytes_len]
    have : w ≤ w + rest.length := by omega
    simp only [this, ↓reduceIte]
    have e1 : (beBytes w v ++ rest).take w = beBytes w v := by
      rw [List.take_append_of_le_length (by rw [beBytes_len]; omega), List.take_of_length_le (by rw [beBytes_len]; omega)]
    have e2 : (beBytes w v ++ rest).drop w = rest := by
      have := List.drop_left (l₁ := beBytes w v) (l₂ := rest)
      rw [beBytes_len] at this; exact this
    rw [e1, e2, beVal_beBytes w v hw]
  case a.b bs =>
    refine ⟨bs, by simp [packStep, hw], ?_⟩
    simp only [unpackStep, List.length_append, hw]
    have : 4 ≤ 4 + rest.length := by omega
    simp only [this, ↓reduceIte]
    have e1 : (bs ++ rest).take 4 = bs := by rw [← hw, List.take_left']; rfl
    have e2 : (bs ++ rest).drop 4 = rest := by rw [← hw, List.drop_left']; rfl
    rw [e1, e2]
  case aaaa.b bs =>
    refine ⟨bs, by simp [packStep, hw], ?_⟩
    simp only [unpackStep, List.length_append, hw]
    have : 16 ≤ 16 + rest.length := by omega
    simp only [this, ↓reduceIte]
    have e1 : (bs ++ rest).take 16 = bs := by rw [← hw, List.take_left']; rfl
    have e2 : (bs ++ rest).drop 16 = rest := by rw [← hw, List.drop_left']; rfl
    rw [e1, e2]
  case str.b bs =>
    refine ⟨UInt8.ofNat bs.length :: bs, by simp [packStep, hw], ?_⟩
    simp only [List.cons_append, unpackStep, ofNat_toNat_le bs.length hw, List.length_append]
    have : bs.length ≤ bs.length + rest.length := by omega
    simp only [this, ↓reduceIte, List.take_left', List.drop_left']
  case name.t text =>
    obtain ⟨ls, hok, rfl⟩ := hw
    refine ⟨wireOf ls, by simp [packStep, pack_present ls hok], ?_⟩
    simp only [unpackStep, unpack_wire ls rest hok, List.drop_left']
  case blobSized.b i bs =>
    refine ⟨bs, by simp [packStep], ?_⟩
    simp only [unpackStep, hw, List.length_append]
    have : bs.length ≤ bs.length + rest.length := by omega
    simp only [this, ↓reduceIte, List.take_left', List.drop_left']

theorem txt_roundtrip (strs : List Bytes) (h : ∀ s ∈ strs, s.length ≤ 255) :
    ∃ w, packTxtStrings strs = some w ∧ ∀ fuel, w.length < fuel → unpackTxtStrings fuel w = some strs := by
  induction strs with
  | nil => exact ⟨[], rfl, by intro fuel hf; cases fuel with | zero => omega | succ f => rfl⟩
  | cons s rest ih =>
    have hs := h s (by simp)
    obtain ⟨w, hw, hu⟩ := ih (fun x hx => h x (by simp [hx]))
    refine ⟨UInt8.ofNat s.length :: s ++ w, by simp [packTxtStrings, hs, hw], ?_⟩
    intro fuel hf
    cases fuel with
    | zero => omega
    | succ f =>
      simp only [List.cons_append, unpackTxtStrings, ofNat_toNat_le s.length hs, List.length_append]
      have : s.length ≤ s.length + w.length := by omega
      simp only [this, ↓reduceIte, List.take_left', List.drop_left']
      rw [hu f (by simp at hf; omega)]
      rfl

theorem wireOf_ne_nil (ls : List Bytes) : 0 < (wireOf ls).length := by simp [wireOf]

theorem names_roundtrip (texts : List Bytes) (h : ∀ t ∈ texts, ∃ ls, WireNameOK ls ∧ t = presentOf ls) :
    ∃ w, packNames texts = some w ∧ ∀ fuel, w.length < fuel → unpackNames fuel w = some texts := by
  induction texts with
  | nil => exact ⟨[], rfl, by intro fuel hf; cases fuel with | zero => omega | succ f => rfl⟩
  | cons t rest ih =>
    obtain ⟨ls, hok, rfl⟩ := h t (by simp)
    obtain ⟨w, hw, hu⟩ := ih (fun x hx => h x (by simp [hx]))
    refine ⟨wireOf ls ++ w, by simp [packNames, pack_present ls hok, hw], ?_⟩
    intro fuel hf
    cases fuel with
    | zero => omega
    | succ f =>
      have hpos := wireOf_ne_nil ls
      have hne : wireOf ls ++ w ≠ [] := by
        intro e
        have h0 := congrArg List.length e
        simp only [List.length_append, List.length_nil] at h0
        omega
      cases hx : wireOf ls ++ w with
      | nil => exact absurd hx hne
      | cons c cs =>
        rw [← hx]
        have hstep : unpackNames (f + 1) (wireOf ls ++ w) = (match unpackName (wireOf ls ++ w) 0 with
            | .ok (text, off) => if off = 0 then none else (unpackNames f ((wireOf ls ++ w).drop off)).map (fun r => text :: r)
            | _ => none) := by
          rw [hx]; rfl
        rw [hstep, unpack_wire ls w hok]
        have : ¬ (wireOf ls).length = 0 := by omega
        simp only [this, ↓reduceIte, List.drop_left']
        have hwf : w.length < f := by
          simp only [List.length_append] at hf; omega
        rw [hu f hwf]
        rfl

/-- steps that run to the end of the RDATA -/
def restStep : CStep → Bool
  | .blobRest | .txt | .nsec | .names | .tlvs _ | .apl => true
  | _ => false

/-- **rest-consuming steps**, as the last step of a body -/
theorem last_roundtrip (vals : List Val) (s : CStep) (v : Val) (hs : restStep s = true)
    (hw : WFStep vals s v) :
    ∃ w, packStep vals s v = some w ∧ unpackStep vals s w = some (v, []) := by
  cases s <;> simp only [restStep, Bool.false_eq_true] at hs <;> cases v <;> simp only [WFStep] at hw
  case blobRest.b bs => exact ⟨bs, rfl, rfl⟩
  case txt.ss strs =>
    obtain ⟨w, h1, h2⟩ := txt_roundtrip strs hw
    exact ⟨w, h1, by simp [unpackStep, h2 (w.length + 1) (by omega)]⟩
  case nsec.ts types =>
    obtain ⟨w, h1, h2⟩ := nsec_roundtrip types hw.1 hw.2
    exact ⟨w, h1, by simp [unpackStep, h2]⟩
  case names.ns texts =>
    obtain ⟨w, h1, h2⟩ := names_roundtrip texts hw
    exact ⟨w, h1, by simp [unpackStep, h2 (w.length + 1) (by omega)]⟩
  case tlvs.kv sorted items =>
    obtain ⟨w, h1, h2⟩ := tlvs_roundtrip sorted items hw.1
    refine ⟨w, ?_, by simp [unpackStep, h2 (w.length + 1) none (by omega) hw.2]⟩
    cases sorted with
    | false => exact h1
    | true =>
      obtain ⟨hp, hr, _⟩ := hw.2 rfl
      simp only [packStep, sortKV_of_sorted items hp, svcbKeysOK_sorted 65535 items hp hr, ↓reduceIte, h1]
  case apl.ap items =>
    obtain ⟨w, h1, h2⟩ := apl_roundtrip items hw
    exact ⟨w, h1, by simp [unpackStep, h2 (w.length + 1) (by omega)]⟩

/-! ### whole bodies -/

/-- an unpack body the algebra covers: self-delimiting steps, then at most one rest-consuming step, early exits
    anywhere -/
def GoodPlan : List CStep → Bool
  | [] => true
  | .early :: U => GoodPlan U
  | s :: U => if selfDelim s then GoodPlan U else restStep s && U.all (· == .early)

/-- field values fit the body -/
def WFPlan : List Val → List CStep → List Val → Prop
  | _, [], [] => True
  | acc, .early :: U, vals => WFPlan acc U vals
  | acc, s :: U, v :: vals => WFStep acc s v ∧ WFPlan (acc ++ [v]) U vals
  | _, _, _ => False

theorem packStep_nil (vals : List Val) (s : CStep) (v : Val) (hw : WFStep vals s v) (hp : packStep vals s v = some []) :
    zeroVal s = some v := by
  cases s
  case gateway i m =>
    simp only [WFStep] at hw
    simp only [packStep] at hp
    generalize gatewayType vals i m = g at hw hp
    match g, v, hw with
    | 1, .b bs, hw => simp only at hw hp; simp [hw] at hp; subst hp; simp at hw
    | 2, .b bs, hw => simp only at hw hp; simp [hw] at hp; subst hp; simp at hw
    | 3, .t text, hw =>
      obtain ⟨ls, hok, rfl⟩ := hw
      simp [pack_present ls hok, wireOf] at hp
    | 0, .b [], _ => rfl
    | n + 4, .b [], _ => rfl
  all_goals cases v <;> simp only [WFStep] at hw <;> simp only [packStep] at hp
  case uint.n w v =>
    simp only [hw, ↓reduceIte, Option.some.injEq] at hp
    have hl := congrArg List.length hp
    rw [beBytes_len] at hl
    simp only [List.length_nil] at hl
    subst hl
    simp only [Nat.pow_zero] at hw
    have : v = 0 := by omega
    subst this; rfl
  case a.b bs => split at hp <;> simp_all
  case aaaa.b bs => split at hp <;> simp_all
  case str.b bs => split at hp <;> simp_all
  case name.t text =>
    obtain ⟨ls, hok, rfl⟩ := hw
    rw [pack_present ls hok] at hp
    simp [wireOf] at hp
  case blobRest.b bs => simp at hp; subst hp; rfl
  case blobSized.b i bs => simp at hp; subst hp; rfl
  case nsec.ts types =>
    cases types with
    | nil => rfl
    | cons t ts =>
      simp only [packNsec, List.isEmpty_cons, Bool.false_eq_true, ↓reduceIte] at hp
      cases hf : packNsecFold (t :: ts) ⟨[], 0, 0, []⟩ with
      | none => simp [hf] at hp
      | some st => simp [hf] at hp
  case tlvs.kv sorted items =>
    cases items with
    | nil => rfl
    | cons x xs =>
      obtain ⟨c, d⟩ := x
      have hp : packTlvs ((c, d) :: xs) = some [] := by
        cases sorted with
        | false => simp only at hp; exact hp
        | true =>
          obtain ⟨hp', hr, _⟩ := hw.2 rfl
          simp only [sortKV_of_sorted _ hp', svcbKeysOK_sorted 65535 _ hp' hr, ↓reduceIte] at hp
          exact hp
      simp only [packTlvs] at hp
      split at hp
      · cases h : packTlvs xs with
        | none => simp [h] at hp
        | some r =>
          simp only [h, Option.map_some, Option.some.injEq] at hp
          have := congrArg List.length hp
          simp [beBytes_len] at this
      · cases hp
  case apl.ap items =>
    cases items with
    | nil => rfl
    | cons x xs =>
      obtain ⟨a, ha, hpos, _⟩ := apl_item_roundtrip x [] (hw x (by simp))
      simp only [packApl, ha] at hp
      cases h : packApl xs with
      | none => simp [h] at hp
      | some r =>
        simp only [h, Option.some.injEq] at hp
        have := congrArg List.length hp
        simp only [List.length_append, List.length_nil] at this
        omega
  case names.ns texts =>
    cases texts with
    | nil => rfl
    | cons t ts =>
      obtain ⟨ls, hok, hls⟩ := hw t (by simp)
      subst hls
      simp only [packNames, pack_present ls hok] at hp
      cases h : packNames ts <;> simp [h, wireOf] at hp
  case txt.ss strs =>
    cases strs with
    | nil => rfl
    | cons x xs =>
      simp only [packTxtStrings] at hp
      split at hp
      · cases h : packTxtStrings xs <;> simp [h] at hp
      · cases hp

theorem strip_all_early (U : List CStep) (h : U.all (· == .early) = true) :
    stripPlan U = [] ∧ U.filterMap zeroVal = [] := by
  induction U with
  | nil => exact ⟨rfl, rfl⟩
  | cons s U ih =>
    simp only [List.all_cons, Bool.and_eq_true, beq_iff_eq] at h
    obtain ⟨rfl, h2⟩ := h
    obtain ⟨a, b⟩ := ih h2
    exact ⟨by simp [stripPlan, a], by rw [List.filterMap_cons]; simp only [zeroVal]; exact b⟩

theorem wf_all_early (acc : List Val) (U : List CStep) (vals : List Val) (h : U.all (· == .early) = true)
    (hw : WFPlan acc U vals) : vals = [] := by
  induction U with
  | nil => cases vals <;> simp_all [WFPlan]
  | cons s U ih =>
    simp only [List.all_cons, Bool.and_eq_true, beq_iff_eq] at h
    obtain ⟨rfl, h2⟩ := h
    exact ih h2 (by simpa [WFPlan] using hw)

theorem good_cons_self (s : CStep) (U : List CStep) (hs : s ≠ .early) (hd : selfDelim s = true) :
    GoodPlan (s :: U) = GoodPlan U := by
  cases s <;> first | exact absurd rfl hs | (simp [selfDelim] at hd; done) | simp [GoodPlan, selfDelim]

theorem good_cons_last (s : CStep) (U : List CStep) (hs : s ≠ .early) (hd : ¬ selfDelim s = true)
    (hg : GoodPlan (s :: U) = true) : restStep s = true ∧ U.all (· == .early) = true := by
  cases s <;> first
    | exact absurd rfl hs
    | (simp [selfDelim] at hd; done)
    | (simp only [GoodPlan, selfDelim, Bool.false_eq_true, ↓reduceIte, Bool.and_eq_true] at hg
       exact hg)

theorem wf_cons (acc : List Val) (s : CStep) (U : List CStep) (v : Val) (vals : List Val) (hs : s ≠ .early)
    (hw : WFPlan acc (s :: U) (v :: vals)) : WFStep acc s v ∧ WFPlan (acc ++ [v]) U vals := by
  cases s <;> first | exact absurd rfl hs | (simpa [WFPlan] using hw)

theorem wf_cons_nil (acc : List Val) (s : CStep) (U : List CStep) (hs : s ≠ .early)
    (hw : WFPlan acc (s :: U) []) : False := by
  cases s <;> first | exact absurd rfl hs | (simp [WFPlan] at hw)

theorem packStep_blobSized (acc : List Val) (i : Nat) (v : Val) : packStep acc (.blobSized i) v = packStep acc .blobRest v := by
  cases v <;> rfl

theorem packPlan_cons_some (acc : List Val) (s : CStep) (steps : List CStep) (v : Val) (vals : List Val) (w : Bytes)
    (hs : s ≠ .early) (h : packPlanAcc acc (s :: steps) (v :: vals) = some w) :
    ∃ a r, packStep acc s v = some a ∧ packPlanAcc (acc ++ [v]) steps vals = some r ∧ w = a ++ r := by
  cases s <;> simp only [packPlanAcc] at h <;> first
    | exact absurd rfl hs
    | (split at h
       · rename_i a r h1 h2
         simp only [Option.some.injEq] at h
         exact ⟨a, r, h1, h2, h.symm⟩
       · cases h)

theorem strip_cons (s : CStep) (U : List CStep) (hs : s ≠ .early) :
    stripPlan (s :: U) = (match s with | .blobSized _ => .blobRest | x => x) :: stripPlan U := by
  cases s <;> first | exact absurd rfl hs | rfl

/-- when everything that is left packs to nothing, every remaining field holds its zero value: the early exit of the
    unpacker loses nothing -/
theorem zeros_of_empty (acc : List Val) (U : List CStep) (vals : List Val) (hg : GoodPlan U = true)
    (hw : WFPlan acc U vals) (hp : packPlanAcc acc (stripPlan U) vals = some []) : U.filterMap zeroVal = vals := by
  induction U generalizing acc vals with
  | nil => cases vals <;> simp_all [WFPlan]
  | cons s U ih =>
    by_cases hse : s = .early
    · subst hse
      simp only [List.filterMap_cons, zeroVal]
      exact ih acc vals hg (by simpa [WFPlan] using hw) (by simpa [stripPlan, packPlanAcc] using hp)
    · cases vals with
      | nil => exact (wf_cons_nil acc s U hse hw).elim
      | cons v vals =>
        obtain ⟨hw1, hw2⟩ := wf_cons acc s U v vals hse hw
        rw [strip_cons s U hse] at hp
        obtain ⟨a, r, h1, h2, h3⟩ := packPlan_cons_some acc _ _ _ _ _ (by cases s <;> first | exact absurd rfl hse | simp) hp
        have ha : a = [] := by
          have := congrArg List.length h3; simp at this; exact List.length_eq_zero_iff.mp (by omega)
        have hr : r = [] := by
          have := congrArg List.length h3; simp at this; exact List.length_eq_zero_iff.mp (by omega)
        subst ha hr
        have h1' : packStep acc s v = some [] := by
          cases s <;> first | exact h1 | (rw [packStep_blobSized]; exact h1)
        have hz := packStep_nil acc s v hw1 h1'
        simp only [List.filterMap_cons, hz]
        congr 1
        by_cases hsd : selfDelim s = true
        · have hg' : GoodPlan U = true := by rw [← good_cons_self s U hse hsd]; exact hg
          exact ih (acc ++ [v]) vals hg' hw2 h2
        · have hg' := (good_cons_last s U hse hsd hg).2
          rw [wf_all_early (acc ++ [v]) U vals hg' hw2, (strip_all_early U hg').2]

/-- **bodies are inverse**: for every covered unpack body `U` (and the pack body `stripPlan U` that belongs to it) and all
    fitting field values, unpacking what was packed returns exactly the values -/
theorem plan_roundtrip (acc : List Val) (U : List CStep) (vals : List Val) (hg : GoodPlan U = true)
    (hw : WFPlan acc U vals) :
    ∃ w, packPlanAcc acc (stripPlan U) vals = some w ∧ unpackPlan U w acc = some (acc ++ vals) := by
  induction U generalizing acc vals with
  | nil =>
    cases vals with
    | nil => exact ⟨[], rfl, by simp [unpackPlan]⟩
    | cons _ _ => simp [WFPlan] at hw
  | cons s U ih =>
    by_cases hse : s = .early
    · subst hse
      obtain ⟨w, h1, h2⟩ := ih acc vals hg (by simpa [WFPlan] using hw)
      refine ⟨w, by simpa [stripPlan, packPlanAcc] using h1, ?_⟩
      simp only [unpackPlan]
      by_cases he : w.isEmpty = true
      · simp only [he, ↓reduceIte]
        have : w = [] := by simpa using he
        subst this
        rw [zeros_of_empty acc U vals hg (by simpa [WFPlan] using hw) h1]
      · simp only [he, Bool.false_eq_true, ↓reduceIte]; exact h2
    · cases vals with
      | nil => exact (wf_cons_nil acc s U hse hw).elim
      | cons v vals =>
        obtain ⟨hw1, hw2⟩ := wf_cons acc s U v vals hse hw
        have hpack : ∀ a r, packStep acc s v = some a → packPlanAcc (acc ++ [v]) (stripPlan U) vals = some r →
            packPlanAcc acc (stripPlan (s :: U)) (v :: vals) = some (a ++ r) := by
          intro a r ha hr
          rw [strip_cons s U hse]
          cases s <;> first
            | exact absurd rfl hse
            | (simp [packPlanAcc, ha, hr]; done)
            | (simp only [packPlanAcc]; rw [← packStep_blobSized, ha, hr])
        by_cases hsd : selfDelim s = true
        · have hg' : GoodPlan U = true := by rw [← good_cons_self s U hse hsd]; exact hg
          obtain ⟨w', h1, h2⟩ := ih (acc ++ [v]) vals hg' hw2
          obtain ⟨a, ha, hu⟩ := step_roundtrip acc s v w' hsd hw1
          refine ⟨a ++ w', hpack a w' ha h1, ?_⟩
          have : unpackPlan (s :: U) (a ++ w') acc = unpackPlan U w' (acc ++ [v]) := by
            cases s <;> first | exact absurd rfl hse | simp [unpackPlan, hu]
          rw [this, h2]; simp
        · obtain ⟨hlast, hall⟩ := good_cons_last s U hse hsd hg
          have hv := wf_all_early (acc ++ [v]) U vals hall hw2
          subst hv
          obtain ⟨a, ha, hu⟩ := last_roundtrip acc s v hlast hw1
          have hr : packPlanAcc (acc ++ [v]) (stripPlan U) [] = some [] := by rw [(strip_all_early U hall).1]; rfl
          refine ⟨a, by have := hpack a [] ha hr; simpa using this, ?_⟩
          have hrest : ∀ (V : List CStep) (acc' : List Val), V.all (· == .early) = true →
              unpackPlan V [] acc' = some acc' := by
            intro V
            induction V with
            | nil => intro acc' _; simp [unpackPlan]
            | cons x V ihV =>
              intro acc' hV
              simp only [List.all_cons, Bool.and_eq_true, beq_iff_eq] at hV
              obtain ⟨rfl, hV2⟩ := hV
              simp [unpackPlan, (strip_all_early V hV2).2]
          have : unpackPlan (s :: U) a acc = unpackPlan U [] (acc ++ [v]) := by
            cases s <;> first | exact absurd rfl hse | (simp [restStep] at hlast; done) | simp [unpackPlan, hu]
          rw [this, hrest U _ hall]

end Dns.C01
