/-
  C03 — domain names: text and wire forms correspond; limits; escape unambiguity.
  Property theorems only; helper lemmas in DnsProofs/Lemmas.
-/
import DnsModel.Name
import DnsProofs.Lemmas.Bytes
namespace Dns.C03
open Dns

theorem isDDD_of_not_digit (a : Byte) (r : Bytes) (h : isDigit a = false) : isDDD (a :: r) = false := by
  match r with
  | [] => rfl
  | [_] => rfl
  | _ :: _ :: _ => simp [isDDD, h]

/-- **escape_unambiguous** (packer side): for every octet value `b`, in every position (any text before is
    summarised by the loop state, any text `rest` after), the library's spelling of `b` is read back by the
    packing loop as exactly the one octet `b`. -/
theorem packLoop_presentByte (b : Byte) (rest : Bytes) (first multi : Bool) (label : Bytes) (wasDot : Bool)
    (out : Bytes) :
    packLoop (presentByte b ++ rest) first multi label wasDot out
      = packLoop rest false multi (label ++ [b]) false out := by
  unfold presentByte
  by_cases hs : isSpecial b = true
  · simp only [hs, if_true]
    have hd := isDDD_of_not_digit b rest (special_ne_digit b hs)
    rw [show [92, b] ++ rest = 92 :: b :: rest from rfl, packLoop]
    simp [hd]
  · have hs' : isSpecial b = false := by simpa using hs
    simp only [hs', Bool.false_eq_true, ↓reduceIte]
    by_cases hp : (b < 32 || b > 126) = true
    · simp only [hp, ↓reduceIte]
      have ⟨h1, h2⟩ := ddd_escape b rest
      have : escapeByte b ++ rest = 92 :: ((escapeByte b).tail ++ rest) := by simp [escapeByte]
      rw [this, packLoop.eq_def]
      simp only [h1, h2, if_true]
      simp [escapeByte]
    · have ⟨n92, n46⟩ := plain_not_special b hs'
      simp only [hp, Bool.false_eq_true, ↓reduceIte]
      rw [show [b] ++ rest = b :: rest from rfl, packLoop.eq_def]
      simp [n92, n46]


/-- a whole label in the library's spelling is read back octet for octet -/
theorem packLoop_presentLabel (l rest : Bytes) (multi : Bool) (label out : Bytes) :
    packLoop (presentLabel l ++ rest) false multi label false out
      = packLoop rest false multi (label ++ l) false out := by
  induction l generalizing label with
  | nil => simp [presentLabel]
  | cons b l ih =>
    have : presentLabel (b :: l) ++ rest = presentByte b ++ (presentLabel l ++ rest) := by
      simp [presentLabel]
    rw [this, packLoop_presentByte, ih]
    simp

theorem packLoop_presentLabel_first (b : Byte) (l rest : Bytes) (first multi wasDot : Bool) (out : Bytes) :
    packLoop (presentLabel (b :: l) ++ rest) first multi [] wasDot out
      = packLoop rest false multi (b :: l) false out := by
  have : presentLabel (b :: l) ++ rest = presentByte b ++ (presentLabel l ++ rest) := by
    simp [presentLabel]
  rw [this, packLoop_presentByte, packLoop_presentLabel]
  simp

/-- an unescaped dot closes a label that is within the limits -/
theorem packLoop_dot (rest : Bytes) (multi : Bool) (label out : Bytes)
    (h1 : label.length < Gen.labelLimit)
    (h2 : out.length + 1 + label.length + 1 ≤ Gen.maxDomainNameWireOctets) :
    packLoop (46 :: rest) false multi label false out
      = packLoop rest false multi [] true (out ++ UInt8.ofNat label.length :: label) := by
  rw [packLoop.eq_def]
  have h1' : ¬ label.length ≥ Gen.labelLimit := by omega
  have h2' : ¬ out.length + 1 + label.length + 1 > Gen.maxDomainNameWireOctets := by omega
  simp [h1', h2']

def wireLabels (ls : List Bytes) : Bytes := ls.flatMap (fun l => UInt8.ofNat l.length :: l)
def presentLabels (ls : List Bytes) : Bytes := ls.flatMap (fun l => presentLabel l ++ [46])

theorem wireLabels_length_cons (l : Bytes) (ls : List Bytes) :
    (wireLabels (l :: ls)).length = 1 + l.length + (wireLabels ls).length := by
  simp [wireLabels]; omega

/-- packing the library's spelling of a label list yields the RFC 1035 wire form -/
theorem packLoop_presentLabels (ls : List Bytes) (first multi wasDot : Bool) (out : Bytes)
    (hl : ∀ l ∈ ls, 1 ≤ l.length ∧ l.length ≤ 63)
    (hlen : out.length + (wireLabels ls).length + 1 ≤ 255) :
    packLoop (presentLabels ls) first multi [] wasDot out = .ok (out ++ wireLabels ls ++ [0]) := by
  induction ls generalizing first wasDot out with
  | nil => simp [presentLabels, wireLabels, packLoop]
  | cons l ls ih =>
    have hl0 := hl l (by simp)
    match l, hl0 with
    | b :: l', hl0 =>
      have e : presentLabels ((b :: l') :: ls) = presentLabel (b :: l') ++ (46 :: presentLabels ls) := by
        simp [presentLabels]
      rw [wireLabels_length_cons] at hlen
      rw [e, packLoop_presentLabel_first, packLoop_dot]
      · rw [ih]
        · simp [wireLabels]
        · intro l hlm; exact hl l (by simp [hlm])
        · simp; simp at hlen; omega
      · simp [Gen.labelLimit]; simp at hl0; omega
      · simp [Gen.maxDomainNameWireOctets]; simp at hlen; omega


/-! ### the final dot of the library's spelling is never escaped -/

theorem presentByte_rev_headD : ∀ b : Byte, b ≠ 92 →
    ((presentByte b).reverse.headD 92 != 92) = true := by
  apply forall_byte
  decide +kernel

theorem presentByte_rev_head (b : Byte) (hb : b ≠ 92) :
    ∃ c t, (presentByte b).reverse = c :: t ∧ c ≠ 92 := by
  have h := presentByte_rev_headD b hb
  match e : (presentByte b).reverse with
  | [] => rw [e] at h; simp at h
  | c :: t => rw [e] at h; exact ⟨c, t, rfl, by simpa using h⟩

theorem presentByte_bs : presentByte 92 = [92, 92] := by decide

/-- reversed spelling of a (reversed) label followed by something that does not start with a backslash:
    the leading backslash run is even -/
theorem even_run (r : List Byte) (x : Bytes) (hx : x.takeWhile (· == 92) = []) :
    ((r.flatMap (fun b => (presentByte b).reverse) ++ x).takeWhile (· == 92)).length % 2 = 0 := by
  induction r with
  | nil => simp [hx]
  | cons b r ih =>
    by_cases hb : b = 92
    · subst hb
      have e : ((92 : Byte) :: r).flatMap (fun b => (presentByte b).reverse) ++ x
          = 92 :: 92 :: (r.flatMap (fun b => (presentByte b).reverse) ++ x) := by
        simp [presentByte_bs]
      rw [e, List.takeWhile_cons, List.takeWhile_cons]
      simp only [beq_self_eq_true, if_true, List.length_cons]
      omega
    · obtain ⟨c, t, e, hc⟩ := presentByte_rev_head b hb
      have e2 : (b :: r).flatMap (fun b => (presentByte b).reverse) ++ x
          = c :: (t ++ (r.flatMap (fun b => (presentByte b).reverse) ++ x)) := by
        simp [e]
      rw [e2, List.takeWhile_cons]
      simp [hc]

theorem presentLabels_rev_nobs (ls : List Bytes) :
    (presentLabels ls).reverse.takeWhile (· == 92) = [] := by
  rcases List.eq_nil_or_concat ls with h | ⟨ls', l, h⟩
  · subst h; simp [presentLabels]
  · subst h; simp [presentLabels]

theorem presentLabel_reverse (l : Bytes) :
    (presentLabel l).reverse = l.reverse.flatMap (fun b => (presentByte b).reverse) := by
  induction l with
  | nil => simp [presentLabel]
  | cons b l ih =>
    simp [presentLabel] at ih ⊢
    rw [ih]

theorem presentLabels_append (a b : List Bytes) : presentLabels (a ++ b) = presentLabels a ++ presentLabels b := by
  simp [presentLabels]

/-- **not_escaped_final_dot**: every name the library prints ends in an unescaped dot -/
theorem isFqdn_presentLabels (ls : List Bytes) (l : Bytes) :
    isFqdn (presentLabels (ls ++ [l])) = true := by
  rw [presentLabels_append]
  have e : presentLabels [l] = presentLabel l ++ [46] := by simp [presentLabels]
  rw [e, ← List.append_assoc]
  unfold isFqdn trailingBackslashes
  simp only [List.getLast?_append, List.getLast?_singleton, Option.some_or, List.dropLast_concat]
  simp only [List.reverse_append, presentLabel_reverse]
  have := even_run l.reverse (presentLabels ls).reverse (presentLabels_rev_nobs ls)
  simp [this]


theorem presentByte_ne_nil : ∀ b : Byte, (presentByte b).length ≥ 1 := by
  apply forall_byte; decide +kernel

theorem presentOf_eq (l : Bytes) (ls : List Bytes) : presentOf (l :: ls) = presentLabels (l :: ls) := by
  simp [presentOf, presentLabels]

theorem wireOf_eq (ls : List Bytes) : wireOf ls = wireLabels ls ++ [0] := rfl

/-- **unpack_pack_name (pack half)**: for every label list within the RFC 1035 limits, packing the
    library's presentation form yields exactly the RFC wire octets. -/
theorem pack_present (ls : List Bytes) (h : WireNameOK ls) : packName (presentOf ls) = .ok (wireOf ls) := by
  match ls, h with
  | [], _ => decide
  | l :: ls, h =>
    obtain ⟨hl, hlen⟩ := h
    rw [presentOf_eq]
    have hfq : isFqdn (presentLabels (l :: ls)) = true := by
      rcases List.eq_nil_or_concat (l :: ls) with h0 | ⟨ls', l', h0⟩
      · simp at h0
      · rw [h0]; simpa using isFqdn_presentLabels ls' l'
    have hl0 := hl l (by simp)
    match l, hl0 with
    | b :: l', _ =>
      have hlen2 : (presentLabels ((b :: l') :: ls)).length ≥ 2 := by
        have := presentByte_ne_nil b
        simp [presentLabels, presentLabel] ; omega
      have hne : presentLabels ((b :: l') :: ls) ≠ [] := by
        intro e; rw [e] at hlen2; simp at hlen2
      have hne2 : presentLabels ((b :: l') :: ls) ≠ [46] := by
        intro e; rw [e] at hlen2; simp at hlen2
      unfold packName
      simp only [hfq, hne2, List.isEmpty_iff, hne]
      simp only [Bool.not_true, Bool.false_eq_true, ↓reduceIte]
      rw [packLoop_presentLabels _ _ _ _ _ hl (by rw [wireOf_eq] at hlen; simp at hlen ⊢; omega)]
      simp [wireOf_eq]


/-! ### unpacking -/

theorem getElem_pre (pre : Bytes) (x : Byte) (post : Bytes) (h : pre.length < (pre ++ x :: post).length) :
    (pre ++ x :: post)[pre.length]'h = x := by
  simp

theorem slice_mid (pre l post : Bytes) (x : Byte) :
    slice (pre ++ x :: (l ++ post)) (pre.length + 1) l.length = l := by
  unfold slice
  have : pre ++ x :: (l ++ post) = (pre ++ [x]) ++ (l ++ post) := by simp
  rw [this, List.drop_append_of_le_length (by simp)]
  simp

/-- unpacking the RFC wire form of a label list: the loop consumes exactly the name and produces the
    library's spelling; `budget` must exceed the octets of the labels -/
theorem unpackLoop_wire (ls : List Bytes) (pre rest acc : Bytes) (budget off1 : Nat)
    (hl : ∀ l ∈ ls, 1 ≤ l.length ∧ l.length ≤ 63)
    (hb : (wireLabels ls).length < budget) :
    unpackNameLoop (pre ++ wireLabels ls ++ 0 :: rest) pre.length 0 budget off1 acc
      = .ok (if (acc ++ presentLabels ls).isEmpty then [46] else acc ++ presentLabels ls,
             pre.length + (wireLabels ls).length + 1) := by
  induction ls generalizing pre acc budget with
  | nil =>
    rw [unpackNameLoop]
    simp [wireLabels, presentLabels]
  | cons l ls ih =>
    have ⟨h1, h63⟩ := hl l (by simp)
    rw [wireLabels_length_cons] at hb
    have e : pre ++ wireLabels (l :: ls) ++ 0 :: rest
        = pre ++ UInt8.ofNat l.length :: (l ++ (wireLabels ls ++ 0 :: rest)) := by
      simp [wireLabels]
    have e2 : pre ++ wireLabels (l :: ls) ++ 0 :: rest
        = (pre ++ UInt8.ofNat l.length :: l) ++ wireLabels ls ++ 0 :: rest := by
      simp [wireLabels]
    have hlen : (pre ++ UInt8.ofNat l.length :: (l ++ (wireLabels ls ++ 0 :: rest))).length
        = pre.length + 1 + l.length + (wireLabels ls).length + 1 + rest.length := by
      simp; omega
    have hc : (UInt8.ofNat l.length).toNat = l.length := by
      simp [UInt8.toNat_ofNat']; omega
    rw [unpackNameLoop]
    have hlt : pre.length < (pre ++ wireLabels (l :: ls) ++ 0 :: rest).length := by
      rw [e, hlen]; omega
    simp only [hlt, ↓reduceDIte]
    have hget : (pre ++ wireLabels (l :: ls) ++ 0 :: rest)[pre.length]'hlt = UInt8.ofNat l.length := by
      simp [e]
    simp only [hget, hc]
    have c1 : l.length < 64 := by omega
    have c2 : ¬ l.length = 0 := by omega
    have c3 : ¬ pre.length + 1 + l.length > (pre ++ wireLabels (l :: ls) ++ 0 :: rest).length := by
      rw [e, hlen]; omega
    have c4 : ¬ budget ≤ l.length + 1 := by omega
    simp only [c1, c2, c3, c4, ↓reduceIte]
    have hs : slice (pre ++ wireLabels (l :: ls) ++ 0 :: rest) (pre.length + 1) l.length = l := by
      rw [e]; exact slice_mid pre l _ _
    rw [hs, e2]
    have := ih (pre ++ UInt8.ofNat l.length :: l) (acc ++ presentLabel l ++ [46]) (budget - (l.length + 1))
      (fun l' hl' => hl l' (by simp [hl'])) (by omega)
    have hpl : (pre ++ UInt8.ofNat l.length :: l).length = pre.length + 1 + l.length := by simp; omega
    rw [hpl] at this
    rw [this]
    simp [presentLabels, wireLabels]
    omega

/-- **unpack_pack_name (unpack half)**: every wire-format name within the limits, followed by anything,
    unpacks to the library's presentation form, consuming exactly the name. -/
theorem unpack_wire (ls : List Bytes) (rest : Bytes) (h : WireNameOK ls) :
    unpackName (wireOf ls ++ rest) 0 = .ok (presentOf ls, (wireOf ls).length) := by
  obtain ⟨hl, hlen⟩ := h
  have := unpackLoop_wire ls [] rest [] Gen.maxDomainNameWireOctets 0 hl
    (by rw [wireOf_eq] at hlen; simp at hlen; simp [Gen.maxDomainNameWireOctets]; omega)
  unfold unpackName
  simp only [List.nil_append, List.length_nil, Nat.zero_add] at this
  rw [wireOf_eq]
  simp only [List.append_assoc, List.singleton_append]
  rw [this]
  cases ls with
  | nil => simp [presentOf, presentLabels, wireLabels]
  | cons l ls =>
    have hl0 := hl l (by simp)
    match l, hl0 with
    | b :: l', _ =>
      have := presentByte_ne_nil b
      have hne : presentLabels ((b :: l') :: ls) ≠ [] := by
        intro e
        have : (presentLabels ((b :: l') :: ls)).length = 0 := by rw [e]; rfl
        simp [presentLabels, presentLabel] at this
      simp [presentOf_eq, hne]

/-- **round trip**: wire → text → wire is the identity on every name within the limits. -/
theorem unpack_then_pack (ls : List Bytes) (rest : Bytes) (h : WireNameOK ls) :
    ∃ s n, unpackName (wireOf ls ++ rest) 0 = .ok (s, n) ∧ packName s = .ok (wireOf ls) ∧ n = (wireOf ls).length :=
  ⟨presentOf ls, _, unpack_wire ls rest h, pack_present ls h, rfl⟩

end Dns.C03

/-- non-vacuity: a concrete name with escapes satisfies the hypothesis of the theorems above -/
example : Dns.WireNameOK [[119, 119, 119], [0, 46, 92], [110, 108]] := by decide
