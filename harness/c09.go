package main

import (
	"fmt"
	"net"
	"strings"

	"github.com/miekg/dns"
)

func init() { props["C09"] = runC09 }

func packedLen(m *dns.Msg) int {
	b, err := m.Pack()
	if err != nil {
		return -1
	}
	return len(b)
}

func splitOpt(extra []dns.RR) (rest []dns.RR, opt dns.RR) {
	for i := len(extra) - 1; i >= 0; i-- {
		if extra[i].Header().Rrtype == dns.TypeOPT {
			opt = extra[i]
			rest = append(append([]dns.RR{}, extra[:i]...), extra[i+1:]...)
			return
		}
	}
	return extra, nil
}

func isPrefix(res, orig []dns.RR) bool {
	if len(res) > len(orig) {
		return false
	}
	for i := range res {
		if res[i] != orig[i] {
			return false
		}
	}
	return true
}

// recItems: per-record Len items of an uncompressed packed message
func recItems(b []byte, w *walked, nq int) (qs, rrs []string) {
	ni := 0
	for i := 0; i < nq && ni < len(w.Names); i++ {
		n := w.Names[ni]
		ni++
		qs = append(qs, "n1:"+hxs(presentLabels(n.Labels))+",gap:4")
	}
	for k := range w.RRStart {
		var it []string
		pos := w.RRStart[k]
		for ni < len(w.Names) && w.Names[ni].Off < w.RREnd[k] {
			n := w.Names[ni]
			ni++
			if n.Off > pos {
				it = append(it, fmt.Sprintf("gap:%d", n.Off-pos))
			}
			f := "n0:"
			if n.Compress {
				f = "n1:"
			}
			it = append(it, f+hxs(presentLabels(n.Labels)))
			pos = n.End
		}
		if w.RREnd[k] > pos {
			it = append(it, fmt.Sprintf("gap:%d", w.RREnd[k]-pos))
		}
		rrs = append(rrs, strings.Join(it, ","))
	}
	return
}

func c09Case(c *Ctx, stream string, orig *dns.Msg, size int, plain, wire bool) {
	m := orig.Copy()
	// Copy gives new records; keep identity through a parallel shallow structure instead
	m.Answer = append([]dns.RR{}, orig.Answer...)
	m.Ns = append([]dns.RR{}, orig.Ns...)
	m.Extra = append([]dns.RR{}, orig.Extra...)
	wasTC := m.Truncated
	S := size
	if S < 512 {
		S = 512
	}
	orig.Compress = false
	ulen := orig.Len()
	exOrig, opt := splitOpt(orig.Extra)
	in := fmt.Sprintf("size=%d msg=%s", size, hx(mustPack(orig, false)))
	// the reply may arrive with either compression setting; Truncate decides for itself
	m.Compress = c.R.Bool()
	in += " compress-before=" + b01(m.Compress)
	out := guard(func() string { m.Truncate(size); return "ok" })
	if out != "ok" {
		c.Pred(stream, "truncate-panics", in, false, out, "ok", true)
		return
	}
	exRes, optRes := splitOpt(m.Extra)
	dropped := len(m.Answer) < len(orig.Answer) || len(m.Ns) < len(orig.Ns) || len(exRes) < len(exOrig)
	nt := dropped
	if dropped {
		c.Hit("dropped")
	} else {
		c.Hit("kept-all")
	}
	c.Pred(stream, "prefixes", in, isPrefix(m.Answer, orig.Answer) && isPrefix(m.Ns, orig.Ns) && isPrefix(exRes, exOrig),
		fmt.Sprint(len(m.Answer), len(m.Ns), len(exRes)), "prefix of each section", nt)
	later := true
	if len(m.Answer) < len(orig.Answer) && (len(m.Ns) > 0 || len(exRes) > 0) {
		later = false
	}
	if len(m.Ns) < len(orig.Ns) && len(exRes) > 0 {
		later = false
	}
	c.Pred(stream, "no-later-after-cut", in, later, fmt.Sprint(len(m.Answer), len(m.Ns), len(exRes)), "later sections empty after a cut", nt)
	c.Pred(stream, "opt-retained", in, (opt == nil && optRes == nil) || (opt != nil && optRes == opt),
		fmt.Sprint(optRes), "OPT kept", nt)
	c.Pred(stream, "tc", in, m.Truncated == (wasTC || dropped), b01(m.Truncated), b01(wasTC || dropped), nt)
	// the whole operation on the octets: the reply decoded by the model, every record measured by the translated len()
	// bodies with Len's simulated compression, truncated by the generic machine — all types, not only plain messages
	if w := mustPack(orig, false); wire && len(w) <= 6000 {
		var back dns.Msg
		if back.Unpack(w) == nil && len(back.Answer) == len(orig.Answer) && len(back.Ns) == len(orig.Ns) && len(back.Extra) == len(orig.Extra) {
			c.OpK(stream, fmt.Sprintf("truncate.wire %d %s", size, hx(w)),
				fmt.Sprintf("%d %d %d %s %s", len(m.Answer), len(m.Ns), len(exRes), b01(m.Truncated), b01(m.Compress)), nt, "truncate-wire")
		}
	}
	if ulen <= S {
		c.Pred(stream, "fits-keeps-all", in, !dropped, "dropped", "all kept", true)
	}
	// size bound whenever header + question + OPT alone fit
	base := &dns.Msg{MsgHdr: orig.MsgHdr, Compress: true, Question: orig.Question}
	if opt != nil {
		base.Extra = []dns.RR{opt}
	}
	// (the length Len predicts for them counts as "fit" too: it is what Truncate itself budgets with, and Len >= Pack)
	// and so does their compressed size measured with a record after them (a root-owned A record, 15 octets), which keeps
	// the packer from skipping compression for a message of questions only
	probe := base.Copy()
	probe.Answer = []dns.RR{&dns.A{Hdr: dns.RR_Header{Name: ".", Rrtype: dns.TypeA, Class: 1}, A: net.IPv4(0, 0, 0, 0).To4()}}
	if bl := packedLen(base); bl >= 0 && (bl <= S || base.Len() <= S || (packedLen(probe) >= 0 && packedLen(probe)-15 <= S)) {
		pl := packedLen(m)
		c.Pred(stream, "fits-size", in, pl >= 0 && pl <= S, fmt.Sprint(pl), fmt.Sprint("<= ", S), nt)
	}
	if plain && dropped {
		// maximality: kept records + the first dropped one do not fit
		t := &dns.Msg{MsgHdr: m.MsgHdr, Compress: true, Question: orig.Question}
		t.Answer, t.Ns = m.Answer, m.Ns
		ex := exRes
		switch {
		case len(m.Answer) < len(orig.Answer):
			t.Answer = orig.Answer[:len(m.Answer)+1]
		case len(m.Ns) < len(orig.Ns):
			t.Ns = orig.Ns[:len(m.Ns)+1]
		default:
			ex = exOrig[:len(exRes)+1]
		}
		t.Extra = append([]dns.RR{}, ex...)
		if opt != nil {
			t.Extra = append(t.Extra, opt)
		}
		pl := packedLen(t)
		c.Pred(stream, "maximal", in, pl > S, fmt.Sprint(pl), fmt.Sprint("> ", S), true)
	}
	if plain {
		// correspondence with the Lean model of Truncate over Len's simulated compression
		o2 := &dns.Msg{MsgHdr: orig.MsgHdr, Question: orig.Question, Answer: orig.Answer, Ns: orig.Ns, Extra: exOrig}
		b0 := mustPack(o2, false)
		w0 := walkMsg(b0)
		if w0.Err == "" {
			qs, rrs := recItems(b0, &w0, len(orig.Question))
			na, nn := len(orig.Answer), len(orig.Ns)
			optLen := "-"
			if opt != nil {
				optLen = fmt.Sprint(dns.Len(opt))
			}
			op := fmt.Sprintf("trunc %d %s %d %s %s | %s | %s | %s", size, b01(wasTC), ulen, optLen,
				strings.Join(qs, " "), strings.Join(rrs[:na], " "), strings.Join(rrs[na:na+nn], " "), strings.Join(rrs[na+nn:], " "))
			c.Op(stream, op, fmt.Sprintf("%d %d %d %s %s", len(m.Answer), len(m.Ns), len(exRes), b01(m.Truncated), b01(m.Compress)), nt)
		}
	}
}

func mustPack(m *dns.Msg, compress bool) []byte {
	old := m.Compress
	m.Compress = compress
	b, _ := m.Pack()
	m.Compress = old
	return b
}

func runC09(c *Ctx) {
	r := c.R
	c.Res.Rule = "replies decoded from generated wire data (with/without OPT, shared and unshared names, all section shapes) x sizes: random 0..65535 and exact-1/exact/exact+1 of the packed length of every record prefix; non-trivial = at least one record dropped; distinct by content"
	n := c.Scale(1500, 40000)
	for i := 0; i < n; i++ {
		plain := r.Chance(60)
		g := genMsg(r, msgOpts{mode: r.Intn(3), plain: plain, pool: r.Chance(70), maxAn: 8, maxNs: 4, maxEx: 4, optPct: 50, response: true})
		if r.Chance(30) {
			// many records so that 512 is exceeded
			g = genMsg(r, msgOpts{mode: r.Intn(2), plain: plain, pool: r.Chance(70), maxAn: 40, maxNs: 10, maxEx: 10, optPct: 50, response: true})
		}
		m, err := unpackGen(g)
		if err != nil {
			c.Pred("gen", "generator", hx(g.Wire), false, err.Error(), "decodes", false)
			continue
		}
		if m.IsTsig() != nil {
			continue
		}
		if r.Chance(10) {
			m.Truncated = true
		} else {
			m.Truncated = false
		}
		// sizes: random plus the exact packed sizes of record prefixes
		sizes := []int{0, 511, 512, 513, r.Intn(65536), r.Intn(2048), 65535}
		exOrig, opt := splitOpt(m.Extra)
		all := append(append(append([]dns.RR{}, m.Answer...), m.Ns...), exOrig...)
		for k := 0; k <= len(all) && k < 30; k += 1 + r.Intn(3) {
			t := &dns.Msg{MsgHdr: m.MsgHdr, Compress: true, Question: m.Question}
			na := min(k, len(m.Answer))
			nn := min(k-na, len(m.Ns))
			ne := k - na - nn
			t.Answer, t.Ns = m.Answer[:na], m.Ns[:nn]
			t.Extra = append([]dns.RR{}, exOrig[:ne]...)
			if opt != nil {
				t.Extra = append(t.Extra, opt)
			}
			if pl := packedLen(t); pl > 0 {
				sizes = append(sizes, pl-1, pl, pl+1)
			}
		}
		// the whole-operation correspondence is the slow part (the model decodes and measures the message anew for each
		// size): one size in four per message, one in eight in the thorough tier, rotating with the message number
		every := 4
		if c.Tier == "thorough" {
			every = 8
		}
		for si, sz := range sizes {
			c09Case(c, "random", m, sz, plain && g.Plain, si%every == i%every)
		}
	}
	// several questions that share a long suffix: the question section alone is over 512 octets uncompressed and under
	// it compressed; records that are all dropped, some dropped, or none
	for i, n := 0, c.Scale(40, 600); i < n; i++ {
		var labels []string
		total := 0
		for total < 150+r.Intn(85) {
			l := strings.Repeat(string(rune('a'+r.Intn(26))), 1+r.Intn(40))
			labels = append(labels, l)
			total += len(l) + 1
		}
		suffix := strings.Join(labels, ".") + "."
		m := new(dns.Msg)
		m.Response = true
		m.Id = uint16(r.Intn(65536))
		nq := 2 + r.Intn(3)
		for k := 0; k < nq; k++ {
			m.Question = append(m.Question, dns.Question{Name: fmt.Sprintf("q%d.%s", k, suffix), Qtype: dns.TypeA, Qclass: 1})
		}
		for k, na := 0, r.Intn(4); k < na; k++ {
			m.Answer = append(m.Answer, &dns.A{Hdr: dns.RR_Header{Name: fmt.Sprintf("q%d.%s", k%nq, suffix), Rrtype: dns.TypeA, Class: 1, Ttl: 60}, A: net.IPv4(192, 0, 2, byte(k)).To4()})
		}
		if r.Chance(40) {
			m.SetEdns0(1232, false)
		}
		for _, sz := range []int{0, 512, 513, 520, 600, 1232, packedLen(m) - 1, packedLen(m)} {
			c09Case(c, "shared-questions", m, sz, false, true)
		}
	}
	// very small replies: no, one or two questions and one or two records in any one section, whose embedded names share a
	// long suffix with the owner — what Pack decides about compressing such a message at all (isCompressible) must be what
	// Truncate budgets with; sizes between the compressed and the uncompressed length
	for i, n := 0, c.Scale(60, 900); i < n; i++ {
		var labels []string
		total := 0
		for total < 150+r.Intn(80) {
			l := strings.Repeat(string(rune('a'+r.Intn(26))), 1+r.Intn(40))
			labels = append(labels, l)
			total += len(l) + 1
		}
		suffix := strings.Join(labels, ".") + "."
		m := new(dns.Msg)
		m.Response = true
		m.Id = uint16(r.Intn(65536))
		nq := i % 3
		for k := 0; k < nq; k++ {
			m.Question = append(m.Question, dns.Question{Name: fmt.Sprintf("q%d.%s", k, suffix), Qtype: dns.TypeSOA, Qclass: 1})
		}
		var rrs []dns.RR
		for k, nr := 0, 1+r.Intn(2); k < nr; k++ {
			h := dns.RR_Header{Name: fmt.Sprintf("o%d.%s", k, suffix), Class: 1, Ttl: 60}
			switch r.Intn(4) {
			case 0:
				h.Rrtype = dns.TypeSOA
				rrs = append(rrs, &dns.SOA{Hdr: h, Ns: "ns." + suffix, Mbox: "h." + suffix, Serial: 1, Refresh: 2, Retry: 3, Expire: 4, Minttl: 5})
			case 1:
				h.Rrtype = dns.TypeMX
				rrs = append(rrs, &dns.MX{Hdr: h, Preference: 10, Mx: "mx." + suffix})
			case 2:
				h.Rrtype = dns.TypeNS
				rrs = append(rrs, &dns.NS{Hdr: h, Ns: "ns." + suffix})
			default:
				h.Rrtype = dns.TypeCNAME
				rrs = append(rrs, &dns.CNAME{Hdr: h, Target: "c." + suffix})
			}
		}
		sec := (i / 3) % 3
		switch sec {
		case 0:
			m.Answer = rrs
		case 1:
			m.Ns = rrs
		default:
			m.Extra = rrs
		}
		if r.Chance(30) {
			m.SetEdns0(1232, false)
		}
		c.Hit(fmt.Sprintf("few-items:nq=%d,sec=%d,rrs=%d", nq, sec, len(rrs)))
		ul := len(mustPack(m, false))
		pl := packedLen(m)
		for _, sz := range []int{0, 512, 513, pl - 1, pl, pl + 1, (pl + ul) / 2, ul - 1, ul} {
			c09Case(c, "few-items", m, sz, false, true)
		}
	}
	// header, question and OPT record alone fill the budget to the octet, leave a few octets, or exceed it by a few: a
	// long question name and an OPT record with a padding option; nothing else fits, the OPT record must stay
	for i, n := 0, c.Scale(12, 200); i < n; i++ {
		var labels []string
		total := 0
		want := 120 + r.Intn(130)
		for total < want {
			l := strings.Repeat(string(rune('a'+r.Intn(26))), 1+r.Intn(min(50, want-total+1)))
			labels = append(labels, l)
			total += len(l) + 1
		}
		qname := strings.Join(labels, ".") + "."
		size := []int{512, 0, 300, 700, 1232}[r.Intn(5)]
		S := max(size, 512)
		for _, slack := range []int{-3, -1, 0, 1, 2, 11, 12, 30} {
			m := new(dns.Msg)
			m.SetQuestion(qname, dns.TypeA)
			m.Response = true
			m.Id = uint16(r.Intn(65536))
			for k, na := 0, 1+r.Intn(3); k < na; k++ {
				m.Answer = append(m.Answer, &dns.A{Hdr: dns.RR_Header{Name: qname, Rrtype: dns.TypeA, Class: 1, Ttl: 60}, A: net.IPv4(192, 0, 2, byte(k)).To4()})
			}
			if r.Bool() {
				m.Ns = append(m.Ns, &dns.NS{Hdr: dns.RR_Header{Name: qname, Rrtype: dns.TypeNS, Class: 1, Ttl: 60}, Ns: "ns." + qname})
			}
			hq := 12 + len(qname) + 1 + 4
			pad := S - slack - hq - 11 - 4
			if pad < 0 {
				continue
			}
			opt := &dns.OPT{Hdr: dns.RR_Header{Name: ".", Rrtype: dns.TypeOPT}}
			opt.SetUDPSize(uint16(S))
			opt.Option = append(opt.Option, &dns.EDNS0_PADDING{Padding: make([]byte, pad)})
			if r.Bool() {
				m.Extra = append(m.Extra, &dns.A{Hdr: dns.RR_Header{Name: "x." + qname[len(labels[0])+1:], Rrtype: dns.TypeA, Class: 1, Ttl: 60}, A: net.IPv4(192, 0, 2, 99).To4()})
			}
			m.Extra = append(m.Extra, opt)
			c.Hit(fmt.Sprintf("opt-fills-budget:slack=%d", slack))
			c09Case(c, "opt-fills-budget", m, size, false, true)
		}
	}
}
