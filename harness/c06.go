package main

import (
	"fmt"
	"os"
	"path/filepath"
	"strings"
	"testing/fstest"

	"github.com/miekg/dns"
)

func init() { props["C06"] = runC06 }

// abstract entries of a zone file
type zline struct {
	kind     string // rr | ttl | origin | empty
	owner    string // "" = omitted; otherwise relative or absolute or "@"
	ttl      int    // -1 = omitted
	cls      int    // -1 = omitted
	ttlFirst bool
	typ      uint16
	rdata    []string // RDATA tokens (presentation), names may be relative
	val      int      // $TTL value
	name     string   // $ORIGIN name
}

var zTypes = []uint16{dns.TypeA, dns.TypeMX, dns.TypeNS, dns.TypeTXT, dns.TypeSOA, dns.TypeSRV, dns.TypeCNAME, dns.TypeAAAA}

func genZoneRdata(r *Rng, typ uint16) []string {
	rel := func() string {
		return []string{"mail", "ns1.sub", "host.example.net.", "@", "a.b.c", "end\\.", "abs\\\\."}[r.Intn(7)]
	}
	switch typ {
	case dns.TypeA:
		return []string{fmt.Sprintf("192.0.2.%d", r.Intn(256))}
	case dns.TypeAAAA:
		return []string{fmt.Sprintf("2001:db8::%x", r.Intn(65536))}
	case dns.TypeMX:
		return []string{fmt.Sprint(r.Intn(100)), rel()}
	case dns.TypeNS, dns.TypeCNAME:
		return []string{rel()}
	case dns.TypeTXT:
		return []string{fmt.Sprintf("\"t%d x\"", r.Intn(100)), fmt.Sprintf("w%d", r.Intn(100))}
	case dns.TypeSOA:
		return []string{rel(), rel(), fmt.Sprint(r.Intn(1 << 31)), "7200", "3600", "1209600", "300"}
	case dns.TypeSRV:
		return []string{"10", "20", fmt.Sprint(r.Intn(65536)), rel()}
	}
	return nil
}

func genZone(r *Rng) []zline {
	var ls []zline
	n := 1 + r.Intn(8)
	haveOwner := false
	for i := 0; i < n; i++ {
		switch r.Intn(12) {
		case 0:
			ls = append(ls, zline{kind: "ttl", val: r.Intn(100000)})
		case 1:
			ls = append(ls, zline{kind: "origin", name: []string{"sub", "other.example.", "x.y", "example.org."}[r.Intn(4)]})
		case 2:
			ls = append(ls, zline{kind: "empty"})
		default:
			l := zline{kind: "rr", ttl: -1, cls: -1, ttlFirst: r.Bool()}
			if !haveOwner || r.Chance(70) {
				l.owner = []string{"www", "@", "a.b", "host.example.com.", "mail", "x", "dot\\.", "bs\\\\.", "e\\.f"}[r.Intn(9)]
				haveOwner = true
			}
			if r.Chance(55) {
				l.ttl = []int{0, 1, 60, 3600, 86400, 604800, 4294967295}[r.Intn(7)]
			}
			if r.Chance(45) {
				l.cls = []int{1, 1, 3, 4}[r.Intn(4)]
			}
			l.typ = zTypes[r.Intn(len(zTypes))]
			l.rdata = genZoneRdata(r, l.typ)
			ls = append(ls, l)
		}
	}
	return ls
}

func ttlText(r *Rng, v int, plain bool) string {
	if plain || r.Bool() {
		return fmt.Sprint(v)
	}
	// unit spelling
	var sb strings.Builder
	rem := v
	for _, u := range []struct {
		s string
		n int
	}{{"w", 604800}, {"d", 86400}, {"h", 3600}, {"m", 60}} {
		if rem >= u.n && r.Bool() {
			fmt.Fprintf(&sb, "%d%s", rem/u.n, []string{u.s, strings.ToUpper(u.s)}[r.Intn(2)])
			rem %= u.n
		}
	}
	if rem > 0 || sb.Len() == 0 {
		fmt.Fprintf(&sb, "%d", rem)
		if r.Bool() {
			sb.WriteString([]string{"s", "S"}[r.Intn(2)])
		}
	}
	return sb.String()
}

// render one abstract zone as text; style 0 = canonical one entry per line
func renderZone(r *Rng, ls []zline, style int, parenNewlineOnly bool) string {
	var sb strings.Builder
	sep := func() string {
		if style == 0 {
			return " "
		}
		return []string{" ", "\t", "  ", " \t "}[r.Intn(4)]
	}
	eol := func() string {
		s := ""
		if style != 0 && r.Chance(25) {
			// a comment starts at the semicolon, with or without a blank in front of it (RFC 1035 5.1)
			if !r.Chance(30) {
				s += sep()
			}
			s += "; a comment ( with ) \" odd things"
		}
		if style != 0 && r.Chance(15) {
			return s + "\r\n"
		}
		return s + "\n"
	}
	kw := func(s string) string {
		if style == 0 {
			return s
		}
		return randCase(r, s)
	}
	for _, l := range ls {
		if style != 0 && r.Chance(15) {
			sb.WriteString([]string{"\n", "   \n", "; only a comment\n", "\t; indented comment\n"}[r.Intn(4)])
		}
		switch l.kind {
		case "empty":
			sb.WriteString(eol())
		case "ttl":
			sb.WriteString(kw("$TTL") + sep() + ttlText(r, l.val, style == 0) + eol())
		case "origin":
			sb.WriteString(kw("$ORIGIN") + sep() + l.name + eol())
		case "rr":
			if l.owner != "" {
				sb.WriteString(l.owner)
			}
			sb.WriteString(sep())
			// the parenthesis may open right after the owner: TTL, class and type can then sit on lines of their own,
			// each possibly followed by a comment
			early := style != 0 && !parenNewlineOnly && r.Chance(20)
			hsep := sep
			if early {
				sb.WriteString("(" + sep())
				hsep = func() string {
					if r.Chance(50) {
						return sep()
					}
					s := ""
					if r.Bool() {
						s = sep()
					}
					if r.Chance(60) {
						s += ";h" + fmt.Sprint(r.Intn(10))
					}
					return s + "\n" + sep()
				}
			}
			tt, cc := "", ""
			if l.ttl >= 0 {
				tt = ttlText(r, l.ttl, style == 0) + hsep()
			}
			if l.cls >= 0 {
				cc = kw(dns.Class(l.cls).String()) + hsep()
			}
			if l.ttlFirst {
				sb.WriteString(tt + cc)
			} else {
				sb.WriteString(cc + tt)
			}
			sb.WriteString(kw(dns.Type(l.typ).String()))
			paren := early || (style != 0 && len(l.rdata) >= 2 && r.Chance(50))
			if paren && !early {
				sb.WriteString(sep() + "(")
			}
			if early && len(l.rdata) > 0 && r.Chance(40) {
				// a comment right behind the type mnemonic
				sb.WriteString(";t\n")
			}
			for i, tok := range l.rdata {
				if paren && (i > 0 || r.Bool()) && r.Chance(60) {
					// a line break inside the parentheses, optionally after a comment
					if r.Chance(30) && !parenNewlineOnly {
						sb.WriteString([]string{" ; c", ";c", " ;c"}[r.Intn(3)] + fmt.Sprint(i))
					}
					sb.WriteString("\n")
					if !parenNewlineOnly {
						sb.WriteString(sep())
					}
				} else {
					sb.WriteString(sep())
				}
				sb.WriteString(tok)
			}
			if paren {
				if r.Bool() {
					sb.WriteString("\n" + sep())
				} else {
					sb.WriteString(sep())
				}
				sb.WriteString(")")
			}
			sb.WriteString(eol())
		}
	}
	out := sb.String()
	if style != 0 && r.Chance(20) {
		out = strings.TrimRight(out, "\r\n") // missing final newline
	}
	return out
}

func parseZone(text, origin string, defTTL int, fsys fstest.MapFS) ([]string, string) {
	var out []string
	res := guard(func() string {
		zp := dns.NewZoneParser(strings.NewReader(text), origin, "zone.db")
		if defTTL >= 0 {
			zp.SetDefaultTTL(uint32(defTTL))
		}
		if fsys != nil {
			zp.SetIncludeAllowed(true)
			zp.SetIncludeFS(fsys)
		}
		n := 0
		for rr, ok := zp.Next(); ok; rr, ok = zp.Next() {
			out = append(out, rr.String())
			n++
			if n > 200000 {
				return "runaway"
			}
		}
		if err := zp.Err(); err != nil {
			return "err: " + err.Error()
		}
		return "ok"
	})
	return out, res
}

func hdrsOf(rrs []string) string {
	var hs []string
	for _, s := range rrs {
		f := strings.SplitN(s, "\t", 5)
		if len(f) < 4 {
			continue
		}
		rr, _ := dns.NewRR(s)
		if rr == nil {
			continue
		}
		h := rr.Header()
		hs = append(hs, fmt.Sprintf("%s:%d:%d:%d", hxs(h.Name), h.Ttl, h.Class, h.Rrtype))
	}
	return strings.Join(hs, " ")
}

func runC06(c *Ctx) {
	r := c.R
	c.Res.Rule = "abstract entry lists (six header shapes, $TTL / $ORIGIN, blank lines) x equivalent renderings (separators, keyword case, TTL units, comments, blank and comment-only lines, parentheses with line breaks, CRLF, missing final newline) x parser options; TTL tokens; $GENERATE ranges / steps / modifiers; include trees; distinct by content"
	// 1. TTL tokens
	n := c.Scale(4000, 100000)
	for i := 0; i < n; i++ {
		var tok string
		switch r.Intn(6) {
		case 0:
			tok = ttlText(r, r.Intn(1<<31), false)
		case 1:
			tok = fmt.Sprint(r.U64()) + []string{"", "0", "99", "w", "s"}[r.Intn(5)]
		case 2:
			tok = []string{"4294967295", "4294967296", "18446744073709551615", "18446744073709551616", "18446744073709551617", "6w6d23h59m", "7101w", "7102w", "49710d", "49711d", "", "s", "1s1", "1x", "-1", "1.5h", "０"}[r.Intn(17)]
		default:
			k := 1 + r.Intn(6)
			var sb strings.Builder
			for j := 0; j < k; j++ {
				fmt.Fprintf(&sb, "%d%s", r.Intn([]int{10, 1000, 100000, 5000000000}[r.Intn(4)]), []string{"", "s", "m", "h", "d", "w", "W", "H"}[r.Intn(8)])
			}
			tok = sb.String()
		}
		v, ok := dns.VerifStringToTTL(tok)
		got := "err"
		if ok {
			got = fmt.Sprintf("ok %d", v)
		}
		c.Op("ttl", "ttl "+hxs(tok), got, len(tok) > 1)
		c.OpK("ttl", "spec.ttl "+hxs(tok), got, len(tok) > 1, "ttl-vs-spec")
	}
	// 2. $GENERATE byte stream
	n = c.Scale(3000, 80000)
	frag := []string{"$", "$$", "${0,3,d}", "${1,0,x}", "${-1,2,o}", "${10,4,X}", "${0}", "${5,2}", "${,}", "${0,256,d}", "${0,1,q}", "${1,2,d,4}", "${", "\\$", "\\\\", "\\.", "\\\"", "\\065", "a", ".", " ", "host-", "IN A 10.0.0.", "\""}
	for i := 0; i < n; i++ {
		var sb strings.Builder
		for j := 0; j < 1+r.Intn(6); j++ {
			sb.WriteString(frag[r.Intn(len(frag))])
		}
		start := int64(r.Intn(20))
		stop := start + int64(r.Intn(6))
		step := int64(1 + r.Intn(3))
		if r.Chance(5) {
			start, stop = int64(r.Intn(5)), int64(2147483640+r.Intn(10))
			step = 1 << 30
		}
		if r.Chance(3) {
			start, stop, step = 9223372036854775800, 9223372036854775807, int64(1+r.Intn(10))
		}
		b, perr := dns.VerifGenerate(start, stop, step, sb.String())
		got := "ok " + hx(b)
		if perr != "" {
			got = "err"
		}
		c.Op("generate-stream", fmt.Sprintf("gen.stream %d %d %d %s", start, stop, step, hxs(sb.String())), got, strings.Contains(sb.String(), "$"))
	}
	// 3. zones: header inheritance vs the Lean machine and specification, and rendering invariance
	n = c.Scale(1500, 40000)
	for i := 0; i < n; i++ {
		ls := genZone(r)
		origin := []string{"example.org.", "", ".", "Zone.Example."}[r.Intn(4)]
		defTTL := []int{-1, 3600, 0}[r.Intn(3)]
		canon := renderZone(r, ls, 0, false)
		recs, res := parseZone(canon, origin, defTTL, nil)
		// model input
		var args []string
		for _, l := range ls {
			switch l.kind {
			case "empty":
				args = append(args, "empty")
			case "ttl":
				args = append(args, fmt.Sprintf("ttl:%d", l.val))
			case "origin":
				args = append(args, "origin:"+hxs(l.name))
			case "rr":
				o, t, cl := "-", "-", "-"
				if l.owner != "" {
					o = hxs(l.owner)
				}
				if l.ttl >= 0 {
					t = fmt.Sprint(l.ttl)
				}
				if l.cls >= 0 {
					cl = fmt.Sprint(l.cls)
				}
				args = append(args, fmt.Sprintf("rr:%s:%s:%s:%s:%d", o, t, cl, b01(l.ttlFirst), l.typ))
			}
		}
		dt := "-"
		if defTTL >= 0 {
			dt = fmt.Sprint(defTTL)
		}
		got := "ok " + hdrsOf(recs)
		if res != "ok" {
			got = "err " + hdrsOf(recs)
		}
		op := fmt.Sprintf("%s %s %s", strOrDash(hxs(origin)), dt, strings.Join(args, " "))
		nt := len(recs) > 1
		if strings.HasPrefix(got, "ok") {
			c.Hit("zone:accepted")
			c.Op("zone", "zone.run "+op, strings.TrimSpace(got), nt)
			c.OpK("zone", "spec.zone "+op, strings.TrimSpace(got), nt, "zone-vs-rfc1035")
		} else {
			c.Hit("zone:rejected")
			// the first error may come from RDATA (relative name without origin), which the header model does not see:
			// compare only when the model also rejects or the error is a header error
		}
		// renderings
		for k := 0; k < 4; k++ {
			txt := renderZone(r, ls, 1, false)
			recs2, res2 := parseZone(txt, origin, defTTL, nil)
			same := (res == "ok") == (res2 == "ok") && strings.Join(recs, "\n") == strings.Join(recs2, "\n")
			if res != "ok" {
				same = res2 != "ok" // both rejected (positions differ)
			}
			c.Pred("renderings", "rendering-invariant", "zone="+hxs(txt), same, res2+" "+hdrsOf(recs2), res+" "+hdrsOf(recs), nt)
		}
		// known finding F11: a newline as the only separator between two tokens inside parentheses
		if i%5 == 0 {
			txt := renderZone(r, ls, 1, true)
			recs2, res2 := parseZone(txt, origin, defTTL, nil)
			same := (res == "ok") == (res2 == "ok") && (res != "ok" || strings.Join(recs, "\n") == strings.Join(recs2, "\n"))
			c.Pred("paren-newline", "paren-newline-only-separator", "zone="+hxs(txt), same, res2, res, nt)
		}
	}
	// 3a. comment lengths: comments of every length around the lexer's buffer steps, inside parentheses (where comment
	//     text is carried over the line break), one or several before the next token; the records must be those of the
	//     same text without comments.  The key names the accumulated comment length modulo the buffer step when a
	//     later comment starts, so that a failure at one particular length is told apart from any other.
	{
		plain, pres := parseZone("a 1 IN TXT ( x \n y \n )\n", "example.org.", -1, nil)
		one := func(lens []int) {
			var sb strings.Builder
			sb.WriteString("a 1 IN TXT ( x ")
			acc, at511 := 0, false
			// the lexer puts a blank in front of a further comment only when more than one octet has been gathered
			for _, k := range lens {
				if acc > 1 {
					if (acc+1)%512 == 0 {
						at511 = true
					}
					acc++
				}
				sb.WriteString(";" + strings.Repeat("c", k) + "\n ")
				acc += 1 + k
			}
			if acc > 1 && (acc+1)%512 == 0 {
				at511 = true
			}
			sb.WriteString("y ;d\n )\n")
			recs, res := parseZone(sb.String(), "example.org.", -1, nil)
			key := "comment-length:other"
			if at511 {
				key = "comment-length:acc511"
			}
			same := res == pres && strings.Join(recs, "\n") == strings.Join(plain, "\n")
			c.Pred("comment-length", key, fmt.Sprint("comment lengths ", lens), same, res+" "+hdrsOf(recs), pres+" "+hdrsOf(plain), true)
		}
		for k := 0; k <= 1100; k++ {
			one([]int{k})
		}
		for i := 0; i < c.Scale(300, 6000); i++ {
			a := r.Intn(600)
			one([]int{a, []int{508 - a, 509 - a, 510 - a, 1021 - a, r.Intn(600)}[r.Intn(5)] & 0x7ff})
			one([]int{r.Intn(300), r.Intn(300), r.Intn(300)})
		}
	}
	// 3b. $INCLUDE = inlining: any run of entries moved into an included file (no $ORIGIN inside it, explicit owners
	//     at the seams) gives the same records; TTL state ($TTL and last explicit TTL) flows in and out
	for i := 0; i < c.Scale(2500, 50000); i++ {
		ls := genZone(r)
		for k := range ls {
			if ls[k].kind == "rr" && ls[k].owner == "" {
				ls[k].owner = []string{"www", "@", "mail"}[r.Intn(3)]
			}
		}
		a := r.Intn(len(ls) + 1)
		b := a + r.Intn(len(ls)-a+1)
		hasOrigin := false
		for _, l := range ls[a:b] {
			if l.kind == "origin" {
				hasOrigin = true
			}
		}
		// TTL state flows into the included file but (the sub-parser gets a copy of the pointer) not back out, so the
		// comparison is made where that is not observable: no $TTL inside the part, and either a $TTL directive is
		// already in force (then explicit TTLs never become the default) or the part states no TTL at all
		ttlInside, explicitInside, directiveBefore := false, false, false
		for _, l := range ls[a:b] {
			if l.kind == "ttl" {
				ttlInside = true
			}
			if l.kind == "rr" && l.ttl >= 0 {
				explicitInside = true
			}
		}
		for _, l := range ls[:a] {
			if l.kind == "ttl" {
				directiveBefore = true
			}
		}
		if hasOrigin || ttlInside || (explicitInside && !directiveBefore) {
			continue
		}
		origin := []string{"example.org.", "Zone.Example."}[r.Intn(2)]
		defTTL := []int{-1, 3600, 0}[r.Intn(3)]
		whole := renderZone(r, ls, 0, false)
		recs, res := parseZone(whole, origin, defTTL, nil)
		mainTxt := renderZone(r, ls[:a], 0, false) + "$INCLUDE part.db\n" + renderZone(r, ls[b:], 0, false)
		fsys := fstest.MapFS{"part.db": {Data: []byte(renderZone(r, ls[a:b], 0, false))}}
		recs2, res2 := parseZone(mainTxt, origin, defTTL, fsys)
		same := (res == "ok") == (res2 == "ok") && (res != "ok" || strings.Join(recs, "\n") == strings.Join(recs2, "\n"))
		c.Pred("include", "include-is-inlining", "main="+hxs(mainTxt)+" part="+hxs(string(fsys["part.db"].Data)), same,
			res2+" "+hdrsOf(recs2), res+" "+hdrsOf(recs), len(recs) > 1 && b > a)
	}
	// 4. $GENERATE end to end = the expanded lines parsed one by one
	for i := 0; i < c.Scale(300, 6000); i++ {
		start, stop, step := r.Intn(10), 0, 1+r.Intn(3)
		stop = start + r.Intn(7)
		lhs := []string{"h$", "$.sub", "x-${0,3,d}", "a${1,2,x}b", "n$$"}[r.Intn(5)]
		rhs := []string{"A 10.0.0.$", "MX $ mail-$.example.", "TXT \"n=$ ${0,4,X}\"", "CNAME h${2}.other.", "PTR ${0,3,o}.rev."}[r.Intn(5)]
		zone := fmt.Sprintf("$ORIGIN example.org.\n$TTL 300\n$GENERATE %d-%d/%d %s %s\n", start, stop, step, lhs, rhs)
		recs, res := parseZone(zone, "", -1, nil)
		// expectation: substitute by the specification (decimal / width / base) and parse line by line
		var want []string
		okExp := true
		for cur := start; cur <= stop; cur += step {
			line, ok := substGenerate(lhs+" "+rhs, cur)
			if !ok {
				okExp = false
				break
			}
			w, resw := parseZone("$ORIGIN example.org.\n$TTL 300\n"+line+"\n", "", -1, nil)
			// the expanded line written in place: same owner, same TTL in force ($TTL 300), same RDATA
			if resw != "ok" || len(w) != 1 {
				okExp = false
				break
			}
			want = append(want, w[0])
		}
		if okExp {
			c.Pred("generate", "generate-expands", zone, res == "ok" && strings.Join(recs, "\n") == strings.Join(want, "\n"), res+" "+strings.Join(recs, " | "), strings.Join(want, " | "), true)
			c.Pred("generate", "generate-count", zone, len(recs) == (stop-start)/step+1, fmt.Sprint(len(recs)), fmt.Sprint((stop-start)/step+1), true)
		}
	}
	// 5. $INCLUDE: records under the stated origin, includer's origin unchanged, default TTL inherited
	for i := 0; i < c.Scale(100, 2000); i++ {
		sub := []string{"sub.example.org.", "other.", ""}[r.Intn(3)]
		inc := "inc A 192.0.2.1\n@ NS ns\n"
		fs := fstest.MapFS{"inc.db": {Data: []byte(inc)}, "dir/deep.db": {Data: []byte("deep TXT \"d\"\n")}}
		main := "$ORIGIN example.org.\n$TTL 1234\nbefore A 192.0.2.9\n$INCLUDE inc.db " + sub + "\nafter A 192.0.2.10\n"
		recs, res := parseZone(main, "", -1, fs)
		incOrigin := sub
		if sub == "" {
			incOrigin = "example.org."
		}
		want := []string{
			"before.example.org.\t1234\tIN\tA\t192.0.2.9",
			"inc." + incOrigin + "\t1234\tIN\tA\t192.0.2.1",
			incOrigin + "\t1234\tIN\tNS\tns." + incOrigin,
			"after.example.org.\t1234\tIN\tA\t192.0.2.10",
		}
		c.Pred("include", "include-scoping", main, res == "ok" && strings.Join(recs, "\n") == strings.Join(want, "\n"), res+" "+strings.Join(recs, " | "), strings.Join(want, " | "), true)
	}
	// 5b. include trees: a relative $INCLUDE names a file next to the file that contains the directive, at every depth
	{
		fs := fstest.MapFS{
			"sub/a.db":        {Data: []byte("a TXT \"sub/a\"\n$INCLUDE b.db\n")},
			"sub/b.db":        {Data: []byte("b TXT \"sub/b\"\n$INCLUDE c.db\n$INCLUDE deeper/d.db\n")},
			"sub/c.db":        {Data: []byte("c TXT \"sub/c\"\n")},
			"sub/deeper/d.db": {Data: []byte("d TXT \"sub/deeper/d\"\n$INCLUDE e.db\n")},
			"sub/deeper/e.db": {Data: []byte("e TXT \"sub/deeper/e\"\n")},
			// decoys: what a resolution against the wrong directory would find
			"b.db":     {Data: []byte("b TXT \"root/b\"\n")},
			"c.db":     {Data: []byte("c TXT \"root/c\"\n")},
			"e.db":     {Data: []byte("e TXT \"root/e\"\n")},
			"sub/e.db": {Data: []byte("e TXT \"sub/e\"\n")},
			"d.db":     {Data: []byte("d TXT \"root/d\"\n")},
		}
		main := "$ORIGIN example.org.\n$TTL 60\n$INCLUDE sub/a.db\nz TXT \"main\"\n"
		recs, res := parseZone(main, "", -1, fs)
		var got []string
		for _, s := range recs {
			f := strings.Split(s, "\t")
			got = append(got, f[len(f)-1])
		}
		want := []string{`"sub/a"`, `"sub/b"`, `"sub/c"`, `"sub/deeper/d"`, `"sub/deeper/e"`, `"main"`}
		c.Pred("include", "include-tree-relative-paths", main, res == "ok" && strings.Join(got, " ") == strings.Join(want, " "),
			res+" "+strings.Join(got, " "), strings.Join(want, " "), true)
	}
	// the value of a directive is a name whatever it spells: a blank or a comment behind it, or a spelling that is also a
	// type / class mnemonic or begins with TYPE / CLASS, does not change what the directive does
	{
		fsys := fstest.MapFS{"db.a": {Data: []byte("w A 10.0.0.1\n")}}
		owners := func(z string) string {
			recs, res := parseZone(z, "example.org.", 60, fsys)
			var o []string
			for _, s := range recs {
				o = append(o, strings.SplitN(s, "\t", 2)[0])
			}
			return res + " " + strings.Join(o, " ")
		}
		for _, tc := range []struct{ key, zone, want string }{
			{"directive-value:origin-plain-trailing-blank", "$ORIGIN sub.example. \nw A 10.0.0.1\n", "ok w.sub.example."},
			{"directive-value:origin-type-prefix", "$ORIGIN typescript.example.\nw A 10.0.0.1\n", "ok w.typescript.example."},
			{"directive-value:origin-type-prefix-trailing-blank", "$ORIGIN typescript.example. \nw A 10.0.0.1\n", "ok w.typescript.example."},
			{"directive-value:origin-class-prefix-comment", "$ORIGIN classic.example. ; c\nw A 10.0.0.1\n", "ok w.classic.example."},
			{"directive-value:include-origin-plain", "$INCLUDE db.a sub\n", "ok w.sub.example.org."},
			{"directive-value:include-origin-mnemonic", "$INCLUDE db.a mx\n", "ok w.mx.example.org."},
		} {
			got := owners(tc.zone)
			c.Pred("directives", tc.key, "zone="+hxs(tc.zone), got == tc.want, got, tc.want, true)
		}
	}
	// no TTL stated anywhere and no default configured: whether the class is written or omitted, and whether the owner is
	// written or repeated, does not change the result — the record is refused for want of a TTL
	for _, z := range []string{"foo A 192.0.2.1\n", "foo IN A 192.0.2.1\n", "foo CH A 192.0.2.1\n", "foo A 192.0.2.1\n  IN A 192.0.2.2\n", "foo IN A 192.0.2.1\n foo2 A 192.0.2.2\n", "foo IN ( A 192.0.2.1 )\n"} {
		recs, res := parseZone("$ORIGIN example.org.\n"+z, "", -1, nil)
		key := "missing-ttl-refused:class-omitted"
		if strings.Contains(z, " IN ") || strings.Contains(z, " CH ") {
			key = "missing-ttl-refused:class-written" // known finding F35: accepted with TTL 0, pinned by the suite
		}
		c.Pred("ttl", key, "zone="+hxs(z), strings.HasPrefix(res, "err") && len(recs) == 0, res+" "+strings.Join(recs, " | "), "error: missing TTL", true)
	}
	// the lines a $GENERATE expands to take an omitted TTL like any other line: the $TTL value, else the most recently
	// stated TTL, else the configured default
	for _, tc := range []struct {
		zone string
		def  int
		want string
	}{{"$TTL 300\n$GENERATE 1-2 h$ A 10.0.0.$\n", -1, "300 300"}, {"$TTL 300\n$GENERATE 1-2 h$ A 10.0.0.$\n", 900, "300 300"},
		{"x 77 A 192.0.2.1\n$GENERATE 1-2 h$ A 10.0.0.$\n", -1, "77 77 77"}, {"$GENERATE 1-2 h$ A 10.0.0.$\n", 900, "900 900"},
		{"$TTL 300\n$GENERATE 1-2 h$ 55 A 10.0.0.$\ny A 192.0.2.2\n", -1, "55 55 300"}, {"$TTL 1h\nx 77 A 192.0.2.1\n$GENERATE 1-1 h$ A 10.0.0.$\n", 900, "77 3600"}} {
		recs, res := parseZone("$ORIGIN example.org.\n"+tc.zone, "", tc.def, nil)
		var ttls []string
		for _, s := range recs {
			f := strings.Split(s, "\t")
			if len(f) > 1 {
				ttls = append(ttls, f[1])
			}
		}
		c.Pred("generate", "generated-lines-take-the-ttl-in-force", fmt.Sprintf("default=%d zone=%s", tc.def, hxs(tc.zone)), res == "ok" && strings.Join(ttls, " ") == tc.want,
			res+" "+strings.Join(ttls, " "), tc.want, true)
	}
	// an $INCLUDE line that a $GENERATE expands to names its file in the configured file system like any other: the same
	// path exists on disk with other content, which must not be what is read
	{
		dir, derr := os.MkdirTemp("", "verif-c06-")
		if derr == nil {
			disk := filepath.Join(dir, "inc.db")
			_ = os.WriteFile(disk, []byte("where TXT \"disk\"\n"), 0o644)
			fsys := fstest.MapFS{strings.TrimPrefix(disk, "/"): {Data: []byte("where TXT \"fs\"\n")}}
			for _, tc := range []struct {
				line string
				n    int
			}{{"$INCLUDE " + disk, 1}, {"$GENERATE 1-1 \\$INCLUDE " + disk, 1}, {"$GENERATE 3-4 \\$INCLUDE " + disk, 2}, {"$GENERATE 1-1 \\$INCLUDE " + disk + " other.org.", 1}} {
				main := "$ORIGIN example.org.\n$TTL 60\n" + tc.line + "\nz TXT \"main\"\n"
				recs, res := parseZone(main, "", -1, fsys)
				var got []string
				for _, s := range recs {
					f := strings.Split(s, "\t")
					got = append(got, f[len(f)-1])
				}
				var want []string
				for k := 0; k < tc.n; k++ {
					want = append(want, `"fs"`)
				}
				want = append(want, `"main"`)
				c.Pred("include", "include-from-generate-uses-the-include-fs", tc.line, res == "ok" && strings.Join(got, " ") == strings.Join(want, " "),
					res+" "+strings.Join(got, " "), strings.Join(want, " "), true)
			}
			os.RemoveAll(dir)
		}
	}
	// the lexer model against zlexer.Next, token by token
	lexStream(c, c.Scale(3000, 60000))
	// whole texts read at header level by the model (lexer, abstract tokens, header machine) and by the parser
	zoneTextStream(c, c.Scale(1500, 30000))
	// $INCLUDE on the model: the records of an included file stand where the directive stands, read with the origin and
	// default TTL in force there; the including file carries on with its own
	includeTreeStream(c, "include-tree", c.Scale(400, 8000))
}

// substGenerate: independent expansion of $ / $$ / ${offset,width,base} / \$ for one iterator value
func substGenerate(t string, cur int) (string, bool) {
	var sb strings.Builder
	for i := 0; i < len(t); i++ {
		switch {
		case t[i] == '\\' && i+1 < len(t) && (t[i+1] == '$' || t[i+1] == '\\'):
			sb.WriteByte(t[i+1])
			i++
		case t[i] == '$' && i+1 < len(t) && t[i+1] == '$':
			sb.WriteByte('$')
			i++
		case t[i] == '$' && i+1 < len(t) && t[i+1] == '{':
			end := strings.IndexByte(t[i:], '}')
			if end < 0 {
				return "", false
			}
			f := strings.Split(t[i+2:i+end], ",")
			off, width, base := 0, 0, "d"
			fmt.Sscan(f[0], &off)
			if len(f) > 1 {
				fmt.Sscan(f[1], &width)
			}
			if len(f) > 2 {
				base = f[2]
			}
			sb.WriteString(fmt.Sprintf("%0*"+base, width, cur+off))
			i += end
		case t[i] == '$':
			sb.WriteString(fmt.Sprint(cur))
		default:
			sb.WriteByte(t[i])
		}
	}
	return sb.String(), true
}
