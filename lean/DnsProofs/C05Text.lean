/-
  C05 (text algebra) — the hand-written RDATA parsers and printers that use only the algebra's idioms (translated from
  scan_rr.go / types.go on every run) are inverse to each other through the lexer: for every covered type and all field
  values that can come from the wire, parsing the printed RDATA text gives back the values.
-/
import DnsModel.TextCodec
import DnsModel.Generated.TextPlans
import DnsProofs.C05Txt
import DnsProofs.C03Valid
import DnsProofs.C01Opt
import DnsProofs.C05Hex
import DnsProofs.C05Ip
import DnsProofs.C05Itoa
import DnsProofs.C05Types
namespace Dns.C05X
open Dns Dns.Lex Dns.TxtParse Dns.TextCodec Dns.C07 Dns.C06T Dns.C05L Dns.C05T Dns.C03 Dns.C05H

theorem parseUintN_digits (bits : Nat) (ds : Bytes) (hd : Digits ds) (hv : decVal ds < 2 ^ bits) :
    parseUintN bits ds = some (decVal ds) := by
  unfold parseUintN
  have h1 : ds.isEmpty = false := by
    cases ds with
    | nil => exact absurd rfl hd.1
    | cons _ _ => rfl
  have h2 : (ds.all fun b => decide (48 ≤ b.toNat ∧ b.toNat ≤ 57)) = true := hd.2
  simp only [h1, h2, Bool.not_true, Bool.false_eq_true, or_self, ↓reduceIte]
  unfold decVal at hv
  simp only [hv, ↓reduceIte, decVal]

/-! ### names: printing and completing a name in the library's spelling changes nothing -/

theorem toAbsoluteName_present (ls : List Bytes) (hok : WireNameOK ls) (origin : Bytes) :
    toAbsoluteName (presentOf ls) origin = some (presentOf ls) := by
  have hfq := C01O.isFqdn_presentOf ls
  have hdn : (isDomainName (presentOf ls)).2 = true := (valid_iff_packs _ hfq).mpr ⟨_, pack_present ls hok⟩
  have hw := name_word ls
  have hl : (presentOf ls).getLast? = some 46 := by
    unfold presentOf
    split
    · rfl
    · rename_i hne
      cases ls with
      | nil => simp at hne
      | cons l ls =>
        rw [← List.dropLast_concat_getLast (l := l :: ls) (by simp)]
        simp [List.flatMap_append, List.getLast?_append]
  have h64 : presentOf ls ≠ [64] := by intro e; rw [e] at hl; simp at hl
  have h10 : presentOf ls ≠ [10] := by intro e; rw [e] at hl; simp at hl
  have hne : (presentOf ls).isEmpty = false := by
    cases h : presentOf ls with
    | nil => exact absurd h hw.1
    | cons _ _ => rfl
  simp [toAbsoluteName, h64, h10, hdn, hne, hfq]

/-! ### `sprintName` leaves the library's own spelling alone -/

theorem presentByte_shapes : ∀ b : Byte,
    (presentByte b = [b] ∧ (b != 92) = true ∧ (b == 46) = false ∧ isSpecial b = false ∧ (b < 32 || b > 126) = false) ∨
    (presentByte b = [92, b] ∧ isSpecial b = true ∧ isDigit b = false) ∨
    (presentByte b = escapeByte b ∧ isSpecial b = false ∧ (b < 32 || b > 126) = true ∧
      isDDD (escapeByte b).tail = true ∧ dddToByte (escapeByte b).tail = b) := by
  apply C07.forall_byte; decide +kernel

/-- one label octet in the library's spelling: the builder stays "nothing copied yet" or "everything so far" -/
theorem loop_presentByte (b : Byte) (f : Nat) (pre tl dst : Bytes) (hinv : dst = [] ∨ dst = pre) :
    ∃ dst', (dst' = [] ∨ dst' = pre ++ presentByte b) ∧
      sprintNameLoop (f + 1) pre (presentByte b ++ tl) dst = sprintNameLoop f (pre ++ presentByte b) tl dst' := by
  have hd0 : (if dst.isEmpty then pre else dst) = pre := by
    rcases hinv with h | h
    · subst h; rfl
    · subst h; split <;> simp_all
  have hd0' : (if dst = [] then pre else dst) = pre := by
    rcases hinv with h | h
    · subst h; rfl
    · subst h; split <;> simp_all
  rcases presentByte_shapes b with ⟨h, h92, h46, hsp, hpr⟩ | ⟨h, hsp, hdg⟩ | ⟨h, hsp, hpr, hddd, hval⟩
  · rw [h]
    refine ⟨if dst.isEmpty then dst else dst ++ [b], ?_, ?_⟩
    · rcases hinv with h' | h'
      · subst h'; left; rfl
      · subst h'
        by_cases he : dst.isEmpty = true
        · left; simp [he, List.isEmpty_iff.mp he]
        · right; simp [he]
    · simp [sprintNameLoop, nextByte, h92, h46, hsp, hpr]
  · rw [h]
    refine ⟨pre ++ [92, b], Or.inr rfl, ?_⟩
    have hdd : isDDD (b :: tl) = false := by
      cases tl with
      | nil => rfl
      | cons x t => cases t with
        | nil => rfl
        | cons y t => simp [isDDD, hdg]
    have h9246 : ((92 : Byte) == 46) = false := by decide
    simp only [List.cons_append, List.nil_append, sprintNameLoop, h9246, Bool.false_eq_true, ↓reduceIte, nextByte,
      bne_self_eq_false, hdd]
    simp [hsp, hd0']
  · rw [h]
    refine ⟨pre ++ escapeByte b, Or.inr rfl, ?_⟩
    have hesc : escapeByte b = 92 :: (escapeByte b).tail := by simp [escapeByte]
    have htl3 : ∃ d1 d2 d3, (escapeByte b).tail = [d1, d2, d3] :=
      ⟨digitByte (b.toNat / 100), digitByte (b.toNat / 10 % 10), digitByte (b.toNat % 10), rfl⟩
    obtain ⟨d1, d2, d3, ht⟩ := htl3
    have hdd : isDDD (d1 :: d2 :: d3 :: tl) = true := by
      rw [C05T.isDDD_append]; rw [ht] at hddd; exact hddd
    have hvv : dddToByte (d1 :: d2 :: d3 :: tl) = b := by
      rw [ht] at hval; simpa [dddToByte] using hval
    have h9246 : ((92 : Byte) == 46) = false := by decide
    rw [hesc, ht]
    simp only [List.cons_append, List.nil_append, sprintNameLoop, h9246, Bool.false_eq_true, ↓reduceIte, nextByte,
      bne_self_eq_false, hdd, hvv]
    have he : escapeByte b = [92, d1, d2, d3] := by rw [hesc, ht]
    simp [hsp, hpr, hd0', he]

theorem loop_presentLabel (l : Bytes) (f : Nat) (pre tl dst : Bytes) (hinv : dst = [] ∨ dst = pre)
    (hf : (presentLabel l).length ≤ f) :
    ∃ dst' f', (dst' = [] ∨ dst' = pre ++ presentLabel l) ∧ f' + (presentLabel l).length ≥ f + 0 ∧ f' ≤ f ∧
      f - f' ≤ (presentLabel l).length ∧
      sprintNameLoop f pre (presentLabel l ++ tl) dst = sprintNameLoop f' (pre ++ presentLabel l) tl dst' := by
  induction l generalizing f pre dst with
  | nil => exact ⟨dst, f, by simpa [presentLabel] using hinv, by omega, by omega, by omega, by simp [presentLabel]⟩
  | cons b l ih =>
    have hpl : presentLabel (b :: l) = presentByte b ++ presentLabel l := by simp [presentLabel]
    have hb1 := C03.presentByte_ne_nil b
    rw [hpl, List.length_append] at hf
    cases f with
    | zero => omega
    | succ f =>
      obtain ⟨d1, hd1, e1⟩ := loop_presentByte b f pre (presentLabel l ++ tl) dst hinv
      obtain ⟨d2, f2, hd2, g1, g2, g3, e2⟩ := ih f (pre ++ presentByte b) d1 hd1 (by omega)
      refine ⟨d2, f2, ?_, ?_, by omega, ?_, ?_⟩
      · rw [hpl, ← List.append_assoc]; exact hd2
      · rw [hpl, List.length_append]; omega
      · rw [hpl, List.length_append]; omega
      · rw [hpl, List.append_assoc, e1, e2, List.append_assoc]

/-- **printing a name that came from the wire changes nothing** -/
theorem sprintName_present (ls : List Bytes) : sprintName (presentOf ls) = presentOf ls := by
  unfold presentOf
  split
  · decide
  · unfold sprintName
    suffices h : ∀ (ls : List Bytes) (f : Nat) (pre dst : Bytes), (dst = [] ∨ dst = pre) →
        (ls.flatMap (fun l => presentLabel l ++ [46])).length < f →
        sprintNameLoop f pre (ls.flatMap (fun l => presentLabel l ++ [46])) dst =
          pre ++ ls.flatMap (fun l => presentLabel l ++ [46]) by
      have := h ls _ [] [] (Or.inl rfl) (Nat.lt_succ_self _)
      simpa using this
    intro ls
    induction ls with
    | nil =>
      intro f pre dst hinv hf
      cases f with
      | zero => omega
      | succ f =>
        simp only [List.flatMap_nil, sprintNameLoop, List.append_nil]
        rcases hinv with h | h <;> subst h <;> simp
    | cons l ls ih =>
      intro f pre dst hinv hf
      simp only [List.flatMap_cons, List.append_assoc, List.length_append, List.length_cons, List.length_nil] at hf ⊢
      obtain ⟨d1, f1, hd1, g1, g2, g3, e1⟩ := loop_presentLabel l f pre ([46] ++ ls.flatMap (fun l => presentLabel l ++ [46])) dst hinv (by omega)
      rw [e1]
      cases f1 with
      | zero => omega
      | succ f1 =>
        simp only [List.singleton_append, sprintNameLoop, beq_self_eq_true, ↓reduceIte]
        rw [ih f1 (pre ++ presentLabel l ++ [46]) _ ?_ (by omega)]
        · simp [List.append_assoc]
        · rcases hd1 with h | h
          · subst h; left; rfl
          · subst h
            by_cases he : (pre ++ presentLabel l).isEmpty = true
            · left
              have hx := List.isEmpty_iff.mp he
              simp [hx]
            · right; simp [he]

/-! ### printers and parsers that belong together -/

/-- the same kind of field; for integers the parser must accept the whole range of the field the printer prints -/
def kindEq : TStep → TStep → Bool
  | .uint a, .uint b => a == b
  | .uint a, .uintAlg => a == 8
  | .uint a, .uintLax b => a == b
  | .mnem t a, .mnem u b => t == u && a == b
  | .uint a, .uintTtl _ => a == 32
  | .name, .name => true
  | .endStr false, .tokStr => true
  | .endStr false, .tokNE => true
  | .hexGroups 12 2 45 false, .euiTok 6 => true
  | .hexGroups 16 2 45 false, .euiTok 8 => true
  | .hexGroups 16 4 58 _, .nodeId => true
  | .ipv4, .ipv4 => true
  | _, _ => false

/-- the print plan `P` (from `String()`) and the parse plan `Q` (from `parse`) describe the same RDATA text: single-token
    fields separated by one blank, then either the end of the entry, or a rest-of-entry string, or character-strings -/
def matchPlans : List TStep → List TStep → Bool
  | [.txt], [.txt] => true
  | [.txtPair], [.txtPair] => true
  | [.txtFirst], [.txtFirst] => true
  | [.octet], [.octet] => true
  | [.salt], [.salt, .slurp] => true
  | [.endStr _], [.endStr _] => true
  | [.endStr _], [.tok, .slurp] => true
  | [p], [q, .slurp] => kindEq p q
  | [p, .blank, .endStr _], [q, .endStr _] => kindEq p q
  | [p, .blank, .endStrSplit n], [q, .endStr _] => kindEq p q && decide (0 < n)
  | [p, .typeList], [q, .typeList] => kindEq p q
  | .salt :: .blank :: P, .saltNE :: .blank :: Q => matchPlans P Q
  | p :: .blank :: P, q :: .blank :: Q => kindEq p q && matchPlans P Q
  | _, _ => false

/-- one non-empty word of plain octets -/
def RestWF' (t : Bytes) : Prop := t ≠ [] ∧ t.all plain = true

/-- a field value that can come from the wire -/
def FieldWF : TStep → TVal → Prop
  | .uint bits, .n v => v < 2 ^ bits
  | .uintAlg, .n v => v < 2 ^ 8
  | .uintLax bits, .n v => v < 2 ^ bits
  | .mnem _ bits, .n v => v < 2 ^ bits
  | .uintTtl _, .n v => v < 2 ^ 32
  | .name, .s t => ∃ ls, WireNameOK ls ∧ t = presentOf ls
  | .tokStr, .s t => RestWF' t
  | .tokNE, .s t => RestWF' t
  | .euiTok g, .n v => v < 2 ^ (8 * g)
  | .nodeId, .n v => v < 2 ^ 64
  | .ipv4, .s a => a.length = 4
  | _, _ => False

/-- the rest-of-entry string: one non-empty word of plain octets (hex, base64 and the like) -/
def RestWF (t : Bytes) : Prop := t ≠ [] ∧ t.all plain = true

def normRest (up : Bool) (t : Bytes) : Bytes := if up then upperAscii t else t

theorem upper_plain : ∀ b : Byte, plain b = true → plain (if 97 ≤ b.toNat ∧ b.toNat ≤ 122 then b - 32 else b) = true := by
  apply C07.forall_byte; decide +kernel

theorem normRest_word (up : Bool) (t : Bytes) (h : RestWF t) : Word (normRest up t) := by
  obtain ⟨hne, hpl⟩ := h
  cases up with
  | false => exact ⟨hne, plain_wordOK t hpl hne⟩
  | true =>
    have hne' : upperAscii t ≠ [] := by
      cases t with
      | nil => exact absurd rfl hne
      | cons _ _ => simp [upperAscii]
    have hpl' : (upperAscii t).all plain = true := by
      unfold upperAscii
      rw [List.all_map]
      rw [List.all_eq_true] at hpl ⊢
      intro b hb
      exact upper_plain b (hpl b hb)
    exact ⟨hne', plain_wordOK _ hpl' hne'⟩

/-! ### codes with mnemonics (CERT) -/

/-- every mnemonic of the table is found under its own spelling with its own code, is one plain word, and is not a number -/
def mnemOK (t : Nat) : Bool :=
  (mnemTable t).all (fun p => (lookup (mnemTable t) (ascii p.1) == some p.2) && decide (ascii p.1 ≠ []) && wordOK (ascii p.1) &&
    !((ascii p.1).all isDig))

theorem mnemOK_all (t : Nat) : mnemOK t = true := by
  cases t with
  | zero => decide +kernel
  | succ n => exact (by decide +kernel : mnemOK 1 = true)

theorem lookup_none_digits (tbl : List (String × Nat)) (ds : Bytes) (hall : tbl.all (fun p => !((ascii p.1).all isDig)) = true)
    (hd : ds.all isDig = true) : lookup tbl ds = none := by
  unfold lookup
  rw [Option.map_eq_none_iff, List.find?_eq_none]
  intro p hp
  rw [List.all_eq_true] at hall
  have := hall p hp
  simp only [beq_iff_eq]
  intro e
  rw [e, hd] at this
  exact absurd this (by decide)

/-- **mnem_roundtrip**: the mnemonic printed for a code of the table is read back as that code, and a code without a
    mnemonic is printed as a number that is no mnemonic and is read back as a number -/
theorem mnem_roundtrip (t bits v : Nat) (hv : v < 2 ^ bits) :
    Word (printMnem t v) ∧
      (lookup (mnemTable t) (printMnem t v) = some v ∨
        (lookup (mnemTable t) (printMnem t v) = none ∧ parseUintN bits (printMnem t v) = some v)) := by
  have hok := mnemOK_all t
  unfold mnemOK at hok
  rw [List.all_eq_true] at hok
  unfold printMnem
  cases hf : (mnemTable t).find? (fun p => p.2 == v) with
  | some p =>
    have hm := List.mem_of_find?_eq_some hf
    have hp := List.find?_some hf
    simp only [beq_iff_eq] at hp
    have h := hok p hm
    simp only [Bool.and_eq_true, beq_iff_eq, decide_eq_true_eq, Bool.not_eq_true'] at h
    obtain ⟨⟨⟨h1, h2⟩, h3⟩, _⟩ := h
    exact ⟨⟨h2, h3⟩, Or.inl (by rw [h1, hp])⟩
  | none =>
    obtain ⟨hd, hval⟩ := itoa_spec v
    refine ⟨digits_word _ hd, Or.inr ⟨?_, ?_⟩⟩
    · apply lookup_none_digits _ _ _ hd.2
      rw [List.all_eq_true]
      intro p hp
      have h := hok p hp
      simp only [Bool.and_eq_true, Bool.not_eq_true'] at h
      simp [h.2]
    · have := parseUintN_digits bits (itoa v) hd (by rw [hval]; exact hv)
      rw [this, hval]

/-- the word a single-token field is printed as, and that the parser reads it back -/
theorem field_word (p q : TStep) (v : TVal) (hk : kindEq p q = true) (hw : FieldWF q v) (origin : Bytes) :
    ∃ w, (∀ vs, printStep p (v :: vs) = some (w, vs)) ∧ Word w ∧
      (∀ (t : Tok) (ts : List Tok) (Q : List TStep) (acc : List TVal), t.token = w → t.err = false → t.value = zString →
        parsePlan origin (q :: Q) (t :: ts) acc = parsePlan origin Q ts (acc ++ [v])) := by
  cases p <;> cases q <;> simp only [kindEq, Bool.false_eq_true] at hk
  case uint.uint b1 bits =>
    cases v <;> simp only [FieldWF] at hw
    rename_i n
    obtain ⟨hd, hv⟩ := itoa_spec n
    refine ⟨itoa n, fun vs => rfl, digits_word _ hd, ?_⟩
    intro t ts Q acc ht he _hval
    simp only [parsePlan, headTok, ht, parseUintN_digits bits (itoa n) hd (by rw [hv]; exact hw), hv, he, Bool.false_eq_true,
      ↓reduceIte, List.tail_cons]
  case uint.uintLax b1 bits =>
    cases v <;> simp only [FieldWF] at hw
    rename_i n
    obtain ⟨hd, hv⟩ := itoa_spec n
    simp only [beq_iff_eq] at hk
    refine ⟨itoa n, fun vs => rfl, digits_word _ hd, ?_⟩
    intro t ts Q acc ht he _hval
    simp only [parsePlan, headTok, ht, parseUintN_digits bits (itoa n) hd (by rw [hv]; exact hw), hv, List.tail_cons]
  case mnem.mnem t1 b1 t2 b2 =>
    cases v <;> simp only [FieldWF] at hw
    rename_i n
    simp only [Bool.and_eq_true, beq_iff_eq] at hk
    obtain ⟨rfl, rfl⟩ := hk
    obtain ⟨hword, hrt⟩ := mnem_roundtrip t1 b1 n hw
    refine ⟨printMnem t1 n, fun vs => rfl, hword, ?_⟩
    intro t ts Q acc ht he _hval
    rcases hrt with h | ⟨h1, h2⟩
    · simp only [parsePlan, headTok, ht, h, List.tail_cons]
    · simp only [parsePlan, headTok, ht, h1, h2, List.tail_cons]
  case uint.uintAlg b1 =>
    cases v <;> simp only [FieldWF] at hw
    rename_i n
    obtain ⟨hd, hv⟩ := itoa_spec n
    refine ⟨itoa n, fun vs => rfl, digits_word _ hd, ?_⟩
    intro t ts Q acc ht he _hval
    simp only [parsePlan, headTok, ht, parseUintN_digits 8 (itoa n) hd (by rw [hv]; exact hw), hv, List.tail_cons]
  case uint.uintTtl b1 strict =>
    cases v <;> simp only [FieldWF] at hw
    rename_i n
    obtain ⟨hd, hv⟩ := itoa_spec n
    refine ⟨itoa n, fun vs => rfl, digits_word _ hd, ?_⟩
    intro t ts Q acc ht he _hval
    simp only [parsePlan, headTok, ht, parseUintN_digits 32 (itoa n) hd (by rw [hv]; exact hw), hv, he, Bool.false_eq_true,
      ↓reduceIte, List.tail_cons]
  case endStr.tokStr u =>
    cases u <;> simp only [kindEq, Bool.false_eq_true] at hk
    cases v <;> simp only [FieldWF] at hw
    rename_i t
    refine ⟨t, fun vs => by simp [printStep], ⟨hw.1, plain_wordOK t hw.2 hw.1⟩, ?_⟩
    intro tk ts Q acc ht he hval
    simp only [parsePlan, headTok, ht, he, hval, Bool.false_eq_true, false_or, ne_eq, not_true_eq_false, ↓reduceIte, List.tail_cons]
  case endStr.tokNE u =>
    cases u <;> simp only [kindEq, Bool.false_eq_true] at hk
    cases v <;> simp only [FieldWF] at hw
    rename_i t
    refine ⟨t, fun vs => by simp [printStep], ⟨hw.1, plain_wordOK t hw.2 hw.1⟩, ?_⟩
    intro tk ts Q acc ht he _hval
    simp only [parsePlan, headTok, ht, he, hw.1, Bool.false_eq_true, or_self, ↓reduceIte, List.tail_cons]
  case hexGroups.euiTok d g sep up k =>
    cases v <;> simp only [FieldWF] at hw
    rename_i n
    have hcase : (d = 12 ∧ g = 2 ∧ sep = 45 ∧ up = false ∧ k = 6) ∨ (d = 16 ∧ g = 2 ∧ sep = 45 ∧ up = false ∧ k = 8) := by
      split at hk <;> simp_all
    rcases hcase with ⟨rfl, rfl, rfl, rfl, rfl⟩ | ⟨rfl, rfl, rfl, rfl, rfl⟩
    · refine ⟨printHexGroups 12 2 45 false n, fun vs => rfl,
        ⟨eui48_ne_nil n, plain_wordOK _ (printHex_plain 12 2 45 false n (by decide)) (eui48_ne_nil n)⟩, ?_⟩
      intro t ts Q acc ht he _hval
      simp only [parsePlan, headTok, ht, he, Bool.false_eq_true, ↓reduceIte, eui48_roundtrip n (by simpa using hw), List.tail_cons]
    · refine ⟨printHexGroups 16 2 45 false n, fun vs => rfl,
        ⟨eui64_ne_nil n, plain_wordOK _ (printHex_plain 16 2 45 false n (by decide)) (eui64_ne_nil n)⟩, ?_⟩
      intro t ts Q acc ht he _hval
      simp only [parsePlan, headTok, ht, he, Bool.false_eq_true, ↓reduceIte, eui64_roundtrip n (by simpa using hw), List.tail_cons]
  case hexGroups.nodeId d g sep up =>
    cases v <;> simp only [FieldWF] at hw
    rename_i n
    have hcase : d = 16 ∧ g = 4 ∧ sep = 58 := by
      split at hk <;> simp_all
    obtain ⟨rfl, rfl, rfl⟩ := hcase
    refine ⟨printHexGroups 16 4 58 up n, fun vs => rfl,
      ⟨nodeId_ne_nil up n, plain_wordOK _ (printHex_plain 16 4 58 up n (by decide)) (nodeId_ne_nil up n)⟩, ?_⟩
    intro t ts Q acc ht he _hval
    simp only [parsePlan, headTok, ht, he, Bool.false_eq_true, ↓reduceIte, nodeId_roundtrip up n hw, List.tail_cons]
  case ipv4.ipv4 =>
    cases v <;> simp only [FieldWF] at hw
    rename_i a
    obtain ⟨x0, x1, x2, x3, rfl⟩ : ∃ x0 x1 x2 x3, a = [x0, x1, x2, x3] := by
      match a, hw with
      | [x0, x1, x2, x3], _ => exact ⟨x0, x1, x2, x3, rfl⟩
    refine ⟨printIPv4 [x0, x1, x2, x3], fun vs => by simp [printStep],
      ⟨C05I.printIPv4_ne_nil x0 x1 x2 x3, plain_wordOK _ (C05I.printIPv4_plain x0 x1 x2 x3) (C05I.printIPv4_ne_nil x0 x1 x2 x3)⟩, ?_⟩
    intro t ts Q acc ht he _hval
    simp only [parsePlan, headTok, ht, he, Bool.false_eq_true, C05I.printIPv4_no_colon, false_or, ↓reduceIte,
      C05I.ipv4_roundtrip, List.tail_cons]
  case name.name =>
    cases v <;> simp only [FieldWF] at hw
    obtain ⟨ls, hok, rfl⟩ := hw
    refine ⟨presentOf ls, fun vs => by simp [printStep, sprintName_present], name_word ls, ?_⟩
    intro t ts Q acc ht he _hval
    simp only [parsePlan, headTok, ht, toAbsoluteName_present ls hok origin, he, Bool.false_eq_true, ↓reduceIte, List.tail_cons]

theorem txtEscape_len_ge (raw : Bytes) : raw.length ≤ (txtEscape raw).length := by
  have hb : ∀ b : Byte, 1 ≤ (txtEscapeByte b).length := by apply C07.forall_byte; decide +kernel
  induction raw with
  | nil => simp
  | cons x xs ih =>
    rw [txtEscape_cons, List.length_append, List.length_cons]
    have := hb x
    omega

/-- how `unpackStringOctet` holds octets from the wire: every backslash doubled, everything else as it is -/
def octEsc (raw : Bytes) : Bytes := raw.flatMap (fun b => if b = 92 then [92, 92] else [b])

theorem isDDD_bs (t : Bytes) : isDDD (92 :: t) = false := by
  cases t with
  | nil => rfl
  | cons a t => cases t with
    | nil => rfl
    | cons b t => simp [isDDD, isDigit]

/-- **sprintTxtOctet of wire-born octets**: the quoted character-string spelling of the octets -/
theorem octetRe_octEsc (raw : Bytes) : octetRe (octEsc raw) = txtEscape raw := by
  induction raw with
  | nil => simp [octEsc, octetRe, txtEscape]
  | cons b raw ih =>
    unfold octEsc at ih ⊢
    by_cases hb : b = 92
    · subst hb
      simp only [List.flatMap_cons, if_true, List.cons_append, List.nil_append]
      rw [octetRe.eq_def]
      simp only [if_true, isDDD_bs, Bool.false_eq_true, if_false]
      have : (92 : Byte) ≠ 46 := by decide
      simp only [this, if_false, ih, txtEscape, List.flatMap_cons]
    · simp only [List.flatMap_cons, hb, if_false, List.cons_append, List.nil_append]
      rw [octetRe.eq_def]
      simp only [hb, if_false, ih, txtEscape, List.flatMap_cons]

/-- field values that fit a printer / parser pair, and what the parser stores for them (the rest-of-entry string in
    upper case where the printer upper-cases it) -/
inductive Fits : List TStep → List TStep → List TVal → List TVal → Prop
  | txt (bss : List Bytes) (h : ∀ bs ∈ bss, bs.length ≤ 255) :
      Fits [.txt] [.txt] [.ss (bss.map txtEscape)] [.ss (bss.map txtEscape)]
  | pair (a b : Bytes) (ha : a.length ≤ 255) (hb : b.length ≤ 255) :
      Fits [.txtPair] [.txtPair] [.s (txtEscape a), .s (txtEscape b)] [.s (txtEscape a), .s (txtEscape b)]
  | first (a : Bytes) (ha : a.length ≤ 255) : Fits [.txtFirst] [.txtFirst] [.s (txtEscape a)] [.s (txtEscape a)]
  | octet (raw : Bytes) : Fits [.octet] [.octet] [.s (octEsc raw)] [.s (txtEscape raw)]
  | salt (t : Bytes) (h : t = [] ∨ (RestWF t ∧ upperAscii t ≠ [45])) :
      Fits [.salt] [.salt, .slurp] [.s t] [.s (if t = [] then [] else upperAscii t)]
  | rest (u u' : Bool) (t : Bytes) (h : RestWF t) : Fits [.endStr u] [.endStr u'] [.s t] [.s (normRest u t)]
  | tok (u : Bool) (t : Bytes) (h : RestWF t) : Fits [.endStr u] [.tok, .slurp] [.s t] [.s (normRest u t)]
  | last (p q : TStep) (v : TVal) (hk : kindEq p q = true) (hw : FieldWF q v) : Fits [p] [q, .slurp] [v] [v]
  | lastRest (p q : TStep) (v : TVal) (u u' : Bool) (t : Bytes) (hk : kindEq p q = true) (hw : FieldWF q v) (ht : RestWF t) :
      Fits [p, .blank, .endStr u] [q, .endStr u'] [v, .s t] [v, .s (normRest u t)]
  | lastSplit (p q : TStep) (v : TVal) (n : Nat) (u' : Bool) (t : Bytes) (hk : kindEq p q = true) (hw : FieldWF q v)
      (hn : 0 < n) (ht : RestWF t) : Fits [p, .blank, .endStrSplit n] [q, .endStr u'] [v, .s t] [v, .s t]
  | consSalt (t : Bytes) (h : t = [] ∨ (RestWF t ∧ upperAscii t ≠ [45])) (P Q : List TStep) (vs vs' : List TVal)
      (hf : Fits P Q vs vs') :
      Fits (.salt :: .blank :: P) (.saltNE :: .blank :: Q) (.s t :: vs) (.s (if t = [] then [] else upperAscii t) :: vs')
  | types (p q : TStep) (v : TVal) (ts : List Nat) (hk : kindEq p q = true) (hw : FieldWF q v) (ht : ∀ t ∈ ts, t ≤ 65535) :
      Fits [p, .typeList] [q, .typeList] [v, .nl ts] [v, .nl ts]
  | cons (p q : TStep) (v : TVal) (P Q : List TStep) (vs vs' : List TVal) (hk : kindEq p q = true) (hw : FieldWF q v)
      (h : Fits P Q vs vs') : Fits (p :: .blank :: P) (q :: .blank :: Q) (v :: vs) (v :: vs')

theorem printPlan_cons (st : TStep) (rest : List TStep) (vals vals' : List TVal) (txt : Bytes)
    (h : printStep st vals = some (txt, vals')) : printPlan (st :: rest) vals = (printPlan rest vals').map (fun r => txt ++ r) := by
  simp [printPlan, h]

theorem printPlan_blank (rest : List TStep) (vals : List TVal) :
    printPlan (.blank :: rest) vals = (printPlan rest vals).map (fun r => 32 :: r) := by
  simp [printPlan, printStep]

theorem rdata_word_tokens (zl : St) (w rest : Bytes) (hL : LS zl false true true) (hw : Word w) :
    ∃ t b zl', stream zl (w ++ 32 :: rest) = t :: b :: stream zl' rest ∧ t.token = w ∧ t.err = false ∧ t.value = zString ∧
      b.value = zBlank ∧ b.err = false ∧ LS zl' false true true := by
  obtain ⟨z, t, b, zl', zo, zr, ze, ht, hs, htk, hte, hbv, hbe, hL'⟩ :=
    stream_word_blank zl w rest false true true hL hw.2 hw.1 (fun z ho hr _ => (classify_rdata z w ho hr).1)
  obtain ⟨_, k2, k3⟩ := classify_rdata z w zo zr
  rw [k3] at hL'
  exact ⟨t, b, zl', hs, htk, hte, by rw [ht]; exact k2, hbv, hbe, hL'⟩

theorem rdata_last_tokens (zl : St) (w rest : Bytes) (hL : LS zl false true true) (hw : Word w) :
    ∃ t b zl', stream zl (w ++ 10 :: rest) = t :: b :: stream zl' rest ∧ t.token = w ∧ t.err = false ∧ t.value = zString ∧
      b.value = zNewline ∧ b.err = false := by
  obtain ⟨z, t, b, zl', zr, ze, ht, hs, hbv, hbe, _⟩ := stream_word_nl zl w rest false true true hL hw.2 hw.1
  obtain ⟨n1, n2, n3⟩ := nlWordTok_plain z w ze (Or.inl zr)
  exact ⟨t, b, zl', hs, by rw [ht]; exact n2, by rw [ht]; exact n3, by rw [ht]; exact n1, hbv, hbe⟩

theorem splitLoop_ne_nil (n fuel : Nat) (s : Bytes) : splitLoop n fuel s ≠ [] := by
  cases fuel with
  | zero => simp [splitLoop]
  | succ f => unfold splitLoop; split <;> simp

theorem joinWith_cons (sep : Byte) (w : Bytes) (ws : List Bytes) (h : ws ≠ []) :
    joinWith sep (w :: ws) = w ++ sep :: joinWith sep ws := by
  cases ws with
  | nil => exact absurd rfl h
  | cons _ _ => rfl

/-- the pieces `splitN` cuts a plain string into, printed with blanks between them up to the end of the line, are put
    together again by `endingToString` — also when the last piece is empty (length a multiple of `n`) -/
theorem split_tokens (n : Nat) (hn : 0 < n) (fuel : Nat) (s : Bytes) (hp : s.all plain = true) (zl : St)
    (hL : LS zl false true true) (rest acc : Bytes) :
    endingToString (stream zl (joinWith 32 (splitLoop n fuel s) ++ 10 :: rest)) acc = some (acc ++ s) := by
  have single : ∀ (s : Bytes), s.all plain = true → ∀ (zl : St), LS zl false true true → ∀ acc : Bytes,
      endingToString (stream zl (s ++ 10 :: rest)) acc = some (acc ++ s) := by
    intro s hp zl hL acc
    by_cases hs : s = []
    · subst hs
      obtain ⟨b, zl', hst, hbv, _, _⟩ := stream_nl_first zl rest false true true hL
      simp [hst, endingToString, hbv]
    · obtain ⟨tk, b, zl', hst, htk, hte, htv, hbv, _⟩ := rdata_last_tokens zl s rest hL ⟨hs, plain_wordOK s hp hs⟩
      have z : ¬ zString = zNewline := by decide
      simp [hst, endingToString, htv, hte, htk, hbv, z]
  induction fuel generalizing s zl acc with
  | zero => simpa [splitLoop, joinWith] using single s hp zl hL acc
  | succ f ih =>
    unfold splitLoop
    by_cases hle : n ≤ s.length
    · rw [if_pos hle, joinWith_cons _ _ _ (splitLoop_ne_nil n f _)]
      have hc : (s.take n).all plain = true := by
        rw [List.all_eq_true] at hp ⊢
        intro b hb; exact hp b (List.mem_of_mem_take hb)
      have hd : (s.drop n).all plain = true := by
        rw [List.all_eq_true] at hp ⊢
        intro b hb; exact hp b (List.mem_of_mem_drop hb)
      have hne : s.take n ≠ [] := by
        intro e
        have h1 : (s.take n).length = min n s.length := List.length_take
        rw [e, List.length_nil] at h1
        omega
      obtain ⟨t1, b1, zl1, hs1, htk1, hte1, htv1, hbv1, hbe1, hL1⟩ :=
        rdata_word_tokens zl (s.take n) (joinWith 32 (splitLoop n f (s.drop n)) ++ 10 :: rest) hL ⟨hne, plain_wordOK _ hc hne⟩
      rw [List.append_assoc, List.cons_append, hs1]
      have z1 : ¬ zString = zNewline := by decide
      have z2 : ¬ zBlank = zNewline := by decide
      have z3 : ¬ zBlank = zString := by decide
      simp only [endingToString, htv1, hte1, htk1, hbv1, hbe1, z1, z2, z3, Bool.false_eq_true, ↓reduceIte]
      rw [ih (s.drop n) hd zl1 hL1 (acc ++ s.take n), List.append_assoc, List.take_append_drop]
    · rw [if_neg hle]
      simpa [joinWith] using single s hp zl hL acc

/-- a word, then ` T` for every type of a list, then the end of the line: the word's token, and behind it tokens from
    which the type-bitmap loop reads the list -/
theorem types_tokens (ts : List Nat) (hts : ∀ t ∈ ts, t ≤ 65535) (zl : St) (w rest : Bytes) (hL : LS zl false true true)
    (hw : Word w) (acc : List Nat) :
    ∃ t toks, stream zl (w ++ (typesText ts ++ 10 :: rest)) = t :: toks ∧ t.token = w ∧ t.err = false ∧ t.value = zString ∧
      typeListParse toks acc = some (acc ++ ts) := by
  induction ts generalizing zl w acc with
  | nil =>
    obtain ⟨tk, b, zl', hs, htk, hte, htv, hbv, hbe⟩ := rdata_last_tokens zl w rest hL hw
    refine ⟨tk, _, by simpa [typesText] using hs, htk, hte, htv, ?_⟩
    simp [typeListParse, hbe, hbv]
  | cons x xs ih =>
    obtain ⟨hxw, hxr⟩ := C05Y.printed_type_rdata x (hts x (by simp))
    obtain ⟨t1, b1, zl1, hs1, htk1, hte1, htv1, hbv1, hbe1, hL1⟩ :=
      rdata_word_tokens zl w (printType x ++ (typesText xs ++ 10 :: rest)) hL hw
    obtain ⟨t2, toks, hs2, htk2, hte2, htv2, hp2⟩ := ih (fun t ht => hts t (by simp [ht])) zl1 (printType x) hL1 hxw (acc ++ [x])
    refine ⟨t1, b1 :: t2 :: toks, ?_, htk1, hte1, htv1, ?_⟩
    · have e : typesText (x :: xs) ++ 10 :: rest = 32 :: (printType x ++ (typesText xs ++ 10 :: rest)) := by
        simp [typesText]
      rw [e, hs1, hs2]
    · have z1 : ¬ (zBlank = zNewline ∨ zBlank = zEOF) := by decide
      have z2 : ¬ (zString = zNewline ∨ zString = zEOF) := by decide
      have z3 : ¬ (zString = zBlank) := by decide
      simp only [typeListParse, hbe1, hbv1, hte2, htv2, htk2, hxr, hp2, Bool.false_eq_true, ↓reduceIte, z1, z2, z3,
        List.append_assoc, List.singleton_append]

/-- **printers and parsers are inverse through the lexer**: for plans that belong together and values that fit them,
    the parser reads from the printed RDATA text — behind the type and its blank, up to the end of the line — exactly
    the values (any origin: names from the wire are fully qualified) -/
theorem text_roundtrip (P Q : List TStep) (vals vals' : List TVal) (hf : Fits P Q vals vals') (zl : St)
    (hL : LS zl false true true) (origin rest : Bytes) (acc : List TVal) :
    ∃ txt, printPlan P vals = some txt ∧
      parsePlan origin Q (stream zl (txt ++ 10 :: rest)) acc = some (acc ++ vals') := by
  induction hf generalizing zl acc with
  | txt bss h =>
    refine ⟨sprintTxt (bss.map txtEscape), by simp [printPlan, printStep], ?_⟩
    simp only [parsePlan, txt_family_text_roundtrip zl bss rest hL h, Option.map_some]
  | pair a b ha hb =>
    refine ⟨sprintTxt [txtEscape a, txtEscape b], by simp [printPlan, printStep], ?_⟩
    have := txt_family_text_roundtrip zl [a, b] rest hL (by intro bs hbs; simp at hbs; rcases hbs with rfl | rfl <;> assumption)
    simp only [List.map_cons, List.map_nil] at this
    simp only [parsePlan, this, Option.map_some, pairOfChunks, joinBlank]
  | first a ha =>
    refine ⟨sprintTxt [txtEscape a], by simp [printPlan, printStep], ?_⟩
    have := txt_family_text_roundtrip zl [a] rest hL (by intro bs hbs; simp at hbs; rw [hbs]; exact ha)
    simp only [List.map_cons, List.map_nil] at this
    simp only [parsePlan, this, Option.map_some, List.headD_cons]
  | octet raw =>
    refine ⟨sprintTxtOctet (octEsc raw), by simp [printPlan, printStep], ?_⟩
    unfold sprintTxtOctet
    rw [octetRe_octEsc]
    obtain ⟨h1, h2⟩ := txtEscape_ok raw
    have e : [34] ++ txtEscape raw ++ [34] ++ 10 :: rest = 34 :: (txtEscape raw ++ 34 :: (10 :: rest)) := by simp
    rw [e]
    obtain ⟨q1, mid, q2, zl', a1, a2, a3, a4, a5, a6, a7, a8⟩ :=
      stream_quoted zl (txtEscape raw) (10 :: rest) false true true hL h1 h2
    obtain ⟨b, zl2, hst, hbv, hbe, _⟩ := stream_nl_first zl' rest false true false a5
    rw [a6, hst]
    have hlen := txtEscape_len_ge raw
    have hesc : (escOffset (txtEscape raw) ((txtEscape raw).length + 1)).isSome = true := by
      unfold escOffset
      rw [if_neg (by omega), escOffsetAux_escape raw _ 0 0 _ (by omega) (by omega)]
      rw [if_neg (by omega)]
      rfl
    by_cases hbs : txtEscape raw = []
    · rw [a7 hbs]
      rw [hbs] at hesc
      simp [parsePlan, endingToOctet, octetTokens, a1, a2, a3, a4, hbv, hbs, zQuote, zNewline, zString, zBlank]
      decide
    · obtain ⟨t, ht, tv, tt, te⟩ := a8 hbs
      rw [ht]
      simp [parsePlan, endingToOctet, octetTokens, a1, a2, a3, a4, hbv, tv, te, tt, hesc, zQuote, zNewline, zString, zBlank]
  | salt t h =>
    have hword : Word (if t.isEmpty then [45] else upperAscii t) := by
      rcases h with rfl | ⟨h, _⟩
      · exact ⟨by decide, by decide⟩
      · have hne : t.isEmpty = false := by cases t with | nil => exact absurd rfl h.1 | cons _ _ => rfl
        rw [hne]
        exact normRest_word true t h
    obtain ⟨tk, b, zl', hs, htk, hte, htv, hbv, hbe⟩ := rdata_last_tokens zl _ rest hL hword
    refine ⟨if t.isEmpty then [45] else upperAscii t, by simp [printPlan, printStep], ?_⟩
    rw [hs]
    simp only [parsePlan, headTok, hte, Bool.false_eq_true, ↓reduceIte, List.tail_cons, slurpRemainder, hbv, htk]
    rcases h with rfl | ⟨h, hd⟩
    · simp [zNewline, zBlank]
    · have hne : t.isEmpty = false := by cases t with | nil => exact absurd rfl h.1 | cons _ _ => rfl
      have hne' : t ≠ [] := h.1
      simp [hne, hne', hd, zNewline, zBlank]
  | rest u u' t h =>
    have hw := normRest_word u t h
    obtain ⟨tk, b, zl', hs, htk, hte, htv, hbv, hbe⟩ := rdata_last_tokens zl (normRest u t) rest hL hw
    refine ⟨normRest u t, by simp [printPlan, printStep, normRest], ?_⟩
    rw [hs]
    simp [parsePlan, endingToString, htv, hte, hbv, htk, zNewline, zString, zBlank]
  | tok u t h =>
    have hw := normRest_word u t h
    obtain ⟨tk, b, zl', hs, htk, hte, htv, hbv, hbe⟩ := rdata_last_tokens zl (normRest u t) rest hL hw
    refine ⟨normRest u t, by simp [printPlan, printStep, normRest], ?_⟩
    rw [hs]
    simp [parsePlan, headTok, slurpRemainder, hte, hbv, htk, zNewline, zBlank]
  | last p q v hk hw =>
    obtain ⟨w, hp, hword, hq⟩ := field_word p q v hk hw origin
    obtain ⟨tk, b, zl', hs, htk, hte, htv, hbv, hbe⟩ := rdata_last_tokens zl w rest hL hword
    refine ⟨w, by simp [printPlan, hp []], ?_⟩
    rw [hs, hq tk _ _ acc htk hte htv]
    simp [parsePlan, slurpRemainder, hbv, zNewline, zBlank]
  | lastRest p q v u u' t hk hw ht =>
    obtain ⟨w, hp, hword, hq⟩ := field_word p q v hk hw origin
    have hw2 := normRest_word u t ht
    obtain ⟨t1, b1, zl1, hs1, htk1, hte1, htv1, hbv1, hbe1, hL1⟩ :=
      rdata_word_tokens zl w (normRest u t ++ 10 :: rest) hL hword
    obtain ⟨t2, b2, zl2, hs2, htk2, hte2, htv2, hbv2, hbe2⟩ := rdata_last_tokens zl1 (normRest u t) rest hL1 hw2
    refine ⟨w ++ 32 :: normRest u t, by
      rw [printPlan_cons p _ _ _ w (hp _), printPlan_blank,
        printPlan_cons (.endStr u) [] [.s t] [] (normRest u t) (by simp [printStep, normRest])]
      simp [printPlan], ?_⟩
    rw [List.append_assoc, List.cons_append, hs1, hs2, hq t1 _ _ acc htk1 hte1 htv1]
    simp [parsePlan, endingToString, hbv1, hbe1, htv2, hte2, hbv2, htk2, zNewline, zString, zBlank]
  | lastSplit p q v n u' t hk hw hn ht =>
    obtain ⟨w, hp, hword, hq⟩ := field_word p q v hk hw origin
    have hj : ∃ fuel, joinWith 32 (splitN t n) = joinWith 32 (splitLoop n fuel t) := by
      unfold splitN
      split
      · exact ⟨0, rfl⟩
      · exact ⟨_, rfl⟩
    obtain ⟨fuel, hj⟩ := hj
    obtain ⟨t1, b1, zl1, hs1, htk1, hte1, htv1, hbv1, hbe1, hL1⟩ :=
      rdata_word_tokens zl w (joinWith 32 (splitN t n) ++ 10 :: rest) hL hword
    refine ⟨w ++ 32 :: joinWith 32 (splitN t n), by
      rw [printPlan_cons p _ _ _ w (hp _), printPlan_blank,
        printPlan_cons (.endStrSplit n) [] [.s t] [] (joinWith 32 (splitN t n)) (by simp [printStep])]
      simp [printPlan], ?_⟩
    rw [List.append_assoc, List.cons_append, hs1, hq t1 _ _ acc htk1 hte1 htv1]
    have z2 : ¬ zBlank = zNewline := by decide
    have z3 : ¬ zBlank = zString := by decide
    simp only [parsePlan, endingToString, hbv1, hbe1, z2, z3, Bool.false_eq_true, ↓reduceIte]
    rw [hj, split_tokens n hn fuel t ht.2 zl1 hL1 rest []]
    simp
  | consSalt t h P Q vs vs' hf ih =>
    have hword : Word (if t.isEmpty then [45] else upperAscii t) := by
      rcases h with rfl | ⟨h, _⟩
      · exact ⟨by decide, by decide⟩
      · have hne : t.isEmpty = false := by cases t with | nil => exact absurd rfl h.1 | cons _ _ => rfl
        rw [hne]
        exact normRest_word true t h
    obtain ⟨txt', hp', _⟩ := ih zl hL acc
    obtain ⟨t1, b1, zl1, hs1, htk1, hte1, htv1, hbv1, hbe1, hL1⟩ :=
      rdata_word_tokens zl (if t.isEmpty then [45] else upperAscii t) (txt' ++ 10 :: rest) hL hword
    obtain ⟨txt2, hp2, hq2⟩ := ih zl1 hL1 (acc ++ [.s (if t = [] then [] else upperAscii t)])
    have : txt2 = txt' := by rw [hp'] at hp2; exact (Option.some.inj hp2).symm
    subst this
    have hprint : printPlan (.salt :: .blank :: P) (.s t :: vs) = some ((if t.isEmpty then [45] else upperAscii t) ++ 32 :: txt2) := by
      simp [printPlan, printStep, hp']
    refine ⟨_, hprint, ?_⟩
    rw [List.append_assoc, List.cons_append, hs1]
    have hne : (if t.isEmpty then [45] else upperAscii t) ≠ [] := hword.1
    have hval : (if (if t.isEmpty then [45] else upperAscii t) = [45] then [] else (if t.isEmpty then [45] else upperAscii t)) =
        (if t = [] then [] else upperAscii t) := by
      rcases h with rfl | ⟨h, hd⟩
      · simp
      · have hne1 : t.isEmpty = false := by cases t with | nil => exact absurd rfl h.1 | cons _ _ => rfl
        have hne2 : t ≠ [] := h.1
        simp [hne1, hne2, hd]
    simp only [parsePlan, headTok, List.tail_cons]
    simp only [htk1, hte1, hne, Bool.false_eq_true, or_self, ↓reduceIte, hval]
    rw [hq2]
    simp
  | types p q v ts hk hw hts =>
    obtain ⟨w, hp, hword, hq⟩ := field_word p q v hk hw origin
    obtain ⟨t1, toks, hs, htk, hte, htv, hpar⟩ := types_tokens ts hts zl w rest hL hword []
    refine ⟨w ++ typesText ts, by
      rw [printPlan_cons p _ _ _ w (hp _), printPlan_cons .typeList [] [.nl ts] [] (typesText ts) (by simp [printStep])]
      simp [printPlan], ?_⟩
    rw [List.append_assoc, hs, hq t1 _ _ acc htk hte htv]
    simp [parsePlan, hpar]
  | cons p q v P Q vs vs' hk hw h ih =>
    obtain ⟨w, hp, hword, hq⟩ := field_word p q v hk hw origin
    obtain ⟨txt', hp', _⟩ := ih zl hL acc
    obtain ⟨t1, b1, zl1, hs1, htk1, hte1, htv1, hbv1, hbe1, hL1⟩ := rdata_word_tokens zl w (txt' ++ 10 :: rest) hL hword
    obtain ⟨txt2, hp2, hq2⟩ := ih zl1 hL1 (acc ++ [v])
    have : txt2 = txt' := by rw [hp'] at hp2; exact (Option.some.inj hp2).symm
    subst this
    refine ⟨w ++ 32 :: txt2, by rw [printPlan_cons p _ _ _ w (hp vs), printPlan_blank, hp']; simp, ?_⟩
    rw [List.append_assoc, List.cons_append, hs1, hq t1 _ _ acc htk1 hte1 htv1]
    simp only [parsePlan, List.tail_cons]
    rw [hq2]
    simp

end Dns.C05X
