package main

// Correspondence for the message-level signature models (lean/DnsModel/Signed.lean): `tsig.verify` / `tsig.generate`
// (stripTsig, tsigVerify, the buffer TsigGenerate returns) and `sig0.sign` / `sig0.verify` (what SIG.Sign hashes and
// returns, SIG.Verify as a whole with the signature check done here with the standard library).

import (
	"crypto/ed25519"
	"encoding/hex"
	"fmt"
	"time"

	"github.com/miekg/dns"
)

// tapProvider accepts every MAC and records what tsigVerify handed to it.
type tapProvider struct {
	calls  int
	digest []byte
	name   string
	alg    string
	mac    string
	ts     uint64
	fudge  uint16
}

func (p *tapProvider) Generate(msg []byte, t *dns.TSIG) ([]byte, error) { return nil, dns.ErrSig }
func (p *tapProvider) Verify(msg []byte, t *dns.TSIG) error {
	p.calls++
	p.digest = append([]byte{}, msg...)
	p.name, p.alg, p.mac, p.ts, p.fudge = t.Hdr.Name, t.Algorithm, t.MAC, t.TimeSigned, t.Fudge
	return nil
}

// tsigModelOp runs the real tsigVerify on msg with a provider that accepts everything and compares, with the model:
// whether stripTsig got through, the digest handed to the MAC function, algorithm, MAC, signing time, fudge, the window.
func tsigModelOp(c *Ctx, stream string, msg []byte, reqMAC string, timers bool, at uint64) {
	tp := &tapProvider{}
	var err error
	res := guard(func() string {
		err = dns.VerifTsigVerifyProvider(append([]byte{}, msg...), tp, reqMAC, timers, at)
		return "returned"
	})
	if res != "returned" {
		c.Pred(stream, "tsig-verify-no-panic", "msg="+hx(msg), false, res, "returned", true)
		return
	}
	want := ""
	switch {
	case tp.calls == 0:
		want = "striperr"
		c.Hit("tsig.verify:striperr")
	case tp.name == "":
		// no TSIG record among the additional records: the zero TSIG, whose signing time is the wall clock
		varsLen := 20
		if timers {
			varsLen = 8
		}
		macLen := 0
		if reqMAC != "" {
			macLen = 2 + len(reqMAC)/2
		}
		if len(tp.digest) < macLen+varsLen {
			c.Pred(stream, "tsig-zero-record-digest", "msg="+hx(msg), false, hx(tp.digest), "request MAC, message, variables of the zero record", true)
			return
		}
		want = "0 " + hx(tp.digest[macLen:len(tp.digest)-varsLen])
		c.Hit("tsig.verify:no-tsig-record")
	default:
		wall := uint64(time.Now().Unix())
		if tp.ts+100 >= wall && tp.ts <= wall+100 {
			c.Hit("tsig.verify:skipped-wall-clock")
			return // a TimeSigned of 0 is replaced by the wall clock: not reproducible
		}
		verdict := "accepted"
		if err == dns.ErrTime {
			verdict = "badtime"
		} else if err != nil {
			verdict = "error:" + err.Error()
		}
		want = fmt.Sprintf("1 %s %s %s %d %d %s", hx(tp.digest), hxs(tp.alg), strOrDash(tp.mac), tp.ts, tp.fudge, verdict)
		c.Hit("tsig.verify:" + verdict)
	}
	c.Op(stream, fmt.Sprintf("tsig.verify %s %s %s %d", hx(msg), strOrDash(reqMAC), b01(timers), at), want, true)
}

// sigVerifyQuery: one buffer given to the real SIG.Verify, to be compared with the model's verdict afterwards.
type sigVerifyQuery struct {
	buf  []byte
	real string // "ok" / "err" / "panic"
	at   uint32
	in   string
}

// sigModelVerdicts sends the collected buffers through the model of SIG.Verify (walk, window, signer name; the model
// returns the octets to be checked and the signature) and finishes the verdict with ed25519.Verify from the standard
// library: the result must be what the real Verify returned.
func sigModelVerdicts(c *Ctx, stream string, pub ed25519.PublicKey, keyName string, qs []sigVerifyQuery) {
	if len(qs) == 0 {
		return
	}
	ops := make([]string, len(qs))
	for i, q := range qs {
		ops[i] = fmt.Sprintf("sig0.verify %s %s %d", hx(q.buf), hxs(keyName), q.at)
	}
	outs, err := RunDriver(ops)
	if err != nil || len(outs) != len(ops) {
		c.Pred(stream, "sig0-verify-model-ran", fmt.Sprintf("%d buffers", len(qs)), false, fmt.Sprint(err), "one line per buffer", true)
		return
	}
	c.Res.ModelOps += len(ops)
	for i, q := range qs {
		var state string
		var incept, expire uint32
		var hin, hsig string
		n, _ := fmt.Sscanf(outs[i], "%s %d %d %s %s", &state, &incept, &expire, &hin, &hsig)
		want := "err"
		switch {
		case outs[i] == "panic":
			want = "panic"
		case outs[i] == "refused-walk" || outs[i] == "short":
			want = "err"
		case n == 5:
			near := func(a, b uint32) bool { d := int64(a) - int64(b); return d >= -3 && d <= 3 }
			if near(q.at, incept) || near(q.at, expire) {
				c.Hit("sig0.verify:skipped-window-edge")
				continue // the real Verify reads the clock itself: a second may have passed
			}
			if state == "crypto" {
				d, s := unhx(hin), unhx(hsig)
				if len(s) == ed25519.SignatureSize && ed25519.Verify(pub, d, s) {
					want = "ok"
				}
			} else if state == "panic" {
				want = "panic"
			}
		default:
			c.Pred(stream, "sig0-verify-model-output", q.in, false, outs[i], "a verdict line", true)
			continue
		}
		c.Hit("sig0.verify:" + want)
		if want != q.real {
			c.addViol(Violation{Key: "corr:sig0.verify", Kind: "correspondence", Stream: stream, Op: ops[i], Impl: q.real, Model: want + " (" + cut(outs[i], 200) + ")"})
		}
		c.count(ops[i]+" => "+q.real, true)
	}
}

func cut(s string, n int) string {
	if len(s) > n {
		return s[:n]
	}
	return s
}

var _ = hex.EncodeToString
