package main

import (
	"encoding/hex"
	"fmt"
	"net"
	"sort"
	"strings"

	"github.com/miekg/dns"
)

func init() { props["C08"] = runC08 }

func c08Msg(c *Ctx, stream string, m *dns.Msg, plain bool) {
	for _, comp := range []bool{false, true} {
		m.Compress = comp
		l := m.Len()
		b, err := m.Pack()
		in := fmt.Sprintf("compress=%s msg=%s", b01(comp), hx(b))
		if err != nil {
			c.Pred(stream, "pack-has-room", fmt.Sprintf("compress=%s %s", b01(comp), m.String()), false, err.Error(), "nil", true)
			continue
		}
		nt := len(m.Answer)+len(m.Ns)+len(m.Extra) > 0
		c.Pred(stream, "len-ge-pack", in, l >= len(b), fmt.Sprint(l), fmt.Sprint(">= ", len(b)), nt)
		if plain {
			c.Pred(stream, "len-exact-plain", in, l == len(b), fmt.Sprint(l), fmt.Sprint(len(b)), nt)
		}
		if l > len(b) {
			c.Hit("len>pack")
		} else {
			c.Hit("len=pack")
		}
	}
	// single records
	for _, s := range [][]dns.RR{m.Answer, m.Ns, m.Extra} {
		for _, rr := range s {
			lenRRCorr(c, stream, rr)
			w, err := packRRBytes(rr)
			if err != nil {
				c.Pred(stream, "packrr-has-room", rr.String(), false, err.Error(), "nil", true)
				continue
			}
			c.Pred(stream, "lenrr-ge-pack", "rr="+hx(w), dns.Len(rr) >= len(w), fmt.Sprint(dns.Len(rr)), fmt.Sprint(">= ", len(w)), true)
			if plain {
				c.Pred(stream, "lenrr-exact-plain", "rr="+hx(w), dns.Len(rr) == len(w), fmt.Sprint(dns.Len(rr)), fmt.Sprint(len(w)), true)
			}
		}
	}
	// PackBuffer: uses the caller's buffer whenever it is larger than the uncompressed length
	m.Compress = false
	ul := m.Len()
	for _, comp := range []bool{false, true} {
		m.Compress = comp
		for _, d := range []int{-1, 0, 1, 2, 40} {
			if ul+d < 1 {
				continue
			}
			buf := make([]byte, ul+d)
			res, err := m.PackBuffer(buf)
			in := fmt.Sprintf("compress=%s buflen=uncompressed%+d", b01(comp), d)
			if err != nil || len(res) == 0 {
				c.Pred(stream, "packbuffer-has-room", in, false, fmt.Sprint(err), "nil", true)
				continue
			}
			same := &res[0] == &buf[0]
			if d > 0 {
				c.Pred(stream, "packbuffer-uses-callers", in, same, "allocated", "caller's buffer", true)
			}
		}
	}
	if plain {
		// correspondence with the Lean model of Len's simulated compression
		m.Compress = false
		b0, _ := m.Pack()
		w0 := walkMsg(b0)
		if w0.Err == "" {
			items := w0.items(b0, presentLabels)
			isComp := len(m.Question) > 1 || len(m.Answer) > 0 || len(m.Ns) > 0 || len(m.Extra) > 0
			for _, comp := range []bool{false, true} {
				m.Compress = comp
				c.Op(stream, fmt.Sprintf("len.msg %s 12 %s", b01(comp && isComp), strings.Join(items, " ")), fmt.Sprint(m.Len()), true)
			}
		}
	}
}

// fixedTailChecks: a record whose last field is an integer, an address or a name (never empty on the wire): a buffer of
// exactly Len(rr) octets is room enough for PackRR, and ToRFC3597 — which packs into such a buffer — gives the RDATA.
// (Records that end in an empty string or list are left out: there the library asks for one octet more than it writes.)
func fixedTailChecks(c *Ctx, stream string, g *GenRR, rr dns.RR) {
	pl := loadSpec().byCode[g.Type]
	if pl == nil || len(pl.Steps) == 0 || len(g.Rdata) == 0 {
		return
	}
	last := pl.Steps[len(pl.Steps)-1].Codec
	if !(strings.HasPrefix(last, "unpackUint") || last == "unpackDataA" || last == "unpackDataAAAA" || last == "UnpackDomainName") {
		return
	}
	buf := make([]byte, dns.Len(rr))
	_, perr := dns.PackRR(rr, buf, 0, nil, false)
	in := fmt.Sprintf("type=%s wire=%s", pl.Type, hx(g.Wire))
	c.Pred(stream, "exact-buffer-suffices:"+pl.Type, in, perr == nil, fmt.Sprint(perr), "nil", true)
	r3 := new(dns.RFC3597)
	e3 := r3.ToRFC3597(rr)
	c.Pred(stream, "to-rfc3597:"+pl.Type, in, e3 == nil && r3.Rdata == hex.EncodeToString(g.Rdata), fmt.Sprint(e3, " ", r3.Rdata), hx(g.Rdata), true)
}

func runC08(c *Ctx) {
	r := c.R
	c.Res.Rule = "messages decoded from generated wire data (all types incl. bitmaps, OPT, SVCB, APL; escaped names; shared suffixes), both compression settings; plain = common types with escape-free content; non-trivial = at least one record; distinct by content"
	n := c.Scale(4000, 100000)
	for i := 0; i < n; i++ {
		plain := r.Chance(40)
		g := genMsg(r, msgOpts{mode: r.Intn(3), plain: plain, pool: r.Chance(80), maxAn: 5, maxNs: 3, maxEx: 3, optPct: 25})
		m, err := unpackGen(g)
		if err != nil {
			c.Pred("gen", "generator", hx(g.Wire), false, err.Error(), "decodes", false)
			continue
		}
		if plain && g.HasOpt {
			plain = false
		}
		c08Msg(c, "random", m, plain)
	}
	// every type on its own (Len(rr) >= packed, Pack has room)
	t := loadSpec()
	for k := 0; k < c.Scale(20, 300); k++ {
		for _, typ := range t.wireTypes() {
			g := &GenMsg{}
			g.An = []*GenRR{genRR(r, typ, r.Intn(3), r.Bool())}
			g.Wire = buildMsgWire(1, 0x8000, nil, g.An, nil, nil)
			m, err := unpackGen(g)
			if err != nil {
				continue
			}
			c08Msg(c, "per-type", m, false)
			if len(m.Answer) == 1 {
				fixedTailChecks(c, "per-type", g.An[0], m.Answer[0])
			}
		}
	}
	// beyond 16384 octets
	for i := 0; i < c.Scale(10, 200); i++ {
		setNamePool(r, 0)
		m := new(dns.Msg)
		m.SetQuestion(presentLabels(nameFor(r, 0)), dns.TypeMX)
		pad := 16384 - 500 + r.Intn(700)
		for m.Len() < pad {
			m.Answer = append(m.Answer, &dns.TXT{Hdr: dns.RR_Header{Name: presentLabels(nameFor(r, 0)), Rrtype: dns.TypeTXT, Class: 1, Ttl: 1},
				Txt: []string{strings.Repeat("x", 200), strings.Repeat("y", 50+r.Intn(200))}})
		}
		for k := 0; k < 10; k++ {
			m.Answer = append(m.Answer, &dns.MX{Hdr: dns.RR_Header{Name: presentLabels(nameFor(r, 0)), Rrtype: dns.TypeMX, Class: 1, Ttl: 1},
				Preference: 10, Mx: presentLabels(nameFor(r, 0))})
		}
		namePool = nil
		c08Msg(c, "limit16384", m, true)
	}
	// messages whose uncompressed form is longer than 65535 octets while the compressed form fits: Pack has room
	for _, n := range []int{1190, 1195, 1250, 2500} {
		m := new(dns.Msg)
		m.SetQuestion("a-rather-long-owner-name-shared-by-all-records.example.org.", dns.TypeA)
		for i := 0; i < n; i++ {
			m.Answer = append(m.Answer, &dns.A{Hdr: dns.RR_Header{Name: "a-rather-long-owner-name-shared-by-all-records.example.org.", Rrtype: dns.TypeA, Class: 1, Ttl: 1},
				A: []byte{10, 0, byte(i >> 8), byte(i)}})
		}
		m.Compress = true
		l := m.Len()
		b, err := m.Pack()
		in := fmt.Sprintf("%d A records with one owner, compress=true, Len=%d", n, l)
		if l <= 65535 {
			c.Pred("large-compressible", "pack-has-room", in, err == nil, fmt.Sprint(err), "nil", true)
			if err == nil {
				c.Pred("large-compressible", "len-ge-pack", in, l >= len(b), fmt.Sprint(l), fmt.Sprint(">= ", len(b)), true)
			}
		}
	}
	// hand-built records: the typed zero value of every registered type (nil slices, empty strings, nil addresses —
	// shapes that neither NewRR nor Unpack ever produce), alone and several in one message
	var codes []int
	for code := range dns.TypeToRR {
		codes = append(codes, int(code))
	}
	sort.Ints(codes)
	for _, code := range codes {
		for _, n := range []int{1, 2, 3} {
			m := new(dns.Msg)
			for i := 0; i < n; i++ {
				rr := dns.TypeToRR[uint16(code)]()
				*rr.Header() = dns.RR_Header{Name: "x.example.", Rrtype: uint16(code), Class: 1, Ttl: 1}
				m.Answer = append(m.Answer, rr)
			}
			c08Msg(c, "zero-values", m, false)
		}
	}
	// hand-built EDNS0 options and SVCB parameters in spellings that are valid but that Unpack never produces: names without
	// the final dot, addresses in 4- and 16-octet form, upper-case hex, empty values
	{
		ip4in16 := net.ParseIP("192.0.2.1")
		opts := []dns.EDNS0{
			&dns.EDNS0_REPORTING{Code: dns.EDNS0REPORTING, AgentDomain: "agent.example"},
			&dns.EDNS0_REPORTING{Code: dns.EDNS0REPORTING, AgentDomain: "a"},
			&dns.EDNS0_REPORTING{Code: dns.EDNS0REPORTING, AgentDomain: strings.Repeat("a234567.", 30) + "end"},
			&dns.EDNS0_SUBNET{Code: dns.EDNS0SUBNET, Family: 1, SourceNetmask: 24, Address: ip4in16},
			&dns.EDNS0_SUBNET{Code: dns.EDNS0SUBNET, Family: 1, SourceNetmask: 32, Address: ip4in16.To4()},
			&dns.EDNS0_SUBNET{Code: dns.EDNS0SUBNET, Family: 2, SourceNetmask: 56, Address: net.ParseIP("2001:db8::1")},
			&dns.EDNS0_NSID{Code: dns.EDNS0NSID, Nsid: "ABCDEF"},
			&dns.EDNS0_NSID{Code: dns.EDNS0NSID, Nsid: ""},
			&dns.EDNS0_COOKIE{Code: dns.EDNS0COOKIE, Cookie: "0102030405060708"},
			&dns.EDNS0_EXPIRE{Code: dns.EDNS0EXPIRE, Empty: true},
			&dns.EDNS0_EXPIRE{Code: dns.EDNS0EXPIRE, Expire: 7},
			&dns.EDNS0_PADDING{Padding: nil},
			&dns.EDNS0_PADDING{Padding: make([]byte, 3)},
			&dns.EDNS0_EDE{InfoCode: 1, ExtraText: ""},
			&dns.EDNS0_EDE{InfoCode: 1, ExtraText: "x"},
			&dns.EDNS0_TCP_KEEPALIVE{Code: dns.EDNS0TCPKEEPALIVE, Timeout: 0},
			&dns.EDNS0_TCP_KEEPALIVE{Code: dns.EDNS0TCPKEEPALIVE, Timeout: 100},
			&dns.EDNS0_LOCAL{Code: 65001, Data: nil},
		}
		for i := range opts {
			for _, k := range []int{1, 2} {
				o := &dns.OPT{Hdr: dns.RR_Header{Name: ".", Rrtype: dns.TypeOPT, Class: 1232}}
				for j := 0; j < k; j++ {
					o.Option = append(o.Option, opts[(i+j)%len(opts)])
				}
				m := new(dns.Msg)
				m.SetQuestion("q.example.", dns.TypeA)
				m.Extra = []dns.RR{o}
				c08Msg(c, "hand-built-options", m, false)
			}
		}
		for _, txt := range []string{`x. 1 IN SVCB 1 t alpn=h2`, `x. 1 IN SVCB 1 t. ipv4hint=192.0.2.1 port=1`, `x. 1 IN HTTPS 0 alias`, `x. 1 IN SVCB 1 . ech=AAEC key65000=""`,
			`x. 1 IN SVCB 2 t mandatory=ipv4hint,alpn alpn=h2 ipv4hint=192.0.2.2`, `x. 1 IN SVCB 1 . dohpath=/q{?dns} no-default-alpn alpn=h3`} {
			if rr, err := dns.NewRR(txt); err == nil && rr != nil {
				m := new(dns.Msg)
				m.Answer = []dns.RR{rr}
				c08Msg(c, "hand-built-options", m, false)
			}
		}
	}
	// records whose last field is empty (boundary of the pack buffer)
	for _, s := range []string{`x. 1 IN CAA 0 issue ""`, `x. 1 IN URI 1 1 ""`, `x. 1 IN TXT ""`, `x. 1 IN NULL`, `x. 1 IN HINFO "" ""`, `. 0 IN OPT`, `x. 1 IN SPF ""`} {
		rr, err := dns.NewRR(s)
		if err != nil || rr == nil {
			continue
		}
		m := new(dns.Msg)
		m.Answer = []dns.RR{rr}
		c08Msg(c, "empty-last-field", m, false)
	}
}
