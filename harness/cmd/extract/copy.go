package main

// Copy plans: for every `copy()` method (generated ztypes.go, hand-written edns.go / svcb.go / types.go)
// the positional composite literal it returns is matched against the struct definition; each field is
// classified by the reference kind of its Go type and by what the copy does with it.

import (
	"fmt"
	"go/ast"
	"sort"
	"strings"
)

type copyField struct {
	Field string
	Ref   string // none | flat (slice of scalars/strings, net.IP) | deep (slice of interfaces / structs with slices, net.IPNet)
	Op    string // assign | clone | rebuilt | copycall | other
}
type copyPlan struct {
	Type   string
	Fields []copyField
}

func (p *pkgInfo) structs() map[string]*ast.StructType {
	out := map[string]*ast.StructType{}
	for _, f := range p.files {
		for _, d := range f.Decls {
			gd, ok := d.(*ast.GenDecl)
			if !ok {
				continue
			}
			for _, s := range gd.Specs {
				if ts, ok := s.(*ast.TypeSpec); ok {
					if st, ok := ts.Type.(*ast.StructType); ok {
						out[ts.Name.Name] = st
					}
				}
			}
		}
	}
	return out
}

func (p *pkgInfo) refKind(t ast.Expr, structs map[string]*ast.StructType) string {
	src := p.src(t)
	switch {
	case src == "net.IP":
		return "flat"
	case src == "net.IPNet":
		return "deep"
	case strings.HasPrefix(src, "[]"):
		el := src[2:]
		switch el {
		case "string", "byte", "uint8", "uint16", "uint32", "uint64", "int":
			return "flat"
		case "net.IP":
			return "deep"
		}
		if b, ok := p.basicAlias()[el]; ok && b {
			return "flat"
		}
		return "deep"
	case strings.HasPrefix(src, "map["), strings.HasPrefix(src, "*"):
		return "deep"
	}
	if st, ok := structs[src]; ok {
		// embedded struct value: deep iff it contains references
		for _, f := range st.Fields.List {
			if p.refKind(f.Type, structs) != "none" {
				return "deep"
			}
		}
	}
	return "none"
}

func (p *pkgInfo) copyPlans() []copyPlan {
	structs := p.structs()
	var out []copyPlan
	for _, f := range p.files {
		for _, d := range f.Decls {
			fd, ok := d.(*ast.FuncDecl)
			if !ok || fd.Recv == nil || fd.Name.Name != "copy" || fd.Body == nil || len(fd.Recv.List[0].Names) == 0 {
				continue
			}
			T := recvName(fd.Recv.List[0].Type)
			recv := fd.Recv.List[0].Names[0].Name
			st := structs[T]
			if st == nil {
				continue
			}
			var fields []*ast.Field
			var names []string
			for _, fl := range st.Fields.List {
				if len(fl.Names) == 0 { // embedded
					fields = append(fields, fl)
					names = append(names, p.src(fl.Type))
					continue
				}
				for _, n := range fl.Names {
					fields = append(fields, fl)
					names = append(names, n.Name)
				}
			}
			// locals rebuilt by loops / make
			locals := map[string]bool{}
			ast.Inspect(fd.Body, func(n ast.Node) bool {
				if as, ok := n.(*ast.AssignStmt); ok {
					for _, l := range as.Lhs {
						if id, ok := l.(*ast.Ident); ok {
							locals[id.Name] = true
						}
					}
				}
				return true
			})
			var lit *ast.CompositeLit
			ast.Inspect(fd.Body, func(n ast.Node) bool {
				if rs, ok := n.(*ast.ReturnStmt); ok && len(rs.Results) == 1 {
					e := rs.Results[0]
					if ue, ok := e.(*ast.UnaryExpr); ok {
						e = ue.X
					}
					if cl, ok := e.(*ast.CompositeLit); ok {
						lit = cl
					}
				}
				return true
			})
			pl := copyPlan{Type: T}
			if lit == nil || len(lit.Elts) != len(fields) {
				pl.Fields = append(pl.Fields, copyField{"*", "deep", "other"})
				// a non-literal copy (e.g. HTTPS delegating to SVCB.copy) is accepted when it calls .copy()
				if strings.Contains(p.src(fd.Body), ".copy()") {
					pl.Fields[0].Op = "copycall"
				}
				out = append(out, pl)
				continue
			}
			for i, el := range lit.Elts {
				if kv, ok := el.(*ast.KeyValueExpr); ok {
					el = kv.Value
				}
				cf := copyField{Field: names[i], Ref: p.refKind(fields[i].Type, structs)}
				src := p.src(el)
				switch {
				case src == recv+"."+names[i]:
					cf.Op = "assign"
				case src == "cloneSlice("+recv+"."+names[i]+")":
					cf.Op = "clone"
				case src == "copyNet("+recv+"."+names[i]+")":
					cf.Op = "rebuilt"
				case locals[src]:
					cf.Op = "rebuilt"
				case strings.Contains(src, ".copy()"):
					cf.Op = "copycall"
				default:
					cf.Op = "other"
				}
				pl.Fields = append(pl.Fields, cf)
			}
			out = append(out, pl)
		}
	}
	sort.Slice(out, func(i, j int) bool { return out[i].Type < out[j].Type })
	return out
}

func leanCopyPlans(ps []copyPlan) string {
	var b strings.Builder
	b.WriteString("def copyPlans : List (String × List (String × String × String)) := [\n")
	for i, p := range ps {
		fmt.Fprintf(&b, "  (%s, [", leanStr(p.Type))
		for j, f := range p.Fields {
			if j > 0 {
				b.WriteString(", ")
			}
			fmt.Fprintf(&b, "(%s, %s, %s)", leanStr(f.Field), leanStr(f.Ref), leanStr(f.Op))
		}
		b.WriteString("])")
		if i < len(ps)-1 {
			b.WriteString(",")
		}
		b.WriteString("\n")
	}
	b.WriteString("]\n")
	return b.String()
}

// basicAlias: named types whose underlying type is a basic scalar (type SVCBKey uint16).
func (p *pkgInfo) basicAlias() map[string]bool {
	out := map[string]bool{}
	for _, f := range p.files {
		for _, d := range f.Decls {
			gd, ok := d.(*ast.GenDecl)
			if !ok {
				continue
			}
			for _, s := range gd.Specs {
				if ts, ok := s.(*ast.TypeSpec); ok {
					if id, ok := ts.Type.(*ast.Ident); ok {
						switch id.Name {
						case "uint8", "uint16", "uint32", "uint64", "int", "string", "byte", "bool":
							out[ts.Name.Name] = true
						}
					}
				}
			}
		}
	}
	return out
}
