/-
  C05 (text algebra) — an IPv4 address printed in dotted decimal is read back by the dotted-decimal reader as the same
  four octets.
-/
import DnsModel.TextCodec
import DnsProofs.C06Text
namespace Dns.C05I
open Dns Dns.TextCodec Dns.C06T

theorem octet_facts : ∀ a : Fin 256,
    (itoa a.val).all isDigitB = true ∧ (itoa a.val).isEmpty = false ∧
    ¬ ((itoa a.val).length > 1 ∧ (itoa a.val).head? = some 48) ∧
    (itoa a.val).foldl (fun x b => x * 10 + (b.toNat - 48)) 0 = a.val ∧ (itoa a.val).all plain = true := by
  decide +kernel

theorem takeWhile_digits (ds r : Bytes) (x : Byte) (h : ds.all isDigitB = true) (hx : isDigitB x = false) :
    (ds ++ x :: r).takeWhile isDigitB = ds := by
  induction ds with
  | nil => simp [List.takeWhile, hx]
  | cons d ds ih =>
    simp only [List.all_cons, Bool.and_eq_true] at h
    simp [List.takeWhile, h.1, ih h.2]

theorem takeWhile_all (ds : Bytes) (h : ds.all isDigitB = true) : ds.takeWhile isDigitB = ds := by
  induction ds with
  | nil => rfl
  | cons d ds ih =>
    simp only [List.all_cons, Bool.and_eq_true] at h
    simp [List.takeWhile, h.1, ih h.2]

theorem field_mid (a : Byte) (r : Bytes) : ipv4Field (itoa a.toNat ++ ([46] ++ r)) = some (a.toNat, 46 :: r) := by
  show ipv4Field (itoa a.toNat ++ 46 :: r) = _
  obtain ⟨h1, h2, h3, h4, _⟩ := octet_facts ⟨a.toNat, a.toNat_lt⟩
  simp only at h1 h2 h3 h4
  unfold ipv4Field
  simp only [takeWhile_digits _ r 46 h1 (by decide), h2, Bool.false_eq_true, if_false, h3, h4]
  have : ¬ a.toNat > 255 := by have := a.toNat_lt; omega
  simp [this]

theorem field_last (a : Byte) : ipv4Field (itoa a.toNat) = some (a.toNat, []) := by
  obtain ⟨h1, h2, h3, h4, _⟩ := octet_facts ⟨a.toNat, a.toNat_lt⟩
  simp only at h1 h2 h3 h4
  unfold ipv4Field
  simp only [takeWhile_all _ h1, h2, Bool.false_eq_true, if_false, h3, h4]
  have : ¬ a.toNat > 255 := by have := a.toNat_lt; omega
  simp [this]

/-- **ipv4_roundtrip**: for every four octets -/
theorem ipv4_roundtrip (a b c d : Byte) : parseIPv4 (printIPv4 [a, b, c, d]) = some [a, b, c, d] := by
  unfold printIPv4 parseIPv4
  simp only [List.append_assoc]
  rw [field_mid a]
  simp only
  rw [field_mid b]
  simp only
  rw [field_mid c]
  simp only
  rw [field_last d]
  simp [UInt8.ofNat_toNat]

theorem printIPv4_plain (a b c d : Byte) : (printIPv4 [a, b, c, d]).all plain = true := by
  have ha := (octet_facts ⟨a.toNat, a.toNat_lt⟩).2.2.2.2
  have hb := (octet_facts ⟨b.toNat, b.toNat_lt⟩).2.2.2.2
  have hc := (octet_facts ⟨c.toNat, c.toNat_lt⟩).2.2.2.2
  have hd := (octet_facts ⟨d.toNat, d.toNat_lt⟩).2.2.2.2
  simp only at ha hb hc hd
  simp only [printIPv4, List.all_append, ha, hb, hc, hd, Bool.and_true, Bool.true_and]
  decide

theorem printIPv4_ne_nil (a b c d : Byte) : printIPv4 [a, b, c, d] ≠ [] := by
  simp [printIPv4]

theorem printIPv4_no_colon (a b c d : Byte) : (printIPv4 [a, b, c, d]).contains 58 = false := by
  have h := printIPv4_plain a b c d
  rw [List.all_eq_true] at h
  cases hc : (printIPv4 [a, b, c, d]).contains 58 with
  | false => rfl
  | true =>
    -- a colon is plain, so this needs the digits: go through the shape instead
    have ha := (octet_facts ⟨a.toNat, a.toNat_lt⟩).1
    have hb := (octet_facts ⟨b.toNat, b.toNat_lt⟩).1
    have hcc := (octet_facts ⟨c.toNat, c.toNat_lt⟩).1
    have hd := (octet_facts ⟨d.toNat, d.toNat_lt⟩).1
    simp only at ha hb hcc hd
    rw [List.contains_iff_mem] at hc
    simp only [printIPv4, List.mem_append, List.mem_singleton] at hc
    have nd : ∀ (ds : Bytes), ds.all isDigitB = true → (58 : Byte) ∈ ds → False := by
      intro ds h hm
      rw [List.all_eq_true] at h
      have := h 58 hm
      revert this; decide
    rcases hc with ((((((h | h) | h) | h) | h) | h) | h)
    · exact (nd _ ha h).elim
    · revert h; decide
    · exact (nd _ hb h).elim
    · revert h; decide
    · exact (nd _ hcc h).elim
    · revert h; decide
    · exact (nd _ hd h).elim

end Dns.C05I
