/-
  C19 — label helpers agree with the wire-format label sequence on every name in the library's spelling.
-/
import DnsModel.Labels
import DnsProofs.C03
namespace Dns.C19
open Dns Dns.C03

/-! ### the backward backslash scan at a position = the trailing backslash run of the prefix -/

theorem getD_append_left (A B : Bytes) (i : Nat) (h : i < A.length) : (A ++ B).getD i 0 = A.getD i 0 := by
  simp [List.getD, List.getElem?_append_left h]

theorem getD_append_right (A B : Bytes) (i : Nat) : (A ++ B).getD (A.length + i) 0 = B.getD i 0 := by
  simp [List.getD, List.getElem?_append_right]

theorem bsRun_append (R B : Bytes) : bsRun (R.reverse ++ B) R.length = (R.takeWhile (· == 92)).length := by
  induction R generalizing B with
  | nil => simp [bsRun]
  | cons r R ih =>
    have e : (r :: R).reverse ++ B = R.reverse ++ (r :: B) := by simp
    rw [e]
    simp only [List.length_cons, bsRun]
    have hg : (R.reverse ++ (r :: B)).getD R.length 0 = r := by
      have := getD_append_right R.reverse (r :: B) 0
      simpa using this
    rw [hg, ih (r :: B), List.takeWhile_cons]
    by_cases h : (r == 92) = true
    · simp [h]
    · simp [h]

/-- at a token boundary the run of backslashes before the position is even -/
theorem bsRun_boundary_even (ls : List Bytes) (l : Bytes) (C : Bytes) :
    bsRun (presentLabels ls ++ presentLabel l ++ C) (presentLabels ls ++ presentLabel l).length % 2 = 0 := by
  have h := bsRun_append (presentLabels ls ++ presentLabel l).reverse C
  simp only [List.reverse_reverse, List.length_reverse] at h
  rw [h, List.reverse_append, presentLabel_reverse]
  exact even_run l.reverse (presentLabels ls).reverse (presentLabels_rev_nobs ls)

/-- the three shapes of a spelled octet -/
inductive TokShape : Bytes → Prop
  | plain (c : Byte) (h : c ≠ 46) (h' : c ≠ 92) : TokShape [c]
  | esc (c : Byte) : TokShape [92, c]
  | ddd (d1 d2 d3 : Byte) (n1 : d1 ≠ 46) (n2 : d2 ≠ 46) (n3 : d3 ≠ 46) : TokShape [92, d1, d2, d3]

theorem presentByte_kind : ∀ b : Byte,
    (presentByte b = [b] ∧ b ≠ 46 ∧ b ≠ 92)
    ∨ (presentByte b = [92, b])
    ∨ (presentByte b = [92, digitByte (b.toNat / 100), digitByte (b.toNat / 10 % 10), digitByte (b.toNat % 10)]
        ∧ digitByte (b.toNat / 100) ≠ 46 ∧ digitByte (b.toNat / 10 % 10) ≠ 46 ∧ digitByte (b.toNat % 10) ≠ 46) := by
  apply forall_byte
  decide +kernel

theorem presentByte_shape (b : Byte) : TokShape (presentByte b) := by
  rcases presentByte_kind b with ⟨e, h1, h2⟩ | e | ⟨e, n1, n2, n3⟩
  · rw [e]; exact .plain b h1 h2
  · rw [e]; exact .esc b
  · rw [e]; exact .ddd _ _ _ n1 n2 n3

theorem bsRun_succ (s : Bytes) (i : Nat) : bsRun s (i + 1) = if s.getD i 0 == 92 then bsRun s i + 1 else 0 := rfl

/-- inside a token that starts at an even-run boundary no position is a separating dot -/
theorem no_sep_in_tok (A C pb : Bytes) (hs : TokShape pb) (heven : bsRun (A ++ pb ++ C) A.length % 2 = 0)
    (t : Nat) (ht : t < pb.length) :
    isSepDot (A ++ pb ++ C) (A.length + t) = false := by
  have hchar : ∀ k, k < pb.length → (A ++ pb ++ C).getD (A.length + k) 0 = pb.getD k 0 := by
    intro k hk
    rw [List.append_assoc, getD_append_right, getD_append_left _ _ _ hk]
  unfold isSepDot
  cases hs with
  | plain c h46 _ =>
    have : t = 0 := by simpa using ht
    subst this
    have := hchar 0 (by simp)
    simp only [Nat.add_zero] at this ⊢
    rw [this]
    simp [h46]
  | esc c =>
    have ht2 : t = 0 ∨ t = 1 := by simp at ht; omega
    rcases ht2 with rfl | rfl
    · have := hchar 0 (by simp)
      simp only [Nat.add_zero] at this ⊢
      rw [this]; simp
    · have h0 := hchar 0 (by simp)
      simp only [Nat.add_zero] at h0
      rw [bsRun_succ, h0]
      simp only [List.getD_cons_zero, beq_self_eq_true, ↓reduceIte]
      have : (bsRun (A ++ [92, c] ++ C) A.length + 1) % 2 = 1 := by omega
      simp only [Bool.and_eq_false_imp, beq_iff_eq]
      intro _
      have e2 : A ++ [92, c] ++ C = A ++ 92 :: c :: C := by simp
      rw [e2] at this
      simp [this]
  | ddd d1 d2 d3 n1 n2 n3 =>
    have ht4 : t < 4 := by simpa using ht
    have hc := hchar t ht
    rw [hc]
    have : ([92, d1, d2, d3] : Bytes).getD t 0 ≠ 46 := by
      match t, ht4 with
      | 0, _ => simp
      | 1, _ => simpa using n1
      | 2, _ => simpa using n2
      | 3, _ => simpa using n3
    simp only [Bool.and_eq_false_imp, beq_iff_eq]
    intro h
    exact absurd h this

/-! ### labels -/

theorem presentLabel_append (a b : Bytes) : presentLabel (a ++ b) = presentLabel a ++ presentLabel b := by
  simp [presentLabel]

/-- no position inside the spelling of a label is a separating dot -/
theorem no_sep_in_label (ls : List Bytes) (pre l : Bytes) (C : Bytes) (t : Nat) (ht : t < (presentLabel l).length) :
    isSepDot (presentLabels ls ++ presentLabel pre ++ presentLabel l ++ C)
      ((presentLabels ls ++ presentLabel pre).length + t) = false := by
  induction l generalizing pre t with
  | nil => simp [presentLabel] at ht
  | cons b l ih =>
    have e : presentLabel (b :: l) = presentByte b ++ presentLabel l := by simp [presentLabel]
    by_cases h : t < (presentByte b).length
    · have heven := bsRun_boundary_even ls pre (presentByte b ++ (presentLabel l ++ C))
      have := no_sep_in_tok (presentLabels ls ++ presentLabel pre) (presentLabel l ++ C) (presentByte b)
        (presentByte_shape b) (by simpa [List.append_assoc] using heven) t h
      simpa [e, List.append_assoc] using this
    · have hle : (presentByte b).length ≤ t := by omega
      have ht' : t - (presentByte b).length < (presentLabel l).length := by
        rw [e] at ht; simp at ht; omega
      have := ih (pre ++ [b]) (t - (presentByte b).length) ht'
      have e2 : presentLabel (pre ++ [b]) = presentLabel pre ++ presentByte b := by
        rw [presentLabel_append]; simp [presentLabel]
      rw [e2] at this
      have e3 : (presentLabels ls ++ (presentLabel pre ++ presentByte b)).length + (t - (presentByte b).length)
          = (presentLabels ls ++ presentLabel pre).length + t := by
        simp only [List.length_append]; omega
      rw [e3] at this
      simpa [e, List.append_assoc] using this

/-- the dot that ends a label is a separating dot -/
theorem sep_at_label_end (ls : List Bytes) (l : Bytes) (C : Bytes) :
    isSepDot (presentLabels ls ++ presentLabel l ++ 46 :: C) (presentLabels ls ++ presentLabel l).length = true := by
  unfold isSepDot
  have hc : (presentLabels ls ++ presentLabel l ++ 46 :: C).getD (presentLabels ls ++ presentLabel l).length 0 = 46 := by
    have := getD_append_right (presentLabels ls ++ presentLabel l) (46 :: C) 0
    simpa using this
  rw [hc, bsRun_boundary_even ls l (46 :: C)]
  simp

/-- scanning from any position inside a label reaches the dot that ends it -/
theorem nextLabelLoop_in_label (ls : List Bytes) (l C : Bytes) (t fuel : Nat) (ht : t ≤ (presentLabel l).length)
    (hf : (presentLabel l).length - t < fuel) :
    nextLabelLoop (presentLabels ls ++ presentLabel l ++ 46 :: C) fuel ((presentLabels ls).length + t)
      = ((presentLabels ls ++ presentLabel l).length + 1, false) := by
  induction fuel generalizing t with
  | zero => omega
  | succ f ih =>
    simp only [nextLabelLoop]
    by_cases hend : t = (presentLabel l).length
    · subst hend
      have := sep_at_label_end ls l C
      simp only [List.length_append] at this ⊢
      rw [if_pos this]
    · have hlt : t < (presentLabel l).length := by omega
      have := no_sep_in_label ls [] l (46 :: C) t hlt
      simp only [presentLabel, List.flatMap_nil, List.append_nil] at this
      have e : presentLabels ls ++ List.flatMap presentByte l ++ 46 :: C = presentLabels ls ++ presentLabel l ++ 46 :: C := rfl
      rw [e] at this
      simp only [this, Bool.false_eq_true, ↓reduceIte]
      have := ih (t + 1) (by omega) (by omega)
      simpa [Nat.add_assoc] using this

/-- scanning the last label runs off the end: `end` is reported -/
theorem nextLabelLoop_last (ls : List Bytes) (l : Bytes) (t fuel : Nat) (ht : t ≤ (presentLabel l).length)
    (hf : fuel = (presentLabel l).length - t) :
    nextLabelLoop (presentLabels ls ++ presentLabel l ++ [46]) fuel ((presentLabels ls).length + t)
      = ((presentLabels ls ++ presentLabel l).length + 1, true) := by
  induction fuel generalizing t with
  | zero =>
    simp only [nextLabelLoop]
    have : t = (presentLabel l).length := by omega
    subst this
    simp [List.length_append]
  | succ f ih =>
    simp only [nextLabelLoop]
    have hlt : t < (presentLabel l).length := by omega
    have := no_sep_in_label ls [] l [46] t hlt
    simp only [presentLabel, List.flatMap_nil, List.append_nil] at this
    have e : presentLabels ls ++ List.flatMap presentByte l ++ [46] = presentLabels ls ++ presentLabel l ++ [46] := rfl
    rw [e] at this
    simp only [this, Bool.false_eq_true, ↓reduceIte]
    have := ih (t + 1) (by omega) (by omega)
    simpa [Nat.add_assoc] using this

theorem presentLabels_cons (l : Bytes) (ls : List Bytes) :
    presentLabels (l :: ls) = presentLabel l ++ 46 :: presentLabels ls := by simp [presentLabels]

theorem presentLabels_snoc (ls : List Bytes) (l : Bytes) :
    presentLabels (ls ++ [l]) = presentLabels ls ++ presentLabel l ++ [46] := by
  simp [presentLabels]

/-- **next-label stepping (1)**: from the start of a label that is not the last, `NextLabel` returns the start of
    the following label -/
theorem nextLabel_step (ls : List Bytes) (l : Bytes) (more : List Bytes) (hm : more ≠ []) :
    nextLabel (presentLabels (ls ++ l :: more)) (presentLabels ls).length
      = ((presentLabels (ls ++ [l])).length, false) := by
  have e : presentLabels (ls ++ l :: more) = presentLabels ls ++ presentLabel l ++ 46 :: presentLabels more := by
    simp [presentLabels]
  have hmore : 1 ≤ (presentLabels more).length := by
    cases more with
    | nil => exact absurd rfl hm
    | cons m ms => rw [presentLabels_cons]; simp only [List.length_append, List.length_cons]; omega
  unfold nextLabel
  have hne : (presentLabels (ls ++ l :: more)).isEmpty = false := by rw [e]; simp
  simp only [hne, Bool.false_eq_true, ↓reduceIte]
  rw [e]
  have := nextLabelLoop_in_label ls l (presentLabels more) 0
    ((presentLabels ls ++ presentLabel l ++ 46 :: presentLabels more).length - 1 - (presentLabels ls).length)
    (by omega) (by simp only [List.length_append, List.length_cons]; omega)
  simp only [Nat.add_zero] at this
  rw [this, presentLabels_snoc]
  simp only [List.length_append, List.length_cons, List.length_nil]

/-- **next-label stepping (2)**: from the start of the last label `NextLabel` reports the end of the name -/
theorem nextLabel_last (ls : List Bytes) (l : Bytes) :
    nextLabel (presentLabels (ls ++ [l])) (presentLabels ls).length
      = ((presentLabels (ls ++ [l])).length, true) := by
  rw [presentLabels_snoc]
  unfold nextLabel
  have hne : (presentLabels ls ++ presentLabel l ++ [46]).isEmpty = false := by simp
  simp only [hne, Bool.false_eq_true, ↓reduceIte]
  have := nextLabelLoop_last ls l 0 ((presentLabels ls ++ presentLabel l ++ [46]).length - 1 - (presentLabels ls).length)
    (by omega) (by simp only [List.length_append, List.length_cons, List.length_nil]; omega)
  simp only [Nat.add_zero] at this
  rw [this]
  simp only [List.length_append, List.length_cons, List.length_nil]

/-! ### CountLabel and Split -/

/-- start offsets of the labels of a spelled name, first one at `b` -/
def startsFrom (b : Nat) : List Bytes → List Nat
  | [] => []
  | l :: ls => b :: startsFrom (b + (presentLabel l).length + 1) ls

theorem presentLabels_snoc_length (ls : List Bytes) (l : Bytes) :
    (presentLabels (ls ++ [l])).length = (presentLabels ls).length + (presentLabel l).length + 1 := by
  rw [presentLabels_snoc]; simp only [List.length_append, List.length_cons, List.length_nil]

theorem countLoop_labels (done rest : List Bytes) (hr : rest ≠ []) (fuel n : Nat) (hf : rest.length ≤ fuel) :
    countLoop (presentLabels (done ++ rest)) fuel (presentLabels done).length n = n + rest.length := by
  induction rest generalizing done fuel n with
  | nil => exact absurd rfl hr
  | cons l more ih =>
    cases fuel with
    | zero => simp at hf
    | succ f =>
      simp only [countLoop]
      cases more with
      | nil => rw [nextLabel_last]; simp
      | cons m ms =>
        rw [nextLabel_step done l (m :: ms) (by simp)]
        simp only [Bool.false_eq_true, ↓reduceIte]
        have := ih (done ++ [l]) (by simp) f (n + 1) (by simpa using hf)
        simp only [List.append_assoc, List.singleton_append] at this
        rw [this]; simp only [List.length_cons]; omega

theorem splitLoop_labels (done rest : List Bytes) (hr : rest ≠ []) (fuel : Nat) (acc : List Nat)
    (hf : rest.length ≤ fuel) :
    splitLoop (presentLabels (done ++ rest)) fuel (presentLabels done).length acc
      = acc.reverse ++ (startsFrom (presentLabels done).length rest).tail := by
  induction rest generalizing done fuel acc with
  | nil => exact absurd rfl hr
  | cons l more ih =>
    cases fuel with
    | zero => simp at hf
    | succ f =>
      simp only [splitLoop]
      cases more with
      | nil => rw [nextLabel_last]; simp [startsFrom]
      | cons m ms =>
        rw [nextLabel_step done l (m :: ms) (by simp)]
        simp only [Bool.false_eq_true, ↓reduceIte]
        have := ih (done ++ [l]) (by simp) f ((presentLabels (done ++ [l])).length :: acc) (by simpa using hf)
        simp only [List.append_assoc, List.singleton_append] at this
        rw [this, presentLabels_snoc_length]
        simp [startsFrom]

theorem presentLabels_length_ge (ls : List Bytes) : ls.length ≤ (presentLabels ls).length := by
  induction ls with
  | nil => simp [presentLabels]
  | cons l ls ih => rw [presentLabels_cons]; simp only [List.length_append, List.length_cons]; omega

theorem presentLabels_ne_root (ls : List Bytes) (hne : ∀ l ∈ ls, l ≠ []) : presentLabels ls ≠ [46] := by
  cases ls with
  | nil => simp [presentLabels]
  | cons l ls =>
    rw [presentLabels_cons]
    have hl : l ≠ [] := hne l (by simp)
    cases l with
    | nil => exact absurd rfl hl
    | cons b bs =>
      have : presentLabel (b :: bs) = presentByte b ++ presentLabel bs := by simp [presentLabel]
      rw [this]
      have hb := C03.presentByte_ne_nil b
      intro h
      have hlen := congrArg List.length h
      simp only [List.length_append, List.length_cons, List.length_nil] at hlen
      have : 0 < (presentByte b).length := hb
      omega

/-- **CountLabel**: the canonical spelling of `n ≥ 1` non-empty labels has `n` labels -/
theorem countLabel_labels (ls : List Bytes) (h0 : ls ≠ []) (hne : ∀ l ∈ ls, l ≠ []) :
    countLabel (presentLabels ls) = ls.length := by
  unfold countLabel
  rw [if_neg (presentLabels_ne_root ls hne)]
  have := countLoop_labels [] ls h0 ((presentLabels ls).length + 1) 0
    (by have := presentLabels_length_ge ls; omega)
  simpa [presentLabels] using this

/-- **Split**: the offsets are exactly the label starts -/
theorem split_labels (ls : List Bytes) (h0 : ls ≠ []) (hne : ∀ l ∈ ls, l ≠ []) :
    split (presentLabels ls) = startsFrom 0 ls := by
  unfold split
  rw [if_neg (presentLabels_ne_root ls hne)]
  have := splitLoop_labels [] ls h0 ((presentLabels ls).length + 1) [0]
    (by have := presentLabels_length_ge ls; omega)
  simp only [List.nil_append, presentLabels, List.flatMap_nil, List.length_nil] at this
  have e : (List.flatMap (fun l => presentLabel l ++ [46]) ls) = presentLabels ls := rfl
  rw [e] at this
  rw [this]
  cases ls with
  | nil => exact absurd rfl h0
  | cons l ls => simp [startsFrom]

/-- the root has no labels and no offsets -/
theorem root_labels : countLabel [46] = 0 ∧ split [46] = [] := by decide

/-- `startsFrom` really lists the spelled length of each proper prefix of the label list -/
theorem startsFrom_eq (done ls : List Bytes) :
    startsFrom (presentLabels done).length ls
      = (List.range ls.length).map (fun i => (presentLabels (done ++ ls.take i)).length) := by
  induction ls generalizing done with
  | nil => simp [startsFrom]
  | cons l ls ih =>
    simp only [startsFrom, List.length_cons, List.range_succ_eq_map, List.map_cons, List.take_zero,
      List.append_nil, List.map_map]
    congr 1
    have := ih (done ++ [l])
    rw [presentLabels_snoc_length] at this
    rw [this]
    apply List.map_congr_left
    intro i _
    simp

/-! ### SplitDomainName -/

theorem slice_label (A l C : Bytes) : sliceFT (A ++ l ++ C) A.length (A.length + l.length) = l := by
  unfold sliceFT
  rw [List.append_assoc, List.drop_left]
  simp

theorem go_labels (done : List Bytes) (l : Bytes) (more : List Bytes) :
    splitDomainName.go (presentLabels (done ++ l :: more)) ((presentLabels (done ++ l :: more)).length - 1)
        (presentLabels done).length (startsFrom ((presentLabels done).length + (presentLabel l).length + 1) more)
      = (l :: more).map presentLabel := by
  induction more generalizing done l with
  | nil =>
    simp only [startsFrom, splitDomainName.go, List.map_cons, List.map_nil]
    rw [presentLabels_snoc]
    have : (presentLabels done ++ presentLabel l ++ [46]).length - 1
        = (presentLabels done).length + (presentLabel l).length := by
      simp only [List.length_append, List.length_cons, List.length_nil]; omega
    rw [this, slice_label]
  | cons m ms ih =>
    simp only [startsFrom, splitDomainName.go, List.map_cons]
    have e : presentLabels (done ++ l :: m :: ms)
        = presentLabels done ++ presentLabel l ++ 46 :: presentLabels (m :: ms) := by simp [presentLabels]
    congr 1
    · rw [e]
      have : (presentLabels done).length + (presentLabel l).length + 1 - 1
          = (presentLabels done).length + (presentLabel l).length := by omega
      rw [this, slice_label]
    · have := ih (done ++ [l]) m
      simp only [List.append_assoc, List.singleton_append, presentLabels_snoc_length, List.map_cons] at this
      exact this

/-- **SplitDomainName** returns the labels of the canonical spelling, in order -/
theorem splitDomainName_labels (ls : List Bytes) (h0 : ls ≠ []) (hne : ∀ l ∈ ls, l ≠ []) :
    splitDomainName (presentLabels ls) = ls.map presentLabel := by
  cases ls with
  | nil => exact absurd rfl h0
  | cons l more =>
    unfold splitDomainName
    have hemp : (presentLabels (l :: more)).isEmpty = false := by rw [presentLabels_cons]; simp
    simp only [hemp, Bool.false_eq_true, ↓reduceIte]
    rw [split_labels (l :: more) (by simp) hne]
    have hfq : isFqdn (presentLabels (l :: more)) = true := by
      rcases List.eq_nil_or_concat (l :: more) with h | ⟨i, x, h⟩
      · simp at h
      · rw [h, List.concat_eq_append]; exact C03.isFqdn_presentLabels i x
    simp only [hfq, ↓reduceIte, startsFrom]
    have := go_labels [] l more
    simpa [presentLabels] using this

/-! ### CompareDomainName and IsSubDomain -/

theorem startsFrom_snoc (b : Nat) (pre : List Bytes) (x : Bytes) :
    startsFrom b (pre ++ [x]) = startsFrom b pre ++ [b + (presentLabels pre).length] := by
  induction pre generalizing b with
  | nil => simp [startsFrom, presentLabels]
  | cons l ls ih =>
    simp only [List.cons_append, startsFrom, ih, presentLabels_cons, List.length_append, List.length_cons]
    have : b + (presentLabel l).length + 1 + (presentLabels ls).length
        = b + ((presentLabel l).length + ((presentLabels ls).length + 1)) := by omega
    rw [this]

theorem equalFold_dot (a b : Bytes) : equalFold (a ++ [46]) (b ++ [46]) = (foldLabel a == foldLabel b) := by
  unfold equalFold foldLabel lowerAll
  simp only [List.length_append, List.length_cons, List.length_nil, List.map_append, List.map_cons, List.map_nil]
  by_cases h : List.map lower a = List.map lower b
  · have hl := congrArg List.length h
    simp only [List.length_map] at hl
    simp [h, hl]
  · have : ¬ (List.map lower a ++ [lower 46] = List.map lower b ++ [lower 46]) := by
      intro h'; exact h (List.append_cancel_right h')
    simp [h, this]

theorem slice_mid (pre : List Bytes) (x : Bytes) (post : List Bytes) :
    sliceFT (presentLabels (pre ++ x :: post)) (presentLabels pre).length (presentLabels (pre ++ [x])).length
      = presentLabel x ++ [46] := by
  have e : presentLabels (pre ++ x :: post) = presentLabels pre ++ (presentLabel x ++ [46]) ++ presentLabels post := by
    simp [presentLabels]
  rw [e, presentLabels_snoc_length]
  have := slice_label (presentLabels pre) (presentLabel x ++ [46]) (presentLabels post)
  simp only [List.length_append, List.length_cons, List.length_nil, Nat.zero_add] at this
  rw [Nat.add_assoc]; exact this

theorem compareLoop_labels (rp1 rp2 post1 post2 : List Bytes) (fuel n : Nat) (hf : rp1.length ≤ fuel) :
    compareLoop (presentLabels (rp1.reverse ++ post1)) (presentLabels (rp2.reverse ++ post2)) fuel
        (startsFrom 0 rp1.reverse).reverse (startsFrom 0 rp2.reverse).reverse
        (presentLabels rp1.reverse).length (presentLabels rp2.reverse).length n
      = n + commonSuffixLen (rp1.map presentLabel) (rp2.map presentLabel) := by
  induction rp1 generalizing rp2 post1 post2 fuel n with
  | nil =>
    cases fuel <;> simp [compareLoop, startsFrom, commonSuffixLen]
  | cons a ra ih =>
    cases fuel with
    | zero => simp at hf
    | succ f =>
      cases rp2 with
      | nil => simp [compareLoop, startsFrom, commonSuffixLen, startsFrom_snoc]
      | cons b rb =>
        simp only [List.reverse_cons, startsFrom_snoc, List.reverse_append,
          Nat.zero_add, List.reverse_nil, List.nil_append, List.cons_append,
          List.map_cons, commonSuffixLen]
        unfold compareLoop
        have h1 := slice_mid ra.reverse a post1
        have h2 := slice_mid rb.reverse b post2
        simp only [List.append_assoc, List.singleton_append] at h1 h2 ⊢
        rw [h1, h2, equalFold_dot]
        by_cases he : (foldLabel (presentLabel a) == foldLabel (presentLabel b)) = true
        · simp only [he, ↓reduceIte]
          have := ih rb (a :: post1) (b :: post2) f (n + 1) (by simpa using hf)
          rw [this]; omega
        · simp [he]

theorem drop_last_label (pre : List Bytes) (x : Bytes) :
    (presentLabels (pre ++ [x])).drop (presentLabels pre).length = presentLabel x ++ [46] := by
  rw [presentLabels_snoc, List.append_assoc, List.drop_left]

/-- **CompareDomainName** counts the common trailing labels, ASCII-case-insensitively -/
theorem compareDomainName_labels (a b : List Bytes) (ha : a ≠ []) (hb : b ≠ [])
    (hna : ∀ l ∈ a, l ≠ []) (hnb : ∀ l ∈ b, l ≠ []) :
    compareDomainName (presentLabels a) (presentLabels b)
      = commonSuffix (a.map presentLabel) (b.map presentLabel) := by
  rcases List.eq_nil_or_concat a with h | ⟨pa, xa, h⟩
  · exact absurd h ha
  rcases List.eq_nil_or_concat b with h' | ⟨pb, xb, h'⟩
  · exact absurd h' hb
  rw [List.concat_eq_append] at h h'
  unfold compareDomainName commonSuffix
  have r1 := presentLabels_ne_root a hna
  have r2 := presentLabels_ne_root b hnb
  simp only [r1, r2, decide_false, Bool.or_self, Bool.false_eq_true, ↓reduceIte]
  rw [split_labels a ha hna, split_labels b hb hnb]
  subst h; subst h'
  simp only [startsFrom_snoc, List.reverse_append, List.reverse_singleton, List.singleton_append,
    Nat.zero_add, drop_last_label, equalFold_dot, List.map_append, List.map_cons, List.map_nil,
    commonSuffixLen]
  by_cases he : (foldLabel (presentLabel xa) == foldLabel (presentLabel xb)) = true
  · simp only [he, ↓reduceIte]
    have := compareLoop_labels pa.reverse pb.reverse [xa] [xb] ((presentLabels (pa ++ [xa])).length + 1) 1
      (by have := presentLabels_length_ge (pa ++ [xa]); simp at this ⊢; omega)
    simp only [List.reverse_reverse] at this
    rw [this, List.map_reverse, List.map_reverse]; omega
  · simp [he]

/-- the root shares no label with anything -/
theorem compareDomainName_root (s : Bytes) : compareDomainName [46] s = 0 ∧ compareDomainName s [46] = 0 := by
  unfold compareDomainName; simp

theorem commonSuffixLen_le (a b : List Bytes) : commonSuffixLen a b ≤ a.length := by
  induction a generalizing b with
  | nil => simp [commonSuffixLen]
  | cons x xs ih =>
    cases b with
    | nil => simp [commonSuffixLen]
    | cons y ys => simp only [commonSuffixLen]; split <;> simp; exact ih ys

theorem commonSuffixLen_full (a b : List Bytes) :
    commonSuffixLen a b = a.length ↔ a.map foldLabel <+: b.map foldLabel := by
  induction a generalizing b with
  | nil => simp [commonSuffixLen]
  | cons x xs ih =>
    cases b with
    | nil => simp [commonSuffixLen]
    | cons y ys =>
      simp only [commonSuffixLen, List.length_cons, List.map_cons, List.cons_prefix_cons]
      by_cases he : (foldLabel x == foldLabel y) = true
      · simp only [he, ↓reduceIte, Nat.add_right_cancel_iff, ih ys]
        simp [beq_iff_eq.mp he]
      · simp only [he, Bool.false_eq_true, ↓reduceIte]
        constructor
        · intro h; omega
        · intro h; exact absurd (beq_iff_eq.mpr h.1) he

/-- **IsSubDomain**: true exactly when the parent's labels are, case-insensitively, a suffix of the child's -/
theorem isSubDomain_labels (p c : List Bytes) (hp : p ≠ []) (hc : c ≠ [])
    (hnp : ∀ l ∈ p, l ≠ []) (hnc : ∀ l ∈ c, l ≠ []) :
    isSubDomain (presentLabels p) (presentLabels c) = true ↔
      p.map (fun l => foldLabel (presentLabel l)) <:+ c.map (fun l => foldLabel (presentLabel l)) := by
  unfold isSubDomain
  rw [compareDomainName_labels p c hp hc hnp hnc, countLabel_labels p hp hnp]
  unfold commonSuffix
  rw [beq_iff_eq]
  have := commonSuffixLen_full (p.map presentLabel).reverse (c.map presentLabel).reverse
  simp only [List.length_reverse, List.length_map, List.map_reverse, List.map_map, List.reverse_prefix] at this
  exact this

/-- folding commutes with spelling: case-insensitive comparison of spellings is comparison of folded labels -/
theorem fold_presentByte : ∀ b : Byte, lowerAll (presentByte b) = presentByte (lower b) := by
  apply forall_byte; decide +kernel

theorem fold_presentLabel (l : Bytes) : foldLabel (presentLabel l) = presentLabel (lowerAll l) := by
  induction l with
  | nil => rfl
  | cons b bs ih =>
    unfold foldLabel lowerAll presentLabel at *
    simp only [List.flatMap_cons, List.map_append, List.map_cons]
    rw [ih]
    have := fold_presentByte b
    unfold lowerAll at this
    rw [this]

/-! ### non-vacuity -/

/-- `a\.b.C.` : two labels, the first containing a dot; hypotheses of the theorems above hold and the functions agree -/
example : let ls : List Bytes := [[97, 46, 98], [67]]
    ls ≠ [] ∧ (∀ l ∈ ls, l ≠ []) ∧ presentLabels ls = [97, 92, 46, 98, 46, 67, 46] ∧
    countLabel (presentLabels ls) = 2 ∧ split (presentLabels ls) = [0, 5] ∧
    isSubDomain (presentLabels [[99]]) (presentLabels ls) = true := by decide

end Dns.C19
