#!/bin/bash
# usage: seeded_run.sh [id...]   for every /verif/seeded/<id>: apply patch.diff to /repo, run the quick check of its
# property, undo the patch, and record the outcome in seeded/<id>/result.json.  Never commits anything in /repo.
cd /verif
ids="$@"; [ -z "$ids" ] && ids=$(ls seeded)
for id in $ids; do
  d=/verif/seeded/$id
  [ -f $d/patch.diff ] || continue
  prop=$(python3 -c "import json;print(json.load(open('$d/meta.json'))['property'])")
  if ! git -C /repo diff --quiet; then echo "/repo has local changes; refusing"; exit 2; fi
  git -C /repo apply $d/patch.diff || { echo "$id PATCH-DOES-NOT-APPLY"; continue; }
  # the evidence file describes the unchanged tree: keep it aside while the changed tree is checked
  cp evidence/$prop.json /verif/.build/evidence_$prop.keep 2>/dev/null
  out=$(./check $prop 2>&1); rc=$?
  git -C /repo checkout -- .
  [ -f /verif/.build/evidence_$prop.keep ] && mv /verif/.build/evidence_$prop.keep evidence/$prop.json
  nviol=$(echo "$out" | grep -c '^VIOLATION')
  first=$(echo "$out" | grep '^VIOLATION' | head -1 | cut -c1-200)
  sum=$(echo "$out" | grep -E "^$prop tier" | tail -1)
  replay=$(echo "$first" | sed -n 's/.*replay=\([^ ]*\).*/\1/p')
  what=""
  if [ -n "$replay" ] && [ -f "$replay" ]; then
    what=$(python3 - "$replay" <<'PY'
import json,sys
r=json.load(open(sys.argv[1]))
vs=r.get('violations') or []
o={'failed_obligations':r.get('failed_obligations') or []}
if vs:
    v=vs[0]
    o.update({k:(str(v.get(k))[:300]) for k in ('kind','stream','key','op','input','impl','model','want') if k in v})
print(json.dumps(o))
PY
)
  fi
  python3 - "$d/result.json" "$prop" "$rc" "$nviol" "$first" "$sum" "$what" <<'PY'
import json,sys
p,prop,rc,n,first,summ,what=sys.argv[1:8]
try: w=json.loads(what) if what else None
except Exception: w=what
json.dump({"check":"./check %s --tier quick"%prop,"exit":int(rc),"violation_lines":int(n),"first_violation":first,"first_violation_detail":w,"summary":summ,"caught":int(rc)!=0 and int(n)>0},open(p,'w'),indent=1)
PY
  echo "$id rc=$rc violations=$nviol | $sum"
done
