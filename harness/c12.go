package main

import (
	"encoding/binary"
	"errors"
	"fmt"
	"io"
	"net"
	"os"
	"strings"
	"sync"
	"sync/atomic"
	"time"

	"github.com/miekg/dns"
)

func init() { props["C12"] = runC12 }

// chunkConn: a stream whose reads return at most the rest of the current chunk.
type chunkConn struct {
	chunks [][]byte
	wrote  [][]byte
	wmax   int // >0: Write accepts at most this many octets per call (short writes are the caller's problem)
}

func (c *chunkConn) Read(p []byte) (int, error) {
	for len(c.chunks) > 0 && len(c.chunks[0]) == 0 {
		c.chunks = c.chunks[1:]
	}
	if len(c.chunks) == 0 {
		return 0, io.EOF
	}
	n := copy(p, c.chunks[0])
	c.chunks[0] = c.chunks[0][n:]
	return n, nil
}
func (c *chunkConn) Write(p []byte) (int, error) {
	c.wrote = append(c.wrote, append([]byte{}, p...))
	return len(p), nil
}
func (c *chunkConn) Close() error                     { return nil }
func (c *chunkConn) LocalAddr() net.Addr              { return &net.TCPAddr{IP: net.IPv4(127, 0, 0, 1), Port: 1} }
func (c *chunkConn) RemoteAddr() net.Addr             { return &net.TCPAddr{IP: net.IPv4(127, 0, 0, 1), Port: 53} }
func (c *chunkConn) SetDeadline(time.Time) error      { return nil }
func (c *chunkConn) SetReadDeadline(time.Time) error  { return nil }
func (c *chunkConn) SetWriteDeadline(time.Time) error { return nil }

// randomChunks cuts b into pieces: single octets, inside the length prefix, large blocks
func randomChunks(r *Rng, b []byte) [][]byte {
	var out [][]byte
	for len(b) > 0 {
		n := 1 + r.Intn(3)
		switch r.Intn(4) {
		case 0:
			n = 1
		case 1:
			n = 1 + r.Intn(40)
		case 2:
			n = 1 + r.Intn(len(b))
		}
		if n > len(b) {
			n = len(b)
		}
		out = append(out, b[:n])
		b = b[n:]
		if r.Chance(10) {
			out = append(out, nil) // a zero-length read
		}
	}
	return out
}

func chunksHex(cs [][]byte) string {
	var hs []string
	for _, c := range cs {
		if len(c) > 0 {
			hs = append(hs, hx(c))
		}
	}
	return strings.Join(hs, " ")
}

// readAll: repeatedly ReadMsgHeader until an error; canonical rendering as the driver does
func readAll(cc *chunkConn) string {
	co := &dns.Conn{Conn: cc}
	var out []string
	for i := 0; i < 1000; i++ {
		p, err := co.ReadMsgHeader(nil)
		if err != nil {
			switch {
			case err == io.EOF:
				out = append(out, "eof")
			case err == io.ErrUnexpectedEOF:
				out = append(out, "unexpected")
			default:
				out = append(out, "err:"+err.Error())
			}
			break
		}
		out = append(out, hx(p))
	}
	return strings.Join(out, " ")
}

// scriptPC: a datagram "connection" with scripted inbound datagrams.
type scriptPC struct {
	in  [][]byte // nil entry = read error (deadline)
	out [][]byte
}

type timeoutErr struct{}

func (timeoutErr) Error() string   { return "i/o timeout" }
func (timeoutErr) Timeout() bool   { return true }
func (timeoutErr) Temporary() bool { return true }

func (c *scriptPC) Read(p []byte) (int, error) {
	if len(c.in) == 0 {
		return 0, timeoutErr{}
	}
	d := c.in[0]
	c.in = c.in[1:]
	if d == nil {
		return 0, timeoutErr{}
	}
	return copy(p, d), nil
}
func (c *scriptPC) ReadFrom(p []byte) (int, net.Addr, error) {
	n, err := c.Read(p)
	return n, c.RemoteAddr(), err
}
func (c *scriptPC) Write(p []byte) (int, error) {
	c.out = append(c.out, append([]byte{}, p...))
	return len(p), nil
}
func (c *scriptPC) WriteTo(p []byte, _ net.Addr) (int, error) { return c.Write(p) }
func (c *scriptPC) Close() error                              { return nil }
func (c *scriptPC) LocalAddr() net.Addr                       { return &net.UDPAddr{IP: net.IPv4(127, 0, 0, 1), Port: 1} }
func (c *scriptPC) RemoteAddr() net.Addr                      { return &net.UDPAddr{IP: net.IPv4(127, 0, 0, 1), Port: 53} }
func (c *scriptPC) SetDeadline(time.Time) error               { return nil }
func (c *scriptPC) SetReadDeadline(time.Time) error           { return nil }
func (c *scriptPC) SetWriteDeadline(time.Time) error          { return nil }

func replyWithID(id uint16, tag int) []byte {
	m := new(dns.Msg)
	m.SetQuestion(fmt.Sprintf("r%d.example.", tag), dns.TypeA)
	m.Id = id
	m.Response = true
	b, _ := m.Pack()
	return b
}

func runC12(c *Ctx) {
	r := c.R
	c.Res.Rule = "message lists framed and cut into arbitrary chunks (single octets, cuts inside the length prefix, zero-length reads), streams ended at every offset, sizes 12..65535 and 65536, scripted stale/duplicate/foreign-ID datagrams, concurrent clients against UDP and TCP servers with buffer pooling; distinct by content"
	// 1. framing under arbitrary segmentation: impl vs Lean model, plus the expected list itself
	n := c.Scale(1500, 40000)
	for i := 0; i < n; i++ {
		k := r.Intn(4)
		var msgs [][]byte
		var stream []byte
		for j := 0; j < k; j++ {
			sz := 12 + r.Intn(60)
			if r.Chance(3) {
				sz = []int{255, 256, 257, 4096, 65535}[r.Intn(5)]
			}
			m := r.Bytes(sz)
			msgs = append(msgs, m)
			stream = append(putUint(stream, 2, uint64(len(m))), m...)
		}
		cut := len(stream)
		if r.Chance(40) && len(stream) > 0 {
			cut = r.Intn(len(stream) + 1) // early end of stream
		}
		cs := randomChunks(r, stream[:cut])
		got := readAll(&chunkConn{chunks: append([][]byte{}, cs...)})
		if len(stream) < 3000 {
			c.Op("framing", "deframe "+chunksHex(cs), got, k > 0)
		}
		if cut == len(stream) {
			var want []string
			for _, m := range msgs {
				want = append(want, hx(m))
			}
			want = append(want, "eof")
			c.Pred("framing", "frames-intact", fmt.Sprintf("%d messages in %d chunks", k, len(cs)), got == strings.Join(want, " "), got[:min(len(got), 80)], "the messages, then eof", k > 0)
		}
	}
	// every end offset of a small stream (exhaustive)
	{
		var stream []byte
		var msgs [][]byte
		for j := 0; j < 3; j++ {
			m := r.Bytes(12 + j*5)
			msgs = append(msgs, m)
			stream = append(putUint(stream, 2, uint64(len(m))), m...)
		}
		for cut := 0; cut <= len(stream); cut++ {
			for rep := 0; rep < 3; rep++ {
				cs := randomChunks(r, stream[:cut])
				c.Op("early-eof", "deframe "+chunksHex(cs), readAll(&chunkConn{chunks: cs}), true)
			}
		}
	}
	// writes: length prefix, 65535 accepted, 65536 refused
	for _, sz := range []int{12, 255, 256, 65534, 65535, 65536, 70000} {
		cc := &chunkConn{}
		co := &dns.Conn{Conn: cc}
		_, err := co.Write(make([]byte, sz))
		if sz > 65535 {
			c.Pred("write", "oversize-refused", fmt.Sprint(sz), err != nil && len(cc.wrote) == 0, fmt.Sprint(err), "error, nothing written", true)
		} else {
			var all []byte
			for _, w := range cc.wrote {
				all = append(all, w...)
			}
			c.Pred("write", "write-framed", fmt.Sprint(sz), err == nil && len(all) == sz+2 && int(binary.BigEndian.Uint16(all)) == sz, fmt.Sprint(err, len(all)), "2-octet length + message", true)
		}
	}
	// 2. ID matching
	n = c.Scale(2000, 40000)
	cl := &dns.Client{}
	for i := 0; i < n; i++ {
		qid := uint16(1 + r.Intn(5))
		q := new(dns.Msg)
		q.SetQuestion("example.org.", dns.TypeA)
		q.Id = qid
		k := r.Intn(6)
		var script [][]byte
		var args []string
		for j := 0; j < k; j++ {
			if r.Chance(12) {
				script = append(script, nil)
				args = append(args, "E")
			} else {
				id := uint16(1 + r.Intn(5))
				script = append(script, replyWithID(id, j))
				args = append(args, fmt.Sprint(id))
			}
		}
		// datagram
		pc := &scriptPC{in: append([][]byte{}, script...)}
		rm, _, err := cl.ExchangeWithConn(q.Copy(), &dns.Conn{Conn: pc})
		got := "err"
		if err == nil && rm != nil {
			got = fmt.Sprintf("ok %d", rm.Id)
		}
		c.Op("id-datagram", fmt.Sprintf("xchg.dgram %d %s", qid, strings.Join(args, " ")), got, k > 1)
		// stream: the same replies framed on one stream
		var stream []byte
		for _, d := range script {
			if d == nil {
				break // a read error ends the stream
			}
			stream = append(putUint(stream, 2, uint64(len(d))), d...)
		}
		cc := &chunkConn{chunks: randomChunks(r, stream)}
		rm, _, err = cl.ExchangeWithConn(q.Copy(), &dns.Conn{Conn: cc})
		got = "err"
		if err == nil && rm != nil {
			got = fmt.Sprintf("ok %d", rm.Id)
		} else if errors.Is(err, dns.ErrId) {
			got = "errId"
		}
		sargs := args
		for j, a := range args {
			if a == "E" {
				sargs = append(append([]string{}, args[:j]...), "E")
				break
			}
		}
		c.Op("id-stream", fmt.Sprintf("xchg.stream %d %s", qid, strings.Join(sargs, " ")), got, k > 0)
	}
	// 3. concurrent clients against real servers: each handler sees its own request, each client its own reply
	c12Concurrent(c, r, "udp")
	c12Concurrent(c, r, "tcp")
	// 4. a TCP server reading requests cut at every offset (incl. inside the length prefix)
	c12ServerSegmentation(c, r)
	_ = os.Getenv
}

// token: question name and EDNS0 LOCAL option carry the same token; the reply echoes it in a TXT record
func tokenMsg(client, seq int) (*dns.Msg, string) {
	tok := fmt.Sprintf("c%dq%d", client, seq)
	m := new(dns.Msg)
	m.SetQuestion(tok+".example.", dns.TypeTXT)
	m.Id = uint16(client*1000 + seq)
	o := &dns.OPT{Hdr: dns.RR_Header{Name: ".", Rrtype: dns.TypeOPT}}
	o.SetUDPSize(1232)
	o.Option = append(o.Option, &dns.EDNS0_LOCAL{Code: 65001, Data: []byte(tok)})
	m.Extra = append(m.Extra, o)
	return m, tok
}

func c12Concurrent(c *Ctx, r *Rng, network string) {
	var bad int64
	var handled int64
	h := dns.HandlerFunc(func(w dns.ResponseWriter, req *dns.Msg) {
		atomic.AddInt64(&handled, 1)
		// hold the request for a while: recycled receive buffers must not change it
		time.Sleep(time.Duration(200+int(req.Id)%700) * time.Microsecond)
		tok := strings.TrimSuffix(req.Question[0].Name, ".example.")
		ok := false
		if o := req.IsEdns0(); o != nil {
			for _, e := range o.Option {
				if l, isl := e.(*dns.EDNS0_LOCAL); isl && string(l.Data) == tok {
					ok = true
				}
			}
		}
		if !ok {
			atomic.AddInt64(&bad, 1)
		}
		m := new(dns.Msg)
		m.SetReply(req)
		m.Answer = []dns.RR{&dns.TXT{Hdr: dns.RR_Header{Name: req.Question[0].Name, Rrtype: dns.TypeTXT, Class: 1, Ttl: 1}, Txt: []string{tok}}}
		w.WriteMsg(m)
	})
	srv := &dns.Server{Net: network, Addr: "127.0.0.1:0", Handler: h, UDPSize: 1232, ReadTimeout: 2 * time.Second}
	started := make(chan struct{})
	srv.NotifyStartedFunc = func() { close(started) }
	var addr string
	if network == "udp" {
		pc, err := net.ListenPacket("udp", "127.0.0.1:0")
		if err != nil {
			c.Res.Notes = append(c.Res.Notes, "loopback udp not available: "+err.Error())
			return
		}
		srv.PacketConn = pc
		addr = pc.LocalAddr().String()
	} else {
		l, err := net.Listen("tcp", "127.0.0.1:0")
		if err != nil {
			c.Res.Notes = append(c.Res.Notes, "loopback tcp not available: "+err.Error())
			return
		}
		srv.Listener = l
		addr = l.Addr().String()
	}
	go srv.ActivateAndServe()
	<-started
	clients := c.Scale(8, 32)
	per := c.Scale(40, 300)
	var wg sync.WaitGroup
	var mism, fails int64
	for ci := 0; ci < clients; ci++ {
		wg.Add(1)
		go func(ci int) {
			defer wg.Done()
			cl := &dns.Client{Net: network, Timeout: 3 * time.Second}
			var conn *dns.Conn
			for q := 0; q < per; q++ {
				m, tok := tokenMsg(ci, q)
				var rm *dns.Msg
				var err error
				if network == "tcp" && q%3 != 0 {
					if conn == nil {
						conn, err = cl.Dial(addr)
						if err != nil {
							atomic.AddInt64(&fails, 1)
							continue
						}
					}
					rm, _, err = cl.ExchangeWithConn(m, conn)
					if err != nil {
						conn.Close()
						conn = nil
					}
				} else {
					rm, _, err = cl.Exchange(m, addr)
				}
				if err != nil {
					atomic.AddInt64(&fails, 1)
					continue
				}
				okr := rm.Id == m.Id && len(rm.Answer) == 1
				if okr {
					t, isT := rm.Answer[0].(*dns.TXT)
					okr = isT && len(t.Txt) == 1 && t.Txt[0] == tok && rm.Question[0].Name == m.Question[0].Name
				}
				if !okr {
					atomic.AddInt64(&mism, 1)
				}
			}
			if conn != nil {
				conn.Close()
			}
		}(ci)
	}
	wg.Wait()
	srv.Shutdown()
	total := clients * per
	c.Pred("concurrent-"+network, "handler-sees-own-request", fmt.Sprintf("%d clients x %d queries", clients, per), bad == 0, fmt.Sprint(bad, " requests inconsistent"), "0", true)
	c.Pred("concurrent-"+network, "client-gets-own-reply", fmt.Sprintf("%d clients x %d queries", clients, per), mism == 0, fmt.Sprint(mism, " replies mixed up"), "0", true)
	c.Pred("concurrent-"+network, "exchanges-complete", fmt.Sprintf("%d clients x %d queries", clients, per), fails*20 <= int64(total), fmt.Sprint(fails, " failed of ", total), "at most 5% lost", true)
	c.Res.Evaluations += total
	c.Res.Dist["concurrent-"+network+":exchanges"] = total
}

func c12ServerSegmentation(c *Ctx, r *Rng) {
	srv := &dns.Server{Listener: newPipeListener(), ReadTimeout: 2 * time.Second}
	srv.Handler = dns.HandlerFunc(func(w dns.ResponseWriter, req *dns.Msg) {
		m := new(dns.Msg)
		m.SetReply(req)
		w.WriteMsg(m)
	})
	started := make(chan struct{})
	srv.NotifyStartedFunc = func() { close(started) }
	go srv.ActivateAndServe()
	<-started
	defer srv.Shutdown()
	ln := srv.Listener.(*pipeListener)
	q := new(dns.Msg)
	q.SetQuestion("segment.example.", dns.TypeA)
	qb, _ := q.Pack()
	frame := append(putUint(nil, 2, uint64(len(qb))), qb...)
	rounds := c.Scale(1, 4)
	for rep := 0; rep < rounds; rep++ {
		for cut := 0; cut <= len(frame); cut++ {
			conn := ln.dial()
			conn.SetDeadline(time.Now().Add(2 * time.Second))
			go func() {
				// two requests on one connection, the first cut at `cut`, the second in random pieces
				conn.Write(frame[:cut])
				conn.Write(frame[cut:])
				for _, p := range randomChunks(r, frame) {
					if len(p) > 0 {
						conn.Write(p)
					}
				}
			}()
			co := &dns.Conn{Conn: conn}
			got := 0
			for k := 0; k < 2; k++ {
				m, err := co.ReadMsg()
				if err != nil || m.Id != q.Id {
					break
				}
				got++
			}
			conn.Close()
			c.Pred("server-segmentation", "server-reads-any-segmentation", fmt.Sprintf("cut=%d", cut), got == 2, fmt.Sprint(got, " replies"), "2 replies", true)
		}
	}
}
