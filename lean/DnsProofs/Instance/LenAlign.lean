/-
  C08 — the `len()` body of every record type, re-read from the source on every run (Generated/LenPlans.lean), lines up
  with its `pack()` body (Generated/Layouts.lean, Generated/Codecs.lean) in the sense the whole-message theorem
  `lenMsg_ge_packMsgC` needs: fixed-width octets are never counted later than they are written, the variable-length
  fields pair up in order, each with a step that counts at least what is written, names with the same compress flag;
  every step fills one struct field of its own; the zero values of the fields are what `len()` assumes for a record
  without RDATA.
-/
import DnsProofs.C08Plain
namespace Dns.Instance
open Dns Dns.MU Dns.Len Dns.C08M Dns.C02M

/-- record types the line-up does not cover: none on the pinned tree (the gateway of IPSECKEY / AMTRELAY, whose host name
    enters the packer's map but not Len's set, and the SVCB / HTTPS parameter lists, where `len()` asks each value for
    its length, are covered by `name_uncounted` and `svcb_est`) -/
def lenUncovered : List String := []

/-- **every type** (81 of 81: all generated bodies, RFC 3597 and OPT included) -/
theorem len_bodies_aligned :
    Gen.unpackCodecs.all (fun p => lenUncovered.contains p.1 || (alignedKind p.1 && zeroFieldsOK p.1)) = true := by
  decide

theorem covered_of_kind (r : RRm) (hk : r.kind ∈ Gen.unpackCodecs.map (·.1)) (hu : r.kind ∉ lenUncovered)
    (hn : RRNamesOK r) : Covered r := by
  obtain ⟨p, hp, hpk⟩ := List.mem_map.mp hk
  have := List.all_eq_true.mp len_bodies_aligned p hp
  simp only [Bool.or_eq_true, Bool.and_eq_true, List.contains_iff_mem] at this
  rw [hpk] at this
  rcases this with h | ⟨h1, h2⟩
  · exact absurd h hu
  · exact ⟨h1, h2, hn⟩

/-- **Len ≥ Pack for what `Unpack` accepts**: a message decoded from any octets (its names are then within the limits,
    `unpackMsg_names`) whose records are of the covered types: the model of `Msg.Len()` predicts at least what the model
    of `Msg.Pack()` writes, with `Compress` set and without -/
theorem len_ge_pack_decoded (b : Bytes) (m : MsgM) (hm : unpackMsg b = some m)
    (hk : ∀ r ∈ m.answer ++ m.ns ++ m.extra, r.kind ∈ Gen.unpackCodecs.map (·.1) ∧ r.kind ∉ lenUncovered) :
    (∀ w n, packMsgCOf m = some w → lenMsg m true = some n → w.length ≤ n) ∧
    (∀ w n, packMsgPlain m = some w → lenMsg m false = some n → w.length ≤ n) := by
  obtain ⟨hq, ha, hn, he⟩ := unpackMsg_names b m hm
  refine lenMsg_ge_pack m hq ?_
  intro r hr
  have hr' := hr
  simp only [List.mem_append] at hr'
  have hnames : RRNamesOK r := by
    rcases hr' with (h | h) | h
    · exact ha r h
    · exact hn r h
    · exact he r h
  exact covered_of_kind r (hk r hr).1 (hk r hr).2 hnames

end Dns.Instance
