/-
  C11 / C15 — chains of envelopes (RFC 8945 §5.3.1, what xfr.go does per envelope): the first envelope is signed with the
  MAC of the request as request MAC, every later one with the MAC of its predecessor and in timers-only mode.  With
  `generate_verifies` of C11Msg: a chain generated that way is accepted envelope by envelope by a verifier that threads
  the MAC it last saw — for any MAC function.  And what the verifier accepts was checked against a digest that begins
  with the MAC of the envelope before (`chain_accepts_only`): an envelope moved, dropped or taken from another chain is
  checked against a different digest.
-/
import DnsProofs.C11Msg
namespace Dns.C11M
open Dns Dns.MU Dns.C01M Dns.SW Dns.C18M

/-- one envelope as the sender builds it: a packed message (header words, a body that is read section by section), the
    TSIG record appended to it -/
structure Envelope where
  id : Nat
  bits : Nat
  body : Bytes
  nq : Nat
  na : Nat
  nn : Nat
  ne : Nat
  types : List Nat
  x : RRItem
  alg : Bytes
  ts : Nat
  fudge : Nat
  mac : Bytes
  origId : Nat
  err : Nat
  olen : Nat
  other : Bytes

def Envelope.msg (e : Envelope) : Bytes := hdr e.id e.bits e.nq e.na e.nn e.ne ++ e.body

def Envelope.vars (e : Envelope) : TsigVars :=
  ⟨presentOf e.x.spec.labels, e.x.spec.ttl, e.alg, e.ts, e.fudge, e.err, e.olen, e.other⟩

/-- the octets on the wire -/
def Envelope.wire (e : Envelope) : Bytes := tsigGenerateBuf e.msg e.origId e.x.enc

/-- the digest `TsigGenerate` computes for it with the given request MAC -/
def Envelope.digest (e : Envelope) (prev : Bytes) (timers : Bool) : Bytes := tsigDigest e.msg e.origId e.vars prev timers

structure Envelope.WF (e : Envelope) (prev : Bytes) (timers : Bool) : Prop where
  walks : Walks e.body e.nq e.na e.nn e.ne e.types
  noTsig : ∀ t ∈ e.types, t ≠ 250
  bits : e.bits < 65536
  auth : e.bits % 16 ≠ 9
  cq : e.nq < 65536
  ca : e.na < 65536
  cn : e.nn < 65536
  ce : e.ne + 1 < 65536
  tsig : IsTsig e.x e.alg e.ts e.fudge e.mac.length e.mac e.origId e.err e.olen e.other
  buffer : tsigBufferOK e.vars prev timers = true

/-- the sender's side: every envelope carries the MAC `H` gives for its digest, where the request MAC of the first is
    `prev` and of every later one the MAC of its predecessor, in timers-only mode -/
def Chained (H : Bytes → Bytes) : Bytes → Bool → List Envelope → Prop
  | _, _, [] => True
  | prev, timers, e :: rest => e.WF prev timers ∧ e.mac = H (e.digest prev timers) ∧ Chained H e.mac true rest

/-- the receiver's side (`Transfer.In` per envelope, `tsigVerify` with the MAC last seen): the number of envelopes accepted
    before the first that is not -/
def verifyChain (check : Bytes → Bytes → Bytes → Bool) (now wall : Nat) : Bytes → Bool → List (Bytes × Bytes) → Nat
  | _, _, [] => 0
  | prev, timers, (w, mac) :: rest =>
    if tsigVerifyM w prev timers now wall check = .accepted then 1 + verifyChain check now wall mac true rest else 0

/-- **chain_verifies**: a chain of any length, generated with any MAC function, verifies envelope by envelope when the
    verifier threads the MACs, inside the fudge windows -/
theorem chain_verifies (H : Bytes → Bytes) (now wall : Nat) (es : List Envelope) (prev : Bytes) (timers : Bool)
    (hc : Chained H prev timers es) (hwin : ∀ e ∈ es, now ≤ e.ts + e.fudge ∧ e.ts ≤ now + e.fudge) :
    verifyChain (fun d _ mac => mac == H d) now wall prev timers (es.map (fun e => (e.wire, e.mac))) = es.length := by
  induction es generalizing prev timers with
  | nil => rfl
  | cons e rest ih =>
    obtain ⟨wf, hm, hrest⟩ := hc
    have hv : tsigVerifyM e.wire prev timers now wall (fun d _ mac => mac == H d) = .accepted := by
      unfold Envelope.wire Envelope.msg
      exact generate_verifies e.id e.bits e.body e.nq e.na e.nn e.ne e.types wf.walks wf.noTsig wf.bits wf.auth wf.cq wf.ca wf.cn
        wf.ce e.x e.alg e.ts e.fudge e.mac.length e.mac e.origId e.err e.olen e.other wf.tsig prev timers now wall _
        (by simp only [beq_iff_eq]; exact hm) wf.buffer (hwin e (by simp)).1 (hwin e (by simp)).2
    simp only [List.map_cons, verifyChain, hv, if_true, List.length_cons]
    rw [ih e.mac true hrest (fun x hx => hwin x (by simp [hx]))]
    omega

/-- **chain_accepts_only**: whatever octets arrive, an envelope the verifier accepts while threading the MAC `prev` was
    checked against a digest that begins with `prev`, length-prefixed (RFC 8945 §4.3.3 request MAC) — so an envelope that is
    verified against the MAC of anything but its true predecessor is checked against other octets than it was signed over -/
theorem chain_accepts_only (w prev : Bytes) (timers : Bool) (now wall : Nat) (check : Bytes → Bytes → Bytes → Bool)
    (h : tsigVerifyM w prev timers now wall check = .accepted) (hp : prev ≠ []) :
    ∃ d rest alg mac, check d alg mac = true ∧ d = (beBytes 2 prev.length ++ prev) ++ rest := by
  obtain ⟨s, _, hc, _, _⟩ := verify_accepts_only w prev timers now wall check h
  refine ⟨_, tsigMsgPart s.msg (fieldN s.body 5) ++ tsigVarPart (tsigVarsOf s wall) timers, _, _, hc, ?_⟩
  unfold tsigDigest tsigMacPart
  have : prev.isEmpty = false := by cases prev <;> simp_all
  simp [this, List.append_assoc]

end Dns.C11M
