/-
  C01 (header word) — the flag word of the message header: unpacking it into the fields of `Msg` (setHdr) and packing
  those fields again (packBufferWithCompressionMap) gives back every one of the 2^16 words; proved bit by bit.
-/
import DnsModel.Msg
namespace Dns.C01H
open Dns

theorem bit_mask (w : BitVec 16) (k : Nat) (hk : k < 16) :
    bit (w &&& BitVec.twoPow 16 k != 0) (BitVec.twoPow 16 k) = w &&& BitVec.twoPow 16 k := by
  unfold bit
  by_cases hz : w &&& BitVec.twoPow 16 k = 0
  · simp [hz]
  · have hne : (w &&& BitVec.twoPow 16 k != 0) = true := by simpa using hz
    rw [hne]
    simp only [↓reduceIte]
    apply BitVec.eq_of_getLsbD_eq
    intro i hi
    simp only [BitVec.getLsbD_and, BitVec.getLsbD_twoPow]
    by_cases hik : k = i
    · subst hik
      -- bit k of w is set, else the conjunction would be zero
      have : w.getLsbD k = true := by
        cases hh : w.getLsbD k with
        | true => rfl
        | false =>
          exfalso; apply hz
          apply BitVec.eq_of_getLsbD_eq
          intro j hj
          simp only [BitVec.getLsbD_and, BitVec.getLsbD_twoPow]
          by_cases hjk : k = j
          · subst hjk; simp [hh]
          · simp [hjk]
      simp [this, hk]
    · simp [hik]

/-- **header word**: every 16-bit flag word survives `setHdr` followed by the packing of the header fields -/
theorem packBits_unpackBits (w : BitVec 16) : packBits (unpackBits w) = w := by
  unfold packBits unpackBits
  simp only
  have e15 : (0x8000 : BitVec 16) = BitVec.twoPow 16 15 := by decide
  have e10 : (0x0400 : BitVec 16) = BitVec.twoPow 16 10 := by decide
  have e9 : (0x0200 : BitVec 16) = BitVec.twoPow 16 9 := by decide
  have e8 : (0x0100 : BitVec 16) = BitVec.twoPow 16 8 := by decide
  have e7 : (0x0080 : BitVec 16) = BitVec.twoPow 16 7 := by decide
  have e6 : (0x0040 : BitVec 16) = BitVec.twoPow 16 6 := by decide
  have e5 : (0x0020 : BitVec 16) = BitVec.twoPow 16 5 := by decide
  have e4 : (0x0010 : BitVec 16) = BitVec.twoPow 16 4 := by decide
  rw [e15, e10, e9, e8, e7, e6, e5, e4]
  rw [bit_mask w 15 (by omega), bit_mask w 10 (by omega), bit_mask w 9 (by omega), bit_mask w 8 (by omega),
    bit_mask w 7 (by omega), bit_mask w 6 (by omega), bit_mask w 5 (by omega), bit_mask w 4 (by omega)]
  have hr : (w &&& 0xF).toNat % 16 = (w &&& 0xF).toNat := by
    apply Nat.mod_eq_of_lt
    have := BitVec.toNat_and w 0xF
    rw [this]
    exact Nat.lt_of_le_of_lt Nat.and_le_right (by decide)
  rw [hr, BitVec.ofNat_toNat, BitVec.ofNat_toNat]
  apply BitVec.eq_of_getLsbD_eq
  intro i hi
  have : i = 0 ∨ i = 1 ∨ i = 2 ∨ i = 3 ∨ i = 4 ∨ i = 5 ∨ i = 6 ∨ i = 7 ∨ i = 8 ∨ i = 9 ∨ i = 10 ∨ i = 11 ∨ i = 12 ∨
      i = 13 ∨ i = 14 ∨ i = 15 := by omega
  rcases this with rfl | rfl | rfl | rfl | rfl | rfl | rfl | rfl | rfl | rfl | rfl | rfl | rfl | rfl | rfl | rfl <;> simp

/-- the low RCODE nibble is all the header carries of the RCODE: the upper bits merged in from an OPT record do not
    reach the flag word -/
theorem packBits_rcode_mod (h : MsgHdr) (r : Nat) : packBits { h with rcode := r } = packBits { h with rcode := r % 16 } := by
  unfold packBits
  simp

end Dns.C01H
