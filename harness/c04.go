package main

import (
	"bytes"
	"fmt"
	"reflect"
	"strings"

	"github.com/miekg/dns"
)

func init() { props["C04"] = runC04 }

// c04Msg: pack with and without compression and check every clause of the property on the octets.
func c04Msg(c *Ctx, stream string, m *dns.Msg, tag string) {
	m.Compress = false
	b0, err0 := m.Pack()
	m.Compress = true
	b1, err1 := m.Pack()
	in := "msg=" + hx(b0)
	if err0 != nil || err1 != nil {
		c.Pred(stream, "pack-fails", in, false, fmt.Sprint(err0, err1), "nil", true)
		return
	}
	nt := len(b1) < len(b0)
	// the whole-message models: decoder on the compressed octets, plain and compressing packers on the decoded message
	// (messageC_roundtrip is about these functions)
	msgUnpackCorr(c, stream, b1)
	if nt {
		c.Hit("compressed")
	} else {
		c.Hit("nothing-to-compress")
	}
	// (1) same message
	var m0, m1 dns.Msg
	e0, e1 := m0.Unpack(b0), m1.Unpack(b1)
	m0.Compress, m1.Compress = false, false
	zeroRdlength(&m0)
	zeroRdlength(&m1)
	same := e0 == nil && e1 == nil && reflect.DeepEqual(&m0, &m1)
	c.Pred(stream, "transparent", in, same, fmt.Sprint(e0, e1, " compressed=", hx(b1)), "equal messages", nt)
	// (2) never longer
	c.Pred(stream, "not-longer", in, len(b1) <= len(b0), fmt.Sprint(len(b1)), fmt.Sprint("<= ", len(b0)), nt)
	// (3) pointers: backwards, below 16384, at a label start of an earlier name; RFC 3597 fields uncompressed
	w0, w1 := walkMsg(b0), walkMsg(b1)
	if w0.Err != "" || w1.Err != "" {
		c.Pred(stream, "walk", in, false, w0.Err+" / "+w1.Err+" compressed="+hx(b1), "well-formed", nt)
		return
	}
	okNames := len(w0.Names) == len(w1.Names)
	labelStarts := map[int]bool{}
	detail := ""
	if okNames {
		for i := range w1.Names {
			n0, n1 := w0.Names[i], w1.Names[i]
			if !labelsEqual(n0.Labels, n1.Labels) {
				okNames = false
				detail = fmt.Sprintf("name %d differs", i)
				break
			}
			for _, p := range n1.Ptrs {
				if p[1] >= 16384 || p[1] >= p[0] || !labelStarts[p[1]] {
					okNames = false
					detail = fmt.Sprintf("pointer at %d to %d is not a valid earlier suffix", p[0], p[1])
				}
			}
			if len(n1.Ptrs) > 0 && !n1.Compress {
				okNames = false
				detail = fmt.Sprintf("name in RDATA of %s compressed", dns.Type(n1.RRType))
			}
			for _, a := range n1.LabelAt {
				labelStarts[a] = true
			}
		}
	} else {
		detail = "different number of names"
	}
	c.Pred(stream, "pointers"+tag, in, okNames, detail+" compressed="+hx(b1), "valid pointers", nt)
	// (4) correspondence with the Lean model of packDomainName + compression map
	isComp := len(m.Question) > 1 || len(m.Answer) > 0 || len(m.Ns) > 0 || len(m.Extra) > 0
	items := w0.items(b0, presentLabels)
	var impl []string
	for _, n := range w1.Names {
		impl = append(impl, fmt.Sprintf("%d:%s", n.Off, hx(b1[n.Off:n.End])))
	}
	c.Op(stream, fmt.Sprintf("comp.pack %s 12 %s", b01(isComp), strings.Join(items, " ")),
		strings.TrimSpace(fmt.Sprintf("%d %s", len(b1), strings.Join(impl, " "))), nt)
}

func runC04(c *Ctx) {
	r := c.R
	c.Res.Rule = "messages decoded from generated wire data (all types, shared-suffix name pools, case variants, escapes), packed with and without compression; non-trivial = compression shortened the message; distinct by content"
	n := c.Scale(6000, 150000)
	for i := 0; i < n; i++ {
		g := genMsg(r, msgOpts{mode: r.Intn(3), pool: r.Chance(85), maxAn: 5, maxNs: 3, maxEx: 3, optPct: 20})
		m, err := unpackGen(g)
		if err != nil {
			c.Pred("gen", "generator", hx(g.Wire), false, err.Error(), "decodes", false)
			continue
		}
		c04Msg(c, "random", m, "")
	}
	// compressed names are accepted on input in every name field of every type: records whose embedded names (also the
	// ones no packer would compress: HIP rendezvous servers, gateway hosts, SRV / RRSIG / NSEC names …) are written as
	// a label and a pointer, or a bare pointer, to the question name
	{
		t := loadSpec()
		q := append(wireOf([][]byte{[]byte("p"), []byte("example")}), 0, 1, 0, 1) // p.example. A IN at offset 12
		for k := 0; k < c.Scale(6, 60); k++ {
			for _, typ := range t.wireTypes() {
				style := r.Intn(3)
				nameEnc = func(ls [][]byte) []byte {
					switch style {
					case 0:
						return []byte{0xC0, 12} // the whole question name
					case 1:
						return []byte{1, 'x', 0xC0, 14} // x.example.
					}
					return []byte{2, 'y', 'z', 1, 'w', 0xC0, 12} // yz.w.p.example.
				}
				g := genRR(r, typ, 0, r.Bool())
				nameEnc = nil
				rrw := append([]byte{0xC0, 14}, g.Wire[len(wireOf(g.Owner)):]...) // owner: pointer to example.
				wire := append(buildMsgWire(uint16(r.U64()), 0x8000, nil, nil, nil, nil), q...)
				wire[5] = 1
				wire[7] = 1
				wire = append(wire, rrw...)
				out := guard(func() string {
					var m dns.Msg
					if err := m.Unpack(wire); err != nil {
						return "error: " + err.Error()
					}
					if len(m.Answer) != 1 {
						return "no answer decoded"
					}
					return "ok"
				})
				c.Pred("pointers-in-every-field", "compressed-input-accepted", fmt.Sprintf("type=%d msg=%s", typ, hx(wire)), out == "ok", out, "ok", true)
				msgUnpackCorr(c, "pointers-in-every-field", wire)
			}
		}
	}
	// messages that cross the 16384-octet pointer limit: padding TXT records, then shared names
	nb := c.Scale(30, 600)
	for i := 0; i < nb; i++ {
		setNamePool(r, r.Intn(2))
		m := new(dns.Msg)
		m.SetQuestion(presentLabels(nameFor(r, 0)), dns.TypeMX)
		pad := 16384 - 700 + r.Intn(900)
		for m.Len() < pad {
			m.Answer = append(m.Answer, &dns.TXT{Hdr: dns.RR_Header{Name: presentLabels(nameFor(r, 0)), Rrtype: dns.TypeTXT, Class: 1, Ttl: 1},
				Txt: []string{strings.Repeat("x", 200), strings.Repeat("y", 50+r.Intn(200))}})
		}
		for k := 0; k < 12; k++ {
			m.Answer = append(m.Answer, &dns.MX{Hdr: dns.RR_Header{Name: presentLabels(nameFor(r, 0)), Rrtype: dns.TypeMX, Class: 1, Ttl: 1},
				Preference: 10, Mx: presentLabels(nameFor(r, 0))})
		}
		namePool = nil
		c04Msg(c, "limit16384", m, "")
	}
	// pointer ladders: record k is owned by a name of k one-octet labels whose k-1 label suffix owns record k-1,
	// so every owner is "one label + pointer"; names up to the 127-label / 255-octet maximum, then whole names
	// and suffixes repeated (owner and RDATA positions), which adds one more hop to the deepest chain
	for i := 0; i < c.Scale(12, 120); i++ {
		depth := []int{127, 127, 126, 125, 64, 100 + r.Intn(28)}[i%6]
		m := new(dns.Msg)
		m.SetQuestion("q.", dns.TypeNS)
		var ladder []string
		name := ""
		for k := 1; k <= depth; k++ {
			lab := string(rune('a' + r.Intn(26)))
			if r.Chance(5) {
				lab = []string{"\\.", "\\000", "\\255", "-", "0"}[r.Intn(5)]
			}
			name = lab + "." + name
			ladder = append(ladder, name)
			m.Answer = append(m.Answer, &dns.A{Hdr: dns.RR_Header{Name: name, Rrtype: dns.TypeA, Class: 1, Ttl: 1}, A: []byte{1, 2, 3, byte(k)}})
		}
		for k := 0; k < 4; k++ {
			again := ladder[len(ladder)-1-[]int{0, 0, 1, r.Intn(len(ladder))}[k]]
			if k%2 == 0 {
				m.Ns = append(m.Ns, &dns.A{Hdr: dns.RR_Header{Name: again, Rrtype: dns.TypeA, Class: 1, Ttl: 1}, A: []byte{4, 3, 2, 1}})
			} else {
				m.Ns = append(m.Ns, &dns.NS{Hdr: dns.RR_Header{Name: "n" + fmt.Sprint(k) + ".", Rrtype: dns.TypeNS, Class: 1, Ttl: 1}, Ns: again})
			}
		}
		c04Msg(c, "ladder", m, "")
	}
	// names whose expanded length is just below, at and above the 255-octet maximum and whose suffix is already
	// in the message: both settings must take the same decision, and whatever is packed must unpack
	mkLabels := func(total int) [][]byte { // labels with wire length (including the root octet) = total
		var ls [][]byte
		left := total - 1
		for left > 0 {
			n := 63
			if left-1 < n {
				n = left - 1
			}
			if left-1-n == 1 { // would leave room for a length octet only
				n--
			}
			if n > 3 && r.Chance(50) && left-1-n != 0 {
				k := 1 + r.Intn(n-1)
				if left-1-k != 1 {
					n = k
				}
			}
			l := make([]byte, n)
			for i := range l {
				l[i] = byte('a' + r.Intn(26))
				if r.Chance(8) {
					l[i] = []byte{'.', '\\', 0, 200, '"', ' '}[r.Intn(6)] // octets that are escaped in text
				}
			}
			ls = append(ls, l)
			left -= 1 + n
		}
		return ls
	}
	for i := 0; i < c.Scale(150, 3000); i++ {
		suffix := mkLabels(3 + r.Intn(200))
		sl := len(wireOf(suffix))
		for _, total := range []int{253, 254, 255, 256, 257, 258} {
			if total-sl < 2 {
				continue
			}
			pre := mkLabels(total - sl + 1) // the prefix without a root of its own
			full := append(append([][]byte{}, pre...), suffix...)
			if len(wireOf(full)) != total {
				continue
			}
			m := new(dns.Msg)
			m.SetQuestion(presentLabels(suffix), dns.TypeA)
			m.Answer = append(m.Answer, &dns.A{Hdr: dns.RR_Header{Name: presentLabels(suffix), Rrtype: dns.TypeA, Class: 1, Ttl: 1}, A: []byte{1, 2, 3, 4}})
			if r.Bool() {
				m.Answer = append(m.Answer, &dns.A{Hdr: dns.RR_Header{Name: presentLabels(full), Rrtype: dns.TypeA, Class: 1, Ttl: 1}, A: []byte{1, 2, 3, 5}})
			} else {
				m.Answer = append(m.Answer, &dns.NS{Hdr: dns.RR_Header{Name: presentLabels(suffix), Rrtype: dns.TypeNS, Class: 1, Ttl: 1}, Ns: presentLabels(full)})
			}
			m.Compress = false
			_, e0 := m.Pack()
			m.Compress = true
			b1, e1 := m.Pack()
			in := fmt.Sprintf("total=%d suffix=%d name=%s", total, sl, presentLabels(full))
			c.Pred("limit255", "limit-same-decision", in, (e0 == nil) == (e1 == nil) && (e0 == nil) == (total <= 255),
				fmt.Sprint(e0, " / ", e1), "both accept iff the name has at most 255 octets", true)
			if e1 == nil {
				var back dns.Msg
				eb := back.Unpack(b1)
				c.Pred("limit255", "packed-unpacks", in, eb == nil, fmt.Sprint(eb), "nil", true)
			}
			if e0 == nil && e1 == nil {
				c04Msg(c, "limit255", m, "")
			}
		}
	}
	// a failed Pack must leave nothing behind: pack a message that fails after its first names were written, then
	// (same goroutine) messages that share those names at other offsets
	for i := 0; i < c.Scale(60, 1200); i++ {
		setNamePool(r, r.Intn(2))
		sharedLs := nameFor(r, 0)
		if len(wireOf(sharedLs)) > 180 || len(sharedLs) == 0 {
			sharedLs = [][]byte{[]byte("shared"), []byte("example")}
		}
		shared := presentLabels(sharedLs)
		bad := new(dns.Msg)
		bad.SetQuestion(shared, dns.TypeMX)
		bad.Compress = true
		bad.Answer = append(bad.Answer, &dns.MX{Hdr: dns.RR_Header{Name: "a." + shared, Rrtype: dns.TypeMX, Class: 1, Ttl: 1}, Preference: 1, Mx: "mx." + shared})
		switch r.Intn(3) {
		case 0:
			bad.Answer = append(bad.Answer, &dns.NS{Hdr: dns.RR_Header{Name: shared, Rrtype: dns.TypeNS, Class: 1, Ttl: 1}, Ns: "not..valid."})
		case 1:
			bad.Answer = append(bad.Answer, &dns.TXT{Hdr: dns.RR_Header{Name: shared, Rrtype: dns.TypeTXT, Class: 1, Ttl: 1}, Txt: []string{strings.Repeat("x", 300)}})
		default:
			bad.Answer = append(bad.Answer, &dns.NS{Hdr: dns.RR_Header{Name: strings.Repeat("y", 64) + "." + shared, Rrtype: dns.TypeNS, Class: 1, Ttl: 1}, Ns: shared})
		}
		_, eb := bad.Pack()
		c.Hit(fmt.Sprintf("failed-pack:%v", eb != nil))
		for k := 0; k < 3; k++ {
			m := new(dns.Msg)
			m.SetQuestion(presentLabels(nameFor(r, 0)), dns.TypeMX)
			for j := 0; j < 1+r.Intn(3); j++ {
				m.Answer = append(m.Answer, &dns.MX{Hdr: dns.RR_Header{Name: []string{"", "a.", "zz."}[r.Intn(3)] + shared, Rrtype: dns.TypeMX, Class: 1, Ttl: 1},
					Preference: 10, Mx: []string{"", "mx.", "q."}[r.Intn(3)] + shared})
			}
			c04Msg(c, "after-failed-pack", m, "")
		}
		namePool = nil
	}
	// every (type, name field): one record of each type with names from a pool, after a question
	t := loadSpec()
	rounds := c.Scale(6, 60)
	for k := 0; k < rounds; k++ {
		for _, typ := range t.wireTypes() {
			setNamePool(r, r.Intn(2))
			q := genMsg(r, msgOpts{mode: 0, pool: false, maxAn: 0, maxNs: 0, maxEx: 0})
			_ = q
			g := &GenMsg{}
			g.Qs = [][]byte{putUint(putUint(wireOf(nameFor(r, 0)), 2, 1), 2, 1)}
			g.An = []*GenRR{genRR(r, typ, 0, true), genRR(r, typ, 0, true)}
			g.Wire = buildMsgWire(1, 0x8000, g.Qs, g.An, nil, nil)
			namePool = nil
			m, err := unpackGen(g)
			if err != nil {
				c.Pred("gen", "generator", hx(g.Wire), false, err.Error(), "decodes", false)
				continue
			}
			c04Msg(c, "per-type", m, ":"+dns.Type(typ).String())
		}
	}
	// the exported siblings of Msg.Pack: PackRR with the caller's map into a buffer that does not begin with a header — the
	// first owner name stands at offset 0 and later names can only be compressed by pointing there; what is written with
	// compression reads back as the records that were written
	for i, n := 0, c.Scale(300, 6000); i < n; i++ {
		g := genMsg(r, msgOpts{mode: r.Intn(2), pool: true, maxAn: 4, maxNs: 3, maxEx: 2, optPct: 0})
		m, err := unpackGen(g)
		if err != nil {
			continue
		}
		rrs := append(append(append([]dns.RR{}, m.Answer...), m.Ns...), m.Extra...)
		if len(rrs) < 2 {
			continue
		}
		buf := make([]byte, 65535)
		cm := map[string]int{}
		off := 0
		ok := true
		for _, rr := range rrs {
			o2, err := dns.PackRR(rr, buf, off, cm, true)
			if err != nil {
				ok = false
				break
			}
			off = o2
		}
		if !ok {
			continue
		}
		res := guard(func() string {
			o := 0
			for k, rr := range rrs {
				rr2, o2, err := dns.UnpackRR(buf[:off], o)
				if err != nil {
					return fmt.Sprintf("record %d: %v", k, err)
				}
				w1, e1 := packRRBytes(rr)
				w2, e2 := packRRBytes(rr2)
				if e1 != nil || e2 != nil || !bytes.Equal(w1, w2) {
					return fmt.Sprintf("record %d reads back as %s", k, rr2.String())
				}
				o = o2
			}
			if o != off {
				return "octets left over"
			}
			return "ok"
		})
		c.Pred("packrr-at-offset-0", "compressed-rrset-reads-back", fmt.Sprintf("%d records, %d octets: %s", len(rrs), off, hx(buf[:min(off, 300)])), res == "ok", res, "ok", true)
	}
}

// zeroRdlength clears the RDLENGTH bookkeeping field, which legitimately differs between the
// compressed and the uncompressed encoding of the same record.
func zeroRdlength(m *dns.Msg) {
	for _, s := range [][]dns.RR{m.Answer, m.Ns, m.Extra} {
		for _, rr := range s {
			rr.Header().Rdlength = 0
		}
	}
}
