/-
  Instance facts tying the atomic steps of the server machine (DnsModel.Server) to server.go.
-/
import DnsModel.Generated.ServerFacts
namespace Dns.Instance
open Dns

/-- `wRefresh` is one atomic step: each reader tests `srv.started` and refreshes the read deadline inside a
    single RLock section -/
theorem readers_atomic : Gen.readersAtomic.all (·.2) = true ∧ Gen.readersAtomic.length = 3 := by decide

/-- `sdCritical` is one atomic step doing exactly: error if not started, started := false, past deadline on the
    packet connection, close the listener, past deadline on every tracked connection -/
theorem shutdown_critical_section :
    Gen.shutdownCritical = ["not-started-returns-error", "started=false", "packetconn-deadline-past",
      "listener-close", "conns-deadline-past"] := by decide

/-- `start`: `started` becomes true only immediately before entering the serve loop, never on a failed start -/
theorem started_set_before_serve :
    Gen.startedSetBeforeServe = [("Server.ListenAndServe", 3, true), ("Server.ActivateAndServe", 2, true)] := by
  decide

/-- `loopCheck` / `wCheck`: the accept loop, the packet loop and the per-connection loop all re-test
    `srv.isStarted()` in their loop condition — a connection accepted while Shutdown ran is not read from -/
theorem loops_check_started : Gen.loopsCheckStarted.all (·.2) = true ∧ Gen.loopsCheckStarted.length = 3 := by decide

end Dns.Instance
