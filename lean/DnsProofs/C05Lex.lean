/-
  C05 (text level) — quoted character-strings pass the zone lexer unchanged: for every octet string, the text the
  library prints for it between quotes (`"` ++ txtEscape bs ++ `"`) is delivered by the lexer as a quote token, one
  string token whose text is exactly the escaped text, and a quote token — whatever octets the string holds (quotes,
  backslashes, semicolons, parentheses, blanks, line breaks, non-ASCII).  With `charstring_roundtrip` the text is then
  un-escaped to the original octets.  More generally this holds for every text without an unescaped quote.
-/
import DnsModel.Text
import DnsProofs.C05
import DnsProofs.C06Text
namespace Dns.C05L
open Dns Dns.Lex Dns.C07 Dns.C06T

/-- no unescaped `"` in `s`, reading from escape state `e` -/
def okQ : Bool → Bytes → Bool
  | _, [] => true
  | e, x :: s => (x != 34 || e) && okQ (x == 92 && !e) s

/-- the escape state after `s` -/
def endEsc : Bool → Bytes → Bool
  | e, [] => e
  | e, x :: s => endEsc (x == 92 && !e) s

theorem okQ_append (e : Bool) (a b : Bytes) : okQ e (a ++ b) = (okQ e a && okQ (endEsc e a) b) := by
  induction a generalizing e with
  | nil => simp [okQ, endEsc]
  | cons x a ih => simp [okQ, endEsc, ih, Bool.and_assoc]

theorem endEsc_append (e : Bool) (a b : Bytes) : endEsc e (a ++ b) = endEsc (endEsc e a) b := by
  induction a generalizing e with
  | nil => simp [endEsc]
  | cons x a ih => simp [endEsc, ih]

/-- every octet, as the library spells it inside a character-string, is free of unescaped quotes and leaves no
    escape open -/
theorem escapeByte_ok : ∀ b : Byte, okQ false (txtEscapeByte b) = true ∧ endEsc false (txtEscapeByte b) = false := by
  apply C07.forall_byte; decide +kernel

theorem txtEscape_ok (bs : Bytes) : okQ false (txtEscape bs) = true ∧ endEsc false (txtEscape bs) = false := by
  induction bs with
  | nil => exact ⟨rfl, rfl⟩
  | cons b bs ih =>
    have hb := escapeByte_ok b
    simp only [txtEscape, List.flatMap_cons] at ih ⊢
    rw [okQ_append, endEsc_append, hb.1, hb.2]
    exact ⟨by simpa using ih.1, ih.2⟩

/-- equal up to the position bookkeeping and the `space` flag -/
def SameFlags (a b : St) : Prop :=
  a.quote = b.quote ∧ a.commt = b.commt ∧ a.nextL = b.nextL ∧ a.brace = b.brace ∧ a.comBuf = b.comBuf ∧
  a.comment = b.comment ∧ a.rrtype = b.rrtype ∧ a.owner = b.owner ∧ a.l.err = b.l.err ∧ a.l.torc = b.l.torc ∧
  a.l.value = b.l.value ∧ a.l.token = b.l.token

theorem SameFlags.refl (a : St) : SameFlags a a := ⟨rfl, rfl, rfl, rfl, rfl, rfl, rfl, rfl, rfl, rfl, rfl, rfl⟩

theorem SameFlags.trans {a b c : St} (h1 : SameFlags a b) (h2 : SameFlags b c) : SameFlags a c := by
  obtain ⟨a1, a2, a3, a4, a5, a6, a7, a8, a9, a10, a11, a12⟩ := h1
  obtain ⟨b1, b2, b3, b4, b5, b6, b7, b8, b9, b10, b11, b12⟩ := h2
  exact ⟨a1.trans b1, a2.trans b2, a3.trans b3, a4.trans b4, a5.trans b5, a6.trans b6, a7.trans b7, a8.trans b8,
    a9.trans b9, a10.trans b10, a11.trans b11, a12.trans b12⟩

theorem advance_same (zl : St) (x : UInt8) : SameFlags zl (advance zl x) := by
  obtain ⟨b1, b2, b3, b4, b5, b6, b7⟩ := advance_flags zl x
  obtain ⟨c1, c2, c3, c4, c5, c6⟩ := advance_facts zl x
  exact ⟨b1.symm, b2.symm, c1.symm, c2.symm, c3.symm, c4.symm, b3.symm, b4.symm, c5.symm, b6.symm, b7.symm, c6.symm⟩

/-- **inside quotes** every octet other than an unescaped `"` is copied into the token -/
theorem scan_quote_byte (zl : St) (str com : Bytes) (e : Bool) (x : UInt8) (rest : Bytes)
    (hq : zl.quote = true) (hc : zl.commt = false) (hx : (x != 34 || e) = true) :
    ∃ zl', SameFlags zl zl' ∧ scan zl str com e (x :: rest) = scan zl' (str ++ [x]) com (x == 92 && !e) rest := by
  have hs := advance_same zl x
  have hq' : (advance zl x).quote = true := by rw [← hs.1]; exact hq
  have hc' : ¬ (advance zl x).commt = true := by rw [← hs.2.1]; simp [hc]
  rw [scan]
  by_cases h32 : x = 32 ∨ x = 9
  · refine ⟨advance zl x, hs, ?_⟩
    have hne : (x == 92) = false := by rcases h32 with rfl | rfl <;> decide
    simp [h32, hq', hne]
  · have h32' : ¬ ((x == 32) = true ∨ (x == 9) = true) := by simpa using h32
    simp only [h32', ↓reduceIte]
    by_cases h59 : x = 59
    · subst h59
      exact ⟨advance zl 59, hs, by simp [hq']⟩
    · have h59' : ¬ (x == 59) = true := by simpa using h59
      simp only [h59', ↓reduceIte]
      by_cases h13 : x = 13
      · subst h13
        exact ⟨advance zl 13, hs, by simp [hq']⟩
      · have h13' : ¬ (x == 13) = true := by simpa using h13
        simp only [h13', ↓reduceIte]
        by_cases h10 : x = 10
        · subst h10
          exact ⟨advance zl 10, hs, by simp [hq']⟩
        · have h10' : ¬ (x == 10) = true := by simpa using h10
          simp only [h10', ↓reduceIte]
          by_cases h92 : x = 92
          · subst h92
            refine ⟨advance zl 92, hs, ?_⟩
            simp only [if_neg hc']
            cases e <;> simp
          · have h92' : ¬ (x == 92) = true := by simpa using h92
            have h92'' : (x == 92) = false := by simpa using h92
            simp only [h92', ↓reduceIte, h92'', Bool.false_and]
            by_cases h34 : x = 34
            · subst h34
              have he : e = true := by simpa using hx
              subst he
              refine ⟨advance zl 34, hs, ?_⟩
              simp [if_neg hc']
            · have h34' : ¬ (x == 34) = true := by simpa using h34
              simp only [h34', ↓reduceIte]
              by_cases h40 : x = 40 ∨ x = 41
              · refine ⟨advance zl x, hs, ?_⟩
                have h40' : ((x == 40) = true ∨ (x == 41) = true) := by simpa using h40
                simp only [h40', ↓reduceIte]
                simp only [if_neg hc']
                simp [hq']
              · have h40' : ¬ ((x == 40) = true ∨ (x == 41) = true) := by simpa using h40
                simp only [h40', ↓reduceIte]
                simp only [if_neg hc']
                refine ⟨{ advance zl x with space := false }, ?_, rfl⟩
                obtain ⟨a1, a2, a3, a4, a5, a6, a7, a8, a9, a10, a11, a12⟩ := hs
                exact ⟨a1, a2, a3, a4, a5, a6, a7, a8, a9, a10, a11, a12⟩

theorem scan_quote_bytes (zl : St) (str com : Bytes) (e : Bool) (s rest : Bytes)
    (hq : zl.quote = true) (hc : zl.commt = false) (hs : okQ e s = true) :
    ∃ zl', SameFlags zl zl' ∧ scan zl str com e (s ++ rest) = scan zl' (str ++ s) com (endEsc e s) rest := by
  induction s generalizing zl str e with
  | nil => exact ⟨zl, SameFlags.refl zl, by simp [endEsc]⟩
  | cons x s ih =>
    simp only [okQ, Bool.and_eq_true] at hs
    obtain ⟨z1, h1, e1⟩ := scan_quote_byte zl str com e x (s ++ rest) hq hc hs.1
    obtain ⟨z2, h2, e2⟩ := ih z1 (str ++ [x]) (x == 92 && !e) (by rw [← h1.1]; exact hq) (by rw [← h1.2.1]; exact hc) hs.2
    refine ⟨z2, h1.trans h2, ?_⟩
    rw [List.cons_append, e1, e2]
    simp [endEsc, List.append_assoc]

/-- the state after the opening quote -/
def quoteOpen (z : St) : St :=
  { z with space := false, l := { z.l with value := zQuote, token := [34] }, quote := true }

theorem scan_open_quote (z0 : St) (com rest : Bytes) (hq : (advance z0 34).quote = false)
    (hc : (advance z0 34).commt = false) :
    scan z0 [] com false (34 :: rest) = (quoteOpen (advance z0 34), rest, some (quoteOpen (advance z0 34)).l) := by
  rw [scan]
  generalize advance z0 34 = z at hq hc ⊢
  have hc' : ¬ z.commt = true := by simp [hc]
  simp [if_neg hc', quoteOpen, hq]

/-- the state after the closing quote that ends a non-empty string: the quote is the pending second token -/
def quoteClose (z : St) (str : Bytes) : St :=
  { z with space := false, l := { z.l with value := zQuote, token := [34] }, quote := false, nextL := true }

theorem scan_close_quote (z0 : St) (str com rest : Bytes) (hq : (advance z0 34).quote = true)
    (hc : (advance z0 34).commt = false) (hs : str.isEmpty = false) :
    scan z0 str com false (34 :: rest) =
      (quoteClose (advance z0 34) str, rest, some { (advance z0 34).l with value := zString, token := str }) := by
  rw [scan]
  generalize advance z0 34 = z at hq hc ⊢
  have hc' : ¬ z.commt = true := by simp [hc]
  simp [if_neg hc', quoteClose, hq, hs]

/-- the empty string `""`: the closing quote alone -/
def quoteCloseEmpty (z : St) : St :=
  { z with space := false, l := { z.l with value := zQuote, token := [34] }, quote := false }

theorem scan_close_quote_empty (z0 : St) (com rest : Bytes) (hq : (advance z0 34).quote = true)
    (hc : (advance z0 34).commt = false) :
    scan z0 [] com false (34 :: rest) = (quoteCloseEmpty (advance z0 34), rest, some (quoteCloseEmpty (advance z0 34)).l) := by
  rw [scan]
  generalize advance z0 34 = z at hq hc ⊢
  have hc' : ¬ z.commt = true := by simp [hc]
  simp [if_neg hc', quoteCloseEmpty, hq]

theorem next_scan (zl : St) (input : Bytes) (hn : zl.nextL = false) (he : zl.l.err = false) (hcb : zl.comBuf = []) :
    next zl input = scan { zl with comBuf := [], comment := [] } [] [] false input := by
  unfold next
  rw [if_neg (by simp [hn]), if_neg (by simp [he])]
  have hcom : zl.comBuf.take Gen.maxTok = [] := by rw [hcb]; rfl
  rw [hcom]

/-- **a quoted string passes the lexer unchanged**: between a line's tokens, the text `"s"` — `s` any octets without
    an unescaped quote and with no escape left open — is delivered as a quote token, a string token whose text is
    exactly `s` (none when `s` is empty), and a quote token -/
theorem stream_quoted (zl : St) (s rest : Bytes) (o r sp : Bool) (hL : LS zl o r sp)
    (hs : okQ false s = true) (he : endEsc false s = false) :
    ∃ q1 mid q2 zl', q1.value = zQuote ∧ q1.err = false ∧ q2.value = zQuote ∧ q2.err = false ∧ LS zl' o r false ∧
      stream zl (34 :: (s ++ 34 :: rest)) = q1 :: (mid ++ q2 :: stream zl' rest) ∧
      (s = [] → mid = []) ∧
      (s ≠ [] → ∃ t, mid = [t] ∧ t.value = zString ∧ t.token = s ∧ t.err = false) := by
  obtain ⟨f1, f2, f3, f4, f5, f6, f7, f8, f9, f10, f11⟩ := atEnd_flags zl [] 34 hL.rdy
  -- the opening quote
  have h1 : stream zl (34 :: (s ++ 34 :: rest)) =
      (quoteOpen (atEnd zl [] 34)).l :: stream (quoteOpen (atEnd zl [] 34)) (s ++ 34 :: rest) := by
    rw [stream_step, next_ready zl _ hL.rdy]
    have := scan_open_quote { zl with comBuf := [], comment := [] } [] (s ++ 34 :: rest) f1 f2
    unfold atEnd advN at *
    rw [this]
  -- the octets between the quotes
  have hZq : (quoteOpen (atEnd zl [] 34)).quote = true := rfl
  have hZn : (quoteOpen (atEnd zl [] 34)).nextL = false := by simpa [quoteOpen] using f3
  have hZe : (quoteOpen (atEnd zl [] 34)).l.err = false := by simpa [quoteOpen] using f6
  have hZc : (quoteOpen (atEnd zl [] 34)).comBuf = [] := by simpa [quoteOpen] using f5
  have hZm : (quoteOpen (atEnd zl [] 34)).commt = false := by simpa [quoteOpen] using f2
  obtain ⟨z2, hsf, e2⟩ := scan_quote_bytes { quoteOpen (atEnd zl [] 34) with comBuf := [], comment := [] } [] [] false s
    (34 :: rest) (by simpa using hZq) (by simpa using hZm) hs
  rw [he] at e2
  obtain ⟨g1, g2, g3, g4, g5, g6, g7, g8, g9, g10, g11, g12⟩ := hsf
  simp only at g1 g2 g3 g4 g5 g6 g7 g8 g9 g10 g11 g12
  have a2 := advance_same z2 34
  obtain ⟨k1, k2, k3, k4, k5, k6, k7, k8, k9, k10, k11, k12⟩ := a2
  have hq2 : (advance z2 34).quote = true := by rw [← k1, ← g1]; rfl
  have hc2 : (advance z2 34).commt = false := by rw [← k2, ← g2]; exact hZm
  have hn2 : (advance z2 34).nextL = false := by rw [← k3, ← g3]; exact hZn
  have he2 : (advance z2 34).l.err = false := by rw [← k9, ← g9]; exact hZe
  have hb2 : (advance z2 34).brace = 0 := by rw [← k4, ← g4]; simpa [quoteOpen] using f4
  have hcb2 : (advance z2 34).comBuf = [] := by rw [← k5, ← g5]
  have ho2 : (advance z2 34).owner = o := by rw [← k8, ← g8]; simp only [quoteOpen]; rw [f8, hL.ow]
  have hr2 : (advance z2 34).rrtype = r := by rw [← k7, ← g7]; simp only [quoteOpen]; rw [f7, hL.rr]
  by_cases hse : s = []
  · subst hse
    refine ⟨(quoteOpen (atEnd zl [] 34)).l, [], (quoteCloseEmpty (advance z2 34)).l, quoteCloseEmpty (advance z2 34),
      rfl, hZe, rfl, ?_, ?_, ?_, fun _ => rfl, fun h => absurd rfl h⟩
    · simpa [quoteCloseEmpty] using he2
    · exact ⟨⟨by simpa [quoteCloseEmpty] using hn2, by simpa [quoteCloseEmpty] using he2, rfl,
        by simpa [quoteCloseEmpty] using hc2, by simpa [quoteCloseEmpty] using hcb2, by simpa [quoteCloseEmpty] using hb2⟩,
        by simpa [quoteCloseEmpty] using ho2, by simpa [quoteCloseEmpty] using hr2, rfl⟩
    · rw [h1, List.nil_append, stream_step, next_scan _ _ hZn hZe hZc]
      simp only [List.nil_append] at e2
      rw [e2, scan_close_quote_empty z2 [] rest hq2 hc2]
      rfl
  · have hstr : ([] ++ s).isEmpty = false := by
      cases s with
      | nil => exact absurd rfl hse
      | cons _ _ => rfl
    refine ⟨(quoteOpen (atEnd zl [] 34)).l, [{ (advance z2 34).l with value := zString, token := [] ++ s }],
      (quoteClose (advance z2 34) ([] ++ s)).l, { quoteClose (advance z2 34) ([] ++ s) with nextL := false },
      rfl, hZe, rfl, ?_, ?_, ?_, fun h => absurd h hse, fun _ => ⟨_, rfl, rfl, by simp, by simpa using he2⟩⟩
    · simpa [quoteClose] using he2
    · exact ⟨⟨rfl, by simpa [quoteClose] using he2, rfl, by simpa [quoteClose] using hc2,
        by simpa [quoteClose] using hcb2, by simpa [quoteClose] using hb2⟩,
        by simpa [quoteClose] using ho2, by simpa [quoteClose] using hr2, rfl⟩
    · rw [h1, stream_step, next_scan _ _ hZn hZe hZc, e2, scan_close_quote z2 ([] ++ s) [] rest hq2 hc2 hstr]
      simp only [List.cons_append, List.nil_append]
      rw [stream_pending _ _ (by rfl)]

/-- **every character-string**: for all octets `bs`, the library's quoted spelling of `bs` is delivered as one string
    token, and un-escaping that token gives back `bs` -/
theorem quoted_charstring (zl : St) (bs rest : Bytes) (o r sp : Bool) (hL : LS zl o r sp) (hne : bs ≠ []) :
    ∃ q1 t q2 zl', stream zl (34 :: (txtEscape bs ++ 34 :: rest)) = q1 :: t :: q2 :: stream zl' rest ∧
      q1.value = zQuote ∧ q2.value = zQuote ∧ t.value = zString ∧ q1.err = false ∧ t.err = false ∧ q2.err = false ∧
      txtUnescape t.token = bs ∧ LS zl' o r false := by
  obtain ⟨h1, h2⟩ := txtEscape_ok bs
  obtain ⟨q1, mid, q2, zl', a1, a2, a3, a4, a5, a6, _, a8⟩ := stream_quoted zl (txtEscape bs) rest o r sp hL h1 h2
  have hnn : txtEscape bs ≠ [] := by
    cases bs with
    | nil => exact absurd rfl hne
    | cons b bs =>
      simp only [txtEscape, List.flatMap_cons]
      intro h
      have := (List.append_eq_nil_iff.mp h).1
      have hb : ∀ b : Byte, txtEscapeByte b ≠ [] := by apply C07.forall_byte; decide +kernel
      exact hb b this
  obtain ⟨t, ht, tv, tt, te⟩ := a8 hnn
  refine ⟨q1, t, q2, zl', ?_, a1, a3, tv, a2, te, a4, ?_, a5⟩
  · rw [a6, ht]; rfl
  · rw [tt]; exact C05.charstring_roundtrip bs

end Dns.C05L
