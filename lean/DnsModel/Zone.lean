/-
  DnsModel.Zone — scan.go: stringToTTL, the header part of ZoneParser.Next as a token machine
  (owner / TTL / class inheritance, $TTL, $ORIGIN), and generate.go ($GENERATE expansion).
-/
import DnsModel.Name
namespace Dns

/-! ### stringToTTL — Go `uint` is 64 bits: every arithmetic step is taken modulo 2^64 -/

def w64 (n : Nat) : Nat := n % 18446744073709551616
def maxU32 : Nat := 4294967295

def unitOf (c : Byte) : Option Nat :=
  if c = 115 ∨ c = 83 then some 1            -- s S
  else if c = 109 ∨ c = 77 then some 60       -- m M
  else if c = 104 ∨ c = 72 then some 3600     -- h H
  else if c = 100 ∨ c = 68 then some 86400    -- d D
  else if c = 119 ∨ c = 87 then some 604800   -- w W
  else none

/-- the loop of `stringToTTL` with its early bail-out; `none` = `(0, false)` -/
def ttlLoop : Bytes → (s i : Nat) → Option Nat
  | [], s, i => if w64 (s + i) > maxU32 then none else some (w64 (s + i))
  | c :: rest, s, i =>
    let next : Option (Nat × Nat) :=
      match unitOf c with
      | some u => some (w64 (s + w64 (i * u)), 0)
      | none => if isDigit c then some (s, w64 (w64 (i * 10) + (c.toNat - 48))) else none
    match next with
    | none => none
    | some (s', i') => if i' > maxU32 ∨ s' > maxU32 then none else ttlLoop rest s' i'

def stringToTTL (token : Bytes) : Option Nat := ttlLoop token 0 0

/-- specification: the sum of number × unit over the groups, in unbounded arithmetic, accepted when it fits
    in 32 bits -/
def ttlSpecLoop : Bytes → (s i : Nat) → Option Nat
  | [], s, i => some (s + i)
  | c :: rest, s, i =>
    match unitOf c with
    | some u => ttlSpecLoop rest (s + i * u) 0
    | none => if isDigit c then ttlSpecLoop rest s (i * 10 + (c.toNat - 48)) else none

def ttlSpec (token : Bytes) : Option Nat :=
  match ttlSpecLoop token 0 0 with
  | some v => if v > maxU32 then none else some v
  | none => none

/-! ### header part of ZoneParser.Next: a token machine -/

inductive ZTok where
  | owner (name : Bytes)      -- zOwner (first token of a line that does not start with a blank)
  | blank
  | str (ttl : Option Nat)    -- zString in header position: a TTL (none = not a TTL)
  | cls (c : Nat)
  | typ (t : Nat)
  | rdata                     -- the RDATA up to and including the end of the entry
  | nl
  | dirTTL (v : Option Nat)   -- `$TTL value` … newline
  | dirOrigin (name : Bytes)  -- `$ORIGIN name` … newline
deriving Repr, DecidableEq

inductive ZSt where
  | ownerDir | ownerBl | any | anyNoClass | anyNoClassBl | anyNoTTL | anyNoTTLBl | rrtype | rrtypeBl | rdata
deriving Repr, DecidableEq

structure ZHdr where
  name : Bytes
  ttl : Nat
  cls : Nat
  typ : Nat
deriving Repr, DecidableEq

structure ZP where
  origin : Bytes
  h : ZHdr
  defttl : Option (Nat × Bool)   -- (ttl, isByDirective)
deriving Repr

/-- `toAbsoluteName` -/
def toAbsoluteName (name origin : Bytes) : Option Bytes :=
  if name = [64] then (if origin.isEmpty then none else some origin)
  else if name = [10] then none
  else if !(isDomainName name).2 || name.isEmpty then none
  else if isFqdn name then some name
  else if origin.isEmpty then none
  else some (if origin = [46] then name ++ origin else name ++ [46] ++ origin)

def noteTTL (zp : ZP) (ttl : Nat) : ZP :=
  { zp with h := { zp.h with ttl := ttl },
            defttl := match zp.defttl with
              | some (_, true) => zp.defttl
              | _ => some (ttl, false) }

/-- run the machine over a token list; returns the records' headers, or stops at the first error -/
def zrun : List ZTok → ZSt → ZP → List ZHdr → List ZHdr × Bool   -- (records, error?)
  | [], _, _, acc => (acc.reverse, false)
  | t :: ts, st, zp, acc =>
    match st with
    | .ownerDir =>
      let zp := { zp with h := { zp.h with ttl := (match zp.defttl with | some (v, _) => v | none => zp.h.ttl), cls := 1 } }
      match t with
      | .nl => zrun ts .ownerDir zp acc
      | .owner n => match toAbsoluteName n zp.origin with
        | some a => zrun ts .ownerBl { zp with h := { zp.h with name := a } } acc
        | none => (acc.reverse, true)
      | .dirTTL v => match v with
        | some ttl => zrun ts .ownerDir { zp with defttl := some (ttl, true) } acc
        | none => (acc.reverse, true)
      | .dirOrigin n => match toAbsoluteName n zp.origin with
        | some a => zrun ts .ownerDir { zp with origin := a } acc
        | none => (acc.reverse, true)
      | .typ ty => zrun ts .rdata { zp with h := { zp.h with typ := ty } } acc
      | .cls c => zrun ts .anyNoClassBl { zp with h := { zp.h with cls := c } } acc
      | .blank => zrun ts .ownerDir zp acc
      | .str v => match v with
        | some ttl => zrun ts .anyNoTTLBl (noteTTL zp ttl) acc
        | none => (acc.reverse, true)
      | .rdata => (acc.reverse, true)
    | .ownerBl => if t = .blank then zrun ts .any zp acc else (acc.reverse, true)
    | .any =>
      match t with
      | .typ ty => if zp.defttl.isNone then (acc.reverse, true) else zrun ts .rdata { zp with h := { zp.h with typ := ty } } acc
      | .cls c => zrun ts .anyNoClassBl { zp with h := { zp.h with cls := c } } acc
      | .str (some ttl) => zrun ts .anyNoTTLBl (noteTTL zp ttl) acc
      | _ => (acc.reverse, true)
    | .anyNoClassBl => if t = .blank then zrun ts .anyNoClass zp acc else (acc.reverse, true)
    | .anyNoTTLBl => if t = .blank then zrun ts .anyNoTTL zp acc else (acc.reverse, true)
    | .anyNoTTL =>
      match t with
      | .cls c => zrun ts .rrtypeBl { zp with h := { zp.h with cls := c } } acc
      | .typ ty => zrun ts .rdata { zp with h := { zp.h with typ := ty } } acc
      | _ => (acc.reverse, true)
    | .anyNoClass =>
      match t with
      | .str (some ttl) => zrun ts .rrtypeBl (noteTTL zp ttl) acc
      | .typ ty => zrun ts .rdata { zp with h := { zp.h with typ := ty } } acc
      | _ => (acc.reverse, true)
    | .rrtypeBl => if t = .blank then zrun ts .rrtype zp acc else (acc.reverse, true)
    | .rrtype =>
      match t with
      | .typ ty => zrun ts .rdata { zp with h := { zp.h with typ := ty } } acc
      | _ => (acc.reverse, true)
    | .rdata =>
      match t with
      | .rdata => zrun ts .ownerDir zp (zp.h :: acc)     -- the record is returned; Next starts again in ownerDir
      | .blank => zrun ts .rdata zp acc                   -- the blank between type and RDATA
      | _ => (acc.reverse, true)

/-! ### specification: what a list of entries denotes (RFC 1035 §5.1) -/

inductive ZLine where
  | rr (owner : Option Bytes) (ttl : Option Nat) (cls : Option Nat) (ttlFirst : Bool) (typ : Nat)
  | ttlDir (v : Nat)
  | originDir (name : Bytes)
  | empty
deriving Repr

structure ZEnv where
  origin : Bytes
  lastOwner : Bytes
  lastTtl : Nat                   -- TTL carried in the header when nothing else applies
  deflt : Option (Nat × Bool)
deriving Repr

def denote : List ZLine → ZEnv → List ZHdr → Option (List ZHdr)
  | [], _, acc => some acc.reverse
  | .empty :: ls, e, acc => denote ls e acc
  | .ttlDir v :: ls, e, acc => denote ls { e with deflt := some (v, true) } acc
  | .originDir n :: ls, e, acc =>
    match toAbsoluteName n e.origin with
    | some a => denote ls { e with origin := a } acc
    | none => none
  | .rr owner ttl cls _ typ :: ls, e, acc =>
    let name? := match owner with
      | some n => toAbsoluteName n e.origin
      | none => some e.lastOwner
    match name? with
    | none => none
    | some name =>
      -- omitted TTL: the $TTL value, else the most recently stated TTL, else the configured default (kept in deflt)
      let base := match e.deflt with | some (v, _) => v | none => e.lastTtl
      let t := ttl.getD base
      let deflt' := match ttl, e.deflt with
        | some _, some (v, true) => some (v, true)
        | some v, _ => some (v, false)
        | none, d => d
      if ttl.isNone && e.deflt.isNone && owner.isSome && cls.isNone then none   -- "missing TTL with no previous value"
      else denote ls { e with lastOwner := name, lastTtl := t, deflt := deflt' } (⟨name, t, cls.getD 1, typ⟩ :: acc)

/-- the tokens of an entry, in each of the six header shapes -/
def tokensOf : ZLine → List ZTok
  | .empty => [.nl]
  | .ttlDir v => [.dirTTL (some v)]
  | .originDir n => [.dirOrigin n]
  | .rr owner ttl cls ttlFirst typ =>
    let own := match owner with | some n => [ZTok.owner n, .blank] | none => [.blank]
    let tt := match ttl with | some v => [ZTok.str (some v), .blank] | none => []
    let cc := match cls with | some c => [ZTok.cls c, .blank] | none => []
    own ++ (if ttlFirst then tt ++ cc else cc ++ tt) ++ [.typ typ, .blank, .rdata]

end Dns
