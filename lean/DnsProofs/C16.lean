/-
  C16 — copies are deep: on the abstract heap, a copy made with a plan that clones every reference field
  shares no location with the original, so no write through one is visible through the other.
-/
import DnsModel.Heap
namespace Dns.C16
open Dns

theorem copyRec_next_ge (fs : List (Field × CopyOp)) (h : Heap) (next : Nat) :
    next ≤ (copyRec fs h next).2.2 := by
  induction fs generalizing h next with
  | nil => simp [copyRec]
  | cons f fs ih =>
    obtain ⟨fld, op⟩ := f
    cases fld with
    | imm v => simp only [copyRec]; exact ih h next
    | ref l =>
      cases op with
      | assign => simp only [copyRec]; exact ih h next
      | clone =>
        simp only [copyRec]
        exact Nat.le_trans (Nat.le_succ _) (ih ((next, (h.read l).getD []) :: h) (next + 1))

/-- every location of a deep copy is fresh (≥ `next`) -/
theorem copy_locs_fresh (fs : List (Field × CopyOp)) (h : Heap) (next : Nat) (hd : PlanDeep fs) :
    ∀ l ∈ locsOf (copyRec fs h next).1, next ≤ l := by
  induction fs generalizing h next with
  | nil => simp [copyRec, locsOf]
  | cons f fs ih =>
    obtain ⟨fld, op⟩ := f
    cases fld with
    | imm v =>
      simp only [copyRec, locsOf]
      exact ih h next hd
    | ref l0 =>
      obtain ⟨hop, hd'⟩ := hd
      subst hop
      simp only [copyRec, locsOf]
      intro l hl
      rcases List.mem_cons.mp hl with h1 | h1
      · omega
      · have := ih ((next, (h.read l0).getD []) :: h) (next + 1) hd' l h1
        omega

/-- **deep_plan_disjoint**: if all locations of the original lie below the allocation pointer, the copy made
    by a deep plan shares no location with the original. -/
theorem deep_plan_disjoint (fs : List (Field × CopyOp)) (h : Heap) (next : Nat) (hd : PlanDeep fs)
    (hlt : ∀ l ∈ locsOf (fs.map (·.1)), l < next) :
    ∀ l, l ∈ locsOf (copyRec fs h next).1 → l ∉ locsOf (fs.map (·.1)) := by
  intro l hl hmem
  have h1 := copy_locs_fresh fs h next hd l hl
  have h2 := hlt l hmem
  omega

theorem write_other (h : Heap) (l l' : Nat) (v : List Nat) (hne : l ≠ l') :
    (h.write l v).read l' = h.read l' := by
  induction h with
  | nil => rfl
  | cons e h ih =>
    simp only [Heap.write, Heap.read, List.map_cons, List.lookup] at ih ⊢
    by_cases h1 : e.1 = l
    · simp only [h1, ↓reduceIte]
      have : (l' == l) = false := by simp; omega
      have e1 : (l' == e.1) = false := by rw [h1]; exact this
      simp only [this, e1]
      exact ih
    · simp only [h1, ↓reduceIte]
      cases hb : (l' == e.1) <;> simp [hb]
      exact ih

/-- **no write is visible**: writing through any location of a deep copy leaves every location of the
    original unchanged (and vice versa, by symmetry of disjointness). -/
theorem write_through_copy_invisible (fs : List (Field × CopyOp)) (h : Heap) (next : Nat) (hd : PlanDeep fs)
    (hlt : ∀ l ∈ locsOf (fs.map (·.1)), l < next) (lc : Nat) (v : List Nat)
    (hlc : lc ∈ locsOf (copyRec fs h next).1) :
    ∀ lo ∈ locsOf (fs.map (·.1)),
      ((copyRec fs h next).2.1.write lc v).read lo = (copyRec fs h next).2.1.read lo := by
  intro lo hlo
  apply write_other
  intro e
  subst e
  exact deep_plan_disjoint fs h next hd hlt lc hlc hlo

/-- non-vacuity: a record with two slices, both cloned -/
example : PlanDeep [(Field.imm 5, CopyOp.assign), (Field.ref 0, CopyOp.clone), (Field.ref 1, CopyOp.clone)] := by
  simp [PlanDeep]

/-- and the negative: sharing a reference is observable (the shape of defect F2) -/
example : locsOf (copyRec [(Field.ref 0, CopyOp.assign)] [(0, [1])] 1).1 = [0] := by decide


/-! ### the copy is equal in value, leaves the original alone, and the plan's depth is necessary -/

/-- what a field shows: an immediate value, or the contents of the cell it refers to -/
def view (h : Heap) : Field → Nat ⊕ List Nat
  | Field.imm v => .inl v
  | Field.ref l => .inr ((h.read l).getD [])

theorem read_cons_ne (h : Heap) (k l : Nat) (c : List Nat) (hne : l ≠ k) :
    Heap.read ((k, c) :: h) l = h.read l := by
  have : (l == k) = false := by simp; exact hne
  simp [Heap.read, List.lookup, this]

/-- copying allocates at `next` and above only: every cell below reads as before, whatever the plan -/
theorem copyRec_read_below (fs : List (Field × CopyOp)) (h : Heap) (next l : Nat) (hl : l < next) :
    (copyRec fs h next).2.1.read l = h.read l := by
  induction fs generalizing h next with
  | nil => simp [copyRec]
  | cons f fs ih =>
    obtain ⟨fld, op⟩ := f
    cases fld with
    | imm v => simp only [copyRec]; exact ih h next hl
    | ref l0 =>
      cases op with
      | assign => simp only [copyRec]; exact ih h next hl
      | clone =>
        simp only [copyRec]
        rw [ih ((next, (h.read l0).getD []) :: h) (next + 1) (by omega)]
        exact read_cons_ne h next l _ (by omega)

/-- **copy_leaves_original**: making a copy changes no cell of the original -/
theorem copy_leaves_original (fs : List (Field × CopyOp)) (h : Heap) (next : Nat)
    (hlt : ∀ l ∈ locsOf (fs.map (·.1)), l < next) :
    ∀ lo ∈ locsOf (fs.map (·.1)), (copyRec fs h next).2.1.read lo = h.read lo :=
  fun lo hlo => copyRec_read_below fs h next lo (hlt lo hlo)

theorem view_below (fs : List (Field × CopyOp)) (h : Heap) (next : Nat) (f : Field)
    (hf : ∀ l, f = Field.ref l → l < next) :
    view (copyRec fs h next).2.1 f = view h f := by
  cases f with
  | imm v => rfl
  | ref l => simp only [view]; rw [copyRec_read_below fs h next l (hf l rfl)]

/-- **copy_equal_in_value**: field by field the copy shows, in the heap after copying, what the original showed
    before (and by `copy_leaves_original` still shows) -/
theorem copy_equal_in_value (fs : List (Field × CopyOp)) (h : Heap) (next : Nat)
    (hlt : ∀ l ∈ locsOf (fs.map (·.1)), l < next) :
    (copyRec fs h next).1.map (view (copyRec fs h next).2.1) = (fs.map (·.1)).map (view h) := by
  induction fs generalizing h next with
  | nil => simp [copyRec]
  | cons f fs ih =>
    obtain ⟨fld, op⟩ := f
    cases fld with
    | imm v =>
      simp only [copyRec, List.map_cons, view]
      rw [ih h next (fun l hl => hlt l (by simpa [locsOf] using hl))]
    | ref l0 =>
      have hl0 : l0 < next := hlt l0 (by simp [locsOf])
      have hlt' : ∀ l ∈ locsOf (fs.map (·.1)), l < next :=
        fun l hl => hlt l (by simp only [List.map_cons, locsOf]; exact List.mem_cons_of_mem _ hl)
      cases op with
      | assign =>
        simp only [copyRec, List.map_cons]
        rw [ih h next hlt', view_below fs h next (Field.ref l0) (fun l e => by cases e; exact hl0)]
      | clone =>
        simp only [copyRec, List.map_cons]
        rw [ih ((next, (h.read l0).getD []) :: h) (next + 1) (fun l hl => by have := hlt' l hl; omega)]
        congr 1
        · simp only [view]
          rw [copyRec_read_below fs _ (next + 1) next (by omega)]
          simp [Heap.read, List.lookup]
        · apply List.map_congr_left
          intro f hf
          cases f with
          | imm v => rfl
          | ref l =>
            simp only [view]
            have : l ∈ locsOf (fs.map (·.1)) := by
              clear ih hlt hlt'
              induction fs with
              | nil => cases hf
              | cons g gs ihg =>
                obtain ⟨g1, g2⟩ := g
                simp only [List.map_cons, List.mem_cons] at hf
                rcases hf with e | e
                · simp only [List.map_cons]; rw [← e]; simp [locsOf]
                · have := ihg e
                  simp only [List.map_cons]
                  cases g1 <;> simp [locsOf, this]
            rw [read_cons_ne h next l _ (by have := hlt' l this; omega)]

/-- the other direction of `write_through_copy_invisible`: a write through the original does not show in the copy -/
theorem write_through_original_invisible (fs : List (Field × CopyOp)) (h : Heap) (next : Nat) (hd : PlanDeep fs)
    (hlt : ∀ l ∈ locsOf (fs.map (·.1)), l < next) (lo : Nat) (v : List Nat)
    (hlo : lo ∈ locsOf (fs.map (·.1))) :
    ∀ lc ∈ locsOf (copyRec fs h next).1,
      ((copyRec fs h next).2.1.write lo v).read lc = (copyRec fs h next).2.1.read lc := by
  intro lc hlc
  apply write_other
  intro e
  subst e
  exact deep_plan_disjoint fs h next hd hlt lo hlc hlo

theorem write_same (h : Heap) (l : Nat) (c v : List Nat) (hr : h.read l = some c) :
    (h.write l v).read l = some v := by
  induction h with
  | nil => simp [Heap.read, List.lookup] at hr
  | cons e h ih =>
    simp only [Heap.write, Heap.read, List.map_cons, List.lookup] at ih hr ⊢
    by_cases h1 : e.1 = l
    · simp [h1]
    · have : (l == e.1) = false := by simp; exact fun e' => h1 e'.symm
      simp only [h1, ↓reduceIte, this] at hr ⊢
      exact ih hr

/-- **shallow_plan_shares**: depth is necessary — a reference field that the plan assigns is a location of the copy too … -/
theorem shallow_plan_shares (fs : List (Field × CopyOp)) (h : Heap) (next l : Nat)
    (hm : (Field.ref l, CopyOp.assign) ∈ fs) : l ∈ locsOf (copyRec fs h next).1 := by
  induction fs generalizing h next with
  | nil => cases hm
  | cons f fs ih =>
    obtain ⟨fld, op⟩ := f
    rcases List.mem_cons.mp hm with e | e
    · cases e; simp [copyRec, locsOf]
    · cases fld with
      | imm v => simp only [copyRec, locsOf]; exact ih h next e
      | ref l0 =>
        cases op with
        | assign => simp only [copyRec, locsOf]; exact List.mem_cons_of_mem _ (ih h next e)
        | clone => simp only [copyRec, locsOf]; exact List.mem_cons_of_mem _ (ih _ _ e)

/-- … and a write through the copy at that field changes what the original shows (the shape of defect F2) -/
theorem shallow_write_visible (fs : List (Field × CopyOp)) (h : Heap) (next l : Nat) (c v : List Nat)
    (hm : (Field.ref l, CopyOp.assign) ∈ fs) (hl : l < next) (hr : h.read l = some c) :
    l ∈ locsOf (copyRec fs h next).1 ∧ ((copyRec fs h next).2.1.write l v).read l = some v :=
  ⟨shallow_plan_shares fs h next l hm,
   write_same _ l c v (by rw [copyRec_read_below fs h next l hl]; exact hr)⟩

example : (copyRec [(Field.imm 5, CopyOp.assign), (Field.ref 0, CopyOp.clone)] [(0, [1, 2])] 1).1.map
    (view (copyRec [(Field.imm 5, CopyOp.assign), (Field.ref 0, CopyOp.clone)] [(0, [1, 2])] 1).2.1)
    = [.inl 5, .inr [1, 2]] := by decide

end Dns.C16
