/-
  C08 (exactness without compression) — for messages of the exact types whose strings need no escape, `Msg.Len()`
  without a map (Compress off, or nothing to compress) is exactly the length of the plain packing.
-/
import DnsProofs.C08ExactMsg
import DnsProofs.C08Plain
namespace Dns.C08X
open Dns Dns.C03 Dns.C04 Dns.C08 Dns.MU Dns.Len Dns.C02M Dns.C08M

/-- a name without a map is counted exactly -/
theorem name_plain_eq (text : Bytes) (h : NameOK text) (off : Nat) (cp : Bool) (w : Bytes) (hp : packName text = .ok w) :
    (domainNameLen text off none cp).2 = none ∧ w.length = (domainNameLen text off none cp).1 := by
  obtain ⟨ls, hok, rfl⟩ := h
  obtain ⟨h1, h2⟩ := domainNameLen_exact ls off cp hok
  rw [h2] at hp
  simp only [Outcome.ok.injEq] at hp
  subst hp
  refine ⟨?_, h1.symm⟩
  unfold domainNameLen
  split <;> rfl

/-- **one variable-length field, no map, exactly** -/
theorem var_step_plain_eq (kind : String) (fs : Fields) (l : LStep) (pu : PStep) (cs : CStep) (flag : Bool)
    (hacc : accountsX l (pu, cs, flag) = true) (v : Val) (hpl : PlainAt cs v) (hfa : FieldsAgree fs kind pu v)
    (acc : List Val) (w : Bytes) (hp : packStep acc cs v = some w)
    (off k : Nat) (c1 : Option (List Bytes)) (hl : stepLenC fs off none l = some (k, c1)) :
    c1 = none ∧ w.length = k := by
  obtain ⟨codec, field, e1, e2⟩ := pu
  obtain ⟨g, hg, hlook⟩ := hfa
  cases l <;> simp only [accountsX, Bool.and_eq_true, Bool.or_eq_true, decide_eq_true_eq, Bool.false_eq_true] at hacc
  case name f cp =>
    obtain ⟨rfl, rfl, rfl, rfl⟩ := hacc
    cases v <;> (try (simp [packStep] at hp; done))
    rename_i text
    simp [fieldsOfStep] at hg
    subst hg
    have hf := fstr_of fs field text (by simpa using hlook (field, FVal.s text) (by simp))
    simp only [stepLenC, hf, Option.some.injEq, Prod.mk.injEq] at hl
    obtain ⟨rfl, rfl⟩ := hl
    simp only [packStep] at hp
    cases hpn : packName text with
    | ok w0 =>
      simp only [hpn, Option.some.injEq] at hp
      subst hp
      exact name_plain_eq text (plainName_ok text hpl) off flag w0 hpn
    | err => simp [hpn] at hp
    | panic => simp [hpn] at hp
  case str1 f =>
    obtain ⟨rfl, rfl, rfl⟩ := hacc
    cases v <;> (try (simp [packStep] at hp; done))
    rename_i bs
    simp [fieldsOfStep] at hg
    subst hg
    have hf := fstr_of fs field _ (by simpa using hlook (field, FVal.s (txtEscape bs)) (by simp))
    simp only [stepLenC, stepLen, hf, Option.map_some, Option.some.injEq, Prod.mk.injEq] at hl
    obtain ⟨rfl, rfl⟩ := hl
    simp only [packStep] at hp
    split at hp
    · simp only [Option.some.injEq] at hp
      subst hp
      rw [txtEscape_plain bs hpl]
      exact ⟨rfl, by simp⟩
    · cases hp
  case txt f =>
    obtain ⟨rfl, rfl, rfl⟩ := hacc
    cases v <;> (try (simp [packStep] at hp; done))
    rename_i strs
    simp [fieldsOfStep] at hg
    subst hg
    have hf := fstrs_of fs field _ (by simpa using hlook (field, FVal.ss (strs.map txtEscape)) (by simp))
    simp only [stepLenC, stepLen, hf, Option.map_some, Option.some.injEq, Prod.mk.injEq] at hl
    obtain ⟨rfl, rfl⟩ := hl
    simp only [packStep] at hp
    exact ⟨rfl, txt_size_eq strs hpl w hp⟩
  case ipIf f n =>
    obtain ⟨rfl, hc⟩ := hacc
    rcases hc with ⟨rfl, rfl, rfl⟩ | ⟨rfl, rfl, rfl⟩ <;> cases v <;> (try (simp [packStep] at hp; done))
    all_goals
      rename_i bs
      simp [fieldsOfStep] at hg
      subst hg
      have hf := fip_of fs field _ (by simpa using hlook (field, FVal.ip bs) (by simp))
      simp only [stepLenC, stepLen, hf, Option.map_some, Option.some.injEq, Prod.mk.injEq] at hl
      obtain ⟨rfl, rfl⟩ := hl
      simp only [packStep] at hp
      simp only [PlainAt] at hpl
      split at hp
      · simp only [Option.some.injEq] at hp
        subst hp
        exact ⟨rfl, by simp [hpl]⟩
      · cases hp

theorem plan_plain_eq (kind : String) (fs : Fields) (fuel : Nat) :
    ∀ (cr : Nat) (ls : List LStep) (ps : List PPS) (vals acc : List Val) (off l : Nat),
    alignedX fuel cr ls ps = true →
    Rel2 (fun (p : PPS) v => PlainAt p.2.1 v) ps vals →
    Rel2 (fun (p : PPS) v => FieldsAgree fs kind p.1 v) ps vals →
    ∀ (w : Bytes), packPlanAcc acc (ps.map (·.2.1)) vals = some w →
    ∀ (l' : Nat) (c1 : Option (List Bytes)), planLenC fs off l none ls = some (l', c1) →
    c1 = none ∧ w.length + l = l' + cr := by
  induction fuel with
  | zero => intro cr ls ps vals acc off l hal; simp [alignedX] at hal
  | succ fuel ih =>
    intro cr ls ps vals acc off l hal hpl hfa w hp l' c1 hl
    simp only [alignedX] at hal
    split at hal
    · rename_i k hk
      cases ls with
      | nil => simp at hk
      | cons l0 ls' =>
        simp only [List.head?_cons, Option.bind_some] at hk
        cases l0 <;> simp only [constK, Option.some.injEq, reduceCtorEq] at hk
        subst hk
        simp only [List.tail_cons] at hal
        simp only [planLenC, stepLenC, stepLen, Option.map_some, Option.bind_some] at hl
        have := ih (cr + _) ls' ps vals acc off (l + _) hal hpl hfa w hp l' c1 hl
        exact ⟨this.1, by omega⟩
    · rename_i hk
      split at hal
      · rename_i wd hw
        cases ps with
        | nil => simp at hw
        | cons p ps' =>
          obtain ⟨pu, cs, fl⟩ := p
          simp only [List.head?_cons, Option.bind_some] at hw
          cases cs <;> simp only [uintW, Option.some.injEq, reduceCtorEq] at hw
          rename_i w0
          subst hw
          simp only [List.tail_cons, Bool.and_eq_true, decide_eq_true_eq] at hal
          obtain ⟨hle, hal⟩ := hal
          cases vals with
          | nil => simp [Rel2] at hfa
          | cons v vs =>
            simp only [Rel2] at hpl hfa
            simp only [List.map_cons] at hp
            rw [packPlanAcc_cons _ _ _ _ _ (by simp)] at hp
            cases v <;> (try (simp [packStep] at hp; done))
            rename_i x
            have hst : packStep acc (.uint w0) (.n x) = if x < 256 ^ w0 then some (beBytes w0 x) else none := rfl
            rw [hst] at hp
            by_cases hx : x < 256 ^ w0
            · simp only [hx, ↓reduceIte] at hp
              cases hq : packPlanAcc (acc ++ [Val.n x]) (ps'.map (·.2.1)) vs with
              | none => simp [hq] at hp
              | some q =>
                simp only [hq, Option.some.injEq] at hp
                subst hp
                have := ih (cr - w0) ls ps' vs _ off l hal hpl.2 hfa.2 q hq l' c1 hl
                refine ⟨this.1, ?_⟩
                simp only [List.length_append, C11.beBytes_length]
                omega
            · simp [hx] at hp
      · rename_i hw
        split at hal
        · simp only [decide_eq_true_eq] at hal
          subst hal
          simp only [List.map_nil] at hp
          cases vals with
          | nil =>
            simp only [packPlanAcc, Option.some.injEq] at hp
            subst hp
            simp only [planLenC, Option.some.injEq, Prod.mk.injEq] at hl
            obtain ⟨rfl, rfl⟩ := hl
            exact ⟨rfl, by simp⟩
          | cons v' vs' => simp [packPlanAcc] at hp
        · rename_i l0 ls' p ps'
          obtain ⟨pu, cs, fl⟩ := p
          simp only [Bool.and_eq_true, decide_eq_true_eq] at hal
          obtain ⟨⟨hcr0, hacc⟩, hal⟩ := hal
          subst hcr0
          have hne := accountsX_var l0 pu cs fl hacc
          cases vals with
          | nil => simp [Rel2] at hfa
          | cons v vs =>
            simp only [Rel2] at hpl hfa
            simp only [List.map_cons] at hp
            rw [packPlanAcc_cons _ _ _ _ _ hne] at hp
            cases ha : packStep acc cs v with
            | none => simp [ha] at hp
            | some a =>
              cases hq : packPlanAcc (acc ++ [v]) (ps'.map (·.2.1)) vs with
              | none => simp [ha, hq] at hp
              | some q =>
                simp only [ha, hq, Option.some.injEq] at hp
                subst hp
                simp only [planLenC] at hl
                cases hs1 : stepLenC fs (off + l) none l0 with
                | none => simp [hs1] at hl
                | some r =>
                  obtain ⟨k, c2⟩ := r
                  simp only [hs1, Option.bind_some] at hl
                  obtain ⟨rfl, hak⟩ := var_step_plain_eq kind fs l0 pu cs fl hacc v hpl.1 hfa.1 acc a ha (off + l) k c2 hs1
                  have := ih 0 ls' ps' vs _ off (l + k) hal hpl.2 hfa.2 q hq l' c1 hl
                  refine ⟨this.1, ?_⟩
                  simp only [List.length_append]
                  omega
        · simp at hal

/-- **one record, no map, exactly** -/
theorem rr_plain_eq (r : RRm) (h : ExactRR r) (w : Bytes) (hp : repackRR r = some w) (off k : Nat)
    (c1 : Option (List Bytes)) (hl : lenRRC off none r = some (k, c1)) : c1 = none ∧ w.length = k := by
  obtain ⟨⟨hk, hz, hn⟩, hx, hown, vals, cu0, hb, hcu0, hplain, hnokv⟩ := h
  cases hfs : fieldsOfRR r with
  | none => simp [lenRRC, hfs] at hl
  | some fs =>
    obtain ⟨ls, ps, pu, cu, hls, hpu, hcu, hlens, hps, _, _, hfa⟩ := rr_setup r hk hz hn fs hfs
    have hcu' : cu = cu0 := by rw [hcu] at hcu0; exact Option.some.inj hcu0
    subst hcu'
    have hppl : pplOf r.kind = some ps := by
      unfold pplOf; simp only [hpu, hcu]; rw [if_pos hlens, hps]
    have hkopt : r.kind ≠ "OPT" := by
      intro e; simp [exactKind, e] at hx
    simp only [exactKind, hls, hppl, Bool.and_eq_true] at hx
    obtain ⟨_, halx, _⟩ := hx
    have hv : valsOf r cu = vals := by simp [valsOf, hb]
    rw [hv] at hfa
    have hplan : (if r.kind = "OPT" then some [LStep.svcb "Option"] else planOf r.kind) = some ls := hls
    simp only [lenRRC, hplan, hfs] at hl
    unfold repackRR at hp
    rw [hcu] at hp
    cases hown' : packName r.name with
    | ok owner =>
      rw [hown'] at hp
      have hp' : (((valsOf r cu).mapM (recode r.kind)).bind (packPlan (stripPlan cu))).bind (fun rd =>
          if rd.length < 65536 then some (encodeRR owner r.typ r.cls r.ttl rd) else none) = some w := hp
      rw [hv, recode_id r.kind hkopt (stripPlan cu) vals hplain hnokv] at hp'
      simp only [Option.bind_some] at hp'
      cases hrd : packPlan (stripPlan cu) vals with
      | none => simp [hrd] at hp'
      | some rd =>
        simp only [hrd, Option.bind_some] at hp'
        split at hp'
        · simp only [Option.some.injEq] at hp'
          subst hp'
          obtain ⟨e1, e2⟩ := name_plain_eq r.name (plainName_ok _ hown) off true owner hown'
          rw [e1] at hl
          have hps1 : ps.map (·.1) = pu.filter (fun s => s.1 != "earlyexit") := by
            subst hps; exact zip3_fst _ _ _ hlens.1 hlens.2
          have hps2 : ps.map (·.2.1) = stripPlan cu := by
            subst hps; exact zip3_snd1 _ _ _ hlens.1 hlens.2
          rw [← hps1] at hfa
          rw [rel2_map] at hfa
          have hplain' : Rel2 (fun (p : PPS) v => PlainAt p.2.1 v) ps vals := by
            subst hps; exact rel2_zip3 PlainAt _ _ _ vals hlens.1 hlens.2 hplain
          unfold packPlan at hrd
          rw [← hps2] at hrd
          obtain ⟨h1, h2⟩ := plan_plain_eq r.kind fs (ls.length + ps.length + 1) 0 ls ps vals [] off
            ((domainNameLen r.name off none true).1 + 10) halx hplain' hfa rd hrd k c1 hl
          refine ⟨h1, ?_⟩
          simp only [encodeRR, List.length_append, C11.beBytes_length]
          omega
        · cases hp'
    | err => simp [hown'] at hp
    | panic => simp [hown'] at hp

theorem questions_plain_eq (qs : List Qm) (hq : ∀ q ∈ qs, NameOK q.name) (l : Nat) (x : Bytes)
    (h : concatAll (qs.map encodeQ) = some x) :
    (qs.foldl (fun (a : Nat × Option (List Bytes)) q =>
        ((a.1 + (domainNameLen q.name a.1 a.2 true).1 + 4, (domainNameLen q.name a.1 a.2 true).2))) (l, none)).2 = none ∧
      x.length + l = (qs.foldl (fun (a : Nat × Option (List Bytes)) q =>
        ((a.1 + (domainNameLen q.name a.1 a.2 true).1 + 4, (domainNameLen q.name a.1 a.2 true).2))) (l, none)).1 := by
  induction qs generalizing l x with
  | nil => simp [concatAll] at h; subst h; simp
  | cons q qs ih =>
    simp only [List.map_cons, concatAll] at h
    cases hq1 : encodeQ q with
    | none => simp [hq1] at h
    | some y =>
      cases hr : concatAll (qs.map encodeQ) with
      | none => simp [hq1, hr] at h
      | some r =>
        simp only [hq1, hr, Option.some.injEq] at h
        subst h
        simp only [encodeQ] at hq1
        cases hpn : packName q.name with
        | ok w0 =>
          simp only [hpn, Option.some.injEq] at hq1
          subst hq1
          obtain ⟨e1, e2⟩ := name_plain_eq q.name (hq q (by simp)) l true w0 hpn
          simp only [List.foldl_cons, e1]
          obtain ⟨i1, i2⟩ := ih (fun q hq' => hq q (by simp [hq'])) (l + (domainNameLen q.name l none true).1 + 4) r hr
          refine ⟨i1, ?_⟩
          simp only [List.length_append, C11.beBytes_length]
          omega
        | err => simp [hpn] at hq1
        | panic => simp [hpn] at hq1

theorem section_plain_eq (rs : List RRm) (hex : ∀ r ∈ rs, ExactRR r) (l : Nat) (x : Bytes)
    (h : concatAll (rs.map repackRR) = some x) (l' : Nat) (c1 : Option (List Bytes))
    (hl : lenSection l none rs = some (l', c1)) : c1 = none ∧ x.length + l = l' := by
  induction rs generalizing l x with
  | nil =>
    simp [concatAll] at h; subst h
    simp only [lenSection, Option.some.injEq, Prod.mk.injEq] at hl
    obtain ⟨rfl, rfl⟩ := hl
    exact ⟨rfl, by simp⟩
  | cons r rs ih =>
    simp only [List.map_cons, concatAll] at h
    cases hr1 : repackRR r with
    | none => simp [hr1] at h
    | some y =>
      cases hr : concatAll (rs.map repackRR) with
      | none => simp [hr1, hr] at h
      | some rest =>
        simp only [hr1, hr, Option.some.injEq] at h
        subst h
        simp only [lenSection] at hl
        cases hk : lenRRC l none r with
        | none => simp [hk] at hl
        | some kc =>
          obtain ⟨k, c2⟩ := kc
          simp only [hk, Option.bind_some] at hl
          obtain ⟨rfl, hle⟩ := rr_plain_eq r (hex r (by simp)) y hr1 l k c2 hk
          obtain ⟨i1, i2⟩ := ih (fun r hr' => hex r (by simp [hr'])) (l + k) rest hr hl
          refine ⟨i1, ?_⟩
          simp only [List.length_append]
          omega

/-- **Len is exact without compression too**: a message of the exact types whose strings need no escape (its names may
    need escapes: without a map a name is always counted exactly) -/
theorem lenMsg_eq_packMsgPlain (m : MsgM) (compress : Bool) (hq : ∀ q ∈ m.question, NameOK q.name)
    (hex : ∀ r ∈ m.answer ++ m.ns ++ m.extra, ExactRR r)
    (hnomap : compress = false ∨ (m.question.length ≤ 1 ∧ m.answer.isEmpty ∧ m.ns.isEmpty ∧ m.extra.isEmpty))
    (w : Bytes) (hp : packMsgPlain m = some w) (n : Nat) (hl : lenMsg m compress = some n) : w.length = n := by
  have hc0 : (if (compress && (decide (m.question.length > 1) || !m.answer.isEmpty || !m.ns.isEmpty || !m.extra.isEmpty)) = true
      then some ([] : List Bytes) else none) = none := by
    rcases hnomap with rfl | ⟨h1, h2, h3, h4⟩
    · simp
    · have : ¬ m.question.length > 1 := by omega
      simp [this, h2, h3, h4]
  simp only [lenMsg, hc0] at hl
  unfold packMsgPlain at hp
  split at hp
  · cases hp
  · split at hp
    · cases hp
    · simp only at hp
      cases hb : concatAll (m.question.map encodeQ ++ (m.answer.map repackRR ++ (m.ns.map repackRR ++ m.extra.map repackRR))) with
      | none => simp [hb] at hp
      | some body =>
        simp only [hb, Option.map_some, Option.some.injEq] at hp
        subst hp
        obtain ⟨xq, x1, hxq, hx1, rfl⟩ := concatAll_append _ _ body hb
        obtain ⟨xa, x2, hxa, hx2, rfl⟩ := concatAll_append _ _ x1 hx1
        obtain ⟨xn, xe, hxn, hxe, rfl⟩ := concatAll_append _ _ x2 hx2
        obtain ⟨q1, q2⟩ := questions_plain_eq m.question hq 12 xq hxq
        rw [q1] at hl
        cases hla : lenSection (m.question.foldl (fun (a : Nat × Option (List Bytes)) q =>
            ((a.1 + (domainNameLen q.name a.1 a.2 true).1 + 4, (domainNameLen q.name a.1 a.2 true).2))) (12, none)).1
            none m.answer with
        | none => simp [hla] at hl
        | some a =>
          simp only [hla, Option.bind_some] at hl
          obtain ⟨a1, a2⟩ := section_plain_eq m.answer (fun r hr => hex r (by simp [hr])) _ xa hxa a.1 a.2 hla
          rw [a1] at hl
          cases hln : lenSection a.1 none m.ns with
          | none => simp [hln] at hl
          | some b =>
            simp only [hln, Option.bind_some] at hl
            obtain ⟨b1, b2⟩ := section_plain_eq m.ns (fun r hr => hex r (by simp [hr])) _ xn hxn b.1 b.2 hln
            rw [b1] at hl
            cases hle : lenSection b.1 none m.extra with
            | none => simp [hle] at hl
            | some e =>
              simp only [hle, Option.map_some, Option.some.injEq] at hl
              obtain ⟨_, e2⟩ := section_plain_eq m.extra (fun r hr => hex r (by simp [hr])) _ xe hxe e.1 e.2 hle
              subst hl
              simp only [List.length_append, C11.beBytes_length]
              omega

end Dns.C08X
