/-
  DnsModel.Signed — the message-level halves of the two transaction signatures, on top of the whole-message decoder:

  * sig0.go `SIG.Sign`: what is hashed and the octets returned (packed message ‖ SIG record, RDLENGTH and ARCOUNT
    patched in the buffer), and `SIG.Verify` as a whole (the offset walk of DnsModel.Sig0, the validity window, the
    signer name test, the signature check handed to a parameter);
  * tsig.go `stripTsig` (the decoder run over the message up to the TSIG record, ARCOUNT lowered in the buffer),
    `tsigVerify` (strip, digest, MAC check handed to a parameter, fudge window) and the buffer `TsigGenerate` returns.

  The cryptographic primitives are parameters (`check`): the theorems hold for any of them.
-/
import DnsModel.MsgUnpack
import DnsModel.Sig0
import DnsModel.Tsig
namespace Dns.MU
open Dns

/-- `binary.BigEndian.PutUint16(buf[10:], v)` -/
def setArcount (b : Bytes) (v : Nat) : Bytes := b.take 10 ++ (beBytes 2 v ++ b.drop 12)

/-- `binary.BigEndian.Uint16(buf[10:])` -/
def arcountOf (b : Bytes) : Nat := beVal ((b.drop 10).take 2)

/-! ### SIG(0) -/

/-- the fields of the SIG record that `Sign` does not overwrite -/
structure SigFields where
  alg : Nat
  expire : Nat
  incept : Nat
  keytag : Nat
  signer : Bytes          -- presentation form
deriving Repr

/-- the RDATA `PackRR` writes for the SIG record while its signature is still empty: type covered 0, algorithm,
    labels 0, original TTL 0, expiration, inception, key tag, signer name (never compressed) -/
def sigRdata (f : SigFields) (signerWire : Bytes) : Bytes :=
  beBytes 2 0 ++ (beBytes 1 f.alg ++ (beBytes 1 0 ++ (beBytes 4 0 ++ (beBytes 4 f.expire ++ (beBytes 4 f.incept ++
    (beBytes 2 f.keytag ++ signerWire))))))

/-- the fixed part of the SIG record in front of its RDATA: owner `.`, type SIG, class ANY, TTL 0, RDLENGTH -/
def sigHeader (rdlen : Nat) : Bytes :=
  (0 : UInt8) :: (beBytes 2 24 ++ (beBytes 2 255 ++ (beBytes 4 0 ++ beBytes 2 rdlen)))

/-- what `Sign` feeds to the hash: the SIG RDATA without signature, then the packed message as `PackBuffer` returned
    it (ARCOUNT not yet raised) -/
def sigSignInput (mbuf : Bytes) (f : SigFields) : Option Bytes :=
  match packName f.signer with
  | .ok sw => some (sigRdata f sw ++ mbuf)
  | _ => none

/-- what `Sign` returns for the packed message `mbuf` and the signature octets `sg`: message ‖ SIG record whose
    RDLENGTH was raised by the signature length ‖ signature, ARCOUNT raised by one in the buffer; more than 65535
    octets are refused -/
def sigSignBuf (mbuf : Bytes) (f : SigFields) (sg : Bytes) : Option Bytes :=
  match packName f.signer with
  | .ok sw =>
    let rd := sigRdata f sw
    let out := mbuf ++ (sigHeader (rd.length + sg.length) ++ (rd ++ sg))
    if out.length > 65535 then none else some (setArcount out (arcountOf mbuf + 1))
  | _ => none

inductive Verdict where
  | accepted
  | refused
  | panicked
deriving Repr, DecidableEq

/-- `SIG.Verify(k, buf)` for a buffer of at least header size: `check hashed signature` stands for the signature
    scheme under the key, `keyName` is the owner of the KEY record -/
def sigVerify (buf keyName : Bytes) (now : Nat) (check : Bytes → Bytes → Bool) : Verdict :=
  match sigWalk buf with
  | .ok w =>
    if now < w.incept ∨ now > w.expire then .refused                 -- ErrTime
    else if lowerAll w.signer ≠ lowerAll keyName then .refused       -- "signer name doesn't match key name"
    else if check (sigHashInput buf w) (buf.drop w.sigend) then .accepted else .refused
  | .err => .refused
  | .panic => .panicked

/-! ### TSIG -/

/-- the question loop of `stripTsig`: no early stop, any error ends it -/
def stripQuestions : Nat → Bytes → Nat → Option Nat
  | 0, _, off => some off
  | c + 1, msg, off =>
    match unpackQuestion msg off with
    | none => none
    | some (_, o) => stripQuestions c msg o

/-- the loop over the additional section: the first record of type TSIG and the offset it starts at; `some (none, o)`:
    none of the `count` records is one, `o` the start of the last record looked at -/
def findTsig : Nat → Bytes → Nat → Nat → Option (Option RRm × Nat)
  | 0, _, _, last => some (none, last)
  | c + 1, msg, off, _ =>
    match unpackRR msg off with
    | none => none
    | some (r, off') => if r.typ = 250 then some (some r, off) else findTsig c msg off' off

/-- field `i` of a decoded record body (a record without RDATA holds the zero values) -/
def fieldN (body : Option (List Val)) (i : Nat) : Nat :=
  match body with
  | some vals => (match vals[i]? with | some (.n v) => v | _ => 0)
  | none => 0

def fieldB (body : Option (List Val)) (i : Nat) : Bytes :=
  match body with
  | some vals => (match vals[i]? with | some (.b v) => v | some (.t v) => v | _ => [])
  | none => []

structure Stripped where
  msg : Bytes               -- the message up to the TSIG record, ARCOUNT lowered by one
  found : Bool
  name : Bytes
  ttl : Nat
  body : Option (List Val)  -- Algorithm, TimeSigned, Fudge, MACSize, MAC, OrigId, Error, OtherLen, OtherData
deriving Repr

inductive StripResult where
  | err                      -- an error of the decoder, ErrNoSig (ARCOUNT 0) or ErrAuth (RCODE NOTAUTH)
  | ok (s : Stripped)
deriving Repr

/-- `stripTsig(msg)` -/
def stripTsig (msg : Bytes) : StripResult :=
  if msg.length < 12 then .err
  else
    let w (i : Nat) := beVal ((msg.drop (2 * i)).take 2)
    if w 5 = 0 then .err                                   -- ErrNoSig
    else if w 1 % 16 = 9 then .err                         -- ErrAuth
    else match stripQuestions (w 2) msg 12 with
      | none => .err
      | some o0 =>
        match unpackSection (w 3) msg o0 [] with
        | none => .err
        | some (_, o1) =>
          match unpackSection (w 4) msg o1 [] with
          | none => .err
          | some (_, o2) =>
            match findTsig (w 5) msg o2 0 with
            | none => .err
            | some (some r, tsigoff) => .ok ⟨(setArcount msg (w 5 + 65535)).take tsigoff, true, r.name, r.ttl, r.body⟩
            | some (none, last) => .ok ⟨msg.take last, false, [], 0, none⟩   -- the zero TSIG of `new(TSIG)`

/-- the variables `tsigBuffer` takes from the record, as they stand in it (the defaults for a time or fudge of 0 are the
    signer's business: `TsigGenerate` fills them in before it calls `tsigBuffer`; `wall`, the verifier's clock, is no
    longer consulted here — the parameter is kept for the callers) -/
def tsigVarsOf (s : Stripped) (_wall : Nat) : TsigVars :=
  ⟨s.name, s.ttl, fieldB s.body 0, fieldN s.body 1, fieldN s.body 2,
    fieldN s.body 6, fieldN s.body 7, fieldB s.body 8⟩

def stripDigest (s : Stripped) (requestMAC : Bytes) (timersOnly : Bool) (wall : Nat) : Bytes :=
  tsigDigest s.msg (fieldN s.body 5) (tsigVarsOf s wall) requestMAC timersOnly

inductive TsigVerdict where
  | stripError
  | badMac
  | badTime
  | accepted
deriving Repr, DecidableEq

/-- `tsigBuffer` fails before anything is hashed when its scratch buffers are too small: the request MAC is packed into
    `len(requestMAC)` octets (hex digits), which a MAC of one octet does not fit with its length prefix; the variables
    into `DefaultMsgSize` = 4096 octets -/
def tsigBufferOK (v : TsigVars) (requestMAC : Bytes) (timersOnly : Bool) : Bool :=
  requestMAC.length != 1 && decide ((tsigVarPart v timersOnly).length ≤ 4096)

/-- `tsigVerify(msg, provider, requestMAC, timersOnly, now)`: `check digest algorithm mac` stands for
    `provider.Verify`; `stripError`: an error before the MAC function is asked -/
def tsigVerifyM (msg requestMAC : Bytes) (timersOnly : Bool) (now wall : Nat) (check : Bytes → Bytes → Bytes → Bool) :
    TsigVerdict :=
  match stripTsig msg with
  | .err => .stripError
  | .ok s =>
    let v := tsigVarsOf s wall
    if !tsigBufferOK v requestMAC timersOnly then .stripError
    else if check (stripDigest s requestMAC timersOnly wall) (fieldB s.body 0) (fieldB s.body 4) then
      if tsigTimeOk now v.timeSigned v.fudge then .accepted else .badTime
    else .badMac

/-- the octets `TsigGenerate` returns: the packed message with its ID replaced by the original ID (`tsigBuffer` writes
    it into the buffer that is then returned), the TSIG record packed without compression behind it, ARCOUNT set to the
    number of additional records plus one -/
def tsigGenerateBuf (mbuf : Bytes) (origId : Nat) (tsigWire : Bytes) : Bytes :=
  setArcount ((beBytes 2 origId ++ mbuf.drop 2) ++ tsigWire) (arcountOf mbuf + 1)

end Dns.MU
