/-
  C12 — stream framing is independent of segmentation; ID matching of an exchange.
-/
import DnsModel.Framing
namespace Dns.C12
open Dns

theorem flat_cons (b : Byte) (c : Bytes) (cs : List Bytes) :
    ((b :: c) :: cs).flatten = b :: (c :: cs).flatten := by simp

theorem flat_nil_cons (cs : List Bytes) : (([] : Bytes) :: cs).flatten = cs.flatten := by simp

/-- `io.ReadFull` succeeds exactly when enough octets remain, and then returns the next `n` octets of the
    stream, however the stream is cut into chunks -/
theorem readFull_spec (n : Nat) (cs : List Bytes) :
    (readFull n cs = none ↔ cs.flatten.length < n)
    ∧ ∀ bs rest, readFull n cs = some (bs, rest) →
        bs = cs.flatten.take n ∧ rest.flatten = cs.flatten.drop n ∧ n ≤ cs.flatten.length := by
  induction n generalizing cs with
  | zero => simp [readFull]
  | succ n ih =>
    induction cs with
    | nil => simp [readFull]
    | cons c cs ihc =>
      cases c with
      | nil => rw [flat_nil_cons]; simpa only [readFull] using ihc
      | cons b c =>
        have := ih (c :: cs)
        rw [flat_cons]
        generalize (c :: cs).flatten = L at this
        simp only [readFull]
        cases h : readFull n (c :: cs) with
        | none =>
          have hl := this.1.mp h
          constructor
          · simp only [List.length_cons, true_iff]; omega
          · intro bs rest hh; simp at hh
        | some r =>
          obtain ⟨bs0, rest0⟩ := r
          have ⟨e1, e2, e3⟩ := this.2 bs0 rest0 h
          constructor
          · simp only [List.length_cons, reduceCtorEq, false_iff]; omega
          · intro bs rest hh
            simp only [Option.some.injEq, Prod.mk.injEq] at hh
            obtain ⟨rfl, rfl⟩ := hh
            refine ⟨by simp [e1], by simpa using e2, by simp only [List.length_cons]; omega⟩

/-- the reader on a flat stream (one chunk) -/
def readMsgsFlat : (fuel : Nat) → Bytes → List Bytes × StreamEnd
  | 0, _ => ([], .eof)
  | f + 1, s =>
    if s.isEmpty then ([], .eof)
    else if s.length < 2 then ([], .unexpected)
    else
      let n := beVal (s.take 2)
      let s' := s.drop 2
      if s'.length < n then ([], if s'.isEmpty then .eof else .unexpected)
      else
        let (ms, e) := readMsgsFlat f (s'.drop n)
        (s'.take n :: ms, e)

/-- **deframe_any_segmentation (1)**: the messages read from a stream depend only on its octets, not on how
    reads and writes were segmented -/
theorem readMsgs_eq_flat (f : Nat) (cs : List Bytes) : readMsgs f cs = readMsgsFlat f cs.flatten := by
  induction f generalizing cs with
  | zero => rfl
  | succ f ih =>
    simp only [readMsgs, readMsgsFlat]
    split
    · rfl
    · have s2 := readFull_spec 2 cs
      cases h2 : readFull 2 cs with
      | none =>
        have := s2.1.mp h2
        simp only [this, ↓reduceIte]
      | some r =>
        obtain ⟨lenb, rest⟩ := r
        have ⟨e1, e2, e3⟩ := s2.2 lenb rest h2
        have hlt : ¬ cs.flatten.length < 2 := by omega
        simp only [hlt, ↓reduceIte]
        have sn := readFull_spec (beVal lenb) rest
        cases hn : readFull (beVal lenb) rest with
        | none =>
          have := sn.1.mp hn
          rw [e2] at this
          rw [← e1]
          simp only [this, ↓reduceIte, e2]
        | some r2 =>
          obtain ⟨m, rest'⟩ := r2
          have ⟨g1, g2, g3⟩ := sn.2 m rest' hn
          rw [e2] at g1 g2 g3
          have hlt2 : ¬ (cs.flatten.drop 2).length < beVal (cs.flatten.take 2) := by rw [← e1]; omega
          simp only [hlt2, ↓reduceIte]
          rw [ih rest', g2, g1, e1]

theorem beVal_two (a b : Byte) : beVal [a, b] = a.toNat * 256 + b.toNat := by
  simp [beVal]

theorem beVal_beBytes2 (n : Nat) (h : n < 65536) : beVal (beBytes 2 n) = n := by
  simp only [beBytes, beVal_two]
  simp only [Nat.pow_one, Nat.pow_zero, Nat.div_one, UInt8.toNat_ofNat']
  omega

/-- the concatenation of the frames of a list of messages -/
def frames : List Bytes → Bytes
  | [] => []
  | p :: ps => beBytes 2 p.length ++ p ++ frames ps

theorem beBytes2_length (n : Nat) : (beBytes 2 n).length = 2 := by simp [beBytes]

/-- one frame at the head of a stream is read back as the message, leaving the rest of the stream -/
theorem readMsgsFlat_frame (f : Nat) (p rest : Bytes) (hp : p.length ≤ 65535) :
    readMsgsFlat (f + 1) (beBytes 2 p.length ++ p ++ rest)
      = (p :: (readMsgsFlat f rest).1, (readMsgsFlat f rest).2) := by
  have hne : ¬ ((beBytes 2 p.length ++ p ++ rest).isEmpty = true) := by simp [beBytes]
  have h2 : ¬ (beBytes 2 p.length ++ p ++ rest).length < 2 := by simp [beBytes2_length]
  have ht : (beBytes 2 p.length ++ p ++ rest).take 2 = beBytes 2 p.length := by
    rw [List.append_assoc, List.take_append_of_le_length (by simp [beBytes2_length])]
    simp [List.take_of_length_le, beBytes2_length]
  have hd : (beBytes 2 p.length ++ p ++ rest).drop 2 = p ++ rest := by
    rw [List.append_assoc, List.drop_append_of_le_length (by simp [beBytes2_length])]
    simp [List.drop_of_length_le, beBytes2_length]
  have h3 : ¬ (p ++ rest).length < p.length := by simp
  rw [readMsgsFlat]
  simp only [hne, h2, ↓reduceIte, ht, hd, beVal_beBytes2 p.length (by omega), h3, List.drop_left', List.take_left',
    Bool.false_eq_true]

/-- **deframe_any_segmentation (2)**: for every list of messages of at most 65535 octets and every way of
    cutting the concatenated frames into chunks, the reader yields exactly the messages, intact and in order,
    and then a clean end of stream -/
theorem deframe_any_segmentation (ps : List Bytes) (cs : List Bytes)
    (hlen : ∀ p ∈ ps, p.length ≤ 65535) (hcs : cs.flatten = frames ps) :
    readMsgs (ps.length + 1) cs = (ps, .eof) := by
  rw [readMsgs_eq_flat, hcs]
  clear hcs
  induction ps with
  | nil => simp [frames, readMsgsFlat]
  | cons p ps ih =>
    have hp := hlen p (by simp)
    have ih' := ih (fun q hq => hlen q (by simp [hq]))
    simp only [List.length_cons, frames]
    rw [readMsgsFlat_frame _ p (frames ps) hp, ih']

/-- **frames_injective**: the framing is uniquely decodable — two lists of messages (each within the limit) with
    the same octets on the stream are the same list -/
theorem frames_injective (ps qs : List Bytes) (hp : ∀ p ∈ ps, p.length ≤ 65535) (hq : ∀ q ∈ qs, q.length ≤ 65535)
    (h : frames ps = frames qs) : ps = qs := by
  induction ps generalizing qs with
  | nil =>
    cases qs with
    | nil => rfl
    | cons q qs => exfalso; have := congrArg List.length h; simp [frames, beBytes2_length] at this; omega
  | cons p ps ih =>
    cases qs with
    | nil => exfalso; have := congrArg List.length h; simp [frames, beBytes2_length] at this
    | cons q qs =>
      simp only [frames, List.append_assoc] at h
      have h2 := List.append_inj h (by simp [beBytes2_length])
      have hl : p.length = q.length := by
        have := congrArg beVal h2.1
        rw [beVal_beBytes2 _ (by have := hp p (by simp); omega),
            beVal_beBytes2 _ (by have := hq q (by simp); omega)] at this
        exact this
      have h3 := List.append_inj h2.2 hl
      rw [h3.1, ih qs (fun x hx => hp x (by simp [hx])) (fun x hx => hq x (by simp [hx])) h3.2]

/-- **partial_frame_not_delivered**: a stream that ends inside a frame — after any proper prefix of it — delivers
    exactly the messages in front and nothing of the cut one -/
theorem partial_frame_not_delivered (ps : List Bytes) (p : Bytes) (k : Nat)
    (hlen : ∀ q ∈ ps, q.length ≤ 65535) (hp : p.length ≤ 65535) (hk : k < 2 + p.length) :
    (readMsgsFlat (ps.length + 1) (frames ps ++ (beBytes 2 p.length ++ p).take k)).1 = ps := by
  induction ps with
  | nil =>
    simp only [frames, List.nil_append, List.length_nil, Nat.zero_add]
    rw [readMsgsFlat]
    by_cases h0 : ((beBytes 2 p.length ++ p).take k).isEmpty = true
    · simp [h0]
    · simp only [h0, Bool.false_eq_true, ↓reduceIte]
      by_cases h1 : ((beBytes 2 p.length ++ p).take k).length < 2
      · rw [if_pos h1]
      · rw [if_neg h1]
        have hk2 : 2 ≤ k := by
          simp only [List.length_take, List.length_append, beBytes2_length] at h1; omega
        have ht : ((beBytes 2 p.length ++ p).take k).take 2 = beBytes 2 p.length := by
          rw [List.take_take, Nat.min_eq_left hk2, List.take_append_of_le_length (by simp [beBytes2_length])]
          simp [List.take_of_length_le, beBytes2_length]
        have hd : (((beBytes 2 p.length ++ p).take k).drop 2).length < p.length := by
          simp only [List.length_drop, List.length_take, List.length_append, beBytes2_length]; omega
        simp only [ht, beVal_beBytes2 p.length (by omega : p.length < 65536)]
        rw [if_pos hd]
  | cons q qs ih =>
    have hq := hlen q (by simp)
    simp only [List.length_cons, frames]
    rw [List.append_assoc (beBytes 2 q.length ++ q), readMsgsFlat_frame _ q _ hq]
    simp only
    rw [ih (fun x hx => hlen x (by simp [hx]))]

/-- an over-long message is refused, never framed with a wrapped length -/
theorem oversize_refused (p : Bytes) (h : p.length > 65535) : frame p = none := by simp [frame, h]

/-! ### ID matching -/

/-- **id_matching (datagram)**: the result is the first reply carrying the request ID, or the first error,
    whatever stale / duplicate / foreign replies come before it -/
theorem exchangeDatagram_spec (qid : Nat) (rs : List Reply) :
    match exchangeDatagram qid rs with
    | some (Reply.msg id) => id = qid ∧ ∃ pre post, rs = pre ++ Reply.msg qid :: post ∧
        ∀ r ∈ pre, ∃ i, r = Reply.msg i ∧ i ≠ qid
    | some Reply.err => ∃ pre post, rs = pre ++ Reply.err :: post ∧ ∀ r ∈ pre, ∃ i, r = Reply.msg i ∧ i ≠ qid
    | none => ∀ r ∈ rs, ∃ i, r = Reply.msg i ∧ i ≠ qid := by
  induction rs with
  | nil => simp [exchangeDatagram]
  | cons r rs ih =>
    cases r with
    | err => simp only [exchangeDatagram]; exact ⟨[], rs, rfl, by simp⟩
    | msg id =>
      simp only [exchangeDatagram]
      by_cases h : id = qid
      · simp only [h, ↓reduceIte]; exact ⟨trivial, [], rs, rfl, by simp⟩
      · simp only [h, ↓reduceIte]
        cases hr : exchangeDatagram qid rs with
        | none =>
          rw [hr] at ih
          intro r hr'
          rcases List.mem_cons.mp hr' with h1 | h1
          · exact ⟨id, h1, h⟩
          · exact ih r h1
        | some x =>
          rw [hr] at ih
          cases x with
          | err =>
            obtain ⟨pre, post, e, hp⟩ := ih
            refine ⟨Reply.msg id :: pre, post, by simp [e], ?_⟩
            intro r hr'
            rcases List.mem_cons.mp hr' with h1 | h1
            · exact ⟨id, h1, h⟩
            · exact hp r h1
          | msg i2 =>
            obtain ⟨e0, pre, post, e, hp⟩ := ih
            refine ⟨e0, Reply.msg id :: pre, post, by simp [e], ?_⟩
            intro r hr'
            rcases List.mem_cons.mp hr' with h1 | h1
            · exact ⟨id, h1, h⟩
            · exact hp r h1

/-- **id_matching (stream)**: a reply with another ID is an ID error, never delivered as the answer -/
theorem exchangeStream_spec (qid : Nat) (rs : List Reply) :
    (∀ id, exchangeStream qid rs = .ok id → id = qid ∧ rs.head? = some (Reply.msg qid))
    ∧ (∀ id, rs.head? = some (Reply.msg id) → id ≠ qid → exchangeStream qid rs = .errId) := by
  cases rs with
  | nil => simp [exchangeStream]
  | cons r rs =>
    cases r with
    | err => simp [exchangeStream]
    | msg i =>
      simp only [exchangeStream, List.head?_cons, Option.some.injEq, Reply.msg.injEq]
      by_cases h : i = qid
      · subst h; simp
      · simp [h]

end Dns.C12

namespace Dns.C12
open Dns

/-- the ownership invariant of the receive-buffer pool -/
structure PoolInv (s : PS) : Prop where
  notFree : ∀ id, s.active id → s.free (s.buf id) = false
  distinct : ∀ i j, i ≠ j → s.active i → s.active j → s.buf i ≠ s.buf j
  intact : ∀ id, s.phase id = some .undecoded → s.content (s.buf id) = s.payload id
  sawOwn : ∀ id, (s.phase id = some .decoded ∨ s.phase id = some .released) → s.seen id = some (s.payload id)

theorem upd_same {α} (f : Nat → α) (k : Nat) (v : α) : upd f k v k = v := by simp [upd]
theorem upd_other {α} (f : Nat → α) (k x : Nat) (v : α) (h : x ≠ k) : upd f k v x = f x := by simp [upd, h]

theorem poolInv_init : PoolInv PS.init := by
  constructor <;> intro id <;> simp [PS.init, PS.active]

/-- **pool_ownership**: every enabled step preserves the invariant — between Get and Put a buffer belongs to
    exactly one in-flight request, nothing overwrites it before it is decoded, and the decoded request is
    what that request's client sent -/
theorem poolInv_step (s : PS) (e : PEv) (hi : PoolInv s) (he : s.enabled e) : PoolInv (s.step e) := by
  cases e with
  | get id b p =>
    obtain ⟨hnone, hb⟩ := he
    have hna : ¬ s.active id := by simp [PS.active, hnone]
    have hbuf : ∀ j, s.active j → s.buf j ≠ b := by
      intro j hj
      rcases hb with hfree | hfresh
      · intro e; have := hi.notFree j hj; rw [e] at this; simp [this] at hfree
      · exact hfresh j hj
    have act : ∀ j, j ≠ id → ((s.step (.get id b p)).active j ↔ s.active j) := by
      intro j hj; simp [PS.step, PS.active, upd_other _ _ _ _ hj]
    constructor
    · intro j hj
      by_cases e : j = id
      · subst e; simp [PS.step, upd_same]
      · have ha := (act j e).mp hj
        simp only [PS.step, upd_other _ _ _ _ e]
        have : s.buf j ≠ b := hbuf j ha
        simp [upd_other _ _ _ _ this, hi.notFree j ha]
    · intro i j hij hai haj
      by_cases ei : i = id
      · subst ei
        have hj : j ≠ i := fun h => hij h.symm
        have := hbuf j ((act j hj).mp haj)
        simp [PS.step, upd_same, upd_other _ _ _ _ hj]; exact fun h => this h.symm
      · by_cases ej : j = id
        · subst ej
          have := hbuf i ((act i ei).mp hai)
          simp [PS.step, upd_same, upd_other _ _ _ _ ei]; exact this
        · simp only [PS.step, upd_other _ _ _ _ ei, upd_other _ _ _ _ ej]
          exact hi.distinct i j hij ((act i ei).mp hai) ((act j ej).mp haj)
    · intro j hj
      by_cases e : j = id
      · subst e; simp [PS.step, upd_same] at hj
      · simp only [PS.step, upd_other _ _ _ _ e] at hj ⊢
        exact hi.intact j hj
    · intro j hj
      by_cases e : j = id
      · subst e; simp [PS.step, upd_same] at hj
      · simp only [PS.step, upd_other _ _ _ _ e] at hj ⊢
        exact hi.sawOwn j hj
  | arrive id =>
    have hact : s.active id := Or.inl he
    have act : ∀ j, ((s.step (.arrive id)).active j ↔ s.active j) := by
      intro j
      by_cases e : j = id
      · subst e; simp [PS.step, PS.active, upd_same]; exact Or.inl he
      · simp [PS.step, PS.active, upd_other _ _ _ _ e]
    constructor
    · intro j hj; simp only [PS.step]; exact hi.notFree j ((act j).mp hj)
    · intro i j hij hai haj; simp only [PS.step]; exact hi.distinct i j hij ((act i).mp hai) ((act j).mp haj)
    · intro j hj
      by_cases e : j = id
      · subst e; simp [PS.step, upd_same]
      · simp only [PS.step, upd_other _ _ _ _ e] at hj ⊢
        have hd := hi.distinct j id e (Or.inr (Or.inl hj)) hact
        rw [upd_other _ _ _ _ hd]
        exact hi.intact j hj
    · intro j hj
      by_cases e : j = id
      · subst e; simp [PS.step, upd_same] at hj
      · simp only [PS.step, upd_other _ _ _ _ e] at hj ⊢
        exact hi.sawOwn j hj
  | decode id =>
    have act : ∀ j, ((s.step (.decode id)).active j ↔ s.active j) := by
      intro j
      by_cases e : j = id
      · subst e; simp [PS.step, PS.active, upd_same]; exact Or.inr (Or.inl he)
      · simp [PS.step, PS.active, upd_other _ _ _ _ e]
    constructor
    · intro j hj; simp only [PS.step]; exact hi.notFree j ((act j).mp hj)
    · intro i j hij hai haj; simp only [PS.step]; exact hi.distinct i j hij ((act i).mp hai) ((act j).mp haj)
    · intro j hj
      by_cases e : j = id
      · subst e; simp [PS.step, upd_same] at hj
      · simp only [PS.step, upd_other _ _ _ _ e] at hj ⊢
        exact hi.intact j hj
    · intro j hj
      by_cases e : j = id
      · subst e; simp [PS.step, upd_same, hi.intact j he]
      · simp only [PS.step, upd_other _ _ _ _ e] at hj ⊢
        exact hi.sawOwn j hj
  | put id =>
    have hact : s.active id := Or.inr (Or.inr he)
    have act : ∀ j, (s.step (.put id)).active j → s.active j ∧ j ≠ id := by
      intro j hj
      by_cases e : j = id
      · subst e; simp [PS.step, PS.active, upd_same] at hj
      · exact ⟨by simpa [PS.step, PS.active, upd_other _ _ _ _ e] using hj, e⟩
    constructor
    · intro j hj
      obtain ⟨ha, hne⟩ := act j hj
      simp only [PS.step]
      have hd := hi.distinct j id hne ha hact
      rw [upd_other _ _ _ _ hd]
      exact hi.notFree j ha
    · intro i j hij hai haj
      simp only [PS.step]
      exact hi.distinct i j hij (act i hai).1 (act j haj).1
    · intro j hj
      by_cases e : j = id
      · subst e; simp [PS.step, upd_same] at hj
      · simp only [PS.step, upd_other _ _ _ _ e] at hj ⊢
        exact hi.intact j hj
    · intro j hj
      by_cases e : j = id
      · subst e
        simp only [PS.step]
        exact hi.sawOwn j (Or.inl he)
      · simp only [PS.step, upd_other _ _ _ _ e] at hj ⊢
        exact hi.sawOwn j hj

/-- **no_crosstalk**: in every reachable state of the pool machine — any number of requests, any
    interleaving of Get / arrival / decode / Put — each decoded request is exactly what its client sent -/
theorem reach_inv (s : PS) (h : PS.Reach s) : PoolInv s := by
  induction h with
  | init => exact poolInv_init
  | step s e _ he ih => exact poolInv_step s e ih he

theorem no_crosstalk (s : PS) (h : PS.Reach s) (id : Nat)
    (hd : s.phase id = some .decoded ∨ s.phase id = some .released) : s.seen id = some (s.payload id) :=
  (reach_inv s h).sawOwn id hd

end Dns.C12
