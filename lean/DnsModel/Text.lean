/-
  DnsModel.Text — character-string escaping: msg_helpers.go unpackString (wire → presentation form held in
  memory), types.go sprintTxt / writeTXTStringByte / nextByte (printing), msg.go packTxtString (un-escaping).
-/
import DnsModel.Name
namespace Dns

/-- `unpackString` / `writeTXTStringByte`: how one octet of a character-string is spelled -/
def txtEscapeByte (b : Byte) : Bytes :=
  if b = 34 ∨ b = 92 then [92, b]
  else if b < 32 ∨ b > 126 then escapeByte b
  else [b]

def txtEscape (bs : Bytes) : Bytes := bs.flatMap txtEscapeByte

/-- `packTxtString` / `nextByte`: `\DDD` is the octet DDD, `\c` is `c`, a dangling backslash ends the string -/
def txtUnescape (s : Bytes) : Bytes :=
  match s with
  | [] => []
  | c :: rest =>
    if c = 92 then
      if isDDD rest then dddToByte rest :: txtUnescape (rest.drop 3)
      else match rest with
        | [] => []
        | d :: rest' => d :: txtUnescape rest'
    else c :: txtUnescape rest
termination_by s.length
decreasing_by all_goals simp_wf <;> omega

/-- `sprintTxt` of one string: decode each escape and print the octet again -/
def sprintTxtOne (s : Bytes) : Bytes := [34] ++ txtEscape (txtUnescape s) ++ [34]

end Dns
