/-
  C08 (composition) — the name simulation (C08Sim) does not need Len and the packer to agree on the octets between the
  names: it is enough that Len's count for them is at least what the packer writes there.  That is exactly what the
  per-type accounting (C08Len: `covers_sum`, `len_plans_cover`) provides for the non-name fields of every record type,
  so the two results compose: `len_ge_pack_est`.
-/
import DnsProofs.C08Sim
namespace Dns.C08
open Dns Dns.C03 Dns.C04

/-- a field together with what Len counts for the octets in front of its name -/
structure EField where
  f : Field
  est : Nat

/-- Len's walk when its count for the non-name octets is an estimate -/
def lenFieldsE : List EField → Nat → List Bytes → Nat
  | [], off, _ => off
  | e :: es, off, c =>
    let r := domainNameLen (presentLabels e.f.name) (off + e.est) (some c) e.f.cp
    lenFieldsE es (off + e.est + r.1) (r.2.getD c)

theorem inv_gap_est (msgLen off : Nat) (m : CMap) (c : List Bytes) (g est : Nat) (hge : g ≤ est) (h : Inv msgLen off m c) :
    Inv (msgLen + g) (off + est) m c :=
  ⟨by have := h.pos; omega, h.keys, fun e he => by have := h.back e he; omega, h.closed⟩

/-- **Len never under-estimates, estimates included**: for every sequence of fields — any octets for which Len counts
    at least their number, then a valid name, compressed or not — the length Len predicts is at least the length of
    the message the packer produces; a final run of non-name octets with its estimate may follow -/
theorem len_ge_pack_est (es : List EField) (msg : Bytes) (off : Nat) (m : CMap) (c : List Bytes)
    (hinv : Inv msg.length off m c) (hv : ∀ e ∈ es, e.f.name ≠ [] ∧ Valid e.f.name)
    (hest : ∀ e ∈ es, e.f.gap.length ≤ e.est) (tail : Bytes) (tailEst : Nat) (ht : tail.length ≤ tailEst) :
    ((packFields (es.map (·.f)) msg m).1 ++ tail).length ≤ lenFieldsE es off c + tailEst := by
  induction es generalizing msg off m c with
  | nil => simp only [List.map_nil, packFields, lenFieldsE, List.length_append]; have := hinv.pos; omega
  | cons e es ih =>
    obtain ⟨hne, hval⟩ := hv e (List.mem_cons_self ..)
    have hg := hest e (List.mem_cons_self ..)
    have h1 : Inv (msg ++ e.f.gap).length (off + e.est) m c := by
      rw [List.length_append]; exact inv_gap_est _ _ _ _ _ _ hg hinv
    have h2 := inv_name (msg ++ e.f.gap) (off + e.est) m c e.f.cp e.f.name hne hval h1
    simp only [List.map_cons, packFields, lenFieldsE]
    exact ih _ _ _ _ h2 (fun g hg => hv g (List.mem_cons_of_mem _ hg)) (fun g hg => hest g (List.mem_cons_of_mem _ hg))

/-- a whole message packed from scratch -/
theorem len_ge_pack_message_est (es : List EField) (hv : ∀ e ∈ es, e.f.name ≠ [] ∧ Valid e.f.name)
    (hest : ∀ e ∈ es, e.f.gap.length ≤ e.est) (tail : Bytes) (tailEst : Nat) (ht : tail.length ≤ tailEst) :
    ((packFields (es.map (·.f)) [] []).1 ++ tail).length ≤ lenFieldsE es 0 [] + tailEst :=
  len_ge_pack_est es [] 0 [] [] inv_init hv hest tail tailEst ht

end Dns.C08
