/-
  C06 / C07 (lexer) — line and column bookkeeping never influences what the lexer delivers: two lexer states that agree
  on everything but the position fields produce the same tokens (up to their position fields) from the same input.
-/
import DnsProofs.C06Text
import DnsModel.ZoneText
namespace Dns.C06P
open Dns Dns.Lex Dns.C07 Dns.C06T

/-- tokens equal up to line / column -/
def TokEq (a b : Tok) : Prop := a.value = b.value ∧ a.token = b.token ∧ a.torc = b.torc ∧ a.err = b.err

/-- lexer states equal up to the position bookkeeping -/
def StEq (a b : St) : Prop :=
  a.comBuf = b.comBuf ∧ a.comment = b.comment ∧ TokEq a.l b.l ∧ a.brace = b.brace ∧ a.quote = b.quote ∧ a.space = b.space ∧
  a.commt = b.commt ∧ a.rrtype = b.rrtype ∧ a.owner = b.owner ∧ a.nextL = b.nextL

def OptTokEq : Option Tok → Option Tok → Prop
  | none, none => True
  | some a, some b => TokEq a b
  | _, _ => False

def ResEq (r1 r2 : Res) : Prop := StEq r1.1 r2.1 ∧ r1.2.1 = r2.2.1 ∧ OptTokEq r1.2.2 r2.2.2

theorem advance_StEq (a b : St) (x : UInt8) (h : StEq a b) : StEq (advance a x) (advance b x) := by
  obtain ⟨h1, h2, ⟨t1, t2, t3, t4⟩, h4, h5, h6, h7, h8, h9, h10⟩ := h
  unfold advance StEq TokEq
  simp only
  repeat' split
  all_goals simp_all

theorem classify_StEq (a b : St) (str : Bytes) (h : StEq a b) :
    StEq (classify a str).1 (classify b str).1 ∧ (classify a str).2 = (classify b str).2 := by
  obtain ⟨h1, h2, ⟨t1, t2, t3, t4⟩, h4, h5, h6, h7, h8, h9, h10⟩ := h
  unfold classify typeStep classStep StEq TokEq
  simp only [h8, h9]
  by_cases ho : b.owner = true <;> by_cases hr : b.rrtype = true <;>
  cases hlt : lookup Gen.stringToType (goUpper str) <;> cases hlc : lookup Gen.stringToClass (goUpper str) <;>
  cases hp4 : isPrefix (ascii "TYPE") (goUpper str) <;> cases hp5 : isPrefix (ascii "CLASS") (goUpper str) <;>
  cases hn4 : numericCode 4 str <;> cases hn5 : numericCode 5 str <;> simp [*]

theorem ResEq_ite (c : Prop) [Decidable c] (a b a' b' : Res) (h1 : c → ResEq a a') (h2 : ¬ c → ResEq b b') :
    ResEq (if c then a else b) (if c then a' else b') := by
  split
  · exact h1 ‹_›
  · exact h2 ‹_›

set_option maxHeartbeats 1000000 in
theorem scan_StEq (input : Bytes) : ∀ (zl1 zl2 : St) (str com : Bytes) (esc : Bool), StEq zl1 zl2 →
    ResEq (scan zl1 str com esc input) (scan zl2 str com esc input) := by
  induction input with
  | nil =>
    intro zl1 zl2 str com esc h
    obtain ⟨h1, h2, ⟨t1, t2, t3, t4⟩, h4, h5, h6, h7, h8, h9, h10⟩ := h
    unfold scan
    simp only [h4]
    repeat' split
    all_goals simp_all [ResEq, StEq, TokEq, OptTokEq]
  | cons x rest ih =>
    intro zl1 zl2 str com esc h
    have hA := advance_StEq zl1 zl2 x h
    rw [scan, scan]
    generalize advance zl1 x = a at hA ⊢
    generalize advance zl2 x = b at hA ⊢
    have hcl := classify_StEq a b str hA
    obtain ⟨h1, h2, ⟨t1, t2, t3, t4⟩, h4, h5, h6, h7, h8, h9, h10⟩ := hA
    obtain ⟨⟨c1, c2, ⟨ct1, ct2, ct3, ct4⟩, c4, c5, c6, c7, c8, c9, c10⟩, cok⟩ := hcl
    have hclc := classify_StEq { a with comBuf := (if com.length > 1 then com ++ [32] else com) ++ [59], commt := true }
      { b with comBuf := (if com.length > 1 then com ++ [32] else com) ++ [59], commt := true } str
      ⟨rfl, h2, ⟨t1, t2, t3, t4⟩, h4, h5, h6, rfl, h8, h9, h10⟩
    simp only [h4, h5, h6, h7, h8, cok, c6]
    repeat' (first
      | (apply ResEq_ite <;> intro _)
      | (apply ih; simp_all [StEq, TokEq]; done)
      | (simp_all [ResEq, StEq, TokEq, OptTokEq]; done))
    all_goals (cases hr : b.rrtype <;> cases hl : lookup Gen.stringToType (goUpper str) <;>
      simp_all [ResEq, StEq, TokEq, OptTokEq])

theorem next_StEq (zl1 zl2 : St) (input : Bytes) (h : StEq zl1 zl2) : ResEq (next zl1 input) (next zl2 input) := by
  have h' := h
  obtain ⟨h1, h2, ⟨t1, t2, t3, t4⟩, h4, h5, h6, h7, h8, h9, h10⟩ := h
  unfold next
  have c1 : (zl1.nextL = true) = (zl2.nextL = true) := by rw [h10]
  have c2 : (zl1.l.err = true) = (zl2.l.err = true) := by rw [t4]
  have c3 : zl1.comBuf.take Gen.maxTok = zl2.comBuf.take Gen.maxTok := by rw [h1]
  simp only [c1, c2, c3]
  split
  · exact ⟨⟨h1, h2, ⟨t1, t2, t3, t4⟩, h4, h5, h6, h7, h8, h9, rfl⟩, rfl, ⟨t1, t2, t3, t4⟩⟩
  · split
    · exact ⟨h', rfl, trivial⟩
    · exact scan_StEq input _ _ _ _ _ ⟨rfl, rfl, ⟨t1, t2, t3, t4⟩, h4, h5, h6, h7, h8, h9, h10⟩

/-- what the grammar reads of a token -/
def proj (t : Tok) : Nat × Bytes × Nat × Bool := (t.value, t.token, t.torc, t.err)

theorem proj_eq_iff (a b : Tok) : proj a = proj b ↔ TokEq a b := by
  simp [proj, TokEq]

theorem tokens_StEq (f : Nat) (zl1 zl2 : St) (input : Bytes) (h : StEq zl1 zl2) :
    (tokens f zl1 input).map (fun p => proj p.1) = (tokens f zl2 input).map (fun p => proj p.1) := by
  induction f generalizing zl1 zl2 input with
  | zero => simp [tokens]
  | succ f ih =>
    obtain ⟨hs, hr, ht⟩ := next_StEq zl1 zl2 input h
    unfold tokens
    rcases h1 : next zl1 input with ⟨z1, r1, o1⟩
    rcases h2 : next zl2 input with ⟨z2, r2, o2⟩
    rw [h1, h2] at hs hr ht
    simp only at hs hr ht
    subst hr
    cases o1 <;> cases o2 <;> simp only [OptTokEq] at ht
    · rfl
    · simp only [List.map_cons, (proj_eq_iff _ _).mpr ht, ih z1 z2 r1 hs]

theorem pot_StEq (zl1 zl2 : St) (input : Bytes) (h : StEq zl1 zl2) : pot zl1 input = pot zl2 input := by
  obtain ⟨h1, h2, ⟨t1, t2, t3, t4⟩, h4, h5, h6, h7, h8, h9, h10⟩ := h
  simp only [pot, h10, h1, h4, t4]

/-- **positions never matter**: from lexer states that differ only in the line / column bookkeeping, the same input
    yields the same tokens up to their line / column fields -/
theorem stream_StEq (zl1 zl2 : St) (input : Bytes) (h : StEq zl1 zl2) :
    (stream zl1 input).map proj = (stream zl2 input).map proj := by
  unfold stream
  rw [pot_StEq zl1 zl2 input h]
  have := tokens_StEq (pot zl2 input + 1) zl1 zl2 input h
  simp only [List.map_map]
  exact this

/-- the grouping into abstract tokens looks at nothing else either -/
theorem absTokens_proj (m : ZoneText.Mode) (ts1 ts2 : List Tok) (h : ts1.map proj = ts2.map proj) :
    ZoneText.absTokens m ts1 = ZoneText.absTokens m ts2 := by
  induction ts1 generalizing ts2 m with
  | nil =>
    cases ts2 with
    | nil => rfl
    | cons _ _ => simp at h
  | cons a ts1 ih =>
    cases ts2 with
    | nil => simp at h
    | cons b ts2 =>
      simp only [List.map_cons, List.cons.injEq] at h
      obtain ⟨v, tk, tc, e⟩ := (proj_eq_iff a b).mp h.1
      have := ih
      cases m <;> simp only [ZoneText.absTokens, v, tk, tc, e] <;>
        (repeat' split) <;> first | rfl | (congr 1; exact ih _ _ h.2) | exact ih _ _ h.2

end Dns.C06P
