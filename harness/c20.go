package main

import (
	"bytes"
	"fmt"
	"sort"
	"strings"

	"github.com/miekg/dns"
)

func init() { props["C20"] = runC20 }

// canonRR: type, class, lower-cased uncompressed owner and RDATA with embedded names lower-cased,
// computed from the wire octets with the specification table (independent of IsDuplicate).
func canonRR(w []byte) string {
	msg := append(buildMsgWire(0, 0, nil, nil, nil, nil), w...)
	msg[7] = 1
	wk := walkMsg(msg)
	if wk.Err != "" || len(wk.RRStart) != 1 {
		return "?" + wk.Err
	}
	out := append([]byte{}, msg...)
	for _, n := range wk.Names {
		for i := n.Off; i < n.End; i++ {
			// label octets only (no pointers in uncompressed data); length octets are < 64 and unaffected by the fold of A-Z
		}
		p := n.Off
		for p < n.End && out[p] != 0 {
			l := int(out[p])
			for k := p + 1; k <= p+l; k++ {
				if out[k] >= 'A' && out[k] <= 'Z' {
					out[k] += 32
				}
			}
			p += 1 + l
		}
	}
	// drop the TTL (4 octets after type and class)
	rr := out[12:]
	ownerEnd := wk.Names[0].End - 12
	return hx(rr[:ownerEnd+4]) + "|" + hx(rr[ownerEnd+8:])
}

func flipCase(r *Rng, b []byte, from, to int) {
	for i := from; i < to; i++ {
		if (b[i] >= 'a' && b[i] <= 'z' || b[i] >= 'A' && b[i] <= 'Z') && r.Bool() {
			b[i] ^= 0x20
		}
	}
}

// variant: a wire-level relative of g: same, TTL change, owner/embedded name case change, RDATA octet change
func variantOf(r *Rng, g *GenRR) []byte {
	w := append([]byte{}, g.Wire...)
	ol := len(wireOf(g.Owner))
	sel := r.Intn(6)
	if (g.Type == dns.TypeSVCB || g.Type == dns.TypeHTTPS) && r.Chance(40) {
		sel = 6
	}
	if r.Chance(12) {
		sel = 7
	}
	switch sel {
	case 7: // an owner octet that is not a letter changed in bit 0x20 only ('[' <-> '{', '@' <-> '`', '0' <-> 0x10 …)
		var pos []int
		p := 0
		for p < ol-1 {
			l := int(w[p])
			for q := p + 1; q < p+1+l; q++ {
				lo := w[q] | 0x20
				if lo < 'a' || lo > 'z' {
					pos = append(pos, q)
				}
			}
			p += 1 + l
		}
		if len(pos) > 0 {
			w[pos[r.Intn(len(pos))]] ^= 0x20
		}
	case 6: // SVCB: renumber one generic parameter key, keeping the value octets and the ascending order
		p := ol + 10 + 2
		for p < len(w) && w[p] != 0 { // target name
			p += 1 + int(w[p])
		}
		p++
		var keyPos []int
		for q := p; q+4 <= len(w); {
			keyPos = append(keyPos, q)
			q += 4 + (int(w[q+2])<<8 | int(w[q+3]))
		}
		if len(keyPos) > 0 {
			i := r.Intn(len(keyPos))
			k := int(w[keyPos[i]])<<8 | int(w[keyPos[i]+1])
			nk := k + 1
			hi := 65535
			if i+1 < len(keyPos) {
				hi = int(w[keyPos[i+1]])<<8 | int(w[keyPos[i+1]+1])
			}
			if k >= 9 && nk < hi && nk < 65535 {
				w[keyPos[i]], w[keyPos[i]+1] = byte(nk>>8), byte(nk)
			}
		}
	case 0:
	case 1: // TTL
		w[ol+4+r.Intn(4)] ^= byte(1 + r.Intn(255))
	case 2: // owner case (label octets only)
		p := 0
		for p < ol-1 {
			l := int(w[p])
			flipCase(r, w, p+1, p+1+l)
			p += 1 + l
		}
	case 3: // embedded names' case
		msg := append(buildMsgWire(0, 0, nil, nil, nil, nil), w...)
		msg[7] = 1
		wk := walkMsg(msg)
		if wk.Err == "" {
			for _, n := range wk.Names[1:] {
				p := n.Off
				for p < n.End && msg[p] != 0 {
					l := int(msg[p])
					flipCase(r, msg, p+1, p+1+l)
					p += 1 + l
				}
			}
			w = msg[12:]
		}
	case 4: // one RDATA octet
		if len(g.Rdata) > 0 {
			i := ol + 10 + r.Intn(len(g.Rdata))
			w[i] ^= 1 << uint(r.Intn(8))
		}
	case 5: // class
		w[ol+3] ^= 1
	}
	return w
}

func c20Pair(c *Ctx, a, b dns.RR, wa, wb []byte) {
	in := "a=" + hx(wa) + " b=" + hx(wb)
	d := dns.IsDuplicate(a, b)
	want := canonRR(wa) == canonRR(wb)
	if want {
		c.Hit("pair:equal")
	} else {
		c.Hit("pair:different")
	}
	tn := dns.Type(a.Header().Rrtype).String()
	c.Pred("pairs", "isdup-iff-wire:"+tn, in, d == want, b01(d), b01(want), true)
	c.Pred("pairs", "isdup-symmetric:"+tn, in, dns.IsDuplicate(b, a) == d, b01(!d), b01(d), true)
}

func normKey(r dns.RR) string {
	// independent grouping key: text with the TTL column removed and the owner lower-cased
	f := strings.SplitN(r.String(), "\t", 3)
	if len(f) < 3 {
		return r.String()
	}
	return asciiLower(f[0]) + "\t" + f[2]
}

func runC20(c *Ctx) {
	r := c.R
	t := loadSpec()
	types := t.wireTypes()
	c.Res.Rule = "records decoded from generated wire data and their wire-level relatives (TTL, owner case, embedded-name case, one RDATA bit, class); lists with duplicate patterns; non-trivial = always (pairs) ; distinct by content"
	per := c.Scale(60, 1500)
	for _, typ := range types {
		for i := 0; i < per; i++ {
			g := genRR(r, typ, r.Intn(2), r.Bool())
			a, _, err := dns.UnpackRR(g.Wire, 0)
			if err != nil {
				continue
			}
			tn := dns.Type(typ).String()
			c.Pred("single", "isdup-reflexive:"+tn, hx(g.Wire), dns.IsDuplicate(a, a), "false", "true", true)
			c.Pred("single", "isdup-copy:"+tn, hx(g.Wire), dns.IsDuplicate(a, dns.Copy(a)) && dns.IsDuplicate(dns.Copy(a), a), "false", "true", true)
			var rel []dns.RR
			var relW [][]byte
			for k := 0; k < 3; k++ {
				wb := variantOf(r, g)
				b, off, err := dns.UnpackRR(wb, 0)
				if err != nil || off != len(wb) {
					continue
				}
				// only canonical relatives: re-packing reproduces the octets (mutations may create non-minimal encodings)
				if w2, err := packRRBytes(b); err != nil || !bytes.Equal(w2, wb) {
					continue
				}
				c20Pair(c, a, b, g.Wire, wb)
				rel = append(rel, b)
				relW = append(relW, wb)
			}
			// transitivity over the triple
			if len(rel) >= 2 {
				ab, bc, ac := dns.IsDuplicate(a, rel[0]), dns.IsDuplicate(rel[0], rel[1]), dns.IsDuplicate(a, rel[1])
				c.Pred("triples", "isdup-transitive:"+tn, hx(g.Wire)+" "+hx(relW[0])+" "+hx(relW[1]), !(ab && bc) || ac, "not transitive", "transitive", true)
			}
		}
	}
	// records that share a Go struct but not a type: unknown types held as RFC 3597 data, and the RDATA-less
	// records of dynamic updates (*ANY with any Rrtype); equal octets except for the TYPE field are not duplicates
	for i := 0; i < c.Scale(400, 8000); i++ {
		unknown := func() uint16 {
			for {
				typ := uint16(r.Intn(65536))
				if _, known := t.byCode[typ]; !known && typ != dns.TypeOPT && typ != dns.TypeANY && typ != dns.TypeNXNAME && typ != 0 {
					return typ
				}
			}
		}
		t1, t2 := unknown(), unknown()
		if t1 == t2 {
			t2 = unknown()
		}
		owner := genLabels(r, 0)
		rd := r.Bytes(r.Intn(12))
		wa := assembleRR(owner, t1, 1, 5, rd)
		wb := assembleRR(owner, t2, 1, 5, rd)
		a, _, e1 := dns.UnpackRR(wa, 0)
		b, _, e2 := dns.UnpackRR(wb, 0)
		if e1 == nil && e2 == nil && t1 != t2 {
			c20Pair(c, a, b, wa, wb)
			out := dns.Dedup([]dns.RR{dns.Copy(a), dns.Copy(b)}, nil)
			c.Pred("pairs", "dedup-keeps-different-types", "a="+hx(wa)+" b="+hx(wb), len(out) == 2, fmt.Sprint(len(out)), "2", true)
		}
		name := presentLabels(owner)
		x := &dns.ANY{Hdr: dns.RR_Header{Name: name, Rrtype: commonTypes[r.Intn(len(commonTypes))], Class: dns.ClassANY}}
		y := &dns.ANY{Hdr: dns.RR_Header{Name: name, Rrtype: commonTypes[r.Intn(len(commonTypes))], Class: dns.ClassANY}}
		want := x.Hdr.Rrtype == y.Hdr.Rrtype
		d := dns.IsDuplicate(x, y)
		c.Pred("pairs", "isdup-iff-wire:ANY-struct", fmt.Sprintf("%s types %d %d", name, x.Hdr.Rrtype, y.Hdr.Rrtype), d == want, b01(d), b01(want), true)
	}
	// every octet against its bit-0x20 partner, in the owner and in an embedded name: duplicates exactly for the 26 letters
	for b := 0; b < 256; b++ {
		x, y := byte(b), byte(b)^0x20
		isLetter := (x|0x20) >= 'a' && (x|0x20) <= 'z'
		la := [][]byte{{'a', x, 'b'}, []byte("example")}
		lb := [][]byte{{'a', y, 'b'}, []byte("example")}
		for _, where := range []string{"owner", "rdata"} {
			var wa, wb []byte
			if where == "owner" {
				wa = assembleRR(la, dns.TypeA, 1, 5, []byte{192, 0, 2, 1})
				wb = assembleRR(lb, dns.TypeA, 1, 5, []byte{192, 0, 2, 1})
			} else {
				wa = assembleRR([][]byte{[]byte("o")}, dns.TypeCNAME, 1, 5, wireOf(la))
				wb = assembleRR([][]byte{[]byte("o")}, dns.TypeCNAME, 1, 5, wireOf(lb))
			}
			ra, _, e1 := dns.UnpackRR(wa, 0)
			rb, _, e2 := dns.UnpackRR(wb, 0)
			if e1 != nil || e2 != nil {
				continue
			}
			d := dns.IsDuplicate(ra, rb)
			c.Pred("pairs", "isdup-bit5:"+where, fmt.Sprintf("octet=%d a=%s b=%s", b, hx(wa), hx(wb)), d == isLetter, b01(d), b01(isLetter), true)
		}
	}
	// Dedup: lists with duplicate patterns
	nl := c.Scale(3000, 60000)
	for i := 0; i < nl; i++ {
		base := 1 + r.Intn(4)
		var pool []*GenRR
		for k := 0; k < base; k++ {
			typ := commonTypes[r.Intn(len(commonTypes))]
			if r.Chance(30) {
				typ = types[r.Intn(len(types))]
			}
			pool = append(pool, genRR(r, typ, r.Intn(2), true))
		}
		n := r.Intn(7)
		if r.Chance(10) {
			n = r.Intn(30)
		}
		var rrs []dns.RR
		var ws []string
		for k := 0; k < n; k++ {
			g := pool[r.Intn(len(pool))]
			w := append([]byte{}, g.Wire...)
			ol := len(wireOf(g.Owner))
			if r.Bool() { // TTL
				w[ol+4+r.Intn(4)] = byte(r.Intn(256))
			}
			if r.Chance(40) { // owner case
				p := 0
				for p < ol-1 {
					l := int(w[p])
					flipCase(r, w, p+1, p+1+l)
					p += 1 + l
				}
			}
			rr, _, err := dns.UnpackRR(w, 0)
			if err != nil {
				continue
			}
			rrs = append(rrs, rr)
			ws = append(ws, hx(w))
		}
		// model input: keys numbered by normalizedString, TTLs
		keyNo := map[string]int{}
		var recs, want []string
		type grp struct {
			first int
			min   uint32
		}
		groups := map[string]*grp{}
		var order []string
		for k, rr := range rrs {
			ns := dns.VerifNormalizedString(rr)
			if _, ok := keyNo[ns]; !ok {
				keyNo[ns] = len(keyNo) + 1
			}
			recs = append(recs, fmt.Sprintf("%d:%d", keyNo[ns], rr.Header().Ttl))
			// correspondence of normalizedString itself
			if k == 0 || r.Chance(20) {
				c.Op("normalized", "norm "+hxs(rr.String()), hxs(ns), true)
			}
			gk := normKey(rr)
			if g, ok := groups[gk]; ok {
				if rr.Header().Ttl < g.min {
					g.min = rr.Header().Ttl
				}
			} else {
				groups[gk] = &grp{k, rr.Header().Ttl}
				order = append(order, gk)
			}
		}
		firsts := map[int]string{}
		for _, gk := range order {
			firsts[groups[gk].first] = gk
		}
		idx := make([]int, 0, len(firsts))
		for k := range firsts {
			idx = append(idx, k)
		}
		sort.Ints(idx)
		origs := append([]dns.RR{}, rrs...)
		for _, k := range idx {
			want = append(want, fmt.Sprintf("%p:%d", origs[k], groups[firsts[k]].min))
		}
		out := dns.Dedup(rrs, nil)
		var got, gotModel []string
		for _, rr := range out {
			got = append(got, fmt.Sprintf("%p:%d", rr, rr.Header().Ttl))
			gotModel = append(gotModel, fmt.Sprintf("%d:%d", keyNo[dns.VerifNormalizedString(rr)], rr.Header().Ttl))
		}
		in := "list=" + strings.Join(ws, ",")
		nt := len(out) < len(origs)
		if nt {
			c.Hit("dedup:removed")
		} else {
			c.Hit("dedup:all-distinct")
		}
		c.Pred("dedup", "dedup-spec", in, strings.Join(got, " ") == strings.Join(want, " "), strings.Join(gotModel, " "), "first occurrences in order with the group minimum TTL", nt)
		c.Op("dedup", "dedup "+strings.Join(recs, " "), strings.Join(gotModel, " "), nt)
	}
	// address families are part of an APL item: an IPv4 prefix and the same address written as a v4-mapped IPv6 prefix
	// of the same length are different RDATA (the decoder does not mask host bits, so both come off the wire)
	for _, pl := range []byte{32, 24, 8, 0} {
		v4 := []byte{0, 1, pl, 4, 1, 2, 3, 4}
		v6 := append([]byte{0, 2, pl, 16}, append(make([]byte, 10), 0xff, 0xff, 1, 2, 3, 4)...)
		wa := assembleRR([][]byte{[]byte("apl")}, dns.TypeAPL, 1, 60, v4)
		wb := assembleRR([][]byte{[]byte("apl")}, dns.TypeAPL, 1, 60, v6)
		a, _, e1 := dns.UnpackRR(wa, 0)
		b, _, e2 := dns.UnpackRR(wb, 0)
		if e1 == nil && e2 == nil {
			c20Pair(c, a, b, wa, wb)
			c20Pair(c, b, a, wb, wa)
		}
	}
	// address bits behind the prefix length are part of the RDATA too (the decoder keeps them): 10.0.0.0/8 and 10.1.2.3/8
	// off the wire are different octets, hence not duplicates; likewise for IPv6 and for /0
	for _, pc := range []struct {
		fam  byte
		plen byte
		a, b []byte
	}{{1, 8, []byte{10}, []byte{10, 1, 2, 3}}, {1, 24, []byte{192, 0, 2}, []byte{192, 0, 2, 77}}, {1, 0, []byte{}, []byte{1}}, {1, 17, []byte{10, 1, 128}, []byte{10, 1, 129}},
		{2, 32, []byte{0x20, 1, 0xd, 0xb8}, []byte{0x20, 1, 0xd, 0xb8, 0, 0, 0, 1}}, {2, 7, []byte{0xfc}, []byte{0xfd}}} {
		ra := append([]byte{0, pc.fam, pc.plen, byte(len(pc.a))}, pc.a...)
		rb := append([]byte{0, pc.fam, pc.plen, byte(len(pc.b))}, pc.b...)
		wa := assembleRR([][]byte{[]byte("apl")}, dns.TypeAPL, 1, 60, ra)
		wb := assembleRR([][]byte{[]byte("apl")}, dns.TypeAPL, 1, 60, rb)
		a, _, e1 := dns.UnpackRR(wa, 0)
		b, _, e2 := dns.UnpackRR(wb, 0)
		if e1 == nil && e2 == nil {
			c20Pair(c, a, b, wa, wb)
			c20Pair(c, b, a, wb, wa)
		}
	}
	// the same record value more than once in the input (the same pointer, not a copy)
	{
		mk := func(n string, ttl uint32) dns.RR {
			return &dns.A{Hdr: dns.RR_Header{Name: n, Rrtype: dns.TypeA, Class: 1, Ttl: ttl}, A: []byte{192, 0, 2, 1}}
		}
		a, b, d := mk("a.example.", 10), mk("b.example.", 20), mk("d.example.", 30)
		for _, in := range [][]dns.RR{{a, a}, {a, b, a, b, d}, {a, a, a}, {b, a, a, d, d}} {
			var want []string
			seen := map[dns.RR]bool{}
			for _, rr := range in {
				if !seen[rr] {
					seen[rr] = true
					want = append(want, rr.Header().Name)
				}
			}
			out := dns.Dedup(append([]dns.RR{}, in...), nil)
			var got []string
			for _, rr := range out {
				got = append(got, rr.Header().Name)
			}
			c.Pred("dedup", "dedup-same-pointer", fmt.Sprint(len(in), " records, ", len(want), " distinct"), strings.Join(got, " ") == strings.Join(want, " "),
				strings.Join(got, " "), strings.Join(want, " "), true)
		}
	}
	// names written by hand with raw octets above 127 (text-parsed or built in code, not escaped): only the 26 ASCII letters
	// fold; Unicode look-alikes and neighbours (Kelvin sign / k, long s / s, dotless i / I, 0xFE / 0xFF, 0xC0 / 0xE0) do not
	rawPairs := [][2]string{{"k", "\u212a"}, {"K", "\u212a"}, {"s", "\u017f"}, {"S", "\u017f"}, {"i", "\u0131"}, {"I", "\u0130"}, {"\xfe", "\xff"},
		{"\xc0", "\xe0"}, {"\xc9", "\xe9"}, {"ss", "\u00df"}, {"\u00e9", "\u00c9"}, {"a\u0301", "\u00e1"},
		// the octets next to the letters, 32 apart like a letter and its other case, are different octets
		{"[", "{"}, {"]", "}"}, {"^", "~"}, {"_", "\x7f"}, {"`", "\\@"}, {"|", "\\\\"}}
	for _, pr := range rawPairs {
		for _, where := range []string{"owner", "rdata", "both"} {
			mk := func(lbl string) dns.RR {
				o, tgt := "x"+lbl+"y.example.", "ns.example."
				if where == "rdata" {
					o, tgt = "owner.example.", "ns"+lbl+".example."
				} else if where == "both" {
					tgt = "ns" + lbl + ".example."
				}
				return &dns.NS{Hdr: dns.RR_Header{Name: o, Rrtype: dns.TypeNS, Class: dns.ClassINET, Ttl: 5}, Ns: tgt}
			}
			a, b := mk(pr[0]), mk(pr[1])
			wa, e1 := packRRBytes(a)
			wb, e2 := packRRBytes(b)
			if e1 != nil || e2 != nil {
				continue
			}
			c20Pair(c, a, b, wa, wb)
			out := dns.Dedup([]dns.RR{dns.Copy(a), dns.Copy(b)}, nil)
			c.Pred("pairs", "dedup-keeps-different-names", "a="+hx(wa)+" b="+hx(wb), len(out) == 2 || canonRR(wa) == canonRR(wb), fmt.Sprint(len(out)), "2", true)
		}
	}
	// the scratch map handed to Dedup may be used again for the next call (Dedup empties it as it goes): whatever the
	// earlier lists were — all records distinct, or not — the next list is de-duplicated as with a fresh map
	{
		mk := func(name string, ttl uint32, last byte) dns.RR {
			return &dns.A{Hdr: dns.RR_Header{Name: name, Rrtype: dns.TypeA, Class: 1, Ttl: ttl}, A: []byte{192, 0, 2, last}}
		}
		lists := [][]dns.RR{
			{mk("a.example.", 500, 1), mk("b.example.", 500, 2)},                        // all distinct
			{mk("a.example.", 500, 1), mk("a.example.", 50, 1)},                         // the same pair as before, twice
			{mk("c.example.", 500, 3), mk("c.example.", 50, 3), mk("d.example.", 9, 4)}, // new to the map
			{mk("e.example.", 1, 5)},
			{mk("e.example.", 7, 5), mk("E.example.", 3, 5), mk("f.example.", 3, 6)},
		}
		m := map[string]dns.RR{}
		for i, l := range lists {
			var fresh, reused []string
			for _, rr := range dns.Dedup(copyRRs(l), nil) {
				fresh = append(fresh, rr.String())
			}
			for _, rr := range dns.Dedup(copyRRs(l), m) {
				reused = append(reused, rr.String())
			}
			c.Pred("dedup", "dedup-with-reused-map", fmt.Sprintf("call %d with the map of the calls before", i+1), strings.Join(fresh, "|") == strings.Join(reused, "|"),
				strings.Join(reused, " | "), strings.Join(fresh, " | "), i > 0)
		}
	}
	// the OPT pseudo-record is a record too: one read from the wire is a duplicate of itself and of its copy
	for i := 0; i < 4; i++ {
		o := &dns.OPT{Hdr: dns.RR_Header{Name: ".", Rrtype: dns.TypeOPT}}
		o.SetUDPSize(uint16(512 + 100*i))
		if i%2 == 1 {
			o.Option = append(o.Option, &dns.EDNS0_NSID{Code: dns.EDNS0NSID, Nsid: "abcd"})
		}
		w, err := packRRBytes(o)
		if err != nil {
			continue
		}
		a, _, err := dns.UnpackRR(w, 0)
		if err != nil {
			continue
		}
		c.Pred("single", "isdup-reflexive:OPT", hx(w), dns.IsDuplicate(a, a), "false", "true", true)
		c.Pred("single", "isdup-copy:OPT", hx(w), dns.IsDuplicate(a, dns.Copy(a)) && dns.IsDuplicate(dns.Copy(a), a), "false", "true", true)
	}
	// the same text with the label boundaries elsewhere: a dot inside a label (wire label `a.b`) against a label boundary
	// (wire labels `a`, `b`), in the owner and in every name of the RDATA; also with case and TTL differing
	for i, n := 0, c.Scale(60, 1500); i < n; i++ {
		k := 2 + r.Intn(3)
		var labels [][]byte
		for j := 0; j < k; j++ {
			l := r.Bytes(1 + r.Intn(5))
			for q := range l {
				l[q] = "abcxyzABC019-_"[int(l[q])%14]
			}
			labels = append(labels, l)
		}
		at := r.Intn(k - 1)
		merged := append([][]byte{}, labels[:at]...)
		merged = append(merged, append(append(append([]byte{}, labels[at]...), '.'), labels[at+1]...))
		merged = append(merged, labels[at+2:]...)
		other := [][]byte{[]byte("host"), []byte("example")}
		type shape struct {
			typ   uint16
			rdata func(n [][]byte) []byte
		}
		shapes := []shape{
			{dns.TypeA, nil},
			{dns.TypeNS, func(n [][]byte) []byte { return wireOf(n) }},
			{dns.TypeMX, func(n [][]byte) []byte { return append([]byte{0, 10}, wireOf(n)...) }},
			{dns.TypeSOA, func(n [][]byte) []byte {
				return append(append(append([]byte{}, wireOf(other)...), wireOf(n)...), make([]byte, 20)...)
			}},
			{dns.TypeSRV, func(n [][]byte) []byte { return append([]byte{0, 1, 0, 2, 0, 53}, wireOf(n)...) }},
			{dns.TypeRP, func(n [][]byte) []byte { return append(append([]byte{}, wireOf(n)...), wireOf(other)...) }},
		}
		sh := shapes[r.Intn(len(shapes))]
		var wa, wb []byte
		if sh.rdata == nil {
			wa = assembleRR(labels, sh.typ, 1, 60, []byte{192, 0, 2, 1})
			wb = assembleRR(merged, sh.typ, 1, uint32(60+r.Intn(2)), []byte{192, 0, 2, 1})
		} else {
			wa = assembleRR(other, sh.typ, 1, 60, sh.rdata(labels))
			wb = assembleRR(other, sh.typ, 1, uint32(60+r.Intn(2)), sh.rdata(merged))
		}
		a, _, e1 := dns.UnpackRR(wa, 0)
		b, _, e2 := dns.UnpackRR(wb, 0)
		if e1 != nil || e2 != nil {
			c.Pred("label-boundary", "generator", hx(wa)+" "+hx(wb), false, fmt.Sprint(e1, e2), "decodes", false)
			continue
		}
		c.Hit("label-boundary:" + dns.Type(sh.typ).String())
		c20Pair(c, a, b, wa, wb)
		out := dns.Dedup([]dns.RR{dns.Copy(a), dns.Copy(b)}, nil)
		c.Pred("label-boundary", "dedup-keeps-different-label-boundaries", "a="+hx(wa)+" b="+hx(wb), len(out) == 2, fmt.Sprint(len(out)), "2", true)
	}
	// the same records as they come out of differently compressed messages (Rdlength differs, the uncompressed octets do not)
	for i := 0; i < c.Scale(300, 6000); i++ {
		m := new(dns.Msg)
		m.SetQuestion("q.zone.example.", dns.TypeMX)
		m.Response = true
		base := []string{"zone.example.", "a.zone.example.", "b.a.zone.example."}[r.Intn(3)]
		mkrr := func(k int) dns.RR {
			switch k % 5 {
			case 0:
				return &dns.NS{Hdr: dns.RR_Header{Name: base, Rrtype: dns.TypeNS, Class: 1, Ttl: 60}, Ns: "ns." + base}
			case 1:
				return &dns.MX{Hdr: dns.RR_Header{Name: base, Rrtype: dns.TypeMX, Class: 1, Ttl: 60}, Preference: 10, Mx: "mx." + base}
			case 2:
				return &dns.CNAME{Hdr: dns.RR_Header{Name: "c." + base, Rrtype: dns.TypeCNAME, Class: 1, Ttl: 60}, Target: base}
			case 3:
				return &dns.SOA{Hdr: dns.RR_Header{Name: base, Rrtype: dns.TypeSOA, Class: 1, Ttl: 60}, Ns: "ns." + base, Mbox: "h." + base, Serial: 1, Refresh: 2, Retry: 3, Expire: 4, Minttl: 5}
			default:
				return &dns.PTR{Hdr: dns.RR_Header{Name: "p." + base, Rrtype: dns.TypePTR, Class: 1, Ttl: 60}, Ptr: "t." + base}
			}
		}
		n := 2 + r.Intn(4)
		for k := 0; k < n; k++ {
			m.Answer = append(m.Answer, mkrr(r.Intn(5)))
		}
		m.Answer = append(m.Answer, dns.Copy(m.Answer[0])) // the same record twice in one message: later one compresses more
		var views [][]dns.RR
		for _, comp := range []bool{false, true} {
			m.Compress = comp
			w, err := m.Pack()
			if err != nil {
				continue
			}
			var u dns.Msg
			if u.Unpack(w) == nil {
				views = append(views, u.Answer)
			}
		}
		if len(views) != 2 || len(views[0]) != len(views[1]) {
			continue
		}
		for k := range views[0] {
			x, y := views[0][k], views[1][k]
			c.Pred("wire-born", "isdup-across-compression", x.String(), dns.IsDuplicate(x, y) && dns.IsDuplicate(y, x),
				fmt.Sprintf("not duplicates (Rdlength %d / %d)", x.Header().Rdlength, y.Header().Rdlength), "duplicates", true)
		}
		last := len(views[1]) - 1
		c.Pred("wire-born", "isdup-within-message", views[1][0].String(), dns.IsDuplicate(views[1][0], views[1][last]),
			fmt.Sprintf("not duplicates (Rdlength %d / %d)", views[1][0].Header().Rdlength, views[1][last].Header().Rdlength), "duplicates", true)
		all := append(append([]dns.RR{}, views[0]...), views[1]...)
		distinct := map[string]bool{}
		for _, rr := range views[0] {
			distinct[normKey(rr)] = true
		}
		out := dns.Dedup(all, nil)
		c.Pred("wire-born", "dedup-across-compression", views[0][0].String(), len(out) == len(distinct), fmt.Sprint(len(out)), fmt.Sprint(len(distinct)), true)
	}
}

func copyRRs(l []dns.RR) []dns.RR {
	out := make([]dns.RR, len(l))
	for i, rr := range l {
		out[i] = dns.Copy(rr)
	}
	return out
}
