/-
  C06 (text level, decorations) — runs of blanks and tabs between the words of a line, a comment before the end of a
  line, a carriage return before the line feed, comment-only lines: none of them changes what a zone text denotes.
-/
import DnsProofs.C06Text
namespace Dns.C06D
open Dns Dns.Lex Dns.ZoneText Dns.C07 Dns.C06T

/-- a separator octet: blank or tab -/
def isSep (x : UInt8) : Bool := x == 32 || x == 9

/-- `scan` at a blank or tab that ends a non-empty word (as `scan_blank_word`, for either octet) -/
theorem scan_sep_word (z0 : St) (x : UInt8) (hx : isSep x = true) (str com rest : Bytes)
    (hq : (advance z0 x).quote = false) (hc : (advance z0 x).commt = false) (hsp : (advance z0 x).space = false)
    (hs : str.isEmpty = false) :
    scan z0 str com false (x :: rest) =
      (if (classify (advance z0 x) str).2 then
        (blankPending (classify (advance z0 x) str).1, rest, some (classify (advance z0 x) str).1.l)
      else ((classify (advance z0 x) str).1, rest, some (classify (advance z0 x) str).1.l)) := by
  rw [scan]
  have hx' : (x == 32) = true ∨ (x == 9) = true := by simpa [isSep] using hx
  generalize advance z0 x = z at hq hc hsp ⊢
  have hk := classify_keeps z str
  have hq' : ¬ z.quote = true := by simp [hq]
  have hc' : ¬ z.commt = true := by simp [hc]
  simp only [hx', ↓reduceIte, Bool.false_eq_true, false_or]
  rw [if_neg hq', if_neg hc']
  simp only [hs, Bool.false_eq_true, ↓reduceIte]
  by_cases hok : (classify z str).2 = true
  · simp only [hok, Bool.not_true, Bool.false_eq_true, ↓reduceIte]
    have : (classify z str).1.space = false := by rw [hk.1, hsp]
    simp only [this, Bool.not_false, ↓reduceIte, blankPending]
  · have hok' : (classify z str).2 = false := by simpa using hok
    simp only [hok', Bool.not_false, ↓reduceIte, Bool.false_eq_true]

/-- a further blank or tab after a blank has been delivered is swallowed -/
theorem stream_sep_skip (zl : St) (x : UInt8) (hx : isSep x = true) (rest : Bytes) (o r : Bool) (hL : LS zl o r true) :
    ∃ zl', stream zl (x :: rest) = stream zl' rest ∧ LS zl' false r true := by
  have hx' : (x == 32) = true ∨ (x == 9) = true := by simpa [isSep] using hx
  obtain ⟨f1, f2, f3, f4, f5, f6, f7, f8, f9, f10, f11⟩ := atEnd_flags zl [] x hL.rdy
  have hsp : (atEnd zl [] x).space = true := by rw [f11 rfl, hL.sp]
  -- the state in which scanning goes on
  refine ⟨{ atEnd zl [] x with owner := false }, ?_, ?_⟩
  · rw [stream_step zl, stream_step { atEnd zl [] x with owner := false }]
    have hn1 : next zl (x :: rest) = scan { atEnd zl [] x with owner := false } [] [] false rest := by
      rw [next_ready zl _ hL.rdy, scan]
      have hq' : ¬ (advance { zl with comBuf := [], comment := [] } x).quote = true := by
        have := f1; unfold atEnd advN at this; simp [this]
      have hc' : ¬ (advance { zl with comBuf := [], comment := [] } x).commt = true := by
        have := f2; unfold atEnd advN at this; simp [this]
      have hsp' : (advance { zl with comBuf := [], comment := [] } x).space = true := by
        have := hsp; unfold atEnd advN at this; exact this
      simp only [hx', ↓reduceIte, Bool.false_eq_true, false_or]
      rw [if_neg hq', if_neg hc']
      simp only [List.isEmpty_nil, ↓reduceIte]
      rw [if_neg (by simp [hsp'])]
      rfl
    have hR2 : Ready { atEnd zl [] x with owner := false } := ⟨f3, f6, f1, f2, f5, f4⟩
    rw [hn1, next_ready _ _ hR2]
    have hst : ({ ({ atEnd zl [] x with owner := false } : St) with comBuf := [], comment := [] } : St) =
        { atEnd zl [] x with owner := false } := by
      have hcm : (atEnd zl [] x).comment = [] := by
        unfold atEnd advN
        have := (advance_facts { zl with comBuf := [], comment := [] } x).2.2.2.1
        rw [this]
      cases hz : atEnd zl [] x
      rw [hz] at f5 hcm
      simp only at f5 hcm
      subst f5 hcm
      rfl
    rw [hst]
  · exact ⟨⟨f3, f6, f1, f2, f5, f4⟩, rfl, by simp only []; rw [f7, hL.rr], hsp⟩

/-- a separator: a non-empty run of blanks and tabs -/
def Seps (s : Bytes) : Prop := s ≠ [] ∧ s.all isSep = true

theorem stream_seps_skip (zl : St) (xs rest : Bytes) (hx : xs.all isSep = true) (r : Bool) (hL : LS zl false r true) :
    ∃ zl', stream zl (xs ++ rest) = stream zl' rest ∧ LS zl' false r true := by
  induction xs generalizing zl with
  | nil => exact ⟨zl, rfl, hL⟩
  | cons x xs ih =>
    simp only [List.all_cons, Bool.and_eq_true] at hx
    obtain ⟨z1, e1, L1⟩ := stream_sep_skip zl x hx.1 (xs ++ rest) false r hL
    obtain ⟨z2, e2, L2⟩ := ih z1 hx.2 L1
    exact ⟨z2, by rw [List.cons_append, e1, e2], L2⟩

/-- **word and separator**: as `stream_word_blank`, for any run of blanks and tabs behind the word -/
theorem stream_word_seps (zl : St) (w sep rest : Bytes) (o r s : Bool) (hL : LS zl o r s) (hw : wordOK w = true)
    (hne : w ≠ []) (hsep : Seps sep)
    (hok : ∀ z : St, z.owner = o → z.rrtype = r → z.l.err = false → (classify z w).2 = true) :
    ∃ z t b zl', z.owner = o ∧ z.rrtype = r ∧ z.l.err = false ∧ t = (classify z w).1.l ∧
      stream zl (w ++ (sep ++ rest)) = t :: b :: stream zl' rest ∧ t.token = w ∧ t.err = false ∧
      b.value = zBlank ∧ b.err = false ∧ LS zl' false (classify z w).1.rrtype true := by
  obtain ⟨hsne, hsall⟩ := hsep
  cases sep with
  | nil => exact absurd rfl hsne
  | cons x xs =>
    simp only [List.all_cons, Bool.and_eq_true] at hsall
    obtain ⟨f1, f2, f3, f4, f5, f6, f7, f8, f9, f10, f11⟩ := atEnd_flags zl w x hL.rdy
    have hz := hok (atEnd zl w x) (by rw [f8, hL.ow]) (by rw [f7, hL.rr]) f6
    have hcf := classify_facts (atEnd zl w x) w
    have hck := classify_keeps (atEnd zl w x) w
    have herr : (classify (atEnd zl w x) w).1.l.err = false := by rw [hcf.2.2.2.2.1 f6, hz]; rfl
    have hwk : okN false w = true ∧ endE false w = false := by
      simp only [wordOK, Bool.and_eq_true, Bool.not_eq_true'] at hw; exact ⟨hw.1.1, hw.1.2⟩
    have hstr : ([] ++ w).isEmpty = false := by
      cases w with
      | nil => exact absurd rfl hne
      | cons _ _ => rfl
    have hnext : next zl (w ++ (x :: xs ++ rest)) =
        (blankPending (classify (atEnd zl w x) w).1, xs ++ rest, some (classify (atEnd zl w x) w).1.l) := by
      rw [next_ready zl _ hL.rdy, List.cons_append,
        scan_word _ _ _ _ _ _ hwk.1 (by simpa using hL.rdy.q) (by simpa using hL.rdy.c), hwk.2,
        scan_sep_word _ x hsall.1 _ _ _ f1 f2 (f10 hw) hstr]
      simp only [List.nil_append]
      have : (classify (advance (advN { zl with comBuf := [], comment := [] } false w) x) w).2 = true := hz
      rw [if_pos this]
      rfl
    have hL1 : LS { blankPending (classify (atEnd zl w x) w).1 with nextL := false } false (classify (atEnd zl w x) w).1.rrtype true := by
      refine ⟨⟨rfl, ?_, ?_, ?_, ?_, ?_⟩, rfl, rfl, rfl⟩
      · simpa [blankPending] using herr
      · simp only [blankPending]; rw [hck.2.1]; exact f1
      · simp only [blankPending]; rw [hck.2.2.1]; exact f2
      · simp only [blankPending]; rw [hcf.2.2.1]; exact f5
      · simp only [blankPending]; rw [hcf.2.1]; exact f4
    obtain ⟨z2, e2, L2⟩ := stream_seps_skip _ xs rest hsall.2 _ hL1
    refine ⟨atEnd zl w x, (classify (atEnd zl w x) w).1.l, (blankPending (classify (atEnd zl w x) w).1).l, z2,
      by rw [f8, hL.ow], by rw [f7, hL.rr], f6, rfl, ?_, classify_ok_token _ _ hz, herr, rfl, ?_, L2⟩
    · rw [stream_step, hnext]
      simp only
      rw [stream_pending _ _ (by rfl), e2]
    · simpa [blankPending] using herr

/-- a carriage return outside quotes is dropped -/
theorem scan_cr (z : St) (str com rest : Bytes) (hq : (advance z 13).quote = false) :
    scan z str com false (13 :: rest) = scan (advance z 13) str com false rest := by
  rw [scan]
  have h1 : ¬ (((13 : UInt8) == 32) = true ∨ ((13 : UInt8) == 9) = true) := by decide
  have h2 : ¬ ((13 : UInt8) == 59) = true := by decide
  have hq' : ¬ (advance z 13).quote = true := by simp [hq]
  simp only [h1, h2, ↓reduceIte, beq_self_eq_true, Bool.false_eq_true]
  rw [if_neg hq']

/-! ### comments -/

/-- inside a comment every octet other than the line feed and a further semicolon is swallowed -/
theorem scan_comment_byte (z : St) (str com rest : Bytes) (x : UInt8) (h10 : x ≠ 10) (h59 : x ≠ 59)
    (hc : (advance z x).commt = true) (hq : (advance z x).quote = false) :
    scan z str com false (x :: rest) = scan (advance z x) str (if x == 13 then com else com ++ [x]) false rest := by
  rw [scan]
  have hq' : ¬ (advance z x).quote = true := by simp [hq]
  have h10' : (x == 10) = false := by simpa using h10
  have h59' : (x == 59) = false := by simpa using h59
  by_cases h32 : x = 32 ∨ x = 9
  · have h32' : (x == 32) = true ∨ (x == 9) = true := by simpa using h32
    have h13 : (x == 13) = false := by rcases h32 with rfl | rfl <;> decide
    simp only [h32', ↓reduceIte, Bool.false_eq_true, false_or, h13]
    rw [if_neg hq', if_pos hc]
  · have h32' : ¬ ((x == 32) = true ∨ (x == 9) = true) := by simpa using h32
    simp only [h32', ↓reduceIte, h59', Bool.false_eq_true]
    by_cases h13 : x = 13
    · subst h13
      simp only [beq_self_eq_true, ↓reduceIte]
      rw [if_neg hq']
    · have h13' : (x == 13) = false := by simpa using h13
      simp only [h13', Bool.false_eq_true, ↓reduceIte, h10']
      by_cases h92 : x = 92
      · subst h92
        simp only [beq_self_eq_true, ↓reduceIte]
        rw [if_pos hc]
      · have h92' : (x == 92) = false := by simpa using h92
        simp only [h92', Bool.false_eq_true, ↓reduceIte]
        by_cases h34 : x = 34
        · subst h34
          simp only [beq_self_eq_true, ↓reduceIte]
          rw [if_pos hc]
        · have h34' : (x == 34) = false := by simpa using h34
          simp only [h34', Bool.false_eq_true, ↓reduceIte]
          by_cases h40 : x = 40 ∨ x = 41
          · have h40' : (x == 40) = true ∨ (x == 41) = true := by simpa using h40
            simp only [h40', ↓reduceIte]
            rw [if_pos hc]
          · have h40' : ¬ ((x == 40) = true ∨ (x == 41) = true) := by simpa using h40
            simp only [h40', ↓reduceIte]
            rw [if_pos hc]

/-- the octets of a comment: anything but a line feed or a further semicolon -/
def CommentText (c : Bytes) : Prop := ∀ x ∈ c, x ≠ 10 ∧ x ≠ 59

theorem advance_flags_all (z : St) (x : UInt8) :
    (advance z x).quote = z.quote ∧ (advance z x).commt = z.commt ∧ (advance z x).nextL = z.nextL ∧
    (advance z x).brace = z.brace ∧ (advance z x).comBuf = z.comBuf ∧ (advance z x).rrtype = z.rrtype ∧
    (advance z x).owner = z.owner ∧ (advance z x).space = z.space ∧ (advance z x).l.err = z.l.err := by
  obtain ⟨b1, b2, b3, b4, b5, b6, b7⟩ := advance_flags z x
  obtain ⟨c1, c2, c3, c4, c5, c6⟩ := advance_facts z x
  exact ⟨b1, b2, c1, c2, c3, b3, b4, b5, c5⟩

theorem scan_comment_bytes (z : St) (str com c rest : Bytes) (hc : CommentText c) (hm : z.commt = true) (hq : z.quote = false) :
    ∃ z' com', scan z str com false (c ++ rest) = scan z' str com' false rest ∧
      z'.quote = z.quote ∧ z'.commt = z.commt ∧ z'.nextL = z.nextL ∧ z'.brace = z.brace ∧ z'.comBuf = z.comBuf ∧
      z'.rrtype = z.rrtype ∧ z'.owner = z.owner ∧ z'.space = z.space ∧ z'.l.err = z.l.err := by
  induction c generalizing z com with
  | nil => exact ⟨z, com, rfl, rfl, rfl, rfl, rfl, rfl, rfl, rfl, rfl, rfl⟩
  | cons x c ih =>
    obtain ⟨a1, a2, a3, a4, a5, a6, a7, a8, a9⟩ := advance_flags_all z x
    obtain ⟨hx10, hx59⟩ := hc x (by simp)
    obtain ⟨z', com', e, b1, b2, b3, b4, b5, b6, b7, b8, b9⟩ :=
      ih (advance z x) (if x == 13 then com else com ++ [x]) (fun y hy => hc y (by simp [hy])) (by rw [a2, hm]) (by rw [a1, hq])
    refine ⟨z', com', ?_, by rw [b1, a1], by rw [b2, a2], by rw [b3, a3], by rw [b4, a4], by rw [b5, a5], by rw [b6, a6],
      by rw [b7, a7], by rw [b8, a8], by rw [b9, a9]⟩
    rw [List.cons_append, scan_comment_byte z str com _ x hx10 hx59 (by rw [a2, hm]) (by rw [a1, hq]), e]

/-- the state after the line feed that ends a comment outside parentheses -/
def commentEnd (a : St) (com : Bytes) : St :=
  { a with commt := false, rrtype := false, owner := true, l := { a.l with value := zNewline, token := [10] }, comment := com }

/-- a comment from a token boundary to the end of the line: only the newline is delivered -/
theorem stream_comment_nl (zl : St) (c rest : Bytes) (o r s : Bool) (hL : LS zl o r s) (hc : CommentText c) :
    ∃ b zl', stream zl (59 :: (c ++ 10 :: rest)) = b :: stream zl' rest ∧ b.value = zNewline ∧ b.err = false ∧
      LS zl' true false s := by
  obtain ⟨f1, f2, f3, f4, f5, f6, f7, f8, f9, f10, f11⟩ := atEnd_flags zl [] 59 hL.rdy
  -- the semicolon
  have hstart : next zl (59 :: (c ++ 10 :: rest)) =
      scan { atEnd zl [] 59 with commt := true, comBuf := [] } [] [59] false (c ++ 10 :: rest) := by
    rw [next_ready zl _ hL.rdy, scan]
    have h1 : ¬ (((59 : UInt8) == 32) = true ∨ ((59 : UInt8) == 9) = true) := by decide
    have hq' : ¬ (advance { zl with comBuf := [], comment := [] } 59).quote = true := by
      have := f1; unfold atEnd advN at this; simp [this]
    simp only [h1, ↓reduceIte, beq_self_eq_true, Bool.false_eq_true, false_or]
    rw [if_neg hq']
    simp only [List.length_nil, gt_iff_lt, Nat.not_lt_zero, false_and, ↓reduceIte, List.nil_append, List.isEmpty_nil,
      Bool.not_true, Bool.false_eq_true]
    rfl
  obtain ⟨z2, com2, e2, b1, b2, b3, b4, b5, b6, b7, b8, b9⟩ :=
    scan_comment_bytes { atEnd zl [] 59 with commt := true, comBuf := [] } [] [59] c (10 :: rest) hc rfl (by simpa using f1)
  simp only at b1 b2 b3 b4 b5 b6 b7 b8 b9
  obtain ⟨a1, a2, a3, a4, a5, a6, a7, a8, a9⟩ := advance_flags_all z2 10
  -- the line feed in comment mode, outside parentheses
  have hnl : scan z2 [] com2 false (10 :: rest) =
      (commentEnd (advance z2 10) com2, rest, some (commentEnd (advance z2 10) com2).l) := by
    rw [scan]
    have h1 : ¬ (((10 : UInt8) == 32) = true ∨ ((10 : UInt8) == 9) = true) := by decide
    have h2 : ¬ ((10 : UInt8) == 59) = true := by decide
    have h3 : ¬ ((10 : UInt8) == 13) = true := by decide
    have hq' : ¬ (advance z2 10).quote = true := by rw [a1, b1]; simpa using f1
    have hc' : (advance z2 10).commt = true := by rw [a2, b2]
    have hb' : ((advance z2 10).brace == 0) = true := by rw [a4, b4]; simpa using f4
    simp only [h1, h2, h3, ↓reduceIte, beq_self_eq_true, Bool.false_eq_true]
    rw [if_neg hq', if_pos hc']
    simp only [hb', ↓reduceIte, commentEnd]
  refine ⟨(commentEnd (advance z2 10) com2).l, commentEnd (advance z2 10) com2, ?_, rfl, ?_, ?_⟩
  · rw [stream_step, hstart, e2, hnl]
  · simp only [commentEnd]; rw [a9, b9]; simpa using f6
  · refine ⟨⟨?_, ?_, ?_, rfl, ?_, ?_⟩, rfl, rfl, ?_⟩
    · simp only [commentEnd]; rw [a3, b3]; simpa using f3
    · simp only [commentEnd]; rw [a9, b9]; simpa using f6
    · simp only [commentEnd]; rw [a1, b1]; simpa using f1
    · simp only [commentEnd]; rw [a5, b5]
    · simp only [commentEnd]; rw [a4, b4]; simpa using f4
    · simp only [commentEnd]; rw [a8, b8]; show (atEnd zl [] 59).space = s; rw [f11 rfl, hL.sp]

/-! ### the end of a line -/

/-- what may stand between the last word of a line and its line feed: nothing, a carriage return, a run of blanks and
    tabs (possibly with a carriage return), or blanks and a comment -/
inductive Eol : Bytes → Prop
  | plain : Eol []
  | cr : Eol [13]
  | seps (s : Bytes) (h : Seps s) : Eol s
  | sepsCr (s : Bytes) (h : Seps s) : Eol (s ++ [13])
  | comment (s : Bytes) (h : Seps s) (c : Bytes) (hc : CommentText c) : Eol (s ++ 59 :: c)

/-- whether a blank has been delivered (or swallowed) since the last word when the line ends -/
def eolSp (e : Bytes) : Bool := match e with | x :: _ => isSep x | [] => false

theorem eolSp_seps (s t : Bytes) (h : Seps s) : eolSp (s ++ t) = true := by
  obtain ⟨hne, hall⟩ := h
  cases s with
  | nil => exact absurd rfl hne
  | cons x xs => simp only [List.all_cons, Bool.and_eq_true] at hall; simpa [eolSp] using hall.1

/-- a line feed alone, or behind a carriage return, at a token boundary -/
theorem stream_crnl_first (zl : St) (rest : Bytes) (o r s : Bool) (hL : LS zl o r s) :
    ∃ b zl', stream zl (13 :: 10 :: rest) = b :: stream zl' rest ∧ b.value = zNewline ∧ b.err = false ∧ LS zl' true false s := by
  obtain ⟨f1, f2, f3, f4, f5, f6, f7, f8, f9, f10, f11⟩ := atEnd_flags zl [] 13 hL.rdy
  have hq : (advance { zl with comBuf := [], comment := [] } 13).quote = false := by
    have := f1; unfold atEnd advN at this; exact this
  obtain ⟨a1, a2, a3, a4, a5, a6, a7, a8, a9⟩ := advance_flags_all (atEnd zl [] 13) 10
  have e1 : next zl (13 :: 10 :: rest) = (nlAlone (advance (atEnd zl [] 13) 10), rest, some (nlAlone (advance (atEnd zl [] 13) 10)).l) := by
    rw [next_ready zl _ hL.rdy, scan_cr _ _ _ _ hq]
    exact scan_nl_first _ [] rest (a1.trans f1) (a2.trans f2) (a4.trans f4)
  refine ⟨(nlAlone (advance (atEnd zl [] 13) 10)).l, nlAlone (advance (atEnd zl [] 13) 10), ?_, rfl, ?_, ?_⟩
  · rw [stream_step, e1]
  · exact (a9.trans f6)
  · refine ⟨⟨?_, ?_, ?_, ?_, rfl, ?_⟩, rfl, rfl, ?_⟩
    · exact (a3.trans f3)
    · exact (a9.trans f6)
    · exact (a1.trans f1)
    · exact (a2.trans f2)
    · exact (a4.trans f4)
    · simp only [nlAlone]; rw [a8, f11 rfl, hL.sp]

/-- the last word of a line, delivered as a plain string, with whatever stands between it and the line feed -/
theorem stream_word_eol (zl : St) (w e rest : Bytes) (o r s : Bool) (hL : LS zl o r s) (hw : Word w) (he : Eol e)
    (hstr : r = true ∨ (o = false ∧ StrWord w)) (ho : r = true → o = false) :
    ∃ t mid nl zl', stream zl (w ++ (e ++ 10 :: rest)) = t :: (mid ++ nl :: stream zl' rest) ∧
      t.token = w ∧ t.err = false ∧ t.value = zString ∧
      (mid = [] ∨ ∃ b, mid = [b] ∧ b.value = zBlank ∧ b.err = false) ∧
      nl.value = zNewline ∧ nl.err = false ∧ LS zl' true false (eolSp e) := by
  -- how the word is classified when a separator follows it
  have hcls : ∀ z : St, z.owner = o → z.rrtype = r → z.l.err = false →
      (classify z w).2 = true ∧ (classify z w).1.l.value = zString := by
    intro z zo zr ze
    rcases hstr with hr | ⟨ho', hs⟩
    · subst hr
      have := classify_rdata z w (by rw [zo, ho rfl]) zr
      exact ⟨this.1, this.2.1⟩
    · subst ho'
      cases r with
      | true => have := classify_rdata z w zo zr; exact ⟨this.1, this.2.1⟩
      | false => have := classify_str z w zo zr hs; exact ⟨this.1, this.2.1⟩
  have hnlw : ∀ z : St, z.rrtype = r → z.l.err = false →
      (nlWordTok z w).value = zString ∧ (nlWordTok z w).token = w ∧ (nlWordTok z w).err = false := by
    intro z zr ze
    rcases hstr with hr | ⟨_, hs⟩
    · exact nlWordTok_plain z w ze (Or.inl (by rw [zr, hr]))
    · exact nlWordTok_plain z w ze (Or.inr hs.2.1)
  cases he with
  | plain =>
    obtain ⟨z, t, b, zl', zr, ze, ht, hs, hbv, hbe, hL'⟩ := stream_word_nl zl w rest o r s hL hw.2 hw.1
    obtain ⟨n1, n2, n3⟩ := hnlw z zr ze
    exact ⟨t, [], b, zl', by simpa using hs, by rw [ht]; exact n2, by rw [ht]; exact n3, by rw [ht]; exact n1,
      Or.inl rfl, hbv, hbe, hL'⟩
  | cr =>
    -- the carriage return is dropped while the word is still being gathered
    obtain ⟨f1, f2, f3, f4, f5, f6, f7, f8, f9, f10, f11⟩ := atEnd_flags zl w 13 hL.rdy
    obtain ⟨a1, a2, a3, a4, a5, a6, a7, a8, a9⟩ := advance_flags_all (atEnd zl w 13) 10
    have hwk : okN false w = true ∧ endE false w = false := by
      have := hw.2; simp only [wordOK, Bool.and_eq_true, Bool.not_eq_true'] at this; exact ⟨this.1.1, this.1.2⟩
    have hstr' : ([] ++ w).isEmpty = false := by
      cases w with
      | nil => exact absurd rfl hw.1
      | cons _ _ => rfl
    have hq13 : (advance (advN { zl with comBuf := [], comment := [] } false w) 13).quote = false := by
      have := f1; unfold atEnd at this; exact this
    have e1 : next zl (w ++ ([13] ++ 10 :: rest)) =
        (nlPending (advance (atEnd zl w 13) 10) w, rest, some (nlWordTok (advance (atEnd zl w 13) 10) w)) := by
      rw [next_ready zl _ hL.rdy, scan_word _ _ _ _ _ _ hwk.1 (by simpa using hL.rdy.q) (by simpa using hL.rdy.c), hwk.2]
      simp only [List.singleton_append, List.nil_append]
      rw [scan_cr _ _ _ _ hq13]
      exact scan_nl_word _ _ _ _ (a1.trans f1) (a2.trans f2) (a4.trans f4) (by simpa using hstr')
    have ze : (advance (atEnd zl w 13) 10).l.err = false := by rw [a9]; exact f6
    have zr : (advance (atEnd zl w 13) 10).rrtype = r := by rw [a6, f7, hL.rr]
    obtain ⟨n1, n2, n3⟩ := hnlw _ zr ze
    refine ⟨nlWordTok (advance (atEnd zl w 13) 10) w, [], (nlPending (advance (atEnd zl w 13) 10) w).l,
      { nlPending (advance (atEnd zl w 13) 10) w with nextL := false }, ?_, n2, n3, n1, Or.inl rfl, rfl, ?_, ?_⟩
    · rw [stream_step, e1]
      simp only [List.nil_append]
      rw [stream_pending _ _ (by rfl)]
    · simpa [nlPending] using n3
    · refine ⟨⟨rfl, ?_, ?_, ?_, rfl, ?_⟩, rfl, rfl, ?_⟩
      · simpa [nlPending] using n3
      · exact (a1.trans f1)
      · exact (a2.trans f2)
      · exact (a4.trans f4)
      · simp only [nlPending]; rw [a8]; exact f10 hw.2
  | seps _ hsp =>
    obtain ⟨z, t, b, zl1, zo, zr, ze, ht, hs, htk, hte, hbv, hbe, hL1⟩ :=
      stream_word_seps zl w e (10 :: rest) o r s hL hw.2 hw.1 hsp (fun z zo zr ze => (hcls z zo zr ze).1)
    obtain ⟨nl, zl2, hs2, nv, ne, hL2⟩ := stream_nl_first zl1 rest false _ true hL1
    exact ⟨t, [b], nl, zl2, by rw [hs, hs2]; rfl, htk, hte, by rw [ht]; exact (hcls z zo zr ze).2,
      Or.inr ⟨b, rfl, hbv, hbe⟩, nv, ne, by rw [← List.append_nil e, eolSp_seps e [] hsp]; exact hL2⟩
  | sepsCr sp hsp =>
    obtain ⟨z, t, b, zl1, zo, zr, ze, ht, hs, htk, hte, hbv, hbe, hL1⟩ :=
      stream_word_seps zl w sp (13 :: 10 :: rest) o r s hL hw.2 hw.1 hsp (fun z zo zr ze => (hcls z zo zr ze).1)
    obtain ⟨nl, zl2, hs2, nv, ne, hL2⟩ := stream_crnl_first zl1 rest false _ true hL1
    refine ⟨t, [b], nl, zl2, ?_, htk, hte, by rw [ht]; exact (hcls z zo zr ze).2, Or.inr ⟨b, rfl, hbv, hbe⟩, nv, ne,
      by rw [eolSp_seps sp _ hsp]; exact hL2⟩
    rw [show (sp ++ [13] ++ 10 :: rest) = sp ++ 13 :: 10 :: rest by simp, hs, hs2]; rfl
  | comment sp hsp c hc =>
    obtain ⟨z, t, b, zl1, zo, zr, ze, ht, hs, htk, hte, hbv, hbe, hL1⟩ :=
      stream_word_seps zl w sp (59 :: (c ++ 10 :: rest)) o r s hL hw.2 hw.1 hsp (fun z zo zr ze => (hcls z zo zr ze).1)
    obtain ⟨nl, zl2, hs2, nv, ne, hL2⟩ := stream_comment_nl zl1 c rest false _ true hL1 hc
    refine ⟨t, [b], nl, zl2, ?_, htk, hte, by rw [ht]; exact (hcls z zo zr ze).2, Or.inr ⟨b, rfl, hbv, hbe⟩, nv, ne,
      by rw [eolSp_seps sp _ hsp]; exact hL2⟩
    rw [show (sp ++ 59 :: c ++ 10 :: rest) = sp ++ 59 :: (c ++ 10 :: rest) by simp, hs, hs2]; rfl

/-! ### separators at the start of a line, bare line ends -/

theorem scan_sep_first (z0 : St) (x : UInt8) (hx : isSep x = true) (com rest : Bytes) (hq : (advance z0 x).quote = false)
    (hc : (advance z0 x).commt = false) (hsp : (advance z0 x).space = false) :
    scan z0 [] com false (x :: rest) = (blankAlone (advance z0 x), rest, some (blankAlone (advance z0 x)).l) := by
  rw [scan]
  have hx' : (x == 32) = true ∨ (x == 9) = true := by simpa [isSep] using hx
  generalize advance z0 x = z at hq hc hsp ⊢
  have hq' : ¬ z.quote = true := by simp [hq]
  have hc' : ¬ z.commt = true := by simp [hc]
  simp only [hx', ↓reduceIte, Bool.false_eq_true, false_or]
  rw [if_neg hq', if_neg hc']
  simp [hsp, blankAlone, hq, hc]

/-- a blank or tab when none has been seen since the last word: delivered as a blank -/
theorem stream_sep_first (zl : St) (x : UInt8) (hx : isSep x = true) (rest : Bytes) (o r : Bool) (hL : LS zl o r false) :
    ∃ b zl', stream zl (x :: rest) = b :: stream zl' rest ∧ b.value = zBlank ∧ b.err = false ∧ LS zl' false r true := by
  obtain ⟨f1, f2, f3, f4, f5, f6, f7, f8, f9, f10, f11⟩ := atEnd_flags zl [] x hL.rdy
  have hsp : (atEnd zl [] x).space = false := by rw [f11 rfl, hL.sp]
  refine ⟨(blankAlone (atEnd zl [] x)).l, blankAlone (atEnd zl [] x), ?_, rfl, ?_, ?_⟩
  · rw [stream_step, next_ready zl _ hL.rdy]
    have := scan_sep_first { zl with comBuf := [], comment := [] } x hx [] rest f1 f2 hsp
    unfold atEnd advN at *
    rw [this]
  · simpa [blankAlone] using f6
  · refine ⟨⟨?_, ?_, ?_, ?_, ?_, ?_⟩, rfl, ?_, rfl⟩
    · simpa [blankAlone] using f3
    · simpa [blankAlone] using f6
    · simpa [blankAlone] using f1
    · simpa [blankAlone] using f2
    · simpa [blankAlone] using f5
    · simpa [blankAlone] using f4
    · simp only [blankAlone]; rw [f7, hL.rr]

/-- a run of blanks and tabs at a token boundary: one blank token if none has been seen since the last word, else nothing -/
theorem stream_lead (zl : St) (sep rest : Bytes) (o r s : Bool) (hL : LS zl o r s) (hsep : Seps sep) :
    ∃ pre zl', stream zl (sep ++ rest) = pre ++ stream zl' rest ∧ LS zl' false r true ∧
      ((s = true ∧ pre = []) ∨ (s = false ∧ ∃ b, pre = [b] ∧ b.value = zBlank ∧ b.err = false)) := by
  obtain ⟨hne, hall⟩ := hsep
  cases sep with
  | nil => exact absurd rfl hne
  | cons x xs =>
    simp only [List.all_cons, Bool.and_eq_true] at hall
    cases s with
    | true =>
      obtain ⟨z1, e1, L1⟩ := stream_sep_skip zl x hall.1 (xs ++ rest) o r hL
      obtain ⟨z2, e2, L2⟩ := stream_seps_skip z1 xs rest hall.2 r L1
      exact ⟨[], z2, by rw [List.cons_append, e1, e2]; rfl, L2, Or.inl ⟨rfl, rfl⟩⟩
    | false =>
      obtain ⟨b, z1, e1, bv, be, L1⟩ := stream_sep_first zl x hall.1 (xs ++ rest) o r hL
      obtain ⟨z2, e2, L2⟩ := stream_seps_skip z1 xs rest hall.2 r L1
      exact ⟨[b], z2, by rw [List.cons_append, e1, e2]; rfl, L2, Or.inr ⟨rfl, b, rfl, bv, be⟩⟩

/-- what may stand before the line feed of a line without words -/
inductive EolBare : Bytes → Prop
  | plain : EolBare []
  | cr : EolBare [13]
  | comment (c : Bytes) (hc : CommentText c) : EolBare (59 :: c)

theorem stream_eol_bare (zl : St) (e rest : Bytes) (o r s : Bool) (hL : LS zl o r s) (he : EolBare e) :
    ∃ b zl', stream zl (e ++ 10 :: rest) = b :: stream zl' rest ∧ b.value = zNewline ∧ b.err = false ∧ LS zl' true false s := by
  cases he with
  | plain => exact stream_nl_first zl rest o r s hL
  | cr => exact stream_crnl_first zl rest o r s hL
  | comment c hc => simpa using stream_comment_nl zl c rest o r s hL hc

/-! ### pieces of a decorated line -/

theorem piece_ttlD (zl : St) (w : Bytes) (v : Nat) (sep rest : Bytes) (hL : LS zl false false true) (hw : TtlWord w v)
    (hsep : Seps sep) :
    ∃ zl', LS zl' false false true ∧
      absTokens .hdr (stream zl (w ++ (sep ++ rest))) = .str (some v) :: .blank :: absTokens .hdr (stream zl' rest) := by
  obtain ⟨hs', htt⟩ := hw
  obtain ⟨hne, hpl⟩ := hs'.1
  obtain ⟨z, t, b, zl', zo, zr, ze, ht, hs, htk, hte, hbv, hbe, hL'⟩ :=
    stream_word_seps zl w sep rest false false true hL hpl hne hsep (fun z ho hr _ => (classify_str z w ho hr hs').1)
  obtain ⟨_, k2, k3⟩ := classify_str z w zo zr hs'
  rw [k3] at hL'
  refine ⟨zl', hL', ?_⟩
  rw [hs, abs_str t _ (by rw [ht]; exact k2) hte, abs_blank b _ hbv hbe, htk, htt]

theorem piece_clsD (zl : St) (w : Bytes) (c : Nat) (sep rest : Bytes) (hL : LS zl false false true) (hw : ClassWord w c)
    (hsep : Seps sep) :
    ∃ zl', LS zl' false false true ∧
      absTokens .hdr (stream zl (w ++ (sep ++ rest))) = .cls c :: .blank :: absTokens .hdr (stream zl' rest) := by
  obtain ⟨hne, hpl⟩ := hw.1
  obtain ⟨z, t, b, zl', zo, zr, ze, ht, hs, htk, hte, hbv, hbe, hL'⟩ :=
    stream_word_seps zl w sep rest false false true hL hpl hne hsep (fun z ho hr _ => (classify_clsw z w c ho hr hw).1)
  obtain ⟨_, k2, k3, k4⟩ := classify_clsw z w c zo zr hw
  rw [k4] at hL'
  refine ⟨zl', hL', ?_⟩
  rw [hs, abs_cls t _ (by rw [ht]; exact k2) hte, abs_blank b _ hbv hbe, ht, k3]

/-- the RDATA words, each with the run behind it, and the end of the line -/
theorem piece_rdataD (zl : St) (ws : List (Bytes × Bytes)) (last eol rest : Bytes) (hL : LS zl false true true)
    (hws : ∀ p ∈ ws, Word p.1 ∧ Seps p.2) (hl : Word last) (he : Eol eol) :
    ∃ zl', LS zl' true false (eolSp eol) ∧
      absTokens .rdata (stream zl (ws.flatMap (fun p => p.1 ++ p.2) ++ (last ++ (eol ++ 10 :: rest)))) =
        .rdata :: absTokens .hdr (stream zl' rest) := by
  induction ws generalizing zl with
  | nil =>
    simp only [List.flatMap_nil, List.nil_append]
    obtain ⟨t, mid, nl, zl', hs, htk, hte, htv, hmid, nv, ne, hL'⟩ :=
      stream_word_eol zl last eol rest false true true hL hl he (Or.inl rfl) (fun _ => rfl)
    refine ⟨zl', hL', ?_⟩
    rw [hs, abs_rdata_skip t _ (by rw [htv]; decide) hte]
    rcases hmid with rfl | ⟨b, rfl, hbv, hbe⟩
    · simp only [List.nil_append]; rw [abs_rdata_nl nl _ nv ne]
    · simp only [List.singleton_append]
      rw [abs_rdata_skip b _ (by rw [hbv]; decide) hbe, abs_rdata_nl nl _ nv ne]
  | cons p ws ih =>
    obtain ⟨⟨hne, hpl⟩, hsep⟩ := hws p (by simp)
    simp only [List.flatMap_cons, List.append_assoc]
    obtain ⟨z, t, b, zl1, zo, zr, ze, ht, hs, htk, hte, hbv, hbe, hL1⟩ :=
      stream_word_seps zl p.1 p.2 (ws.flatMap (fun p => p.1 ++ p.2) ++ (last ++ (eol ++ 10 :: rest))) false true true hL hpl hne hsep
        (fun z ho hr _ => (classify_rdata z p.1 ho hr).1)
    obtain ⟨_, k2, k3⟩ := classify_rdata z p.1 zo zr
    rw [k3] at hL1
    obtain ⟨zl', hL', h⟩ := ih zl1 hL1 (fun x hx => hws x (by simp [hx]))
    refine ⟨zl', hL', ?_⟩
    rw [hs, abs_rdata_skip t _ (by rw [ht, k2]; decide) hte, abs_rdata_skip b _ (by rw [hbv]; decide) hbe, h]

theorem piece_typeD (zl : St) (w : Bytes) (ty : Nat) (sep : Bytes) (ws : List (Bytes × Bytes)) (last eol rest : Bytes)
    (hL : LS zl false false true) (hw : TypeWord w ty) (hsep : Seps sep) (hws : ∀ p ∈ ws, Word p.1 ∧ Seps p.2)
    (hl : Word last) (he : Eol eol) :
    ∃ zl', LS zl' true false (eolSp eol) ∧
      absTokens .hdr (stream zl (w ++ (sep ++ (ws.flatMap (fun p => p.1 ++ p.2) ++ (last ++ (eol ++ 10 :: rest)))))) =
        .typ ty :: .blank :: .rdata :: absTokens .hdr (stream zl' rest) := by
  obtain ⟨hne, hpl⟩ := hw.1
  obtain ⟨z, t, b, zl1, zo, zr, ze, ht, hs, htk, hte, hbv, hbe, hL1⟩ :=
    stream_word_seps zl w sep (ws.flatMap (fun p => p.1 ++ p.2) ++ (last ++ (eol ++ 10 :: rest))) false false true hL hpl hne hsep
      (fun z ho hr _ => (classify_typw z w ty ho hr hw).1)
  obtain ⟨_, k2, k3, k4⟩ := classify_typw z w ty zo zr hw
  rw [k4] at hL1
  obtain ⟨zl', hL', h⟩ := piece_rdataD zl1 ws last eol rest hL1 hws hl he
  refine ⟨zl', hL', ?_⟩
  rw [hs, abs_typ t _ (by rw [ht]; exact k2) hte, abs_afterTyp b _ hbv hbe, h, ht, k3]

/-- a directive line with a possibly decorated end: blank, value, optional blank, newline -/
theorem abs_dirD (ttl : Bool) (b v n : Tok) (mid S : List Tok) (hb : b.value = zBlank) (hbe : b.err = false)
    (hv : v.value = zString) (hve : v.err = false) (hn : n.value = zNewline) (hne : n.err = false)
    (hmid : mid = [] ∨ ∃ b2, mid = [b2] ∧ b2.value = zBlank ∧ b2.err = false) :
    absTokens (.dir ttl 0 []) (b :: v :: (mid ++ n :: S)) = dirTok ttl v.token :: absTokens .hdr S := by
  rcases hmid with rfl | ⟨b2, rfl, h2, h2e⟩
  · simp [absTokens, hb, hbe, hv, hve, hn, hne, zBlank, zNewline, zString]
  · simp [absTokens, hb, hbe, hv, hve, hn, hne, h2, h2e, zBlank, zNewline, zString]

theorem piece_directiveD (zl : St) (ttl : Bool) (sep v eol rest : Bytes) (s : Bool) (hL : LS zl true false s)
    (hv : StrWord v) (hsep : Seps sep) (he : Eol eol) :
    ∃ zl', LS zl' true false (eolSp eol) ∧
      absTokens .hdr (stream zl ((if ttl then ascii "$TTL" else ascii "$ORIGIN") ++ (sep ++ (v ++ (eol ++ 10 :: rest))))) =
        dirTok ttl v :: absTokens .hdr (stream zl' rest) := by
  have hkw : Word (if ttl then ascii "$TTL" else ascii "$ORIGIN") := by
    cases ttl <;> exact ⟨by decide, by decide⟩
  have hcl : ∀ z : St, z.owner = true → (classify z (if ttl then ascii "$TTL" else ascii "$ORIGIN")).2 = true ∧
      (classify z (if ttl then ascii "$TTL" else ascii "$ORIGIN")).1.l.value = (if ttl then zDirTTL else zDirOrigin) ∧
      (classify z (if ttl then ascii "$TTL" else ascii "$ORIGIN")).1.rrtype = z.rrtype := by
    intro z ho
    cases ttl
    · exact classify_dirOrigin z ho
    · exact classify_dirTTL z ho
  obtain ⟨z, t, b, zl1, zo, zr, ze, ht, hs, htk, hte, hbv, hbe, hL1⟩ :=
    stream_word_seps zl _ sep (v ++ (eol ++ 10 :: rest)) true false s hL hkw.2 hkw.1 hsep (fun z ho _ _ => (hcl z ho).1)
  obtain ⟨_, k2, k3⟩ := hcl z zo
  rw [k3, zr] at hL1
  obtain ⟨t2, mid, nl, zl', hs2, htk2, hte2, htv2, hmid, nv, ne, hL'⟩ :=
    stream_word_eol zl1 v eol rest false false true hL1 hv.1 he (Or.inr ⟨rfl, hv⟩) (fun h => by cases h)
  refine ⟨zl', hL', ?_⟩
  rw [hs, hs2]
  have hstep : absTokens .hdr (t :: b :: t2 :: (mid ++ nl :: stream zl' rest)) =
      absTokens (.dir ttl 0 []) (b :: t2 :: (mid ++ nl :: stream zl' rest)) := by
    cases ttl
    · exact abs_dirOrigin t _ (by rw [ht]; exact k2) hte
    · exact abs_dirTTL t _ (by rw [ht]; exact k2) hte
  rw [hstep, abs_dirD ttl b t2 nl mid _ hbv hbe htv2 hte2 nv ne hmid, htk2]

/-! ### decorated lines -/

/-- a resource record entry with its decorations: the run of blanks and tabs behind every word, and what stands
    between the last word and the line feed -/
structure RRTextD where
  owner : Option Bytes                    -- omitted = the line starts with the run `sep0`
  sep0 : Bytes
  ttl : Option (Bytes × Nat × Bytes)      -- word, value, the run behind it
  cls : Option (Bytes × Nat × Bytes)
  ttlFirst : Bool
  typ : Bytes × Nat
  sepT : Bytes
  rdata : List (Bytes × Bytes)            -- the RDATA words but the last, each with the run behind it
  last : Bytes
  eol : Bytes

inductive DLine where
  | rr (x : RRTextD)
  | ttlDir (sep w : Bytes) (v : Nat) (eol : Bytes)
  | originDir (sep name eol : Bytes)
  | empty (lead tail : Bytes)             -- blanks and tabs (possibly none), then nothing, a CR or a comment

def ttlWordsD (x : RRTextD) : Bytes := match x.ttl with | some p => p.1 ++ p.2.2 | none => []
def clsWordsD (x : RRTextD) : Bytes := match x.cls with | some p => p.1 ++ p.2.2 | none => []

def DLine.render : DLine → Bytes
  | .empty lead tail => lead ++ (tail ++ [10])
  | .ttlDir sep w _ eol => ascii "$TTL" ++ (sep ++ (w ++ (eol ++ [10])))
  | .originDir sep n eol => ascii "$ORIGIN" ++ (sep ++ (n ++ (eol ++ [10])))
  | .rr x =>
    (match x.owner with | some o => o ++ x.sep0 | none => x.sep0) ++
    ((if x.ttlFirst then ttlWordsD x ++ clsWordsD x else clsWordsD x ++ ttlWordsD x) ++
    (x.typ.1 ++ (x.sepT ++ (x.rdata.flatMap (fun p => p.1 ++ p.2) ++ (x.last ++ (x.eol ++ [10]))))))

def DLine.toZLine : DLine → ZLine
  | .empty _ _ => .empty
  | .ttlDir _ _ v _ => .ttlDir v
  | .originDir _ n _ => .originDir n
  | .rr x => .rr x.owner (x.ttl.map (·.2.1)) (x.cls.map (·.2.1)) x.ttlFirst x.typ.2

def DLine.WF : DLine → Prop
  | .empty lead tail => lead.all isSep = true ∧ EolBare tail
  | .ttlDir sep w v eol => Seps sep ∧ TtlWord w v ∧ Eol eol
  | .originDir sep n eol => Seps sep ∧ StrWord n ∧ Eol eol
  | .rr x =>
    (∀ o, x.owner = some o → Word o ∧ NotDirective o) ∧ Seps x.sep0 ∧
    (∀ p, x.ttl = some p → TtlWord p.1 p.2.1 ∧ Seps p.2.2) ∧
    (∀ p, x.cls = some p → ClassWord p.1 p.2.1 ∧ Seps p.2.2) ∧
    TypeWord x.typ.1 x.typ.2 ∧ Seps x.sepT ∧ (∀ p ∈ x.rdata, Word p.1 ∧ Seps p.2) ∧ Word x.last ∧ Eol x.eol

/-- whether a blank is pending suppression at the start of the next line -/
def DLine.spNext (s : Bool) : DLine → Bool
  | .empty lead _ => s || !lead.isEmpty
  | .ttlDir _ _ _ eol => eolSp eol
  | .originDir _ _ eol => eolSp eol
  | .rr x => eolSp x.eol

/-- the abstract tokens of a decorated line: those of the entry it says, except that the blank at the start of a line is
    not delivered when the line before ended in blanks or a comment (`s`), and that an empty line may start with one -/
def DLine.toks (s : Bool) : DLine → List ZTok
  | .empty lead _ => (if s || lead.isEmpty then [] else [ZTok.blank]) ++ [.nl]
  | .rr x =>
    (match x.owner with | some n => [ZTok.owner n, .blank] | none => if s then [] else [.blank]) ++
    ((if x.ttlFirst then
        (match x.ttl with | some p => [ZTok.str (some p.2.1), .blank] | none => []) ++
        (match x.cls with | some p => [ZTok.cls p.2.1, .blank] | none => [])
      else
        (match x.cls with | some p => [ZTok.cls p.2.1, .blank] | none => []) ++
        (match x.ttl with | some p => [ZTok.str (some p.2.1), .blank] | none => [])) ++
      [.typ x.typ.2, .blank, .rdata])
  | l => tokensOf l.toZLine

theorem piece_ttl_optD (zl : St) (x : RRTextD) (rest : Bytes) (hL : LS zl false false true)
    (h : ∀ p, x.ttl = some p → TtlWord p.1 p.2.1 ∧ Seps p.2.2) :
    ∃ zl', LS zl' false false true ∧
      absTokens .hdr (stream zl (ttlWordsD x ++ rest)) =
        (match x.ttl with | some p => [ZTok.str (some p.2.1), .blank] | none => []) ++ absTokens .hdr (stream zl' rest) := by
  unfold ttlWordsD
  cases ht : x.ttl with
  | none => exact ⟨zl, hL, by simp⟩
  | some p =>
    obtain ⟨zl', hL', he⟩ := piece_ttlD zl p.1 p.2.1 p.2.2 rest hL (h p ht).1 (h p ht).2
    refine ⟨zl', hL', ?_⟩
    simp only [List.append_assoc, List.cons_append, List.nil_append]
    exact he

theorem piece_cls_optD (zl : St) (x : RRTextD) (rest : Bytes) (hL : LS zl false false true)
    (h : ∀ p, x.cls = some p → ClassWord p.1 p.2.1 ∧ Seps p.2.2) :
    ∃ zl', LS zl' false false true ∧
      absTokens .hdr (stream zl (clsWordsD x ++ rest)) =
        (match x.cls with | some p => [ZTok.cls p.2.1, .blank] | none => []) ++ absTokens .hdr (stream zl' rest) := by
  unfold clsWordsD
  cases hc : x.cls with
  | none => exact ⟨zl, hL, by simp⟩
  | some p =>
    obtain ⟨zl', hL', he⟩ := piece_clsD zl p.1 p.2.1 p.2.2 rest hL (h p hc).1 (h p hc).2
    refine ⟨zl', hL', ?_⟩
    simp only [List.append_assoc, List.cons_append, List.nil_append]
    exact he

/-- the owner and the run behind it, or the run that stands for an omitted owner -/
theorem piece_ownerD (zl : St) (x : RRTextD) (rest : Bytes) (s : Bool) (hL : LS zl true false s)
    (h : ∀ o, x.owner = some o → Word o ∧ NotDirective o) (hsep : Seps x.sep0) :
    ∃ zl', LS zl' false false true ∧
      absTokens .hdr (stream zl ((match x.owner with | some o => o ++ x.sep0 | none => x.sep0) ++ rest)) =
        (match x.owner with | some n => [ZTok.owner n, .blank] | none => if s then [] else [.blank]) ++
          absTokens .hdr (stream zl' rest) := by
  cases ho : x.owner with
  | none =>
    obtain ⟨pre, zl', hs, hL', hp⟩ := stream_lead zl x.sep0 rest true false s hL hsep
    refine ⟨zl', hL', ?_⟩
    simp only
    rw [hs]
    rcases hp with ⟨rfl, rfl⟩ | ⟨rfl, b, rfl, hbv, hbe⟩
    · simp
    · simp only [List.singleton_append, Bool.false_eq_true, ↓reduceIte]
      rw [abs_blank b _ hbv hbe]
  | some o =>
    obtain ⟨⟨hne, hpl⟩, d1, d2, d3, d4⟩ := h o ho
    obtain ⟨z, t, b, zl', zo, zr, ze, ht, hs, htk, hte, hbv, hbe, hL'⟩ :=
      stream_word_seps zl o x.sep0 rest true false s hL hpl hne hsep (fun z ho _ _ => (classify_owner z o ho d1 d2 d3 d4).1)
    obtain ⟨_, k2, k3⟩ := classify_owner z o zo d1 d2 d3 d4
    rw [k3, zr] at hL'
    refine ⟨zl', hL', ?_⟩
    simp only [List.append_assoc, List.cons_append, List.nil_append]
    rw [hs, abs_owner t _ (by rw [ht]; exact k2) hte, abs_blank b _ hbv hbe, htk]

/-- **one decorated line** -/
theorem line_tokensD (zl : St) (ln : DLine) (rest : Bytes) (s : Bool) (hL : LS zl true false s) (hwf : ln.WF) :
    ∃ zl', LS zl' true false (ln.spNext s) ∧
      absTokens .hdr (stream zl (ln.render ++ rest)) = ln.toks s ++ absTokens .hdr (stream zl' rest) := by
  cases ln with
  | empty lead tail =>
    obtain ⟨hlead, htail⟩ := hwf
    simp only [DLine.render, DLine.toks, DLine.spNext, List.append_assoc, List.singleton_append]
    cases hl : lead with
    | nil =>
      obtain ⟨b, zl', hs, hbv, hbe, hL'⟩ := stream_eol_bare zl tail rest true false s hL htail
      refine ⟨zl', by simpa using hL', ?_⟩
      simp only [List.nil_append, List.isEmpty_nil, Bool.or_true, ↓reduceIte]
      rw [hs, abs_nl b _ hbv hbe]
    | cons x xs =>
      have hsep : Seps (x :: xs) := ⟨by simp, by rw [← hl]; exact hlead⟩
      obtain ⟨pre, z1, hs1, L1, hp⟩ := stream_lead zl (x :: xs) (tail ++ 10 :: rest) true false s hL hsep
      obtain ⟨b, zl', hs, hbv, hbe, hL'⟩ := stream_eol_bare z1 tail rest false false true L1 htail
      refine ⟨zl', by simpa using hL', ?_⟩
      rw [hs1, hs]
      rcases hp with ⟨rfl, rfl⟩ | ⟨rfl, b0, rfl, hbv0, hbe0⟩
      · simp only [List.nil_append, Bool.true_or, ↓reduceIte]
        rw [abs_nl b _ hbv hbe]
      · simp only [List.singleton_append, List.isEmpty_cons, Bool.or_self, Bool.false_eq_true, ↓reduceIte, List.cons_append,
          List.nil_append]
        rw [abs_blank b0 _ hbv0 hbe0, abs_nl b _ hbv hbe]
  | ttlDir sep w v eol =>
    obtain ⟨hsep, ⟨hs', htt⟩, he⟩ := hwf
    obtain ⟨zl', hL', h⟩ := piece_directiveD zl true sep w eol rest s hL hs' hsep he
    refine ⟨zl', hL', ?_⟩
    simp only [DLine.render, DLine.toks, DLine.toZLine, tokensOf, List.append_assoc, List.cons_append, List.nil_append,
      List.singleton_append]
    simp only [↓reduceIte] at h
    rw [h]
    simp [dirTok, htt]
  | originDir sep n eol =>
    obtain ⟨hsep, hs', he⟩ := hwf
    obtain ⟨zl', hL', h⟩ := piece_directiveD zl false sep n eol rest s hL hs' hsep he
    refine ⟨zl', hL', ?_⟩
    simp only [DLine.render, DLine.toks, DLine.toZLine, tokensOf, List.append_assoc, List.cons_append, List.nil_append,
      List.singleton_append]
    simp only [Bool.false_eq_true, ↓reduceIte] at h
    rw [h]
    simp [dirTok]
  | rr x =>
    obtain ⟨ho, hs0, ht, hc, hty, hsT, hws, hl, he⟩ := hwf
    have hr : (DLine.rr x).render ++ rest =
        (match x.owner with | some o => o ++ x.sep0 | none => x.sep0) ++
        ((if x.ttlFirst then ttlWordsD x ++ clsWordsD x else clsWordsD x ++ ttlWordsD x) ++
        (x.typ.1 ++ (x.sepT ++ (x.rdata.flatMap (fun p => p.1 ++ p.2) ++ (x.last ++ (x.eol ++ 10 :: rest)))))) := by
      simp [DLine.render, List.append_assoc]
    rw [hr]
    obtain ⟨z1, L1, e1⟩ := piece_ownerD zl x
      ((if x.ttlFirst then ttlWordsD x ++ clsWordsD x else clsWordsD x ++ ttlWordsD x) ++
        (x.typ.1 ++ (x.sepT ++ (x.rdata.flatMap (fun p => p.1 ++ p.2) ++ (x.last ++ (x.eol ++ 10 :: rest)))))) s hL ho hs0
    rw [e1]
    simp only [DLine.toks, DLine.spNext]
    cases htf : x.ttlFirst
    · simp only [Bool.false_eq_true, ↓reduceIte]
      rw [List.append_assoc (clsWordsD x)]
      obtain ⟨z2, L2, e2⟩ := piece_cls_optD z1 x (ttlWordsD x ++ (x.typ.1 ++ (x.sepT ++ (x.rdata.flatMap (fun p => p.1 ++ p.2) ++ (x.last ++ (x.eol ++ 10 :: rest)))))) L1 hc
      obtain ⟨z3, L3, e3⟩ := piece_ttl_optD z2 x (x.typ.1 ++ (x.sepT ++ (x.rdata.flatMap (fun p => p.1 ++ p.2) ++ (x.last ++ (x.eol ++ 10 :: rest))))) L2 ht
      obtain ⟨z4, L4, e4⟩ := piece_typeD z3 x.typ.1 x.typ.2 x.sepT x.rdata x.last x.eol rest L3 hty hsT hws hl he
      refine ⟨z4, L4, ?_⟩
      rw [e2, e3, e4]
      simp only [List.append_assoc, List.cons_append, List.nil_append]
    · simp only [↓reduceIte]
      rw [List.append_assoc (ttlWordsD x)]
      obtain ⟨z2, L2, e2⟩ := piece_ttl_optD z1 x (clsWordsD x ++ (x.typ.1 ++ (x.sepT ++ (x.rdata.flatMap (fun p => p.1 ++ p.2) ++ (x.last ++ (x.eol ++ 10 :: rest)))))) L1 ht
      obtain ⟨z3, L3, e3⟩ := piece_cls_optD z2 x (x.typ.1 ++ (x.sepT ++ (x.rdata.flatMap (fun p => p.1 ++ p.2) ++ (x.last ++ (x.eol ++ 10 :: rest))))) L2 hc
      obtain ⟨z4, L4, e4⟩ := piece_typeD z3 x.typ.1 x.typ.2 x.sepT x.rdata x.last x.eol rest L3 hty hsT hws hl he
      refine ⟨z4, L4, ?_⟩
      rw [e2, e3, e4]
      simp only [List.append_assoc, List.cons_append, List.nil_append]

/-! ### whole decorated texts -/

def renderAllD (ls : List DLine) : Bytes := ls.flatMap DLine.render

/-- the abstract tokens of a decorated text, the suppression flag threaded through the lines -/
def toksAll : Bool → List DLine → List ZTok
  | _, [] => []
  | s, l :: ls => l.toks s ++ toksAll (l.spNext s) ls

theorem text_tokensD (zl : St) (ls : List DLine) (s : Bool) (hL : LS zl true false s) (hwf : ∀ l ∈ ls, l.WF) :
    absTokens .hdr (stream zl (renderAllD ls)) = toksAll s ls := by
  induction ls generalizing zl s with
  | nil =>
    simp only [renderAllD, List.flatMap_nil, toksAll]
    rw [stream_nil zl true false s hL]
    rfl
  | cons l ls ih =>
    obtain ⟨zl', hL', h⟩ := line_tokensD zl l (renderAllD ls) s hL (hwf l (by simp))
    have ih' := ih zl' _ hL' (fun x hx => hwf x (by simp [hx]))
    simp only [renderAllD, List.flatMap_cons, toksAll] at h ih' ⊢
    rw [h, ih']

/-! ### the header machine does not see the difference -/

/-- a blank where an entry may start is skipped -/
theorem zrun_blank (ts : List ZTok) (zp : ZP) (acc : List ZHdr) :
    zrun (.blank :: ts) .ownerDir zp acc = zrun ts .ownerDir zp acc := by
  obtain ⟨zo, ⟨zn, zt, zc, zy⟩, zd⟩ := zp
  cases ts with
  | nil => simp [zrun]
  | cons t ts =>
    rcases zd with _ | ⟨dv, db⟩ <;> cases t <;> simp [zrun]

/-- the tokens of an entry leave the machine where an entry may start, or stop it: what follows matters only through
    how the machine runs on it from there -/
theorem zrun_line_congr (l : ZLine) (m1 m2 : List ZTok)
    (h : ∀ zp acc, zrun m1 .ownerDir zp acc = zrun m2 .ownerDir zp acc) (zp : ZP) (acc : List ZHdr) :
    zrun (tokensOf l ++ m1) .ownerDir zp acc = zrun (tokensOf l ++ m2) .ownerDir zp acc := by
  obtain ⟨zo, ⟨zn, zt, zc, zy⟩, zd⟩ := zp
  cases l with
  | empty => simp only [tokensOf, List.cons_append, List.nil_append, zrun]; exact h _ _
  | ttlDir v => simp only [tokensOf, List.cons_append, List.nil_append, zrun]; exact h _ _
  | originDir n =>
    simp only [tokensOf, List.cons_append, List.nil_append, zrun]
    split
    · exact h _ _
    · rfl
  | rr owner ttl c ttlFirst ty =>
    rcases zd with _ | ⟨dv, db⟩ <;> cases ttlFirst <;> cases ttl <;> cases c <;> cases owner
    all_goals simp only [tokensOf, List.cons_append, List.nil_append, List.append_assoc, zrun, noteTTL, ↓reduceIte,
      Bool.false_eq_true, Option.isNone_none, Option.isNone_some]
    all_goals (try split)
    all_goals (first | rfl | exact h _ _ | skip)

theorem toks_run (s : Bool) (l : DLine) (m : List ZTok) (zp : ZP) (acc : List ZHdr) :
    zrun (l.toks s ++ m) .ownerDir zp acc = zrun (tokensOf l.toZLine ++ m) .ownerDir zp acc := by
  cases l with
  | empty lead tail =>
    simp only [DLine.toks, DLine.toZLine, tokensOf]
    split
    · rfl
    · simp only [List.singleton_append, List.cons_append, List.nil_append]; rw [zrun_blank]
  | ttlDir sep w v eol => rfl
  | originDir sep n eol => rfl
  | rr x =>
    simp only [DLine.toks, DLine.toZLine, tokensOf]
    cases ho : x.owner with
    | some o => cases x.ttl <;> cases x.cls <;> cases x.ttlFirst <;> rfl
    | none =>
      cases s with
      | false => cases x.ttl <;> cases x.cls <;> cases x.ttlFirst <;> rfl
      | true =>
        cases x.ttl <;> cases x.cls <;> cases x.ttlFirst <;>
          (simp only [List.nil_append, List.cons_append, List.append_assoc, Option.map_none, Option.map_some, ↓reduceIte,
            Bool.false_eq_true]; rw [zrun_blank])

theorem toksAll_run (ls : List DLine) (s : Bool) (zp : ZP) (acc : List ZHdr) :
    zrun (toksAll s ls) .ownerDir zp acc = zrun ((ls.map DLine.toZLine).flatMap tokensOf) .ownerDir zp acc := by
  induction ls generalizing s zp acc with
  | nil => rfl
  | cons l ls ih =>
    simp only [toksAll, List.map_cons, List.flatMap_cons]
    rw [toks_run]
    exact zrun_line_congr _ _ _ (fun zp acc => ih _ zp acc) zp acc

/-- **decorations do not matter**: for every list of well-formed decorated lines — any non-empty run of blanks and tabs
    between the words, a carriage return before the line feed, trailing blanks, a comment after the last word,
    comment-only and blank-only lines — reading the octets yields exactly the record headers that the entries denote by
    RFC 1035 section 5.1; the decorations appear nowhere in the result -/
theorem decorated_text_denotes (origin : Bytes) (d : Option Nat) (ls : List DLine) (hwf : ∀ l ∈ ls, l.WF) (rs : List ZHdr)
    (h : denote (ls.map DLine.toZLine) ⟨origin, [], 0, d.map (fun v => (v, false))⟩ [] = some rs) :
    readZone origin d (renderAllD ls) = (rs, false) := by
  unfold readZone
  rw [lexAll_stream, text_tokensD {} ls false init_LS hwf, toksAll_run]
  exact Dns.C06.parser_refines_denote _ _ _ [] rs ⟨rfl, rfl, rfl, fun _ => rfl⟩ h

/-- two decorated texts that say the same entries read the same -/
theorem decorations_irrelevant (origin : Bytes) (d : Option Nat) (l1 l2 : List DLine) (h1 : ∀ l ∈ l1, l.WF)
    (h2 : ∀ l ∈ l2, l.WF) (hsame : l1.map DLine.toZLine = l2.map DLine.toZLine) (rs : List ZHdr)
    (h : denote (l1.map DLine.toZLine) ⟨origin, [], 0, d.map (fun v => (v, false))⟩ [] = some rs) :
    readZone origin d (renderAllD l1) = readZone origin d (renderAllD l2) := by
  rw [decorated_text_denotes origin d l1 h1 rs h, decorated_text_denotes origin d l2 h2 rs (hsame ▸ h)]

/-- a small zone with every decoration (computed by the model: lexer, grouping, header machine) -/
example :
    let ls : List DLine := [.ttlDir [9] (ascii "300") 300 (ascii "  ; default\r"),
      .empty [] (ascii "; zone"), .originDir [32, 32] (ascii "example.org.") [13],
      .rr ⟨some (ascii "www"), [9, 9], none, some (ascii "IN", 1, [32]), true, (ascii "A", 1), [32, 9], [],
        ascii "192.0.2.1", ascii " ; web"⟩,
      .empty [32, 9] [],
      .rr ⟨none, [32, 32, 32], some (ascii "1h", 3600, [9]), none, false, (ascii "mx", 15), [32],
        [(ascii "10", [32, 32])], ascii "mail", [32]⟩,
      .rr ⟨none, [9], none, none, false, (ascii "mx", 15), [32], [(ascii "20", [9])], ascii "mail2", []⟩]
    readZone (ascii ".") none (renderAllD ls) =
      ([⟨ascii "www.example.org.", 300, 1, 1⟩, ⟨ascii "www.example.org.", 3600, 1, 15⟩,
        ⟨ascii "www.example.org.", 300, 1, 15⟩], false) := by
  decide +kernel

/-- the premises are satisfiable: a decorated entry is well-formed -/
example : (DLine.rr ⟨some (ascii "www"), [9, 9], some (ascii "1h30m", 5400, [32]), some (ascii "in", 1, [32, 32]), true,
    (ascii "mx", 15), [32, 9], [(ascii "10", [32, 32])], ascii "mail", [32, 59, 119, 13]⟩).WF := by
  refine ⟨?_, ⟨by decide, by decide⟩, ?_, ?_, ⟨⟨by decide, by decide⟩, ?_, ?_, Or.inl ?_⟩, ⟨by decide, by decide⟩, ?_,
    ⟨by decide, by decide⟩, Eol.comment [32] ⟨by decide, by decide⟩ [119, 13] (by unfold CommentText; decide)⟩
  · intro o ho
    cases ho
    exact ⟨⟨by decide, by decide⟩, by unfold NotDirective; decide +kernel⟩
  · intro p hp
    cases hp
    exact ⟨⟨⟨⟨by decide, by decide⟩, by decide +kernel, by decide +kernel, by decide +kernel, by decide +kernel⟩, by decide +kernel⟩,
      ⟨by decide, by decide⟩⟩
  · intro p hp
    cases hp
    exact ⟨⟨⟨by decide, by decide⟩, by decide +kernel, by decide +kernel, Or.inl (by decide +kernel)⟩, ⟨by decide, by decide⟩⟩
  · decide +kernel
  · decide +kernel
  · decide +kernel
  · intro p hp
    simp only [List.mem_singleton] at hp
    subst hp
    exact ⟨⟨by decide, by decide⟩, ⟨by decide, by decide⟩⟩

end Dns.C06D
