package main

// Reflective aliasing detector and independent deep clone / mutate helpers (property C16).

import (
	"fmt"
	"reflect"
	"unsafe"
)

type memRange struct {
	lo, hi uintptr
	what   string
}

// collectRanges walks the object graph of v and records every mutable memory region reachable from it:
// backing arrays of slices (up to capacity), pointees of pointers, maps. Strings are immutable and skipped.
func collectRanges(v reflect.Value, path string, out *[]memRange, seen map[uintptr]bool) {
	switch v.Kind() {
	case reflect.Ptr:
		if v.IsNil() {
			return
		}
		p := v.Pointer()
		if seen[p] {
			return
		}
		seen[p] = true
		sz := v.Elem().Type().Size()
		if sz > 0 {
			*out = append(*out, memRange{p, p + sz, path + "(*)"})
		}
		collectRanges(v.Elem(), path+".*", out, seen)
	case reflect.Interface:
		if v.IsNil() {
			return
		}
		collectRanges(v.Elem(), path, out, seen)
	case reflect.Slice:
		if v.IsNil() {
			return
		}
		p := v.Pointer()
		sz := uintptr(v.Cap()) * v.Type().Elem().Size()
		if sz > 0 {
			*out = append(*out, memRange{p, p + sz, fmt.Sprintf("%s[:cap %d]", path, v.Cap())})
		}
		for i := 0; i < v.Len(); i++ {
			collectRanges(v.Index(i), fmt.Sprintf("%s[%d]", path, i), out, seen)
		}
	case reflect.Array:
		for i := 0; i < v.Len(); i++ {
			collectRanges(v.Index(i), fmt.Sprintf("%s[%d]", path, i), out, seen)
		}
	case reflect.Struct:
		for i := 0; i < v.NumField(); i++ {
			collectRanges(v.Field(i), path+"."+v.Type().Field(i).Name, out, seen)
		}
	case reflect.Map:
		if v.IsNil() {
			return
		}
		p := v.Pointer()
		*out = append(*out, memRange{p, p + 1, path + "(map)"})
	}
}

func rangesOf(x interface{}) []memRange {
	var out []memRange
	collectRanges(reflect.ValueOf(x), "", &out, map[uintptr]bool{})
	return out
}

// overlap returns a description of the first shared region, or "".
func overlap(a, b []memRange) string {
	for _, x := range a {
		for _, y := range b {
			if x.lo < y.hi && y.lo < x.hi {
				return fmt.Sprintf("%s shares memory with %s", x.what, y.what)
			}
		}
	}
	return ""
}

func bufRange(b []byte) []memRange {
	if cap(b) == 0 {
		return nil
	}
	p := uintptr(unsafe.Pointer(unsafe.SliceData(b)))
	return []memRange{{p, p + uintptr(cap(b)), "input buffer"}}
}

// deepClone: independent reflection-based deep copy (used for snapshots).
func deepClone(v reflect.Value) reflect.Value {
	switch v.Kind() {
	case reflect.Ptr:
		if v.IsNil() {
			return v
		}
		n := reflect.New(v.Type().Elem())
		n.Elem().Set(deepClone(v.Elem()))
		return n
	case reflect.Interface:
		if v.IsNil() {
			return v
		}
		n := reflect.New(v.Type()).Elem()
		n.Set(deepClone(v.Elem()))
		return n
	case reflect.Slice:
		if v.IsNil() {
			return v
		}
		n := reflect.MakeSlice(v.Type(), v.Len(), v.Len())
		for i := 0; i < v.Len(); i++ {
			n.Index(i).Set(deepClone(v.Index(i)))
		}
		return n
	case reflect.Struct:
		n := reflect.New(v.Type()).Elem()
		for i := 0; i < v.NumField(); i++ {
			if n.Field(i).CanSet() {
				n.Field(i).Set(deepClone(v.Field(i)))
			}
		}
		return n
	case reflect.Array:
		n := reflect.New(v.Type()).Elem()
		for i := 0; i < v.Len(); i++ {
			n.Index(i).Set(deepClone(v.Index(i)))
		}
		return n
	default:
		return v
	}
}

func snapshot(x interface{}) interface{} { return deepClone(reflect.ValueOf(x)).Interface() }

// scribble overwrites every mutable scalar reachable from v (slice elements up to capacity, integers,
// bools; strings are replaced), so that any sharing with another value becomes observable.
func scribble(v reflect.Value, seen map[uintptr]bool) {
	switch v.Kind() {
	case reflect.Ptr:
		if v.IsNil() || seen[v.Pointer()] {
			return
		}
		seen[v.Pointer()] = true
		scribble(v.Elem(), seen)
	case reflect.Interface:
		if !v.IsNil() {
			e := v.Elem()
			if e.Kind() == reflect.Ptr {
				scribble(e, seen)
			}
		}
	case reflect.Slice:
		if v.IsNil() {
			return
		}
		full := v
		if v.Cap() > v.Len() && v.CanSet() {
			full = v.Slice(0, v.Cap())
		} else if v.Cap() > v.Len() {
			full = v.Slice3(0, v.Cap(), v.Cap())
		}
		for i := 0; i < full.Len(); i++ {
			scribble(full.Index(i), seen)
		}
	case reflect.Array:
		for i := 0; i < v.Len(); i++ {
			scribble(v.Index(i), seen)
		}
	case reflect.Struct:
		for i := 0; i < v.NumField(); i++ {
			scribble(v.Field(i), seen)
		}
	case reflect.Uint8, reflect.Uint16, reflect.Uint32, reflect.Uint64, reflect.Uint, reflect.Int, reflect.Int64, reflect.Int32:
		if v.CanSet() {
			if v.Kind() == reflect.Int || v.Kind() == reflect.Int64 || v.Kind() == reflect.Int32 {
				v.SetInt(v.Int() ^ 0x55)
			} else {
				v.SetUint(v.Uint() ^ 0x55)
			}
		}
	case reflect.Bool:
		if v.CanSet() {
			v.SetBool(!v.Bool())
		}
	case reflect.String:
		if v.CanSet() {
			v.SetString(v.String() + "~")
		}
	}
}
