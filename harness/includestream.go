package main

// includeTreeStream: `$INCLUDE` on the model of lean/DnsModel/Include.lean against the real ZoneParser over an in-memory
// file system that records every Open: small trees of files (each a rendering of a generated zone) that include one
// another — also themselves, one another in a cycle, files that do not exist — with and without an origin on the
// directive line, with includes enabled or not.  Compared: whether the reading ends in an error, the header (owner,
// TTL, class, type) of every record delivered, in order, and the paths opened, in order.

import (
	"fmt"
	"io/fs"
	"strings"
	"testing/fstest"

	"github.com/miekg/dns"
)

type recordingFS struct {
	m      fstest.MapFS
	opened []string
}

func (f *recordingFS) Open(name string) (fs.File, error) {
	f.opened = append(f.opened, name)
	return f.m.Open(name)
}

func includeTreeStream(c *Ctx, stream string, n int) {
	r := c.R
	for i := 0; i < n; i++ {
		nfiles := 1 + r.Intn(4)
		names := make([]string, nfiles)
		for k := range names {
			names[k] = fmt.Sprintf("f%d", k)
		}
		style := r.Intn(3)
		render := func(depthBias bool) string {
			var sb strings.Builder
			for _, l := range genZone(r) {
				piece := renderZone(r, []zline{l}, style, false)
				if !strings.HasSuffix(piece, "\n") {
					piece += "\n"
				}
				sb.WriteString(piece)
				if r.Chance(30) {
					tgt := names[r.Intn(len(names))]
					if r.Chance(8) {
						tgt = "missing"
					}
					kw := "$INCLUDE"
					if style != 0 {
						kw = randCase(r, kw)
					}
					line := kw + " /" + tgt
					switch r.Intn(10) {
					case 0:
						line += " sub"
					case 1:
						line += " other.example."
					case 2:
						line += " @"
					case 3:
						line += " "
					case 4:
						line += " ; a comment"
					case 5:
						if r.Chance(20) {
							line += " o. extra"
						} else if r.Chance(20) {
							line += " )"
						}
					}
					sb.WriteString(line + "\n")
				}
			}
			return sb.String()
		}
		m := fstest.MapFS{}
		var fileArgs []string
		for _, nm := range names {
			txt := render(false)
			m[nm] = &fstest.MapFile{Data: []byte(txt)}
			fileArgs = append(fileArgs, hxs("/"+nm)+"="+strOrDash(hxs(txt)))
		}
		main := render(false)
		if r.Chance(50) {
			main += "$INCLUDE /" + names[r.Intn(len(names))] + "\n" + renderZone(r, genZone(r), 0, false)
		}
		allowed := r.Chance(85)
		origin := []string{"example.org.", "Zone.Example.", "."}[r.Intn(3)]
		defTTL := []int{-1, 3600, 0}[r.Intn(3)]
		rec := &recordingFS{m: m}
		var hs []string
		res := guard(func() string {
			zp := dns.NewZoneParser(strings.NewReader(main), origin, "/main")
			if defTTL >= 0 {
				zp.SetDefaultTTL(uint32(defTTL))
			}
			zp.SetIncludeAllowed(allowed)
			zp.SetIncludeFS(rec)
			cnt := 0
			for rr, ok := zp.Next(); ok; rr, ok = zp.Next() {
				h := rr.Header()
				hs = append(hs, fmt.Sprintf("%s:%d:%d:%d", hxs(h.Name), h.Ttl, h.Class, h.Rrtype))
				cnt++
				if cnt > 100000 {
					return "runaway"
				}
			}
			if zp.Err() != nil {
				return "err"
			}
			return "ok"
		})
		in := fmt.Sprintf("allowed=%v origin=%s main=%s files=%v", allowed, origin, hxs(main), fileArgs)
		if res != "ok" && res != "err" {
			c.Pred(stream, "include-no-panic-no-runaway", in, false, res, "ok / err", true)
			continue
		}
		var ops []string
		for _, o := range rec.opened {
			ops = append(ops, hxs("/"+o))
		}
		c.Hit(fmt.Sprintf("include-tree:%s:opens%d", res, min(len(ops), 9)))
		dt := "-"
		if defTTL >= 0 {
			dt = fmt.Sprint(defTTL)
		}
		want := strings.TrimSpace(res+" "+strings.Join(hs, " ")) + " | " + strings.Join(ops, " ")
		c.OpK(stream, fmt.Sprintf("zone.include %s %s %s %s %s", b01(allowed), hxs(origin), dt, strOrDash(hxs(main)), strings.Join(fileArgs, " ")),
			strings.TrimSpace(want), len(ops) > 0, "include-tree")
	}
}
