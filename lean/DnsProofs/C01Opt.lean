/-
  C01 (option and parameter values) — the value codecs of the EDNS0 options and SVCB parameters are inverse to each
  other on canonical values, and so are whole option / parameter lists through the (code, length, value) framing.
-/
import DnsModel.Options
import DnsProofs.C01Codec
import DnsProofs.C03
namespace Dns.C01O
open Dns Dns.Opt Dns.C01 Dns.C03

theorem take_be (w v : Nat) (rest : Bytes) : (beBytes w v ++ rest).take w = beBytes w v :=
  List.take_left' (beBytes_len w v)

theorem drop_be (w v : Nat) (rest : Bytes) : (beBytes w v ++ rest).drop w = rest :=
  List.drop_left' (beBytes_len w v)

theorem isFqdn_presentOf (ls : List Bytes) : isFqdn (presentOf ls) = true := by
  cases ls with
  | nil => decide
  | cons l ls =>
    rw [presentOf_eq, ← List.dropLast_concat_getLast (l := l :: ls) (by simp)]
    exact isFqdn_presentLabels _ _

/-- canonical option values: fields in range, addresses masked to their prefix, a LOCAL code that is not one of the
    assigned ones, an agent domain in the library's spelling -/
def OptWF : Opt → Prop
  | .llq v o e i l => v < 65536 ∧ o < 65536 ∧ e < 65536 ∧ i < 2 ^ 64 ∧ l < 2 ^ 32
  | .ul l k => l < 2 ^ 32 ∧ k < 2 ^ 32
  | .subnet fam mask scope addr =>
    (fam = 0 ∧ mask = 0 ∧ scope < 256 ∧ addr = [0, 0, 0, 0]) ∨
    (fam = 1 ∧ mask ≤ 32 ∧ scope ≤ 32 ∧ addr.length = 4 ∧ maskBytes mask addr = addr) ∨
    (fam = 2 ∧ mask ≤ 128 ∧ scope ≤ 128 ∧ addr.length = 16 ∧ maskBytes mask addr = addr)
  | .expire (some v) => v < 2 ^ 32
  | .keepalive t => t < 65536
  | .ede c _ => c < 65536
  | .reporting agent => ∃ ls, WireNameOK ls ∧ agent = presentOf ls
  | .zoneversion labels typ _ => labels < 256 ∧ typ < 256
  | .local c _ => c < 65536 ∧ c ≠ 0 ∧ ¬ (1 ≤ c ∧ c ≤ 12) ∧ c ≠ 15 ∧ c ≠ 18 ∧ c ≠ 19
  | _ => True

theorem pad_masked (mask : Nat) (addr : Bytes) (n : Nat) (hl : addr.length = n) (hm : maskBytes mask addr = addr) :
    padTo ((maskBytes mask addr).take ((mask + 7) / 8)) n = addr := by
  rw [hm]
  unfold padTo
  have hz := all_zero_replicate _ (mask_fix_zero mask addr hm)
  have h3 := List.take_append_drop ((mask + 7) / 8) addr
  have hlen := congrArg List.length h3
  simp only [List.length_append] at hlen
  have ht : ((addr.take ((mask + 7) / 8)).take n) = addr.take ((mask + 7) / 8) := by
    apply List.take_of_length_le
    simp; omega
  rw [ht]
  conv => rhs; rw [← h3, hz]
  congr 2
  simp at hlen ⊢
  omega

theorem ofNat_toNat_lt (n : Nat) (h : n < 256) : (UInt8.ofNat n).toNat = n := by
  simp [UInt8.toNat_ofNat']; omega

/-- **every option**: unpacking what `pack()` wrote returns the option -/
theorem opt_roundtrip (o : Opt) (h : OptWF o) : ∃ w, packOpt o = some w ∧ unpackOpt o.code w = some o := by
  cases o with
  | llq v op e i l =>
    obtain ⟨h1, h2, h3, h4, h5⟩ := h
    refine ⟨beBytes 2 v ++ (beBytes 2 op ++ (beBytes 2 e ++ (beBytes 8 i ++ beBytes 4 l))), by simp [packOpt, h1, h2, h3, h4, h5], ?_⟩
    simp only [Opt.code, unpackOpt, ↓reduceIte]
    have hl : ¬ (beBytes 2 v ++ (beBytes 2 op ++ (beBytes 2 e ++ (beBytes 8 i ++ beBytes 4 l)))).length < 18 := by
      simp [beBytes_len]
    rw [if_neg hl]
    have d2 : (beBytes 2 v ++ (beBytes 2 op ++ (beBytes 2 e ++ (beBytes 8 i ++ beBytes 4 l)))).drop 2 =
        beBytes 2 op ++ (beBytes 2 e ++ (beBytes 8 i ++ beBytes 4 l)) := drop_be 2 v _
    have d4 : (beBytes 2 v ++ (beBytes 2 op ++ (beBytes 2 e ++ (beBytes 8 i ++ beBytes 4 l)))).drop 4 =
        beBytes 2 e ++ (beBytes 8 i ++ beBytes 4 l) := by
      rw [show (4 : Nat) = 2 + 2 from rfl, ← List.drop_drop, d2, drop_be]
    have d6 : (beBytes 2 v ++ (beBytes 2 op ++ (beBytes 2 e ++ (beBytes 8 i ++ beBytes 4 l)))).drop 6 =
        beBytes 8 i ++ beBytes 4 l := by
      rw [show (6 : Nat) = 4 + 2 from rfl, ← List.drop_drop, d4, drop_be]
    have d14 : (beBytes 2 v ++ (beBytes 2 op ++ (beBytes 2 e ++ (beBytes 8 i ++ beBytes 4 l)))).drop 14 = beBytes 4 l := by
      rw [show (14 : Nat) = 6 + 8 from rfl, ← List.drop_drop, d6, drop_be]
    rw [take_be, d2, take_be, d4, take_be, d6, take_be, d14]
    have t4 : (beBytes 4 l).take 4 = beBytes 4 l := List.take_of_length_le (by rw [beBytes_len]; omega)
    rw [t4, beVal_beBytes 2 v (by simpa using h1), beVal_beBytes 2 op (by simpa using h2),
      beVal_beBytes 2 e (by simpa using h3), beVal_beBytes 8 i (by simpa using h4), beVal_beBytes 4 l (by simpa using h5)]
  | ul l k =>
    obtain ⟨h1, h2⟩ := h
    by_cases hk : k = 0
    · subst hk
      refine ⟨beBytes 4 l, by simp [packOpt, h1], ?_⟩
      simp [Opt.code, unpackOpt, beBytes_len, beVal_beBytes 4 l (by simpa using h1)]
    · refine ⟨beBytes 4 l ++ beBytes 4 k, by simp [packOpt, h1, h2, hk], ?_⟩
      simp only [Opt.code, unpackOpt, ↓reduceIte, List.length_append, beBytes_len]
      simp only [show ¬ ((4 : Nat) + 4 = 4) from by omega, show (2 : Nat) ≠ 1 from by omega, ↓reduceIte, take_be, drop_be,
        beVal_beBytes 4 l (by simpa using h1), beVal_beBytes 4 k (by simpa using h2)]
  | nsid d => exact ⟨d, rfl, rfl⟩
  | esu d => exact ⟨d, rfl, rfl⟩
  | dau d => exact ⟨d, rfl, rfl⟩
  | dhu d => exact ⟨d, rfl, rfl⟩
  | n3u d => exact ⟨d, rfl, rfl⟩
  | cookie d => exact ⟨d, rfl, rfl⟩
  | padding d => exact ⟨d, rfl, rfl⟩
  | subnet fam mask scope addr =>
    rcases h with ⟨rfl, rfl, hs, rfl⟩ | ⟨rfl, hm, hs, hl, hmk⟩ | ⟨rfl, hm, hs, hl, hmk⟩
    · refine ⟨[0, 0, 0, UInt8.ofNat scope], by simp [packOpt, hs], ?_⟩
      simp [Opt.code, unpackOpt, beVal, ofNat_toNat_lt scope hs]
    · have hs' : scope < 256 := by omega
      refine ⟨beBytes 2 1 ++ [UInt8.ofNat mask, UInt8.ofNat scope] ++ (maskBytes mask addr).take ((mask + 7) / 8), by simp [packOpt, hs', hm, hl], ?_⟩
      have hb : beBytes 2 1 = [0, 1] := by decide
      have hp := pad_masked mask addr 4 hl hmk
      simp [Opt.code, unpackOpt, hb, beVal, ofNat_toNat_lt mask (by omega), ofNat_toNat_lt scope hs', hm, hs, hp]
    · have hs' : scope < 256 := by omega
      refine ⟨beBytes 2 2 ++ [UInt8.ofNat mask, UInt8.ofNat scope] ++ (maskBytes mask addr).take ((mask + 7) / 8), by simp [packOpt, hs', hm, hl], ?_⟩
      have hb : beBytes 2 2 = [0, 2] := by decide
      have hp := pad_masked mask addr 16 hl hmk
      simp [Opt.code, unpackOpt, hb, beVal, ofNat_toNat_lt mask (by omega), ofNat_toNat_lt scope hs', hm, hs, hp]
  | expire v =>
    cases v with
    | none => exact ⟨[], rfl, by simp [Opt.code, unpackOpt]⟩
    | some v =>
      have h' : v < 2 ^ 32 := h
      refine ⟨beBytes 4 v, by simp [packOpt, h'], ?_⟩
      have hne : (beBytes 4 v).isEmpty = false := by
        cases hx : beBytes 4 v with
        | nil => have := beBytes_len 4 v; rw [hx] at this; simp at this
        | cons _ _ => rfl
      have t4 : (beBytes 4 v).take 4 = beBytes 4 v := List.take_of_length_le (by rw [beBytes_len]; omega)
      simp [Opt.code, unpackOpt, hne, beBytes_len, t4, beVal_beBytes 4 v (by simpa using h')]
  | keepalive t =>
    have h' : t < 65536 := h
    by_cases ht : t = 0
    · subst ht
      exact ⟨[], by simp [packOpt], by simp [Opt.code, unpackOpt]⟩
    · refine ⟨beBytes 2 t, by simp [packOpt, h', Nat.pos_of_ne_zero ht], ?_⟩
      have hne : (beBytes 2 t).isEmpty = false := by
        cases hx : beBytes 2 t with
        | nil => have := beBytes_len 2 t; rw [hx] at this; simp at this
        | cons _ _ => rfl
      simp [Opt.code, unpackOpt, hne, beBytes_len, beVal_beBytes 2 t (by simpa using h')]
  | ede c text =>
    have h' : c < 65536 := h
    refine ⟨beBytes 2 c ++ text, by simp [packOpt, h'], ?_⟩
    have hl : ¬ (beBytes 2 c ++ text).length < 2 := by simp [beBytes_len]
    simp only [Opt.code, unpackOpt, ↓reduceIte, hl, take_be, drop_be, beVal_beBytes 2 c (by simpa using h')]
    simp
  | reporting agent =>
    obtain ⟨ls, hok, rfl⟩ := h
    have hf : Opt.fqdn (presentOf ls) = presentOf ls := by simp [Opt.fqdn, isFqdn_presentOf]
    refine ⟨wireOf ls, by simp only [packOpt, hf, pack_present ls hok], ?_⟩
    have := unpack_wire ls [] hok
    simp only [List.append_nil] at this
    simp [Opt.code, unpackOpt, this]
  | zoneversion labels typ ver =>
    obtain ⟨h1, h2⟩ := h
    refine ⟨[UInt8.ofNat labels, UInt8.ofNat typ] ++ ver, by simp [packOpt, h1, h2], ?_⟩
    simp [Opt.code, unpackOpt, ofNat_toNat_lt labels h1, ofNat_toNat_lt typ h2]
  | «local» c d =>
    obtain ⟨_, h0, h1, h2, h3, h4⟩ := h
    refine ⟨d, rfl, ?_⟩
    simp only [Opt.code, unpackOpt]
    have : ¬ c = 1 ∧ ¬ c = 2 ∧ ¬ c = 3 ∧ ¬ c = 4 ∧ ¬ c = 5 ∧ ¬ c = 6 ∧ ¬ c = 7 ∧ ¬ c = 8 ∧ ¬ c = 9 ∧ ¬ c = 10 ∧
        ¬ c = 11 ∧ ¬ c = 12 := by omega
    obtain ⟨a1, a2, a3, a4, a5, a6, a7, a8, a9, a10, a11, a12⟩ := this
    simp only [a1, a2, a3, a4, a5, a6, a7, a8, a9, a10, a11, a12, h2, h3, h4, ↓reduceIte]

/-! ### SVCB parameters -/

theorem sortNat_of_sorted (xs : List Nat) (h : xs.Pairwise (· < ·)) : sortNat xs = xs := by
  induction xs with
  | nil => rfl
  | cons x xs ih =>
    simp only [List.pairwise_cons] at h
    rw [sortNat, ih h.2]
    cases xs with
    | nil => rfl
    | cons y ys => simp [insertNat, h.1 y (by simp)]

theorem chunks_flatten (n : Nat) (hn : 0 < n) (xs : List Bytes) (h : ∀ x ∈ xs, x.length = n) (fuel : Nat)
    (hf : xs.flatten.length ≤ fuel) : chunks n fuel xs.flatten = xs := by
  induction xs generalizing fuel with
  | nil =>
    cases fuel with
    | zero => rfl
    | succ f => simp [chunks]
  | cons x xs ih =>
    have hx := h x (by simp)
    simp only [List.flatten_cons, List.length_append] at hf ⊢
    cases fuel with
    | zero => omega
    | succ f =>
      have hne : (x ++ xs.flatten).isEmpty = false := by
        cases x with
        | nil => simp at hx; omega
        | cons _ _ => rfl
      simp only [chunks, hne, Bool.false_eq_true, ↓reduceIte]
      rw [List.take_left' hx, List.drop_left' hx, ih (fun y hy => h y (by simp [hy])) f (by omega)]

theorem alpn_roundtrip (ids : List Bytes) (h : ∀ e ∈ ids, e ≠ [] ∧ e.length ≤ 255) :
    ∃ w, packAlpn ids = some w ∧ ∀ fuel, w.length < fuel → unpackAlpn fuel w = some ids := by
  induction ids with
  | nil => exact ⟨[], rfl, by intro fuel hf; cases fuel with | zero => omega | succ f => rfl⟩
  | cons e rest ih =>
    obtain ⟨hne, hl⟩ := h e (by simp)
    obtain ⟨w, hw, hu⟩ := ih (fun x hx => h x (by simp [hx]))
    have he : e.isEmpty = false := by
      cases e with
      | nil => exact absurd rfl hne
      | cons _ _ => rfl
    refine ⟨UInt8.ofNat e.length :: e ++ w, by simp [packAlpn, he, hw]; omega, ?_⟩
    intro fuel hf
    cases fuel with
    | zero => omega
    | succ f =>
      simp only [List.cons_append, unpackAlpn, ofNat_toNat_le e.length hl, List.length_append]
      have : e.length ≤ e.length + w.length := by omega
      simp only [this, ↓reduceIte, List.take_left', List.drop_left']
      rw [hu f (by simp at hf; omega)]
      rfl

/-- canonical parameter values -/
def ParamWF : Param → Prop
  | .mandatory codes => codes.Pairwise (· < ·) ∧ ∀ c ∈ codes, c < 65536
  | .alpn ids => ∀ e ∈ ids, e ≠ [] ∧ e.length ≤ 255
  | .port p => p < 65536
  | .ipv4hint ips => ips ≠ [] ∧ ∀ ip ∈ ips, ip.length = 4
  | .ipv6hint ips => ips ≠ [] ∧ ∀ ip ∈ ips, ip.length = 16 ∧ isV4Mapped ip = false
  | .local k _ => 9 ≤ k ∧ k < 65535
  | _ => True

theorem flatten_len_pos (n : Nat) (hn : 0 < n) (xs : List Bytes) (hne : xs ≠ []) (h : ∀ x ∈ xs, x.length = n) :
    xs.flatten.isEmpty = false ∧ xs.flatten.length % n = 0 := by
  induction xs with
  | nil => exact absurd rfl hne
  | cons x xs ih =>
    have hx := h x (by simp)
    constructor
    · cases x with
      | nil => simp at hx; omega
      | cons _ _ => rfl
    · simp only [List.flatten_cons, List.length_append, hx]
      by_cases hxs : xs = []
      · subst hxs; simp
      · have := (ih hxs (fun y hy => h y (by simp [hy]))).2
        rw [Nat.add_mod_left]; exact this

/-- **every parameter**: unpacking what `pack()` wrote returns the parameter -/
theorem param_roundtrip (p : Param) (h : ParamWF p) : ∃ w, packParam p = some w ∧ unpackParam p.key w = some p := by
  cases p with
  | mandatory codes =>
    obtain ⟨hs, hr⟩ := h
    have hall : codes.all (· < 65536) = true := by simpa using hr
    refine ⟨codes.flatMap (beBytes 2), by simp [packParam, hall, sortNat_of_sorted codes hs], ?_⟩
    have hfl : codes.flatMap (beBytes 2) = (codes.map (beBytes 2)).flatten := by simp [List.flatMap]
    have hlen : ∀ x ∈ codes.map (beBytes 2), x.length = 2 := by
      intro x hx; obtain ⟨c, _, rfl⟩ := List.mem_map.mp hx; exact beBytes_len 2 c
    have hmod : (codes.flatMap (beBytes 2)).length % 2 = 0 := by
      rw [hfl]
      by_cases hc : codes = []
      · subst hc; rfl
      · exact (flatten_len_pos 2 (by omega) _ (by simpa using hc) hlen).2
    simp only [Param.key, unpackParam, ↓reduceIte, hmod, ne_eq, not_true_eq_false]
    rw [hfl, chunks_flatten 2 (by omega) _ hlen _ (Nat.le_refl _)]
    congr 1
    clear hs hall hfl hlen hmod
    induction codes with
    | nil => rfl
    | cons c cs ih =>
      have hc : c < 256 ^ 2 := Nat.lt_of_lt_of_le (hr c (by simp)) (by decide)
      have := ih (fun x hx => hr x (by simp [hx]))
      simp only [Param.mandatory.injEq] at this
      simp only [List.map_cons, beVal_beBytes 2 c hc, this]
  | alpn ids =>
    obtain ⟨w, h1, h2⟩ := alpn_roundtrip ids h
    exact ⟨w, h1, by simp [Param.key, unpackParam, h2 (w.length + 1) (by omega)]⟩
  | noDefaultAlpn => exact ⟨[], rfl, by simp [Param.key, unpackParam]⟩
  | ohttp => exact ⟨[], rfl, by simp [Param.key, unpackParam]⟩
  | port p =>
    have h' : p < 65536 := h
    exact ⟨beBytes 2 p, by simp [packParam, h'], by simp [Param.key, unpackParam, beBytes_len, beVal_beBytes 2 p (by simpa using h')]⟩
  | ipv4hint ips =>
    obtain ⟨hne, hl⟩ := h
    have hall : ips.all (fun ip => ip.length == 4) = true := by simpa using hl
    obtain ⟨e1, e2⟩ := flatten_len_pos 4 (by omega) ips hne hl
    refine ⟨ips.flatten, by simp [packParam, hall], ?_⟩
    have hk : ∀ b : Bytes, unpackParam 4 b =
        if b.isEmpty ∨ b.length % 4 ≠ 0 then none else some (.ipv4hint (chunks 4 b.length b)) := by
      intro b; simp [unpackParam]
    rw [Param.key, hk, if_neg (by rw [e1, e2]; simp), chunks_flatten 4 (by omega) ips hl _ (Nat.le_refl _)]
  | ipv6hint ips =>
    obtain ⟨hne, hl⟩ := h
    have hall : ips.all (fun ip => ip.length == 16 && !isV4Mapped ip) = true := by
      simp only [List.all_eq_true, Bool.and_eq_true, beq_iff_eq, Bool.not_eq_true']
      exact hl
    obtain ⟨e1, e2⟩ := flatten_len_pos 16 (by omega) ips hne (fun x hx => (hl x hx).1)
    refine ⟨ips.flatten, by simp [packParam, hall], ?_⟩
    have hany : ips.any isV4Mapped = false := by
      simp only [List.any_eq_false, Bool.not_eq_true]
      exact fun x hx => (hl x hx).2
    have hk : ∀ b : Bytes, unpackParam 6 b =
        if b.isEmpty ∨ b.length % 16 ≠ 0 then none
        else if (chunks 16 b.length b).any isV4Mapped then none else some (.ipv6hint (chunks 16 b.length b)) := by
      intro b; simp [unpackParam]
    rw [Param.key, hk, if_neg (by rw [e1, e2]; simp), chunks_flatten 16 (by omega) ips (fun x hx => (hl x hx).1) _ (Nat.le_refl _),
      hany]
    rfl
  | ech d => exact ⟨d, rfl, by simp [Param.key, unpackParam]⟩
  | dohpath d => exact ⟨d, rfl, by simp [Param.key, unpackParam]⟩
  | «local» k d =>
    obtain ⟨h1, h2⟩ := h
    refine ⟨d, rfl, ?_⟩
    simp only [Param.key, unpackParam]
    have : ¬ k = 0 ∧ ¬ k = 1 ∧ ¬ k = 2 ∧ ¬ k = 3 ∧ ¬ k = 4 ∧ ¬ k = 5 ∧ ¬ k = 6 ∧ ¬ k = 7 ∧ ¬ k = 8 ∧ ¬ k = 65535 := by omega
    obtain ⟨a0, a1, a2, a3, a4, a5, a6, a7, a8, a9⟩ := this
    simp only [a0, a1, a2, a3, a4, a5, a6, a7, a8, a9, ↓reduceIte]

/-! ### whole option / parameter lists -/

theorem opt_code_lt (o : Opt) (h : OptWF o) : o.code < 65536 := by
  cases o <;> simp only [Opt.code] <;> first | omega | exact h.1

theorem param_key_lt (p : Param) (h : ParamWF p) : p.key < 65535 := by
  cases p <;> simp only [Param.key] <;> first | omega | exact h.2

theorem mapM_pack_opts (opts : List Opt) (h : ∀ o ∈ opts, OptWF o)
    (hlen : ∀ o ∈ opts, ∀ w, packOpt o = some w → w.length < 65536) :
    ∃ kv, opts.mapM (fun o => (packOpt o).map (fun d => (o.code, d))) = some kv ∧ TlvOK kv ∧
      kv.mapM (fun x => unpackOpt x.1 x.2) = some opts := by
  induction opts with
  | nil => exact ⟨[], rfl, by intro x hx; simp at hx, rfl⟩
  | cons o rest ih =>
    obtain ⟨w, hp, hu⟩ := opt_roundtrip o (h o (by simp))
    obtain ⟨kv, h1, h2, h3⟩ := ih (fun x hx => h x (by simp [hx])) (fun x hx => hlen x (by simp [hx]))
    refine ⟨(o.code, w) :: kv, by simp [List.mapM_cons, hp, h1], ?_, by simp [List.mapM_cons, hu, h3]⟩
    intro x hx
    rcases List.mem_cons.mp hx with rfl | hx
    · exact ⟨opt_code_lt o (h o (by simp)), hlen o (by simp) w hp⟩
    · exact h2 x hx

/-- **the RDATA of an OPT record**: any list of canonical options (values below 64 KiB) is packed and read back -/
theorem options_roundtrip (opts : List Opt) (h : ∀ o ∈ opts, OptWF o)
    (hlen : ∀ o ∈ opts, ∀ w, packOpt o = some w → w.length < 65536) :
    ∃ w, packOpts opts = some w ∧ unpackOpts w = some opts := by
  obtain ⟨kv, h1, h2, h3⟩ := mapM_pack_opts opts h hlen
  obtain ⟨w, hp, hu⟩ := tlvs_roundtrip false kv h2
  refine ⟨w, by simp [packOpts, h1, hp], ?_⟩
  simp [unpackOpts, hu (w.length + 1) none (by omega) (by intro hf; cases hf), h3]

theorem mapM_pack_params (ps : List Param) (h : ∀ p ∈ ps, ParamWF p)
    (hlen : ∀ p ∈ ps, ∀ w, packParam p = some w → w.length < 65536) :
    ∃ kv, ps.mapM (fun p => (packParam p).map (fun d => (p.key, d))) = some kv ∧ TlvOK kv ∧
      kv.map (·.1) = ps.map Param.key ∧ kv.mapM (fun x => unpackParam x.1 x.2) = some ps := by
  induction ps with
  | nil => exact ⟨[], rfl, by intro x hx; simp at hx, rfl, rfl⟩
  | cons p rest ih =>
    obtain ⟨w, hp, hu⟩ := param_roundtrip p (h p (by simp))
    obtain ⟨kv, h1, h2, h3, h4⟩ := ih (fun x hx => h x (by simp [hx])) (fun x hx => hlen x (by simp [hx]))
    refine ⟨(p.key, w) :: kv, by simp [List.mapM_cons, hp, h1], ?_, by simp [h3], by simp [List.mapM_cons, hu, h4]⟩
    intro x hx
    rcases List.mem_cons.mp hx with rfl | hx
    · exact ⟨by have := param_key_lt p (h p (by simp)); omega, hlen p (by simp) w hp⟩
    · exact h2 x hx

/-- **the parameters of an SVCB / HTTPS record**: any list of canonical parameters in strictly increasing key order is
    packed and read back -/
theorem params_roundtrip (ps : List Param) (h : ∀ p ∈ ps, ParamWF p)
    (hlen : ∀ p ∈ ps, ∀ w, packParam p = some w → w.length < 65536)
    (hkeys : (ps.map Param.key).Pairwise (· < ·)) :
    ∃ w, packParams ps = some w ∧ unpackParams w = some ps := by
  obtain ⟨kv, h1, h2, h3, h4⟩ := mapM_pack_params ps h hlen
  have hsorted : (kv.map (·.1)).Pairwise (· < ·) := by rw [h3]; exact hkeys
  have hne : ∀ x ∈ kv, x.1 ≠ 65535 := by
    intro x hx
    have : x.1 ∈ ps.map Param.key := by rw [← h3]; exact List.mem_map_of_mem hx
    obtain ⟨p, hp, hk⟩ := List.mem_map.mp this
    have := param_key_lt p (h p hp)
    omega
  obtain ⟨w, hp, hu⟩ := tlvs_roundtrip true kv h2
  refine ⟨w, by simp [packParams, h1, sortKV_of_sorted kv hsorted, svcbKeysOK_sorted 65535 kv hsorted hne, hp], ?_⟩
  simp [unpackParams, hu (w.length + 1) none (by omega) (fun _ => ⟨hsorted, hne, by intro p hp; cases hp⟩), h4]

end Dns.C01O
