#!/usr/bin/env python3
"""usage: dupcheck.py <dir-with-new-deliverables>   closest earlier seeded change (Jaccard on changed lines) for each new patch"""
import os,re,glob,sys
def sig(path):
    ls=[]
    for l in open(path,errors='replace'):
        if (l.startswith('+') or l.startswith('-')) and not l.startswith('+++') and not l.startswith('---'):
            t=l[1:].strip()
            if t and not t.startswith('//'):
                ls.append(l[0]+re.sub(r'\s+','',t))
    return set(ls)
old={os.path.basename(d):sig(d+'/patch.diff') for d in glob.glob('/verif/seeded/C*')}
for d in sorted(glob.glob(sys.argv[1]+'/C*')):
    if not os.path.isfile(d+'/patch.diff'): continue
    n=os.path.basename(d); s=sig(d+'/patch.diff')
    best=max(((len(s&o)/max(1,len(s|o)),k) for k,o in old.items() if k!=n),default=(0,''))
    print(n,'lines',len(s),'closest',best[1],'jaccard %.2f'%best[0])
